import Wasp.Model.Broker
import Wasp.Properties.C13
import Wasp.Proofs.Dist
import Wasp.Proofs.DistSync
/-!
Helper lemmas for C11 / C12: frame properties of the broker model with respect to the
session registries (`Node.reg`) and the replicated state (`Node.dist`).
-/
namespace Wasp.Broker.AgentD
open Wasp.Dist Wasp.Topic Wasp.Broker

/-! ### generic -/

theorem foldl_inv {α β : Type} (P : β → Prop) (f : β → α → β) (l : List α) (b : β)
    (h0 : P b) (hs : ∀ b a, a ∈ l → P b → P (f b a)) : P (l.foldl f b) := by
  induction l generalizing b with
  | nil => simpa using h0
  | cons x xs ih =>
    simp only [List.foldl_cons]
    exact ih _ (hs _ _ (by simp) h0) (fun b a ha hb => hs b a (by simp [ha]) hb)

/-! ### node / setNode -/

theorem node_setNode (w : World) (i : Nat) (n : Node) (j : Nat) :
    (w.setNode i n).node j = if j = i ∧ i < w.nodes.length then n else w.node j := by
  simp only [World.node, World.setNode, List.getD_eq_getElem?_getD, List.getElem?_set]
  by_cases h : i = j
  · subst h
    by_cases h2 : i < w.nodes.length
    · simp [h2]
    · simp [h2]
  · have : ¬ j = i := fun e => h e.symm
    simp [h, this]

theorem node_setNode_self (w : World) (i : Nat) (n : Node) (hi : i < w.nodes.length) :
    (w.setNode i n).node i = n := by
  simp [node_setNode, hi]

theorem node_setNode_ne (w : World) (i : Nat) (n : Node) (j : Nat) (h : j ≠ i) :
    (w.setNode i n).node j = w.node j := by
  simp [node_setNode, h]

theorem node_oob (w : World) (i : Nat) (h : w.nodes.length ≤ i) :
    w.node i = { peer := 0, dist := { peer := 0 }, pool := initPool } := by
  simp [World.node, List.getD_eq_getElem?_getD, List.getElem?_eq_none h]

@[simp] theorem setNode_length (w : World) (i : Nat) (n : Node) :
    (w.setNode i n).nodes.length = w.nodes.length := by
  simp [World.setNode]

@[simp] theorem setNode_now (w : World) (i : Nat) (n : Node) : (w.setNode i n).now = w.now := rfl
@[simp] theorem setNode_clock (w : World) (i : Nat) (n : Node) : (w.setNode i n).clock = w.clock := rfl
@[simp] theorem setNode_out (w : World) (i : Nat) (n : Node) : (w.setNode i n).out = w.out := rfl
@[simp] theorem setNode_conns (w : World) (i : Nat) (n : Node) : (w.setNode i n).conns = w.conns := rfl
@[simp] theorem setNode_epoch (w : World) (i : Nat) (n : Node) : (w.setNode i n).epoch = w.epoch := rfl

theorem node_congr {w w' : World} (h : w'.nodes = w.nodes) (j : Nat) : w'.node j = w.node j := by
  simp [World.node, h]

/-! ### the registry relation -/

/-- node-level: same session ids in the same order; and every id all of whose sessions were within
    their deadline (at time `now`) still has that property. -/
def NodeRel (now : Int) (n n' : Node) : Prop :=
  n'.reg.map (·.id) = n.reg.map (·.id) ∧
  ∀ sid, (∀ x ∈ n.reg, x.id = sid → now ≤ x.deadline) → (∀ x ∈ n'.reg, x.id = sid → now ≤ x.deadline)

theorem NodeRel.refl (now : Int) (n : Node) : NodeRel now n n := ⟨rfl, fun _ h => h⟩

theorem NodeRel.trans {now : Int} {a b c : Node} (h1 : NodeRel now a b) (h2 : NodeRel now b c) :
    NodeRel now a c := ⟨h2.1.trans h1.1, fun sid h => h2.2 sid (h1.2 sid h)⟩

theorem NodeRel.of_reg_eq {now : Int} {n n' : Node} (h : n'.reg = n.reg) : NodeRel now n n' := by
  refine ⟨by rw [h], fun sid hx => by rw [h]; exact hx⟩

theorem sess_some {n : Node} {sid : String} {s : Sess} (h : n.sess sid = some s) : s ∈ n.reg ∧ s.id = sid := by
  unfold Node.sess at h
  exact ⟨List.mem_of_find?_eq_some h, by simpa using List.find?_some h⟩

theorem sess_none {n : Node} {sid : String} (h : n.sess sid = none) : ∀ x ∈ n.reg, x.id ≠ sid := by
  unfold Node.sess at h
  intro x hx
  have := List.find?_eq_none.mp h x hx
  simpa using this

theorem NodeRel.setSess {now : Int} {n : Node} {sid : String} {s s' : Sess} (h : n.sess sid = some s)
    (hid : s'.id = s.id) (hd : now ≤ s.deadline → now ≤ s'.deadline) : NodeRel now n (n.setSess s') := by
  obtain ⟨hmem, hsid⟩ := sess_some h
  constructor
  · simp only [Node.setSess, List.map_map]
    apply List.map_congr_left
    intro x _
    simp only [Function.comp]
    split <;> simp_all
  · intro sd hall x hx hxid
    simp only [Node.setSess, List.mem_map] at hx
    obtain ⟨y, hy, rfl⟩ := hx
    split at hxid
    · rename_i hc
      simp only [hc, if_true]
      exact hd (hall s hmem (by rw [← hid]; exact hxid))
    · rename_i hc
      simp only [hc]
      exact hall y hy hxid

structure SameReg (w w' : World) : Prop where
  len : w'.nodes.length = w.nodes.length
  now : w'.now = w.now
  reg : ∀ j, NodeRel w.now (w.node j) (w'.node j)

theorem SameReg.refl (w : World) : SameReg w w := ⟨rfl, rfl, fun _ => NodeRel.refl _ _⟩

theorem SameReg.trans {a b c : World} (h1 : SameReg a b) (h2 : SameReg b c) : SameReg a c :=
  ⟨h2.len.trans h1.len, h2.now.trans h1.now, fun j => (h1.reg j).trans (h1.now ▸ h2.reg j)⟩

theorem SameReg.of_nodes_eq {w w' : World} (h : w'.nodes = w.nodes) (hn : w'.now = w.now) : SameReg w w' :=
  ⟨by rw [h], hn, fun j => by rw [node_congr h]; exact NodeRel.refl _ _⟩

theorem SameReg.setNode (w : World) (i : Nat) (n' : Node) (h : NodeRel w.now (w.node i) n') :
    SameReg w (w.setNode i n') := by
  refine ⟨by simp, rfl, fun j => ?_⟩
  rw [node_setNode]
  split
  · rename_i hc; rw [hc.1]; exact h
  · exact NodeRel.refl _ _

theorem SameReg.ids {w w' : World} (h : SameReg w w') (j : Nat) :
    (w'.node j).reg.map (·.id) = (w.node j).reg.map (·.id) := (h.reg j).1

theorem SameReg.foldl {α : Type} (f : World → α → World) (l : List α) (w : World)
    (hs : ∀ w a, SameReg w (f w a)) : SameReg w (l.foldl f w) :=
  foldl_inv (fun w' => SameReg w w') f l w (SameReg.refl w) (fun b a _ hb => hb.trans (hs b a))

/-! ### every non-removing world function is `SameReg` -/

theorem sr_emit (w : World) (c : String) (p : Pkt) : SameReg w (w.emit c p) :=
  SameReg.of_nodes_eq rfl rfl

theorem sr_tick (w : World) : SameReg w w.tick.1 := SameReg.of_nodes_eq rfl rfl

@[simp] theorem tick_now (w : World) : w.tick.1.now = w.now := rfl
@[simp] theorem emit_now (w : World) (c : String) (p : Pkt) : (w.emit c p).now = w.now := rfl

theorem sr_setNode_reg (w : World) (i : Nat) (n' : Node) (h : n'.reg = (w.node i).reg) :
    SameReg w (w.setNode i n') := SameReg.setNode w i n' (NodeRel.of_reg_eq h)

/-- peel the last operation off the right-hand world -/
macro "sr_back " t:term : tactic => `(tactic| refine SameReg.trans ?_ $t)
macro "sr_setnode" : tactic => `(tactic| refine SameReg.trans ?_ (sr_setNode_reg _ _ _ rfl))

theorem sr_broadcast (w : World) (i : Nat) (ev : Event) : SameReg w (w.broadcast i ev) := by
  unfold World.broadcast
  exact sr_setNode_reg _ _ _ rfl

theorem sr_extendDeadline (w : World) (i : Nat) (sid : String) : SameReg w (w.extendDeadline i sid) := by
  unfold World.extendDeadline
  simp only []
  split
  · rename_i s hs
    apply SameReg.setNode
    refine NodeRel.setSess hs rfl ?_
    intro _; simp only; omega
  · exact SameReg.refl w

theorem sr_subCreate (w : World) (i : Nat) (sid pat : String) (qos : Int) : SameReg w (w.subCreate i sid pat qos) := by
  simp only [World.subCreate]
  sr_back (sr_broadcast _ _ _)
  sr_setnode
  exact sr_tick w

theorem sr_subDelete (w : World) (i : Nat) (sid pat : String) : SameReg w (w.subDelete i sid pat) := by
  simp only [World.subDelete]
  sr_back (sr_broadcast _ _ _)
  sr_setnode
  exact sr_tick w

theorem sr_sessDelete (w : World) (i : Nat) (sid : String) : SameReg w (w.sessDelete i sid) := by
  simp only [World.sessDelete]
  split
  · sr_back (sr_broadcast _ _ _)
    sr_setnode
    exact sr_tick w
  · sr_setnode
    exact sr_tick w

theorem sr_poolPut (w : World) (i : Nat) (mid : Int) : SameReg w (w.poolPut i mid) := by
  unfold World.poolPut
  exact sr_setNode_reg _ _ _ rfl

theorem sr_armAndSend (w : World) (i : Nat) (st : Stored) : SameReg w (w.armAndSend i st) := by
  unfold World.armAndSend
  cases st with
  | out1 sid topic payload retain dup mid =>
    simp only
    split
    · exact SameReg.refl w
    · split
      · sr_back (sr_emit _ _ _)
        sr_setnode
        exact sr_extendDeadline w i sid
      · exact sr_extendDeadline w i sid
  | out2 sid topic payload retain dup mid =>
    simp only
    split
    · exact SameReg.refl w
    · split
      · sr_back (sr_emit _ _ _)
        sr_setnode
        exact sr_extendDeadline w i sid
      · exact sr_extendDeadline w i sid
  | rel sid mid =>
    simp only
    split
    · exact SameReg.refl w
    · sr_back (sr_emit _ _ _)
      refine SameReg.trans ?_ (sr_setNode_reg _ _ _ ?_)
      · exact sr_extendDeadline w i sid
      · split <;> rfl
  | inbound => exact SameReg.refl w

theorem sr_sendArmed (w : World) (i : Nat) (st : Stored) (sid : String) (mid : Int) :
    SameReg w (w.sendArmed i st sid mid) := by
  unfold World.sendArmed
  simp only
  split
  · exact (sr_armAndSend w i st).trans (sr_poolPut _ _ _)
  · exact sr_armAndSend w i st

theorem sr_send (w : World) (i : Nat) (l : List (String × Int)) (p : Pub) : SameReg w (w.send i l p) := by
  induction l generalizing w with
  | nil => simp only [World.send]; exact SameReg.refl w
  | cons x rest ih =>
    obtain ⟨sid, qos⟩ := x
    simp only [World.send]
    split
    · exact ih w
    · split
      · refine SameReg.trans ?_ (ih _)
        sr_back (sr_emit _ _ _)
        exact sr_extendDeadline w i sid
      · split
        · split
          · exact SameReg.refl w
          · refine SameReg.trans ?_ (ih _)
            sr_back (sr_sendArmed _ _ _ _ _)
            sr_setnode
            exact SameReg.refl w
        · exact ih w


theorem sr_onResolved (w : World) (i : Nat) (ev : Ack.Resolved) (st : Stored) : SameReg w (w.onResolved i ev st) := by
  unfold World.onResolved
  cases st <;> simp only <;> repeat' split
  all_goals first | exact sr_armAndSend _ _ _ | exact sr_poolPut _ _ _ | exact SameReg.refl _

theorem sr_deliverLocal (w : World) (j : Nat) (p : Pub) : SameReg w (w.deliverLocal j p) := by
  unfold World.deliverLocal
  exact sr_send _ _ _ _

theorem appendLog_reg (n : Node) (p : Pub) : (n.appendLog p).1.reg = n.reg := by
  unfold Node.appendLog; simp only; split <;> rfl

theorem sr_distribute (w : World) (i : Nat) (p : Pub) : SameReg w (w.distribute i p).1 := by
  unfold World.distribute
  simp only
  apply foldl_inv (P := fun (acc : World × Bool) => SameReg w acc.1)
  · exact SameReg.refl w
  · intro acc peer _ hacc
    split
    · exact hacc
    · split
      · exact hacc
      · split
        · refine hacc.trans ?_
          sr_back (sr_deliverLocal _ _ _)
          exact sr_setNode_reg _ _ _ (appendLog_reg _ _)
        · refine hacc.trans ?_
          exact sr_setNode_reg _ _ _ (appendLog_reg _ _)

/-- the retain handling of the publish worker -/
def retainStep (w : World) (i : Nat) (p : Pub) : World :=
  if p.retain then
    let (w, t) := w.tick
    let n := w.node i
    let (d, ev) := if p.payload = "" then topicDelete n.dist t p.topic else topicSet n.dist t p.topic p.payload p.qos true p.dup
    (w.setNode i { n with dist := d }).broadcast i ev
  else w

theorem publishJob_eq (w : World) (i : Nat) (p : Pub) (onOk : World → World) :
    w.publishJob i p onOk =
      if ((retainStep w i p).distribute i { p with retain := false }).2
      then onOk ((retainStep w i p).distribute i { p with retain := false }).1
      else ((retainStep w i p).distribute i { p with retain := false }).1 := rfl

theorem sr_retainStep (w : World) (i : Nat) (p : Pub) : SameReg w (retainStep w i p) := by
  unfold retainStep
  split
  · simp only [World.tick]
    sr_back (sr_broadcast _ _ _)
    sr_setnode
    exact SameReg.of_nodes_eq rfl rfl
  · exact SameReg.refl w

theorem sr_publishJob (w : World) (i : Nat) (p : Pub) (onOk : World → World) (h : ∀ w, SameReg w (onOk w)) :
    SameReg w (w.publishJob i p onOk) := by
  rw [publishJob_eq]
  split
  · exact ((sr_retainStep w i p).trans (sr_distribute _ _ _)).trans (h _)
  · exact (sr_retainStep w i p).trans (sr_distribute _ _ _)


theorem SameReg.foldl' {α : Type} (f : World → α → World) (l : List α) (w b : World) (h0 : SameReg w b)
    (hs : ∀ w a, SameReg w (f w a)) : SameReg w (l.foldl f b) := h0.trans (SameReg.foldl f l b hs)

theorem sr_ackFrom (w : World) (i : Nat) (pfx : String) (kind : Ack.PType) (mid : Int) :
    SameReg w (w.ackFrom i pfx kind mid) := by
  unfold World.ackFrom
  simp only
  refine SameReg.foldl' _ _ _ _ (sr_setNode_reg _ _ _ rfl) ?_
  intro w ev
  split
  · exact SameReg.refl w
  · rename_i st _
    cases st with
    | inbound a conn pub imid =>
      simp only
      sr_back (sr_publishJob _ _ _ _ (fun w => sr_emit _ _ _))
      sr_setnode
      exact SameReg.refl w
    | _ =>
      simp only
      sr_back (sr_onResolved _ _ _ _)
      sr_setnode
      exact SameReg.refl w

theorem sr_deliverGossip (w : World) (a b : Nat) : SameReg w (w.deliverGossip a b) := by
  unfold World.deliverGossip
  simp only
  split
  · exact sr_setNode_reg _ _ _ rfl
  · sr_setnode
    exact sr_setNode_reg _ _ _ rfl

theorem sr_sweep (w : World) (i : Nat) : SameReg w (w.sweep i) := by
  unfold World.sweep
  simp only
  refine SameReg.foldl' _ _ _ _ ?_ ?_
  · sr_setnode
    exact SameReg.of_nodes_eq rfl rfl
  intro w ev
  split
  · exact SameReg.refl w
  · sr_back (sr_onResolved _ _ _ _)
    sr_setnode
    exact SameReg.refl w


theorem sr_process (w : World) (i : Nat) (sid : String) (pkt : CPkt) : SameReg w (w.process i sid pkt).1 := by
  unfold World.process
  simp only
  split
  · exact SameReg.refl w
  · rename_i s hs
    cases pkt with
    | connect => exact SameReg.refl w
    | publish topic payload qos retain dup mid =>
      simp only
      split
      · exact sr_publishJob _ _ _ _ (fun w => SameReg.refl w)
      · split
        · exact sr_publishJob _ _ _ _ (fun w => sr_emit _ _ _)
        · split
          · split
            · sr_back (sr_emit _ _ _)
              exact sr_setNode_reg _ _ _ rfl
            · exact SameReg.refl w
          · exact SameReg.refl w
    | subscribe mid topics =>
      simp only
      refine SameReg.foldl' _ _ _ _ ?_ ?_
      · sr_back (sr_emit _ _ _)
        refine SameReg.foldl' _ _ _ _ (SameReg.refl w) ?_
        intro w tq
        refine (sr_subCreate w i sid tq.1 tq.2).trans ?_
        split
        · rename_i s' hs'
          split
          · exact SameReg.refl _
          · apply SameReg.setNode
            exact NodeRel.setSess hs' rfl (fun h => h)
        · exact SameReg.refl _
      · intro w tq
        refine SameReg.foldl' _ _ _ _ (SameReg.refl w) ?_
        intro w r
        exact sr_send _ _ _ _
    | unsubscribe mid topics =>
      simp only
      sr_back (sr_emit _ _ _)
      refine SameReg.foldl' _ _ _ _ (SameReg.refl w) ?_
      intro w t
      refine (sr_subDelete w i sid (prefixMountPoint s.mount t)).trans ?_
      split
      · rename_i s' hs'
        apply SameReg.setNode
        exact NodeRel.setSess hs' rfl (fun h => h)
      · exact SameReg.refl _
    | puback mid => exact sr_ackFrom _ _ _ _ _
    | pubrec mid => exact sr_ackFrom _ _ _ _ _
    | pubrel mid => exact sr_ackFrom _ _ _ _ _
    | pubcomp mid => exact sr_ackFrom _ _ _ _ _
    | pingreq =>
      simp only
      split
      · split
        · exact sr_emit _ _ _
        · exact SameReg.refl w
      · exact SameReg.refl w
      · split
        · exact sr_emit _ _ _
        · exact SameReg.refl w
    | disconnect => exact SameReg.refl w
    | other => exact SameReg.refl w


/-- the world after unregistering, closing and deleting the subscriptions (before the record) -/
def tdBase (w : World) (i : Nat) (s : Sess) : World :=
  let n := w.node i
  let w := (w.setNode i { n with reg := n.reg.filter (fun x => x.id != s.id) }).emit s.conn .closed
  let w := { w with conns := w.conns.filter (fun (c : String × Nat) => c.1 != s.conn) }
  s.topics.foldl (fun w t => w.subDelete i s.id t) w

theorem teardown_eq (w : World) (i : Nat) (s : Sess) :
    teardown w i s =
      (if (sessByClientID ((tdBase w i s).node i).dist s.mount s.client).any (fun md => md.id == s.id)
         then (tdBase w i s).sessDelete i s.id else tdBase w i s,
       (sessByClientID ((tdBase w i s).node i).dist s.mount s.client).any (fun md => md.id != s.id)) := rfl

theorem shutdown_eq0 (w : World) (i : Nat) (s : Sess) (hs : (w.node i).sess s.id = some s) :
    w.shutdownSession i s.id =
      if (teardown w i s).2 then (teardown w i s).1
      else if s.disconnected then (teardown w i s).1
      else match s.will with
        | none => (teardown w i s).1
        | some lwt => (teardown w i s).1.publishJob i ⟨prefixMountPoint s.mount lwt.topic, lwt.payload, lwt.qos, lwt.retain, false⟩ id := by
  unfold World.shutdownSession
  simp only [hs]
  rfl

theorem shutdown_eq (w : World) (i : Nat) (sid : String) (s : Sess) (hs : (w.node i).sess sid = some s) :
    w.shutdownSession i sid =
      if (teardown w i s).2 then (teardown w i s).1
      else if s.disconnected then (teardown w i s).1
      else match s.will with
        | none => (teardown w i s).1
        | some lwt => (teardown w i s).1.publishJob i ⟨prefixMountPoint s.mount lwt.topic, lwt.payload, lwt.qos, lwt.retain, false⟩ id := by
  obtain ⟨_, hid⟩ := sess_some hs
  subst hid
  exact shutdown_eq0 w i s hs

/-- the world with session `sid` taken out of node i's registry -/
def unreg (w : World) (i : Nat) (sid : String) : World :=
  w.setNode i { w.node i with reg := (w.node i).reg.filter (fun x => x.id != sid) }

theorem sr_tdBase (w : World) (i : Nat) (s : Sess) : SameReg (unreg w i s.id) (tdBase w i s) := by
  unfold tdBase
  simp only
  refine SameReg.foldl' _ _ _ _ ?_ (fun w t => sr_subDelete w i s.id t)
  exact SameReg.of_nodes_eq rfl rfl

theorem sr_teardown (w : World) (i : Nat) (s : Sess) : SameReg (unreg w i s.id) (teardown w i s).1 := by
  rw [teardown_eq]
  split
  · exact (sr_tdBase w i s).trans (sr_sessDelete _ _ _)
  · exact sr_tdBase w i s

theorem sr_unreg_none (w : World) (i : Nat) (sid : String) (h : (w.node i).sess sid = none) :
    SameReg (unreg w i sid) w := by
  refine ⟨by simp [unreg], rfl, fun j => ?_⟩
  unfold unreg
  rw [node_setNode]
  split
  · rename_i hc
    rw [hc.1]
    apply NodeRel.of_reg_eq
    simp only
    symm
    rw [List.filter_eq_self]
    intro x hx
    simpa using sess_none h x hx
  · exact NodeRel.refl _ _

theorem sr_shutdown (w : World) (i : Nat) (sid : String) : SameReg (unreg w i sid) (w.shutdownSession i sid) := by
  cases hs : (w.node i).sess sid with
  | none =>
    have : w.shutdownSession i sid = w := by unfold World.shutdownSession; simp only [hs]
    rw [this]
    exact sr_unreg_none w i sid hs
  | some s =>
    rw [shutdown_eq w i sid s hs]
    obtain ⟨_, hid⟩ := sess_some hs
    subst hid
    split
    · exact sr_teardown w i s
    · split
      · exact sr_teardown w i s
      · split
        · exact sr_teardown w i s
        · exact (sr_teardown w i s).trans (sr_publishJob _ _ _ _ (fun w => SameReg.refl w))


theorem reg_oob (w : World) (i : Nat) (h : w.nodes.length ≤ i) : (w.node i).reg = [] := by
  rw [node_oob w i h]

theorem reg_unreg (w : World) (i : Nat) (sid : String) (j : Nat) :
    ((unreg w i sid).node j).reg =
      if j = i then (w.node j).reg.filter (fun x => x.id != sid) else (w.node j).reg := by
  unfold unreg
  rw [node_setNode]
  by_cases hji : j = i
  · subst hji
    by_cases hlt : j < w.nodes.length
    · simp [hlt]
    · simp [hlt, reg_oob w j (by omega)]
  · simp [hji]

theorem mem_ids_unreg (w : World) (i : Nat) (sid : String) (j : Nat) (sid' : String) :
    sid' ∈ ((unreg w i sid).node j).reg.map (·.id) ↔
      sid' ∈ (w.node j).reg.map (·.id) ∧ (j = i → sid' ≠ sid) := by
  rw [reg_unreg]
  split
  · rename_i h
    simp only [List.mem_map, List.mem_filter, h, true_imp_iff]
    constructor
    · rintro ⟨x, ⟨hx, hne⟩, rfl⟩
      exact ⟨⟨x, hx, rfl⟩, by simpa using hne⟩
    · rintro ⟨⟨x, hx, rfl⟩, hne⟩
      exact ⟨x, ⟨hx, by simpa using hne⟩, rfl⟩
  · rename_i h
    simp [h]

theorem sess_eq_none_iff (n : Node) (sid : String) : n.sess sid = none ↔ sid ∉ n.reg.map (·.id) := by
  unfold Node.sess
  simp only [List.find?_eq_none, List.mem_map, not_exists, not_and]
  constructor
  · intro h x hx hid; simpa [hid] using h x hx
  · intro h x hx; simpa using h x hx

theorem shutdown_keeps (w : World) (i : Nat) (sid : String) (j : Nat) (sid' : String)
    (h : sid' ∈ (w.node j).reg.map (·.id)) (hne : sid' ≠ sid ∨ j ≠ i) :
    sid' ∈ ((w.shutdownSession i sid).node j).reg.map (·.id) := by
  rw [(sr_shutdown w i sid).ids j, mem_ids_unreg]
  refine ⟨h, fun hji => ?_⟩
  rcases hne with h1 | h1
  · exact h1
  · exact absurd hji h1

theorem shutdown_removes (w : World) (i : Nat) (sid : String) :
    sid ∉ ((w.shutdownSession i sid).node i).reg.map (·.id) := by
  rw [(sr_shutdown w i sid).ids i, mem_ids_unreg]
  simp

theorem teardown_removes (w : World) (i : Nat) (s : Sess) :
    s.id ∉ ((teardown w i s).1.node i).reg.map (·.id) := by
  rw [(sr_teardown w i s).ids i, mem_ids_unreg]
  simp

theorem clientPacket_keeps (w : World) (c : String) (pkt : CPkt) (i : Nat) (sid : String)
    (h : sid ∈ (w.node i).reg.map (·.id)) (hne : sid ≠ "S" ++ c) :
    sid ∈ ((w.clientPacket c pkt).node i).reg.map (·.id) := by
  unfold World.clientPacket
  split
  · exact h
  · rename_i _ i' _
    simp only
    split
    · exact h
    · have hp := sr_process w i' ("S" ++ c) pkt
      have h1 : sid ∈ ((w.process i' ("S" ++ c) pkt).1.node i).reg.map (·.id) := by rw [hp.ids]; exact h
      generalize (w.process i' ("S" ++ c) pkt) = r at h1
      obtain ⟨w1, res⟩ := r
      simp only at h1 ⊢
      cases res with
      | ok => rw [(sr_extendDeadline w1 i' _).ids]; exact h1
      | disconnected =>
        apply shutdown_keeps _ _ _ _ _ _ (Or.inl hne)
        split
        · rename_i s hs
          have := (SameReg.setNode w1 i' _ (NodeRel.setSess (s' := { s with disconnected := true }) hs rfl (fun h => h))).ids i
          rw [this]
          exact h1
        · exact h1
      | error => exact shutdown_keeps _ _ _ _ _ h1 (Or.inl hne)


@[simp] theorem broadcast_out (w : World) (i : Nat) (ev : Event) : (w.broadcast i ev).out = w.out := rfl

@[simp] theorem subDelete_out (w : World) (i : Nat) (sid pat : String) : (w.subDelete i sid pat).out = w.out := rfl

@[simp] theorem sessDelete_out (w : World) (i : Nat) (sid : String) : (w.sessDelete i sid).out = w.out := by
  simp only [World.sessDelete]
  split <;> rfl

theorem tdBase_out (w : World) (i : Nat) (s : Sess) : (tdBase w i s).out = w.out ++ [(s.conn, Pkt.closed)] := by
  unfold tdBase
  simp only
  apply foldl_inv (P := fun (w' : World) => w'.out = w.out ++ [(s.conn, Pkt.closed)])
  · rfl
  · intro b a _ hb
    simpa using hb

theorem teardown_out (w : World) (i : Nat) (s : Sess) : (teardown w i s).1.out = w.out ++ [(s.conn, Pkt.closed)] := by
  rw [teardown_eq]
  split
  · simp only [sessDelete_out]; exact tdBase_out w i s
  · exact tdBase_out w i s


/-! ### replicated-state frames: writes keyed by one session id -/

theorem subListSet_filter_ne (s : Sub) (L : List Sub) (sid' : String) (h : s.session ≠ sid') :
    (subListSet s L).1.filter (fun u => u.session == sid') = L.filter (fun u => u.session == sid') := by
  induction L with
  | nil => simp [subListSet]
  | cons x rest ih =>
    rw [subListSet_cons]
    split
    · rename_i hx
      have hx' : x.session ≠ sid' := by rw [hx]; exact h
      split
      · simp [h, hx']
      · simp [List.filter_cons, ih]
    · simp [List.filter_cons, ih]

theorem subsSet_filter_ne (s : Sub) (m : List (String × List Sub)) (pat sid' : String) (h : s.session ≠ sid') :
    (subsLookup pat (subsSet s m)).filter (fun u => u.session == sid') =
      (subsLookup pat m).filter (fun u => u.session == sid') := by
  rw [subsSet_eq_sy, subsLookup_subsAssign]
  split
  · rename_i hp
    subst hp
    unfold subsSetList
    split
    · exact subListSet_filter_ne s _ sid' h
    · rw [List.filter_append, subListSet_filter_ne s _ sid' h]
      simp [h]
  · rfl

/-- `d'` differs from `d` only in entries keyed by session `sid` -/
def DistRel (sid : String) (d d' : State) : Prop :=
  (∀ sid', sid' ≠ sid → sessLookup sid' d'.sessions = sessLookup sid' d.sessions) ∧
  (∀ pat sid', sid' ≠ sid → (subsLookup pat d'.subs).filter (fun u => u.session == sid') =
      (subsLookup pat d.subs).filter (fun u => u.session == sid'))

theorem DistRel.refl (sid : String) (d : State) : DistRel sid d d := ⟨fun _ _ => rfl, fun _ _ _ => rfl⟩

theorem DistRel.trans {sid : String} {a b c : State} (h1 : DistRel sid a b) (h2 : DistRel sid b c) :
    DistRel sid a c :=
  ⟨fun s hs => (h2.1 s hs).trans (h1.1 s hs), fun p s hs => (h2.2 p s hs).trans (h1.2 p s hs)⟩

theorem dr_subDelete (st : State) (now : Int) (sid pat : String) :
    DistRel sid st (Wasp.Dist.subDelete st now sid pat).1 := by
  refine ⟨fun _ _ => rfl, fun p sid' hne => ?_⟩
  simp only [Wasp.Dist.subDelete]
  exact subsSet_filter_ne _ _ _ _ (fun h => hne h.symm)

theorem dr_sessDelete (st : State) (now : Int) (sid : String) :
    DistRel sid st (Wasp.Dist.sessDelete st now sid).1 := by
  unfold Wasp.Dist.sessDelete
  split
  · exact DistRel.refl _ _
  · rename_i s hs
    split
    · exact DistRel.refl _ _
    · refine ⟨fun sid' hne => ?_, fun _ _ _ => rfl⟩
      simp only
      rw [sessLookup_sessSet]
      have := sessLookup_id hs
      simp only
      rw [if_neg]
      rw [this]; exact fun h => hne h.symm

def DistSafe (sid : String) (w w' : World) : Prop := ∀ j, DistRel sid (w.node j).dist (w'.node j).dist

theorem DistSafe.refl (sid : String) (w : World) : DistSafe sid w w := fun _ => DistRel.refl _ _

theorem DistSafe.trans {sid : String} {a b c : World} (h1 : DistSafe sid a b) (h2 : DistSafe sid b c) :
    DistSafe sid a c := fun j => (h1 j).trans (h2 j)

theorem DistSafe.of_nodes_eq {sid : String} {w w' : World} (h : w'.nodes = w.nodes) : DistSafe sid w w' :=
  fun j => by rw [node_congr h]; exact DistRel.refl _ _

theorem DistSafe.setNode (sid : String) (w : World) (i : Nat) (n' : Node) (h : DistRel sid (w.node i).dist n'.dist) :
    DistSafe sid w (w.setNode i n') := by
  intro j
  rw [node_setNode]
  split
  · rename_i hc; rw [hc.1]; exact h
  · exact DistRel.refl _ _

theorem ds_broadcast (sid : String) (w : World) (i : Nat) (ev : Event) : DistSafe sid w (w.broadcast i ev) := by
  unfold World.broadcast
  exact DistSafe.setNode sid w i _ (DistRel.refl _ _)

theorem ds_subDelete (w : World) (i : Nat) (sid pat : String) : DistSafe sid w (w.subDelete i sid pat) := by
  simp only [World.subDelete]
  refine DistSafe.trans ?_ (ds_broadcast sid _ _ _)
  refine DistSafe.trans (b := w.tick.1) (DistSafe.of_nodes_eq rfl) ?_
  exact DistSafe.setNode sid _ i _ (dr_subDelete _ _ _ _)

theorem ds_sessDelete (w : World) (i : Nat) (sid : String) : DistSafe sid w (w.sessDelete i sid) := by
  simp only [World.sessDelete]
  split
  · refine DistSafe.trans ?_ (ds_broadcast sid _ _ _)
    refine DistSafe.trans (b := w.tick.1) (DistSafe.of_nodes_eq rfl) ?_
    exact DistSafe.setNode sid _ i _ (dr_sessDelete _ _ _)
  · refine DistSafe.trans (b := w.tick.1) (DistSafe.of_nodes_eq rfl) ?_
    exact DistSafe.setNode sid _ i _ (dr_sessDelete _ _ _)

theorem ds_tdBase (w : World) (i : Nat) (s : Sess) : DistSafe s.id w (tdBase w i s) := by
  unfold tdBase
  simp only
  apply foldl_inv (P := fun (w' : World) => DistSafe s.id w w')
  · refine DistSafe.trans (b := unreg w i s.id) ?_ (DistSafe.of_nodes_eq rfl)
    exact DistSafe.setNode _ _ _ _ (DistRel.refl _ _)
  · intro b a _ hb
    exact hb.trans (ds_subDelete b i s.id a)

theorem ds_teardown (w : World) (i : Nat) (s : Sess) : DistSafe s.id w (teardown w i s).1 := by
  rw [teardown_eq]
  split
  · exact (ds_tdBase w i s).trans (ds_sessDelete _ _ _)
  · exact ds_tdBase w i s


/-- CONNECT up to (and including) the deletion of the record the client id resolved to -/
def connPre (w : World) (c : String) (i : Nat) (client mount : String) : World :=
  let w : World := { w with conns := (w.conns.filter (fun (c' : String × Nat) => c'.1 != c)) ++ [(c, i)] }
  match sessByClientID (w.node i).dist mount client with
  | md :: _ => w.sessDelete i md.id
  | [] => w

/-- the world after the session record was created and its broadcast queued -/
def connMid (w : World) (c : String) (i : Nat) (client mount : String) (will : Option Will) : World :=
  let w1 := (connPre w c i client mount).tick.1
  let r := sessCreate (w1.node i).dist (connPre w c i client mount).clock ("S" ++ c) client 0 will mount
  let w2 := w1.setNode i { w1.node i with dist := r.1 }
  match r.2.1 with | some e => w2.broadcast i e | none => w2

def connSess (now : Int) (c client mount : String) (ka : Nat) (will : Option Will) : Sess :=
  { id := "S" ++ c, conn := c, client, mount, keepalive := (if ka = 0 then 30 else ka), will,
    deadline := now + 2 * (if ka = 0 then 30 else ka) * 1000 }

theorem connect_eq (w : World) (c : String) (i : Nat) (client mount : String) (ka : Nat) (will : Option Will) :
    w.connect c i client mount true ka will =
      if (sessCreate (((connPre w c i client mount).tick.1).node i).dist (connPre w c i client mount).clock
            ("S" ++ c) client 0 will mount).2.2 ≠ Err.none
      then ((connPre w c i client mount).tick.1).emit c .closed
      else
        let W := connMid w c i client mount will
        (W.setNode i { W.node i with reg := (W.node i).reg ++ [connSess W.now c client mount ka will] }).emit c (.connack 0) := by
  unfold World.connect
  simp only [Bool.not_true, Bool.false_eq_true, if_false]
  rfl

@[simp] theorem node_emit (w : World) (c : String) (p : Pkt) (j : Nat) : (w.emit c p).node j = w.node j := rfl

theorem sr_connPre (w : World) (c : String) (i : Nat) (client mount : String) :
    SameReg w (connPre w c i client mount) := by
  unfold connPre
  simp only
  split
  · sr_back (sr_sessDelete _ _ _)
    exact SameReg.of_nodes_eq rfl rfl
  · exact SameReg.of_nodes_eq rfl rfl

theorem sr_connMid (w : World) (c : String) (i : Nat) (client mount : String) (will : Option Will) :
    SameReg w (connMid w c i client mount will) := by
  unfold connMid
  simp only
  split
  · sr_back (sr_broadcast _ _ _)
    sr_setnode
    exact (sr_connPre w c i client mount).trans (sr_tick _)
  · sr_setnode
    exact (sr_connPre w c i client mount).trans (sr_tick _)

theorem sess_append_new (n : Node) (s0 : Sess) (h : n.sess s0.id = none) :
    Node.sess { n with reg := n.reg ++ [s0] } s0.id = some s0 := by
  unfold Node.sess at h ⊢
  simp [List.find?_append, h]

theorem sess_append_isSome (n : Node) (s0 : Sess) :
    (Node.sess { n with reg := n.reg ++ [s0] } s0.id).isSome := by
  unfold Node.sess
  simp only [List.find?_append]
  cases List.find? (fun s => s.id == s0.id) n.reg <;> simp

theorem sess_none_of_sameReg {w w' : World} (h : SameReg w w') {i : Nat} {sid : String}
    (hn : (w.node i).sess sid = none) : (w'.node i).sess sid = none := by
  rw [sess_eq_none_iff] at hn ⊢
  rw [h.ids i]; exact hn

theorem connect_armed (w : World) (c : String) (i : Nat) (hi : i < w.nodes.length) (client mount : String)
    (ka : Nat) (hka : 0 < ka) (will : Option Will) (s : Sess)
    (hs : ((w.connect c i client mount true ka will).node i).sess ("S" ++ c) = some s)
    (hnew : (w.node i).sess ("S" ++ c) = none) :
    s.deadline = w.now + 2 * ka * 1000 ∧ s.keepalive = ka := by
  rw [connect_eq] at hs
  split at hs
  · have h1 : SameReg w (((connPre w c i client mount).tick.1).emit c .closed) :=
      ((sr_connPre w c i client mount).trans (sr_tick _)).trans (sr_emit _ _ _)
    rw [sess_none_of_sameReg h1 hnew] at hs
    cases hs
  · have hM := sr_connMid w c i client mount will
    simp only at hs
    generalize connMid w c i client mount will = W at hs hM
    have hlen : i < W.nodes.length := by rw [hM.len]; exact hi
    have hnode : ((W.setNode i { W.node i with reg := (W.node i).reg ++ [connSess W.now c client mount ka will] }).emit c (.connack 0)).node i
        = { W.node i with reg := (W.node i).reg ++ [connSess W.now c client mount ka will] } := by
      exact (node_emit _ _ _ _).trans (node_setNode_self _ _ _ hlen)
    rw [hnode] at hs
    have hW : (W.node i).sess (connSess W.now c client mount ka will).id = none := sess_none_of_sameReg hM hnew
    have := sess_append_new (W.node i) (connSess W.now c client mount ka will) hW
    have e : (connSess W.now c client mount ka will).id = "S" ++ c := rfl
    rw [e] at this
    rw [this] at hs
    cases hs
    have hk : ¬ ka = 0 := by omega
    simp only [connSess, hk, if_false, hM.now]
    exact ⟨trivial, trivial⟩

theorem connPre_lookup (w : World) (c : String) (i : Nat) (client mount : String) (sid : String)
    (hother : ∀ md ∈ sessByClientID (w.node i).dist mount client, md.id ≠ sid) (j : Nat) :
    sessLookup sid ((connPre w c i client mount).node j).dist.sessions = sessLookup sid (w.node j).dist.sessions := by
  unfold connPre
  simp only
  split
  · rename_i md rest heq
    have hne : sid ≠ md.id := fun h => hother md (by
      have : md ∈ sessByClientID (w.node i).dist mount client := by
        have e : sessByClientID (w.node i).dist mount client = md :: rest := heq
        rw [e]; simp
      exact this) h.symm
    exact (ds_sessDelete _ i md.id j).1 sid hne
  · rfl

theorem connect_established (w : World) (c : String) (i : Nat) (hi : i < w.nodes.length) (client mount : String)
    (ka : Nat) (will : Option Will)
    (hfresh : ∀ s, sessLookup ("S" ++ c) (w.node i).dist.sessions = some s → Wasp.Crdt.isAdded s.stamp = false)
    (hother : ∀ md ∈ sessByClientID (w.node i).dist mount client, md.id ≠ "S" ++ c) :
    (((w.connect c i client mount true ka will).node i).sess ("S" ++ c)).isSome ∧
      (c, Pkt.connack 0) ∈ (w.connect c i client mount true ka will).out := by
  rw [connect_eq]
  have herr : (sessCreate (((connPre w c i client mount).tick.1).node i).dist (connPre w c i client mount).clock
            ("S" ++ c) client 0 will mount).2.2 = Err.none := by
    have hl : sessLookup ("S" ++ c) (((connPre w c i client mount).tick.1).node i).dist.sessions =
        sessLookup ("S" ++ c) (w.node i).dist.sessions := connPre_lookup w c i client mount _ hother i
    unfold sessCreate
    rw [hl]
    split
    · rename_i s0 hs0
      rw [hfresh s0 hs0]
      simp
    · rfl
  rw [if_neg (by simp [herr])]
  simp only
  have hM := sr_connMid w c i client mount will
  generalize connMid w c i client mount will = W at hM
  have hlen : i < W.nodes.length := by rw [hM.len]; exact hi
  constructor
  · rw [node_emit, node_setNode_self _ _ _ hlen]
    exact sess_append_isSome (W.node i) (connSess W.now c client mount ka will)
  · simp [World.emit]


/-- the node-failure timers of node i fire -/
def idleTimers (w : World) (i : Nat) : World :=
  let n := w.node i
  let due := n.timers.filter (fun t => t.1 ≤ w.now)
  let w := w.setNode i { n with timers := n.timers.filter (fun t => !(t.1 ≤ w.now)) }
  due.foldl (fun w t =>
      let (w, ts) := w.tick
      let n := w.node i
      let (d, ev) := sessDeletePeer n.dist ts t.2
      (w.setNode i { n with dist := d }).broadcast i ev) w

def idleNode (w : World) (i : Nat) : World :=
  if (w.node i).failed then w else
    (((idleTimers w i).node i).reg.filter (fun s => s.deadline < (idleTimers w i).now)).map (·.id)
      |>.foldl (fun w sid =>
          match (w.node i).sess sid with
          | some s => if s.deadline < w.now then w.shutdownSession i sid else w
          | none => w) (idleTimers w i)

theorem idle_eq (w : World) (ms : Int) :
    w.idle ms = (List.range w.nodes.length).foldl idleNode { w with now := w.now + ms } := rfl

theorem sr_idleTimers (w : World) (i : Nat) : SameReg w (idleTimers w i) := by
  unfold idleTimers
  simp only
  refine SameReg.foldl' _ _ _ _ (sr_setNode_reg _ _ _ rfl) ?_
  intro w t
  simp only [World.tick]
  sr_back (sr_broadcast _ _ _)
  sr_setnode
  exact SameReg.of_nodes_eq rfl rfl

/-- session `sid` is registered at node i and every registry entry with that id is within its deadline -/
def Live (now : Int) (i : Nat) (sid : String) (w : World) : Prop :=
  w.now = now ∧ sid ∈ (w.node i).reg.map (·.id) ∧ ∀ x ∈ (w.node i).reg, x.id = sid → now ≤ x.deadline

theorem Live.sameReg {now : Int} {i : Nat} {sid : String} {w w' : World} (h : Live now i sid w)
    (hr : SameReg w w') : Live now i sid w' := by
  obtain ⟨h1, h2, h3⟩ := h
  refine ⟨hr.now.trans h1, by rw [hr.ids i]; exact h2, ?_⟩
  have := (hr.reg i).2 sid
  rw [h1] at this
  exact this h3

theorem Live.unreg {now : Int} {i : Nat} {sid : String} {w : World} (h : Live now i sid w)
    (j : Nat) (sid' : String) (hne : sid' ≠ sid ∨ j ≠ i) : Live now i sid (unreg w j sid') := by
  obtain ⟨h1, h2, h3⟩ := h
  refine ⟨h1, ?_, ?_⟩
  · rw [mem_ids_unreg]
    refine ⟨h2, fun hij => ?_⟩
    rcases hne with h | h
    · exact fun e => h e.symm
    · exact absurd hij.symm h
  · intro x hx
    rw [reg_unreg] at hx
    split at hx
    · exact h3 x (List.mem_filter.mp hx).1
    · exact h3 x hx

theorem Live.shutdown {now : Int} {i : Nat} {sid : String} {w : World} (h : Live now i sid w)
    (j : Nat) (sid' : String) (hne : sid' ≠ sid ∨ j ≠ i) : Live now i sid (w.shutdownSession j sid') :=
  (h.unreg j sid' hne).sameReg (sr_shutdown w j sid')

theorem Live.idleNode {now : Int} {i : Nat} {sid : String} {w : World} (h : Live now i sid w) (k : Nat) :
    Live now i sid (idleNode w k) := by
  unfold AgentD.idleNode
  split
  · exact h
  · have hT := h.sameReg (sr_idleTimers w k)
    generalize idleTimers w k = wT at hT
    apply foldl_inv (P := Live now i sid)
    · exact hT
    · intro b sid' hmem hb
      split
      case h_2 => exact hb
      split
      case isFalse => exact hb
      apply hb.shutdown
      by_cases hk : k = i
      · left
        subst hk
        intro e
        subst e
        simp only [List.mem_map, List.mem_filter] at hmem
        obtain ⟨x, ⟨hx, hdl⟩, hid⟩ := hmem
        have := hT.2.2 x hx hid
        rw [hT.1] at hdl
        simp at hdl
        omega
      · right; exact hk

theorem eq_of_nodup_ids {l : List Sess} (h : (l.map (·.id)).Nodup) {x y : Sess} (hx : x ∈ l) (hy : y ∈ l)
    (e : x.id = y.id) : x = y := by
  induction l with
  | nil => cases hx
  | cons a rest ih =>
    simp only [List.map_cons, List.nodup_cons, List.mem_map, not_exists, not_and] at h
    simp only [List.mem_cons] at hx hy
    rcases hx with rfl | hx <;> rcases hy with rfl | hy
    · rfl
    · exact absurd e.symm (h.1 y hy)
    · exact absurd e (h.1 x hx)
    · exact ih h.2 hx hy

theorem idle_spares (w : World) (ms : Int) (i : Nat) (s : Sess) (hs : s ∈ (w.node i).reg)
    (hd : w.now + ms ≤ s.deadline) (hu : ((w.node i).reg.map (·.id)).Nodup) :
    s.id ∈ ((w.idle ms).node i).reg.map (·.id) := by
  rw [idle_eq]
  have h0 : Live (w.now + ms) i s.id { w with now := w.now + ms } := by
    refine ⟨rfl, List.mem_map.mpr ⟨s, hs, rfl⟩, ?_⟩
    intro x hx hid
    have hx' : x ∈ (w.node i).reg := hx
    have : x = s := eq_of_nodup_ids hu hx' hs hid
    rw [this]; exact hd
  exact (foldl_inv (P := Live (w.now + ms) i s.id) _ _ _ h0 (fun b k _ hb => hb.idleNode k)).2.1

open Wasp.Crdt

/-! ### teardown removes the subscriptions of the session -/

/-- no live subscription of session `sid` to filter `t` is stored -/
def Gone (sid t : String) (m : List (String × List Sub)) : Prop :=
  ∀ kl ∈ m, ∀ u ∈ kl.2, isAdded u.stamp = true → ¬ (u.session = sid ∧ u.pattern = t)

structure SInv (c : Int) (m : List (String × List Sub)) : Prop where
  keys : (m.map (·.1)).Nodup
  inner : ∀ kl ∈ m, (kl.2.map (·.session)).Nodup
  pat : ∀ kl ∈ m, ∀ u ∈ kl.2, u.pattern = kl.1
  clk : ∀ kl ∈ m, ∀ u ∈ kl.2, isAdded u.stamp = true → u.added < c ∧ u.deleted < c

def tomb (sid p : String) (peer : Nat) (now : Int) : Sub := ⟨sid, p, peer, 0, 0, now⟩

theorem tomb_not_added (sid p : String) (peer : Nat) (now : Int) : isAdded (tomb sid p peer now).stamp = false := by
  simp [tomb, Sub.stamp, isAdded_mk]

theorem subDelete_subs (st : State) (now : Int) (sid p : String) :
    (Wasp.Dist.subDelete st now sid p).1.subs = subsSet (tomb sid p st.peer now) st.subs := rfl

theorem subDelete_peer (st : State) (now : Int) (sid p : String) :
    (Wasp.Dist.subDelete st now sid p).1.peer = st.peer := rfl

theorem SInv.step {c c' : Int} {m : List (String × List Sub)} (h : SInv c m) (hc : c ≤ c') (s : Sub)
    (hs : isAdded s.stamp = false) : SInv c' (subsSet s m) := by
  refine ⟨subsSet_keys_nodup s m h.keys, subsSet_inner_nodup s m h.inner, ?_, ?_⟩
  · exact subsSet_forall (fun k x => x.pattern = k) s m h.pat rfl
  · refine subsSet_forall (fun _ x => isAdded x.stamp = true → x.added < c' ∧ x.deleted < c') s m ?_ ?_
    · intro kl hkl x hx hadd
      have := h.clk kl hkl x hx hadd
      omega
    · intro hadd; rw [hs] at hadd; cases hadd

theorem Gone.step {sid t : String} {m : List (String × List Sub)} (h : Gone sid t m) (s : Sub)
    (hs : isAdded s.stamp = false) : Gone sid t (subsSet s m) := by
  refine subsSet_forall (fun _ x => isAdded x.stamp = true → ¬ (x.session = sid ∧ x.pattern = t)) s m h ?_
  intro hadd; rw [hs] at hadd; cases hadd

theorem subsAssign_mem_nodup {q : String} {v : List Sub} {m : List (String × List Sub)} {kl : String × List Sub}
    (hk : (m.map (·.1)).Nodup) (h : kl ∈ subsAssign q v m) : kl = (q, v) ∨ (kl ∈ m ∧ kl.1 ≠ q) := by
  induction m with
  | nil => simp [subsAssign] at h; simp [h]
  | cons y rest ih =>
    obtain ⟨k, l⟩ := y
    simp only [List.map_cons, List.nodup_cons, List.mem_map, not_exists, not_and] at hk
    simp only [subsAssign] at h
    split at h
    · rename_i hkq
      subst hkq
      simp only [List.mem_cons] at h
      rcases h with h | h
      · exact Or.inl h
      · right
        refine ⟨by simp [h], fun e => hk.1 kl h e⟩
    · rename_i hkq
      simp only [List.mem_cons] at h
      rcases h with h | h
      · right; subst h; exact ⟨by simp, hkq⟩
      · rcases ih hk.2 h with e | ⟨h1, h2⟩
        · exact Or.inl e
        · exact Or.inr ⟨by simp [h1], h2⟩

theorem subListSet_session_cases (s : Sub) (L : List Sub) (hn : (L.map (·.session)).Nodup)
    (ho : ∀ x ∈ L, x.session = s.session → isAdded x.stamp = true → isOutdated x.stamp s.stamp = true) :
    ∀ u ∈ (subListSet s L).1, u.session = s.session → u = s ∨ isAdded u.stamp = false := by
  induction L with
  | nil => simp [subListSet]
  | cons x rest ih =>
    simp only [List.map_cons, List.nodup_cons, List.mem_map, not_exists, not_and] at hn
    have ih' := ih hn.2 (fun y hy => ho y (by simp [hy]))
    rw [subListSet_cons]
    intro u hu hus
    split at hu
    · rename_i hx
      split at hu
      · simp only [List.mem_cons] at hu
        rcases hu with rfl | hu
        · exact Or.inl rfl
        · exact absurd (hus.trans hx.symm) (hn.1 u hu)
      · rename_i hno
        simp only [List.mem_cons] at hu
        rcases hu with rfl | hu
        · right
          cases hadd : isAdded u.stamp with
          | false => rfl
          | true => exact absurd (ho u (by simp) hx hadd) hno
        · exact ih' u hu hus
    · rename_i hx
      simp only [List.mem_cons] at hu
      rcases hu with rfl | hu
      · exact absurd hus hx
      · exact ih' u hu hus

theorem gone_after_subDelete {c now : Int} {m : List (String × List Sub)} (h : SInv c m) (hc : c ≤ now)
    (sid t : String) (peer : Nat) : Gone sid t (subsSet (tomb sid t peer now) m) := by
  intro kl hkl u hu hadd ⟨hses, hpat⟩
  rw [subsSet_eq_sy] at hkl
  rcases subsAssign_mem_nodup h.keys hkl with e | ⟨hmem, hne⟩
  · subst e
    simp only at hu
    have hL : ∀ x ∈ subsLookup t m, (t, subsLookup t m) ∈ m := fun x hx => subsLookup_mem hx
    have hcases : u = tomb sid t peer now ∨ isAdded u.stamp = false := by
      have hu' : u = tomb sid t peer now ∨ u ∈ (subListSet (tomb sid t peer now) (subsLookup t m)).1 := by
        unfold subsSetList at hu
        split at hu
        · exact Or.inr hu
        · rcases List.mem_append.mp hu with hu | hu
          · exact Or.inr hu
          · exact Or.inl (by simpa using hu)
      rcases hu' with e | hu'
      · exact Or.inl e
      · refine subListSet_session_cases (tomb sid t peer now) (subsLookup t m) ?_ ?_ u hu' hses
        · cases hl : subsLookup t m with
          | nil => simp
          | cons y r =>
            have := h.inner _ (hL y (by simp [hl]))
            simpa [hl] using this
        · intro x hx _ hxadd
          have := h.clk _ (hL x hx) x hx hxadd
          rw [isOutdated_eq, Sub.stamp, Sub.stamp, lastUpdate_mk, lastUpdate_mk]
          apply decide_eq_true
          show (if x.added > x.deleted then x.added else x.deleted) < (if (0 : Int) > now then 0 else now)
          split <;> split <;> omega
    rcases hcases with e | e
    · rw [e, tomb_not_added] at hadd; cases hadd
    · rw [e] at hadd; cases hadd
  · exact hne ((h.pat kl hmem u hu).symm.trans hpat)

open Wasp.Crdt

theorem broadcast_dist (w : World) (i : Nat) (ev : Event) (j : Nat) :
    ((w.broadcast i ev).node j).dist = (w.node j).dist := by
  unfold World.broadcast
  rw [node_setNode]
  split
  · rename_i h; rw [h.1]
  · rfl

@[simp] theorem broadcast_length (w : World) (i : Nat) (ev : Event) :
    (w.broadcast i ev).nodes.length = w.nodes.length := by
  simp [World.broadcast]

@[simp] theorem broadcast_clock (w : World) (i : Nat) (ev : Event) : (w.broadcast i ev).clock = w.clock := rfl

@[simp] theorem subDelete_length (w : World) (i : Nat) (sid t : String) :
    (w.subDelete i sid t).nodes.length = w.nodes.length := by
  simp [World.subDelete, World.tick]

@[simp] theorem subDelete_clock (w : World) (i : Nat) (sid t : String) :
    (w.subDelete i sid t).clock = w.clock + 1 := rfl

theorem subDelete_node_subs (w : World) (i : Nat) (hi : i < w.nodes.length) (sid t : String) :
    ((w.subDelete i sid t).node i).dist.subs =
      subsSet (tomb sid t (w.node i).dist.peer w.clock) (w.node i).dist.subs := by
  have e : w.subDelete i sid t =
      ((w.tick.1).setNode i { (w.tick.1).node i with
          dist := (Wasp.Dist.subDelete ((w.tick.1).node i).dist w.clock sid t).1 }).broadcast i
        (Wasp.Dist.subDelete ((w.tick.1).node i).dist w.clock sid t).2 := rfl
  rw [e, broadcast_dist, node_setNode_self _ _ _ (show i < w.tick.1.nodes.length from hi)]
  rfl

theorem sessDelete_node_subs (w : World) (i : Nat) (sid : String) (j : Nat) :
    ((w.sessDelete i sid).node j).dist.subs = (w.node j).dist.subs := by
  have hd : ∀ (st : State) (now : Int), (Wasp.Dist.sessDelete st now sid).1.subs = st.subs := by
    intro st now
    unfold Wasp.Dist.sessDelete
    split
    · rfl
    · split <;> rfl
  have hn : ∀ (n' : Node), n'.dist.subs = (w.node i).dist.subs →
      ((w.tick.1.setNode i n').node j).dist.subs = (w.node j).dist.subs := by
    intro n' hn'
    rw [node_setNode]
    split
    · rename_i h; rw [h.1, hn']
    · rfl
  simp only [World.sessDelete]
  split
  · rw [broadcast_dist]
    exact hn _ (hd _ _)
  · exact hn _ (hd _ _)

theorem fold_subDelete_len (i : Nat) (sid : String) (topics : List String) (w : World) :
    (topics.foldl (fun w t => w.subDelete i sid t) w).nodes.length = w.nodes.length := by
  induction topics generalizing w with
  | nil => rfl
  | cons t rest ih => simp only [List.foldl_cons]; rw [ih]; simp

theorem fold_subDelete_keeps_gone (i : Nat) (sid sid' t' : String) (topics : List String) (w : World)
    (hi : i < w.nodes.length) (h : Gone sid' t' (w.node i).dist.subs) :
    Gone sid' t' ((topics.foldl (fun w t => w.subDelete i sid t) w).node i).dist.subs := by
  induction topics generalizing w with
  | nil => exact h
  | cons t rest ih =>
    simp only [List.foldl_cons]
    apply ih _ (by simpa using hi)
    rw [subDelete_node_subs w i hi]
    exact h.step _ (tomb_not_added _ _ _ _)

theorem fold_subDelete_gone (i : Nat) (sid : String) (topics : List String) (w : World)
    (hi : i < w.nodes.length) (h : SInv w.clock (w.node i).dist.subs) (t : String) (ht : t ∈ topics) :
    Gone sid t ((topics.foldl (fun w t => w.subDelete i sid t) w).node i).dist.subs := by
  induction topics generalizing w with
  | nil => cases ht
  | cons t0 rest ih =>
    simp only [List.foldl_cons]
    have hi' : i < (w.subDelete i sid t0).nodes.length := by simpa using hi
    by_cases hr : t ∈ rest
    · apply ih _ hi' _ hr
      rw [subDelete_node_subs w i hi, subDelete_clock]
      exact h.step (by omega) _ (tomb_not_added _ _ _ _)
    · have e : t = t0 := by
        simp only [List.mem_cons] at ht
        rcases ht with e | e
        · exact e
        · exact absurd e hr
      subst e
      apply fold_subDelete_keeps_gone _ _ _ _ _ _ hi'
      rw [subDelete_node_subs w i hi]
      exact gone_after_subDelete h (Int.le_refl _) sid t _

theorem tdBase_gone (w : World) (i : Nat) (hi : i < w.nodes.length) (s : Sess)
    (h : SInv w.clock (w.node i).dist.subs) (t : String) (ht : t ∈ s.topics) :
    Gone s.id t ((tdBase w i s).node i).dist.subs := by
  unfold tdBase
  simp only
  apply fold_subDelete_gone
  · show i < (w.setNode i _).nodes.length
    simpa using hi
  · show SInv w.clock ((w.setNode i _).node i).dist.subs
    rw [node_setNode_self _ _ _ hi]
    exact h
  · exact ht

theorem teardown_gone (w : World) (i : Nat) (hi : i < w.nodes.length) (s : Sess)
    (h : SInv w.clock (w.node i).dist.subs) (t : String) (ht : t ∈ s.topics) :
    Gone s.id t ((teardown w i s).1.node i).dist.subs := by
  rw [teardown_eq]
  split
  · simp only
    rw [sessDelete_node_subs]
    exact tdBase_gone w i hi s h t ht
  · exact tdBase_gone w i hi s h t ht

theorem mem_subByPattern {st : State} {topic : String} {u : Sub} (h : u ∈ subByPattern st topic) :
    ∃ kl ∈ st.subs, u ∈ kl.2 ∧ isAdded u.stamp = true := by
  unfold subByPattern at h
  simp only [List.mem_flatMap, List.mem_filter] at h
  obtain ⟨kl, ⟨hkl, _⟩, hu, hadd⟩ := h
  exact ⟨kl, hkl, hu, hadd⟩

theorem teardown_subscriptions (w : World) (i : Nat) (hi : i < w.nodes.length) (s : Sess) (t : String) (ht : t ∈ s.topics)
    (hclock : ∀ kl ∈ (w.node i).dist.subs, ∀ u ∈ kl.2, u.added < w.clock ∧ u.deleted < w.clock)
    (hinv : ((w.node i).dist.subs.map (·.1)).Nodup ∧
      ∀ kl ∈ (w.node i).dist.subs, (kl.2.map (·.session)).Nodup ∧ ∀ u ∈ kl.2, u.pattern = kl.1)
    (topic : String) (u : Sub) (hu : u ∈ subByPattern ((teardown w i s).1.node i).dist topic) :
    ¬ (u.session = s.id ∧ u.pattern = t) := by
  obtain ⟨kl, hkl, hukl, hadd⟩ := mem_subByPattern hu
  have hS : SInv w.clock (w.node i).dist.subs :=
    ⟨hinv.1, fun kl hkl => (hinv.2 kl hkl).1, fun kl hkl => (hinv.2 kl hkl).2,
      fun kl hkl u hu _ => hclock kl hkl u hu⟩
  exact teardown_gone w i hi s hS t ht kl hkl u hukl hadd

end Wasp.Broker.AgentD

import Wasp.Model.GoPrelude
/-! Facts about the Go primitives of the imperative subset (`Go.search`, `Go.forallBelow`,
    `Go.index`, …) used by the proofs that tie the literal translations
    (Wasp/Generated/*Lit.lean) to the hand-written models. -/
namespace Go

theorem lt_iff (a b : Int) : lt a b = true ↔ a < b := by simp [lt]
theorem le_iff (a b : Int) : le a b = true ↔ a ≤ b := by simp [le]
theorem gt_iff (a b : Int) : gt a b = true ↔ b < a := by simp [gt]
theorem ge_iff (a b : Int) : ge a b = true ↔ b ≤ a := by simp [ge]
theorem eq_iff {α : Type} [DecidableEq α] (a b : α) : eq a b = true ↔ a = b := by simp [eq]
theorem ne_iff {α : Type} [DecidableEq α] (a b : α) : ne a b = true ↔ a ≠ b := by simp [ne]

theorem len_eq {α : Type} (l : List α) : Go.len l = (l.length : Int) := rfl

/-- binary search over a predicate that is false below `k` and true from `k` on finds `k` -/
theorem searchLoop_partition (f : Int → Bool) (k : Int) :
    ∀ (fuel : Nat) (i j : Int), i ≤ k → k ≤ j → j - i < fuel →
      (∀ x, i ≤ x → x < k → f x = false) → (∀ x, k ≤ x → x < j → f x = true) →
      searchLoop f fuel i j = k := by
  intro fuel
  induction fuel with
  | zero => intro i j h1 h2 h3; omega
  | succ n ih =>
    intro i j h1 h2 h3 hlo hhi
    unfold searchLoop
    by_cases hij : i < j
    · simp only [hij, if_true]
      have hh1 : i ≤ (i + j) / 2 := by omega
      have hh2 : (i + j) / 2 < j := by omega
      cases hf : f ((i + j) / 2) with
      | false =>
        have : (i + j) / 2 < k := by
          apply Classical.byContradiction; intro hc
          have := hhi ((i + j) / 2) (by omega) hh2
          simp [hf] at this
        simp only [Bool.not_false, if_true]
        exact ih _ _ (by omega) h2 (by omega) (fun x a b => hlo x (by omega) b) hhi
      | true =>
        have : k ≤ (i + j) / 2 := by
          apply Classical.byContradiction; intro hc
          have := hlo ((i + j) / 2) hh1 (by omega)
          simp [hf] at this
        simp only [Bool.not_true, Bool.false_eq_true, if_false]
        exact ih _ _ h1 this (by omega) hlo (fun x a b => hhi x a (by omega))
    · simp only [hij, if_false]; omega

theorem search_partition (n : Int) (f : Int → Bool) (k : Int) (h0 : 0 ≤ k) (hn : k ≤ n)
    (hlo : ∀ x, 0 ≤ x → x < k → f x = false) (hhi : ∀ x, k ≤ x → x < n → f x = true) :
    search n f = k :=
  searchLoop_partition f k _ 0 n h0 hn (by omega) hlo hhi

theorem forallBelow_iff (n : Int) (p : Int → Bool) :
    forallBelow n p = true ↔ ∀ i, 0 ≤ i → i < n → p i = true := by
  simp only [forallBelow, List.all_eq_true, List.mem_range]
  constructor
  · intro h i h0 hi
    have := h i.toNat (by omega)
    rwa [Int.toNat_of_nonneg h0] at this
  · intro h k hk
    exact h k (by omega) (by omega)

theorem inRange_iff {α : Type} (l : List α) (i : Int) :
    inRange l i = true ↔ 0 ≤ i ∧ i < (l.length : Int) := by
  simp [inRange, len]

theorem index_natCast {α : Type} [Inhabited α] (l : List α) (k : Nat) :
    index l (k : Int) = l[k]?.getD default := by
  simp [index]

theorem set_natCast {α : Type} (l : List α) (k : Nat) (v : α) : set l (k : Int) v = l.set k v := by
  simp [set]

theorem sliceFrom_natCast {α : Type} (l : List α) (k : Nat) : sliceFrom l (k : Int) = l.drop k := by
  simp [sliceFrom]

theorem sliceTo_natCast {α : Type} (l : List α) (k : Nat) : sliceTo l (k : Int) = l.take k := by
  simp [sliceTo]

theorem sliceFromOk_iff {α : Type} (l : List α) (i : Int) :
    sliceFromOk l i = true ↔ 0 ≤ i ∧ i ≤ (l.length : Int) := by
  simp [sliceFromOk, len]

theorem sliceToOk_iff {α : Type} (l : List α) (i : Int) :
    sliceToOk l i = true ↔ 0 ≤ i ∧ i ≤ (l.length : Int) := by
  simp [sliceToOk, len]

theorem index_mem {α : Type} [Inhabited α] (l : List α) (i : Int) (h0 : 0 ≤ i) (h : i < (l.length : Int)) :
    index l i ∈ l := by
  have hi : i.toNat < l.length := by omega
  simp only [index, List.getElem?_eq_getElem hi, Option.getD_some]
  exact List.getElem_mem hi

theorem index_append_left {α : Type} [Inhabited α] (pre rest : List α) (i : Int) (h0 : 0 ≤ i)
    (h : i < (pre.length : Int)) : index (pre ++ rest) i = index pre i := by
  have hi : i.toNat < pre.length := by omega
  simp only [index, List.getElem?_append_left hi]

theorem index_append_right {α : Type} [Inhabited α] (pre rest : List α) (i : Int)
    (h : (pre.length : Int) ≤ i) : index (pre ++ rest) i = index rest (i - pre.length) := by
  have hi : pre.length ≤ i.toNat := by omega
  simp only [index, List.getElem?_append_right hi]
  congr 2; omega

/-- sort.Search over a slice whose elements fail `p` on a prefix and satisfy it on the rest
    answers the length of that prefix -/
theorem search_append {α : Type} [Inhabited α] (p : α → Bool) (pre rest : List α)
    (h1 : ∀ x ∈ pre, p x = false) (h2 : ∀ x ∈ rest, p x = true) :
    search (len (pre ++ rest)) (fun i => p (index (pre ++ rest) i)) = (pre.length : Int) := by
  apply search_partition
  · omega
  · simp only [len, List.length_append]; omega
  · intro x hx0 hx
    rw [index_append_left _ _ _ hx0 hx]
    exact h1 _ (index_mem _ _ hx0 hx)
  · intro x hx hxn
    simp only [len, List.length_append] at hxn
    rw [index_append_right _ _ _ hx]
    exact h2 _ (index_mem _ _ (by omega) (by omega))

/-! ### strings -/

theorem strLt_iff (a b : String) : strLt a b = true ↔ a < b := by simp [strLt]
theorem strLe_iff (a b : String) : strLe a b = true ↔ a ≤ b := by simp [strLe]
theorem strGt_iff (a b : String) : strGt a b = true ↔ b < a := by simp [strGt]
theorem strGe_iff (a b : String) : strGe a b = true ↔ b ≤ a := by simp [strGe]

/-- `strings.Compare(a, b) == -1` says `a < b` -/
theorem strCompare_neg_one_iff (a b : String) : strCompare a b = -1 ↔ a < b := by
  unfold strCompare
  by_cases h : a = b
  · subst h; simp [String.lt_irrefl]
  · by_cases h2 : a < b <;> simp [h, h2]

/-- Go's order on strings is the byte-wise one; Lean's is the lexicographic order of the code points -/
theorem str_lt_iff_toList (a b : String) : a < b ↔ a.toList < b.toList := Iff.rfl

/-! ### the last element of a slice that was just appended to -/

theorem inRange_append_last {α : Type} (l : List α) (x : α) :
    inRange (l ++ [x]) (len (l ++ [x]) - 1) = true := by
  rw [inRange_iff]; simp only [len, List.length_append, List.length_singleton]; omega

theorem index_append_last {α : Type} [Inhabited α] (l : List α) (x : α) :
    index (l ++ [x]) (len (l ++ [x]) - 1) = x := by
  have : (len (l ++ [x]) - 1).toNat = l.length := by
    simp only [len, List.length_append, List.length_singleton]; omega
  simp [index, this]

theorem set_append_last {α : Type} (l : List α) (x v : α) :
    set (l ++ [x]) (len (l ++ [x]) - 1) v = l ++ [v] := by
  have : (len (l ++ [x]) - 1).toNat = l.length := by
    simp only [len, List.length_append, List.length_singleton]; omega
  simp [set, this]

/-- the element behind a prefix -/
theorem index_append_length {α : Type} [Inhabited α] (pre : List α) (x : α) (rest : List α) :
    index (pre ++ x :: rest) (pre.length : Int) = x := by
  simp [index]

theorem inRange_append_length {α : Type} (pre : List α) (x : α) (rest : List α) :
    inRange (pre ++ x :: rest) (pre.length : Int) = true := by
  rw [inRange_iff]; simp only [List.length_append, List.length_cons]; omega

theorem drop_succ_append {α : Type} (P : List α) (a : α) (R : List α) (k : Nat) (hk : k = P.length) :
    (P ++ a :: R).drop (k + 1) = R := by
  subst hk; simp

theorem take_succ_append {α : Type} (P : List α) (a : α) (R : List α) (k : Nat) (hk : k = P.length) :
    (P ++ a :: R).take (k + 1) = P ++ [a] := by
  subst hk
  induction P with
  | nil => simp
  | cons x P ih => simpa using ih

theorem sortStableBy_append_singleton {α : Type} (less : α → α → Bool) (l : List α) (x : α) :
    sortStableBy less (l ++ [x]) = l.foldr (insertBy less) [x] := by
  simp [sortStableBy, List.foldr_append, insertBy]

/-- inserting an element that no element of the list is less than puts it in front -/
theorem insertBy_front {α : Type} (less : α → α → Bool) (x : α) (l : List α)
    (h : ∀ y ∈ l, less y x = false) : insertBy less x l = x :: l := by
  cases l with
  | nil => rfl
  | cons y ys => simp [insertBy, h y (by simp)]

end Go

import Wasp.Model.BrokerOps
import Wasp.Proofs.BrokerT13
/-!
helper lemmas for Wasp/Properties/C05C12E2E.lean (agent T14): on every reachable world the connection of every
registered session is not listed in `World.deaf`.

`World.deaf` only grows in the refusing branch of `World.connect`, for a connection name no session is registered
under (the `.connect` operation closes the old connection of that name first; the byte-level path only sets a
connection up while it has no session), and `applyOp` clears a re-used connection name from `deaf`. Every other
function of the model leaves `deaf` alone and registers no session (`DStep`).
-/
namespace Wasp.Broker.AgentT14
open Wasp.Broker Wasp.Dist Wasp.Topic Wasp.Broker.AgentD Wasp.Broker.AgentT5

/-! ### the relation between a world and its successor -/

/-- `w'` registers no connection `w` did not register on the same node, and `deaf` is untouched -/
structure DStep (w w' : World) : Prop where
  reg : ∀ j, ∀ s' ∈ (w'.node j).reg, ∃ s ∈ (w.node j).reg, s.conn = s'.conn
  deaf : w'.deaf = w.deaf

theorem DStep.refl (w : World) : DStep w w := ⟨fun _ s' h => ⟨s', h, rfl⟩, rfl⟩

theorem DStep.trans {a b c : World} (h1 : DStep a b) (h2 : DStep b c) : DStep a c := by
  refine ⟨fun j s' hs' => ?_, h2.deaf.trans h1.deaf⟩
  obtain ⟨s1, hs1, e1⟩ := h2.reg j s' hs'
  obtain ⟨s0, hs0, e0⟩ := h1.reg j s1 hs1
  exact ⟨s0, hs0, e0.trans e1⟩

theorem DStep.of_nodes_eq {w w' : World} (h : w'.nodes = w.nodes) (hd : w'.deaf = w.deaf := by rfl) : DStep w w' :=
  ⟨fun j s' hs' => ⟨s', by rw [node_congr h] at hs'; exact hs', rfl⟩, hd⟩

theorem DStep.setNode (w : World) (i : Nat) (n' : Node)
    (h : ∀ s' ∈ n'.reg, ∃ s ∈ (w.node i).reg, s.conn = s'.conn) : DStep w (w.setNode i n') := by
  refine ⟨fun j s' hs' => ?_, rfl⟩
  rw [node_setNode] at hs'
  split at hs'
  · rename_i hji; rw [hji.1]; exact h s' hs'
  · exact ⟨s', hs', rfl⟩

/-- the registry of the node is untouched -/
theorem d_setNode_same (w : World) (i : Nat) (n' : Node) (hr : n'.reg = (w.node i).reg := by rfl) :
    DStep w (w.setNode i n') :=
  DStep.setNode w i n' (fun s' hs' => ⟨s', by rw [hr] at hs'; exact hs', rfl⟩)

theorem DStep.foldl {α : Type} (f : World → α → World) (l : List α) (w : World)
    (hs : ∀ w a, DStep w (f w a)) : DStep w (l.foldl f w) :=
  foldl_inv (fun w' => DStep w w') f l w (DStep.refl w) (fun b a _ hb => hb.trans (hs b a))

theorem DStep.foldl' {α : Type} (f : World → α → World) (l : List α) (w b : World) (h0 : DStep w b)
    (hs : ∀ w a, DStep w (f w a)) : DStep w (l.foldl f b) := h0.trans (DStep.foldl f l b hs)

macro "d_back " t:term : tactic => `(tactic| refine DStep.trans ?_ $t)

theorem d_emit (w : World) (c : String) (p : Pkt) : DStep w (w.emit c p) := DStep.of_nodes_eq rfl

theorem d_tick (w : World) : DStep w w.tick.1 := DStep.of_nodes_eq rfl

/-! ### writes of the replicated state -/

theorem d_setDist (w : World) (i : Nat) (d : State) : DStep w (w.setNode i { w.node i with dist := d }) :=
  d_setNode_same w i _

theorem d_broadcast (w : World) (i : Nat) (ev : Event) : DStep w (w.broadcast i ev) := by
  unfold World.broadcast
  exact d_setNode_same w i _

/-- a registered session is replaced by one on the same connection -/
theorem d_setSess (w : World) (i : Nat) {sid : String} {s : Sess} (s' : Sess) (hs : (w.node i).sess sid = some s)
    (hc : s'.conn = s.conn := by rfl) : DStep w (w.setNode i ((w.node i).setSess s')) := by
  refine DStep.setNode w i _ ?_
  intro x' hx'
  simp only [Node.setSess, List.mem_map] at hx'
  obtain ⟨x, hx, rfl⟩ := hx'
  split
  · exact ⟨s, (sess_some hs).1, hc.symm⟩
  · exact ⟨x, hx, rfl⟩

theorem d_extendDeadline (w : World) (i : Nat) (sid : String) : DStep w (w.extendDeadline i sid) := by
  unfold World.extendDeadline
  simp only []
  split
  · rename_i s hs
    exact d_setSess w i _ hs
  · exact DStep.refl w

theorem d_subCreate (w : World) (i : Nat) (sid pat : String) (qos : Int) : DStep w (w.subCreate i sid pat qos) := by
  simp only [World.subCreate]
  d_back (d_broadcast _ _ _)
  d_back (d_setDist _ _ _)
  exact d_tick w

theorem d_subDelete (w : World) (i : Nat) (sid pat : String) : DStep w (w.subDelete i sid pat) := by
  simp only [World.subDelete]
  d_back (d_broadcast _ _ _)
  d_back (d_setDist _ _ _)
  exact d_tick w

theorem d_sessDelete (w : World) (i : Nat) (sid : String) : DStep w (w.sessDelete i sid) := by
  unfold World.sessDelete
  simp only []
  refine (d_tick w).trans ?_
  split
  · exact (d_setDist _ _ _).trans (d_broadcast _ _ _)
  · exact d_setDist _ _ _

theorem d_poolPut (w : World) (i : Nat) (mid : Int) : DStep w (w.poolPut i mid) := by
  unfold World.poolPut
  exact d_setNode_same w i _

/-! ### writer -/

theorem d_armAndSend (w : World) (i : Nat) (st : Stored) : DStep w (w.armAndSend i st) := by
  unfold World.armAndSend
  cases st with
  | out1 sid topic payload retain dup mid =>
    simp only []
    split
    · exact DStep.refl w
    · split
      · d_back (d_emit _ _ _)
        exact (d_extendDeadline w i sid).trans (d_setNode_same _ i _)
      · exact d_extendDeadline w i sid
  | out2 sid topic payload retain dup mid =>
    simp only []
    split
    · exact DStep.refl w
    · split
      · d_back (d_emit _ _ _)
        exact (d_extendDeadline w i sid).trans (d_setNode_same _ i _)
      · exact d_extendDeadline w i sid
  | rel sid mid =>
    simp only []
    split
    · exact DStep.refl w
    · d_back (d_emit _ _ _)
      refine (d_extendDeadline w i sid).trans (d_setNode_same _ i _ ?_)
      split <;> rfl
  | inbound a b c d => exact DStep.refl w

theorem d_sendArmed (w : World) (i : Nat) (st : Stored) (sid : String) (mid : Int) :
    DStep w (w.sendArmed i st sid mid) := by
  unfold World.sendArmed
  simp only
  split
  · exact (d_armAndSend w i st).trans (d_poolPut _ _ _)
  · exact d_armAndSend w i st

theorem d_send (w : World) (i : Nat) (l : List (String × Int)) (p : Pub) : DStep w (w.send i l p) := by
  induction l generalizing w with
  | nil => simp only [World.send]; exact DStep.refl w
  | cons x rest ih =>
    obtain ⟨sid, qos⟩ := x
    simp only [World.send]
    split
    · exact ih w
    · split
      · refine DStep.trans ?_ (ih _)
        d_back (d_emit _ _ _)
        exact d_extendDeadline w i sid
      · split
        · split
          · exact DStep.refl w
          · refine DStep.trans ?_ (ih _)
            d_back (d_sendArmed _ _ _ _ _)
            exact d_setNode_same w i _
        · exact ih w

theorem d_onResolved (w : World) (i : Nat) (ev : Ack.Resolved) (st : Stored) : DStep w (w.onResolved i ev st) := by
  unfold World.onResolved
  cases st <;> simp only <;> repeat' split
  all_goals first | exact d_armAndSend _ _ _ | exact d_poolPut _ _ _ | exact DStep.refl _

theorem d_deliverLocal (w : World) (j : Nat) (p : Pub) : DStep w (w.deliverLocal j p) := by
  unfold World.deliverLocal
  exact d_send _ _ _ _

theorem d_appendLog (w : World) (j : Nat) (p : Pub) : DStep w (w.setNode j ((w.node j).appendLog p).1) :=
  d_setNode_same w j _ (appendLog_reg _ _)

theorem d_distribute (w : World) (i : Nat) (p : Pub) : DStep w (w.distribute i p).1 := by
  unfold World.distribute
  simp only
  apply foldl_inv (P := fun (acc : World × Bool) => DStep w acc.1)
  · exact DStep.refl w
  · intro acc peer _ hacc
    split
    · exact hacc
    · split
      · exact hacc
      · split
        · refine hacc.trans ?_
          d_back (d_deliverLocal _ _ _)
          exact d_appendLog _ _ _
        · exact hacc.trans (d_appendLog _ _ _)

theorem d_retainStep (w : World) (i : Nat) (p : Pub) : DStep w (retainStep w i p) := by
  unfold retainStep
  split
  · simp only [World.tick]
    d_back (d_broadcast _ _ _)
    d_back (d_setDist _ _ _)
    exact DStep.of_nodes_eq rfl
  · exact DStep.refl w

theorem d_publishJob (w : World) (i : Nat) (p : Pub) (onOk : World → World) (h : ∀ w, DStep w (onOk w)) :
    DStep w (w.publishJob i p onOk) := by
  rw [publishJob_eq]
  split
  · exact ((d_retainStep w i p).trans (d_distribute _ _ _)).trans (h _)
  · exact (d_retainStep w i p).trans (d_distribute _ _ _)

/-! ### resolutions -/

theorem d_ackStep_rest (i : Nat) (w : World) (ev : Ack.Resolved) (st : Stored) :
    DStep w (match st with
      | .inbound _ conn pub imid => w.publishJob i pub (fun w => w.emit conn (.pubcomp imid))
      | _ => w.onResolved i ev st) := by
  cases st with
  | inbound a conn pub imid => exact d_publishJob _ _ _ _ (fun w => d_emit _ _ _)
  | out1 a b c d e f => exact d_onResolved _ _ _ _
  | out2 a b c d e f => exact d_onResolved _ _ _ _
  | rel a b => exact d_onResolved _ _ _ _

theorem d_ackStep (i : Nat) (w : World) (ev : Ack.Resolved) : DStep w (AgentT13.ackStep i w ev) := by
  unfold AgentT13.ackStep
  split
  · exact DStep.refl w
  · exact (d_setNode_same w i { w.node i with stored := storedErase ev.key (w.node i).stored }).trans
      (d_ackStep_rest i _ ev _)

theorem d_resolveStep (i : Nat) (w : World) (ev : Ack.Resolved) : DStep w (AgentT3.resolveStep i w ev) := by
  unfold AgentT3.resolveStep
  split
  · exact DStep.refl w
  · exact (d_setNode_same w i _).trans (d_onResolved _ _ _ _)

theorem d_ackFrom (w : World) (i : Nat) (pfx : String) (kind : Ack.PType) (mid : Int) :
    DStep w (w.ackFrom i pfx kind mid) := by
  rw [AgentT13.ackFrom_eq]
  exact DStep.foldl' _ _ _ _ (d_setNode_same w i _) (fun b ev => d_ackStep i b ev)

theorem d_sweep (w : World) (i : Nat) : DStep w (w.sweep i) := by
  rw [AgentT3.sweep_eq]
  refine DStep.foldl' _ _ _ _ ?_ (fun b ev => d_resolveStep i b ev)
  exact (DStep.of_nodes_eq (w := w) (w' := { w with epoch := w.epoch + 1 }) rfl).trans (d_setNode_same _ i _)

/-! ### packets, session end -/

theorem d_process (w : World) (i : Nat) (sid : String) (pkt : CPkt) : DStep w (w.process i sid pkt).1 := by
  unfold World.process
  simp only
  split
  · exact DStep.refl w
  · rename_i s hs
    cases pkt with
    | connect => exact DStep.refl w
    | publish topic payload qos retain dup mid =>
      simp only
      split
      · exact d_publishJob _ _ _ _ (fun w => DStep.refl w)
      · split
        · exact d_publishJob _ _ _ _ (fun w => d_emit _ _ _)
        · split
          · split
            · d_back (d_emit _ _ _)
              exact d_setNode_same w i _
            · exact DStep.refl w
          · exact DStep.refl w
    | subscribe mid topics =>
      simp only
      refine DStep.foldl' _ _ _ _ ?_ ?_
      · d_back (d_emit _ _ _)
        refine DStep.foldl' _ _ _ _ (DStep.refl w) ?_
        intro w tq
        refine (d_subCreate w i sid tq.1 tq.2).trans ?_
        split
        · rename_i s' hs'
          split
          · exact DStep.refl _
          · exact d_setSess _ i _ hs'
        · exact DStep.refl _
      · intro w tq
        refine DStep.foldl' _ _ _ _ (DStep.refl w) ?_
        intro w r
        exact d_send _ _ _ _
    | unsubscribe mid topics =>
      simp only
      d_back (d_emit _ _ _)
      refine DStep.foldl' _ _ _ _ (DStep.refl w) ?_
      intro w t
      refine (d_subDelete w i sid (prefixMountPoint s.mount t)).trans ?_
      split
      · rename_i s' hs'
        exact d_setSess _ i _ hs'
      · exact DStep.refl _
    | puback mid => exact d_ackFrom _ _ _ _ _
    | pubrec mid => exact d_ackFrom _ _ _ _ _
    | pubrel mid => exact d_ackFrom _ _ _ _ _
    | pubcomp mid => exact d_ackFrom _ _ _ _ _
    | pingreq =>
      simp only
      split
      · split
        · exact d_emit _ _ _
        · exact DStep.refl w
      · exact DStep.refl w
      · split
        · exact d_emit _ _ _
        · exact DStep.refl w
    | disconnect => exact DStep.refl w
    | other => exact DStep.refl w

theorem d_tdBase (w : World) (i : Nat) (s : Sess) : DStep w (tdBase w i s) := by
  unfold tdBase
  simp only
  refine DStep.foldl' _ _ _ _ ?_ (fun w t => d_subDelete w i s.id t)
  refine (DStep.setNode w i { w.node i with reg := (w.node i).reg.filter (fun x => x.id != s.id) } ?_).trans ?_
  · intro s' hs'
    exact ⟨s', (List.mem_filter.mp hs').1, rfl⟩
  · exact DStep.of_nodes_eq rfl

theorem d_teardown (w : World) (i : Nat) (s : Sess) : DStep w (teardown w i s).1 := by
  rw [teardown_eq]
  split
  · exact (d_tdBase w i s).trans (d_sessDelete _ _ _)
  · exact d_tdBase w i s

theorem d_shutdown (w : World) (i : Nat) (sid : String) : DStep w (w.shutdownSession i sid) := by
  cases hs : (w.node i).sess sid with
  | none =>
    have : w.shutdownSession i sid = w := by unfold World.shutdownSession; simp only [hs]
    rw [this]
    exact DStep.refl w
  | some s =>
    rw [shutdown_eq w i sid s hs]
    split
    · exact d_teardown w i s
    · split
      · exact d_teardown w i s
      · split
        · exact d_teardown w i s
        · exact (d_teardown w i s).trans (d_publishJob _ _ _ _ (fun w => DStep.refl w))

theorem d_clientPacket (w : World) (conn : String) (pkt : CPkt) : DStep w (w.clientPacket conn pkt) := by
  unfold World.clientPacket
  split
  · exact DStep.refl w
  · rename_i c i hc
    simp only []
    split
    · exact DStep.refl w
    · have hp := d_process w i ("S" ++ conn) pkt
      generalize w.process i ("S" ++ conn) pkt = r at hp
      obtain ⟨w', res⟩ := r
      simp only at hp ⊢
      cases res with
      | ok => exact hp.trans (d_extendDeadline _ _ _)
      | disconnected =>
        simp only []
        refine hp.trans (DStep.trans ?_ (d_shutdown _ _ _))
        split
        · rename_i s' hs'
          exact d_setSess _ i _ hs'
        · exact DStep.refl _
      | error => exact hp.trans (d_shutdown _ _ _)

theorem d_connPre (w : World) (c : String) (i : Nat) (client mount : String) :
    DStep w (connPre w c i client mount) := by
  unfold connPre
  simp only
  split
  · d_back (d_sessDelete _ _ _)
    exact DStep.of_nodes_eq rfl
  · exact DStep.of_nodes_eq rfl

theorem d_connMid (w : World) (c : String) (i : Nat) (client mount : String) (will : Option Will) :
    DStep w (connMid w c i client mount will) := by
  unfold connMid
  simp only
  refine ((d_connPre w c i client mount).trans (d_tick _)).trans ?_
  split
  · exact (d_setDist _ _ _).trans (d_broadcast _ _ _)
  · exact d_setDist _ _ _

theorem d_drop (w : World) (c : String) : DStep w (w.drop c) := by
  unfold World.drop
  split
  · exact DStep.refl w
  · simp only []
    have h0 : DStep w ({ w with conns := w.conns.filter (fun e => e.1 != c) } : World) := DStep.of_nodes_eq rfl
    split
    · exact h0.trans (d_shutdown _ _ _)
    · exact h0.trans (d_emit _ _ _)

/-! ### gossip, node failure, time -/

theorem d_deliverGossip (w : World) (src dst : Nat) : DStep w (w.deliverGossip src dst) := by
  unfold World.deliverGossip
  simp only []
  split
  · exact d_setNode_same w src _
  · exact (d_setNode_same w src _).trans (d_setNode_same _ dst _)

theorem d_gossipRound (w : World) : DStep w w.gossipRound := by
  unfold World.gossipRound
  simp only []
  refine DStep.foldl _ _ _ ?_
  intro b a
  refine DStep.foldl _ _ _ ?_
  intro b' a'
  split
  · exact d_deliverGossip _ _ _
  · exact DStep.refl _

theorem d_gossipAll (w : World) : DStep w w.gossipAll := by
  unfold World.gossipAll
  exact DStep.foldl _ _ _ (fun b _ => d_gossipRound b)

theorem d_leavePrefix (w : World) (i : Nat) (peer : Nat) : DStep w (AgentA.leavePrefix w i peer) := by
  unfold AgentA.leavePrefix
  simp only []
  d_back (d_broadcast _ _ _)
  d_back (d_setDist _ _ _)
  exact d_tick w

theorem d_leaveStep (i : Nat) (w : World) (s : SessionMD) : DStep w (AgentA.leaveStep i w s) := by
  unfold AgentA.leaveStep
  split
  · exact DStep.refl w
  · simp only []
    split
    · exact (d_appendLog _ _ _).trans (d_deliverLocal _ _ _)
    · exact d_appendLog _ _ _

theorem d_notifyLeave (w : World) (i : Nat) (peer : Nat) : DStep w (w.notifyLeave i peer) := by
  rw [AgentA.notifyLeave_eq]
  simp only
  d_back (d_setNode_same _ _ _)
  exact DStep.foldl' _ _ _ _ (d_leavePrefix w i peer) (fun b a => d_leaveStep i b a)

theorem d_nodeFail (w : World) (f : Nat) : DStep w (w.nodeFail f) := by
  unfold World.nodeFail
  simp only []
  refine DStep.foldl' _ _ _ _ ?_ ?_
  · refine DStep.foldl' _ _ _ _ ?_ (fun b a => d_emit b _ _)
    refine DStep.trans (b := w.setNode f { w.node f with failed := true, reg := [], pending := [] }) ?_
      (DStep.of_nodes_eq rfl)
    exact DStep.setNode w f _ (fun s' hs' => by cases hs')
  · intro b a
    split
    · exact d_notifyLeave _ _ _
    · exact DStep.refl _

theorem d_idleTimers (w : World) (i : Nat) : DStep w (idleTimers w i) := by
  unfold idleTimers
  simp only []
  refine DStep.foldl' _ _ _ _ (d_setNode_same w i _) ?_
  intro b a
  exact (d_tick b).trans ((d_setDist _ _ _).trans (d_broadcast _ _ _))

theorem d_idleNode (w : World) (i : Nat) : DStep w (idleNode w i) := by
  unfold idleNode
  split
  · exact DStep.refl w
  · refine DStep.foldl' _ _ _ _ (d_idleTimers w i) ?_
    intro b a
    split
    · split
      · exact d_shutdown _ _ _
      · exact DStep.refl _
    · exact DStep.refl _

theorem d_idle (w : World) (ms : Int) : DStep w (w.idle ms) := by
  rw [idle_eq]
  exact DStep.foldl' _ _ _ _ (DStep.of_nodes_eq (w := w) rfl) (fun b a => d_idleNode b a)

/-! ### the invariant; CONNECT -/

/-- the connection of every registered session is not listed in `deaf` -/
def DInv (w : World) : Prop := ∀ i, ∀ s ∈ (w.node i).reg, w.deaf.contains s.conn = false

/-- … except for sessions on connection `c` -/
def DInvE (c : String) (w : World) : Prop := ∀ i, ∀ s ∈ (w.node i).reg, s.conn ≠ c → w.deaf.contains s.conn = false

/-- sessions on connection `c` are no exception: `c` is not listed, or there is none -/
def Good (c : String) (w : World) : Prop := w.deaf.contains c = false ∨ NoConn c w

/-- as `DStep`, but a session may be registered on connection `c`, and `c` may be listed in `deaf` -/
structure DStepE (c : String) (w w' : World) : Prop where
  reg : ∀ j, ∀ s' ∈ (w'.node j).reg, s'.conn = c ∨ ∃ s ∈ (w.node j).reg, s.conn = s'.conn
  deaf : ∀ x ∈ w'.deaf, x = c ∨ x ∈ w.deaf

theorem DStep.toE {w w' : World} (h : DStep w w') (c : String) : DStepE c w w' :=
  ⟨fun j s' hs' => Or.inr (h.reg j s' hs'), fun x hx => Or.inr (by rw [h.deaf] at hx; exact hx)⟩

theorem DStepE.trans {c : String} {a b d : World} (h1 : DStepE c a b) (h2 : DStepE c b d) : DStepE c a d := by
  refine ⟨fun j s' hs' => ?_, fun x hx => ?_⟩
  · rcases h2.reg j s' hs' with e | ⟨s1, hs1, e1⟩
    · exact Or.inl e
    · rcases h1.reg j s1 hs1 with e | ⟨s0, hs0, e0⟩
      · exact Or.inl (e1 ▸ e)
      · exact Or.inr ⟨s0, hs0, e0.trans e1⟩
  · rcases h2.deaf x hx with e | hx1
    · exact Or.inl e
    · exact h1.deaf x hx1

theorem not_contains {l : List String} {x : String} : l.contains x = false ↔ x ∉ l := by
  rw [Bool.eq_false_iff, ne_eq, List.contains_iff_mem]

theorem DInv.step {w w' : World} (h : DInv w) (hs : DStep w w') : DInv w' := by
  intro i s' hs'
  obtain ⟨s, hmem, e⟩ := hs.reg i s' hs'
  rw [hs.deaf, ← e]
  exact h i s hmem

theorem DInvE.step {c : String} {w w' : World} (h : DInvE c w) (hs : DStepE c w w') : DInvE c w' := by
  intro i s' hs' hne
  rcases hs.reg i s' hs' with e | ⟨s, hmem, e⟩
  · exact absurd e hne
  · rw [not_contains]
    intro hx
    rcases hs.deaf _ hx with e2 | hx0
    · exact hne e2
    · have := h i s hmem (by rw [e]; exact hne)
      rw [not_contains, e] at this
      exact this hx0

theorem DInv.toE {w : World} (h : DInv w) (c : String) : DInvE c w := fun i s hs _ => h i s hs

theorem DInv.of_E {c : String} {w : World} (h : DInvE c w) (hg : Good c w) : DInv w := by
  intro i s hs
  by_cases e : s.conn = c
  · rcases hg with hd | hno
    · rw [e]; exact hd
    · exact absurd e (hno i s hs)
  · exact h i s hs e

theorem DInv.frame {w w' : World} (h : DInv w) (hn : w'.nodes = w.nodes) (hd : ∀ x ∈ w'.deaf, x ∈ w.deaf) : DInv w' := by
  intro i s hs
  rw [node_congr hn] at hs
  have := h i s hs
  rw [not_contains] at this ⊢
  exact fun hx => this (hd _ hx)

theorem connect_true_deaf (w : World) (c : String) (i : Nat) (client mount : String) (ka : Nat) (will : Option Will) :
    (w.connect c i client mount true ka will).deaf = w.deaf := by
  rw [connect_eq]
  split
  · exact (((d_connPre w c i client mount).trans (d_tick _)).trans (d_emit _ c .closed)).deaf
  · exact (d_connMid w c i client mount will).deaf

theorem dE_connect (w : World) (c : String) (i : Nat) (client mount : String) (authOk : Bool)
    (ka : Nat) (will : Option Will) : DStepE c w (w.connect c i client mount authOk ka will) := by
  cases authOk with
  | false =>
    unfold World.connect
    simp only [Bool.not_false, if_true]
    refine ⟨fun j s' hs' => Or.inr ⟨s', hs', rfl⟩, fun x hx => ?_⟩
    have hx' : x ∈ w.deaf ++ [c] := hx
    rcases List.mem_append.mp hx' with h1 | h1
    · exact Or.inr h1
    · exact Or.inl (by simpa using h1)
  | true =>
    rw [connect_eq]
    split
    · exact (((d_connPre w c i client mount).trans (d_tick _)).trans (d_emit _ c .closed)).toE c
    · have hm := d_connMid w c i client mount will
      generalize connMid w c i client mount will = W at hm
      refine ⟨fun j s' hs' => ?_, fun x hx => Or.inr ?_⟩
      · have hs2 : s' ∈ ((W.setNode i { W.node i with reg := (W.node i).reg ++ [connSess W.now c client mount ka will] }).node j).reg := hs'
        rw [node_setNode] at hs2
        split at hs2
        · rename_i hji
          rcases List.mem_append.mp hs2 with h1 | h1
          · rw [hji.1]; exact Or.inr (hm.reg i s' h1)
          · left
            have : s' = connSess W.now c client mount ka will := by simpa using h1
            rw [this]; rfl
        · exact Or.inr (hm.reg j s' hs2)
      · have hx' : x ∈ W.deaf := hx
        rw [hm.deaf] at hx'
        exact hx'

theorem good_connect {w : World} {c : String} (hd : w.deaf.contains c = false) (hno : NoConn c w) (i : Nat)
    (client mount : String) (authOk : Bool) (ka : Nat) (will : Option Will) :
    Good c (w.connect c i client mount authOk ka will) := by
  cases authOk with
  | false =>
    right
    unfold World.connect
    simp only [Bool.not_false, if_true]
    exact noConn_congr hno rfl
  | true =>
    left
    rw [connect_true_deaf]
    exact hd

/-! ### the byte-level path (Wasp/Model/Wire.lean) -/
open Wasp.Wire

theorem d_setBuf (w : World) (c : String) (b : Wire.Bytes) : DStep w (setBuf w c b) := DStep.of_nodes_eq rfl

theorem d_failConn (w : World) (c : String) : DStep w (failConn w c) := by
  unfold failConn
  split
  · exact DStep.refl w
  · split
    · exact d_shutdown _ _ _
    · exact DStep.of_nodes_eq rfl

theorem dE_applyDecoded (w : World) (c : String) (r : DRes) : DStepE c w (applyDecoded w c r) := by
  unfold applyDecoded
  split
  · exact (DStep.refl w).toE c
  · split
    · cases r with
      | pkt p => exact (d_clientPacket _ _ _).toE c
      | connect a b c d e => exact (d_clientPacket _ _ _).toE _
      | err => exact (d_failConn _ _).toE c
      | panic => exact (d_failConn _ _).toE c
    · cases r with
      | connect client user pass ka will =>
        simp only []
        split
        · exact dE_connect _ _ _ _ _ _ _ _
        · exact dE_connect _ _ _ _ _ _ _ _
      | pkt p => exact (d_failConn _ _).toE c
      | err => exact (d_failConn _ _).toE c
      | panic => exact (d_failConn _ _).toE c

theorem Good.of_step {c : String} {w w' : World} (hd : w.deaf.contains c = false) (hs : DStep w w') : Good c w' :=
  Or.inl (by rw [hs.deaf]; exact hd)

theorem good_applyDecoded {w : World} (h : GI w) {c : String} (hd : w.deaf.contains c = false) (r : DRes) :
    Good c (applyDecoded w c r) := by
  unfold applyDecoded
  cases hf : w.conns.find? (fun e => e.1 == c) with
  | none => exact Or.inl hd
  | some p =>
    obtain ⟨x, i⟩ := p
    simp only []
    split
    · cases r with
      | pkt p => exact Good.of_step hd (d_clientPacket _ _ _)
      | connect a b c d e => exact Good.of_step hd (d_clientPacket _ _ _)
      | err => exact Good.of_step hd (d_failConn _ _)
      | panic => exact Good.of_step hd (d_failConn _ _)
    · rename_i hhs
      rw [hasSession_of_find hf] at hhs
      have hno := noConn_of_noSess h.2 hf (sess_none_of_not_isSome hhs)
      cases r with
      | connect client user pass ka will =>
        simp only []
        split
        · exact good_connect hd hno _ _ _ _ _ _
        · exact good_connect hd hno _ _ _ _ _ _
      | pkt p => exact Good.of_step hd (d_failConn _ _)
      | err => exact Good.of_step hd (d_failConn _ _)
      | panic => exact Good.of_step hd (d_failConn _ _)

theorem dinv_applyDecoded {w : World} (h : GI w) (hI : DInv w) {c : String} (hd : w.deaf.contains c = false)
    (r : DRes) : DInv (applyDecoded w c r) :=
  DInv.of_E ((hI.toE c).step (dE_applyDecoded w c r)) (good_applyDecoded h hd r)

theorem dinv_pump (c : String) (fuel : Nat) : ∀ w : World, GI w → DInv w → DInv (pump fuel w c).1 := by
  induction fuel with
  | zero => intro w _ hI; exact hI
  | succ fuel ih =>
    intro w h hI
    unfold pump
    split
    · exact hI.step (d_setBuf _ _ _)
    · split
      · exact hI.step (d_setBuf _ _ _)
      · rename_i hdeaf
        have hd : w.deaf.contains c = false := by simpa using hdeaf
        split
        · exact hI
        · exact hI.step ((d_setBuf _ _ _).trans (d_failConn _ _))
        · exact ih _ (gi_applyDecoded (gi_setBuf h _ _) _ _)
            (dinv_applyDecoded (gi_setBuf h _ _) (hI.step (d_setBuf _ _ _)) hd _)

theorem dinv_rawBytes {w : World} (h : GI w) (hI : DInv w) (c : String) (b : Wire.Bytes) : DInv (rawBytes w c b).1 := by
  unfold rawBytes
  split
  · exact hI
  · exact dinv_pump c _ _ (gi_setBuf h _ _) (hI.step (d_setBuf _ _ _))

theorem d_closeFin (w : World) (c : String) : DStep w (AgentT1.closeFin w c) := by
  unfold AgentT1.closeFin
  split
  · split
    · exact d_drop w c
    · exact DStep.of_nodes_eq rfl
  · exact d_emit _ _ _

theorem dinv_closeRaw {w : World} (h : GI w) (hI : DInv w) (c : String) : DInv (closeFromClientRaw w c) := by
  rw [AgentT1.closeRaw_eq]
  have key : ∀ w1 : World, GI w1 → DStepE c w w1 → DInv (AgentT1.closeFin w1 c) := by
    intro w1 hG hE
    have hno := (gi_closeFin hG c).2
    exact DInv.of_E (((hI.toE c).step hE).step ((d_closeFin w1 c).toE c)) (Or.inr hno)
  apply key
  · split
    · exact gi_setBuf h _ _
    · split
      · exact gi_applyDecoded (gi_setBuf h _ _) _ _
      · exact gi_setBuf h _ _
  · split
    · exact (d_setBuf _ _ _).toE c
    · split
      · exact ((d_setBuf _ _ _).toE c).trans (dE_applyDecoded _ _ _)
      · exact (d_setBuf _ _ _).toE c

theorem dinv_closeFromClient {w : World} (h : GI w) (hI : DInv w) (c : String) : DInv (closeFromClient w c) := by
  unfold closeFromClient
  exact (dinv_closeRaw h hI c).frame rfl (fun _ hx => hx)

theorem dinv_hsStep {w : World} (h : GI w) (hI : DInv w) (e : String × Int) : DInv (AgentT1.hsStep w e) := by
  unfold AgentT1.hsStep
  split
  · exact dinv_closeRaw (gi_frame (w' := { w with hs := w.hs.filter (fun x => x.1 != e.1) }) h rfl rfl rfl)
      (hI.frame rfl (fun _ hx => hx)) _
  · exact hI

/-- the registry invariants of Wasp/Proofs/BrokerT5.lean and the new one together -/
def J (w : World) : Prop := GI w ∧ DInv w

theorem j_expireHandshakes {w : World} (h : J w) : J (expireHandshakes w) := by
  rw [AgentT1.expire_eq]
  exact foldl_inv J _ _ _ h (fun b a _ hb => ⟨gi_hsStep hb.1 a, dinv_hsStep hb.1 hb.2 a⟩)

theorem dinv_wireIdle {w : World} (h : GI w) (hI : DInv w) (ms : Int) : DInv (Wasp.Wire.idle w ms) := by
  unfold Wasp.Wire.idle
  exact (j_expireHandshakes ⟨⟨AgentT3.idle_inv w ms h.1, rinv_idle h.2 ms⟩, hI.step (d_idle w ms)⟩).2

theorem gi_shift {w : World} (h : GI w) (ms : Int) :
    GI { w with nodes := w.nodes.map (fun n => { n with timers := n.timers.map (fun t => (t.1 + ms, t.2)) }) } := by
  constructor
  · intro j
    rw [shift_node]
    exact PoolInv.congr (n := w.node j) rfl (h.1 j)
  · refine ⟨h.2.clockPos, fun j => ?_, fun j s hs => ?_⟩
    · rw [shift_node]
      have hn := h.2.node j
      exact ⟨hn.regNodup, hn.regConn, hn.subsWF, hn.subsClock, hn.pendClock⟩
    · rw [shift_node] at hs
      exact h.2.conns j s hs

theorem dinv_elapse {w : World} (h : GI w) (hI : DInv w) (ms : Int) : DInv (Wasp.Wire.elapse w ms) := by
  unfold Wasp.Wire.elapse
  refine dinv_wireIdle (gi_shift h ms) ?_ ms
  intro i s hs
  rw [shift_node] at hs
  exact hI i s hs

/-! ### the operations of `applyOp` -/

theorem dinv_init (n : Nat) : DInv (World.init n) := fun _ _ _ => rfl

theorem dinv_op {w : World} (h : GI w) (hI : DInv w) (op : BOp) : DInv (applyOp w op) := by
  cases op with
  | connect c node client mount authOk ka will =>
    simp only [applyOp]
    have h1 : (GI (if w.conns.any (fun e => e.1 == c) then w.drop c else w) ∧
        NoConn c (if w.conns.any (fun e => e.1 == c) then w.drop c else w)) ∧
        DInv (if w.conns.any (fun e => e.1 == c) then w.drop c else w) := by
      split
      · exact ⟨gi_drop h c, hI.step (d_drop w c)⟩
      · rename_i hany
        exact ⟨⟨h, noConn_of_find_none h.2 (any_false_find hany)⟩, hI⟩
    generalize (if w.conns.any (fun e => e.1 == c) then w.drop c else w) = w1 at h1
    have hI2 : DInv { w1 with out := w1.out.filter (fun e => e.1 != c), deaf := w1.deaf.filter (· != c) } :=
      h1.2.frame rfl (fun x hx => (List.mem_filter.mp hx).1)
    have hd2 : ({ w1 with out := w1.out.filter (fun e => e.1 != c), deaf := w1.deaf.filter (· != c) } : World).deaf.contains c
        = false := AgentT13.contains_filter_ne_self w1.deaf c
    have hno2 : NoConn c { w1 with out := w1.out.filter (fun e => e.1 != c), deaf := w1.deaf.filter (· != c) } :=
      noConn_congr h1.1.2 rfl
    generalize ({ w1 with out := w1.out.filter (fun e => e.1 != c), deaf := w1.deaf.filter (· != c) } : World) = w2
      at hI2 hd2 hno2
    exact DInv.of_E ((hI2.toE c).step (dE_connect w2 c node client mount authOk ka will))
      (good_connect hd2 hno2 node client mount authOk ka will)
  | packet c pkt =>
    simp only [applyOp]
    split
    · exact hI.step (d_clientPacket _ _ _)
    · exact hI
  | drop c => exact dinv_closeFromClient h hI c
  | openConn c node =>
    simp only [applyOp]
    have h1 : DInv (if w.conns.any (fun e => e.1 == c) then closeFromClient w c else w) := by
      split
      · exact dinv_closeFromClient h hI c
      · exact hI
    generalize (if w.conns.any (fun e => e.1 == c) then closeFromClient w c else w) = w1 at h1
    exact h1.frame rfl (fun x hx => (List.mem_filter.mp hx).1)
  | raw c b => exact dinv_rawBytes h hI c b
  | gossipAll => exact hI.step (d_gossipAll w)
  | gossip f t => exact hI.step (d_deliverGossip w f t)
  | gossipOne f t k =>
    simp only [applyOp]
    split
    · exact hI
    · split
      · exact hI.step (d_setNode_same w f _)
      · exact hI.step ((d_setNode_same w f _).trans (d_setNode_same _ t _))
  | loseGossip f t => exact hI.step (d_setNode_same w f _)
  | sync f t => exact hI.step (d_setNode_same w t _)
  | unreachable n b => exact hI.step (d_setNode_same w n _)
  | logFailAll n b => exact hI.step (d_setNode_same w n _)
  | logFailAt n k => exact hI.step (d_setNode_same w n _)
  | logFailNone n => exact hI.step (d_setNode_same w n _)
  | nodeFail n => exact hI.step (d_nodeFail w n)
  | sweep n => exact hI.step (d_sweep w n)
  | idle ms => exact dinv_wireIdle h hI ms
  | elapse ms => exact dinv_elapse h hI ms
  | setPool n lo hi =>
    simp only [applyOp]
    split
    · exact hI.step (d_setNode_same w n _)
    · exact hI
  | rpcPublish n topic payload => exact hI.step (d_distribute w n _)

theorem j_step {w : World} (h : J w) (op : BOp) : J (applyOp w op) := ⟨gi_step h.1 op, dinv_op h.1 h.2 op⟩

theorem j_run (ops : List BOp) : ∀ w : World, J w → J (run w ops) := by
  induction ops with
  | nil => intro w h; exact h
  | cons op rest ih => intro w h; exact ih _ (j_step h op)

/-- on every reachable world the connection of every registered session is not listed in `deaf` -/
theorem reachable_dinv (w : World) (h : Reachable w) : DInv w := by
  obtain ⟨n, ops, rfl⟩ := h
  exact (j_run ops _ ⟨gi_init n, dinv_init n⟩).2

end Wasp.Broker.AgentT14

import Wasp.Model.BrokerOps
import Wasp.Proofs.BrokerT10
import Wasp.Proofs.BrokerT3
/-! helper lemmas for Wasp/Properties/C02E2E.lean (agent T12) -/
namespace Wasp.Broker
open Wasp.Dist Wasp.Topic

/-- the recipients node 0 resolves for a stored publish -/
def localRecipients (w : World) (pt : String) : List (String × Int) :=
  ((subByPattern (w.node 0).dist pt).filter (fun u => u.peer == (w.node 0).peer)).map (fun u => (u.session, u.qos))

end Wasp.Broker

namespace Wasp.Broker.AgentT12
open Wasp.Broker Wasp.Dist Wasp.Topic Wasp.Broker.AgentC Wasp.Broker.AgentT6

theorem process_publish1 (w : World) (i : Nat) (sid : String) (s : Sess) (hs : (w.node i).sess sid = some s)
    (topic payload : String) (dup : Bool) (mid : Int) :
    (w.process i sid (.publish topic payload 1 false dup mid)).1 =
      if (w.distribute i ⟨prefixMountPoint s.mount topic, payload, 1, false, dup⟩).2 = true then
        (w.distribute i ⟨prefixMountPoint s.mount topic, payload, 1, false, dup⟩).1.emit s.conn (.puback mid)
      else (w.distribute i ⟨prefixMountPoint s.mount topic, payload, 1, false, dup⟩).1 := by
  simp only [World.process, hs, World.publishJob]
  simp only [Bool.false_eq_true, if_false, show ((1:Nat) = 0) = False from by simp, if_true]

theorem distribute_one (w : World) (hlen : w.nodes.length = 1) (p : Pub)
    (hpeer : ∀ kl ∈ (w.node 0).dist.subs, ∀ u ∈ kl.2, u.peer = (w.node 0).peer)
    (hne : subByPattern (w.node 0).dist p.topic ≠ [])
    (hlog : (w.node 0).logFailAll = false ∧ (w.node 0).logFailAt.contains (w.node 0).logCalls = false) :
    w.distribute 0 p =
      ((w.setNode 0 { w.node 0 with logCalls := (w.node 0).logCalls + 1, log := (w.node 0).log ++ [p] }).deliverLocal 0 p, true) := by
  have hpe : ∀ x ∈ (subByPattern (w.node 0).dist p.topic).map (·.peer), x = (w.node 0).peer := by
    intro x hx
    obtain ⟨u, hu, rfl⟩ := List.mem_map.1 hx
    obtain ⟨kl, hkl, hukl⟩ := mem_subByPattern' hu
    exact hpeer kl hkl u hukl
  unfold World.distribute
  simp only
  rw [dedupNat_const _ _ hpe]
  have hne' : ¬ (List.map (·.peer) (subByPattern (w.node 0).dist p.topic) = []) := by simpa using hne
  rw [if_neg hne']
  simp only [List.foldl_cons, List.foldl_nil, nodeIndexOfPeer_single w hlen, appendLog_ok _ p hlog]
  simp only [ne_eq, not_true_eq_false, false_and, if_false, if_true]


/-- the in-flight entry of a QoS 1 delivery armed in a world of epoch `e` -/
def msg1 (e : Nat) (mid : Int) : Ack.Msg := ⟨.puback, .publish, mid, (e : Int) * 10000 + 3000⟩

/-- what a successful QoS 1 `armAndSend` does to node i -/
structure Sent (w w' : World) (i : Nat) (sid : String) (mid : Int) (st : Stored) : Prop where
  len : w'.nodes.length = w.nodes.length
  epoch : w'.epoch = w.epoch
  acks : (w'.node i).acks =
    { msgs := (w.node i).acks.msgs ++ [(Ack.hashKey sid mid, msg1 w.epoch mid)],
      timeouts := Ack.pqInsert (Ack.hashKey sid mid) ((w.epoch : Int) * 10000 + 3000) (w.node i).acks.timeouts }
  stored : (w'.node i).stored = (w.node i).stored ++ [(Ack.hashKey sid mid, st)]
  pool : (w'.node i).pool = (w.node i).pool
  cm : CM (w.node i) (w'.node i)

theorem extendDeadline_epoch (w : World) (i : Nat) (sid : String) : (w.extendDeadline i sid).epoch = w.epoch := by
  simp only [World.extendDeadline]; cases (w.node i).sess sid <;> rfl

theorem armAndSend_sent (w : World) (i : Nat) (hi : i < w.nodes.length) (sid topic payload : String)
    (retain dup : Bool) (mid : Int) (s : Sess) (hs : (w.node i).sess sid = some s) (hmid : mid ≠ 0)
    (hfree : Ack.msgFind (Ack.hashKey sid mid) (w.node i).acks.msgs = none) :
    Sent w (w.armAndSend i (.out1 sid topic payload retain dup mid)) i sid mid (.out1 sid topic payload retain dup mid) ∧
    (w.armAndSend i (.out1 sid topic payload retain dup mid)).out = w.out ++ [(s.conn, .publish topic payload 1 retain dup mid)] := by
  have hn := extendDeadline_node w i hi sid s hs
  have hins := insert_ok ((w.extendDeadline i sid).node i).acks sid .publish 1 mid
    (ackDeadline (w.extendDeadline i sid)) .puback hmid (by rw [hn]; exact hfree) rfl
  have hi' : i < (w.extendDeadline i sid).nodes.length := by simpa using hi
  have hcm : CM (w.node i) ((w.node i).setSess (bumped w s)) := CM.setSess hs rfl rfl rfl
  simp only [World.armAndSend, hs, hins, if_true]
  refine ⟨⟨?_, ?_, ?_, ?_, ?_, ?_⟩, ?_⟩
  · simp
  · exact extendDeadline_epoch w i sid
  · simp [node_setNode_self _ _ _ hi', hn, Node.setSess, msg1, ackDeadline, extendDeadline_epoch]
  · simp [node_setNode_self _ _ _ hi', hn, Node.setSess]
  · simp [node_setNode_self _ _ _ hi', hn, Node.setSess]
  · rw [emit_node, node_setNode_self _ _ _ hi', hn]
    exact hcm.trans (CM.of_reg_eq rfl)
  · simp

theorem send_one1 (w : World) (i : Nat) (hi : i < w.nodes.length) (sid : String) (s : Sess)
    (hs : (w.node i).sess sid = some s) (p : Pub)
    (hget : 0 < (IdPool.get (w.node i).pool).2)
    (hfresh : Ack.msgFind (Ack.hashKey sid (IdPool.get (w.node i).pool).2) (w.node i).acks.msgs = none) :
    w.send i [(sid, 1)] p =
      (w.setNode i { w.node i with pool := (IdPool.get (w.node i).pool).1 }).armAndSend i
        (.out1 sid (trimMountPoint s.mount p.topic) p.payload p.retain p.dup (IdPool.get (w.node i).pool).2) := by
  have hle : ¬ (IdPool.get (w.node i).pool).2 ≤ 0 := by omega
  have hne : (IdPool.get (w.node i).pool).2 ≠ 0 := by omega
  simp only [World.send, hs]
  simp only [show ((1:Int) = 0) = False from by simp, if_false, true_or, if_true, hle]
  generalize hw2 : w.setNode i _ = w2
  have hn2 : w2.node i = { w.node i with pool := (IdPool.get (w.node i).pool).1 } := by
    rw [← hw2, node_setNode_self _ _ _ hi]
  have hi2 : i < w2.nodes.length := by rw [← hw2]; simpa using hi
  have hA := (armAndSend_sent w2 i hi2 sid (trimMountPoint s.mount p.topic) p.payload p.retain p.dup
    (IdPool.get (w.node i).pool).2 s (by rw [hn2]; exact hs) hne (by rw [hn2]; exact hfresh)).1
  unfold World.sendArmed
  simp only
  rw [if_neg]
  rintro ⟨h1, _⟩
  rw [hA.acks] at h1
  simp at h1


/-! ### the whole delivery -/

/-- no callback is stored under the key of a free identifier (for a session id not ending in "/in") -/
theorem stored_fresh {n : Node} (hn : PoolInv n) (sid : String) (hsid : ∀ s, sid ≠ s ++ "/in") (mid : Int)
    (hfree : IdPool.freeIn n.pool.ivs mid) : storedFind (Ack.hashKey sid mid) n.stored = none := by
  cases hf : storedFind (Ack.hashKey sid mid) n.stored with
  | none => rfl
  | some st =>
    exfalso
    have hm := AgentT3.storedFind_mem hf
    cases st with
    | out1 s' t pl r d m' =>
      obtain ⟨hk, hnf⟩ := hn.key _ _ s' m' hm rfl
      rw [(AgentT3.hashKey_inj hk).2] at hfree
      exact hnf hfree
    | out2 s' t pl r d m' =>
      obtain ⟨hk, hnf⟩ := hn.key _ _ s' m' hm rfl
      rw [(AgentT3.hashKey_inj hk).2] at hfree
      exact hnf hfree
    | rel s' m' =>
      obtain ⟨hk, hnf⟩ := hn.key _ _ s' m' hm rfl
      rw [(AgentT3.hashKey_inj hk).2] at hfree
      exact hnf hfree
    | inbound s' c pb m' =>
      have hk := hn.inb _ s' c pb m' hm
      exact hsid s' (AgentT3.hashKey_inj hk).1

/-- the state after the QoS 1 publish of the end-to-end theorems -/
structure Delivered (w w' : World) (sid : String) (mid : Int) (st : Stored) : Prop where
  len : w'.nodes.length = w.nodes.length
  epoch : w'.epoch = w.epoch
  acks : (w'.node 0).acks =
    { msgs := (w.node 0).acks.msgs ++ [(Ack.hashKey sid mid, msg1 w.epoch mid)],
      timeouts := Ack.pqInsert (Ack.hashKey sid mid) ((w.epoch : Int) * 10000 + 3000) (w.node 0).acks.timeouts }
  stored : (w'.node 0).stored = (w.node 0).stored ++ [(Ack.hashKey sid mid, st)]
  pool : (w'.node 0).pool = (IdPool.get (w.node 0).pool).1
  cm : CM (w.node 0) (w'.node 0)

theorem publish_delivered (w : World) (hlen : w.nodes.length = 1)
    (hpeer : ∀ kl ∈ (w.node 0).dist.subs, ∀ u ∈ kl.2, u.peer = (w.node 0).peer)
    (p r : Sess) (hp : (w.node 0).sess p.id = some p) (hrr : (w.node 0).sess r.id = some r)
    (topic payload : String) (dup : Bool) (mid : Int)
    (hrc : localRecipients w (prefixMountPoint p.mount topic) = [(r.id, 1)])
    (hpool : 0 < (IdPool.get (w.node 0).pool).2)
    (hfresh : Ack.msgFind (Ack.hashKey r.id (IdPool.get (w.node 0).pool).2) (w.node 0).acks.msgs = none)
    (hlog : (w.node 0).logFailAll = false ∧ (w.node 0).logFailAt.contains (w.node 0).logCalls = false) :
    (w.process 0 p.id (.publish topic payload 1 false dup mid)).1.out =
      w.out ++ [(r.conn, Pkt.publish (trimMountPoint r.mount (prefixMountPoint p.mount topic)) payload 1 false dup (IdPool.get (w.node 0).pool).2),
                (p.conn, Pkt.puback mid)] ∧
    Delivered w (w.process 0 p.id (.publish topic payload 1 false dup mid)).1 r.id (IdPool.get (w.node 0).pool).2
      (.out1 r.id (trimMountPoint r.mount (prefixMountPoint p.mount topic)) payload false dup (IdPool.get (w.node 0).pool).2) := by
  have hi : 0 < w.nodes.length := by omega
  have hne : subByPattern (w.node 0).dist (prefixMountPoint p.mount topic) ≠ [] := by
    intro he
    simp [localRecipients, he] at hrc
  rw [process_publish1 w 0 p.id p hp,
    distribute_one w hlen ⟨prefixMountPoint p.mount topic, payload, 1, false, dup⟩ hpeer hne hlog]
  simp only [if_true]
  generalize hw1 : w.setNode 0 _ = w1
  have hn1 : w1.node 0 = { w.node 0 with logCalls := (w.node 0).logCalls + 1, log := (w.node 0).log ++ [⟨prefixMountPoint p.mount topic, payload, 1, false, dup⟩] } := by
    rw [← hw1, node_setNode_self _ _ _ hi]
  have hi1 : 0 < w1.nodes.length := by rw [← hw1]; simpa using hi
  have hout1 : w1.out = w.out := by rw [← hw1]; rfl
  have hep1 : w1.epoch = w.epoch := by rw [← hw1]; rfl
  have hlen1 : w1.nodes.length = w.nodes.length := by rw [← hw1]; simp
  have hdl : w1.deliverLocal 0 ⟨prefixMountPoint p.mount topic, payload, 1, false, dup⟩ =
      w1.send 0 [(r.id, 1)] ⟨prefixMountPoint p.mount topic, payload, 1, false, dup⟩ := by
    unfold World.deliverLocal
    simp only [hn1]
    exact congrArg (fun l => w1.send 0 l _) hrc
  rw [hdl, send_one1 w1 0 hi1 r.id r (by rw [hn1]; exact hrr) _ (by rw [hn1]; exact hpool) (by rw [hn1]; exact hfresh)]
  simp only [hn1]
  generalize hw2 : w1.setNode 0 _ = w2
  have hn2 : w2.node 0 = { w.node 0 with logCalls := (w.node 0).logCalls + 1, log := (w.node 0).log ++ [⟨prefixMountPoint p.mount topic, payload, 1, false, dup⟩], pool := (IdPool.get (w.node 0).pool).1 } := by
    rw [← hw2, node_setNode_self _ _ _ hi1]
  have hi2 : 0 < w2.nodes.length := by rw [← hw2]; simpa using hi1
  have hout2 : w2.out = w.out := by rw [← hw2]; exact hout1
  have hep2 : w2.epoch = w.epoch := by rw [← hw2]; exact hep1
  have hlen2 : w2.nodes.length = w.nodes.length := by rw [← hw2, setNode_length]; exact hlen1
  obtain ⟨hS, hO⟩ := armAndSend_sent w2 0 hi2 r.id (trimMountPoint r.mount (prefixMountPoint p.mount topic)) payload false dup
    (IdPool.get (w.node 0).pool).2 r (by rw [hn2]; exact hrr) (by omega) (by rw [hn2]; exact hfresh)
  refine ⟨?_, ?_⟩
  · rw [emit_out, hO, hout2]
    simp
  · refine ⟨?_, ?_, ?_, ?_, ?_, ?_⟩
    · rw [emit_length, hS.len, hlen2]
    · show (World.armAndSend _ _ _).epoch = _
      rw [hS.epoch, hep2]
    · rw [emit_node, hS.acks, hn2, hep2]
    · rw [emit_node, hS.stored, hn2]
    · rw [emit_node, hS.pool, hn2]
    · rw [emit_node]
      exact (CM.of_reg_eq (n := w.node 0) (n' := w2.node 0) (by rw [hn2])).trans hS.cm

/-! ### the recipient's PUBACK -/

theorem msgFind_snoc_self {k : Ack.Key} {m : Ack.Msg} {l : List (Ack.Key × Ack.Msg)} (h : Ack.msgFind k l = none) :
    Ack.msgFind k (l ++ [(k, m)]) = some m := by
  rw [Ack.msgFind_append, h]; simp [Ack.msgFind]

theorem msgErase_snoc_self {k : Ack.Key} {m : Ack.Msg} {l : List (Ack.Key × Ack.Msg)} (h : Ack.msgFind k l = none) :
    Ack.msgErase k (l ++ [(k, m)]) = l := by
  induction l with
  | nil => simp [Ack.msgErase]
  | cons x rest ih =>
    obtain ⟨k', m'⟩ := x
    simp only [Ack.msgFind] at h
    split at h
    · cases h
    · rename_i hk
      simp only [List.cons_append, Ack.msgErase, hk, if_false, ih h]

theorem storedFind_snoc_self {k : Ack.Key} {st : Stored} {l : List (Ack.Key × Stored)} (h : storedFind k l = none) :
    storedFind k (l ++ [(k, st)]) = some st := by
  rw [storedFind_append, h]; simp [storedFind]

theorem puback_delivered (w w' : World) (sid t pl : String) (rt d : Bool) (mid : Int)
    (hD : Delivered w w' sid mid (.out1 sid t pl rt d mid)) (hlen : w.nodes.length = 1)
    (hsess : ((w'.node 0).sess sid).isSome = true)
    (hfresh : Ack.msgFind (Ack.hashKey sid mid) (w.node 0).acks.msgs = none)
    (hsf : storedFind (Ack.hashKey sid mid) (w.node 0).stored = none) :
    ((w'.process 0 sid (.puback mid)).1.node 0).acks.msgs = (w.node 0).acks.msgs ∧
    ((w'.process 0 sid (.puback mid)).1.node 0).pool = IdPool.put (IdPool.get (w.node 0).pool).1 mid ∧
    (w'.process 0 sid (.puback mid)).1.out = w'.out := by
  have hi : 0 < w'.nodes.length := by rw [hD.len]; omega
  obtain ⟨s', hs'⟩ := Option.isSome_iff_exists.mp hsess
  have hm : Ack.msgFind (Ack.hashKey sid mid) (w'.node 0).acks.msgs = some (msg1 w.epoch mid) := by
    rw [hD.acks]; exact msgFind_snoc_self hfresh
  simp only [World.process, hs', World.ackFrom]
  have hack : Ack.ack (w'.node 0).acks sid .puback true mid = _ := Ack.ack_ok_eq hm rfl
  rw [hack]
  simp only [List.foldl_cons, List.foldl_nil]
  generalize hw1 : w'.setNode 0 _ = w1
  have hn1 : w1.node 0 = { w'.node 0 with acks := { msgs := Ack.msgErase (Ack.hashKey sid mid) (w'.node 0).acks.msgs, timeouts := (Ack.pqDelete (Ack.hashKey sid mid) (msg1 w.epoch mid).deadline (w'.node 0).acks.timeouts).1 } } := by
    rw [← hw1, node_setNode_self _ _ _ hi]
  have hi1 : 0 < w1.nodes.length := by rw [← hw1]; simpa using hi
  have hout1 : w1.out = w'.out := by rw [← hw1]; rfl
  have hst : storedFind (Ack.hashKey sid mid) (w1.node 0).stored = some (.out1 sid t pl rt d mid) := by
    rw [hn1]; show storedFind _ (w'.node 0).stored = _
    rw [hD.stored]; exact storedFind_snoc_self hsf
  simp only [hst]
  simp only [World.onResolved, Bool.false_eq_true, false_and, if_false, World.poolPut]
  generalize hw2 : w1.setNode 0 _ = w2
  have hn2 : w2.node 0 = { w1.node 0 with stored := storedErase (Ack.hashKey sid mid) (w1.node 0).stored } := by
    rw [← hw2, node_setNode_self _ _ _ hi1]
  have hi2 : 0 < w2.nodes.length := by rw [← hw2]; simpa using hi1
  have hout2 : w2.out = w'.out := by rw [← hw2]; exact hout1
  rw [node_setNode_self _ _ _ hi2]
  refine ⟨?_, ?_, ?_⟩
  · rw [hn2, hn1]
    show Ack.msgErase _ (w'.node 0).acks.msgs = _
    rw [hD.acks]
    exact msgErase_snoc_self hfresh
  · rw [hn2, hn1]
    show IdPool.put (w'.node 0).pool mid = _
    rw [hD.pool]
  · exact hout2

/-! ### the expiry sweep -/

theorem expireKeys_nil (ks : List Ack.Key) : Ack.expireKeys ks [] = ([], []) := by
  induction ks with
  | nil => rfl
  | cons k rest ih => simp [Ack.expireKeys, Ack.msgFind, ih]

theorem expireKeys_single {k : Ack.Key} {m : Ack.Msg} (ks : List Ack.Key) (hk : k ∈ ks) :
    Ack.expireKeys ks [(k, m)] = ([], [⟨k, true, m.stored⟩]) := by
  induction ks with
  | nil => cases hk
  | cons k' rest ih =>
    by_cases e : k' = k
    · subst e
      simp [Ack.expireKeys, Ack.msgFind, Ack.msgErase, expireKeys_nil]
    · have hk' : k ∈ rest := by
        rcases List.mem_cons.1 hk with h | h
        · exact absurd h.symm e
        · exact h
      have e' : ¬ k = k' := fun h => e h.symm
      simp [Ack.expireKeys, Ack.msgFind, e', ih hk']

theorem sweep_delivered (w w' : World) (sid t pl : String) (rt d : Bool) (mid : Int)
    (hD : Delivered w w' sid mid (.out1 sid t pl rt d mid)) (hlen : w.nodes.length = 1)
    (hq : Ack.QInv (w'.node 0).acks)
    (s' : Sess) (hs' : (w'.node 0).sess sid = some s') (hmid : mid ≠ 0)
    (hidle : (w.node 0).acks.msgs = [])
    (hsf : storedFind (Ack.hashKey sid mid) (w.node 0).stored = none) :
    (w'.sweep 0).out = w'.out ++ [(s'.conn, .publish t pl 1 rt d mid)] := by
  have hi : 0 < w'.nodes.length := by rw [hD.len]; omega
  have hmsgs : (w'.node 0).acks.msgs = [(Ack.hashKey sid mid, msg1 w.epoch mid)] := by
    rw [hD.acks, hidle]; rfl
  have hm : Ack.msgFind (Ack.hashKey sid mid) (w'.node 0).acks.msgs = some (msg1 w.epoch mid) := by
    rw [hmsgs]; simp [Ack.msgFind]
  have hk : Ack.hashKey sid mid ∈ (Ack.pqExpire (((w'.epoch : Int) + 1) * 10000) (w'.node 0).acks.timeouts).2 := by
    refine (hq.mem_expired_keys _ _).mpr ⟨_, hm, ?_⟩
    rw [hD.epoch]
    exact Int.lt_of_le_of_lt (Ack.roundSec_bounds _).2
      (show ((w.epoch : Int) * 10000 + 3000) + 500 < ((w.epoch : Int) + 1) * 10000 by omega)
  have hexp : Ack.expire (w'.node 0).acks (((w'.epoch : Int) + 1) * 10000) =
      ({ msgs := [], timeouts := (w'.node 0).acks.timeouts.filter (fun kb => !decide (kb.1 < ((w'.epoch : Int) + 1) * 10000)) },
       [⟨Ack.hashKey sid mid, true, .publish⟩]) := by
    rw [Ack.expire_eq, hmsgs, expireKeys_single _ hk]
    rfl
  rw [AgentT3.sweep_eq, hexp]
  simp only [List.foldl_cons, List.foldl_nil, AgentT3.resolveStep]
  generalize hw0 : World.setNode _ 0 _ = w0
  have hn0 : w0.node 0 = { w'.node 0 with acks := { msgs := [], timeouts := (w'.node 0).acks.timeouts.filter (fun kb => !decide (kb.1 < ((w'.epoch : Int) + 1) * 10000)) } } := by
    rw [← hw0, node_setNode_self ({ w' with epoch := w'.epoch + 1 } : World) 0 _ hi]
  have hi0 : 0 < w0.nodes.length := by rw [← hw0]; simpa using hi
  have hout0 : w0.out = w'.out := by rw [← hw0]; rfl
  have hst : storedFind (Ack.hashKey sid mid) (w0.node 0).stored = some (.out1 sid t pl rt d mid) := by
    rw [hn0]; show storedFind _ (w'.node 0).stored = _
    rw [hD.stored]; exact storedFind_snoc_self hsf
  simp only [hst]
  generalize hw1 : w0.setNode 0 _ = w1
  have hn1 : w1.node 0 = { w0.node 0 with stored := storedErase (Ack.hashKey sid mid) (w0.node 0).stored } := by
    rw [← hw1, node_setNode_self _ _ _ hi0]
  have hi1 : 0 < w1.nodes.length := by rw [← hw1]; simpa using hi0
  have hout1 : w1.out = w'.out := by rw [← hw1]; exact hout0
  have hs1 : (w1.node 0).sess sid = some s' := by
    rw [hn1, hn0]; exact hs'
  have hr : w1.onResolved 0 ⟨Ack.hashKey sid mid, true, .publish⟩ (.out1 sid t pl rt d mid) =
      w1.armAndSend 0 (.out1 sid t pl rt d mid) := by
    simp [World.onResolved, hs1]
  rw [hr, (armAndSend_out1 w1 0 hi1 sid t pl rt d mid s' hs1 hmid (by rw [hn1, hn0]; rfl)).out, hout1]

end Wasp.Broker.AgentT12

import Wasp.Model.BrokerOps
import Wasp.Proofs.BrokerT7
import Wasp.Proofs.BrokerT6
/-! helper lemmas for Wasp/Properties/E2EMulti.lean (agent T9) -/
namespace Wasp.Broker.AgentT9
open Wasp.Broker Wasp.Dist Wasp.Topic Wasp.Broker.AgentC Wasp.Broker.AgentT6

/-! ### the writer with QoS 0 recipients touches only its own node -/

theorem extendDeadline_node_ne (w : World) (i : Nat) (sid : String) (m : Nat) (h : m ≠ i) :
    (w.extendDeadline i sid).node m = w.node m := by
  simp only [World.extendDeadline]
  cases (w.node i).sess sid with
  | none => rfl
  | some s => exact node_setNode_ne _ _ _ _ h

theorem send0_frame (j : Nat) (p : Pub) (rcpt : List (String × Int)) :
    ∀ w : World, (∀ r ∈ rcpt, r.2 = 0) →
      (w.send j rcpt p).nodes.length = w.nodes.length ∧ ∀ m, m ≠ j → (w.send j rcpt p).node m = w.node m := by
  induction rcpt with
  | nil => intro w _; simp [World.send]
  | cons r rest ih =>
    intro w hq
    obtain ⟨sid, q⟩ := r
    have hq0 : q = 0 := hq (sid, q) (by simp)
    subst hq0
    have hrest : ∀ r ∈ rest, r.2 = 0 := fun r hr => hq r (by simp [hr])
    cases hs : (w.node j).sess sid with
    | none =>
      rw [send_skip w j sid 0 rest p hs]
      exact ih w hrest
    | some s =>
      have hstep : w.send j ((sid, 0) :: rest) p =
          World.send ((w.extendDeadline j sid).emit s.conn
            (.publish (trimMountPoint s.mount p.topic) p.payload 0 p.retain p.dup 0)) j rest p := by
        simp [World.send, hs]
      rw [hstep]
      obtain ⟨h1, h2⟩ := ih ((w.extendDeadline j sid).emit s.conn
            (.publish (trimMountPoint s.mount p.topic) p.payload 0 p.retain p.dup 0)) hrest
      refine ⟨by rw [h1]; simp, ?_⟩
      intro m hm
      rw [h2 m hm, emit_node, extendDeadline_node_ne _ _ _ _ hm]

/-! ### Distribute on a cluster whose node k has peer k + 1 -/

def PeersStd (w : World) : Prop := ∀ k, k < w.nodes.length → (w.node k).peer = k + 1

/-- every subscription in the node's store is QoS 0 -/
def Q0 (n : Node) : Prop := ∀ kl ∈ n.dist.subs, ∀ u ∈ kl.2, u.qos = 0

theorem PeersStd.distinct {w : World} (h : PeersStd w) : AgentB.DistinctB w := by
  intro a b ha hb hab
  rw [h a ha, h b hb] at hab
  omega

theorem nodeIndex_std {w : World} (hp : PeersStd w) (x : Nat) :
    nodeIndexOfPeer w x = match x with
      | 0 => none
      | m + 1 => if m < w.nodes.length then some m else none := by
  cases hidx : nodeIndexOfPeer w x with
  | none =>
    have hn := AgentB.nodeIndex_none hidx
    cases x with
    | zero => rfl
    | succ m =>
      simp only
      split
      · next hm => exact absurd (hp m hm) (hn m hm)
      · rfl
  | some j =>
    obtain ⟨hj, hpj⟩ := AgentB.nodeIndex_some hidx
    rw [hp j hj] at hpj
    subst hpj
    simp [hj]

/-- the recipients the scheduler of a node resolves -/
def rcptOf (n : Node) (p : Pub) : List (String × Int) :=
  ((subByPattern n.dist p.topic).filter (fun s => s.peer == n.peer)).map (fun s => (s.session, s.qos))

theorem deliverLocal_eq (w : World) (j : Nat) (p : Pub) :
    w.deliverLocal j p = w.send j (rcptOf (w.node j) p) p := rfl

theorem rcptOf_q0 {n : Node} (h : Q0 n) (p : Pub) : ∀ r ∈ rcptOf n p, r.2 = 0 := by
  intro r hr
  obtain ⟨u, hu, rfl⟩ := List.mem_map.1 hr
  obtain ⟨kl, hkl, hukl⟩ := mem_subByPattern' (List.mem_filter.1 hu).1
  exact h kl hkl u hukl

/-- what Distribute from node i makes node m (state `n`) write -/
def nodeOut (i : Nat) (p : Pub) (m : Nat) (n : Node) : List (String × Pkt) :=
  if (m == i || !(n.failed || n.unreachable)) = true ∧ (!(n.logFailAll || n.logFailAt.contains n.logCalls)) = true then
    deliveries0 n (rcptOf n p) p
  else []

/-- … for destination peer x -/
def peerOut (w : World) (i : Nat) (p : Pub) : Nat → List (String × Pkt)
  | 0 => []
  | m + 1 => if m < w.nodes.length then nodeOut i p m (w.node m) else []

theorem distStep_out (i : Nat) (p : Pub) (w₀ : World) (ok₀ : Bool) (x : Nat) (hp : PeersStd w₀)
    (hq : ∀ m, m + 1 = x → Q0 (w₀.node m)) :
    (∀ m, m + 1 ≠ x → (AgentB.distStep i p (w₀, ok₀) x).1.node m = w₀.node m) ∧
    (AgentB.distStep i p (w₀, ok₀) x).1.out = w₀.out ++ peerOut w₀ i p x := by
  unfold AgentB.distStep
  simp only
  rw [nodeIndex_std hp x]
  cases x with
  | zero => simp [peerOut]
  | succ j =>
    simp only [peerOut]
    by_cases hj : j < w₀.nodes.length
    · simp only [hj, if_true]
      have hq0 := hq j rfl
      split
      · next hc =>
        refine ⟨fun _ _ => rfl, ?_⟩
        have : ¬ ((j == i || !((w₀.node j).failed || (w₀.node j).unreachable)) = true) := by
          obtain ⟨h1, h2⟩ := hc
          have h1' : (j == i) = false := by simpa using h1
          rcases h2 with h2 | h2 <;> simp [h1', h2]
        rw [nodeOut, if_neg (fun h => this h.1), List.append_nil]
      · next hc =>
        have hr : (j == i || !((w₀.node j).failed || (w₀.node j).unreachable)) = true := by
          by_cases hji : j = i
          · simp [hji]
          · have h1 : ¬ ((w₀.node j).failed = true ∨ (w₀.node j).unreachable = true) := fun h => hc ⟨hji, h⟩
            have hf : (w₀.node j).failed = false := by
              cases h : (w₀.node j).failed <;> simp_all
            have hu : (w₀.node j).unreachable = false := by
              cases h : (w₀.node j).unreachable <;> simp_all
            simp [hf, hu]
        unfold Node.appendLog
        simp only
        split
        · next hf =>
          simp only [Bool.false_eq_true, if_false]
          refine ⟨fun m hm => node_setNode_ne _ _ _ _ (by omega), ?_⟩
          rw [nodeOut, if_neg (fun h => by have h2 := h.2; rw [hf] at h2; exact absurd h2 (by decide)), List.append_nil]
          rfl
        · next hf =>
          simp only [if_true]
          have ha : (!((w₀.node j).logFailAll || (w₀.node j).logFailAt.contains (w₀.node j).logCalls)) = true := by
            simpa using hf
          rw [deliverLocal_eq, node_setNode_self _ _ _ hj]
          have hrc : rcptOf { w₀.node j with logCalls := (w₀.node j).logCalls + 1, log := (w₀.node j).log ++ [p] } p =
              rcptOf (w₀.node j) p := rfl
          rw [hrc]
          have hqr := rcptOf_q0 hq0 p
          obtain ⟨_, hne⟩ := send0_frame j p (rcptOf (w₀.node j) p) (w₀.setNode j
            { w₀.node j with logCalls := (w₀.node j).logCalls + 1, log := (w₀.node j).log ++ [p] }) hqr
          refine ⟨fun m hm => ?_, ?_⟩
          · have hmj : m ≠ j := by omega
            rw [hne m hmj, node_setNode_ne _ _ _ _ hmj]
          · rw [send_all_qos0 j p _ _ (by simpa using hj) hqr, node_setNode_self _ _ _ hj, setNode_out]
            rw [nodeOut, if_pos ⟨hr, ha⟩]
            exact congrArg _ (deliveries0_congr (CM.of_reg_eq (n := w₀.node j) rfl) _ _)
    · simp [hj]

theorem peerOut_congr {w w' : World} (i : Nat) (p : Pub) (y : Nat) (hlen : w'.nodes.length = w.nodes.length)
    (hn : ∀ m, m + 1 = y → w'.node m = w.node m) : peerOut w' i p y = peerOut w i p y := by
  cases y with
  | zero => rfl
  | succ m => simp only [peerOut, hlen, hn m rfl]

theorem flatMap_congr' {α β : Type} {f g : α → List β} (l : List α) (h : ∀ a ∈ l, f a = g a) :
    l.flatMap f = l.flatMap g := by
  induction l with
  | nil => rfl
  | cons a rest ih =>
    simp only [List.flatMap_cons]
    rw [h a (by simp), ih (fun b hb => h b (by simp [hb]))]

theorem distFold_out (i : Nat) (p : Pub) (ps : List Nat) :
    ps.Nodup → ∀ (w₀ : World) (ok₀ : Bool), PeersStd w₀ → (∀ m, m + 1 ∈ ps → Q0 (w₀.node m)) →
      (ps.foldl (AgentB.distStep i p) (w₀, ok₀)).1.out = w₀.out ++ ps.flatMap (peerOut w₀ i p) := by
  induction ps with
  | nil => intro _ w₀ ok₀ _ _; simp
  | cons x rest ih =>
    intro hnd w₀ ok₀ hp hq
    rw [List.nodup_cons] at hnd
    obtain ⟨hlen, hflags, _, _, _⟩ := AgentB.distStep_spec i p w₀ ok₀ x hp.distinct
    obtain ⟨hnode, hout⟩ := distStep_out i p w₀ ok₀ x hp (fun m hm => hq m (by simp [hm]))
    have hne : ∀ m, m + 1 ∈ rest → m + 1 ≠ x := fun m hm e => hnd.1 (e ▸ hm)
    have hp' : PeersStd (AgentB.distStep i p (w₀, ok₀) x).1 := by
      intro k hk
      rw [hlen] at hk
      rw [AgentB.peer_of_flags (hflags k)]
      exact hp k hk
    have hq' : ∀ m, m + 1 ∈ rest → Q0 ((AgentB.distStep i p (w₀, ok₀) x).1.node m) := by
      intro m hm
      rw [hnode m (hne m hm)]
      exact hq m (by simp [hm])
    simp only [List.foldl_cons, List.flatMap_cons]
    have := ih hnd.2 (AgentB.distStep i p (w₀, ok₀) x).1 (AgentB.distStep i p (w₀, ok₀) x).2 hp' hq'
    rw [this, hout, List.append_assoc]
    congr 2
    apply flatMap_congr'
    intro y hy
    exact peerOut_congr i p y hlen (fun m hm => hnode m (by subst hm; exact hne m hy))

theorem distribute_out (w : World) (i : Nat) (p : Pub) (hp : PeersStd w) (hq : ∀ m, Q0 (w.node m)) :
    (w.distribute i p).1.out =
      w.out ++ (dedupNat ((subByPattern (w.node i).dist p.topic).map (·.peer))).flatMap (peerOut w i p) := by
  rw [AgentB.distribute_eq]
  exact distFold_out i p _ (AgentB.dedupNat_nodup _) w true hp (fun m _ => hq m)

theorem mem_peerOut (w : World) (i : Nat) (p : Pub) (x : Nat) (e : String × Pkt) :
    e ∈ peerOut w i p x ↔ ∃ m, m + 1 = x ∧ m < w.nodes.length ∧
      (m == i || !((w.node m).failed || (w.node m).unreachable)) = true ∧
      (!((w.node m).logFailAll || (w.node m).logFailAt.contains (w.node m).logCalls)) = true ∧
      e ∈ deliveries0 (w.node m) (rcptOf (w.node m) p) p := by
  cases x with
  | zero => simp [peerOut]
  | succ m =>
    simp only [peerOut, nodeOut]
    constructor
    · intro h
      split at h
      · next hm =>
        split at h
        · next hc => exact ⟨m, rfl, hm, hc.1, hc.2, h⟩
        · simp at h
      · simp at h
    · rintro ⟨m', hm', hlt, h1, h2, h3⟩
      have : m' = m := by omega
      subst this
      rw [if_pos hlt, if_pos ⟨h1, h2⟩]
      exact h3

end Wasp.Broker.AgentT9

import Wasp.Model.BrokerOps
import Wasp.Proofs.BrokerT3
import Wasp.Proofs.BrokerT1
import Wasp.Proofs.BrokerD
/-! helper lemmas for Wasp/Properties/Reachable.lean (agent T5) -/
namespace Wasp.Broker
open Wasp.Dist

/-- shape of a node's subscription store (hypothesis `hinv` of `C11_teardown_subscriptions`) -/
def SubsWF (m : List (String × List Sub)) : Prop :=
  (m.map (·.1)).Nodup ∧ ∀ kl ∈ m, (kl.2.map (·.session)).Nodup ∧ ∀ u ∈ kl.2, u.pattern = kl.1

/-- The invariant of every reachable world. The first five fields are the hypotheses the property theorems carry;
    the last three make it inductive:
* `clockPos`  the crdt clock is positive (a fresh tombstone has `added = 0`, a fresh subscription `deleted = 0`);
* `regConns`  a registered session's connection is open and assigned to the node the session is registered on;
* `pendClock` gossip not yet delivered only carries subscription stamps older than the clock. -/
structure GlobalInv (w : World) : Prop where
  pool : WorldPoolInv w
  regNodup : ∀ i, ((w.node i).reg.map (·.id)).Nodup
  regConn : ∀ i, ∀ s ∈ (w.node i).reg, s.id = "S" ++ s.conn
  subsWF : ∀ i, SubsWF (w.node i).dist.subs
  subsClock : ∀ i, ∀ kl ∈ (w.node i).dist.subs, ∀ u ∈ kl.2, u.added < w.clock ∧ u.deleted < w.clock
  clockPos : 0 < w.clock
  regConns : ∀ i, ∀ s ∈ (w.node i).reg, w.conns.find? (fun e => e.1 == s.conn) = some (s.conn, i)
  pendClock : ∀ i, ∀ e ∈ (w.node i).pending, ∀ u ∈ e.2.subs, u.added < w.clock ∧ u.deleted < w.clock

end Wasp.Broker

namespace Wasp.Broker.AgentT5
open Wasp.Broker Wasp.Dist Wasp.Topic Wasp.Wire Wasp.Broker.AgentD

/-! ### subscription stores -/

/-- every stamp of the list of subscriptions is older than `c` -/
def Old (c : Int) (l : List Sub) : Prop := ∀ u ∈ l, u.added < c ∧ u.deleted < c

theorem Old.mono {c c' : Int} {l : List Sub} (h : Old c l) (hc : c ≤ c') : Old c' l :=
  fun u hu => ⟨by have := (h u hu).1; omega, by have := (h u hu).2; omega⟩

theorem old_nil (c : Int) : Old c [] := fun _ h => by cases h

/-- `m'` is `m` after setting a list of subscriptions, all older than `c` -/
def SubsStep (c : Int) (m m' : List (String × List Sub)) : Prop :=
  ∃ vs, m' = vs.foldl (fun acc s => subsSet s acc) m ∧ Old c vs

theorem SubsStep.refl (c : Int) (m : List (String × List Sub)) : SubsStep c m m := ⟨[], rfl, old_nil c⟩

theorem SubsStep.of_eq {c : Int} {m m' : List (String × List Sub)} (h : m' = m) : SubsStep c m m' := by
  rw [h]; exact SubsStep.refl c m

theorem SubsStep.trans {c c' : Int} {m₁ m₂ m₃ : List (String × List Sub)} (h1 : SubsStep c m₁ m₂) (hc : c ≤ c')
    (h2 : SubsStep c' m₂ m₃) : SubsStep c' m₁ m₃ := by
  obtain ⟨vs, e1, o1⟩ := h1
  obtain ⟨vs', e2, o2⟩ := h2
  refine ⟨vs ++ vs', by rw [e2, e1, List.foldl_append], ?_⟩
  intro u hu
  rcases List.mem_append.mp hu with hu | hu
  · exact (o1.mono hc) u hu
  · exact o2 u hu

theorem SubsStep.one (c : Int) (s : Sub) (m : List (String × List Sub)) (h : s.added < c ∧ s.deleted < c) :
    SubsStep c m (subsSet s m) :=
  ⟨[s], rfl, fun u hu => by simp only [List.mem_singleton] at hu; subst hu; exact h⟩

theorem SubsStep.wf {c : Int} {m m' : List (String × List Sub)} (h : SubsStep c m m') (hm : SubsWF m) : SubsWF m' := by
  obtain ⟨vs, e, ho⟩ := h
  subst e
  clear ho
  induction vs generalizing m with
  | nil => exact hm
  | cons v rest ih =>
    simp only [List.foldl_cons]
    apply ih
    refine ⟨subsSet_keys_nodup v m hm.1, fun kl hkl => ⟨?_, ?_⟩⟩
    · exact subsSet_inner_nodup v m (fun kl hkl => (hm.2 kl hkl).1) kl hkl
    · exact subsSet_forall (fun k x => x.pattern = k) v m (fun kl hkl => (hm.2 kl hkl).2) rfl kl hkl

theorem SubsStep.clk {c : Int} {m m' : List (String × List Sub)} (h : SubsStep c m m')
    (hm : ∀ kl ∈ m, Old c kl.2) : ∀ kl ∈ m', Old c kl.2 := by
  obtain ⟨vs, e, ho⟩ := h
  subst e
  exact foldl_subsSet_forall (fun _ x => x.added < c ∧ x.deleted < c) vs m hm ho

/-- `mergeSubs` applies a prefix of the received subscriptions -/
theorem mergeSubs_step (c : Int) (vs : List Sub) (m : List (String × List Sub)) (h : Old c vs) :
    SubsStep c m (mergeSubs vs m) := by
  induction vs generalizing m with
  | nil => exact SubsStep.refl c m
  | cons v rest ih =>
    simp only [mergeSubs]
    split
    · exact SubsStep.refl c m
    · exact (SubsStep.one c v m (h v (by simp))).trans (Int.le_refl c) (ih _ (fun u hu => h u (by simp [hu])))

theorem merge_step (c : Int) (st : State) (ev : Event) (h : Old c ev.subs) : SubsStep c st.subs (merge st ev).subs :=
  mergeSubs_step c ev.subs st.subs h

theorem foldl_merge_step (c : Int) (evs : List Event) (st : State) (h : ∀ ev ∈ evs, Old c ev.subs) :
    SubsStep c st.subs (evs.foldl merge st).subs := by
  induction evs generalizing st with
  | nil => exact SubsStep.refl c _
  | cons ev rest ih =>
    simp only [List.foldl_cons]
    exact (merge_step c st ev (h ev (by simp))).trans (Int.le_refl c) (ih _ (fun e he => h e (by simp [he])))

theorem subCreate_step (st : State) (now : Int) (sid pat : String) (qos : Int) (h0 : 0 < now) :
    SubsStep (now + 1) st.subs (Wasp.Dist.subCreate st now sid pat qos).1.subs ∧
      Old (now + 1) (Wasp.Dist.subCreate st now sid pat qos).2.subs := by
  have hb : (⟨sid, pat, st.peer, qos, now, 0⟩ : Sub).added < now + 1 ∧ (⟨sid, pat, st.peer, qos, now, 0⟩ : Sub).deleted < now + 1 := by
    constructor <;> simp only <;> omega
  refine ⟨SubsStep.one _ _ _ hb, ?_⟩
  intro u hu
  simp only [Wasp.Dist.subCreate, List.mem_singleton] at hu
  subst hu; exact hb

theorem subDelete_step (st : State) (now : Int) (sid pat : String) (h0 : 0 < now) :
    SubsStep (now + 1) st.subs (Wasp.Dist.subDelete st now sid pat).1.subs ∧
      Old (now + 1) (Wasp.Dist.subDelete st now sid pat).2.subs := by
  have hb : (⟨sid, pat, st.peer, 0, 0, now⟩ : Sub).added < now + 1 ∧ (⟨sid, pat, st.peer, 0, 0, now⟩ : Sub).deleted < now + 1 := by
    constructor <;> simp only <;> omega
  refine ⟨SubsStep.one _ _ _ hb, ?_⟩
  intro u hu
  simp only [Wasp.Dist.subDelete, List.mem_singleton] at hu
  subst hu; exact hb

theorem subBulkDelete_step (st : State) (now : Int) (f : Sub → Bool) (hm : ∀ kl ∈ st.subs, Old now kl.2) :
    SubsStep (now + 1) st.subs (subBulkDelete st now f).1.subs ∧ Old (now + 1) (subBulkDelete st now f).2.subs := by
  have ho : Old (now + 1) ((subFilter st f).map (fun s => { s with deleted := now })) := by
    intro u hu
    simp only [List.mem_map, subFilter, List.mem_flatMap, List.mem_filter] at hu
    obtain ⟨x, ⟨kl, hkl, hx, _⟩, rfl⟩ := hu
    have := hm kl hkl x hx
    constructor <;> simp only <;> omega
  exact ⟨⟨_, rfl, ho⟩, ho⟩

theorem sessDelete_subs (st : State) (now : Int) (id : String) : (Wasp.Dist.sessDelete st now id).1.subs = st.subs := by
  unfold Wasp.Dist.sessDelete
  split
  · rfl
  · split <;> rfl

theorem sessDelete_ev (st : State) (now : Int) (id : String) (e : Event)
    (h : (Wasp.Dist.sessDelete st now id).2 = some e) : e.subs = [] := by
  unfold Wasp.Dist.sessDelete at h
  split at h
  · cases h
  · split at h
    · cases h
    · cases h; rfl

theorem sessCreate_subs (st : State) (now : Int) (id client : String) (ca : Int) (lwt : Option Will) (mount : String) :
    (sessCreate st now id client ca lwt mount).1.subs = st.subs := by
  unfold sessCreate
  split
  · split <;> rfl
  · rfl

theorem sessCreate_ev (st : State) (now : Int) (id client : String) (ca : Int) (lwt : Option Will) (mount : String)
    (e : Event) (h : (sessCreate st now id client ca lwt mount).2.1 = some e) : e.subs = [] := by
  unfold sessCreate at h
  split at h
  · split at h
    · cases h
    · cases h; rfl
  · cases h; rfl

/-! ### the registry / clock part of the invariant -/

/-- node-level part, relative to a clock -/
structure NInv (c : Int) (n : Node) : Prop where
  regNodup : (n.reg.map (·.id)).Nodup
  regConn : ∀ s ∈ n.reg, s.id = "S" ++ s.conn
  subsWF : SubsWF n.dist.subs
  subsClock : ∀ kl ∈ n.dist.subs, Old c kl.2
  pendClock : ∀ e ∈ n.pending, Old c e.2.subs

structure RInv (w : World) : Prop where
  clockPos : 0 < w.clock
  node : ∀ i, NInv w.clock (w.node i)
  conns : ∀ i, ∀ s ∈ (w.node i).reg, w.conns.find? (fun e => e.1 == s.conn) = some (s.conn, i)

theorem NInv.mono {c c' : Int} {n : Node} (h : NInv c n) (hc : c ≤ c') : NInv c' n :=
  ⟨h.regNodup, h.regConn, h.subsWF, fun kl hkl => (h.subsClock kl hkl).mono hc, fun e he => (h.pendClock e he).mono hc⟩

theorem globalInv_iff (w : World) : GlobalInv w ↔ WorldPoolInv w ∧ RInv w := by
  constructor
  · intro h
    exact ⟨h.pool, h.clockPos, fun i => ⟨h.regNodup i, h.regConn i, h.subsWF i, h.subsClock i, h.pendClock i⟩, h.regConns⟩
  · rintro ⟨hp, hr⟩
    exact ⟨hp, fun i => (hr.node i).regNodup, fun i => (hr.node i).regConn, fun i => (hr.node i).subsWF,
      fun i => (hr.node i).subsClock, hr.clockPos, hr.conns, fun i => (hr.node i).pendClock⟩

/-- nothing but `out`, `bufs`, `deaf`, `hs`, `now`, `epoch` changed, and the clock did not go back -/
theorem rinv_frame {w w' : World} (h : RInv w) (hn : w'.nodes = w.nodes) (hc : w'.conns = w.conns)
    (hk : w.clock ≤ w'.clock) : RInv w' := by
  refine ⟨by have := h.clockPos; omega, fun i => ?_, fun i s hs => ?_⟩
  · rw [node_congr hn]; exact (h.node i).mono hk
  · rw [node_congr hn] at hs; rw [hc]; exact h.conns i s hs

theorem rinv_emit {w : World} (h : RInv w) (c : String) (p : Pkt) : RInv (w.emit c p) :=
  rinv_frame h rfl rfl (Int.le_refl _)

theorem rinv_tick {w : World} (h : RInv w) : RInv w.tick.1 :=
  rinv_frame h rfl rfl (by show w.clock ≤ w.clock + 1; omega)

@[simp] theorem tick_clock (w : World) : w.tick.1.clock = w.clock + 1 := rfl
@[simp] theorem tick_snd (w : World) : w.tick.2 = w.clock := rfl
@[simp] theorem tick_node (w : World) (j : Nat) : w.tick.1.node j = w.node j := rfl

/-- a node is replaced by one that satisfies the node invariant and registers no new connection -/
theorem rinv_setNode {w : World} (h : RInv w) (i : Nat) (n' : Node) (hn : NInv w.clock n')
    (hc : ∀ s ∈ n'.reg, ∃ s0 ∈ (w.node i).reg, s0.conn = s.conn) : RInv (w.setNode i n') := by
  refine ⟨h.clockPos, fun j => ?_, fun j s hs => ?_⟩
  · rw [node_setNode]
    split
    · exact hn
    · exact h.node j
  · rw [node_setNode] at hs
    show w.conns.find? _ = _
    split at hs
    · rename_i hji
      obtain ⟨s0, hs0, e⟩ := hc s hs
      rw [← e, hji.1]
      exact h.conns i s0 hs0
    · exact h.conns j s hs

/-- the registry, the subscription store and the pending gossip of the node are untouched -/
theorem rinv_setNode_same {w : World} (h : RInv w) (i : Nat) (n' : Node) (hr : n'.reg = (w.node i).reg := by rfl)
    (hs : n'.dist.subs = (w.node i).dist.subs := by rfl) (hp : n'.pending = (w.node i).pending := by rfl) :
    RInv (w.setNode i n') := by
  have hn := h.node i
  refine rinv_setNode h i n' ⟨by rw [hr]; exact hn.regNodup, by rw [hr]; exact hn.regConn, by rw [hs]; exact hn.subsWF,
    by rw [hs]; exact hn.subsClock, by rw [hp]; exact hn.pendClock⟩ ?_
  intro s hs
  rw [hr] at hs
  exact ⟨s, hs, rfl⟩

/-- the replicated state of a node is written: its subscriptions change by stamps older than the clock -/
theorem rinv_setDist {w : World} (h : RInv w) (i : Nat) (d : State)
    (hd : SubsStep w.clock (w.node i).dist.subs d.subs) : RInv (w.setNode i { w.node i with dist := d }) := by
  have hn := h.node i
  refine rinv_setNode h i _ ⟨hn.regNodup, hn.regConn, hd.wf hn.subsWF, hd.clk hn.subsClock, hn.pendClock⟩ ?_
  intro s hs
  exact ⟨s, hs, rfl⟩

theorem rinv_broadcast {w : World} (h : RInv w) (i : Nat) (ev : Event) (he : Old w.clock ev.subs) :
    RInv (w.broadcast i ev) := by
  unfold World.broadcast
  have hn := h.node i
  refine rinv_setNode h i _ ⟨hn.regNodup, hn.regConn, hn.subsWF, hn.subsClock, ?_⟩ (fun s hs => ⟨s, hs, rfl⟩)
  intro e hme
  simp only [List.mem_append, List.mem_map] at hme
  rcases hme with hme | ⟨j, _, rfl⟩
  · exact hn.pendClock e hme
  · exact he

/-- tick, write the replicated state, queue the broadcast -/
theorem rinv_distWrite {w : World} (h : RInv w) (i : Nat) (d : State) (ev : Event)
    (hd : SubsStep (w.clock + 1) (w.node i).dist.subs d.subs) (he : Old (w.clock + 1) ev.subs) :
    RInv ((w.tick.1.setNode i { w.tick.1.node i with dist := d }).broadcast i ev) :=
  rinv_broadcast (rinv_setDist (rinv_tick h) i d hd) i ev he

theorem rinv_setSess {w : World} (h : RInv w) (i : Nat) (sid : String) (s s' : Sess)
    (hs : (w.node i).sess sid = some s) (hid : s'.id = s.id) (hconn : s'.conn = s.conn) :
    RInv (w.setNode i ((w.node i).setSess s')) := by
  have hn := h.node i
  obtain ⟨hmem, _⟩ := sess_some hs
  have hids : ((w.node i).setSess s').reg.map (·.id) = (w.node i).reg.map (·.id) :=
    AgentA.NFrame.ids.setSess _ _
  have hmem' : ∀ x ∈ ((w.node i).setSess s').reg, x = s' ∨ x ∈ (w.node i).reg := by
    intro x hx
    simp only [Node.setSess, List.mem_map] at hx
    obtain ⟨y, hy, rfl⟩ := hx
    split
    · exact Or.inl rfl
    · exact Or.inr hy
  refine rinv_setNode h i _ ⟨by rw [hids]; exact hn.regNodup, ?_, hn.subsWF, hn.subsClock, hn.pendClock⟩ ?_
  · intro x hx
    rcases hmem' x hx with rfl | hx
    · rw [hid, hconn]; exact hn.regConn s hmem
    · exact hn.regConn x hx
  · intro x hx
    rcases hmem' x hx with rfl | hx
    · exact ⟨s, hmem, hconn.symm⟩
    · exact ⟨x, hx, rfl⟩

/-! ### writer, publish pipeline, packets -/

theorem rinv_extendDeadline {w : World} (h : RInv w) (i : Nat) (sid : String) : RInv (w.extendDeadline i sid) := by
  unfold World.extendDeadline
  simp only []
  split
  · rename_i s hs
    exact rinv_setSess h i sid s _ hs rfl rfl
  · exact h

theorem rinv_subCreate {w : World} (h : RInv w) (i : Nat) (sid pat : String) (qos : Int) :
    RInv (w.subCreate i sid pat qos) := by
  have hs := subCreate_step (w.node i).dist w.clock sid pat qos h.clockPos
  exact rinv_distWrite h i _ _ hs.1 hs.2

theorem rinv_subDelete {w : World} (h : RInv w) (i : Nat) (sid pat : String) : RInv (w.subDelete i sid pat) := by
  have hs := subDelete_step (w.node i).dist w.clock sid pat h.clockPos
  exact rinv_distWrite h i _ _ hs.1 hs.2

theorem rinv_sessDelete {w : World} (h : RInv w) (i : Nat) (sid : String) : RInv (w.sessDelete i sid) := by
  unfold World.sessDelete
  simp only []
  have h1 : RInv (w.tick.1.setNode i { w.tick.1.node i with dist := (Wasp.Dist.sessDelete (w.tick.1.node i).dist w.tick.2 sid).1 }) :=
    rinv_setDist (rinv_tick h) i _ (SubsStep.of_eq (sessDelete_subs _ _ _))
  split
  · rename_i e he
    refine rinv_broadcast h1 i e ?_
    rw [sessDelete_ev _ _ _ e he]
    exact old_nil _
  · exact h1

theorem rinv_poolPut {w : World} (h : RInv w) (i : Nat) (mid : Int) : RInv (w.poolPut i mid) := by
  unfold World.poolPut
  exact rinv_setNode_same h i _ rfl rfl rfl

theorem rinv_armAndSend {w : World} (h : RInv w) (i : Nat) (st : Stored) : RInv (w.armAndSend i st) := by
  unfold World.armAndSend
  cases st with
  | out1 sid topic payload retain dup mid =>
    simp only []
    split
    · exact h
    · split
      · exact rinv_emit (rinv_setNode_same (rinv_extendDeadline h i sid) i _) _ _
      · exact rinv_extendDeadline h i sid
  | out2 sid topic payload retain dup mid =>
    simp only []
    split
    · exact h
    · split
      · exact rinv_emit (rinv_setNode_same (rinv_extendDeadline h i sid) i _) _ _
      · exact rinv_extendDeadline h i sid
  | rel sid mid =>
    simp only []
    split
    · exact h
    · refine rinv_emit (rinv_setNode_same (rinv_extendDeadline h i sid) i _ ?_ ?_ ?_) _ _ <;> split <;> rfl
  | inbound a b c d => exact h

theorem rinv_sendArmed {w : World} (h : RInv w) (i : Nat) (st : Stored) (sid : String) (mid : Int) :
    RInv (w.sendArmed i st sid mid) := by
  unfold World.sendArmed
  simp only []
  split
  · exact rinv_poolPut (rinv_armAndSend h i st) i mid
  · exact rinv_armAndSend h i st

theorem rinv_send (i : Nat) (p : Pub) (rcpt : List (String × Int)) : ∀ w : World, RInv w → RInv (w.send i rcpt p) := by
  induction rcpt with
  | nil => intro w h; exact h
  | cons hd rest ih =>
    intro w h
    obtain ⟨sid, qos⟩ := hd
    unfold World.send
    simp only []
    split
    · exact ih w h
    · split
      · exact ih _ (rinv_emit (rinv_extendDeadline h i sid) _ _)
      · split
        · split
          · exact h
          · exact ih _ (rinv_sendArmed (rinv_setNode_same h i _) i _ sid _)
        · exact ih w h

theorem rinv_onResolved {w : World} (h : RInv w) (i : Nat) (ev : Ack.Resolved) (st : Stored) :
    RInv (w.onResolved i ev st) := by
  unfold World.onResolved
  cases st <;> simp only <;> repeat' split
  all_goals first | exact rinv_armAndSend h _ _ | exact rinv_poolPut h _ _ | exact h

theorem rinv_deliverLocal {w : World} (h : RInv w) (j : Nat) (p : Pub) : RInv (w.deliverLocal j p) := by
  unfold World.deliverLocal
  exact rinv_send _ _ _ _ h

theorem appendLog_same (n : Node) (p : Pub) :
    (n.appendLog p).1.reg = n.reg ∧ (n.appendLog p).1.dist = n.dist ∧ (n.appendLog p).1.pending = n.pending := by
  unfold Node.appendLog
  simp only []
  split <;> exact ⟨rfl, rfl, rfl⟩

theorem rinv_appendLog {w : World} (h : RInv w) (j : Nat) (p : Pub) : RInv (w.setNode j ((w.node j).appendLog p).1) := by
  have := appendLog_same (w.node j) p
  exact rinv_setNode_same h j _ this.1 (by rw [this.2.1]) this.2.2

theorem rinv_distribute {w : World} (h : RInv w) (i : Nat) (p : Pub) : RInv (w.distribute i p).1 := by
  unfold World.distribute
  simp only
  apply foldl_inv (P := fun (acc : World × Bool) => RInv acc.1)
  · exact h
  · intro acc peer _ hacc
    split
    · exact hacc
    · split
      · exact hacc
      · split
        · exact rinv_deliverLocal (rinv_appendLog hacc _ _) _ _
        · exact rinv_appendLog hacc _ _

theorem topic_step (st : State) (now : Int) (p : Pub) :
    (if p.payload = "" then topicDelete st now p.topic else topicSet st now p.topic p.payload p.qos true p.dup).1.subs = st.subs ∧
    (if p.payload = "" then topicDelete st now p.topic else topicSet st now p.topic p.payload p.qos true p.dup).2.subs = [] := by
  split <;> exact ⟨rfl, rfl⟩

theorem rinv_retainStep {w : World} (h : RInv w) (i : Nat) (p : Pub) : RInv (retainStep w i p) := by
  unfold retainStep
  split
  · have ht := topic_step (w.node i).dist w.clock p
    have he : Old (w.clock + 1) (if p.payload = "" then topicDelete (w.node i).dist w.clock p.topic
        else topicSet (w.node i).dist w.clock p.topic p.payload p.qos true p.dup).2.subs := by
      rw [ht.2]; exact old_nil _
    exact rinv_distWrite h i _ _ (SubsStep.of_eq ht.1) he
  · exact h

theorem rinv_publishJob {w : World} (h : RInv w) (i : Nat) (p : Pub) (onOk : World → World)
    (hok : ∀ w, RInv w → RInv (onOk w)) : RInv (w.publishJob i p onOk) := by
  rw [publishJob_eq]
  have h1 := rinv_distribute (rinv_retainStep h i p) i { p with retain := false }
  split
  · exact hok _ h1
  · exact h1

theorem rinv_ackFrom {w : World} (h : RInv w) (i : Nat) (pfx : String) (kind : Ack.PType) (mid : Int) :
    RInv (w.ackFrom i pfx kind mid) := by
  unfold World.ackFrom
  simp only
  refine foldl_inv RInv _ _ _ (rinv_setNode_same h i _) ?_
  intro b ev _ hb
  split
  · exact hb
  · rename_i st _
    have hb1 := rinv_setNode_same hb i { b.node i with stored := storedErase ev.key (b.node i).stored } rfl rfl rfl
    cases st with
    | inbound a conn pub imid => exact rinv_publishJob hb1 _ _ _ (fun w hw => rinv_emit hw _ _)
    | out1 a b c d e f => exact rinv_onResolved hb1 _ _ _
    | out2 a b c d e f => exact rinv_onResolved hb1 _ _ _
    | rel a b => exact rinv_onResolved hb1 _ _ _

theorem rinv_sweep {w : World} (h : RInv w) (i : Nat) : RInv (w.sweep i) := by
  unfold World.sweep
  simp only
  have h0 : RInv ({ w with epoch := w.epoch + 1 } : World) := rinv_frame h rfl rfl (Int.le_refl _)
  refine foldl_inv RInv _ _ _ (rinv_setNode_same h0 i _) ?_
  intro b ev _ hb
  split
  · exact hb
  · exact rinv_onResolved (rinv_setNode_same hb i _) _ _ _

theorem rinv_process {w : World} (h : RInv w) (i : Nat) (sid : String) (pkt : CPkt) : RInv (w.process i sid pkt).1 := by
  unfold World.process
  simp only []
  split
  · exact h
  · rename_i s hs
    cases pkt with
    | connect => exact h
    | publish topic payload qos retain dup mid =>
      simp only []
      split
      · exact rinv_publishJob h _ _ _ (fun _ h => h)
      · split
        · exact rinv_publishJob h _ _ _ (fun w h => rinv_emit h _ _)
        · split
          · split
            · exact rinv_emit (rinv_setNode_same h i _) _ _
            · exact h
          · exact h
    | subscribe mid topics =>
      simp only []
      refine foldl_inv RInv _ _ _ ?_ ?_
      · apply rinv_emit
        refine foldl_inv RInv _ _ _ h ?_
        intro b a _ hb
        have hb1 := rinv_subCreate hb i sid a.1 a.2
        split
        · rename_i s' hs'
          split
          · exact hb1
          · exact rinv_setSess hb1 i sid s' _ hs' rfl rfl
        · exact hb1
      · intro b a _ hb
        refine foldl_inv RInv _ _ _ hb ?_
        intro b' r _ hb'
        exact rinv_send _ _ _ _ hb'
    | unsubscribe mid topics =>
      simp only []
      apply rinv_emit
      refine foldl_inv RInv _ _ _ h ?_
      intro b a _ hb
      have hb1 := rinv_subDelete hb i sid (prefixMountPoint s.mount a)
      split
      · rename_i s' hs'
        exact rinv_setSess hb1 i sid s' _ hs' rfl rfl
      · exact hb1
    | puback mid => exact rinv_ackFrom h _ _ _ _
    | pubrec mid => exact rinv_ackFrom h _ _ _ _
    | pubrel mid => exact rinv_ackFrom h _ _ _ _
    | pubcomp mid => exact rinv_ackFrom h _ _ _ _
    | pingreq =>
      simp only
      split
      · split
        · exact rinv_emit h _ _
        · exact h
      · exact h
      · split
        · exact rinv_emit h _ _
        · exact h
    | disconnect => exact h
    | other => exact h

/-! ### connections and registries -/

theorem S_inj {a b : String} (h : "S" ++ a = "S" ++ b) : a = b := (String.append_right_inj "S").mp h

/-- like `rinv_setNode`, the connection condition stated directly -/
theorem rinv_setNode' {w : World} (h : RInv w) (i : Nat) (n' : Node) (hn : NInv w.clock n')
    (hc : ∀ s ∈ n'.reg, w.conns.find? (fun e => e.1 == s.conn) = some (s.conn, i)) : RInv (w.setNode i n') := by
  refine ⟨h.clockPos, fun j => ?_, fun j s hs => ?_⟩
  · rw [node_setNode]
    split
    · exact hn
    · exact h.node j
  · rw [node_setNode] at hs
    show w.conns.find? _ = _
    split at hs
    · rename_i hji
      rw [hji.1]
      exact hc s hs
    · exact h.conns j s hs

theorem rinv_setPending {w : World} (h : RInv w) (i : Nat) (p : List (Nat × Event))
    (hp : ∀ e ∈ p, e ∈ (w.node i).pending) : RInv (w.setNode i { w.node i with pending := p }) := by
  have hn := h.node i
  exact rinv_setNode h i _ ⟨hn.regNodup, hn.regConn, hn.subsWF, hn.subsClock, fun e he => hn.pendClock e (hp e he)⟩
    (fun s hs => ⟨s, hs, rfl⟩)

/-- in a world satisfying the invariant a connection carries at most one session -/
theorem rinv_conn_unique {w : World} (h : RInv w) {i j : Nat} {s s' : Sess} (hs : s ∈ (w.node i).reg)
    (hs' : s' ∈ (w.node j).reg) (e : s'.conn = s.conn) : j = i ∧ s'.id = s.id := by
  have h1 := h.conns i s hs
  have h2 := h.conns j s' hs'
  rw [e, h1] at h2
  simp only [Option.some.injEq, Prod.mk.injEq, true_and] at h2
  refine ⟨h2.symm, ?_⟩
  rw [(h.node i).regConn s hs, (h.node j).regConn s' hs', e]

/-- no registered session uses connection `c` -/
def NoConn (c : String) (w : World) : Prop := ∀ j, ∀ s ∈ (w.node j).reg, s.conn ≠ c

/-- the invariant, except that sessions on connection `c` need not have their connection listed -/
structure RInvX (c : String) (w : World) : Prop where
  clockPos : 0 < w.clock
  node : ∀ i, NInv w.clock (w.node i)
  conns : ∀ i, ∀ s ∈ (w.node i).reg, s.conn ≠ c → w.conns.find? (fun e => e.1 == s.conn) = some (s.conn, i)

/-- every session on the connection of `s` is `s` itself, on node i -/
def Uniq (w : World) (i : Nat) (s : Sess) : Prop := ∀ j, ∀ x ∈ (w.node j).reg, x.conn = s.conn → j = i ∧ x.id = s.id

theorem RInv.toX {w : World} (h : RInv w) (c : String) : RInvX c w := ⟨h.clockPos, h.node, fun i s hs _ => h.conns i s hs⟩

theorem RInv.uniq {w : World} (h : RInv w) {i : Nat} {s : Sess} (hs : s ∈ (w.node i).reg) : Uniq w i s :=
  fun _ _ hx e => rinv_conn_unique h hs hx e

/-- the connection is taken off the list first (`World.drop`) -/
theorem RInv.dropConn {w : World} (h : RInv w) (c : String) :
    RInvX c ({ w with conns := w.conns.filter (fun e => e.1 != c) } : World) := by
  refine ⟨h.clockPos, h.node, fun i s hs hne => ?_⟩
  show (w.conns.filter (fun e => e.1 != c)).find? _ = _
  rw [AgentT1.find_filter_key_ne _ _ _ (Ne.symm hne)]
  exact h.conns i s hs

theorem filter_filter_self (l : List (String × Nat)) (c : String) :
    (l.filter (fun e => e.1 != c)).filter (fun e => e.1 != c) = l.filter (fun e => e.1 != c) := by
  rw [List.filter_filter]
  congr 1
  funext a
  simp

/-- session `s` leaves the registry of node i and its connection leaves the list -/
theorem rinv_unregConn {w w' : World} (i : Nat) (s : Sess) (h : RInvX s.conn w) (hu : Uniq w i s)
    (hn : w'.nodes = (w.setNode i { w.node i with reg := (w.node i).reg.filter (fun x => x.id != s.id) }).nodes)
    (hc : w'.conns = w.conns.filter (fun (c : String × Nat) => c.1 != s.conn)) (hk : w'.clock = w.clock) : RInv w' := by
  have key : ∀ j, ∀ x ∈ (w'.node j).reg, x ∈ (w.node j).reg ∧ x.conn ≠ s.conn := by
    intro j x hx
    rw [node_congr hn, node_setNode] at hx
    split at hx
    · rename_i hji
      simp only [List.mem_filter, bne_iff_ne, ne_eq] at hx
      rw [hji.1]
      refine ⟨hx.1, fun e => hx.2 (hu i x hx.1 e).2⟩
    · rename_i hji
      refine ⟨hx, fun e => ?_⟩
      have hj := (hu j x hx e).1
      subst hj
      have hlen : w.nodes.length ≤ j := by
        have : ¬ j < w.nodes.length := fun hlt => hji ⟨rfl, hlt⟩
        omega
      rw [reg_oob w j hlen] at hx
      cases hx
  refine ⟨by rw [hk]; exact h.clockPos, fun j => ?_, fun j x hx => ?_⟩
  · rw [hk, node_congr hn, node_setNode]
    split
    · have hni := h.node i
      refine ⟨hni.regNodup.sublist (List.Sublist.map _ List.filter_sublist), ?_, hni.subsWF, hni.subsClock, hni.pendClock⟩
      intro x hx
      exact hni.regConn x (List.mem_filter.mp hx).1
    · exact h.node j
  · obtain ⟨hx1, hx2⟩ := key j x hx
    rw [hc, AgentT1.find_filter_key_ne _ _ _ (Ne.symm hx2)]
    exact h.conns j x hx1 hx2

theorem rinv_tdBase {w : World} (i : Nat) (s : Sess) (h : RInvX s.conn w) (hu : Uniq w i s) : RInv (tdBase w i s) := by
  unfold tdBase
  simp only
  refine foldl_inv RInv _ _ _ ?_ (fun b a _ hb => rinv_subDelete hb i s.id a)
  exact rinv_unregConn i s h hu rfl rfl rfl

theorem rinv_teardown {w : World} (i : Nat) (s : Sess) (h : RInvX s.conn w) (hu : Uniq w i s) : RInv (teardown w i s).1 := by
  rw [teardown_eq]
  have hb := rinv_tdBase i s h hu
  split
  · exact rinv_sessDelete hb _ _
  · exact hb

theorem rinv_shutdownX {w : World} (i : Nat) (sid : String) (h0 : (w.node i).sess sid = none → RInv w)
    (hx : ∀ s, (w.node i).sess sid = some s → RInvX s.conn w ∧ Uniq w i s) : RInv (w.shutdownSession i sid) := by
  cases hs : (w.node i).sess sid with
  | none => unfold World.shutdownSession; simp only [hs]; exact h0 hs
  | some s =>
    rw [shutdown_eq w i sid s hs]
    have ht := rinv_teardown i s (hx s hs).1 (hx s hs).2
    split
    · exact ht
    · split
      · exact ht
      · split
        · exact ht
        · exact rinv_publishJob ht _ _ _ (fun _ h => h)

theorem rinv_shutdown {w : World} (h : RInv w) (i : Nat) (sid : String) : RInv (w.shutdownSession i sid) :=
  rinv_shutdownX i sid (fun _ => h) (fun _ hs => ⟨h.toX _, h.uniq (sess_some hs).1⟩)

theorem rinv_clientPacket {w : World} (h : RInv w) (conn : String) (pkt : CPkt) : RInv (w.clientPacket conn pkt) := by
  unfold World.clientPacket
  split
  · exact h
  · rename_i c i hc
    simp only []
    split
    · exact h
    · have hp := rinv_process h i ("S" ++ conn) pkt
      generalize w.process i ("S" ++ conn) pkt = r at hp
      obtain ⟨w', res⟩ := r
      simp only at hp ⊢
      cases res with
      | ok => exact rinv_extendDeadline hp _ _
      | disconnected =>
        simp only []
        apply rinv_shutdown
        split
        · rename_i s hs
          exact rinv_setSess hp i _ s _ hs rfl rfl
        · exact hp
      | error => exact rinv_shutdown hp _ _

/-! ### CONNECT, the client closes -/

theorem find_reassign (l : List (String × Nat)) (c x : String) (i : Nat) (h : x ≠ c) (v : String × Nat)
    (hf : l.find? (fun e => e.1 == x) = some v) :
    (l.filter (fun e => e.1 != c) ++ [(c, i)]).find? (fun e => e.1 == x) = some v := by
  rw [List.find?_append, AgentT1.find_filter_key_ne _ _ _ (Ne.symm h), hf]
  rfl

/-- connection `c`, used by no session, is (re)assigned to node i -/
theorem rinv_reassign {w w' : World} (h : RInv w) (c : String) (i : Nat) (hno : NoConn c w) (hn : w'.nodes = w.nodes)
    (hc : w'.conns = w.conns.filter (fun (e : String × Nat) => e.1 != c) ++ [(c, i)]) (hk : w'.clock = w.clock) :
    RInv w' := by
  refine ⟨by rw [hk]; exact h.clockPos, fun j => ?_, fun j s hs => ?_⟩
  · rw [hk, node_congr hn]; exact h.node j
  · rw [node_congr hn] at hs
    rw [hc]
    exact find_reassign _ _ _ _ (hno j s hs) _ (h.conns j s hs)

theorem NoConn.of_sameReg {c : String} {w w' : World} (h : NoConn c w) (hw : RInv w) (hw' : RInv w') (hr : SameReg w w') :
    NoConn c w' := by
  intro j s hs e
  have hid : s.id ∈ (w'.node j).reg.map (·.id) := List.mem_map.mpr ⟨s, hs, rfl⟩
  rw [hr.ids j] at hid
  obtain ⟨x, hx, hxid⟩ := List.mem_map.mp hid
  have e2 : x.conn = c := by
    have := (hw.node j).regConn x hx
    rw [hxid, (hw'.node j).regConn s hs, e] at this
    exact (S_inj this).symm
  exact h j x hx e2

theorem noConn_notin {c : String} {w : World} (h : NoConn c w) (hw : RInv w) (j : Nat) :
    "S" ++ c ∉ (w.node j).reg.map (·.id) := by
  intro hm
  obtain ⟨x, hx, hxid⟩ := List.mem_map.mp hm
  have := (hw.node j).regConn x hx
  rw [hxid] at this
  exact h j x hx (S_inj this).symm

theorem rinv_connPre {w : World} (h : RInv w) (c : String) (i : Nat) (client mount : String) (hno : NoConn c w) :
    RInv (connPre w c i client mount) := by
  unfold connPre
  simp only
  have h0 : RInv ({ w with conns := (w.conns.filter (fun (c' : String × Nat) => c'.1 != c)) ++ [(c, i)] } : World) :=
    rinv_reassign h c i hno rfl rfl rfl
  split
  · exact rinv_sessDelete h0 _ _
  · exact h0

theorem rinv_connMid {w : World} (h : RInv w) (c : String) (i : Nat) (client mount : String) (will : Option Will)
    (hno : NoConn c w) : RInv (connMid w c i client mount will) := by
  unfold connMid
  simp only
  have h1 : RInv (connPre w c i client mount).tick.1 := rinv_tick (rinv_connPre h c i client mount hno)
  have h2 := rinv_setDist h1 i (sessCreate ((connPre w c i client mount).tick.1.node i).dist (connPre w c i client mount).clock
      ("S" ++ c) client 0 will mount).1 (SubsStep.of_eq (sessCreate_subs _ _ _ _ _ _ _))
  split
  · rename_i e he
    refine rinv_broadcast h2 i e ?_
    rw [sessCreate_ev _ _ _ _ _ _ _ e he]
    exact old_nil _
  · exact h2

theorem rinv_connect {w : World} (h : RInv w) (c : String) (i : Nat) (client mount : String) (authOk : Bool)
    (keepalive : Nat) (will : Option Will) (hno : NoConn c w) :
    RInv (w.connect c i client mount authOk keepalive will) := by
  cases authOk with
  | false =>
    unfold World.connect
    simp only [Bool.not_false, if_true]
    exact rinv_reassign h c i hno rfl rfl rfl
  | true =>
    rw [connect_eq]
    split
    · exact rinv_emit (rinv_tick (rinv_connPre h c i client mount hno)) _ _
    · simp only
      apply rinv_emit
      have hM := rinv_connMid h c i client mount will hno
      have hsr := sr_connMid w c i client mount will
      have hcs := AgentT1.connMid_conns w c i client mount will
      generalize connMid w c i client mount will = W at hM hsr hcs
      have hno' : NoConn c W := hno.of_sameReg h hM hsr
      have hn := hM.node i
      refine rinv_setNode' hM i _ ⟨?_, ?_, hn.subsWF, hn.subsClock, hn.pendClock⟩ ?_
      · simp only [List.map_append, List.map_cons, List.map_nil]
        exact nodup_append_singleton hn.regNodup (noConn_notin hno' hM i)
      · intro s hs
        simp only [List.mem_append, List.mem_singleton] at hs
        rcases hs with hs | rfl
        · exact hn.regConn s hs
        · rfl
      · intro s hs
        simp only [List.mem_append, List.mem_singleton] at hs
        rcases hs with hs | rfl
        · exact hM.conns i s hs
        · rw [hcs]
          exact AgentT1.find_filter_append_self _ _ _

theorem rinv_drop {w : World} (h : RInv w) (c : String) : RInv (w.drop c) ∧ NoConn c (w.drop c) := by
  unfold World.drop
  cases hf : w.conns.find? (fun e => e.1 == c) with
  | none =>
    refine ⟨h, fun j s hs e => ?_⟩
    have := h.conns j s hs
    rw [e, hf] at this
    cases this
  | some p =>
    obtain ⟨x, i⟩ := p
    simp only []
    have hxc : x = c := by simpa using List.find?_some hf
    subst hxc
    -- sessions on connection x are registered on node i as "S" ++ x
    have hwhere : ∀ j, ∀ s ∈ (w.node j).reg, s.conn = x → j = i ∧ s.id = "S" ++ x := by
      intro j s hs e
      have := h.conns j s hs
      rw [e, hf] at this
      simp only [Option.some.injEq, Prod.mk.injEq, true_and] at this
      exact ⟨this.symm, by rw [(h.node j).regConn s hs, e]⟩
    split
    · rename_i hhad
      have hX := h.dropConn x
      generalize hw1 : ({ w with conns := w.conns.filter (fun e => e.1 != x) } : World) = w1 at hX
      have hnode : ∀ j, w1.node j = w.node j := fun j => by rw [← hw1]; rfl
      have hR : RInv (w1.shutdownSession i ("S" ++ x)) := by
        refine rinv_shutdownX i _ ?_ ?_
        · intro hnone
          rw [hnode] at hnone
          rw [hnone] at hhad
          cases hhad
        · intro s hs
          rw [hnode] at hs
          obtain ⟨hmem, hid⟩ := sess_some hs
          have hsc : s.conn = x := by
            have := (h.node i).regConn s hmem
            rw [hid] at this
            exact (S_inj this).symm
          rw [hsc]
          refine ⟨hX, fun j y hy e => ?_⟩
          rw [hnode] at hy
          rw [hsc] at e
          rw [hid]
          exact hwhere j y hy e
      refine ⟨hR, fun j s hs e => ?_⟩
      have hid : "S" ++ x ∈ ((w1.shutdownSession i ("S" ++ x)).node j).reg.map (·.id) :=
        List.mem_map.mpr ⟨s, hs, by rw [(hR.node j).regConn s hs, e]⟩
      rw [(sr_shutdown w1 i ("S" ++ x)).ids j, mem_ids_unreg, hnode] at hid
      obtain ⟨y, hy, hyid⟩ := List.mem_map.mp hid.1
      have hyc : y.conn = x := by
        have := (h.node j).regConn y hy
        rw [hyid] at this
        exact (S_inj this).symm
      exact hid.2 (hwhere j y hy hyc).1 rfl
    · rename_i hhad
      refine ⟨rinv_emit (w := { w with conns := w.conns.filter (fun e => e.1 != x) }) ?_ _ _, fun j s hs e => ?_⟩
      · have hX := h.dropConn x
        refine ⟨hX.clockPos, hX.node, fun j s hs => ?_⟩
        by_cases e : s.conn = x
        · exfalso
          have hs' : s ∈ (w.node j).reg := hs
          obtain ⟨hj, hid⟩ := hwhere j s hs' e
          subst hj
          apply hhad
          have : (w.node j).sess ("S" ++ x) ≠ none := by
            rw [Ne, sess_eq_none_iff]
            exact fun hn => hn (List.mem_map.mpr ⟨s, hs', hid⟩)
          cases hh : (w.node j).sess ("S" ++ x) with
          | none => exact absurd hh this
          | some _ => rfl
        · exact hX.conns j s hs e
      · have hs' : s ∈ (w.node j).reg := hs
        obtain ⟨hj, hid⟩ := hwhere j s hs' e
        subst hj
        apply hhad
        cases hh : (w.node j).sess ("S" ++ x) with
        | none =>
          rw [sess_eq_none_iff] at hh
          exact absurd (List.mem_map.mpr ⟨s, hs', hid⟩) hh
        | some _ => rfl

/-! ### gossip, node failure, time -/

/-- node `t` merges events whose subscription stamps are older than the clock -/
theorem rinv_mergeInto {w : World} (h : RInv w) (t : Nat) (evs : List Event) (he : ∀ ev ∈ evs, Old w.clock ev.subs) :
    RInv (w.setNode t { w.node t with dist := evs.foldl merge (w.node t).dist }) :=
  rinv_setDist h t _ (foldl_merge_step w.clock evs _ he)

theorem rinv_deliverGossip {w : World} (h : RInv w) (src dst : Nat) : RInv (w.deliverGossip src dst) := by
  unfold World.deliverGossip
  simp only []
  have h1 : RInv (w.setNode src { w.node src with pending := (w.node src).pending.filter (fun e => e.1 != dst) }) :=
    rinv_setPending h src _ (fun e he => (List.mem_filter.mp he).1)
  split
  · exact h1
  · refine rinv_mergeInto h1 dst _ ?_
    intro ev hev
    obtain ⟨e, he, rfl⟩ := List.mem_map.mp hev
    exact (h.node src).pendClock e (List.mem_filter.mp he).1

theorem rinv_gossipRound {w : World} (h : RInv w) : RInv w.gossipRound := by
  unfold World.gossipRound
  simp only []
  refine foldl_inv RInv _ _ _ h ?_
  intro b a _ hb
  refine foldl_inv RInv _ _ _ hb ?_
  intro b' a' _ hb'
  split
  · exact rinv_deliverGossip hb' _ _
  · exact hb'

theorem rinv_gossipAll {w : World} (h : RInv w) : RInv w.gossipAll := by
  unfold World.gossipAll
  exact foldl_inv RInv _ _ _ h (fun b _ _ hb => rinv_gossipRound hb)

theorem rinv_leavePrefix {w : World} (h : RInv w) (i : Nat) (peer : Nat) : RInv (AgentA.leavePrefix w i peer) := by
  unfold AgentA.leavePrefix
  have hs := subBulkDelete_step (w.node i).dist w.clock (fun s => s.peer == peer) (h.node i).subsClock
  exact rinv_distWrite h i _ _ hs.1 hs.2

theorem rinv_leaveStep {w : World} (h : RInv w) (i : Nat) (s : SessionMD) : RInv (AgentA.leaveStep i w s) := by
  unfold AgentA.leaveStep
  split
  · exact h
  · simp only []
    split
    · exact rinv_deliverLocal (rinv_appendLog h _ _) _ _
    · exact rinv_appendLog h _ _

theorem rinv_notifyLeave {w : World} (h : RInv w) (i : Nat) (peer : Nat) : RInv (w.notifyLeave i peer) := by
  rw [AgentA.notifyLeave_eq]
  simp only
  refine rinv_setNode_same ?_ i _
  exact foldl_inv RInv _ _ _ (rinv_leavePrefix h i peer) (fun b a _ hb => rinv_leaveStep hb i a)

theorem find_filter_keep {α : Type} (p q : α → Bool) (l : List α) (x : α) (h : l.find? p = some x) (hq : q x = true) :
    (l.filter q).find? p = some x := by
  induction l with
  | nil => cases h
  | cons a rest ih =>
    simp only [List.find?_cons] at h
    split at h
    · rename_i hpa
      cases h
      simp [hq, hpa]
    · rename_i hpa
      by_cases hqa : q a = true
      · simp [hqa, hpa, ih h]
      · simp [hqa, ih h]

theorem rinv_nodeFail {w : World} (h : RInv w) (f : Nat) : RInv (w.nodeFail f) := by
  unfold World.nodeFail
  simp only []
  refine foldl_inv RInv _ _ _ ?_ ?_
  · refine foldl_inv RInv _ _ _ ?_ (fun b a _ hb => rinv_emit hb _ _)
    have hnf := h.node f
    refine ⟨h.clockPos, fun j => ?_, fun j s hs => ?_⟩
    · show NInv w.clock ((w.setNode f _).node j)
      rw [node_setNode]
      split
      · exact ⟨by simp, (fun s hs => by cases hs), hnf.subsWF, hnf.subsClock, (fun e he => by cases he)⟩
      · exact h.node j
    · have hs' : s ∈ ((w.setNode f { w.node f with failed := true, reg := [], pending := [] }).node j).reg := hs
      show (w.conns.filter (fun c => c.2 != f)).find? _ = _
      rw [node_setNode] at hs'
      split at hs'
      · cases hs'
      · rename_i hjf
        refine find_filter_keep _ _ _ _ (h.conns j s hs') ?_
        simp only [bne_iff_ne, ne_eq]
        intro e
        subst e
        have hlen : w.nodes.length ≤ j := by
          have : ¬ j < w.nodes.length := fun hlt => hjf ⟨rfl, hlt⟩
          omega
        rw [reg_oob w j hlen] at hs'
        cases hs'
  · intro b a _ hb
    split
    · exact rinv_notifyLeave hb _ _
    · exact hb

theorem rinv_idleTimers {w : World} (h : RInv w) (i : Nat) : RInv (idleTimers w i) := by
  unfold idleTimers
  simp only []
  refine foldl_inv RInv _ _ _ (rinv_setNode_same h i _) ?_
  intro b a _ hb
  exact rinv_distWrite hb i (sessDeletePeer (b.node i).dist b.clock a.2).1 (sessDeletePeer (b.node i).dist b.clock a.2).2
    (SubsStep.of_eq rfl) (old_nil _)

theorem rinv_idleNode {w : World} (h : RInv w) (i : Nat) : RInv (idleNode w i) := by
  unfold idleNode
  split
  · exact h
  · refine foldl_inv RInv _ _ _ (rinv_idleTimers h i) ?_
    intro b a _ hb
    split
    · split
      · exact rinv_shutdown hb _ _
      · exact hb
    · exact hb

theorem rinv_idle {w : World} (h : RInv w) (ms : Int) : RInv (w.idle ms) := by
  rw [idle_eq]
  refine foldl_inv RInv _ _ _ (rinv_frame (w := w) h rfl rfl (Int.le_refl _)) ?_
  intro b a _ hb
  exact rinv_idleNode hb a

/-! ### the byte-level path (Wasp/Model/Wire.lean): pool invariant and registry invariant together -/

/-- `GlobalInv` as a pair -/
def GI (w : World) : Prop := WorldPoolInv w ∧ RInv w

theorem gi_frame {w w' : World} (h : GI w) (hn : w'.nodes = w.nodes) (hc : w'.conns = w.conns)
    (hk : w'.clock = w.clock) : GI w' :=
  ⟨AgentT3.wpi_of_nodes hn h.1, rinv_frame h.2 hn hc (by rw [hk]; exact Int.le_refl _)⟩

theorem gi_setBuf {w : World} (h : GI w) (c : String) (b : Wire.Bytes) : GI (setBuf w c b) := gi_frame h rfl rfl rfl

theorem gi_emit {w : World} (h : GI w) (c : String) (p : Pkt) : GI (w.emit c p) := gi_frame h rfl rfl rfl

theorem gi_shutdown {w : World} (h : GI w) (i : Nat) (sid : String) : GI (w.shutdownSession i sid) :=
  ⟨AgentT3.shutdownSession_inv w i sid h.1, rinv_shutdown h.2 i sid⟩

theorem gi_clientPacket {w : World} (h : GI w) (c : String) (p : CPkt) : GI (w.clientPacket c p) :=
  ⟨AgentT3.clientPacket_inv w c p h.1, rinv_clientPacket h.2 c p⟩

theorem gi_connect {w : World} (h : GI w) (c : String) (i : Nat) (client mount : String) (authOk : Bool)
    (keepalive : Nat) (will : Option Will) (hno : NoConn c w) : GI (w.connect c i client mount authOk keepalive will) :=
  ⟨AgentT3.connect_inv w c i client mount authOk keepalive will h.1, rinv_connect h.2 c i client mount authOk keepalive will hno⟩

theorem gi_drop {w : World} (h : GI w) (c : String) : GI (w.drop c) ∧ NoConn c (w.drop c) :=
  ⟨⟨AgentT3.drop_inv w c h.1, (rinv_drop h.2 c).1⟩, (rinv_drop h.2 c).2⟩

theorem noConn_of_find_none {w : World} (h : RInv w) {c : String} (hf : w.conns.find? (fun e => e.1 == c) = none) :
    NoConn c w := by
  intro j s hs e
  have := h.conns j s hs
  rw [e, hf] at this
  cases this

theorem noConn_of_noSess {w : World} (h : RInv w) {c x : String} {i : Nat}
    (hf : w.conns.find? (fun e => e.1 == c) = some (x, i)) (hno : (w.node i).sess ("S" ++ c) = none) : NoConn c w := by
  intro j s hs e
  have := h.conns j s hs
  rw [e, hf] at this
  simp only [Option.some.injEq, Prod.mk.injEq] at this
  have hj := this.2
  subst hj
  rw [sess_eq_none_iff] at hno
  apply hno
  refine List.mem_map.mpr ⟨s, hs, ?_⟩
  rw [(h.node _).regConn s hs, e]

theorem any_false_find {w : World} {c : String} (h : ¬ w.conns.any (fun e => e.1 == c) = true) :
    w.conns.find? (fun e => e.1 == c) = none := by
  rw [List.find?_eq_none]
  intro x hx hp
  exact h (List.any_eq_true.mpr ⟨x, hx, hp⟩)

/-- the list entry of a connection no session uses is removed -/
theorem rinv_filterConns {w w' : World} (h : RInv w) (c : String) (hno : NoConn c w) (hn : w'.nodes = w.nodes)
    (hc : w'.conns = w.conns.filter (fun (e : String × Nat) => e.1 != c)) (hk : w'.clock = w.clock) : RInv w' := by
  refine ⟨by rw [hk]; exact h.clockPos, fun j => ?_, fun j s hs => ?_⟩
  · rw [hk, node_congr hn]; exact h.node j
  · rw [node_congr hn] at hs
    rw [hc, AgentT1.find_filter_key_ne _ _ _ (Ne.symm (hno j s hs))]
    exact h.conns j s hs

theorem noConn_congr {w w' : World} {c : String} (h : NoConn c w) (hn : w'.nodes = w.nodes) : NoConn c w' :=
  fun j s hs => h j s (by rw [node_congr hn] at hs; exact hs)

theorem hasSession_of_find {w : World} {c x : String} {i : Nat} (hf : w.conns.find? (fun e => e.1 == c) = some (x, i)) :
    hasSession w c = ((w.node i).sess ("S" ++ c)).isSome := by
  unfold hasSession
  rw [hf]

theorem sess_none_of_not_isSome {n : Node} {sid : String} (h : ¬ (n.sess sid).isSome = true) : n.sess sid = none := by
  cases hh : n.sess sid with
  | none => rfl
  | some _ => rw [hh] at h; exact absurd rfl h

theorem gi_failConn {w : World} (h : GI w) (c : String) : GI (failConn w c) := by
  unfold failConn
  cases hf : w.conns.find? (fun e => e.1 == c) with
  | none => exact h
  | some p =>
    obtain ⟨x, i⟩ := p
    simp only []
    split
    · exact gi_shutdown h _ _
    · rename_i hhs
      rw [hasSession_of_find hf] at hhs
      have hno := noConn_of_noSess h.2 hf (sess_none_of_not_isSome hhs)
      exact ⟨AgentT3.wpi_of_nodes rfl h.1, rinv_filterConns h.2 c hno rfl rfl rfl⟩

theorem gi_applyDecoded {w : World} (h : GI w) (c : String) (r : DRes) : GI (applyDecoded w c r) := by
  unfold applyDecoded
  cases hf : w.conns.find? (fun e => e.1 == c) with
  | none => exact h
  | some p =>
    obtain ⟨x, i⟩ := p
    simp only []
    split
    · cases r with
      | pkt p => exact gi_clientPacket h _ _
      | connect a b c d e => exact gi_clientPacket h _ _
      | err => exact gi_failConn h _
      | panic => exact gi_failConn h _
    · rename_i hhs
      rw [hasSession_of_find hf] at hhs
      have hno := noConn_of_noSess h.2 hf (sess_none_of_not_isSome hhs)
      cases r with
      | connect client user pass ka will =>
        simp only []
        split
        · exact gi_connect h _ _ _ _ _ _ _ hno
        · exact gi_connect h _ _ _ _ _ _ _ hno
      | pkt p => exact gi_failConn h _
      | err => exact gi_failConn h _
      | panic => exact gi_failConn h _

theorem gi_pump (c : String) (fuel : Nat) : ∀ w : World, GI w → GI (pump fuel w c).1 := by
  induction fuel with
  | zero => intro w h; exact h
  | succ fuel ih =>
    intro w h
    unfold pump
    split
    · exact gi_setBuf h _ _
    · split
      · exact gi_setBuf h _ _
      · split
        · exact h
        · exact gi_failConn (gi_setBuf h _ _) _
        · exact ih _ (gi_applyDecoded (gi_setBuf h _ _) _ _)

theorem gi_rawBytes {w : World} (h : GI w) (c : String) (b : Wire.Bytes) : GI (rawBytes w c b).1 := by
  unfold rawBytes
  split
  · exact h
  · exact gi_pump c _ _ (gi_setBuf h _ _)

theorem gi_closeFin {w : World} (h : GI w) (c : String) : GI (AgentT1.closeFin w c) ∧ NoConn c (AgentT1.closeFin w c) := by
  unfold AgentT1.closeFin
  split
  · rename_i hany
    split
    · exact gi_drop h c
    · rename_i hhs
      cases hf : w.conns.find? (fun e => e.1 == c) with
      | none =>
        have hno := noConn_of_find_none h.2 hf
        exact ⟨⟨AgentT3.wpi_of_nodes rfl h.1, rinv_filterConns h.2 c hno rfl rfl rfl⟩, noConn_congr hno rfl⟩
      | some p =>
        obtain ⟨x, i⟩ := p
        rw [hasSession_of_find hf] at hhs
        have hno := noConn_of_noSess h.2 hf (sess_none_of_not_isSome hhs)
        exact ⟨⟨AgentT3.wpi_of_nodes rfl h.1, rinv_filterConns h.2 c hno rfl rfl rfl⟩, noConn_congr hno rfl⟩
  · rename_i hany
    have hno := noConn_of_find_none h.2 (any_false_find hany)
    exact ⟨gi_emit h _ _, noConn_congr hno rfl⟩

theorem gi_closeRaw {w : World} (h : GI w) (c : String) :
    GI (closeFromClientRaw w c) ∧ NoConn c (closeFromClientRaw w c) := by
  rw [AgentT1.closeRaw_eq]
  apply gi_closeFin
  split
  · exact gi_setBuf h _ _
  · split
    · exact gi_applyDecoded (gi_setBuf h _ _) _ _
    · exact gi_setBuf h _ _

theorem gi_closeFromClient {w : World} (h : GI w) (c : String) :
    GI (closeFromClient w c) ∧ NoConn c (closeFromClient w c) := by
  unfold closeFromClient
  have := gi_closeRaw h c
  exact ⟨gi_frame this.1 rfl rfl rfl, noConn_congr this.2 rfl⟩

theorem gi_openConn {w : World} (h : GI w) (c : String) (i : Nat) (hno : NoConn c w) : GI (openConn w c i) :=
  ⟨AgentT3.wpi_of_nodes rfl h.1, rinv_reassign h.2 c i hno rfl rfl rfl⟩

theorem gi_hsStep {w : World} (h : GI w) (e : String × Int) : GI (AgentT1.hsStep w e) := by
  unfold AgentT1.hsStep
  split
  · exact (gi_closeRaw (gi_frame (w' := { w with hs := w.hs.filter (fun x => x.1 != e.1) }) h rfl rfl rfl) _).1
  · exact h

theorem gi_expireHandshakes {w : World} (h : GI w) : GI (expireHandshakes w) := by
  rw [AgentT1.expire_eq]
  exact foldl_inv GI _ _ _ h (fun b a _ hb => gi_hsStep hb a)

theorem gi_idle {w : World} (h : GI w) (ms : Int) : GI (Wasp.Wire.idle w ms) := by
  unfold Wasp.Wire.idle
  exact gi_expireHandshakes ⟨AgentT3.idle_inv w ms h.1, rinv_idle h.2 ms⟩

theorem shift_node (w : World) (ms : Int) (i : Nat) :
    World.node { w with nodes := w.nodes.map (fun n => { n with timers := n.timers.map (fun t => (t.1 + ms, t.2)) }) } i
      = { w.node i with timers := (w.node i).timers.map (fun t => (t.1 + ms, t.2)) } := by
  simp only [World.node, List.getD_eq_getElem?_getD, List.getElem?_map]
  cases w.nodes[i]? <;> rfl

theorem gi_elapse {w : World} (h : GI w) (ms : Int) : GI (Wasp.Wire.elapse w ms) := by
  unfold Wasp.Wire.elapse
  apply gi_idle
  constructor
  · intro j
    rw [shift_node]
    exact PoolInv.congr (n := w.node j) rfl (h.1 j)
  · refine ⟨h.2.clockPos, fun j => ?_, fun j s hs => ?_⟩
    · rw [shift_node]
      have hn := h.2.node j
      exact ⟨hn.regNodup, hn.regConn, hn.subsWF, hn.subsClock, hn.pendClock⟩
    · rw [shift_node] at hs
      exact h.2.conns j s hs

/-! ### the operations of `applyOp`, one lemma per operation -/

theorem gi_init (n : Nat) : GI (World.init n) := by
  refine ⟨AgentT3.wpi_init n, (by show (0 : Int) < 1000; decide), fun i => ?_, fun i s hs => ?_⟩
  · have hreg : ((World.init n).node i).reg = [] ∧ ((World.init n).node i).dist.subs = [] ∧
        ((World.init n).node i).pending = [] := by
      unfold World.node World.init
      simp only [List.getD_eq_getElem?_getD, List.getElem?_map]
      cases (List.range n)[i]? <;> exact ⟨rfl, rfl, rfl⟩
    refine ⟨by rw [hreg.1]; simp, (by rw [hreg.1]; intro s hs; cases hs), ?_, (by rw [hreg.2.1]; intro kl hkl; cases hkl),
      (by rw [hreg.2.2]; intro e he; cases he)⟩
    rw [hreg.2.1]
    exact ⟨by simp, fun kl hkl => by cases hkl⟩
  · exfalso
    have hreg : ((World.init n).node i).reg = [] := by
      unfold World.node World.init
      simp only [List.getD_eq_getElem?_getD, List.getElem?_map]
      cases (List.range n)[i]? <;> rfl
    rw [hreg] at hs
    cases hs

theorem gi_op_connect {w : World} (h : GI w) (c : String) (node : Nat) (client mount : String) (authOk : Bool)
    (ka : Nat) (will : Option Will) : GI (applyOp w (.connect c node client mount authOk ka will)) := by
  simp only [applyOp]
  have h1 : GI (if w.conns.any (fun e => e.1 == c) then w.drop c else w) ∧
      NoConn c (if w.conns.any (fun e => e.1 == c) then w.drop c else w) := by
    split
    · exact gi_drop h c
    · rename_i hany
      exact ⟨h, noConn_of_find_none h.2 (any_false_find hany)⟩
  generalize (if w.conns.any (fun e => e.1 == c) then w.drop c else w) = w1 at h1
  exact gi_connect (gi_frame (w' := { w1 with out := w1.out.filter (fun e => e.1 != c), deaf := w1.deaf.filter (· != c) }) h1.1 rfl rfl rfl) _ _ _ _ _ _ _
    (noConn_congr h1.2 rfl)

theorem gi_op_packet {w : World} (h : GI w) (c : String) (pkt : CPkt) : GI (applyOp w (.packet c pkt)) := by
  simp only [applyOp]
  split
  · exact gi_clientPacket h _ _
  · exact h

theorem gi_op_drop {w : World} (h : GI w) (c : String) : GI (applyOp w (.drop c)) := (gi_closeFromClient h c).1

theorem gi_op_openConn {w : World} (h : GI w) (c : String) (node : Nat) : GI (applyOp w (.openConn c node)) := by
  simp only [applyOp]
  have h1 : GI (if w.conns.any (fun e => e.1 == c) then closeFromClient w c else w) ∧
      NoConn c (if w.conns.any (fun e => e.1 == c) then closeFromClient w c else w) := by
    split
    · exact gi_closeFromClient h c
    · rename_i hany
      exact ⟨h, noConn_of_find_none h.2 (any_false_find hany)⟩
  generalize (if w.conns.any (fun e => e.1 == c) then closeFromClient w c else w) = w1 at h1
  exact gi_openConn (gi_frame (w' := { w1 with deaf := w1.deaf.filter (· != c) }) h1.1 rfl rfl rfl) c node (noConn_congr h1.2 rfl)

theorem gi_op_raw {w : World} (h : GI w) (c : String) (b : List Nat) : GI (applyOp w (.raw c b)) := gi_rawBytes h c b

theorem gi_op_gossipAll {w : World} (h : GI w) : GI (applyOp w .gossipAll) :=
  ⟨AgentT3.gossipAll_inv w h.1, rinv_gossipAll h.2⟩

theorem gi_op_gossip {w : World} (h : GI w) (f t : Nat) : GI (applyOp w (.gossip f t)) :=
  ⟨AgentT3.deliverGossip_inv w f t h.1, rinv_deliverGossip h.2 f t⟩

theorem dropKth_mem (t : Nat) (l : List (Nat × Event)) : ∀ (k : Nat) (e : Nat × Event), e ∈ dropKth t l k → e ∈ l := by
  induction l with
  | nil => intro k e he; simp [dropKth] at he
  | cons x rest ih =>
    intro k e he
    simp only [dropKth] at he
    split at he
    · split at he
      · exact List.mem_cons_of_mem _ he
      · rcases List.mem_cons.mp he with rfl | he
        · exact List.mem_cons_self
        · exact List.mem_cons_of_mem _ (ih _ _ he)
    · rcases List.mem_cons.mp he with rfl | he
      · exact List.mem_cons_self
      · exact List.mem_cons_of_mem _ (ih _ _ he)

theorem gi_op_gossipOne {w : World} (h : GI w) (f t k : Nat) : GI (applyOp w (.gossipOne f t k)) := by
  simp only [applyOp]
  split
  · exact h
  · rename_i e he
    have hmem : e ∈ (w.node f).pending := (List.mem_filter.mp (List.mem_of_getElem? he)).1
    have h1 : GI (w.setNode f { w.node f with pending := dropKth t (w.node f).pending k }) :=
      ⟨AgentT3.wpi_frame (AgentA.WFrame.setNode _ _ _ rfl) h.1, rinv_setPending h.2 f _ (dropKth_mem t _ k)⟩
    split
    · exact h1
    · refine ⟨AgentT3.wpi_frame (AgentA.WFrame.setNode _ _ _ rfl) h1.1, rinv_setDist h1.2 t _ (merge_step _ _ _ ?_)⟩
      exact (h.2.node f).pendClock e hmem

theorem gi_op_loseGossip {w : World} (h : GI w) (f t : Nat) : GI (applyOp w (.loseGossip f t)) := by
  simp only [applyOp]
  exact ⟨AgentT3.wpi_frame (AgentA.WFrame.setNode _ _ _ rfl) h.1,
    rinv_setPending h.2 f _ (fun e he => (List.mem_filter.mp he).1)⟩

theorem gi_op_sync {w : World} (h : GI w) (f t : Nat) : GI (applyOp w (.sync f t)) := by
  simp only [applyOp]
  refine ⟨AgentT3.wpi_frame (AgentA.WFrame.setNode _ _ _ rfl) h.1, rinv_setDist h.2 t _ (merge_step _ _ _ ?_)⟩
  intro u hu
  simp only [snapshot, List.mem_flatMap] at hu
  obtain ⟨kl, hkl, hukl⟩ := hu
  exact (h.2.node f).subsClock kl hkl u hukl

theorem gi_setFlags {w : World} (h : GI w) (i : Nat) (n' : Node) (hc : AgentT3.pcore n' = AgentT3.pcore (w.node i))
    (hr : n'.reg = (w.node i).reg) (hs : n'.dist.subs = (w.node i).dist.subs) (hp : n'.pending = (w.node i).pending) :
    GI (w.setNode i n') :=
  ⟨AgentT3.wpi_setNode_core h.1 i n' hc, rinv_setNode_same h.2 i n' hr hs hp⟩

theorem gi_op_unreachable {w : World} (h : GI w) (n : Nat) (b : Bool) : GI (applyOp w (.unreachable n b)) :=
  gi_setFlags h n _ rfl rfl rfl rfl

theorem gi_op_logFailAll {w : World} (h : GI w) (n : Nat) (b : Bool) : GI (applyOp w (.logFailAll n b)) :=
  gi_setFlags h n _ rfl rfl rfl rfl

theorem gi_op_logFailAt {w : World} (h : GI w) (n k : Nat) : GI (applyOp w (.logFailAt n k)) :=
  gi_setFlags h n _ rfl rfl rfl rfl

theorem gi_op_logFailNone {w : World} (h : GI w) (n : Nat) : GI (applyOp w (.logFailNone n)) :=
  gi_setFlags h n _ rfl rfl rfl rfl

theorem gi_op_nodeFail {w : World} (h : GI w) (n : Nat) : GI (applyOp w (.nodeFail n)) :=
  ⟨AgentT3.nodeFail_inv w n h.1, rinv_nodeFail h.2 n⟩

theorem gi_op_sweep {w : World} (h : GI w) (n : Nat) : GI (applyOp w (.sweep n)) :=
  ⟨AgentT3.sweep_inv w n h.1, rinv_sweep h.2 n⟩

theorem gi_op_idle {w : World} (h : GI w) (ms : Int) : GI (applyOp w (.idle ms)) := gi_idle h ms

theorem gi_op_elapse {w : World} (h : GI w) (ms : Int) : GI (applyOp w (.elapse ms)) := gi_elapse h ms

theorem gi_op_setPool {w : World} (h : GI w) (n : Nat) (lo hi : Int) : GI (applyOp w (.setPool n lo hi)) := by
  simp only [applyOp]
  split
  · rename_i hc
    obtain ⟨hst, hmsgs, hle⟩ := hc
    have hst' : (w.node n).stored = [] := List.isEmpty_iff.mp hst
    have hmsgs' : (w.node n).acks.msgs = [] := List.isEmpty_iff.mp hmsgs
    refine ⟨AgentT3.wpi_setNode h.1 n _ ?_, rinv_setNode_same h.2 n _⟩
    have hn := h.1 n
    constructor
    · exact IdPool.new_inv lo hi hle
    · exact hn.qinv
    · intro k m hm
      have hm' : (k, m) ∈ (w.node n).acks.msgs := hm
      rw [hmsgs'] at hm'; cases hm'
    · intro k st sid mid hm
      have hm' : (k, st) ∈ (w.node n).stored := hm
      rw [hst'] at hm'; cases hm'
    · intro k s c p m hm
      have hm' : (k, Stored.inbound s c p m) ∈ (w.node n).stored := hm
      rw [hst'] at hm'; cases hm'
    · intro k₁ st₁ k₂ st₂ s₁ s₂ mid hm
      have hm' : (k₁, st₁) ∈ (w.node n).stored := hm
      rw [hst'] at hm'; cases hm'
  · exact h

theorem gi_op_rpcPublish {w : World} (h : GI w) (n : Nat) (topic payload : String) :
    GI (applyOp w (.rpcPublish n topic payload)) :=
  ⟨AgentT3.distribute_inv w n _ h.1, rinv_distribute h.2 n _⟩

/-- every operation of the harness preserves the invariant -/
theorem gi_step {w : World} (h : GI w) (op : BOp) : GI (applyOp w op) := by
  cases op with
  | connect c node client mount authOk ka will => exact gi_op_connect h c node client mount authOk ka will
  | packet c pkt => exact gi_op_packet h c pkt
  | drop c => exact gi_op_drop h c
  | openConn c node => exact gi_op_openConn h c node
  | raw c b => exact gi_op_raw h c b
  | gossipAll => exact gi_op_gossipAll h
  | gossip f t => exact gi_op_gossip h f t
  | gossipOne f t k => exact gi_op_gossipOne h f t k
  | loseGossip f t => exact gi_op_loseGossip h f t
  | sync f t => exact gi_op_sync h f t
  | unreachable n b => exact gi_op_unreachable h n b
  | logFailAll n b => exact gi_op_logFailAll h n b
  | logFailAt n k => exact gi_op_logFailAt h n k
  | logFailNone n => exact gi_op_logFailNone h n
  | nodeFail n => exact gi_op_nodeFail h n
  | sweep n => exact gi_op_sweep h n
  | idle ms => exact gi_op_idle h ms
  | elapse ms => exact gi_op_elapse h ms
  | setPool n lo hi => exact gi_op_setPool h n lo hi
  | rpcPublish n topic payload => exact gi_op_rpcPublish h n topic payload

theorem gi_run (ops : List BOp) : ∀ w : World, GI w → GI (run w ops) := by
  induction ops with
  | nil => intro w h; exact h
  | cons op rest ih => intro w h; exact ih _ (gi_step h op)

end Wasp.Broker.AgentT5

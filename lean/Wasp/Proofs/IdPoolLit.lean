import Wasp.Generated.IdPoolLit
import Wasp.Model.IdPool
import Wasp.Proofs.IdPool
import Wasp.Proofs.GoLit
/-! The tie by translation for the packet-identifier pool.

`Wasp.Generated.IdPoolLit.get` / `.put` are the LITERAL renderings of
`(*simpleMidPool).Get` / `.Put` (wasp/idpool.go) produced by extract/imperative.go on every
run: index arithmetic, `sort.Search`, slicing and `append` as written, returning `none`
where the Go code would panic with an index or slice bound out of range.

Here they are proven equal to the hand-written structural model (`Wasp.IdPool.get`,
`Wasp.IdPool.put`, Wasp/Model/IdPool.lean) the property theorems (C06) are stated over:
on a well-formed pool the code as written never panics and computes exactly what the
model computes. A change of the Go source (a comparison, an index, a case) changes the
generated definitions and these proofs stop checking. -/
namespace Wasp.IdPool.Lit
open Wasp.Generated.IdPoolLit

/-- the obvious conversion: a model interval (from, to) is the Go struct {from, to} -/
def ivLit (iv : Iv) : interval := ⟨iv.1, iv.2⟩

/-- the obvious conversion of pools (field by field) -/
def toLit (p : Pool) : simpleMidPool := ⟨p.min, p.max, p.ivs.map ivLit⟩

/-- Get as written = the model's `get`, for EVERY pool (no invariant is needed: both sides
    only look at the first interval). In particular Get never panics. -/
theorem getLit_eq (p : Pool) :
    Wasp.Generated.IdPoolLit.get (toLit p) = some (toLit (Wasp.IdPool.get p).1, (Wasp.IdPool.get p).2) := by
  obtain ⟨mn, mx, ivs⟩ := p
  cases ivs with
  | nil => simp [Generated.IdPoolLit.get, toLit, IdPool.get, Go.eq, Go.len]
  | cons iv rest =>
    obtain ⟨f, t⟩ := iv
    have h0 : ¬ ((rest.length : Int) + 1 = 0) := by omega
    have h1 : (1 : Int) ≤ (rest.length : Int) + 1 := by omega
    by_cases h : f + 1 ≥ t <;>
    simp [Generated.IdPoolLit.get, toLit, IdPool.get, ivLit, Go.inRange, Go.index, Go.set, Go.sliceFromOk, Go.sliceFrom, Go.len, Go.eq, Go.ge, h, h0, h1]

theorem sep_lower {hi lo : Int} {l : List Iv} (h : Sep hi lo l) : ∀ x ∈ l, lo ≤ x.1 := by
  induction l generalizing lo with
  | nil => intro x hx; cases hx
  | cons iv rest ih =>
    obtain ⟨f, t⟩ := iv
    simp only [Sep] at h
    intro x hx
    rcases List.mem_cons.1 hx with rfl | hx
    · exact h.1
    · have := ih h.2.2.2 x hx; omega

/-- a well-formed interval list splits into the intervals starting below `mid` and the others -/
theorem sep_split {hi lo : Int} (mid : Int) {l : List Iv} (h : Sep hi lo l) :
    ∃ pre rest, l = pre ++ rest ∧ (∀ x ∈ pre, x.1 < mid) ∧ (∀ x ∈ rest, mid ≤ x.1) := by
  induction l generalizing lo with
  | nil => exact ⟨[], [], rfl, by simp, by simp⟩
  | cons iv r ih =>
    obtain ⟨f, t⟩ := iv
    have h' := h
    simp only [Sep] at h'
    by_cases hf : f < mid
    · obtain ⟨pre, rest, e, h1, h2⟩ := ih h'.2.2.2
      refine ⟨(f, t) :: pre, rest, by simp [e], ?_, h2⟩
      intro x hx
      rcases List.mem_cons.1 hx with rfl | hx
      · exact hf
      · exact h1 x hx
    · refine ⟨[], (f, t) :: r, rfl, by simp, ?_⟩
      intro x hx
      rcases List.mem_cons.1 hx with rfl | hx
      · simp only; omega
      · have := sep_lower h'.2.2.2 x hx; omega

theorem putIvs_append (mid : Int) (pre : List Iv) (a : Iv) (rest : List Iv)
    (hp : ∀ x ∈ pre, x.1 < mid) (ha : a.1 < mid) :
    putIvs mid (pre ++ a :: rest) = pre ++ putIvs mid (a :: rest) := by
  induction pre with
  | nil => rfl
  | cons p pre' ih =>
    have hp1 : p.1 < mid := hp p (by simp)
    have ih' := ih (fun x hx => hp x (by simp [hx]))
    obtain ⟨pf, pt⟩ := p
    cases pre' with
    | nil =>
      obtain ⟨af, at_⟩ := a
      simp only [List.nil_append, List.cons_append] at ih' ⊢
      rw [putIvs]
      simp only at hp1 ha
      simp [show ¬ mid ≤ pf by omega, show ¬ mid ≤ af by omega]
    | cons q pre'' =>
      have hq : q.1 < mid := hp q (by simp)
      obtain ⟨qf, qt⟩ := q
      simp only [List.cons_append] at ih' ⊢
      rw [putIvs]
      simp only at hp1 hq
      simp [show ¬ mid ≤ pf by omega, show ¬ mid ≤ qf by omega, ih']

/-- Put as written = the model's `put` on every pool whose interval list is PARTITIONED with
    respect to `mid`: the intervals starting below `mid` come first. This is exactly what
    makes Go's binary search (`sort.Search`) agree with the model's linear walk; nothing
    else of the invariant is used. In particular Put does not panic on such a pool. -/
theorem putLit_eq_of_partition (mn mx : Int) (pre rest : List Iv) (mid : Int)
    (h1 : ∀ x ∈ pre, x.1 < mid) (h2 : ∀ x ∈ rest, mid ≤ x.1) :
    Wasp.Generated.IdPoolLit.put (toLit ⟨mn, mx, pre ++ rest⟩) mid
      = some (toLit (Wasp.IdPool.put ⟨mn, mx, pre ++ rest⟩ mid)) := by
  by_cases hr : mid < mn ∨ mid > mx
  · have hb : (Go.lt mid mn || Go.gt mid mx) = true := by simpa [Go.lt, Go.gt] using hr
    simp only [Generated.IdPoolLit.put, toLit, IdPool.put, hr, hb, if_true]
  · have hs := Go.search_append (fun x : interval => Go.ge x.from_ mid) (pre.map ivLit) (rest.map ivLit)
      (by intro x hx; obtain ⟨y, hy, rfl⟩ := List.mem_map.1 hx; simpa [ivLit, Go.ge] using h1 y hy)
      (by intro x hx; obtain ⟨y, hy, rfl⟩ := List.mem_map.1 hx; simpa [ivLit, Go.ge] using h2 y hy)
    have hg : Go.forallBelow (Go.len (List.map ivLit (pre ++ rest))) (fun i => Go.inRange (List.map ivLit (pre ++ rest)) i) = true := by
      rw [Go.forallBelow_iff]; intro i h0 hi; rw [Go.inRange_iff]; exact ⟨h0, hi⟩
    have hb : (Go.lt mid mn || Go.gt mid mx) = false := by simpa [Go.lt, Go.gt] using hr
    simp only [Generated.IdPoolLit.put, toLit, IdPool.put, hr, hb, if_false, Bool.false_eq_true]
    simp only [← List.map_append] at hs
    simp only [hg, hs, if_true]
    rcases List.eq_nil_or_concat pre with rfl | ⟨pre', a, rfl⟩
    · cases rest with
      | nil =>
        simp [Go.gt, Go.ge, Go.lt, Go.eq, Go.inRange, Go.index, Go.sliceTo, Go.sliceFrom, Go.sliceToOk, Go.sliceFromOk, Go.len, putIvs, ivLit]
      | cons b post =>
        obtain ⟨bf, bt⟩ := b
        have hb1 : mid ≤ bf := h2 (bf, bt) (by simp)
        have hb2 : (0 : Int) ≤ (post.length : Int) + 1 := by omega
        have hput : putIvs mid ((bf, bt) :: post) =
            if bf = mid then (bf - 1, bt) :: post else (mid - 1, mid) :: (bf, bt) :: post := by
          rw [putIvs.eq_def]; simp [hb1]
        simp [Go.gt, Go.ge, Go.lt, Go.eq, Go.inRange, Go.index, Go.set, Go.sliceTo, Go.sliceFrom, Go.sliceToOk, Go.sliceFromOk, Go.len, hput, ivLit, hb2]
        split <;> simp [ivLit]
    · obtain ⟨af, at_⟩ := a
      have ha1 : af < mid := h1 (af, at_) (by simp)
      have hp' : ∀ x ∈ pre', x.1 < mid := fun x hx => h1 x (by simp [hx])
      rw [List.concat_eq_append, List.append_assoc, List.singleton_append, putIvs_append mid pre' (af, at_) rest hp' ha1]
      have ha2 : ¬ mid ≤ af := by omega
      have hk1 : (pre'.length : Int) < pre'.length + 1 := by omega
      have hk2 : (0 : Int) ≤ (pre'.length : Int) + 1 := by omega
      cases rest with
      | nil =>
        simp [Go.gt, Go.ge, Go.lt, Go.eq, Go.inRange, Go.index, Go.set, Go.sliceTo, Go.sliceFrom, Go.sliceToOk, Go.sliceFromOk, Go.len, putIvs, ivLit, ha2, hk1, hk2, List.take_of_length_le, List.drop_of_length_le]
        split <;> try split
        all_goals simp [ivLit]
      | cons b post =>
        obtain ⟨bf, bt⟩ := b
        have hb1 : mid ≤ bf := h2 (bf, bt) (by simp)
        have hk3 : (pre'.length : Int) < pre'.length + ((post.length : Int) + 1 + 1) := by omega
        have hk4 : (1 : Int) < (post.length : Int) + 1 + 1 := by omega
        have hk5 : (pre'.length : Int) ≤ pre'.length + ((post.length : Int) + 1 + 1) := by omega
        have hk6 : (1 : Int) ≤ (post.length : Int) + 1 + 1 := by omega
        simp [Go.gt, Go.ge, Go.lt, Go.eq, Go.inRange, Go.index, Go.set, Go.sliceTo, Go.sliceFrom, Go.sliceToOk, Go.sliceFromOk, Go.len, putIvs, ivLit, ha2, hk2, hk3, hk4, hk5, hk6, hb1, Go.drop_succ_append, Go.take_succ_append]
        by_cases c1 : mid ≤ at_
        · simp [c1, ivLit]
        · by_cases c2 : at_ = mid - 1 <;> by_cases c3 : bf = mid <;>
            simp [c1, c2, c3, ivLit, show ¬ mid ≤ mid - 1 by omega]

/-- Put as written = the model's `put`, for every pool satisfying the invariant `Inv`
    (Wasp/Proofs/IdPool.lean). `Inv` is needed, and only through the order of the `from`
    fields it implies (`sep_split`): see `putLit_ne_unsorted` below. -/
theorem putLit_eq (p : Pool) (h : Inv p) (mid : Int) :
    Wasp.Generated.IdPoolLit.put (toLit p) mid = some (toLit (Wasp.IdPool.put p mid)) := by
  obtain ⟨mn, mx, ivs⟩ := p
  obtain ⟨pre, rest, e, h1, h2⟩ := sep_split mid (show Sep mx (mn - 1) ivs from h)
  subst e
  exact putLit_eq_of_partition mn mx pre rest mid h1 h2

/-- the hypothesis of `putLit_eq` cannot be dropped: on an unsorted interval list the binary
    search of the code and the linear walk of the model part ways -/
theorem putLit_ne_unsorted :
    Wasp.Generated.IdPoolLit.put (toLit ⟨1, 9, [(5, 6), (1, 2)]⟩) 3
      ≠ some (toLit (Wasp.IdPool.put ⟨1, 9, [(5, 6), (1, 2)]⟩ 3)) := by
  decide

theorem inv_get (p : Pool) (h : Inv p) : Inv (Wasp.IdPool.get p).1 := by
  by_cases hne : p.ivs = []
  · rw [get_empty p hne]; exact h
  · exact (get_spec p h hne).1

/-- one operation of a trace on the code as written (`none` = a panic) -/
def stepLit (m : simpleMidPool) : Op → Option (simpleMidPool × Option Int)
  | .get => (Wasp.Generated.IdPoolLit.get m).map fun r => (r.1, some r.2)
  | .put x => (Wasp.Generated.IdPoolLit.put m x).map fun m' => (m', none)

/-- a whole trace on the code as written -/
def runLit (m : simpleMidPool) : List Op → Option (simpleMidPool × List (Option Int))
  | [] => some (m, [])
  | op :: ops => (stepLit m op).bind fun r => (runLit r.1 ops).map fun r' => (r'.1, r.2 :: r'.2)

/-- from a well-formed pool, no sequence of Get/Put on the code as written ever panics, and
    it yields the states and outputs of the model's `run` (over which C06 is stated) -/
theorem runLit_eq (p : Pool) (h : Inv p) (ops : List Op) :
    runLit (toLit p) ops = some (toLit (run p ops).1, (run p ops).2) := by
  induction ops generalizing p with
  | nil => rfl
  | cons op ops ih =>
    cases op with
    | get =>
      simp only [runLit, stepLit, getLit_eq, Option.map_some, Option.bind_some, run, step,
        ih _ (inv_get p h)]
    | put x =>
      simp only [runLit, stepLit, putLit_eq p h, Option.map_some, Option.bind_some, run, step,
        ih _ (put_spec p h x).1]

end Wasp.IdPool.Lit

import Wasp.Model.Dist
import Wasp.Properties.C08
/-! Helper lemmas for C09 (broadcast completeness) and C10 (full-state exchange). -/
namespace Wasp.Dist
open Wasp.Crdt Wasp.Topic

/-! ### stamps -/

theorem lastUpdate_mk_sy (a d : Int) : lastUpdate ⟨a, d⟩ = if a > d then a else d := by
  simp [lastUpdate, Generated.getLastEntryUpdate, Go.isNil, Go.getLastAdded, Go.getLastDeleted]

theorem isOutdated_eq_sy (l r : Stamp) : isOutdated l r = decide (lastUpdate l < lastUpdate r) := rfl

theorem isAdded_mk (a d : Int) : isAdded ⟨a, d⟩ = (decide (a > 0) && decide (a > d)) := rfl

theorem isRemoved_mk (a d : Int) : isRemoved ⟨a, d⟩ = (decide (d > 0) && decide (a < d)) := rfl

/-- last-writer-wins choice between an incoming entry and the locally stored one -/
def pick {α : Type} (ts : α → Int) : Option α → Option α → Option α
  | none, l => l
  | some a, none => some a
  | some a, some b => if ts b < ts a then some a else some b

theorem pick_none_right {α : Type} (ts : α → Int) (a : Option α) : pick ts a none = a := by
  cases a <;> rfl

theorem pick_symm {α : Type} (ts : α → Int) (x y : Option α)
    (h : ∀ a b, x = some a → y = some b → ts a = ts b → a = b) : pick ts y x = pick ts x y := by
  cases x with
  | none => cases y <;> rfl
  | some a =>
    cases y with
    | none => rfl
    | some b =>
      simp only [pick]
      by_cases h1 : ts a < ts b
      · have h2 : ¬ ts b < ts a := by omega
        simp [h1, h2]
      · by_cases h2 : ts b < ts a
        · simp [h1, h2]
        · have := h a b rfl rfl (by omega)
          simp [this]

theorem pick_newer {α : Type} (ts : α → Int) (a : α) (y : Option α)
    (h : ∀ b, y = some b → ts b < ts a) : pick ts (some a) y = some a := by
  cases y with
  | none => rfl
  | some b => simp [pick, h b rfl]

theorem pick_keeps {α : Type} (ts : α → Int) (x : Option α) (b : α)
    (h : ∀ a, x = some a → ts a ≤ ts b) : pick ts x (some b) = some b := by
  cases x with
  | none => rfl
  | some a =>
    have := h a rfl
    have h' : ¬ ts b < ts a := by omega
    simp [pick, h']

/-! ### sessions -/

theorem sessLookup_id {id : String} {l : List SessionMD} {s : SessionMD}
    (h : sessLookup id l = some s) : s.id = id := by
  induction l with
  | nil => simp [sessLookup] at h
  | cons x rest ih =>
    simp only [sessLookup] at h
    split at h
    · cases h; assumption
    · exact ih h

theorem sessLookup_mem {id : String} {l : List SessionMD} {s : SessionMD}
    (h : sessLookup id l = some s) : s ∈ l := by
  induction l with
  | nil => simp [sessLookup] at h
  | cons x rest ih =>
    simp only [sessLookup] at h
    split at h
    · cases h; simp
    · simp [ih h]

theorem sessLookup_none {id : String} {l : List SessionMD} :
    sessLookup id l = none ↔ id ∉ l.map (·.id) := by
  induction l with
  | nil => simp [sessLookup]
  | cons x rest ih =>
    simp only [sessLookup]
    split <;> simp_all [eq_comm]

theorem sessLookup_sessSet_sy (id : String) (s : SessionMD) (l : List SessionMD) :
    sessLookup id (sessSet s l) = if s.id = id then some s else sessLookup id l := by
  induction l with
  | nil => simp [sessSet, sessLookup]
  | cons x rest ih =>
    simp only [sessSet]
    split
    · rename_i hx
      simp only [sessLookup, hx]
      split <;> simp_all
    · rename_i hx
      simp only [sessLookup, ih]
      split <;> split <;> simp_all

theorem sessSet_ids_sy (s : SessionMD) (l : List SessionMD) :
    (sessSet s l).map (·.id) = if s.id ∈ l.map (·.id) then l.map (·.id) else l.map (·.id) ++ [s.id] := by
  induction l with
  | nil => simp [sessSet]
  | cons x rest ih =>
    simp only [sessSet]
    split
    · rename_i hx; simp [hx]
    · rename_i hx
      have hx' : ¬ s.id = x.id := fun h => hx h.symm
      simp only [List.map_cons, ih, List.mem_cons, hx', false_or]
      split <;> simp

theorem sessSet_nodup_sy (s : SessionMD) (l : List SessionMD) (h : (l.map (·.id)).Nodup) :
    ((sessSet s l).map (·.id)).Nodup := by
  rw [sessSet_ids_sy]
  split
  · exact h
  · rename_i hn
    rw [List.nodup_append]
    refine ⟨h, by simp, ?_⟩
    intro a ha b hb
    simp only [List.mem_singleton] at hb
    subst hb
    intro e; subst e; exact hn ha

theorem sessSet_mem {s x : SessionMD} {l : List SessionMD} (h : x ∈ sessSet s l) : x = s ∨ x ∈ l := by
  induction l with
  | nil => simp [sessSet] at h; simp [h]
  | cons y rest ih =>
    simp only [sessSet] at h
    split at h <;> grind

/-- a batch of pairwise distinct, valid, strictly newer session updates is applied completely -/
theorem mergeSessions_eq_foldl (vs st : List SessionMD)
    (hv : ∀ v ∈ vs, v.id ≠ "")
    (hd : (vs.map (·.id)).Nodup)
    (hn : ∀ v ∈ vs, ∀ loc, sessLookup v.id st = some loc → lastUpdate loc.stamp < lastUpdate v.stamp) :
    mergeSessions vs st = vs.foldl (fun acc s => sessSet s acc) st := by
  induction vs generalizing st with
  | nil => rfl
  | cons v rest ih =>
    simp only [List.map_cons, List.nodup_cons] at hd
    have hvid : v.id ≠ "" := hv v (by simp)
    have hstep : mergeSessions (v :: rest) st = mergeSessions rest (sessSet v st) := by
      simp only [mergeSessions, hvid, if_false]
      cases hl : sessLookup v.id st with
      | none => simp
      | some loc => simp [isOutdated_eq_sy, hn v (by simp) loc hl]
    rw [hstep, List.foldl_cons]
    apply ih
    · intro w hw; exact hv w (by simp [hw])
    · exact hd.2
    · intro w hw loc hl
      rw [sessLookup_sessSet_sy] at hl
      have : v.id ≠ w.id := by
        intro e; apply hd.1; rw [e]; exact List.mem_map_of_mem hw
      simp only [this, if_false] at hl
      exact hn w (by simp [hw]) loc hl

theorem mergeSessions_cons_valid (s : SessionMD) (rest st : List SessionMD) (h : s.id ≠ "") :
    mergeSessions (s :: rest) st = mergeSessions rest
      (match sessLookup s.id st with
        | none => sessSet s st
        | some loc => if loc.ts < s.ts then sessSet s st else st) := by
  simp only [mergeSessions, h, if_false]
  cases hl : sessLookup s.id st with
  | none => simp
  | some loc =>
    by_cases hlt : loc.ts < s.ts
    · have hlt' := hlt
      simp only [SessionMD.ts] at hlt'
      simp [isOutdated_eq_sy, hlt, hlt']
    · have hlt' := hlt
      simp only [SessionMD.ts] at hlt'
      simp [isOutdated_eq_sy, hlt, hlt']

theorem sessLookup_mergeSessions_sy (l st : List SessionMD) (hv : ∀ s ∈ l, s.id ≠ "")
    (hd : (l.map (·.id)).Nodup) (id : String) :
    sessLookup id (mergeSessions l st) = pick SessionMD.ts (sessLookup id l) (sessLookup id st) := by
  induction l generalizing st with
  | nil => simp [mergeSessions, sessLookup, pick]
  | cons s rest ih =>
    simp only [List.map_cons, List.nodup_cons] at hd
    rw [mergeSessions_cons_valid s rest st (hv s (by simp)),
      ih _ (fun w hw => hv w (by simp [hw])) hd.2]
    by_cases hid : s.id = id
    · subst hid
      have hnone : sessLookup s.id rest = none := sessLookup_none.mpr hd.1
      simp only [sessLookup, if_true, hnone]
      cases hl : sessLookup s.id st with
      | none => simp [pick, sessLookup_sessSet_sy]
      | some loc =>
        simp only [pick]
        split <;> simp [sessLookup_sessSet_sy, hl]
    · have e : sessLookup id (match sessLookup s.id st with
          | none => sessSet s st
          | some loc => if loc.ts < s.ts then sessSet s st else st) = sessLookup id st := by
        split
        · simp [sessLookup_sessSet_sy, hid]
        · split <;> simp [sessLookup_sessSet_sy, hid]
      rw [e]
      simp [sessLookup, hid]

theorem mergeSessions_mem {l st : List SessionMD} {x : SessionMD} (h : x ∈ mergeSessions l st) :
    x ∈ l ∨ x ∈ st := by
  induction l generalizing st with
  | nil => simp_all [mergeSessions]
  | cons s rest ih =>
    simp only [mergeSessions] at h
    split at h
    · simp [h]
    · have := ih h
      rcases this with h1 | h1
      · simp [h1]
      · have h2 : x = s ∨ x ∈ st := by
          repeat' split at h1
          all_goals first | exact sessSet_mem h1 | exact Or.inr h1
        grind

theorem mergeSessions_nodup_sy (l st : List SessionMD) (hk : (st.map (·.id)).Nodup) :
    ((mergeSessions l st).map (·.id)).Nodup := by
  induction l generalizing st with
  | nil => simpa [mergeSessions]
  | cons s rest ih =>
    simp only [mergeSessions]
    split
    · exact hk
    · apply ih
      repeat' split
      all_goals first | exact sessSet_nodup_sy _ _ hk | exact hk

/-! ### subscriptions -/

theorem subsLookup_subsAssign_sy (p q : String) (v : List Sub) (m : List (String × List Sub)) :
    subsLookup p (subsAssign q v m) = if q = p then v else subsLookup p m := by
  induction m with
  | nil => simp [subsAssign, subsLookup]
  | cons kl rest ih =>
    obtain ⟨k, l⟩ := kl
    simp only [subsAssign]
    split
    · rename_i hk; subst hk; simp only [subsLookup]; split <;> simp_all
    · rename_i hk
      simp only [subsLookup, ih]
      split <;> split <;> simp_all

theorem subsAssign_keys (q : String) (v : List Sub) (m : List (String × List Sub)) :
    (subsAssign q v m).map (·.1) = if q ∈ m.map (·.1) then m.map (·.1) else m.map (·.1) ++ [q] := by
  induction m with
  | nil => simp [subsAssign]
  | cons kl rest ih =>
    obtain ⟨k, l⟩ := kl
    simp only [subsAssign]
    split
    · rename_i hk; simp [hk]
    · rename_i hk
      have hk' : ¬ q = k := fun h => hk h.symm
      simp only [List.map_cons, ih, List.mem_cons, hk', false_or]
      split <;> simp

theorem nodup_append_singleton {α : Type} {l : List α} {a : α} (h : l.Nodup) (ha : a ∉ l) :
    (l ++ [a]).Nodup := by
  rw [List.nodup_append]
  refine ⟨h, by simp, ?_⟩
  intro x hx b hb
  simp only [List.mem_singleton] at hb
  subst hb
  intro e; subst e; exact ha hx

theorem subsAssign_nodup (q : String) (v : List Sub) (m : List (String × List Sub))
    (h : (m.map (·.1)).Nodup) : ((subsAssign q v m).map (·.1)).Nodup := by
  rw [subsAssign_keys]
  split
  · exact h
  · exact nodup_append_singleton h (by assumption)

theorem subsAssign_mem {q : String} {v : List Sub} {m : List (String × List Sub)} {kl : String × List Sub}
    (h : kl ∈ subsAssign q v m) : kl = (q, v) ∨ kl ∈ m := by
  induction m with
  | nil => simp [subsAssign] at h; simp [h]
  | cons y rest ih =>
    obtain ⟨k, l⟩ := y
    simp only [subsAssign] at h
    split at h <;> grind

theorem subsLookup_mem {p : String} {m : List (String × List Sub)} {x : Sub}
    (h : x ∈ subsLookup p m) : (p, subsLookup p m) ∈ m := by
  induction m with
  | nil => simp [subsLookup] at h
  | cons y rest ih =>
    obtain ⟨k, l⟩ := y
    simp only [subsLookup] at h ⊢
    split at h
    · rename_i hk; subst hk; simp
    · rename_i hk; simp [hk, ih h]

theorem subListSet_mem {s x : Sub} {l : List Sub} (h : x ∈ (subListSet s l).1) : x = s ∨ x ∈ l := by
  induction l with
  | nil => simp [subListSet] at h
  | cons y rest ih =>
    simp only [subListSet] at h
    split at h
    · split at h
      · grind
      · grind
    · grind

theorem subListSet_sessions (s : Sub) (l : List Sub) :
    (subListSet s l).1.map (·.session) = l.map (·.session) := by
  induction l with
  | nil => simp [subListSet]
  | cons y rest ih =>
    simp only [subListSet]
    split
    · split
      · simp_all
      · simp_all
    · simp_all

theorem subListSet_found (s : Sub) (l : List Sub) :
    (subListSet s l).2 = true ↔ s.session ∈ l.map (·.session) := by
  induction l with
  | nil => simp [subListSet]
  | cons y rest ih =>
    simp only [subListSet]
    split
    · split <;> simp_all
    · rename_i hy
      have : ¬ s.session = y.session := fun h => hy h.symm
      simp_all

/-- the list stored under `s.pattern` after `subsSet s` -/
def subsSetList (s : Sub) (m : List (String × List Sub)) : List Sub :=
  if (subListSet s (subsLookup s.pattern m)).2 then (subListSet s (subsLookup s.pattern m)).1
  else (subListSet s (subsLookup s.pattern m)).1 ++ [s]

theorem subsSet_eq_sy (s : Sub) (m : List (String × List Sub)) :
    subsSet s m = subsAssign s.pattern (subsSetList s m) m := by
  simp only [subsSet, subsSetList]

theorem subsSetList_mem {s x : Sub} {m : List (String × List Sub)} (h : x ∈ subsSetList s m) :
    x = s ∨ x ∈ subsLookup s.pattern m := by
  simp only [subsSetList] at h
  split at h
  · exact subListSet_mem h
  · simp only [List.mem_append, List.mem_singleton] at h
    rcases h with h | h
    · exact subListSet_mem h
    · exact Or.inl h

/-- a property of all stored subscriptions (possibly depending on the key) survives `subsSet` -/
theorem subsSet_forall (Q : String → Sub → Prop) (s : Sub) (m : List (String × List Sub))
    (hm : ∀ kl ∈ m, ∀ x ∈ kl.2, Q kl.1 x) (hs : Q s.pattern s) :
    ∀ kl ∈ subsSet s m, ∀ x ∈ kl.2, Q kl.1 x := by
  intro kl hkl x hx
  rw [subsSet_eq_sy] at hkl
  rcases subsAssign_mem hkl with e | hmem
  · subst e
    rcases subsSetList_mem hx with e | hl
    · subst e; exact hs
    · exact hm _ (subsLookup_mem hl) x hl
  · exact hm kl hmem x hx

theorem subsSet_keys_nodup (s : Sub) (m : List (String × List Sub)) (h : (m.map (·.1)).Nodup) :
    ((subsSet s m).map (·.1)).Nodup := by
  rw [subsSet_eq_sy]; exact subsAssign_nodup _ _ _ h

theorem subsSetList_nodup (s : Sub) (m : List (String × List Sub))
    (hm : ∀ kl ∈ m, (kl.2.map (·.session)).Nodup) : ((subsSetList s m).map (·.session)).Nodup := by
  have hl : ((subsLookup s.pattern m).map (·.session)).Nodup := by
    cases hl : subsLookup s.pattern m with
    | nil => simp
    | cons y r =>
      have : y ∈ subsLookup s.pattern m := by simp [hl]
      have := hm _ (subsLookup_mem this)
      simpa [hl] using this
  simp only [subsSetList]
  split
  · rw [subListSet_sessions]; exact hl
  · rename_i hf
    rw [List.map_append, subListSet_sessions]
    apply nodup_append_singleton hl
    intro hmem
    exact hf ((subListSet_found _ _).mpr hmem)

theorem subsSet_inner_nodup (s : Sub) (m : List (String × List Sub))
    (hm : ∀ kl ∈ m, (kl.2.map (·.session)).Nodup) :
    ∀ kl ∈ subsSet s m, (kl.2.map (·.session)).Nodup := by
  intro kl hkl
  rw [subsSet_eq_sy] at hkl
  rcases subsAssign_mem hkl with e | hmem
  · subst e; exact subsSetList_nodup s m hm
  · exact hm kl hmem

theorem mergeSubs_eq_foldl (vs : List Sub) (m : List (String × List Sub))
    (hv : ∀ v ∈ vs, v.session ≠ "" ∧ v.pattern ≠ "") :
    mergeSubs vs m = vs.foldl (fun acc s => subsSet s acc) m := by
  induction vs generalizing m with
  | nil => rfl
  | cons v rest ih =>
    have := hv v (by simp)
    simp only [mergeSubs, this.1, this.2, or_self, if_false, List.foldl_cons]
    exact ih _ (fun w hw => hv w (by simp [hw]))

theorem foldl_subsSet_forall (Q : String → Sub → Prop) (vs : List Sub) (m : List (String × List Sub))
    (hm : ∀ kl ∈ m, ∀ x ∈ kl.2, Q kl.1 x) (hs : ∀ v ∈ vs, Q v.pattern v) :
    ∀ kl ∈ vs.foldl (fun acc s => subsSet s acc) m, ∀ x ∈ kl.2, Q kl.1 x := by
  induction vs generalizing m with
  | nil => exact hm
  | cons v rest ih =>
    simp only [List.foldl_cons]
    exact ih _ (subsSet_forall Q v m hm (hs v (by simp))) (fun w hw => hs w (by simp [hw]))

theorem find_subListSet (x : Sub) (l : List Sub) (s : String) :
    (subListSet x l).1.find? (fun y => y.session == s) =
      if x.session = s then
        (match l.find? (fun y => y.session == s) with
          | none => none
          | some b => if b.ts < x.ts then some x else some b)
      else l.find? (fun y => y.session == s) := by
  induction l with
  | nil => simp [subListSet]
  | cons y rest ih =>
    simp only [subListSet]
    by_cases hy : y.session = x.session
    · simp only [hy, if_true]
      by_cases ho : y.ts < x.ts
      · have ho' := ho
        simp only [Sub.ts] at ho'
        simp only [isOutdated_eq_sy, ho', decide_true, if_true]
        by_cases hs : x.session = s
        · simp [hs, hy, ho]
        · simp [hs, hy]
      · have ho' := ho
        simp only [Sub.ts] at ho'
        simp only [isOutdated_eq_sy, ho', decide_false, Bool.false_eq_true, if_false]
        by_cases hs : x.session = s
        · simp [hs, hy, ho]
        · simp [hs, hy, ih]
    · simp only [hy, if_false]
      by_cases hs : x.session = s
      · have : ¬ y.session = s := by rw [← hs]; exact hy
        simp [hs, this, ih]
      · by_cases hys : y.session = s
        · simp [hs, hys]
        · simp [hs, hys, ih]

theorem find_subsSetList (x : Sub) (m : List (String × List Sub)) (s : String) :
    (subsSetList x m).find? (fun y => y.session == s) =
      if x.session = s then pick Sub.ts (some x) (subEntry m x.pattern s)
      else subEntry m x.pattern s := by
  simp only [subsSetList, subEntry]
  split
  · rename_i hf
    rw [find_subListSet]
    split
    · rename_i hs
      have hmem := (subListSet_found _ _).mp hf
      rw [hs] at hmem
      cases hfind : List.find? (fun y => y.session == s) (subsLookup x.pattern m) with
      | none =>
        rw [List.find?_eq_none] at hfind
        simp only [List.mem_map] at hmem
        obtain ⟨a, ha, hae⟩ := hmem
        have := hfind a ha
        simp [hae] at this
      | some b => simp only [pick]
    · rfl
  · rename_i hf
    have hnot : x.session ∉ (subsLookup x.pattern m).map (·.session) :=
      fun h => hf ((subListSet_found _ _).mpr h)
    rw [List.find?_append, find_subListSet]
    by_cases hs : x.session = s
    · have hnone : List.find? (fun y => y.session == s) (subsLookup x.pattern m) = none := by
        rw [List.find?_eq_none]
        intro a ha
        simp only [beq_iff_eq]
        intro e
        apply hnot
        rw [hs, ← e]
        exact List.mem_map_of_mem ha
      simp [hs, hnone, pick]
    · simp [hs]

theorem subEntry_subsSet_sy (x : Sub) (m : List (String × List Sub)) (p s : String) :
    subEntry (subsSet x m) p s =
      if x.pattern = p ∧ x.session = s then pick Sub.ts (some x) (subEntry m p s)
      else subEntry m p s := by
  rw [subsSet_eq_sy]
  conv => lhs; unfold subEntry
  rw [subsLookup_subsAssign_sy]
  by_cases hp : x.pattern = p
  · simp only [hp, if_true, true_and]
    rw [find_subsSetList, hp]
  · simp [hp, subEntry]

theorem find_congr' {α : Type} {p q : α → Bool} {l : List α} (h : ∀ x ∈ l, p x = q x) :
    l.find? p = l.find? q := by
  induction l with
  | nil => rfl
  | cons a r ih =>
    simp only [List.find?_cons, h a (by simp)]
    rw [ih (fun x hx => h x (by simp [hx]))]

def subKeyEq (p s : String) (x : Sub) : Bool := x.pattern == p && x.session == s

theorem subEntry_mergeSubs_sy (l : List Sub) (m : List (String × List Sub)) (hv : ∀ x ∈ l, validSub x)
    (hd : l.Pairwise (fun x y => ¬ (x.pattern = y.pattern ∧ x.session = y.session))) (p s : String) :
    subEntry (mergeSubs l m) p s = pick Sub.ts (l.find? (subKeyEq p s)) (subEntry m p s) := by
  induction l generalizing m with
  | nil => simp [mergeSubs, pick]
  | cons x rest ih =>
    rw [List.pairwise_cons] at hd
    have hx := hv x (by simp)
    simp only [validSub] at hx
    simp only [mergeSubs, hx.1, hx.2, or_self, if_false]
    rw [ih _ (fun w hw => hv w (by simp [hw])) hd.2, subEntry_subsSet_sy]
    by_cases hk : x.pattern = p ∧ x.session = s
    · have hnone : rest.find? (subKeyEq p s) = none := by
        rw [List.find?_eq_none]
        intro y hy
        have := hd.1 y hy
        simp only [subKeyEq, Bool.and_eq_true, beq_iff_eq]
        rw [← hk.1, ← hk.2]
        intro e; exact this ⟨e.1.symm, e.2.symm⟩
      simp [hk, hnone, subKeyEq, pick]
    · have : subKeyEq p s x = false := by
        simp only [subKeyEq]
        simpa using hk
      simp [hk, this]

/-- the stored-subscriptions invariant part of `Inv` -/
def SubsInv (m : List (String × List Sub)) : Prop :=
  (m.map (·.1)).Nodup ∧ ∀ kl ∈ m, (kl.2.map (·.session)).Nodup ∧ ∀ s ∈ kl.2, s.pattern = kl.1 ∧ validSub s

theorem subs_flat_pairwise (m : List (String × List Sub)) (h : SubsInv m) :
    (m.flatMap (·.2)).Pairwise (fun x y => ¬ (x.pattern = y.pattern ∧ x.session = y.session)) := by
  rw [List.pairwise_flatMap]
  constructor
  · intro kl hkl
    have := (h.2 kl hkl).1
    rw [List.Nodup, List.pairwise_map] at this
    exact this.imp (fun hne e => hne e.2)
  · have := h.1
    rw [List.Nodup, List.pairwise_map] at this
    refine List.Pairwise.imp_of_mem ?_ this
    intro a b ha hb hne x hx y hy e
    apply hne
    rw [← ((h.2 a ha).2 x hx).1, ← ((h.2 b hb).2 y hy).1]
    exact e.1

theorem subs_flat_find (m : List (String × List Sub)) (h : SubsInv m) (p s : String) :
    (m.flatMap (·.2)).find? (subKeyEq p s) = subEntry m p s := by
  induction m with
  | nil => simp [subEntry, subsLookup]
  | cons kl rest ih =>
    obtain ⟨k, l⟩ := kl
    have hrest : SubsInv rest := by
      refine ⟨(List.nodup_cons.mp h.1).2, fun kl hkl => h.2 kl (by simp [hkl])⟩
    have hl := (h.2 (k, l) (by simp)).2
    simp only [List.flatMap_cons, List.find?_append, subEntry, subsLookup]
    by_cases hk : k = p
    · subst hk
      simp only [if_true]
      have e1 : l.find? (subKeyEq k s) = l.find? (fun y => y.session == s) := by
        apply find_congr'
        intro x hx
        simp [subKeyEq, (hl x hx).1]
      have e2 : (rest.flatMap (·.2)).find? (subKeyEq k s) = none := by
        rw [List.find?_eq_none]
        intro x hx
        simp only [List.mem_flatMap] at hx
        obtain ⟨kl', hkl', hx'⟩ := hx
        have hp := ((h.2 kl' (by simp [hkl'])).2 x hx').1
        have : kl'.1 ≠ k := by
          intro e
          have := (List.nodup_cons.mp h.1).1
          apply this
          rw [← e]
          exact List.mem_map_of_mem (f := (·.1)) hkl'
        simp [subKeyEq, hp, this]
      rw [e1, e2]; simp
    · simp only [hk, if_false]
      have e1 : l.find? (subKeyEq p s) = none := by
        rw [List.find?_eq_none]
        intro x hx
        simp [subKeyEq, (hl x hx).1, hk]
      rw [e1, ih hrest]
      simp [subEntry]

/-! ### topic names -/

/-- joining levels with '/' -/
def unlevels : List Level → List Char
  | [] => []
  | [l] => l.toList
  | l :: rest => l.toList ++ '/' :: unlevels rest

theorem next_none_sy {cs tok : List Char} (h : next cs = (none, tok)) : tok = cs := by
  induction cs generalizing tok with
  | nil => simp [next] at h; exact h
  | cons c r ih =>
    simp only [next] at h
    split at h
    · simp at h
    · cases hn : next r with
      | mk a b =>
        rw [hn] at h
        simp only [Prod.mk.injEq] at h
        obtain ⟨h1, h2⟩ := h
        subst h1
        rw [← h2, ih hn]

theorem next_some_sy {cs rest tok : List Char} (h : next cs = (some rest, tok)) :
    cs = tok ++ '/' :: rest := by
  induction cs generalizing tok with
  | nil => simp [next] at h
  | cons c r ih =>
    simp only [next] at h
    split at h
    · rename_i hc
      simp only [Prod.mk.injEq, Option.some.injEq] at h
      obtain ⟨h1, h2⟩ := h
      subst h1 h2 hc
      simp
    · cases hn : next r with
      | mk a b =>
        rw [hn] at h
        simp only [Prod.mk.injEq] at h
        obtain ⟨h1, h2⟩ := h
        subst h1
        rw [← h2, List.cons_append, ← ih hn]

theorem levelsAux_ne_nil_sy (fuel : Nat) (cs : List Char) : levelsAux (fuel + 1) cs ≠ [] := by
  simp only [levelsAux]
  split <;> simp

theorem unlevels_levelsAux (fuel : Nat) (cs : List Char) (h : cs.length < fuel) :
    unlevels (levelsAux fuel cs) = cs := by
  induction fuel generalizing cs with
  | zero => omega
  | succ n ih =>
    simp only [levelsAux]
    cases hn : next cs with
    | mk a tok =>
      cases a with
      | none =>
        simp only [unlevels, String.toList_ofList]
        exact next_none_sy hn
      | some rest =>
        have hcs := next_some_sy hn
        have hlen : rest.length < n := by
          have := congrArg List.length hcs
          simp at this
          omega
        simp only
        cases n with
        | zero => omega
        | succ k =>
          cases hl : levelsAux (k + 1) rest with
          | nil => exact absurd hl (levelsAux_ne_nil_sy k rest)
          | cons y ys =>
            simp only [unlevels, String.toList_ofList]
            rw [← hl, ih rest hlen, ← hcs]

theorem levels_injective {t k : String} (h : levels t = levels k) : t = k := by
  apply String.toList_injective
  have e1 := unlevels_levelsAux (t.length + 1) t.toList (by simp [String.length_toList])
  have e2 := unlevels_levelsAux (k.length + 1) k.toList (by simp [String.length_toList])
  simp only [levels] at h
  rw [← e1, ← e2, h]

theorem mqttMatch_wf (f t : List Level) (hf : f.all (fun l => l != "+" && l != "#") = true) :
    mqttMatch f t = decide (f = t) := by
  induction f generalizing t with
  | nil => cases t <;> simp [mqttMatch]
  | cons a r ih =>
    simp only [List.all_cons, Bool.and_eq_true, bne_iff_ne, ne_eq] at hf
    cases t with
    | nil => simp [mqttMatch, hf.1.2]
    | cons b ts =>
      simp only [mqttMatch, beq_iff_eq, hf.1.2, if_false]
      rw [ih ts hf.2]
      have : (a == "+") = false := by simp [hf.1.1]
      rw [this]
      by_cases hab : a = b <;> simp [hab]

theorem match_topic_eq (t k : String) (ht : wfTopic (levels t) = true) :
    mqttMatch (levels t) (levels k) = decide (t = k) := by
  simp only [wfTopic, Bool.and_eq_true] at ht
  rw [mqttMatch_wf _ _ ht.1]
  by_cases h : t = k
  · simp [h]
  · have : levels t ≠ levels k := fun e => h (levels_injective e)
    simp [h, this]

/-! ### retained messages -/

theorem retEntry_topicsAssign_sy (t t' : String) (r : Retained) (m : List (String × Retained)) :
    retEntry (topicsAssign t r m) t' = if t = t' then some r else retEntry m t' := by
  induction m with
  | nil =>
    by_cases h : t = t' <;> simp [topicsAssign, retEntry, h]
  | cons kr rest ih =>
    obtain ⟨k, r'⟩ := kr
    simp only [topicsAssign]
    simp only [retEntry] at ih
    split
    · rename_i hk; subst hk
      by_cases h : k = t' <;> simp [retEntry, h]
    · rename_i hk
      by_cases h : k = t'
      · have : ¬ t = t' := fun e => hk (h.trans e.symm)
        simp [retEntry, h, this]
      · simp [retEntry, h, ih]

theorem topicsAssign_keys_sy (q : String) (v : Retained) (m : List (String × Retained)) :
    (topicsAssign q v m).map (·.1) = if q ∈ m.map (·.1) then m.map (·.1) else m.map (·.1) ++ [q] := by
  induction m with
  | nil => simp [topicsAssign]
  | cons kl rest ih =>
    obtain ⟨k, l⟩ := kl
    simp only [topicsAssign]
    split
    · rename_i hk; simp [hk]
    · rename_i hk
      have hk' : ¬ q = k := fun h => hk h.symm
      simp only [List.map_cons, ih, List.mem_cons, hk', false_or]
      split <;> simp

theorem topicsAssign_nodup_sy (q : String) (v : Retained) (m : List (String × Retained))
    (h : (m.map (·.1)).Nodup) : ((topicsAssign q v m).map (·.1)).Nodup := by
  rw [topicsAssign_keys_sy]
  split
  · exact h
  · exact nodup_append_singleton h (by assumption)

theorem topicsAssign_mem {q : String} {v : Retained} {m : List (String × Retained)} {kl : String × Retained}
    (h : kl ∈ topicsAssign q v m) : kl = (q, v) ∨ kl ∈ m := by
  induction m with
  | nil => simp [topicsAssign] at h; simp [h]
  | cons y rest ih =>
    obtain ⟨k, l⟩ := y
    simp only [topicsAssign] at h
    split at h <;> grind

theorem retEntry_mem {m : List (String × Retained)} {t : String} {r : Retained}
    (h : retEntry m t = some r) : (t, r) ∈ m := by
  simp only [retEntry, Option.map_eq_some_iff] at h
  obtain ⟨kr, hf, he⟩ := h
  have h1 := List.find?_some hf
  have h2 := List.mem_of_find?_eq_some hf
  simp only [beq_iff_eq] at h1
  obtain ⟨k, r'⟩ := kr
  simp only at h1 he
  subst h1 he
  exact h2

theorem retEntry_none {m : List (String × Retained)} {t : String} :
    retEntry m t = none ↔ t ∉ m.map (·.1) := by
  simp only [retEntry, Option.map_eq_none_iff, List.find?_eq_none, beq_iff_eq, List.mem_map, not_exists,
    not_and]

theorem topicsGetAll_eq (m : List (String × Retained)) (t : String)
    (hk : (m.map (·.1)).Nodup) (ht : wfTopic (levels t) = true) :
    topicsGetAll m t = (retEntry m t).toList := by
  induction m with
  | nil => simp [topicsGetAll, retEntry]
  | cons kr rest ih =>
    obtain ⟨k, r⟩ := kr
    simp only [List.map_cons, List.nodup_cons] at hk
    have ih' := ih hk.2
    by_cases h : t = k
    · subst h
      have hnone : retEntry rest t = none := retEntry_none.mpr hk.1
      rw [hnone] at ih'
      simp only [topicsGetAll] at ih' ⊢
      simp only [List.filter_cons, match_topic_eq t t ht, decide_true, if_true, List.map_cons]
      simp [retEntry]
      simpa using ih'
    · have h' : ¬ k = t := fun e => h e.symm
      simp only [topicsGetAll] at ih' ⊢
      simp only [List.filter_cons, match_topic_eq t k ht, h, decide_false, Bool.false_eq_true, if_false, ih']
      simp [retEntry, h']

theorem mergeRetained_cons_valid (r : Retained) (rest : List Retained) (m : List (String × Retained))
    (hk : (m.map (·.1)).Nodup) (hr : validRetained r) :
    mergeRetained (r :: rest) m = mergeRetained rest
      (match retEntry m r.topic with
        | none => topicsAssign r.topic r m
        | some l => if l.ts < r.ts then topicsAssign r.topic r m else m) := by
  obtain ⟨h1, h2, h3, h4⟩ := hr
  have h4' : (isAdded r.stamp || isRemoved r.stamp) = true := by
    rcases h4 with h | h <;> simp [h]
  simp only [mergeRetained, h1, h2, Bool.not_true, Bool.false_eq_true, or_self, if_false,
    topicsGetAll_eq m r.topic hk h3, h4', Bool.and_true]
  cases hl : retEntry m r.topic with
  | none => simp
  | some l =>
    by_cases hlt : l.ts < r.ts
    · have hlt' := hlt
      simp only [Retained.ts] at hlt'
      simp [isOutdated_eq_sy, hlt, hlt']
    · have hlt' := hlt
      simp only [Retained.ts] at hlt'
      simp [isOutdated_eq_sy, hlt, hlt']

/-- the state `mergeRetained` continues with after a valid entry -/
def retStep_sy (r : Retained) (m : List (String × Retained)) : List (String × Retained) :=
  match retEntry m r.topic with
  | none => topicsAssign r.topic r m
  | some l => if l.ts < r.ts then topicsAssign r.topic r m else m

theorem retStep_cases (r : Retained) (m : List (String × Retained)) :
    retStep_sy r m = topicsAssign r.topic r m ∨ retStep_sy r m = m := by
  simp only [retStep_sy]
  split
  · simp
  · split <;> simp

theorem retStep_nodup_sy (r : Retained) (m : List (String × Retained)) (hk : (m.map (·.1)).Nodup) :
    ((retStep_sy r m).map (·.1)).Nodup := by
  rcases retStep_cases r m with h | h <;> rw [h]
  · exact topicsAssign_nodup_sy _ _ _ hk
  · exact hk

theorem retEntry_retStep_sy (r : Retained) (m : List (String × Retained)) (t : String) :
    retEntry (retStep_sy r m) t = if r.topic = t then pick Retained.ts (some r) (retEntry m t) else retEntry m t := by
  simp only [retStep_sy]
  by_cases h : r.topic = t
  · subst h
    cases hl : retEntry m r.topic with
    | none => simp [retEntry_topicsAssign_sy, pick]
    | some l =>
      simp only [pick, if_true]
      split <;> simp [retEntry_topicsAssign_sy, hl]
  · simp only [h, if_false]
    split
    · simp [retEntry_topicsAssign_sy, h]
    · split <;> simp [retEntry_topicsAssign_sy, h]

theorem retEntry_mergeRetained_sy (l : List Retained) (m : List (String × Retained))
    (hk : (m.map (·.1)).Nodup) (hv : ∀ r ∈ l, validRetained r) (hd : (l.map (·.topic)).Nodup) (t : String) :
    retEntry (mergeRetained l m) t = pick Retained.ts (l.find? (fun r => r.topic == t)) (retEntry m t) := by
  induction l generalizing m with
  | nil => simp [mergeRetained, pick]
  | cons r rest ih =>
    simp only [List.map_cons, List.nodup_cons] at hd
    rw [mergeRetained_cons_valid r rest m hk (hv r (by simp))]
    change retEntry (mergeRetained rest (retStep_sy r m)) t = _
    rw [ih _ (retStep_nodup_sy r m hk) (fun w hw => hv w (by simp [hw])) hd.2, retEntry_retStep_sy]
    by_cases h : r.topic = t
    · subst h
      have hnone : rest.find? (fun x => x.topic == r.topic) = none := by
        rw [List.find?_eq_none]
        intro x hx
        simp only [beq_iff_eq]
        intro e
        apply hd.1
        rw [← e]
        exact List.mem_map_of_mem hx
      simp [hnone, pick]
    · simp [h]

theorem mergeRetained_nodup_sy (l : List Retained) (m : List (String × Retained))
    (hk : (m.map (·.1)).Nodup) (hv : ∀ r ∈ l, validRetained r) :
    ((mergeRetained l m).map (·.1)).Nodup := by
  induction l generalizing m with
  | nil => simpa [mergeRetained]
  | cons r rest ih =>
    rw [mergeRetained_cons_valid r rest m hk (hv r (by simp))]
    exact ih _ (retStep_nodup_sy r m hk) (fun w hw => hv w (by simp [hw]))

theorem mergeRetained_forall (Q : String → Retained → Prop) (l : List Retained) (m : List (String × Retained))
    (hk : (m.map (·.1)).Nodup) (hv : ∀ r ∈ l, validRetained r)
    (hm : ∀ kr ∈ m, Q kr.1 kr.2) (hl : ∀ r ∈ l, Q r.topic r) :
    ∀ kr ∈ mergeRetained l m, Q kr.1 kr.2 := by
  induction l generalizing m with
  | nil => exact hm
  | cons r rest ih =>
    rw [mergeRetained_cons_valid r rest m hk (hv r (by simp))]
    apply ih _ (retStep_nodup_sy r m hk) (fun w hw => hv w (by simp [hw])) _ (fun w hw => hl w (by simp [hw]))
    intro kr hkr
    change kr ∈ retStep_sy r m at hkr
    rcases retStep_cases r m with h | h <;> rw [h] at hkr
    · rcases topicsAssign_mem hkr with e | hmem
      · subst e; exact hl r (by simp)
      · exact hm kr hmem
    · exact hm kr hkr

theorem subsSet_inv (s : Sub) (m : List (String × List Sub)) (h : SubsInv m) (hs : validSub s) :
    SubsInv (subsSet s m) := by
  refine ⟨subsSet_keys_nodup s m h.1, fun kl hkl => ⟨?_, ?_⟩⟩
  · exact subsSet_inner_nodup s m (fun kl hkl => (h.2 kl hkl).1) kl hkl
  · exact subsSet_forall (fun k x => x.pattern = k ∧ validSub x) s m (fun kl hkl => (h.2 kl hkl).2)
      ⟨rfl, hs⟩ kl hkl

theorem mergeSubs_inv (l : List Sub) (m : List (String × List Sub)) (h : SubsInv m)
    (hv : ∀ s ∈ l, validSub s) : SubsInv (mergeSubs l m) := by
  induction l generalizing m with
  | nil => exact h
  | cons x rest ih =>
    have hx := hv x (by simp)
    simp only [mergeSubs, hx.1, hx.2, or_self, if_false]
    exact ih _ (subsSet_inv x m h hx) (fun w hw => hv w (by simp [hw]))

theorem ret_snapshot_find (m : List (String × Retained)) (hm : ∀ kr ∈ m, kr.1 = kr.2.topic) (t : String) :
    (m.map (·.2)).find? (fun r => r.topic == t) = retEntry m t := by
  rw [List.find?_map, retEntry]
  congr 1
  apply find_congr'
  intro x hx
  simp [hm x hx]

theorem ret_snapshot_nodup (m : List (String × Retained)) (hm : ∀ kr ∈ m, kr.1 = kr.2.topic)
    (hk : (m.map (·.1)).Nodup) : ((m.map (·.2)).map (·.topic)).Nodup := by
  have : (m.map (·.2)).map (·.topic) = m.map (·.1) := by
    rw [List.map_map]
    apply List.map_congr_left
    intro x hx
    simp [hm x hx]
  rw [this]; exact hk

theorem subs_flat_valid (m : List (String × List Sub)) (h : SubsInv m) :
    ∀ x ∈ m.flatMap (·.2), validSub x := by
  intro x hx
  simp only [List.mem_flatMap] at hx
  obtain ⟨kl, hkl, hx'⟩ := hx
  exact ((h.2 kl hkl).2 x hx').2

theorem ret_snapshot_valid (m : List (String × Retained)) (hm : ∀ kr ∈ m, kr.1 = kr.2.topic ∧ validRetained kr.2) :
    ∀ r ∈ m.map (·.2), validRetained r := by
  intro r hr
  simp only [List.mem_map] at hr
  obtain ⟨kr, hkr, e⟩ := hr
  subst e
  exact (hm kr hkr).2

/-! ### C09: per-store invariants of the origin (`last` = last clock value used) -/

def SessOk (last : Int) (l : List SessionMD) : Prop :=
  (l.map (·.id)).Nodup ∧ ∀ s ∈ l, s.id ≠ "" ∧ s.added ≤ last ∧ s.deleted ≤ last

def SubsOk (last : Int) (m : List (String × List Sub)) : Prop :=
  ∀ kl ∈ m, ∀ s ∈ kl.2, s.session ≠ "" ∧ s.pattern ≠ "" ∧ s.added ≤ last ∧ s.deleted ≤ last

def TopsOk (last : Int) (m : List (String × Retained)) : Prop :=
  (m.map (·.1)).Nodup ∧ ∀ kr ∈ m, kr.2.added ≤ last ∧ kr.2.deleted ≤ last

theorem SessOk.mono {last now : Int} {l : List SessionMD} (h : SessOk last l) (hle : last ≤ now) :
    SessOk now l :=
  ⟨h.1, fun s hs => ⟨(h.2 s hs).1, by have := (h.2 s hs).2; omega⟩⟩

theorem SubsOk.mono {last now : Int} {m : List (String × List Sub)} (h : SubsOk last m) (hle : last ≤ now) :
    SubsOk now m :=
  fun kl hkl s hs => by have := h kl hkl s hs; exact ⟨this.1, this.2.1, by omega, by omega⟩

theorem TopsOk.mono {last now : Int} {m : List (String × Retained)} (h : TopsOk last m) (hle : last ≤ now) :
    TopsOk now m :=
  ⟨h.1, fun kr hkr => by have := h.2 kr hkr; omega⟩

theorem lastUpdate_le {a d last : Int} (ha : a ≤ last) (hd : d ≤ last) : lastUpdate ⟨a, d⟩ ≤ last := by
  rw [lastUpdate_mk_sy]; split <;> omega

theorem foldl_sessSet_ok (now : Int) (vs l : List SessionMD) (h : SessOk now l)
    (hv : ∀ v ∈ vs, v.id ≠ "" ∧ v.added ≤ now ∧ v.deleted ≤ now) :
    SessOk now (vs.foldl (fun acc s => sessSet s acc) l) := by
  induction vs generalizing l with
  | nil => exact h
  | cons v rest ih =>
    simp only [List.foldl_cons]
    apply ih _ _ (fun w hw => hv w (by simp [hw]))
    refine ⟨sessSet_nodup_sy _ _ h.1, fun s hs => ?_⟩
    rcases sessSet_mem hs with e | hm
    · subst e; exact hv s (by simp)
    · exact h.2 s hm

/-- sessions: a batch of distinct updates all stamped `now` reaches the receiver completely -/
theorem sess_batch (last now : Int) (vs l : List SessionMD) (h : SessOk last l) (hlt : last < now)
    (hd : (vs.map (·.id)).Nodup)
    (hv : ∀ v ∈ vs, v.id ≠ "" ∧ v.added ≤ now ∧ v.deleted ≤ now ∧ lastUpdate v.stamp = now) :
    mergeSessions vs l = vs.foldl (fun acc s => sessSet s acc) l ∧
      SessOk now (vs.foldl (fun acc s => sessSet s acc) l) := by
  constructor
  · apply mergeSessions_eq_foldl _ _ (fun v hv' => (hv v hv').1) hd
    intro v hv' loc hl
    have hmem := sessLookup_mem hl
    have := h.2 loc hmem
    have hle : lastUpdate loc.stamp ≤ last := lastUpdate_le this.2.1 this.2.2
    rw [(hv v hv').2.2.2]
    omega
  · exact foldl_sessSet_ok now vs l (h.mono (by omega))
      (fun v hv' => ⟨(hv v hv').1, (hv v hv').2.1, (hv v hv').2.2.1⟩)

/-- subscriptions: a batch of valid updates reaches the receiver completely -/
theorem subs_batch (now : Int) (vs : List Sub) (m : List (String × List Sub)) (h : SubsOk now m)
    (hv : ∀ v ∈ vs, v.session ≠ "" ∧ v.pattern ≠ "" ∧ v.added ≤ now ∧ v.deleted ≤ now) :
    mergeSubs vs m = vs.foldl (fun acc s => subsSet s acc) m ∧
      SubsOk now (vs.foldl (fun acc s => subsSet s acc) m) := by
  constructor
  · exact mergeSubs_eq_foldl vs m (fun v hv' => ⟨(hv v hv').1, (hv v hv').2.1⟩)
  · exact foldl_subsSet_forall (fun _ s => s.session ≠ "" ∧ s.pattern ≠ "" ∧ s.added ≤ now ∧ s.deleted ≤ now)
      vs m h hv

/-- retained: one valid update stamped `now` reaches the receiver -/
theorem tops_one (last now : Int) (r : Retained) (m : List (String × Retained)) (h : TopsOk last m)
    (hlt : last < now) (hr : validRetained r)
    (hs : r.added ≤ now ∧ r.deleted ≤ now ∧ lastUpdate r.stamp = now) :
    mergeRetained [r] m = topicsAssign r.topic r m ∧ TopsOk now (topicsAssign r.topic r m) := by
  constructor
  · rw [mergeRetained_cons_valid r [] m h.1 hr]
    simp only [mergeRetained]
    split
    · rfl
    · rename_i l hl
      have hmem := retEntry_mem hl
      have := h.2 _ hmem
      have hle : l.ts ≤ last := lastUpdate_le this.1 this.2
      have : l.ts < r.ts := by simp only [Retained.ts] at hle ⊢; rw [hs.2.2]; omega
      simp [this]
  · refine ⟨topicsAssign_nodup_sy _ _ _ h.1, fun kr hkr => ?_⟩
    rcases topicsAssign_mem hkr with e | hm
    · subst e; exact ⟨hs.1, hs.2.1⟩
    · have := h.2 kr hm; omega

/-- origin `a` and receiver `b` hold the same stores; `a`'s stores are well formed and carry no
    stamp beyond `last` -/
def SyncInv (last : Int) (a b : State) : Prop :=
  b.sessions = a.sessions ∧ b.subs = a.subs ∧ b.topics = a.topics ∧
    SessOk last a.sessions ∧ SubsOk last a.subs ∧ TopsOk last a.topics

/-- the receiver after the (possibly absent) broadcast -/
def recv (b : State) : Option Event → State
  | some ev => merge b ev
  | none => b

theorem SyncInv.mono {last now : Int} {a b : State} (h : SyncInv last a b) (hle : last ≤ now) :
    SyncInv now a b :=
  ⟨h.1, h.2.1, h.2.2.1, h.2.2.2.1.mono hle, h.2.2.2.2.1.mono hle, h.2.2.2.2.2.mono hle⟩

theorem SyncInv.init (pa pb : Nat) : SyncInv 0 { peer := pa } { peer := pb } := by
  refine ⟨rfl, rfl, rfl, ⟨by simp, by simp⟩, ?_, ⟨by simp, by simp⟩⟩
  intro kl hkl; simp at hkl

theorem sync_sess {last now : Int} {a b : State} (h : SyncInv last a b) (hlt : last < now)
    (vs : List SessionMD) (hd : (vs.map (·.id)).Nodup)
    (hv : ∀ v ∈ vs, v.id ≠ "" ∧ v.added ≤ now ∧ v.deleted ≤ now ∧ lastUpdate v.stamp = now) :
    SyncInv now { a with sessions := vs.foldl (fun acc s => sessSet s acc) a.sessions }
      (merge b { sessions := vs }) := by
  obtain ⟨h1, h2, h3, h4, h5, h6⟩ := h
  have := sess_batch last now vs a.sessions h4 hlt hd hv
  refine ⟨?_, ?_, ?_, this.2, h5.mono (by omega), h6.mono (by omega)⟩
  · show mergeSessions vs b.sessions = _
    rw [h1]; exact this.1
  · exact h2
  · exact h3

theorem sync_subs {last now : Int} {a b : State} (h : SyncInv last a b) (hlt : last < now)
    (vs : List Sub)
    (hv : ∀ v ∈ vs, v.session ≠ "" ∧ v.pattern ≠ "" ∧ v.added ≤ now ∧ v.deleted ≤ now) :
    SyncInv now { a with subs := vs.foldl (fun acc s => subsSet s acc) a.subs }
      (merge b { subs := vs }) := by
  obtain ⟨h1, h2, h3, h4, h5, h6⟩ := h
  have := subs_batch now vs a.subs (h5.mono (by omega)) hv
  refine ⟨h1, ?_, h3, h4.mono (by omega), this.2, h6.mono (by omega)⟩
  show mergeSubs vs b.subs = _
  rw [h2]; exact this.1

theorem sync_tops {last now : Int} {a b : State} (h : SyncInv last a b) (hlt : last < now)
    (r : Retained) (hr : validRetained r)
    (hs : r.added ≤ now ∧ r.deleted ≤ now ∧ lastUpdate r.stamp = now) :
    SyncInv now { a with topics := topicsAssign r.topic r a.topics } (merge b { retained := [r] }) := by
  obtain ⟨h1, h2, h3, h4, h5, h6⟩ := h
  have := tops_one last now r a.topics h6 hlt hr hs
  refine ⟨h1, h2, ?_, h4.mono (by omega), h5.mono (by omega), this.2⟩
  show mergeRetained [r] b.topics = _
  rw [h3]; exact this.1

/-! #### the nine local operations -/

theorem sync_sessCreate {last now : Int} {a b : State} (h : SyncInv last a b) (h0 : 0 ≤ last)
    (hlt : last < now) (id c : String) (ca : Int) (lwt : Option Will) (mp : String) (hid : id ≠ "") :
    SyncInv now (sessCreate a now id c ca lwt mp).1 (recv b (sessCreate a now id c ca lwt mp).2.1) := by
  have key : SyncInv now { a with sessions := sessSet ⟨id, c, mp, a.peer, ca, lwt, now, 0⟩ a.sessions }
      (merge b { sessions := [⟨id, c, mp, a.peer, ca, lwt, now, 0⟩] }) := by
    apply sync_sess h hlt [⟨id, c, mp, a.peer, ca, lwt, now, 0⟩] (by simp)
    intro v hv
    simp only [List.mem_singleton] at hv
    subst hv
    refine ⟨hid, Int.le_refl _, by simp only; omega, ?_⟩
    simp only [SessionMD.stamp, lastUpdate_mk_sy]
    split <;> omega
  unfold sessCreate
  split
  · split
    · exact h.mono (by omega)
    · exact key
  · exact key

theorem sync_sessDelete {last now : Int} {a b : State} (h : SyncInv last a b)
    (hlt : last < now) (id : String) :
    SyncInv now (sessDelete a now id).1 (recv b (sessDelete a now id).2) := by
  unfold sessDelete
  split
  · exact h.mono (by omega)
  · rename_i s hs
    split
    · exact h.mono (by omega)
    · have hm := h.2.2.2.1.2 s (sessLookup_mem hs)
      apply sync_sess h hlt [{ s with deleted := now }] (by simp)
      intro v hv
      simp only [List.mem_singleton] at hv
      subst hv
      refine ⟨hm.1, by simp only; omega, Int.le_refl _, ?_⟩
      simp only [SessionMD.stamp, lastUpdate_mk_sy]
      split <;> omega

theorem sync_sessDeletePeer {last now : Int} {a b : State} (h : SyncInv last a b)
    (hlt : last < now) (p : Nat) :
    SyncInv now (sessDeletePeer a now p).1 (recv b (some (sessDeletePeer a now p).2)) := by
  unfold sessDeletePeer
  apply sync_sess h hlt
  · rw [List.map_map]
    have : ((fun s : SessionMD => s.id) ∘ fun s : SessionMD => { s with deleted := now }) = (·.id) := rfl
    rw [this]
    exact (List.filter_sublist.map _).nodup h.2.2.2.1.1
  · intro v hv
    simp only [List.mem_map, sessByPeer, sessFilter, List.mem_filter] at hv
    obtain ⟨s, ⟨hs, _⟩, e⟩ := hv
    subst e
    have hm := h.2.2.2.1.2 s hs
    refine ⟨hm.1, by simp only; omega, Int.le_refl _, ?_⟩
    simp only [SessionMD.stamp, lastUpdate_mk_sy]
    split <;> omega


theorem sync_subCreate {last now : Int} {a b : State} (h : SyncInv last a b) (h0 : 0 ≤ last)
    (hlt : last < now) (s p : String) (q : Int) (hv : s ≠ "" ∧ p ≠ "") :
    SyncInv now (subCreate a now s p q).1 (recv b (some (subCreate a now s p q).2)) := by
  unfold subCreate
  apply sync_subs h hlt [⟨s, p, a.peer, q, now, 0⟩]
  intro v hv'
  simp only [List.mem_singleton] at hv'
  subst hv'
  exact ⟨hv.1, hv.2, Int.le_refl _, by simp only; omega⟩

theorem sync_subDelete {last now : Int} {a b : State} (h : SyncInv last a b) (h0 : 0 ≤ last)
    (hlt : last < now) (s p : String) (hv : s ≠ "" ∧ p ≠ "") :
    SyncInv now (subDelete a now s p).1 (recv b (some (subDelete a now s p).2)) := by
  unfold subDelete
  apply sync_subs h hlt [⟨s, p, a.peer, 0, 0, now⟩]
  intro v hv'
  simp only [List.mem_singleton] at hv'
  subst hv'
  exact ⟨hv.1, hv.2, by simp only; omega, Int.le_refl _⟩

theorem sync_subBulkDelete {last now : Int} {a b : State} (h : SyncInv last a b)
    (hlt : last < now) (f : Sub → Bool) :
    SyncInv now (subBulkDelete a now f).1 (recv b (some (subBulkDelete a now f).2)) := by
  unfold subBulkDelete
  apply sync_subs h hlt
  intro v hv
  simp only [List.mem_map, subFilter, List.mem_flatMap, List.mem_filter] at hv
  obtain ⟨x, ⟨kl, hkl, hx, _⟩, e⟩ := hv
  subst e
  have := h.2.2.2.2.1 kl hkl x hx
  exact ⟨this.1, this.2.1, by simp only; omega, Int.le_refl _⟩

theorem sync_topicSet {last now : Int} {a b : State} (h : SyncInv last a b) (h0 : 0 ≤ last)
    (hlt : last < now) (t pl : String) (q : Nat) (rt d : Bool) (hv : t ≠ "" ∧ wfTopic (levels t) = true) :
    SyncInv now (topicSet a now t pl q rt d).1 (recv b (some (topicSet a now t pl q rt d).2)) := by
  unfold topicSet
  apply sync_tops h hlt { topic := t, payload := pl, qos := q, retain := rt, dup := d, added := now, deleted := 0 }
  · refine ⟨rfl, hv.1, hv.2, Or.inl ?_⟩
    simp only [Retained.stamp, isAdded_mk]
    simp; omega
  · refine ⟨Int.le_refl _, by simp only; omega, ?_⟩
    simp only [Retained.stamp, lastUpdate_mk_sy]
    split <;> omega

theorem sync_topicDelete {last now : Int} {a b : State} (h : SyncInv last a b) (h0 : 0 ≤ last)
    (hlt : last < now) (t : String) (hv : t ≠ "" ∧ wfTopic (levels t) = true) :
    SyncInv now (topicDelete a now t).1 (recv b (some (topicDelete a now t).2)) := by
  unfold topicDelete
  apply sync_tops h hlt { topic := t, payload := "", qos := 0, retain := false, dup := false, added := 0, deleted := now }
  · refine ⟨rfl, hv.1, hv.2, Or.inr ?_⟩
    simp only [Retained.stamp, isRemoved_mk]
    simp; omega
  · refine ⟨by simp only; omega, Int.le_refl _, ?_⟩
    simp only [Retained.stamp, lastUpdate_mk_sy]
    split <;> omega

end Wasp.Dist

import Wasp.Model.BrokerOps
import Wasp.Proofs.BrokerT12
import Wasp.Properties.C12
/-! helper lemmas for Wasp/Properties/C05C12E2E.lean (agent T13) -/
namespace Wasp.Broker.AgentT13
open Wasp.Broker Wasp.Dist Wasp.Topic

/-! ### the inbound QoS 2 handshake: the PUBLISH -/

/-- the in-flight entry of an inbound QoS 2 handshake opened in world `w` -/
def msgIn (w : World) (mid : Int) : Ack.Msg := ⟨.pubrel, .pubrec, mid, ackDeadline w⟩

theorem process_publish2 (w : World) (i : Nat) (sid : String) (s : Sess) (hs : (w.node i).sess sid = some s)
    (topic payload : String) (retain dup : Bool) (mid : Int) (hmid : mid ≠ 0)
    (hfree : Ack.msgFind (Ack.hashKey (sid ++ "/in") mid) (w.node i).acks.msgs = none) :
    (w.process i sid (.publish topic payload 2 retain dup mid)).1 =
      (w.setNode i { w.node i with
        acks := { msgs := (w.node i).acks.msgs ++ [(Ack.hashKey (sid ++ "/in") mid, msgIn w mid)],
                  timeouts := Ack.pqInsert (Ack.hashKey (sid ++ "/in") mid) (ackDeadline w) (w.node i).acks.timeouts },
        stored := (w.node i).stored ++ [(Ack.hashKey (sid ++ "/in") mid,
          .inbound sid s.conn ⟨prefixMountPoint s.mount topic, payload, 2, retain, dup⟩ mid)] }).emit s.conn (.pubrec mid) := by
  have hins := AgentC.insert_ok (w.node i).acks (sid ++ "/in") .pubrec 0 mid (ackDeadline w) .pubrel hmid hfree rfl
  simp only [World.process, hs, hins]
  simp [msgIn]

section invariants
open Wasp.Broker.AgentD

/-! ### two more invariants of reachable worlds, as a relation between a world and its successor -/

/-- the session records of a node, relative to a clock value: ids are unique, every record (stored, or queued
    for broadcast) was added before `c` -/
structure NodeSC (c : Int) (n : Node) : Prop where
  nodup : (n.dist.sessions.map (·.id)).Nodup
  old : ∀ s ∈ n.dist.sessions, s.added < c
  pend : ∀ e ∈ n.pending, ∀ s ∈ e.2.sessions, s.added < c

/-- every stored callback is filed under a key that is in flight — or exempted (`E`) -/
def NodeSL (E : List Ack.Key) (n : Node) : Prop :=
  ∀ e ∈ n.stored, e.1 ∈ n.acks.msgs.map (·.1) ∨ e.1 ∈ E

theorem NodeSC.mono {c c' : Int} {n : Node} (h : NodeSC c n) (hc : c ≤ c') : NodeSC c' n :=
  ⟨h.nodup, fun s hs => by have := h.old s hs; omega, fun e he s hs => by have := h.pend e he s hs; omega⟩

theorem NodeSC.congr {c : Int} {n n' : Node} (h : NodeSC c n) (hd : n'.dist.sessions = n.dist.sessions)
    (hp : n'.pending = n.pending) : NodeSC c n' :=
  ⟨by rw [hd]; exact h.nodup, by rw [hd]; exact h.old, by rw [hp]; exact h.pend⟩

theorem NodeSL.congr {E : List Ack.Key} {n n' : Node} (h : NodeSL E n) (ha : n'.acks = n.acks)
    (hs : n'.stored = n.stored) : NodeSL E n' := by
  unfold NodeSL; rw [ha, hs]; exact h

theorem NodeSL.mono {E E' : List Ack.Key} {n : Node} (h : NodeSL E n) (hE : ∀ k ∈ E, k ∈ E') : NodeSL E' n :=
  fun e he => (h e he).imp id (hE _)

/-- a new exchange is armed -/
theorem NodeSL.arm {E : List Ack.Key} {n : Node} (h : NodeSL E n) (k : Ack.Key) (m : Ack.Msg) (st : Stored)
    (t : Ack.PQ) :
    NodeSL E { n with acks := { msgs := n.acks.msgs ++ [(k, m)], timeouts := t }, stored := n.stored ++ [(k, st)] } := by
  intro e he
  simp only [List.mem_append, List.mem_singleton] at he
  simp only [List.map_append, List.mem_append, List.map_cons, List.map_nil, List.mem_singleton]
  rcases he with he | rfl
  · rcases h e he with h1 | h1
    · exact Or.inl (Or.inl h1)
    · exact Or.inr h1
  · exact Or.inl (Or.inr rfl)

theorem mem_keys_msgErase {k k' : Ack.Key} {l : List (Ack.Key × Ack.Msg)} (hne : k' ≠ k)
    (h : k' ∈ l.map (·.1)) : k' ∈ (Ack.msgErase k l).map (·.1) := by
  induction l with
  | nil => simp at h
  | cons x rest ih =>
    obtain ⟨k'', m⟩ := x
    simp only [List.map_cons, List.mem_cons] at h
    simp only [Ack.msgErase]
    split
    · rename_i e
      rcases h with h | h
      · exact absurd (h.trans e) hne
      · exact h
    · simp only [List.map_cons, List.mem_cons]
      exact h.imp id ih

/-- an in-flight entry is acknowledged: its key is exempted until its callback is taken out -/
theorem NodeSL.ackErase {E : List Ack.Key} {n : Node} (h : NodeSL E n) (k : Ack.Key) (t : Ack.PQ) :
    NodeSL (k :: E) { n with acks := { msgs := Ack.msgErase k n.acks.msgs, timeouts := t } } := by
  intro e he
  by_cases hk : e.1 = k
  · exact Or.inr (by simp [hk])
  · rcases h e he with h1 | h1
    · exact Or.inl (mem_keys_msgErase hk h1)
    · exact Or.inr (List.mem_cons_of_mem _ h1)

theorem expireKeys_keys (ks : List Ack.Key) (msgs : List (Ack.Key × Ack.Msg)) (k' : Ack.Key)
    (h : k' ∈ msgs.map (·.1)) :
    k' ∈ (Ack.expireKeys ks msgs).1.map (·.1) ∨ k' ∈ (Ack.expireKeys ks msgs).2.map (·.key) := by
  induction ks generalizing msgs with
  | nil => exact Or.inl (by simpa [Ack.expireKeys] using h)
  | cons k ks ih =>
    rw [Ack.expireKeys_cons]
    split
    · exact ih msgs h
    · simp only [List.map_cons, List.mem_cons]
      by_cases hk : k' = k
      · exact Or.inr (Or.inl hk)
      · rcases ih (Ack.msgErase k msgs) (mem_keys_msgErase hk h) with h1 | h1
        · exact Or.inl h1
        · exact Or.inr (Or.inr h1)

/-- a sweep of the in-flight table: the keys of the events are exempted -/
theorem NodeSL.expire {E : List Ack.Key} {n : Node} (h : NodeSL E n) (now : Ack.Time) :
    NodeSL ((Ack.expire n.acks now).2.map (·.key) ++ E) { n with acks := (Ack.expire n.acks now).1 } := by
  intro e he
  rw [Ack.expire_eq]
  simp only [List.mem_append]
  rcases h e he with h1 | h1
  · rcases expireKeys_keys (Ack.pqExpire now n.acks.timeouts).2 n.acks.msgs e.1 h1 with h2 | h2
    · exact Or.inl h2
    · exact Or.inr (Or.inl h2)
  · exact Or.inr (Or.inr h1)

/-- the callback filed under an exempted key is taken out -/
theorem NodeSL.eraseStored {E : List Ack.Key} {n : Node} {k : Ack.Key} (h : NodeSL (k :: E) n) :
    NodeSL E { n with stored := storedErase k n.stored } := by
  intro e he
  obtain ⟨h1, h2⟩ := AgentT3.mem_storedErase.mp he
  rcases h e h1 with h3 | h3
  · exact Or.inl h3
  · rcases List.mem_cons.mp h3 with h4 | h4
    · exact absurd h4 h2
    · exact Or.inr h4

theorem storedFind_none_keys {k : Ack.Key} {l : List (Ack.Key × Stored)} (h : storedFind k l = none) :
    ∀ e ∈ l, e.1 ≠ k := by
  induction l with
  | nil => intro e he; cases he
  | cons x rest ih =>
    obtain ⟨k', s⟩ := x
    simp only [storedFind] at h
    split at h
    · cases h
    · rename_i hk
      intro e he
      rcases List.mem_cons.mp he with rfl | he
      · exact hk
      · exact ih h e he

/-- no callback is filed under an exempted key -/
theorem NodeSL.noStored {E : List Ack.Key} {n : Node} {k : Ack.Key} (h : NodeSL (k :: E) n)
    (hn : storedFind k n.stored = none) : NodeSL E n := by
  intro e he
  rcases h e he with h3 | h3
  · exact Or.inl h3
  · rcases List.mem_cons.mp h3 with h4 | h4
    · exact absurd h4 (storedFind_none_keys hn e he)
    · exact Or.inr h4

/-- `w'` is a successor of `w`: the clock does not go back; session records stay unique per id and older than the
    clock; stored callbacks stay filed under in-flight (or exempted) keys -/
structure Step (w w' : World) : Prop where
  clock : w.clock ≤ w'.clock
  sc : ∀ c, w'.clock ≤ c → (∀ j, NodeSC c (w.node j)) → ∀ j, NodeSC c (w'.node j)
  sl : ∀ j E, NodeSL E (w.node j) → NodeSL E (w'.node j)

theorem Step.refl (w : World) : Step w w := ⟨Int.le_refl _, fun _ _ h => h, fun _ _ h => h⟩

theorem Step.trans {a b c : World} (h1 : Step a b) (h2 : Step b c) : Step a c :=
  ⟨Int.le_trans h1.clock h2.clock,
   fun k hk hall => h2.sc k hk (h1.sc k (Int.le_trans h2.clock hk) hall),
   fun j E h => h2.sl j E (h1.sl j E h)⟩

theorem Step.of_nodes_eq {w w' : World} (h : w'.nodes = w.nodes) (hc : w.clock ≤ w'.clock) : Step w w' :=
  ⟨hc, fun _ _ hall j => by rw [node_congr h]; exact hall j, fun j E hj => by rw [node_congr h]; exact hj⟩

theorem Step.setNode (w : World) (i : Nat) (n' : Node)
    (hsc : ∀ c, w.clock ≤ c → (∀ j, NodeSC c (w.node j)) → NodeSC c n')
    (hsl : ∀ E, NodeSL E (w.node i) → NodeSL E n') : Step w (w.setNode i n') := by
  refine ⟨Int.le_refl _, fun c hc hall j => ?_, fun j E hj => ?_⟩
  · rw [node_setNode]
    split
    · exact hsc c hc hall
    · exact hall j
  · rw [node_setNode]
    split
    · rename_i hji; rw [hji.1] at hj; exact hsl E hj
    · exact hj

/-- session records, pending gossip, in-flight table and stored callbacks of the node are untouched -/
theorem st_setNode_same (w : World) (i : Nat) (n' : Node)
    (hd : n'.dist.sessions = (w.node i).dist.sessions := by rfl) (hp : n'.pending = (w.node i).pending := by rfl)
    (ha : n'.acks = (w.node i).acks := by rfl) (hs : n'.stored = (w.node i).stored := by rfl) :
    Step w (w.setNode i n') :=
  Step.setNode w i n' (fun _ _ hall => (hall i).congr hd hp) (fun _ h => h.congr ha hs)

theorem Step.foldl {α : Type} (f : World → α → World) (l : List α) (w : World)
    (hs : ∀ w a, Step w (f w a)) : Step w (l.foldl f w) :=
  foldl_inv (fun w' => Step w w') f l w (Step.refl w) (fun b a _ hb => hb.trans (hs b a))

theorem Step.foldl' {α : Type} (f : World → α → World) (l : List α) (w b : World) (h0 : Step w b)
    (hs : ∀ w a, Step w (f w a)) : Step w (l.foldl f b) := h0.trans (Step.foldl f l b hs)

macro "st_back " t:term : tactic => `(tactic| refine Step.trans ?_ $t)
macro "st_setnode" : tactic => `(tactic| refine Step.trans ?_ (st_setNode_same _ _ _))

theorem st_emit (w : World) (c : String) (p : Pkt) : Step w (w.emit c p) := Step.of_nodes_eq rfl (Int.le_refl _)

theorem st_tick (w : World) : Step w w.tick.1 := Step.of_nodes_eq rfl (by show w.clock ≤ w.clock + 1; omega)



/-! ### session records: node-level steps -/

/-- ids unique and every record added before `c` -/
def SessOld (c : Int) (l : List SessionMD) : Prop := (l.map (·.id)).Nodup ∧ ∀ s ∈ l, s.added < c

theorem SessOld.set {c : Int} {l : List SessionMD} (h : SessOld c l) (s : SessionMD) (hs : s.added < c) :
    SessOld c (sessSet s l) := by
  refine ⟨sessSet_nodup s l h.1, fun x hx => ?_⟩
  rcases sessSet_mem hx with rfl | hx
  · exact hs
  · exact h.2 x hx

theorem SessOld.foldSet {c : Int} (vs : List SessionMD) : ∀ l : List SessionMD, SessOld c l →
    (∀ v ∈ vs, v.added < c) → SessOld c (vs.foldl (fun acc s => sessSet s acc) l) := by
  induction vs with
  | nil => intro l h _; exact h
  | cons v rest ih =>
    intro l h hv
    exact ih _ (h.set v (hv v (by simp))) (fun x hx => hv x (by simp [hx]))

theorem SessOld.merge {c : Int} {l : List SessionMD} (h : SessOld c l) (vs : List SessionMD)
    (hv : ∀ v ∈ vs, v.added < c) : SessOld c (mergeSessions vs l) := by
  refine ⟨mergeSessions_nodup vs l h.1, fun x hx => ?_⟩
  rcases mergeSessions_mem hx with hx | hx
  · exact hv x hx
  · exact h.2 x hx

theorem sessDelete_sc (st : State) (now : Int) (id : String) (c : Int) (h : SessOld c st.sessions) :
    SessOld c (Wasp.Dist.sessDelete st now id).1.sessions ∧
    ∀ e, (Wasp.Dist.sessDelete st now id).2 = some e → ∀ s ∈ e.sessions, s.added < c := by
  unfold Wasp.Dist.sessDelete
  split
  · exact ⟨h, fun e he => by cases he⟩
  · rename_i s hs
    have hsa : s.added < c := h.2 s (sessLookup_mem hs)
    split
    · exact ⟨h, fun e he => by cases he⟩
    · refine ⟨h.set _ hsa, fun e he x hx => ?_⟩
      simp only [Option.some.injEq] at he
      subst he
      simp only [List.mem_singleton] at hx
      subst hx
      exact hsa

theorem sessCreate_sc (st : State) (now : Int) (id client : String) (ca : Int) (lwt : Option Will) (mount : String)
    (c : Int) (h : SessOld c st.sessions) (hnow : now < c) :
    SessOld c (sessCreate st now id client ca lwt mount).1.sessions ∧
    ∀ e, (sessCreate st now id client ca lwt mount).2.1 = some e → ∀ s ∈ e.sessions, s.added < c := by
  unfold sessCreate
  split
  · split
    · exact ⟨h, fun e he => by cases he⟩
    · refine ⟨h.set _ hnow, fun e he x hx => ?_⟩
      simp only [Option.some.injEq] at he
      subst he
      simp only [List.mem_singleton] at hx
      subst hx
      exact hnow
  · refine ⟨h.set _ hnow, fun e he x hx => ?_⟩
    simp only [Option.some.injEq] at he
    subst he
    simp only [List.mem_singleton] at hx
    subst hx
    exact hnow

theorem sessDeletePeer_sc (st : State) (now : Int) (p : Nat) (c : Int) (h : SessOld c st.sessions) :
    SessOld c (sessDeletePeer st now p).1.sessions ∧ ∀ s ∈ (sessDeletePeer st now p).2.sessions, s.added < c := by
  have hv : ∀ v ∈ (sessByPeer st p).map (fun s => { s with deleted := now }), v.added < c := by
    intro v hv
    obtain ⟨s, hs, rfl⟩ := List.mem_map.mp hv
    exact h.2 s (List.mem_filter.mp hs).1
  exact ⟨SessOld.foldSet _ _ h hv, hv⟩

theorem merge_sc (st : State) (ev : Event) (c : Int) (h : SessOld c st.sessions)
    (he : ∀ s ∈ ev.sessions, s.added < c) : SessOld c (merge st ev).sessions :=
  h.merge ev.sessions he

theorem foldl_merge_sc (c : Int) (evs : List Event) : ∀ st : State, SessOld c st.sessions →
    (∀ ev ∈ evs, ∀ s ∈ ev.sessions, s.added < c) → SessOld c (evs.foldl merge st).sessions := by
  induction evs with
  | nil => intro st h _; exact h
  | cons ev rest ih =>
    intro st h he
    exact ih _ (merge_sc st ev c h (he ev (by simp))) (fun e hx => he e (by simp [hx]))

theorem NodeSC.sessOld {c : Int} {n : Node} (h : NodeSC c n) : SessOld c n.dist.sessions := ⟨h.nodup, h.old⟩

/-! ### worlds: writes of the replicated state -/

/-- the replicated state of node i is written -/
theorem st_setDist (w : World) (i : Nat) (d : State)
    (h : ∀ c, w.clock ≤ c → NodeSC c (w.node i) → SessOld c d.sessions) :
    Step w (w.setNode i { w.node i with dist := d }) :=
  Step.setNode w i _ (fun c hc hall => ⟨(h c hc (hall i)).1, (h c hc (hall i)).2, (hall i).pend⟩) (fun _ hE => hE)

/-- … with session records untouched -/
theorem st_setDist_same (w : World) (i : Nat) (d : State) (hd : d.sessions = (w.node i).dist.sessions) :
    Step w (w.setNode i { w.node i with dist := d }) :=
  st_setNode_same w i _ hd rfl rfl rfl

/-- a broadcast is queued -/
theorem st_broadcast (w : World) (i : Nat) (ev : Event)
    (h : ∀ c, w.clock ≤ c → NodeSC c (w.node i) → ∀ s ∈ ev.sessions, s.added < c) : Step w (w.broadcast i ev) := by
  unfold World.broadcast
  refine Step.setNode w i _ (fun c hc hall => ⟨(hall i).nodup, (hall i).old, ?_⟩) (fun _ hE => hE)
  intro e he
  simp only [List.mem_append, List.mem_map] at he
  rcases he with he | ⟨j, _, rfl⟩
  · exact (hall i).pend e he
  · exact h c hc (hall i)

theorem st_broadcast_nil (w : World) (i : Nat) (ev : Event) (h : ev.sessions = []) : Step w (w.broadcast i ev) :=
  st_broadcast w i ev (fun _ _ _ s hs => by rw [h] at hs; cases hs)

/-- the replicated state of node i is written and the broadcast queued -/
theorem st_distWrite (w : World) (i : Nat) (d : State) (ev : Event)
    (h : ∀ c, w.clock ≤ c → NodeSC c (w.node i) → SessOld c d.sessions ∧ ∀ s ∈ ev.sessions, s.added < c) :
    Step w ((w.setNode i { w.node i with dist := d }).broadcast i ev) := by
  by_cases hi : i < w.nodes.length
  · unfold World.broadcast
    simp only [node_setNode_self w i _ hi]
    refine ⟨Int.le_refl _, fun c hc hall j => ?_, fun j E hj => ?_⟩
    · rw [node_setNode]
      split
      · obtain ⟨h1, h2⟩ := h c hc (hall i)
        refine ⟨h1.1, h1.2, ?_⟩
        intro e he
        simp only [List.mem_append, List.mem_map] at he
        rcases he with he | ⟨j, _, rfl⟩
        · exact (hall i).pend e he
        · exact h2
      · rename_i hji
        rw [node_setNode]
        split
        · rename_i hji'
          exact absurd ⟨hji'.1, by simpa using hji'.2⟩ hji
        · exact hall j
    · rw [node_setNode]
      split
      · rename_i hji; rw [hji.1] at hj; exact hj
      · rw [node_setNode]
        split
        · rename_i hji; rw [hji.1] at hj; exact hj
        · exact hj
  · have e1 : w.setNode i { w.node i with dist := d } = w := AgentC.setNode_ge _ _ _ (by omega)
    rw [e1]
    unfold World.broadcast
    rw [AgentC.setNode_ge _ _ _ (by omega)]
    exact Step.refl w

theorem st_extendDeadline (w : World) (i : Nat) (sid : String) : Step w (w.extendDeadline i sid) := by
  unfold World.extendDeadline
  simp only []
  split
  · exact st_setNode_same w i _
  · exact Step.refl w

theorem st_subCreate (w : World) (i : Nat) (sid pat : String) (qos : Int) : Step w (w.subCreate i sid pat qos) := by
  simp only [World.subCreate]
  st_back (st_broadcast_nil _ _ _ rfl)
  st_back (st_setDist_same _ _ _ rfl)
  exact st_tick w

theorem st_subDelete (w : World) (i : Nat) (sid pat : String) : Step w (w.subDelete i sid pat) := by
  simp only [World.subDelete]
  st_back (st_broadcast_nil _ _ _ rfl)
  st_back (st_setDist_same _ _ _ rfl)
  exact st_tick w

theorem st_sessDelete (w : World) (i : Nat) (sid : String) : Step w (w.sessDelete i sid) := by
  unfold World.sessDelete
  simp only []
  refine (st_tick w).trans ?_
  split
  · rename_i e he
    refine st_distWrite w.tick.1 i _ e ?_
    intro c _ hn
    have := sessDelete_sc (w.tick.1.node i).dist w.tick.2 sid c hn.sessOld
    exact ⟨this.1, this.2 e he⟩
  · refine st_setDist w.tick.1 i _ ?_
    intro c _ hn
    exact (sessDelete_sc (w.tick.1.node i).dist w.tick.2 sid c hn.sessOld).1

theorem st_poolPut (w : World) (i : Nat) (mid : Int) : Step w (w.poolPut i mid) := by
  unfold World.poolPut
  exact st_setNode_same w i _



/-! ### writer -/

/-- a new exchange is armed on node i -/
theorem st_armNode (w : World) (i : Nat) (k : Ack.Key) (m : Ack.Msg) (st : Stored) (t : Ack.PQ) :
    Step w (w.setNode i { w.node i with
      acks := { msgs := (w.node i).acks.msgs ++ [(k, m)], timeouts := t },
      stored := (w.node i).stored ++ [(k, st)] }) :=
  Step.setNode w i _ (fun _ _ hall => (hall i).congr rfl rfl) (fun _ hE => hE.arm k m st t)

theorem st_armAndSend (w : World) (i : Nat) (st : Stored) : Step w (w.armAndSend i st) := by
  unfold World.armAndSend
  cases st with
  | out1 sid topic payload retain dup mid =>
    simp only []
    split
    · exact Step.refl w
    · rcases Ack.insert_cases ((w.extendDeadline i sid).node i).acks sid .publish 1 mid (ackDeadline (w.extendDeadline i sid))
        with ⟨_, h2, _⟩ | ⟨st', _, _, heq⟩
      · rw [if_neg h2]; exact st_extendDeadline w i sid
      · rw [heq]
        simp only [if_true]
        st_back (st_emit _ _ _)
        exact (st_extendDeadline w i sid).trans (st_armNode _ i _ _ _ _)
  | out2 sid topic payload retain dup mid =>
    simp only []
    split
    · exact Step.refl w
    · rcases Ack.insert_cases ((w.extendDeadline i sid).node i).acks sid .publish 2 mid (ackDeadline (w.extendDeadline i sid))
        with ⟨_, h2, _⟩ | ⟨st', _, _, heq⟩
      · rw [if_neg h2]; exact st_extendDeadline w i sid
      · rw [heq]
        simp only [if_true]
        st_back (st_emit _ _ _)
        exact (st_extendDeadline w i sid).trans (st_armNode _ i _ _ _ _)
  | rel sid mid =>
    simp only []
    split
    · exact Step.refl w
    · rcases Ack.insert_cases ((w.extendDeadline i sid).node i).acks sid .pubrel 0 mid (ackDeadline (w.extendDeadline i sid))
        with ⟨_, h2, _⟩ | ⟨st', _, _, heq⟩
      · rw [if_neg h2]
        st_back (st_emit _ _ _)
        exact (st_extendDeadline w i sid).trans (st_setNode_same _ i _)
      · rw [heq]
        simp only [if_true]
        st_back (st_emit _ _ _)
        exact (st_extendDeadline w i sid).trans (st_armNode _ i _ _ _ _)
  | inbound a b c d => exact Step.refl w

theorem st_sendArmed (w : World) (i : Nat) (st : Stored) (sid : String) (mid : Int) :
    Step w (w.sendArmed i st sid mid) := by
  unfold World.sendArmed
  simp only
  split
  · exact (st_armAndSend w i st).trans (st_poolPut _ _ _)
  · exact st_armAndSend w i st

theorem st_send (w : World) (i : Nat) (l : List (String × Int)) (p : Pub) : Step w (w.send i l p) := by
  induction l generalizing w with
  | nil => simp only [World.send]; exact Step.refl w
  | cons x rest ih =>
    obtain ⟨sid, qos⟩ := x
    simp only [World.send]
    split
    · exact ih w
    · split
      · refine Step.trans ?_ (ih _)
        st_back (st_emit _ _ _)
        exact st_extendDeadline w i sid
      · split
        · split
          · exact Step.refl w
          · refine Step.trans ?_ (ih _)
            st_back (st_sendArmed _ _ _ _ _)
            exact st_setNode_same w i _
        · exact ih w

theorem st_onResolved (w : World) (i : Nat) (ev : Ack.Resolved) (st : Stored) : Step w (w.onResolved i ev st) := by
  unfold World.onResolved
  cases st <;> simp only <;> repeat' split
  all_goals first | exact st_armAndSend _ _ _ | exact st_poolPut _ _ _ | exact Step.refl _

theorem st_deliverLocal (w : World) (j : Nat) (p : Pub) : Step w (w.deliverLocal j p) := by
  unfold World.deliverLocal
  exact st_send _ _ _ _

theorem appendLog_core (n : Node) (p : Pub) :
    (n.appendLog p).1.dist = n.dist ∧ (n.appendLog p).1.pending = n.pending ∧
    (n.appendLog p).1.acks = n.acks ∧ (n.appendLog p).1.stored = n.stored := by
  unfold Node.appendLog; simp only; split <;> exact ⟨rfl, rfl, rfl, rfl⟩

theorem st_appendLog (w : World) (j : Nat) (p : Pub) : Step w (w.setNode j ((w.node j).appendLog p).1) := by
  have h := appendLog_core (w.node j) p
  exact st_setNode_same w j _ (by rw [h.1]) h.2.1 h.2.2.1 h.2.2.2

theorem st_distribute (w : World) (i : Nat) (p : Pub) : Step w (w.distribute i p).1 := by
  unfold World.distribute
  simp only
  apply foldl_inv (P := fun (acc : World × Bool) => Step w acc.1)
  · exact Step.refl w
  · intro acc peer _ hacc
    split
    · exact hacc
    · split
      · exact hacc
      · split
        · refine hacc.trans ?_
          st_back (st_deliverLocal _ _ _)
          exact st_appendLog _ _ _
        · exact hacc.trans (st_appendLog _ _ _)

theorem st_retainStep (w : World) (i : Nat) (p : Pub) : Step w (retainStep w i p) := by
  unfold retainStep
  split
  · simp only [World.tick]
    st_back (st_broadcast_nil _ _ _ (by split <;> rfl))
    st_back (st_setDist_same _ _ _ (by split <;> rfl))
    exact Step.of_nodes_eq rfl (by show w.clock ≤ w.clock + 1; omega)
  · exact Step.refl w

theorem st_publishJob (w : World) (i : Nat) (p : Pub) (onOk : World → World) (h : ∀ w, Step w (onOk w)) :
    Step w (w.publishJob i p onOk) := by
  rw [publishJob_eq]
  split
  · exact ((st_retainStep w i p).trans (st_distribute _ _ _)).trans (h _)
  · exact (st_retainStep w i p).trans (st_distribute _ _ _)

/-! ### resolutions -/

theorem NodeSL.eraseAny {E : List Ack.Key} {n : Node} (h : NodeSL E n) (k : Ack.Key) :
    NodeSL E { n with stored := storedErase k n.stored } :=
  (h.mono (E' := k :: E) (fun _ hk => List.mem_cons_of_mem _ hk)).eraseStored

theorem st_eraseStored (w : World) (i : Nat) (k : Ack.Key) :
    Step w (w.setNode i { w.node i with stored := storedErase k (w.node i).stored }) :=
  Step.setNode w i _ (fun _ _ hall => (hall i).congr rfl rfl) (fun _ hE => hE.eraseAny k)

theorem nodeSL_oob (w : World) (i : Nat) (h : w.nodes.length ≤ i) (E : List Ack.Key) : NodeSL E (w.node i) := by
  rw [node_oob w i h]
  intro e he
  cases he

/-- after the callback of an exempted key was taken out on node i -/
theorem sl_erased (w : World) (i : Nat) (k : Ack.Key) (E : List Ack.Key) (h : NodeSL (k :: E) (w.node i)) :
    NodeSL E ((w.setNode i { w.node i with stored := storedErase k (w.node i).stored }).node i) := by
  by_cases hi : i < w.nodes.length
  · rw [node_setNode_self _ _ _ hi]; exact h.eraseStored
  · exact nodeSL_oob _ i (by simpa using Nat.le_of_not_lt hi) E

/-- one resolution as `ackFrom` handles it -/
def ackStep (i : Nat) (w : World) (ev : Ack.Resolved) : World :=
  match storedFind ev.key (w.node i).stored with
  | none => w
  | some st =>
    let w := w.setNode i { w.node i with stored := storedErase ev.key (w.node i).stored }
    match st with
    | .inbound _ conn pub imid => w.publishJob i pub (fun w => w.emit conn (.pubcomp imid))
    | _ => w.onResolved i ev st

theorem ackFrom_eq (w : World) (i : Nat) (pfx : String) (kind : Ack.PType) (mid : Int) :
    w.ackFrom i pfx kind mid =
      (Ack.ack (w.node i).acks pfx kind true mid).2.2.foldl (ackStep i)
        (w.setNode i { w.node i with acks := (Ack.ack (w.node i).acks pfx kind true mid).1 }) := rfl

theorem ackStep_rest (i : Nat) (w : World) (ev : Ack.Resolved) (st : Stored) :
    Step w (match st with
      | .inbound _ conn pub imid => w.publishJob i pub (fun w => w.emit conn (.pubcomp imid))
      | _ => w.onResolved i ev st) := by
  cases st with
  | inbound a conn pub imid => exact st_publishJob _ _ _ _ (fun w => st_emit _ _ _)
  | out1 a b c d e f => exact st_onResolved _ _ _ _
  | out2 a b c d e f => exact st_onResolved _ _ _ _
  | rel a b => exact st_onResolved _ _ _ _

theorem st_ackStep (i : Nat) (w : World) (ev : Ack.Resolved) : Step w (ackStep i w ev) := by
  unfold ackStep
  split
  · exact Step.refl w
  · exact (st_eraseStored w i ev.key).trans (ackStep_rest i _ ev _)

theorem ackStep_drop (i : Nat) (w : World) (ev : Ack.Resolved) (E : List Ack.Key)
    (h : NodeSL (ev.key :: E) (w.node i)) : NodeSL E ((ackStep i w ev).node i) := by
  unfold ackStep
  split
  · rename_i hn; exact h.noStored hn
  · exact (ackStep_rest i _ ev _).sl i E (sl_erased w i ev.key E h)

theorem st_resolveStep (i : Nat) (w : World) (ev : Ack.Resolved) : Step w (AgentT3.resolveStep i w ev) := by
  unfold AgentT3.resolveStep
  split
  · exact Step.refl w
  · exact (st_eraseStored w i ev.key).trans (st_onResolved _ _ _ _)

theorem resolveStep_drop (i : Nat) (w : World) (ev : Ack.Resolved) (E : List Ack.Key)
    (h : NodeSL (ev.key :: E) (w.node i)) : NodeSL E ((AgentT3.resolveStep i w ev).node i) := by
  unfold AgentT3.resolveStep
  split
  · rename_i hn; exact h.noStored hn
  · exact (st_onResolved _ _ _ _).sl i E (sl_erased w i ev.key E h)

theorem fold_drop (f : World → Ack.Resolved → World) (i : Nat)
    (h2 : ∀ b ev E, NodeSL (ev.key :: E) (b.node i) → NodeSL E ((f b ev).node i))
    (evs : List Ack.Resolved) : ∀ (b : World) (E : List Ack.Key),
      NodeSL (evs.map (·.key) ++ E) (b.node i) → NodeSL E ((evs.foldl f b).node i) := by
  induction evs with
  | nil => intro b E h; exact h
  | cons ev rest ih =>
    intro b E h
    exact ih _ E (h2 b ev _ h)

/-- entries leave the in-flight table of node i and their callbacks are run -/
theorem st_resolve (w w0 : World) (i : Nat) (q : Ack.Queue) (evs : List Ack.Resolved)
    (f : World → Ack.Resolved → World) (hn : w0.nodes = w.nodes) (hc : w0.clock = w.clock)
    (h1 : ∀ b ev, Step b (f b ev))
    (h2 : ∀ b ev E, NodeSL (ev.key :: E) (b.node i) → NodeSL E ((f b ev).node i))
    (hq : ∀ E, NodeSL E (w.node i) → NodeSL (evs.map (·.key) ++ E) { w.node i with acks := q }) :
    Step w (evs.foldl f (w0.setNode i { w.node i with acks := q })) := by
  have hF := Step.foldl f evs (w0.setNode i { w.node i with acks := q }) h1
  have hnode : ∀ j, w0.node j = w.node j := node_congr hn
  refine ⟨by have := hF.clock; simp only [setNode_clock, hc] at this; exact this, fun c hcc hall => ?_, fun j E hj => ?_⟩
  · refine hF.sc c hcc (fun j => ?_)
    rw [node_setNode]
    split
    · exact (hall i).congr rfl rfl
    · rw [hnode]; exact hall j
  · by_cases hji : j = i
    · subst hji
      apply fold_drop f j h2
      rw [node_setNode]
      split
      · exact hq E hj
      · rw [hnode]; exact hj.mono (fun k hk => List.mem_append_right _ hk)
    · apply hF.sl j E
      rw [node_setNode_ne _ _ _ _ hji, hnode]
      exact hj

theorem st_ackFrom (w : World) (i : Nat) (pfx : String) (kind : Ack.PType) (mid : Int) :
    Step w (w.ackFrom i pfx kind mid) := by
  rw [ackFrom_eq]
  refine st_resolve w w i _ _ (ackStep i) rfl rfl (fun b ev => st_ackStep i b ev) (fun b ev E => ackStep_drop i b ev E) ?_
  intro E hE
  rcases Ack.ack_cases (w.node i).acks pfx kind true mid with ⟨h1, _, _⟩ | ⟨_, m, _, _, heq⟩
  · rw [h1]; exact hE
  · rw [heq]
    exact hE.ackErase _ _

theorem st_sweep (w : World) (i : Nat) : Step w (w.sweep i) := by
  rw [AgentT3.sweep_eq]
  exact st_resolve w _ i _ _ (AgentT3.resolveStep i) rfl rfl (fun b ev => st_resolveStep i b ev)
    (fun b ev E => resolveStep_drop i b ev E) (fun E hE => hE.expire _)



/-! ### packets, session end, CONNECT -/

theorem st_process (w : World) (i : Nat) (sid : String) (pkt : CPkt) : Step w (w.process i sid pkt).1 := by
  unfold World.process
  simp only
  split
  · exact Step.refl w
  · rename_i s hs
    cases pkt with
    | connect => exact Step.refl w
    | publish topic payload qos retain dup mid =>
      simp only
      split
      · exact st_publishJob _ _ _ _ (fun w => Step.refl w)
      · split
        · exact st_publishJob _ _ _ _ (fun w => st_emit _ _ _)
        · split
          · rcases Ack.insert_cases (w.node i).acks (sid ++ "/in") .pubrec 0 mid (ackDeadline w)
              with ⟨_, h2, _⟩ | ⟨st', _, _, heq⟩
            · rw [if_neg h2]; exact Step.refl w
            · rw [heq]
              simp only [if_true]
              st_back (st_emit _ _ _)
              exact st_armNode _ i _ _ _ _
          · exact Step.refl w
    | subscribe mid topics =>
      simp only
      refine Step.foldl' _ _ _ _ ?_ ?_
      · st_back (st_emit _ _ _)
        refine Step.foldl' _ _ _ _ (Step.refl w) ?_
        intro w tq
        refine (st_subCreate w i sid tq.1 tq.2).trans ?_
        split
        · split
          · exact Step.refl _
          · exact st_setNode_same _ i _
        · exact Step.refl _
      · intro w tq
        refine Step.foldl' _ _ _ _ (Step.refl w) ?_
        intro w r
        exact st_send _ _ _ _
    | unsubscribe mid topics =>
      simp only
      st_back (st_emit _ _ _)
      refine Step.foldl' _ _ _ _ (Step.refl w) ?_
      intro w t
      refine (st_subDelete w i sid (prefixMountPoint s.mount t)).trans ?_
      split
      · exact st_setNode_same _ i _
      · exact Step.refl _
    | puback mid => exact st_ackFrom _ _ _ _ _
    | pubrec mid => exact st_ackFrom _ _ _ _ _
    | pubrel mid => exact st_ackFrom _ _ _ _ _
    | pubcomp mid => exact st_ackFrom _ _ _ _ _
    | pingreq =>
      simp only
      split
      · split
        · exact st_emit _ _ _
        · exact Step.refl w
      · exact Step.refl w
      · split
        · exact st_emit _ _ _
        · exact Step.refl w
    | disconnect => exact Step.refl w
    | other => exact Step.refl w

theorem st_tdBase (w : World) (i : Nat) (s : Sess) : Step w (tdBase w i s) := by
  unfold tdBase
  simp only
  refine Step.foldl' _ _ _ _ ?_ (fun w t => st_subDelete w i s.id t)
  refine (st_setNode_same w i { w.node i with reg := (w.node i).reg.filter (fun x => x.id != s.id) }).trans ?_
  exact Step.of_nodes_eq rfl (Int.le_refl _)

theorem st_teardown (w : World) (i : Nat) (s : Sess) : Step w (teardown w i s).1 := by
  rw [teardown_eq]
  split
  · exact (st_tdBase w i s).trans (st_sessDelete _ _ _)
  · exact st_tdBase w i s

theorem st_shutdown (w : World) (i : Nat) (sid : String) : Step w (w.shutdownSession i sid) := by
  cases hs : (w.node i).sess sid with
  | none =>
    have : w.shutdownSession i sid = w := by unfold World.shutdownSession; simp only [hs]
    rw [this]
    exact Step.refl w
  | some s =>
    rw [shutdown_eq w i sid s hs]
    split
    · exact st_teardown w i s
    · split
      · exact st_teardown w i s
      · split
        · exact st_teardown w i s
        · exact (st_teardown w i s).trans (st_publishJob _ _ _ _ (fun w => Step.refl w))

theorem st_clientPacket (w : World) (conn : String) (pkt : CPkt) : Step w (w.clientPacket conn pkt) := by
  unfold World.clientPacket
  split
  · exact Step.refl w
  · rename_i c i hc
    simp only []
    split
    · exact Step.refl w
    · have hp := st_process w i ("S" ++ conn) pkt
      generalize w.process i ("S" ++ conn) pkt = r at hp
      obtain ⟨w', res⟩ := r
      simp only at hp ⊢
      cases res with
      | ok => exact hp.trans (st_extendDeadline _ _ _)
      | disconnected =>
        simp only []
        refine hp.trans (Step.trans ?_ (st_shutdown _ _ _))
        split
        · exact st_setNode_same _ i _
        · exact Step.refl _
      | error => exact hp.trans (st_shutdown _ _ _)

theorem st_connPre (w : World) (c : String) (i : Nat) (client mount : String) :
    Step w (connPre w c i client mount) := by
  unfold connPre
  simp only
  split
  · st_back (st_sessDelete _ _ _)
    exact Step.of_nodes_eq rfl (Int.le_refl _)
  · exact Step.of_nodes_eq rfl (Int.le_refl _)

theorem st_connMid (w : World) (c : String) (i : Nat) (client mount : String) (will : Option Will) :
    Step w (connMid w c i client mount will) := by
  unfold connMid
  simp only
  refine ((st_connPre w c i client mount).trans (st_tick _)).trans ?_
  have key : ∀ k, (connPre w c i client mount).tick.1.clock ≤ k → NodeSC k ((connPre w c i client mount).tick.1.node i) →
      SessOld k (sessCreate ((connPre w c i client mount).tick.1.node i).dist (connPre w c i client mount).clock
        ("S" ++ c) client 0 will mount).1.sessions ∧
      ∀ e, (sessCreate ((connPre w c i client mount).tick.1.node i).dist (connPre w c i client mount).clock
        ("S" ++ c) client 0 will mount).2.1 = some e → ∀ s ∈ e.sessions, s.added < k := by
    intro k hk hn
    have hk' : (connPre w c i client mount).clock + 1 ≤ k := hk
    exact sessCreate_sc _ _ _ _ _ _ _ k hn.sessOld (by omega)
  split
  · rename_i e he
    refine st_distWrite _ i _ e ?_
    intro k hk hn
    exact ⟨(key k hk hn).1, (key k hk hn).2 e he⟩
  · refine st_setDist _ i _ ?_
    intro k hk hn
    exact (key k hk hn).1

theorem st_connect (w : World) (c : String) (i : Nat) (client mount : String) (authOk : Bool)
    (keepalive : Nat) (will : Option Will) : Step w (w.connect c i client mount authOk keepalive will) := by
  cases authOk with
  | false =>
    unfold World.connect
    simp only [Bool.not_false, if_true]
    exact Step.of_nodes_eq rfl (Int.le_refl _)
  | true =>
    rw [connect_eq]
    split
    · exact ((st_connPre w c i client mount).trans (st_tick _)).trans (st_emit _ _ _)
    · simp only
      st_back (st_emit _ _ _)
      exact (st_connMid w c i client mount will).trans (st_setNode_same _ i _)

theorem st_drop (w : World) (c : String) : Step w (w.drop c) := by
  unfold World.drop
  split
  · exact Step.refl w
  · simp only []
    have h0 : Step w ({ w with conns := w.conns.filter (fun e => e.1 != c) } : World) :=
      Step.of_nodes_eq rfl (Int.le_refl _)
    split
    · exact h0.trans (st_shutdown _ _ _)
    · exact h0.trans (st_emit _ _ _)

/-! ### gossip, node failure, time -/

/-- node `t` merges events whose session records are older than every admissible clock value -/
theorem st_mergeInto (w w1 : World) (hn : ∀ c, (∀ j, NodeSC c (w.node j)) → ∀ j, NodeSC c (w1.node j))
    (hl : ∀ j E, NodeSL E (w.node j) → NodeSL E (w1.node j)) (hc : w1.clock = w.clock)
    (t : Nat) (evs : List Event)
    (he : ∀ c, (∀ j, NodeSC c (w.node j)) → ∀ ev ∈ evs, ∀ s ∈ ev.sessions, s.added < c) :
    Step w (w1.setNode t { w1.node t with dist := evs.foldl merge (w1.node t).dist }) := by
  refine ⟨by simp [hc], fun c _ hall j => ?_, fun j E hj => ?_⟩
  · rw [node_setNode]
    split
    · have h1 := hn c hall t
      have := foldl_merge_sc c evs (w1.node t).dist h1.sessOld (he c hall)
      exact ⟨this.1, this.2, h1.pend⟩
    · exact hn c hall j
  · rw [node_setNode]
    split
    · rename_i hjt; rw [hjt.1] at hj; exact hl t E hj
    · exact hl j E hj

theorem setPending_sc (w : World) (i : Nat) (p : List (Nat × Event)) (hp : ∀ e ∈ p, e ∈ (w.node i).pending)
    (c : Int) (hall : ∀ j, NodeSC c (w.node j)) (j : Nat) :
    NodeSC c ((w.setNode i { w.node i with pending := p }).node j) := by
  rw [node_setNode]
  split
  · exact ⟨(hall i).nodup, (hall i).old, fun e he => (hall i).pend e (hp e he)⟩
  · exact hall j

theorem setPending_sl (w : World) (i : Nat) (p : List (Nat × Event)) (j : Nat) (E : List Ack.Key)
    (hj : NodeSL E (w.node j)) : NodeSL E ((w.setNode i { w.node i with pending := p }).node j) := by
  rw [node_setNode]
  split
  · rename_i hji; rw [hji.1] at hj; exact hj
  · exact hj

theorem st_setPending (w : World) (i : Nat) (p : List (Nat × Event)) (hp : ∀ e ∈ p, e ∈ (w.node i).pending) :
    Step w (w.setNode i { w.node i with pending := p }) :=
  ⟨Int.le_refl _, fun c _ hall j => setPending_sc w i p hp c hall j, fun j E hj => setPending_sl w i p j E hj⟩

theorem st_deliverGossip (w : World) (src dst : Nat) : Step w (w.deliverGossip src dst) := by
  unfold World.deliverGossip
  simp only []
  have hp : ∀ e ∈ (w.node src).pending.filter (fun e => e.1 != dst), e ∈ (w.node src).pending :=
    fun e he => (List.mem_filter.mp he).1
  split
  · exact st_setPending w src _ hp
  · refine st_mergeInto w _ (fun c hall j => setPending_sc w src _ hp c hall j)
      (fun j E hj => setPending_sl w src _ j E hj) rfl dst _ ?_
    intro c hall ev hev
    obtain ⟨e, he, rfl⟩ := List.mem_map.mp hev
    exact (hall src).pend e (List.mem_filter.mp he).1

theorem st_gossipRound (w : World) : Step w w.gossipRound := by
  unfold World.gossipRound
  simp only []
  refine Step.foldl _ _ _ ?_
  intro b a
  refine Step.foldl _ _ _ ?_
  intro b' a'
  split
  · exact st_deliverGossip _ _ _
  · exact Step.refl _

theorem st_gossipAll (w : World) : Step w w.gossipAll := by
  unfold World.gossipAll
  exact Step.foldl _ _ _ (fun b _ => st_gossipRound b)

theorem st_leavePrefix (w : World) (i : Nat) (peer : Nat) : Step w (AgentA.leavePrefix w i peer) := by
  unfold AgentA.leavePrefix
  simp only []
  st_back (st_broadcast_nil _ _ _ rfl)
  st_back (st_setDist_same _ _ _ rfl)
  exact st_tick w

theorem st_leaveStep (i : Nat) (w : World) (s : SessionMD) : Step w (AgentA.leaveStep i w s) := by
  unfold AgentA.leaveStep
  split
  · exact Step.refl w
  · simp only []
    split
    · exact (st_appendLog _ _ _).trans (st_deliverLocal _ _ _)
    · exact st_appendLog _ _ _

theorem st_notifyLeave (w : World) (i : Nat) (peer : Nat) : Step w (w.notifyLeave i peer) := by
  rw [AgentA.notifyLeave_eq]
  simp only
  st_setnode
  exact Step.foldl' _ _ _ _ (st_leavePrefix w i peer) (fun b a => st_leaveStep i b a)

theorem st_nodeFail (w : World) (f : Nat) : Step w (w.nodeFail f) := by
  unfold World.nodeFail
  simp only []
  refine Step.foldl' _ _ _ _ ?_ ?_
  · refine Step.foldl' _ _ _ _ ?_ (fun b a => st_emit b _ _)
    refine Step.trans (b := w.setNode f { w.node f with failed := true, reg := [], pending := [] }) ?_
      (Step.of_nodes_eq rfl (Int.le_refl _))
    exact Step.setNode w f _ (fun c _ hall => ⟨(hall f).nodup, (hall f).old, fun e he => by cases he⟩) (fun _ hE => hE)
  · intro b a
    split
    · exact st_notifyLeave _ _ _
    · exact Step.refl _

theorem st_idleTimers (w : World) (i : Nat) : Step w (idleTimers w i) := by
  unfold idleTimers
  simp only []
  refine Step.foldl' _ _ _ _ (st_setNode_same w i _) ?_
  intro b a
  refine (st_tick b).trans (st_distWrite b.tick.1 i _ _ ?_)
  intro c _ hn
  exact sessDeletePeer_sc (b.tick.1.node i).dist b.tick.2 a.2 c hn.sessOld

theorem st_idleNode (w : World) (i : Nat) : Step w (idleNode w i) := by
  unfold idleNode
  split
  · exact Step.refl w
  · refine Step.foldl' _ _ _ _ (st_idleTimers w i) ?_
    intro b a
    split
    · split
      · exact st_shutdown _ _ _
      · exact Step.refl _
    · exact Step.refl _

theorem st_idle (w : World) (ms : Int) : Step w (w.idle ms) := by
  rw [idle_eq]
  exact Step.foldl' _ _ _ _ (Step.of_nodes_eq (w := w) rfl (Int.le_refl _)) (fun b a => st_idleNode b a)



/-! ### the byte-level path (Wasp/Model/Wire.lean) -/
open Wasp.Wire

theorem st_frame {w w' : World} (hn : w'.nodes = w.nodes) (hk : w'.clock = w.clock) : Step w w' :=
  Step.of_nodes_eq hn (by rw [hk]; exact Int.le_refl _)

theorem st_setBuf (w : World) (c : String) (b : Wire.Bytes) : Step w (setBuf w c b) := st_frame rfl rfl

theorem st_failConn (w : World) (c : String) : Step w (failConn w c) := by
  unfold failConn
  split
  · exact Step.refl w
  · split
    · exact st_shutdown _ _ _
    · exact st_frame rfl rfl

theorem st_applyDecoded (w : World) (c : String) (r : DRes) : Step w (applyDecoded w c r) := by
  unfold applyDecoded
  split
  · exact Step.refl w
  · split
    · cases r with
      | pkt p => exact st_clientPacket _ _ _
      | connect a b c d e => exact st_clientPacket _ _ _
      | err => exact st_failConn _ _
      | panic => exact st_failConn _ _
    · cases r with
      | connect client user pass ka will =>
        simp only []
        split
        · exact st_connect _ _ _ _ _ _ _ _
        · exact st_connect _ _ _ _ _ _ _ _
      | pkt p => exact st_failConn _ _
      | err => exact st_failConn _ _
      | panic => exact st_failConn _ _

theorem st_pump (c : String) (fuel : Nat) : ∀ w : World, Step w (pump fuel w c).1 := by
  induction fuel with
  | zero => intro w; exact Step.refl w
  | succ fuel ih =>
    intro w
    unfold pump
    split
    · exact st_setBuf _ _ _
    · split
      · exact st_setBuf _ _ _
      · split
        · exact Step.refl w
        · exact (st_setBuf _ _ _).trans (st_failConn _ _)
        · exact ((st_setBuf _ _ _).trans (st_applyDecoded _ _ _)).trans (ih _)

theorem st_rawBytes (w : World) (c : String) (b : Wire.Bytes) : Step w (rawBytes w c b).1 := by
  unfold rawBytes
  split
  · exact Step.refl w
  · exact (st_setBuf _ _ _).trans (st_pump c _ _)

theorem st_closeFin (w : World) (c : String) : Step w (AgentT1.closeFin w c) := by
  unfold AgentT1.closeFin
  split
  · split
    · exact st_drop w c
    · exact st_frame rfl rfl
  · exact st_emit _ _ _

theorem st_closeRaw (w : World) (c : String) : Step w (closeFromClientRaw w c) := by
  rw [AgentT1.closeRaw_eq]
  refine Step.trans ?_ (st_closeFin _ c)
  split
  · exact st_setBuf _ _ _
  · split
    · exact (st_setBuf _ _ _).trans (st_applyDecoded _ _ _)
    · exact st_setBuf _ _ _

theorem st_closeFromClient (w : World) (c : String) : Step w (closeFromClient w c) := by
  unfold closeFromClient
  exact (st_closeRaw w c).trans (st_frame rfl rfl)

theorem st_openConn (w : World) (c : String) (i : Nat) : Step w (openConn w c i) := st_frame rfl rfl

theorem st_hsStep (w : World) (e : String × Int) : Step w (AgentT1.hsStep w e) := by
  unfold AgentT1.hsStep
  split
  · exact (st_frame (w := w) (w' := { w with hs := w.hs.filter (fun x => x.1 != e.1) }) rfl rfl).trans (st_closeRaw _ _)
  · exact Step.refl w

theorem st_expireHandshakes (w : World) : Step w (expireHandshakes w) := by
  rw [AgentT1.expire_eq]
  exact Step.foldl _ _ _ (fun b a => st_hsStep b a)

theorem st_wireIdle (w : World) (ms : Int) : Step w (Wasp.Wire.idle w ms) := by
  unfold Wasp.Wire.idle
  exact (st_idle w ms).trans (st_expireHandshakes _)

theorem st_elapse (w : World) (ms : Int) : Step w (Wasp.Wire.elapse w ms) := by
  unfold Wasp.Wire.elapse
  refine Step.trans ?_ (st_wireIdle _ ms)
  refine ⟨Int.le_refl _, fun c _ hall j => ?_, fun j E hj => ?_⟩
  · rw [AgentT5.shift_node]; exact (hall j).congr rfl rfl
  · rw [AgentT5.shift_node]; exact hj.congr rfl rfl

/-! ### every operation of the harness -/

theorem st_applyOp (w : World) (op : BOp) : Step w (applyOp w op) := by
  cases op with
  | connect c node client mount authOk ka will =>
    simp only [applyOp]
    refine Step.trans (b := if w.conns.any (fun e => e.1 == c) then w.drop c else w) ?_ ?_
    · split
      · exact st_drop w c
      · exact Step.refl w
    · generalize (if w.conns.any (fun e => e.1 == c) then w.drop c else w) = w1
      exact (st_frame (w := w1) (w' := { w1 with out := w1.out.filter (fun e => e.1 != c), deaf := w1.deaf.filter (· != c) }) rfl rfl).trans
        (st_connect _ _ _ _ _ _ _ _)
  | packet c pkt =>
    simp only [applyOp]
    split
    · exact st_clientPacket _ _ _
    · exact Step.refl w
  | drop c => exact st_closeFromClient w c
  | openConn c node =>
    simp only [applyOp]
    refine Step.trans (b := if w.conns.any (fun e => e.1 == c) then closeFromClient w c else w) ?_ ?_
    · split
      · exact st_closeFromClient w c
      · exact Step.refl w
    · generalize (if w.conns.any (fun e => e.1 == c) then closeFromClient w c else w) = w1
      exact (st_frame (w := w1) (w' := { w1 with deaf := w1.deaf.filter (· != c) }) rfl rfl).trans (st_openConn _ _ _)
  | raw c b => exact st_rawBytes w c b
  | gossipAll => exact st_gossipAll w
  | gossip f t => exact st_deliverGossip w f t
  | gossipOne f t k =>
    simp only [applyOp]
    split
    · exact Step.refl w
    · rename_i e he
      have hmem : e ∈ (w.node f).pending := (List.mem_filter.mp (List.mem_of_getElem? he)).1
      have hp := AgentT5.dropKth_mem t (w.node f).pending k
      split
      · exact st_setPending w f _ hp
      · have := st_mergeInto w _ (fun c hall j => setPending_sc w f _ hp c hall j)
          (fun j E hj => setPending_sl w f _ j E hj) rfl t [e.2] (by
            intro c hall ev hev
            simp only [List.mem_singleton] at hev
            subst hev
            exact (hall f).pend e hmem)
        exact this
  | loseGossip f t =>
    simp only [applyOp]
    exact st_setPending w f _ (fun e he => (List.mem_filter.mp he).1)
  | sync f t =>
    simp only [applyOp]
    have := st_mergeInto w w (fun _ hall => hall) (fun _ _ hj => hj) rfl t [snapshot (w.node f).dist] (by
      intro c hall ev hev
      simp only [List.mem_singleton] at hev
      subst hev
      exact (hall f).old)
    exact this
  | unreachable n b => exact st_setNode_same w n _
  | logFailAll n b => exact st_setNode_same w n _
  | logFailAt n k => exact st_setNode_same w n _
  | logFailNone n => exact st_setNode_same w n _
  | nodeFail n => exact st_nodeFail w n
  | sweep n => exact st_sweep w n
  | idle ms => exact st_wireIdle w ms
  | elapse ms => exact st_elapse w ms
  | setPool n lo hi =>
    simp only [applyOp]
    split
    · exact st_setNode_same w n _
    · exact Step.refl w
  | rpcPublish n topic payload => exact st_distribute w n _

/-- the two invariants, of a world -/
structure Inv13 (w : World) : Prop where
  sc : ∀ j, NodeSC w.clock (w.node j)
  sl : ∀ j, NodeSL [] (w.node j)

theorem Inv13.step {w w' : World} (h : Inv13 w) (hs : Step w w') : Inv13 w' :=
  ⟨hs.sc _ (Int.le_refl _) (fun j => (h.sc j).mono hs.clock), fun j => hs.sl j [] (h.sl j)⟩

theorem inv13_init (n : Nat) : Inv13 (World.init n) := by
  have hnode : ∀ i, ((World.init n).node i).dist.sessions = [] ∧ ((World.init n).node i).pending = [] ∧
      ((World.init n).node i).stored = [] := by
    intro i
    unfold World.node World.init
    simp only [List.getD_eq_getElem?_getD, List.getElem?_map]
    cases (List.range n)[i]? <;> exact ⟨rfl, rfl, rfl⟩
  refine ⟨fun j => ⟨?_, ?_, ?_⟩, fun j e he => ?_⟩
  · rw [(hnode j).1]; simp
  · rw [(hnode j).1]; intro s hs; cases hs
  · rw [(hnode j).2.1]; intro e he; cases he
  · rw [(hnode j).2.2] at he; cases he

theorem inv13_run (ops : List BOp) : ∀ w : World, Inv13 w → Inv13 (run w ops) := by
  induction ops with
  | nil => intro w h; exact h
  | cons op rest ih => intro w h; exact ih _ (h.step (st_applyOp w op))

theorem reachable_inv13 (w : World) (h : Reachable w) : Inv13 w := by
  obtain ⟨n, ops, rfl⟩ := h
  exact inv13_run ops _ (inv13_init n)



/-! ### consequences on reachable worlds -/

/-- on a reachable world no callback is stored under a key that is not in flight -/
theorem reachable_stored_free (w : World) (hr : Reachable w) (i : Nat) (k : Ack.Key)
    (h : Ack.msgFind k (w.node i).acks.msgs = none) : storedFind k (w.node i).stored = none := by
  cases hf : storedFind k (w.node i).stored with
  | none => rfl
  | some st =>
    exfalso
    rcases (reachable_inv13 w hr).sl i _ (AgentT3.storedFind_mem hf) with h1 | h1
    · exact (Ack.msgFind_none_iff.mp h) h1
    · cases h1

/-! ### the inbound QoS 2 handshake: the PUBREL -/

theorem setNode_setNode (w : World) (i : Nat) (a b : Node) : (w.setNode i a).setNode i b = w.setNode i b := by
  simp [World.setNode]

theorem emit_setNode (w : World) (c : String) (pk : Pkt) (i : Nat) (n : Node) :
    (w.emit c pk).setNode i n = (w.setNode i n).emit c pk := rfl

theorem storedErase_snoc_self {k : Ack.Key} {st : Stored} {l : List (Ack.Key × Stored)} (h : storedFind k l = none) :
    storedErase k (l ++ [(k, st)]) = l := by
  unfold storedErase
  rw [List.filter_append]
  have h1 : l.filter (fun e => e.1 != k) = l := by
    rw [List.filter_eq_self]
    intro e he
    simpa using storedFind_none_keys h e he
  rw [h1]
  simp

/-- PUBLISH (QoS 2) then PUBREL of the same session, for an identifier with no open handshake: the second step is the
    publish pipeline, run in a world `W` that differs from `w` only by the PUBREC written and the timer table -/
theorem release_core (w : World) (i : Nat) (hi : i < w.nodes.length) (p : Sess) (hp : (w.node i).sess p.id = some p)
    (topic payload : String) (dup : Bool) (mid : Int) (hmid : mid ≠ 0)
    (hfree : Ack.msgFind (Ack.hashKey (p.id ++ "/in") mid) (w.node i).acks.msgs = none)
    (hsf : storedFind (Ack.hashKey (p.id ++ "/in") mid) (w.node i).stored = none) :
    ∃ T : Ack.PQ,
      ((w.process i p.id (.publish topic payload 2 false dup mid)).1.process i p.id (.pubrel mid)).1 =
        ((w.setNode i { w.node i with acks := { msgs := (w.node i).acks.msgs, timeouts := T } }).emit p.conn (.pubrec mid)).publishJob i
          ⟨prefixMountPoint p.mount topic, payload, 2, false, dup⟩ (fun x => x.emit p.conn (.pubcomp mid)) := by
  rw [process_publish2 w i p.id p hp topic payload false dup mid hmid hfree]
  generalize hn1 : ({ w.node i with
        acks := { msgs := (w.node i).acks.msgs ++ [(Ack.hashKey (p.id ++ "/in") mid, msgIn w mid)],
                  timeouts := Ack.pqInsert (Ack.hashKey (p.id ++ "/in") mid) (ackDeadline w) (w.node i).acks.timeouts },
        stored := (w.node i).stored ++ [(Ack.hashKey (p.id ++ "/in") mid,
          .inbound p.id p.conn ⟨prefixMountPoint p.mount topic, payload, 2, false, dup⟩ mid)] } : Node) = n1
  have hnode1 : ((w.setNode i n1).emit p.conn (.pubrec mid)).node i = n1 := by
    rw [node_emit, node_setNode_self _ _ _ hi]
  have hs1 : n1.sess p.id = some p := by
    rw [← hn1]; exact hp
  have hm : Ack.msgFind (Ack.hashKey (p.id ++ "/in") mid) n1.acks.msgs = some (msgIn w mid) := by
    rw [← hn1]; exact AgentT12.msgFind_snoc_self hfree
  have hack := Ack.ack_ok_eq (q := n1.acks) (pfx := p.id ++ "/in") (kind := .pubrel) (mid := mid) hm rfl
  refine ⟨(Ack.pqDelete (Ack.hashKey (p.id ++ "/in") mid) (msgIn w mid).deadline n1.acks.timeouts).1, ?_⟩
  have hlen1 : i < ((w.setNode i n1).emit p.conn (.pubrec mid)).nodes.length := by simpa using hi
  have hst : storedFind (Ack.hashKey (p.id ++ "/in") mid) n1.stored =
      some (.inbound p.id p.conn ⟨prefixMountPoint p.mount topic, payload, 2, false, dup⟩ mid) := by
    rw [← hn1]; exact AgentT12.storedFind_snoc_self hsf
  have e1 : Ack.msgErase (Ack.hashKey (p.id ++ "/in") mid) n1.acks.msgs = (w.node i).acks.msgs := by
    rw [← hn1]; exact AgentT12.msgErase_snoc_self hfree
  have e2 : storedErase (Ack.hashKey (p.id ++ "/in") mid) n1.stored = (w.node i).stored := by
    rw [← hn1]; exact storedErase_snoc_self hsf
  simp only [World.process, World.ackFrom, hnode1, hs1, hack, List.foldl_cons, List.foldl_nil]
  rw [node_setNode_self _ _ _ hlen1]
  simp only [hst, e1, e2]
  congr 1
  rw [emit_setNode, emit_setNode, setNode_setNode, setNode_setNode, ← hn1]


/-! ### one-node distribution -/

theorem send_qos0_core (i : Nat) (p : Pub) (rcpt : List (String × Int)) :
    ∀ w : World, (∀ r ∈ rcpt, r.2 = 0) → AgentA.WFrame AgentT3.pcore w (w.send i rcpt p) := by
  induction rcpt with
  | nil => intro w _; simp only [World.send]; exact AgentA.WFrame.refl _ w
  | cons r rest ih =>
    intro w hq
    obtain ⟨sid, q⟩ := r
    have hq0 : q = 0 := hq (sid, q) (by simp)
    subst hq0
    have hrest : ∀ r ∈ rest, r.2 = 0 := fun r hr => hq r (by simp [hr])
    cases hs : (w.node i).sess sid with
    | none =>
      rw [AgentT6.send_skip w i sid 0 rest p hs]
      exact ih w hrest
    | some s =>
      have hstep : w.send i ((sid, 0) :: rest) p =
          World.send ((w.extendDeadline i sid).emit s.conn
            (.publish (trimMountPoint s.mount p.topic) p.payload 0 p.retain p.dup 0)) i rest p := by
        simp [World.send, hs]
      rw [hstep]
      exact ((AgentT3.f_extendDeadline w i sid).trans (AgentA.WFrame.emit _ _ _ _)).trans (ih _ hrest)

theorem peers_const (w : World) (p : Pub)
    (hpeer : ∀ kl ∈ (w.node 0).dist.subs, ∀ u ∈ kl.2, u.peer = (w.node 0).peer) :
    ∀ x ∈ (subByPattern (w.node 0).dist p.topic).map (·.peer), x = (w.node 0).peer := by
  intro x hx
  obtain ⟨u, hu, rfl⟩ := List.mem_map.1 hx
  obtain ⟨kl, hkl, hukl⟩ := AgentT6.mem_subByPattern' hu
  exact hpeer kl hkl u hukl

theorem distribute_nobody (w : World) (i : Nat) (p : Pub) (h : subByPattern (w.node i).dist p.topic = []) :
    w.distribute i p = (w, true) := by
  unfold World.distribute
  simp [h, dedupNat]

/-- one node, accepting log: Distribute succeeds -/
theorem distribute_one_true (w : World) (hlen : w.nodes.length = 1) (p : Pub)
    (hpeer : ∀ kl ∈ (w.node 0).dist.subs, ∀ u ∈ kl.2, u.peer = (w.node 0).peer)
    (hlog : (w.node 0).logFailAll = false ∧ (w.node 0).logFailAt.contains (w.node 0).logCalls = false) :
    (w.distribute 0 p).2 = true := by
  by_cases hne : subByPattern (w.node 0).dist p.topic = []
  · rw [distribute_nobody w 0 p hne]
  · rw [AgentT12.distribute_one w hlen p hpeer hne hlog]

/-- one node, QoS 0 subscriptions only: the in-flight table, the stored callbacks and the pool are untouched -/
theorem distribute_one_core (w : World) (hlen : w.nodes.length = 1) (p : Pub)
    (hq0 : ∀ kl ∈ (w.node 0).dist.subs, ∀ u ∈ kl.2, u.qos = 0)
    (hpeer : ∀ kl ∈ (w.node 0).dist.subs, ∀ u ∈ kl.2, u.peer = (w.node 0).peer)
    (hlog : (w.node 0).logFailAll = false ∧ (w.node 0).logFailAt.contains (w.node 0).logCalls = false) :
    AgentA.WFrame AgentT3.pcore w (w.distribute 0 p).1 := by
  have hi : 0 < w.nodes.length := by omega
  by_cases hne : subByPattern (w.node 0).dist p.topic = []
  · rw [distribute_nobody w 0 p hne]; exact AgentA.WFrame.refl _ w
  · rw [AgentT12.distribute_one w hlen p hpeer hne hlog]
    generalize hW : w.setNode 0 { w.node 0 with logCalls := (w.node 0).logCalls + 1, log := (w.node 0).log ++ [p] } = W
    have hf : AgentA.WFrame AgentT3.pcore w W := by rw [← hW]; exact AgentA.WFrame.setNode w 0 _ rfl
    have hnW : W.node 0 = { w.node 0 with logCalls := (w.node 0).logCalls + 1, log := (w.node 0).log ++ [p] } := by
      rw [← hW, node_setNode_self _ _ _ hi]
    refine hf.trans ?_
    show AgentA.WFrame AgentT3.pcore W (W.deliverLocal 0 p)
    unfold World.deliverLocal
    apply send_qos0_core
    intro r hr
    rw [hnW] at hr
    obtain ⟨u, hu, rfl⟩ := List.mem_map.1 hr
    obtain ⟨kl, hkl, hukl⟩ := AgentT6.mem_subByPattern' (List.mem_filter.1 hu).1
    exact hq0 kl hkl u hukl

/-- one node hosting a matching subscription, rejecting log: Distribute fails and writes nothing -/
theorem distribute_one_fail (w : World) (hlen : w.nodes.length = 1) (p : Pub)
    (hpeer : ∀ kl ∈ (w.node 0).dist.subs, ∀ u ∈ kl.2, u.peer = (w.node 0).peer)
    (hne : subByPattern (w.node 0).dist p.topic ≠ [])
    (hfail : (w.node 0).logFailAll = true) :
    w.distribute 0 p = (w.setNode 0 { w.node 0 with logCalls := (w.node 0).logCalls + 1 }, false) := by
  have happ : (w.node 0).appendLog p = ({ w.node 0 with logCalls := (w.node 0).logCalls + 1 }, false) := by
    unfold Node.appendLog
    simp [hfail]
  unfold World.distribute
  simp only
  rw [AgentT6.dedupNat_const _ _ (peers_const w p hpeer)]
  have hne' : ¬ (List.map (·.peer) (subByPattern (w.node 0).dist p.topic) = []) := by simpa using hne
  rw [if_neg hne']
  simp only [List.foldl_cons, List.foldl_nil, AgentT6.nodeIndexOfPeer_single w hlen, happ]
  simp



/-! ### take-over: the session records -/
open Wasp.Crdt

theorem sessSet_self_mem (s : SessionMD) (l : List SessionMD) : s ∈ sessSet s l := by
  induction l with
  | nil => simp [sessSet]
  | cons x rest ih =>
    simp only [sessSet]
    split
    · exact List.mem_cons_self
    · exact List.mem_cons_of_mem _ ih

theorem sessSet_mem_nodup {s x : SessionMD} {l : List SessionMD} (hn : (l.map (·.id)).Nodup)
    (h : x ∈ sessSet s l) : x = s ∨ (x ∈ l ∧ x.id ≠ s.id) := by
  induction l with
  | nil => simp [sessSet] at h; exact Or.inl h
  | cons y rest ih =>
    simp only [List.map_cons, List.nodup_cons] at hn
    simp only [sessSet] at h
    split at h
    · rename_i hy
      rcases List.mem_cons.mp h with h | h
      · exact Or.inl h
      · refine Or.inr ⟨List.mem_cons_of_mem _ h, fun e => hn.1 ?_⟩
        rw [hy, ← e]
        exact List.mem_map_of_mem h
    · rename_i hy
      rcases List.mem_cons.mp h with h | h
      · subst h
        exact Or.inr ⟨List.mem_cons_self, hy⟩
      · rcases ih hn.2 h with h1 | h1
        · exact Or.inl h1
        · exact Or.inr ⟨List.mem_cons_of_mem _ h1.1, h1.2⟩

theorem eq_singleton_of_nodup {α : Type} {l : List α} {a : α} (hn : l.Nodup) (ha : a ∈ l) (hall : ∀ x ∈ l, x = a) :
    l = [a] := by
  cases l with
  | nil => cases ha
  | cons x rest =>
    have hx : x = a := hall x List.mem_cons_self
    subst hx
    cases rest with
    | nil => rfl
    | cons y rest' =>
      exfalso
      have hy : y = x := hall y (by simp)
      subst hy
      simp at hn

theorem nodup_of_map {α β : Type} (f : α → β) : ∀ l : List α, (l.map f).Nodup → l.Nodup
  | [], _ => List.nodup_nil
  | a :: l, h => by
    simp only [List.map_cons, List.nodup_cons] at h ⊢
    exact ⟨fun ha => h.1 (List.mem_map_of_mem ha), nodup_of_map f l h.2⟩

theorem nodup_of_ids {l : List SessionMD} (h : (l.map (·.id)).Nodup) : l.Nodup := nodup_of_map _ l h

/-- the replicated state of the accepting node after the record the client id resolved to was deleted (clock value
    `t1`) and the new session's record created (clock value `t2`): the creation succeeds and the client id resolves to
    the new record only -/
theorem takeover_records (st : State) (mount client sid : String) (will : Option Will) (mdA : SessionMD) (t1 t2 : Int)
    (hn : (st.sessions.map (·.id)).Nodup)
    (hcur : sessByClientID st mount client = [mdA])
    (hold : mdA.added ≤ t1) (ht2 : 0 < t2) (hne : sid ≠ mdA.id)
    (hrec : ∀ s, sessLookup sid st.sessions = some s → isAdded s.stamp = false) :
    (sessCreate (Wasp.Dist.sessDelete st t1 mdA.id).1 t2 sid client 0 will mount).2.2 = Err.none ∧
    sessByClientID (sessCreate (Wasp.Dist.sessDelete st t1 mdA.id).1 t2 sid client 0 will mount).1 mount client =
      [⟨sid, client, mount, st.peer, 0, will, t2, 0⟩] := by
  have hmemf : mdA ∈ sessByClientID st mount client := by rw [hcur]; simp
  have hmem : mdA ∈ st.sessions := (List.mem_filter.mp hmemf).1
  have hfA : (isAdded mdA.stamp && (mdA.mount == mount && mdA.client == client)) = true := (List.mem_filter.mp hmemf).2
  have hadded : isAdded mdA.stamp = true := by
    simp only [Bool.and_eq_true] at hfA; exact hfA.1
  have hlook : sessLookup mdA.id st.sessions = some mdA := (mem_iff_sessLookup st.sessions hn mdA).mp hmem
  have hnotrem : isRemoved mdA.stamp = false := by
    have h1 : isAdded ⟨mdA.added, mdA.deleted⟩ = true := hadded
    rw [isAdded_mk] at h1
    show isRemoved ⟨mdA.added, mdA.deleted⟩ = false
    rw [isRemoved_mk]
    simp only [Bool.and_eq_true, decide_eq_true_eq] at h1
    simp only [Bool.and_eq_false_iff, decide_eq_false_iff_not]
    right; omega
  -- the state after the deletion
  have hdel : (Wasp.Dist.sessDelete st t1 mdA.id).1 =
      { st with sessions := sessSet { mdA with deleted := t1 } st.sessions } := by
    unfold Wasp.Dist.sessDelete
    simp only [hlook, hnotrem]
    rfl
  rw [hdel]
  have htomb : isAdded ({ mdA with deleted := t1 } : SessionMD).stamp = false := by
    show isAdded ⟨mdA.added, t1⟩ = false
    rw [isAdded_mk]
    simp only [Bool.and_eq_false_iff, decide_eq_false_iff_not]
    right; omega
  have hn1 : ((sessSet { mdA with deleted := t1 } st.sessions).map (·.id)).Nodup := sessSet_nodup _ _ hn
  have hlook1 : sessLookup sid (sessSet { mdA with deleted := t1 } st.sessions) = sessLookup sid st.sessions := by
    rw [sessLookup_sessSet_sy]
    rw [if_neg (fun e => hne e.symm)]
  -- the creation
  have hcreate : sessCreate { st with sessions := sessSet { mdA with deleted := t1 } st.sessions } t2 sid client 0 will mount =
      ({ st with sessions := sessSet ⟨sid, client, mount, st.peer, 0, will, t2, 0⟩ (sessSet { mdA with deleted := t1 } st.sessions) },
       some { sessions := [⟨sid, client, mount, st.peer, 0, will, t2, 0⟩] }, Err.none) := by
    unfold sessCreate
    simp only [hlook1]
    split
    · rename_i s hs
      rw [hrec s hs]
      rfl
    · rfl
  rw [hcreate]
  refine ⟨rfl, ?_⟩
  unfold sessByClientID sessFilter
  simp only
  apply eq_singleton_of_nodup
  · exact (nodup_of_ids (sessSet_nodup _ _ hn1)).filter _
  · refine List.mem_filter.mpr ⟨sessSet_self_mem _ _, ?_⟩
    have : isAdded (⟨sid, client, mount, st.peer, 0, will, t2, 0⟩ : SessionMD).stamp = true := by
      show isAdded ⟨t2, 0⟩ = true
      rw [isAdded_mk]
      simp only [Bool.and_eq_true, decide_eq_true_eq]
      omega
    simp [this]
  · intro x hx
    obtain ⟨hx1, hx2⟩ := List.mem_filter.mp hx
    rcases sessSet_mem_nodup hn1 hx1 with h1 | ⟨h1, _⟩
    · exact h1
    · exfalso
      rcases sessSet_mem_nodup hn h1 with h2 | ⟨h2, h3⟩
      · subst h2
        rw [htomb] at hx2
        simp at hx2
      · have : x ∈ sessByClientID st mount client := List.mem_filter.mpr ⟨h2, hx2⟩
        rw [hcur] at this
        simp only [List.mem_singleton] at this
        subst this
        exact h3 rfl



/-! ### take-over: the world after the CONNECT -/

theorem broadcast_node (w : World) (i : Nat) (hi : i < w.nodes.length) (ev : Event) :
    ∃ P, (w.broadcast i ev).node i = { w.node i with pending := P } := by
  unfold World.broadcast
  exact ⟨_, node_setNode_self _ _ _ hi⟩

theorem broadcast_frame (w : World) (i : Nat) (ev : Event) :
    (w.broadcast i ev).clock = w.clock ∧ (w.broadcast i ev).conns = w.conns ∧ (w.broadcast i ev).deaf = w.deaf ∧
    (w.broadcast i ev).out = w.out ∧ (w.broadcast i ev).now = w.now ∧
    (w.broadcast i ev).nodes.length = w.nodes.length := by
  unfold World.broadcast
  exact ⟨rfl, rfl, rfl, rfl, rfl, by simp⟩

theorem sessDelete_node (w : World) (i : Nat) (hi : i < w.nodes.length) (sid : String) :
    ∃ P, (w.sessDelete i sid).node i =
      { w.node i with dist := (Wasp.Dist.sessDelete (w.node i).dist w.clock sid).1, pending := P } := by
  unfold World.sessDelete
  simp only []
  have hi' : i < w.tick.1.nodes.length := hi
  split
  · rename_i e _
    obtain ⟨P, hP⟩ := broadcast_node (w.tick.1.setNode i { w.tick.1.node i with dist := (Wasp.Dist.sessDelete (w.tick.1.node i).dist w.tick.2 sid).1 }) i (by simpa using hi') e
    refine ⟨P, ?_⟩
    rw [hP, node_setNode_self _ _ _ hi']
    rfl
  · refine ⟨(w.node i).pending, ?_⟩
    rw [node_setNode_self _ _ _ hi']
    rfl

theorem sessDelete_frame (w : World) (i : Nat) (sid : String) :
    (w.sessDelete i sid).clock = w.clock + 1 ∧ (w.sessDelete i sid).conns = w.conns ∧
    (w.sessDelete i sid).deaf = w.deaf ∧ (w.sessDelete i sid).out = w.out ∧ (w.sessDelete i sid).now = w.now ∧
    (w.sessDelete i sid).nodes.length = w.nodes.length := by
  unfold World.sessDelete
  simp only []
  split
  · have := broadcast_frame (w.tick.1.setNode i { w.tick.1.node i with dist := (Wasp.Dist.sessDelete (w.tick.1.node i).dist w.tick.2 sid).1 }) i
    rename_i e _
    obtain ⟨h1, h2, h3, h4, h5, h6⟩ := this e
    exact ⟨h1, h2, h3, h4, h5, by rw [h6]; simp [World.tick]⟩
  · exact ⟨rfl, rfl, rfl, rfl, rfl, by simp [World.tick]⟩

/-- a CONNECT (authenticated) for a client id that resolves to exactly one record `mdA`, when the creation of the new
    record succeeds: the state of the accepting node and of the connection table afterwards -/
theorem takeover_connect (w : World) (i : Nat) (hi : i < w.nodes.length) (c client mount : String) (ka : Nat)
    (will : Option Will) (mdA : SessionMD)
    (hcur : sessByClientID (w.node i).dist mount client = [mdA])
    (herr : (sessCreate (Wasp.Dist.sessDelete (w.node i).dist w.clock mdA.id).1 (w.clock + 1) ("S" ++ c) client 0 will mount).2.2
      = Err.none) :
    (∃ P, (w.connect c i client mount true ka will).node i =
      { w.node i with
        dist := (sessCreate (Wasp.Dist.sessDelete (w.node i).dist w.clock mdA.id).1 (w.clock + 1) ("S" ++ c) client 0 will mount).1,
        pending := P,
        reg := (w.node i).reg ++ [connSess w.now c client mount ka will] }) ∧
    (w.connect c i client mount true ka will).conns = w.conns.filter (fun e => e.1 != c) ++ [(c, i)] ∧
    (w.connect c i client mount true ka will).deaf = w.deaf ∧
    (w.connect c i client mount true ka will).nodes.length = w.nodes.length ∧
    (w.connect c i client mount true ka will).out = w.out ++ [(c, Pkt.connack 0)] := by
  -- the deletion of the old record
  generalize hW0 : ({ w with conns := (w.conns.filter (fun (c' : String × Nat) => c'.1 != c)) ++ [(c, i)] } : World) = W0
  have hnode0 : ∀ j, W0.node j = w.node j := fun j => by rw [← hW0]; rfl
  have hpre : connPre w c i client mount = W0.sessDelete i mdA.id := by
    unfold connPre
    simp only
    rw [hW0, hnode0, hcur]
  have hi0 : i < W0.nodes.length := by rw [← hW0]; exact hi
  obtain ⟨P1, hP1⟩ := sessDelete_node W0 i hi0 mdA.id
  obtain ⟨f1, f2, f3, f4, f5, f6⟩ := sessDelete_frame W0 i mdA.id
  have hc0 : W0.clock = w.clock := by rw [← hW0]
  rw [hnode0, hc0] at hP1
  rw [hc0] at f1
  -- the creation of the new one
  have hcreate : sessCreate ((connPre w c i client mount).tick.1.node i).dist (connPre w c i client mount).clock
      ("S" ++ c) client 0 will mount =
      sessCreate (Wasp.Dist.sessDelete (w.node i).dist w.clock mdA.id).1 (w.clock + 1) ("S" ++ c) client 0 will mount := by
    rw [hpre]
    show sessCreate ((W0.sessDelete i mdA.id).node i).dist _ _ _ _ _ _ = _
    rw [hP1, f1]
  rw [connect_eq, hcreate, if_neg (by simp [herr])]
  simp only
  have hlenPre : i < (connPre w c i client mount).tick.1.nodes.length := by
    rw [hpre]; show i < (W0.sessDelete i mdA.id).nodes.length; rw [f6]; exact hi0
  have hMid : (∃ P, (connMid w c i client mount will).node i =
      { w.node i with
        dist := (sessCreate (Wasp.Dist.sessDelete (w.node i).dist w.clock mdA.id).1 (w.clock + 1) ("S" ++ c) client 0 will mount).1,
        pending := P }) ∧
      (connMid w c i client mount will).conns = W0.conns ∧ (connMid w c i client mount will).deaf = W0.deaf ∧
      (connMid w c i client mount will).nodes.length = W0.nodes.length ∧ (connMid w c i client mount will).out = W0.out ∧
      (connMid w c i client mount will).now = W0.now := by
    unfold connMid
    simp only
    rw [hcreate]
    have hn1 : (connPre w c i client mount).tick.1.node i =
        { w.node i with dist := (Wasp.Dist.sessDelete (w.node i).dist w.clock mdA.id).1, pending := P1 } := by
      rw [hpre]; exact hP1
    have hfr : (connPre w c i client mount).tick.1.conns = W0.conns ∧ (connPre w c i client mount).tick.1.deaf = W0.deaf ∧
        (connPre w c i client mount).tick.1.nodes.length = W0.nodes.length ∧ (connPre w c i client mount).tick.1.out = W0.out ∧
        (connPre w c i client mount).tick.1.now = W0.now := by
      rw [hpre]; exact ⟨f2, f3, f6, f4, f5⟩
    generalize (connPre w c i client mount).tick.1 = W1 at hn1 hfr hlenPre
    split
    · rename_i e _
      obtain ⟨P, hP⟩ := broadcast_node (W1.setNode i { W1.node i with dist := (sessCreate (Wasp.Dist.sessDelete (w.node i).dist w.clock mdA.id).1 (w.clock + 1) ("S" ++ c) client 0 will mount).1 }) i (by simpa using hlenPre) e
      obtain ⟨_, g2, g3, g4, _, g6⟩ := broadcast_frame (W1.setNode i { W1.node i with dist := (sessCreate (Wasp.Dist.sessDelete (w.node i).dist w.clock mdA.id).1 (w.clock + 1) ("S" ++ c) client 0 will mount).1 }) i e
      refine ⟨⟨P, ?_⟩, by rw [g2]; exact hfr.1, by rw [g3]; exact hfr.2.1, by rw [g6]; simpa using hfr.2.2.1,
        by rw [g4]; exact hfr.2.2.2.1, by rw [‹(World.broadcast _ _ _).now = _›]; exact hfr.2.2.2.2⟩
      rw [hP, node_setNode_self _ _ _ hlenPre, hn1]
    · refine ⟨⟨P1, ?_⟩, hfr.1, hfr.2.1, by simpa using hfr.2.2.1, hfr.2.2.2.1, hfr.2.2.2.2⟩
      rw [node_setNode_self _ _ _ hlenPre, hn1]
  obtain ⟨⟨P, hP⟩, m2, m3, m4, m5, m6⟩ := hMid
  generalize connMid w c i client mount will = W at hP m2 m3 m4 m5 m6
  have hiW : i < W.nodes.length := by rw [m4]; exact hi0
  have hnow : W.now = w.now := by rw [m6, ← hW0]
  refine ⟨⟨P, ?_⟩, ?_, ?_, ?_, ?_⟩
  · rw [node_emit, node_setNode_self _ _ _ hiW, hP, hnow]
  · show W.conns = _; rw [m2, ← hW0]
  · show W.deaf = _; rw [m3, ← hW0]
  · rw [AgentC.emit_length, setNode_length, m4, ← hW0]
  · show W.out ++ _ = _; rw [m5, ← hW0]



/-! ### take-over: what the CONNECT operation leaves behind -/

/-- the world `w1` after a second connection `c` took over the client id of session `a` on node i -/
structure TakenOver (w w1 : World) (i : Nat) (a : Sess) (c : String) (ka : Nat) (will : Option Will) : Prop where
  len : w1.nodes.length = w.nodes.length
  conns : w1.conns = w.conns.filter (fun e => e.1 != c) ++ [(c, i)]
  deaf : w1.deaf = w.deaf.filter (· != c)
  out : w1.out = w.out.filter (fun e => e.1 != c) ++ [(c, Pkt.connack 0)]
  reg : (w1.node i).reg = (w.node i).reg ++ [connSess w.now c a.client a.mount ka will]
  resolves : ∃ md, sessByClientID (w1.node i).dist a.mount a.client = [md] ∧ md.id = "S" ++ c
  connA : w.conns.find? (fun e => e.1 == a.conn) = some (a.conn, i)
  idA : a.id = "S" ++ a.conn
  neA : a.conn ≠ c

theorem takeover_world (w : World) (hg : GlobalInv w) (h13 : Inv13 w) (i : Nat) (hi : i < w.nodes.length)
    (a : Sess) (ha : (w.node i).sess a.id = some a)
    (mdA : SessionMD) (hcur : sessByClientID (w.node i).dist a.mount a.client = [mdA]) (hcurid : mdA.id = a.id)
    (c : String) (hc : w.conns.any (fun e => e.1 == c) = false)
    (hrec : ∀ s, sessLookup ("S" ++ c) (w.node i).dist.sessions = some s → Wasp.Crdt.isAdded s.stamp = false)
    (ka : Nat) (will : Option Will) :
    TakenOver w (applyOp w (.connect c i a.client a.mount true ka will)) i a c ka will := by
  obtain ⟨hamem, _⟩ := sess_some ha
  have hconnA := hg.regConns i a hamem
  have hidA := hg.regConn i a hamem
  have hneA : a.conn ≠ c := by
    intro e
    have : w.conns.any (fun e => e.1 == c) = true := by
      rw [List.any_eq_true]
      exact ⟨(a.conn, i), List.mem_of_find?_eq_some hconnA, by simp [e]⟩
    rw [hc] at this
    cases this
  have hne : "S" ++ c ≠ mdA.id := by
    rw [hcurid, hidA]
    intro e
    exact hneA (AgentT5.S_inj e).symm
  have hmem : mdA ∈ (w.node i).dist.sessions := by
    have : mdA ∈ sessByClientID (w.node i).dist a.mount a.client := by rw [hcur]; simp
    exact (List.mem_filter.mp this).1
  have hold : mdA.added ≤ w.clock := by have := (h13.sc i).old mdA hmem; omega
  have hpos : 0 < w.clock + 1 := by have := hg.clockPos; omega
  obtain ⟨herr, hres⟩ := takeover_records (w.node i).dist a.mount a.client ("S" ++ c) will mdA w.clock (w.clock + 1)
    (h13.sc i).nodup hcur hold hpos hne hrec
  have happ : applyOp w (.connect c i a.client a.mount true ka will) =
      ({ w with out := w.out.filter (fun e => e.1 != c), deaf := w.deaf.filter (· != c) } : World).connect c i a.client a.mount true ka will := by
    simp only [applyOp, hc]
    rfl
  rw [happ]
  obtain ⟨⟨P, hP⟩, h2, h3, h4, h5⟩ := takeover_connect ({ w with out := w.out.filter (fun e => e.1 != c), deaf := w.deaf.filter (· != c) } : World) i hi c
    a.client a.mount ka will mdA hcur herr
  refine ⟨h4, h2, h3, h5, ?_, ⟨⟨"S" ++ c, a.client, a.mount, (w.node i).dist.peer, 0, will, w.clock + 1, 0⟩, ?_, rfl⟩,
    hconnA, hidA, hneA⟩
  · rw [hP]; rfl
  · rw [hP]; exact hres



/-! ### take-over: the keep-alive exchanges afterwards -/

theorem any_of_find {l : List (String × Nat)} {x : String} {v : String × Nat}
    (h : l.find? (fun e => e.1 == x) = some v) : l.any (fun e => e.1 == x) = true := by
  rw [List.any_eq_true]
  have h2 := List.find?_some h
  exact ⟨v, List.mem_of_find?_eq_some h, h2⟩

theorem sess_append_old (n : Node) (s0 : Sess) (sid : String) (s : Sess) (h : n.sess sid = some s) :
    Node.sess { n with reg := n.reg ++ [s0] } sid = some s := by
  unfold Node.sess at h ⊢
  simp [List.find?_append, h]

theorem contains_filter_ne_self (l : List String) (c : String) : (l.filter (· != c)).contains c = false := by
  rw [Bool.eq_false_iff]
  intro h
  have := List.mem_filter.mp (List.contains_iff_mem.mp h)
  simp at this

theorem contains_filter_ne_of_false (l : List String) (c x : String) (h : l.contains x = false) :
    (l.filter (· != c)).contains x = false := by
  rw [Bool.eq_false_iff] at h ⊢
  intro h2
  exact h (List.contains_iff_mem.mpr (List.mem_filter.mp (List.contains_iff_mem.mp h2)).1)

/-- the displaced session's next PINGREQ ends it: unregistered, only `closed` written, no log changed -/
theorem takeover_old_ends {w w1 : World} {i : Nat} {a : Sess} {c : String} {ka : Nat} {will : Option Will}
    (hT : TakenOver w w1 i a c ka will) (hi : i < w.nodes.length) (ha : (w.node i).sess a.id = some a)
    (hdeafA : w.deaf.contains a.conn = false) :
    ((applyOp w1 (.packet a.conn .pingreq)).node i).sess a.id = none ∧
    (applyOp w1 (.packet a.conn .pingreq)).out = w1.out ++ [(a.conn, Pkt.closed)] ∧
    ∀ j, ((applyOp w1 (.packet a.conn .pingreq)).node j).log = (w1.node j).log := by
  have hi1 : i < w1.nodes.length := by rw [hT.len]; exact hi
  have hfind : w1.conns.find? (fun e => e.1 == a.conn) = some (a.conn, i) := by
    rw [hT.conns]
    exact AgentT5.find_reassign _ _ _ _ hT.neA _ hT.connA
  have hwr : writable w1 a.conn = true := by
    unfold writable
    rw [any_of_find hfind, hT.deaf, contains_filter_ne_of_false _ _ _ hdeafA]
    rfl
  have hs1 : (w1.node i).sess a.id = some a := by
    have := sess_append_old (w.node i) (connSess w.now c a.client a.mount ka will) a.id a ha
    unfold Node.sess at this ⊢
    rw [hT.reg]
    exact this
  obtain ⟨md, hmd, hmdid⟩ := hT.resolves
  have hproc : w1.process i a.id .pingreq = (w1, .disconnected) := by
    apply C12_ping_displaced w1 i a.id a hs1
    intro md' hh
    rw [hmd] at hh
    simp only [List.head?_cons, Option.some.injEq] at hh
    subst hh
    rw [hmdid, hT.idA]
    intro e
    exact hT.neA (AgentT5.S_inj e).symm
  have hstep : applyOp w1 (.packet a.conn .pingreq) =
      (w1.setNode i ((w1.node i).setSess { a with disconnected := true })).shutdownSession i a.id := by
    simp only [applyOp, hwr, if_true]
    unfold World.clientPacket
    simp only [hfind, ← hT.idA, hs1, Option.isNone_some, Bool.false_eq_true, if_false, hproc]
  rw [hstep]
  generalize hW : w1.setNode i ((w1.node i).setSess { a with disconnected := true }) = W
  have hiW : i < W.nodes.length := by rw [← hW]; simpa using hi1
  have hsW : (W.node i).sess a.id = some { a with disconnected := true } := by
    rw [← hW, node_setNode_self _ _ _ hi1]
    exact AgentC.sess_setSess _ _ _ _ hs1 rfl
  have hlogW : ∀ j, (W.node j).log = (w1.node j).log := by
    intro j
    rw [← hW, node_setNode]
    split
    · rename_i hji; rw [hji.1]; rfl
    · rfl
  refine ⟨C13_unregistered_after W i a.id hiW, ?_, fun j => ?_⟩
  · rw [C13_shutdown_eq W i a.id _ hsW rfl]
    simp only [ite_self, if_true]
    rw [teardown_out]
    rw [← hW]
    rfl
  · rw [C13_clean_no_will W i a.id _ hsW rfl rfl j]
    exact hlogW j

/-- the new session's PINGREQ is answered -/
theorem takeover_new_answered {w w1 : World} {i : Nat} {a : Sess} {c : String} {ka : Nat} {will : Option Will}
    (hT : TakenOver w w1 i a c ka will) (hcs : (w.node i).sess ("S" ++ c) = none) :
    (applyOp w1 (.packet c .pingreq)).out = w1.out ++ [(c, Pkt.pingresp)] := by
  have hfind : w1.conns.find? (fun e => e.1 == c) = some (c, i) := by
    rw [hT.conns]
    exact AgentT1.find_filter_append_self _ _ _
  have hwr : writable w1 c = true := by
    unfold writable
    rw [any_of_find hfind, hT.deaf, contains_filter_ne_self]
    rfl
  have hs1 : (w1.node i).sess ("S" ++ c) = some (connSess w.now c a.client a.mount ka will) := by
    have := sess_append_new (w.node i) (connSess w.now c a.client a.mount ka will) hcs
    unfold Node.sess at this ⊢
    rw [hT.reg]
    exact this
  obtain ⟨md, hmd, hmdid⟩ := hT.resolves
  have hproc : w1.process i ("S" ++ c) .pingreq = (w1.emit c .pingresp, .ok) := by
    refine C12_ping_current w1 i ("S" ++ c) (connSess w.now c a.client a.mount ka will) hs1 md ?_ hmdid
    show (sessByClientID (w1.node i).dist a.mount a.client).head? = some md
    rw [hmd]
    rfl
  simp only [applyOp, hwr, if_true]
  unfold World.clientPacket
  simp only [hfind, hs1, Option.isNone_some, Bool.false_eq_true, if_false, hproc]
  simp


end invariants

end Wasp.Broker.AgentT13

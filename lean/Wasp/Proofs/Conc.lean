import Wasp.Model.Conc
/-!
Helper lemmas for C20 (lock machine and resolution machine of `Wasp.Model.Conc`).
-/
namespace Wasp.Conc.Proofs
open Wasp.Conc

/-! ## resolution machine -/

/-- the key a program counter has claimed, if any -/
def claimOf : Pc → Option Key
  | .ackFire k => some k
  | .sweepFire k _ => some k
  | _ => none

theorem claimed_eq (s : QState) : claimed s = s.pcs.filterMap claimOf := by
  unfold claimed
  congr

def cnt (k : Key) (o : Option Key) : Nat := if o = some k then 1 else 0

theorem count_filterMap_set (f : Pc → Option Key) (k : Key) :
    ∀ (pcs : List Pc) (t : Nat) (pc pc' : Pc), pcs[t]? = some pc →
      ((pcs.set t pc').filterMap f).count k + cnt k (f pc)
        = (pcs.filterMap f).count k + cnt k (f pc') := by
  intro pcs
  induction pcs with
  | nil => intro t pc pc' h; simp at h
  | cons a as ih =>
    intro t pc pc' h
    cases t with
    | zero =>
      simp at h
      subst h
      simp only [List.set_cons_zero, List.filterMap_cons, cnt]
      cases h1 : f a <;> cases h2 : f pc' <;> simp [List.count_cons] <;> grind
    | succ t =>
      simp at h
      have := ih t pc pc' h
      simp only [List.set_cons_succ, List.filterMap_cons]
      cases h1 : f a <;> simp [List.count_cons] <;> omega

/-- the invariant of the resolution machine -/
def QInv (s : QState) : Prop :=
  (∀ k, s.resolved.count k + (claimed s).count k + s.present.count k = s.accepted.count k) ∧
  s.present.Nodup

theorem claimed_setPc (s : QState) (t : Nat) (pc pc' : Pc) (k : Key) (h : s.pcs[t]? = some pc)
    (s' : QState) (hs' : s'.pcs = s.pcs.set t pc') :
    (claimed s').count k + cnt k (claimOf pc) = (claimed s).count k + cnt k (claimOf pc') := by
  rw [claimed_eq, claimed_eq, hs']
  exact count_filterMap_set claimOf k s.pcs t pc pc' h

theorem count_erase_contains (l : List Key) (k k' : Key) (h : l.contains k = true) :
    (l.erase k).count k' + (if k = k' then 1 else 0) = l.count k' := by
  have hm : k ∈ l := by simpa using h
  by_cases hk : k = k'
  · subst hk
    have := List.count_pos_iff.mpr hm
    simp [List.count_erase_self]; omega
  · simp [hk, List.count_erase_of_ne (Ne.symm hk)]

/-- generic step: the pc of thread t changes from pc to pc', the logs change by the given deltas -/
theorem qinv_step (s s' : QState) (t : Nat) (pc pc' : Pc) (h : QInv s) (hpc : s.pcs[t]? = some pc)
    (hpcs : s'.pcs = s.pcs.set t pc') (hnd : s'.present.Nodup)
    (hk : ∀ k, s'.resolved.count k + cnt k (claimOf pc') + s'.present.count k + s.accepted.count k
             = s.resolved.count k + cnt k (claimOf pc) + s.present.count k + s'.accepted.count k) :
    QInv s' := by
  refine ⟨fun k => ?_, hnd⟩
  have h1 := claimed_setPc s t pc pc' k hpc s' hpcs
  have h2 := h.1 k
  have h3 := hk k
  omega

theorem qstep_inv (s : QState) (t : Nat) (h : QInv s) : QInv (qstep s t) := by
  have hnd := h.2
  unfold qstep
  cases hpc : s.pcs[t]? with
  | none => exact h
  | some pc =>
    simp only
    cases pc with
    | insertStart k =>
      simp only
      split
      · exact qinv_step s _ t _ .done h hpc rfl hnd (by simp [claimOf, cnt])
      · rename_i hc
        refine qinv_step s _ t _ (.insertTimer k) h hpc rfl ?_ ?_
        · simp at hc; simp [hc, hnd]
        · intro k'; simp [claimOf, cnt, List.count_cons]; omega
    | insertTimer k =>
      exact qinv_step s _ t _ .done h hpc rfl hnd (by simp [claimOf, cnt])
    | ackStart k ok =>
      simp only
      split
      · exact qinv_step s _ t _ (.ackDelete k) h hpc rfl hnd (by simp [claimOf, cnt])
      · exact qinv_step s _ t _ .done h hpc rfl hnd (by simp [claimOf, cnt])
    | ackDelete k =>
      simp only
      split
      · rename_i hc
        refine qinv_step s _ t _ (.ackFire k) h hpc rfl (hnd.erase k) ?_
        intro k'
        have := count_erase_contains s.present k k' hc
        by_cases hkk : k = k' <;> simp [claimOf, cnt, hkk] at this ⊢ <;> omega
      · exact qinv_step s _ t _ .done h hpc rfl hnd (by simp [claimOf, cnt])
    | ackFire k =>
      refine qinv_step s _ t _ .done h hpc rfl hnd ?_
      intro k'
      by_cases hkk : k = k' <;> simp [claimOf, cnt, hkk]
    | sweepPop =>
      exact qinv_step s _ t _ (.sweepDelete s.timers) h hpc rfl hnd (by simp [claimOf, cnt])
    | sweepDelete ks =>
      cases ks with
      | nil => exact qinv_step s _ t _ .done h hpc rfl hnd (by simp [claimOf, cnt])
      | cons k ks =>
        simp only
        split
        · rename_i hc
          refine qinv_step s _ t _ (.sweepFire k ks) h hpc rfl (hnd.erase k) ?_
          intro k'
          have := count_erase_contains s.present k k' hc
          by_cases hkk : k = k' <;> simp [claimOf, cnt, hkk] at this ⊢ <;> omega
        · exact qinv_step s _ t _ (.sweepDelete ks) h hpc rfl hnd (by simp [claimOf, cnt])
    | sweepFire k ks =>
      refine qinv_step s _ t _ (.sweepDelete ks) h hpc rfl hnd ?_
      intro k'
      by_cases hkk : k = k' <;> simp [claimOf, cnt, hkk]
    | done => exact h

theorem qrun_inv (sched : List Nat) : ∀ (s : QState), QInv s → QInv (qrun s sched) := by
  induction sched with
  | nil => intro s h; exact h
  | cons t ts ih => intro s h; exact ih _ (qstep_inv s t h)

theorem qinv_start (pcs : List Pc)
    (hstart : ∀ pc ∈ pcs, (∃ k, pc = .insertStart k) ∨ (∃ k b, pc = .ackStart k b) ∨ pc = .sweepPop ∨ pc = .done) :
    QInv { pcs := pcs } := by
  refine ⟨fun k => ?_, by simp⟩
  have : claimed { pcs := pcs } = [] := by
    rw [claimed_eq]
    simp only [List.filterMap_eq_nil_iff]
    intro pc hm
    rcases hstart pc hm with ⟨k, rfl⟩ | ⟨k, b, rfl⟩ | rfl | rfl <;> rfl
  simp [this]

/-! ## lock machine -/

theorem holdersOf_setHolders_self (l : Nat) (hs : Holders) (h : List (Nat × Holders)) :
    holdersOf l (setHolders l hs h) = hs := by
  simp [holdersOf, setHolders]

theorem holdersOf_setHolders_ne (l l' : Nat) (hs : Holders) (h : List (Nat × Holders)) (hne : l' ≠ l) :
    holdersOf l' (setHolders l hs h) = holdersOf l' h := by
  have hne' : (l == l') = false := by simp; exact fun e => hne e.symm
  simp only [holdersOf, setHolders, List.find?_cons, hne']
  congr 1
  induction h with
  | nil => rfl
  | cons e es ih =>
    by_cases h1 : e.1 = l
    · have : (e.1 == l') = false := by simp [h1]; exact fun e => hne e.symm
      simp [h1, hne', ih]
    · simp [h1, List.find?_cons, ih]

/-- invariant of the lock machine (relative to the initial programs) -/
def LInv (progs : List (List Act)) (s : LState) : Prop :=
  (∀ t p, s.progs[t]? = some p → ∃ p0 cur, progs[t]? = some p0 ∧
      (∀ a ∈ scanAccesses cur p, a ∈ scanAccesses [] p0) ∧
      ∀ l m, (l, m) ∈ cur → (t, m) ∈ holdersOf l s.held) ∧
  (∀ l, (holdersOf l s.held).all (fun e => e.2 == .shared) = true ∨ (holdersOf l s.held).length ≤ 1)

theorem linv_init (progs : List (List Act)) : LInv progs { progs := progs, held := [] } := by
  refine ⟨fun t p h => ⟨p, [], h, fun a ha => ha, by simp⟩, fun l => ?_⟩
  simp [holdersOf]


theorem linv_acquire (progs : List (List Act)) (s : LState) (t l : Nat) (m : Mode) (rest : List Act)
    (h : LInv progs s) (hp : s.progs[t]? = some (.acquire l m :: rest))
    (hcan : canAcquire (holdersOf l s.held) m = true) :
    LInv progs { progs := s.progs.set t rest, held := setHolders l ((t, m) :: holdersOf l s.held) s.held } := by
  obtain ⟨h1, h2⟩ := h
  refine ⟨fun t' p hp' => ?_, fun l' => ?_⟩
  · simp only [List.getElem?_set] at hp'
    by_cases htt : t = t'
    · subst htt
      obtain ⟨p0, cur, hp0, hsc, hh⟩ := h1 t _ hp
      have hpr : p = rest := by
        split at hp' <;> simp_all
      subst hpr
      refine ⟨p0, (l, m) :: cur, hp0, ?_, ?_⟩
      · simpa [scanAccesses] using hsc
      · intro l' m' hm
        by_cases hl : l' = l
        · subst hl
          rw [holdersOf_setHolders_self]
          simp only [List.mem_cons, Prod.mk.injEq, true_and] at hm
          rcases hm with rfl | hm
          · simp
          · exact List.mem_cons_of_mem _ (hh _ _ hm)
        · rw [holdersOf_setHolders_ne _ _ _ _ hl]
          simp only [List.mem_cons, Prod.mk.injEq] at hm
          rcases hm with ⟨rfl, _⟩ | hm
          · exact absurd rfl hl
          · exact hh _ _ hm
    · simp only [htt, if_false] at hp'
      obtain ⟨p0, cur, hp0, hsc, hh⟩ := h1 t' _ hp'
      refine ⟨p0, cur, hp0, hsc, ?_⟩
      intro l' m' hm
      by_cases hl : l' = l
      · subst hl
        rw [holdersOf_setHolders_self]
        exact List.mem_cons_of_mem _ (hh _ _ hm)
      · rw [holdersOf_setHolders_ne _ _ _ _ hl]
        exact hh _ _ hm
  · by_cases hl : l' = l
    · subst hl
      rw [holdersOf_setHolders_self]
      cases m with
      | exclusive =>
        simp only [canAcquire, List.isEmpty_iff] at hcan
        right; simp [hcan]
      | shared =>
        simp only [canAcquire] at hcan
        left; simp only [List.all_cons, hcan]; rfl
    · rw [holdersOf_setHolders_ne _ _ _ _ hl]
      exact h2 l'

theorem linv_release (progs : List (List Act)) (s : LState) (t l : Nat) (rest : List Act)
    (h : LInv progs s) (hp : s.progs[t]? = some (.release l :: rest)) :
    LInv progs { progs := s.progs.set t rest,
                 held := setHolders l ((holdersOf l s.held).filter (fun e => e.1 != t)) s.held } := by
  obtain ⟨h1, h2⟩ := h
  refine ⟨fun t' p hp' => ?_, fun l' => ?_⟩
  · simp only [List.getElem?_set] at hp'
    by_cases htt : t = t'
    · subst htt
      obtain ⟨p0, cur, hp0, hsc, hh⟩ := h1 t _ hp
      have hpr : p = rest := by
        split at hp' <;> simp_all
      subst hpr
      refine ⟨p0, cur.filter (fun e => e.1 != l), hp0, ?_, ?_⟩
      · simpa [scanAccesses] using hsc
      · intro l' m' hm
        simp only [List.mem_filter, bne_iff_ne, ne_eq] at hm
        rw [holdersOf_setHolders_ne _ _ _ _ hm.2]
        exact hh _ _ hm.1
    · simp only [htt, if_false] at hp'
      obtain ⟨p0, cur, hp0, hsc, hh⟩ := h1 t' _ hp'
      refine ⟨p0, cur, hp0, hsc, ?_⟩
      intro l' m' hm
      by_cases hl : l' = l
      · subst hl
        rw [holdersOf_setHolders_self]
        simp only [List.mem_filter, bne_iff_ne, ne_eq]
        exact ⟨hh _ _ hm, fun e => htt e.symm⟩
      · rw [holdersOf_setHolders_ne _ _ _ _ hl]
        exact hh _ _ hm
  · by_cases hl : l' = l
    · subst hl
      rw [holdersOf_setHolders_self]
      rcases h2 l' with h | h
      · left
        rw [List.all_eq_true] at h ⊢
        intro x hx
        exact h x (List.mem_filter.mp hx).1
      · right
        exact Nat.le_trans (List.length_filter_le _ _) h
    · rw [holdersOf_setHolders_ne _ _ _ _ hl]
      exact h2 l'

theorem linv_access (progs : List (List Act)) (s : LState) (t loc : Nat) (w : Bool) (rest : List Act)
    (h : LInv progs s) (hp : s.progs[t]? = some (.access loc w :: rest)) :
    LInv progs { s with progs := s.progs.set t rest } := by
  obtain ⟨h1, h2⟩ := h
  refine ⟨fun t' p hp' => ?_, h2⟩
  simp only [List.getElem?_set] at hp'
  by_cases htt : t = t'
  · subst htt
    obtain ⟨p0, cur, hp0, hsc, hh⟩ := h1 t _ hp
    have hpr : p = rest := by
      split at hp' <;> simp_all
    subst hpr
    refine ⟨p0, cur, hp0, ?_, hh⟩
    intro a ha
    exact hsc a (by simp [scanAccesses, ha])
  · simp only [htt, if_false] at hp'
    exact h1 t' _ hp'

theorem linv_step (progs : List (List Act)) (s s' : LState) (t : Nat) (h : LInv progs s)
    (hs : stepThread s t = some s') : LInv progs s' := by
  unfold stepThread at hs
  split at hs
  · simp at hs
  · simp at hs
  · rename_i a rest hp
    cases a with
    | acquire l m =>
      simp only at hs
      split at hs
      · rename_i hc
        simp only [Option.some.injEq] at hs
        subst hs
        exact linv_acquire progs s t l m rest h hp hc.1
      · simp at hs
    | release l =>
      simp only [Option.some.injEq] at hs
      subst hs
      exact linv_release progs s t l rest h hp
    | access loc w =>
      simp only [Option.some.injEq] at hs
      subst hs
      exact linv_access progs s t loc w rest h hp

theorem linv_run (progs : List (List Act)) (sched : List Nat) :
    ∀ s, LInv progs s → LInv progs (runSchedule s sched) := by
  induction sched with
  | nil => intro s h; exact h
  | cons t ts ih =>
    intro s h
    simp only [runSchedule]
    apply ih
    cases hs : stepThread s t with
    | none => exact h
    | some s' => exact linv_step progs s s' t h hs


theorem nextAccess_some (s : LState) (t loc : Nat) (w : Bool) (h : nextAccess s t = some (loc, w)) :
    ∃ rest, s.progs[t]? = some (.access loc w :: rest) := by
  unfold nextAccess at h
  split at h
  · rename_i loc' w' rest hp
    simp only [Option.some.injEq, Prod.mk.injEq] at h
    obtain ⟨rfl, rfl⟩ := h
    exact ⟨rest, hp⟩
  · simp at h

theorem linv_no_race (progs : List (List Act)) (hd : Disciplined progs) (s : LState) (h : LInv progs s) :
    ¬ raceState s := by
  rintro ⟨t₁, t₂, loc, w₁, w₂, hne, ha₁, ha₂, hw⟩
  obtain ⟨r₁, hp₁⟩ := nextAccess_some s t₁ loc w₁ ha₁
  obtain ⟨r₂, hp₂⟩ := nextAccess_some s t₂ loc w₂ ha₂
  obtain ⟨p₁, c₁, hq₁, hs₁, hh₁⟩ := h.1 t₁ _ hp₁
  obtain ⟨p₂, c₂, hq₂, hs₂, hh₂⟩ := h.1 t₂ _ hp₂
  have m₁ := hs₁ (loc, w₁, c₁) (by simp [scanAccesses])
  have m₂ := hs₂ (loc, w₂, c₂) (by simp [scanAccesses])
  have hpp := hd.2 t₁ t₂ p₁ p₂ hne hq₁ hq₂ _ m₁ _ m₂ rfl hw
  simp only [protectedPair, List.any_eq_true, Bool.and_eq_true, Bool.or_eq_true, beq_iff_eq] at hpp
  obtain ⟨⟨l, x⟩, hx, ⟨l', y⟩, hy, hll, hex⟩ := hpp
  simp only at hll hex
  subst hll
  have g₁ := hh₁ _ _ hx
  have g₂ := hh₂ _ _ hy
  rcases h.2 l with hall | hlen
  · rw [List.all_eq_true] at hall
    have e₁ := hall _ g₁
    have e₂ := hall _ g₂
    simp only [beq_iff_eq] at e₁ e₂
    rcases hex with rfl | rfl <;> simp_all
  · generalize holdersOf l s.held = H at *
    match H, hlen, g₁, g₂ with
    | [], _, g₁, _ => simp at g₁
    | [e], _, g₁, g₂ =>
      simp only [List.mem_singleton] at g₁ g₂
      rw [← g₁] at g₂
      simp only [Prod.mk.injEq] at g₂
      exact hne g₂.1.symm

end Wasp.Conc.Proofs

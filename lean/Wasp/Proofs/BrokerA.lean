import Wasp.Model.Broker
import Wasp.Proofs.Generated
import Wasp.Proofs.Dist
/-! Helper lemmas for Properties/C17 and Properties/C13 (agent A). -/
namespace Wasp.Broker.AgentA
open Wasp.Dist Wasp.Topic Wasp.Broker

/-! ## strings, `next`, `levels` -/

theorem slash_toList : ("/" : String).toList = ['/'] := by decide

theorem prefix_toList (m t : String) : (prefixMountPoint m t).toList = m.toList ++ '/' :: t.toList := by
  simp [prefixMountPoint, String.toList_append, slash_toList]

theorem prefix_length (m t : String) : (prefixMountPoint m t).length = m.length + 1 + t.length := by
  rw [← String.length_toList, prefix_toList]
  simp [String.length_toList]
  omega

theorem next_split (a b : List Char) (h : '/' ∉ a) : next (a ++ '/' :: b) = (some b, a) := by
  induction a with
  | nil => simp [next]
  | cons c cs ih =>
    have hc : c ≠ '/' := by intro e; apply h; simp [e]
    have hcs : '/' ∉ cs := by intro e; apply h; simp [e]
    simp [next, hc, ih hcs]

theorem levelsAux_fuel (f : Nat) : ∀ (g : Nat) (t : List Char), t.length < f → t.length < g →
    levelsAux f t = levelsAux g t := by
  induction f with
  | zero => intro g t h; omega
  | succ f ih =>
    intro g t hf hg
    cases g with
    | zero => omega
    | succ g =>
      simp only [levelsAux]
      cases hn : next t with
      | mk r tok =>
        cases r with
        | none => rfl
        | some rest =>
          have ht := next_some t rest tok hn
          have hlen : t.length = tok.length + 1 + rest.length := by
            have := congrArg List.length ht
            simp at this
            omega
          simp only
          rw [ih g rest (by omega) (by omega)]

theorem levelsAux_succ_some (f : Nat) (t r tok : List Char) (h : next t = (some r, tok)) :
    levelsAux (f + 1) t = String.ofList tok :: levelsAux f r := by
  simp only [levelsAux, h]

theorem levels_prefix (m t : String) (hm : '/' ∉ m.toList) :
    levels (prefixMountPoint m t) = m :: levels t := by
  unfold levels
  rw [prefix_toList, prefix_length, levelsAux_succ_some _ _ _ _ (next_split _ _ hm), String.ofList_toList]
  congr 1
  apply levelsAux_fuel <;> simp [String.length_toList] <;> omega

theorem trim_prefix (m t : String) : trimMountPoint m (prefixMountPoint m t) = t := by
  unfold trimMountPoint
  rw [prefix_toList]
  have : m.length + 1 = (m.toList ++ ['/']).length := by simp [String.length_toList]
  rw [this, show m.toList ++ '/' :: t.toList = (m.toList ++ ['/']) ++ t.toList by simp, List.drop_left]
  exact String.ofList_toList

theorem match_cons_lit (m₁ m₂ : String) (fs ts : List Level) (h1 : m₁ ≠ "+") (h2 : m₁ ≠ "#") :
    mqttMatch (m₁ :: fs) (m₂ :: ts) = ((m₁ == m₂) && mqttMatch fs ts) := by
  have e1 : (m₁ == "+") = false := by simpa using h1
  have e2 : (m₁ == "#") = false := by simpa using h2
  simp [mqttMatch, e1, e2]

/-! ## worlds: `setNode`, frames -/

theorem node_setNode (w : World) (i : Nat) (n : Node) (j : Nat) :
    (w.setNode i n).node j = if j = i ∧ i < w.nodes.length then n else w.node j := by
  unfold World.setNode World.node
  simp only [List.getD_eq_getElem?_getD, List.getElem?_set]
  by_cases hji : j = i
  · subst hji
    by_cases hl : j < w.nodes.length <;> simp [hl]
  · have : ¬ i = j := fun e => hji e.symm
    simp [hji, this]

theorem node_setNode_self (w : World) (i : Nat) (n : Node) (h : i < w.nodes.length) :
    (w.setNode i n).node i = n := by
  rw [node_setNode]; simp [h]

theorem node_setNode_ne (w : World) (i : Nat) (n : Node) (j : Nat) (h : j ≠ i) :
    (w.setNode i n).node j = w.node j := by
  rw [node_setNode]; simp [h]

theorem node_setNode_ge (w : World) (i : Nat) (n : Node) (j : Nat) (h : ¬ i < w.nodes.length) :
    (w.setNode i n).node j = w.node j := by
  rw [node_setNode]; simp [h]

@[simp] theorem length_setNode (w : World) (i : Nat) (n : Node) :
    (w.setNode i n).nodes.length = w.nodes.length := by
  simp [World.setNode]

/-- `w'` has as many nodes as `w`, and the observation `F` of every node is unchanged -/
def WFrame {α : Type} (F : Node → α) (w w' : World) : Prop :=
  w'.nodes.length = w.nodes.length ∧ ∀ j, F (w'.node j) = F (w.node j)

theorem WFrame.refl {α : Type} (F : Node → α) (w : World) : WFrame F w w := ⟨rfl, fun _ => rfl⟩

theorem WFrame.trans {α : Type} {F : Node → α} {w₁ w₂ w₃ : World}
    (h₁ : WFrame F w₁ w₂) (h₂ : WFrame F w₂ w₃) : WFrame F w₁ w₃ :=
  ⟨h₂.1.trans h₁.1, fun j => (h₂.2 j).trans (h₁.2 j)⟩

/-- composition, last step first (so that the intermediate world is found by unification) -/
theorem WFrame.after {α : Type} {F : Node → α} {w₁ w₂ w₃ : World}
    (h₂ : WFrame F w₂ w₃) (h₁ : WFrame F w₁ w₂) : WFrame F w₁ w₃ := h₁.trans h₂

theorem WFrame.of_nodes {α : Type} (F : Node → α) {w w' : World} (h : w'.nodes = w.nodes) : WFrame F w w' :=
  ⟨by rw [h], fun j => by simp [World.node, h]⟩

theorem WFrame.setNode {α : Type} {F : Node → α} (w : World) (i : Nat) (n : Node)
    (h : F n = F (w.node i)) : WFrame F w (w.setNode i n) := by
  refine ⟨length_setNode _ _ _, fun j => ?_⟩
  rw [node_setNode]
  split
  · rename_i hc; rw [hc.1]; exact h
  · rfl

theorem WFrame.emit {α : Type} (F : Node → α) (w : World) (c : String) (p : Pkt) : WFrame F w (w.emit c p) :=
  WFrame.of_nodes F rfl

/-- observations of a node that do not depend on the fields the writer and the replicated-state
    operations touch -/
structure NFrame {α : Type} (F : Node → α) : Prop where
  dist : ∀ (n : Node) d, F { n with dist := d } = F n
  pending : ∀ (n : Node) p, F { n with pending := p } = F n
  setSess : ∀ (n : Node) s, F (n.setSess s) = F n
  acks : ∀ (n : Node) a st, F { n with acks := a, stored := st } = F n
  pool : ∀ (n : Node) p, F { n with pool := p } = F n

theorem NFrame.log : NFrame (fun n : Node => n.log) := ⟨fun _ _ => rfl, fun _ _ => rfl, fun _ _ => rfl, fun _ _ _ => rfl, fun _ _ => rfl⟩

theorem NFrame.logAll : NFrame (fun n : Node => (n.log, n.logFailAll, n.logFailAt)) :=
  ⟨fun _ _ => rfl, fun _ _ => rfl, fun _ _ => rfl, fun _ _ _ => rfl, fun _ _ => rfl⟩

theorem NFrame.ids : NFrame (fun n : Node => n.reg.map (·.id)) := by
  refine ⟨fun _ _ => rfl, fun _ _ => rfl, fun n s => ?_, fun _ _ _ => rfl, fun _ _ => rfl⟩
  simp only [Node.setSess, List.map_map]
  apply List.map_congr_left
  intro x _
  simp only [Function.comp]
  split
  · rename_i h; exact (beq_iff_eq.mp h).symm
  · rfl

theorem sess_eq_none_iff (n : Node) (sid : String) : n.sess sid = none ↔ sid ∉ n.reg.map (·.id) := by
  simp only [Node.sess, List.find?_eq_none, List.mem_map, beq_iff_eq]
  constructor
  · rintro h ⟨x, hx, e⟩; exact h x hx e
  · intro h x hx e; exact h ⟨x, hx, e⟩

theorem sess_some_id {n : Node} {sid : String} {s : Sess} (h : n.sess sid = some s) : s.id = sid := by
  have := List.find?_some h
  simpa using this

theorem appendLog_ids (n : Node) (p : Pub) : (n.appendLog p).1.reg.map (·.id) = n.reg.map (·.id) := by
  unfold Node.appendLog
  simp only []
  split <;> rfl

theorem appendLog_ok (n : Node) (p : Pub) (h1 : n.logFailAll = false) (h2 : n.logFailAt = []) :
    n.appendLog p = ({ n with logCalls := n.logCalls + 1, log := n.log ++ [p] }, true) := by
  unfold Node.appendLog
  simp [h1, h2]

/-- the first step of `shutdownSession`: the session leaves the registry of node i -/
def regFiltered (w : World) (i : Nat) (id : String) : World :=
  w.setNode i { w.node i with reg := (w.node i).reg.filter (fun x => x.id != id) }

theorem regFiltered_log (w : World) (i : Nat) (id : String) :
    WFrame (fun n : Node => n.log) w (regFiltered w i id) :=
  WFrame.setNode w i _ rfl

theorem regFiltered_sess (w : World) (i : Nat) (id : String) (hi : i < w.nodes.length) :
    ((regFiltered w i id).node i).sess id = none := by
  unfold regFiltered
  rw [node_setNode_self _ _ _ hi, sess_eq_none_iff]
  simp

section frames
variable {α : Type} {F : Node → α}

theorem broadcast_frame (hF : NFrame F) (w : World) (i : Nat) (ev : Event) : WFrame F w (w.broadcast i ev) := by
  unfold World.broadcast
  exact WFrame.setNode _ _ _ (hF.pending _ _)

theorem tick_frame (F : Node → α) (w : World) : WFrame F w w.tick.1 := WFrame.of_nodes F rfl

theorem subDelete_frame (hF : NFrame F) (w : World) (i : Nat) (sid pat : String) :
    WFrame F w (w.subDelete i sid pat) := by
  unfold World.subDelete
  simp only []
  refine WFrame.after (broadcast_frame hF _ _ _) ?_
  refine WFrame.after (WFrame.setNode _ _ _ (hF.dist _ _)) ?_
  exact tick_frame F w

theorem sessDelete_frame (hF : NFrame F) (w : World) (i : Nat) (sid : String) :
    WFrame F w (w.sessDelete i sid) := by
  unfold World.sessDelete
  simp only []
  have h1 : WFrame F w (w.tick.1.setNode i { w.tick.1.node i with dist := (Wasp.Dist.sessDelete (w.tick.1.node i).dist w.tick.2 sid).1 }) :=
    WFrame.after (WFrame.setNode _ _ _ (hF.dist _ _)) (tick_frame F w)
  split
  · exact WFrame.after (broadcast_frame hF _ _ _) h1
  · exact h1

theorem foldl_frame {β : Type} (f : World → β → World) (hf : ∀ w b, WFrame F w (f w b)) (l : List β) (w : World) :
    WFrame F w (l.foldl f w) := by
  induction l generalizing w with
  | nil => exact WFrame.refl F w
  | cons b rest ih => exact (hf w b).trans (ih _)

theorem extendDeadline_frame (hF : NFrame F) (w : World) (i : Nat) (sid : String) :
    WFrame F w (w.extendDeadline i sid) := by
  unfold World.extendDeadline
  simp only []
  split
  · exact WFrame.setNode _ _ _ (hF.setSess _ _)
  · exact WFrame.refl F w

theorem poolPut_frame (hF : NFrame F) (w : World) (i : Nat) (mid : Int) : WFrame F w (w.poolPut i mid) := by
  unfold World.poolPut
  exact WFrame.setNode _ _ _ (hF.pool _ _)

theorem armAndSend_frame (hF : NFrame F) (w : World) (i : Nat) (st : Stored) : WFrame F w (w.armAndSend i st) := by
  unfold World.armAndSend
  cases st with
  | out1 sid topic payload retain dup mid =>
    simp only []
    split
    · exact WFrame.refl F w
    · split
      · exact WFrame.after (WFrame.emit F _ _ _) (WFrame.after (WFrame.setNode _ _ _ (hF.acks _ _ _)) (extendDeadline_frame hF _ _ _))
      · exact extendDeadline_frame hF _ _ _
  | out2 sid topic payload retain dup mid =>
    simp only []
    split
    · exact WFrame.refl F w
    · split
      · exact WFrame.after (WFrame.emit F _ _ _) (WFrame.after (WFrame.setNode _ _ _ (hF.acks _ _ _)) (extendDeadline_frame hF _ _ _))
      · exact extendDeadline_frame hF _ _ _
  | rel sid mid =>
    simp only []
    split
    · exact WFrame.refl F w
    · refine WFrame.after (WFrame.emit F _ _ _) (WFrame.after (WFrame.setNode _ _ _ ?_) (extendDeadline_frame hF _ _ _))
      split
      · exact hF.acks _ _ _
      · rfl
  | inbound a b c d => exact WFrame.refl F w

theorem sendArmed_frame (hF : NFrame F) (w : World) (i : Nat) (st : Stored) (sid : String) (mid : Int) :
    WFrame F w (w.sendArmed i st sid mid) := by
  unfold World.sendArmed
  simp only []
  split
  · exact WFrame.after (poolPut_frame hF _ _ _) (armAndSend_frame hF _ _ _)
  · exact armAndSend_frame hF _ _ _

theorem send_frame (hF : NFrame F) (i : Nat) (p : Pub) (rcpt : List (String × Int)) :
    ∀ w : World, WFrame F w (w.send i rcpt p) := by
  induction rcpt with
  | nil => intro w; exact WFrame.refl F w
  | cons hd rest ih =>
    intro w
    obtain ⟨sid, qos⟩ := hd
    unfold World.send
    simp only []
    split
    · exact ih w
    · split
      · exact WFrame.after (ih _) (WFrame.after (WFrame.emit F _ _ _) (extendDeadline_frame hF _ _ _))
      · split
        · split
          · exact WFrame.refl F w
          · exact WFrame.after (ih _) (WFrame.after (sendArmed_frame hF _ _ _ _ _) (WFrame.setNode _ _ _ (hF.pool _ _)))
        · exact ih w

theorem deliverLocal_frame (hF : NFrame F) (w : World) (j : Nat) (p : Pub) : WFrame F w (w.deliverLocal j p) := by
  unfold World.deliverLocal
  exact send_frame hF _ _ _ _

theorem distribute_frame (hF : NFrame F) (hlog : ∀ (n : Node) p, F (n.appendLog p).1 = F n)
    (w : World) (i : Nat) (p : Pub) : WFrame F w (w.distribute i p).1 := by
  unfold World.distribute
  simp only []
  generalize dedupNat _ = peers
  have key : ∀ (l : List Nat) (acc : World × Bool), WFrame F w acc.1 →
      WFrame F w (l.foldl (fun (acc : World × Bool) peer =>
        match acc with
        | (w, ok) =>
        match nodeIndexOfPeer w peer with
        | none => (w, false)
        | some j =>
          let nj := w.node j
          if j ≠ i ∧ (nj.failed ∨ nj.unreachable) then (w, false)
          else
            match nj.appendLog p with
            | (nj', stored) =>
            let w := w.setNode j nj'
            if stored then (w.deliverLocal j p, ok) else (w, false)) acc).1 := by
    intro l
    induction l with
    | nil => intro acc h; exact h
    | cons peer rest ih =>
      intro acc h
      obtain ⟨w', ok⟩ := acc
      simp only [List.foldl_cons]
      apply ih
      split
      · exact h
      · split
        · exact h
        · split
          · exact WFrame.after (deliverLocal_frame hF _ _ _) (WFrame.after (WFrame.setNode _ _ _ (hlog _ _)) h)
          · exact WFrame.after (WFrame.setNode _ _ _ (hlog _ _)) h
  exact key peers (w, true) (WFrame.refl F w)

theorem ite_id_frame (w : World) (X : World × Bool) (h : WFrame F w X.1) :
    WFrame F w (if X.2 = true then id X.1 else X.1) := by
  split <;> exact h

theorem publishJob_frame (hF : NFrame F) (hlog : ∀ (n : Node) p, F (n.appendLog p).1 = F n)
    (w : World) (i : Nat) (p : Pub) : WFrame F w (w.publishJob i p id) := by
  unfold World.publishJob
  simp only []
  apply ite_id_frame
  refine WFrame.after (distribute_frame hF hlog _ _ _) ?_
  split
  · exact WFrame.after (broadcast_frame hF _ _ _) (WFrame.after (WFrame.setNode _ _ _ (hF.dist _ _)) (tick_frame F w))
  · exact WFrame.refl F w

end frames

/-! ## writer: what `send` emits -/

/-- every session registered on node i of `w'` is, up to fields other than `conn`/`mount`, registered in `w` -/
def SessLe (i : Nat) (w w' : World) : Prop :=
  ∀ sid s', (w'.node i).sess sid = some s' → ∃ s, (w.node i).sess sid = some s ∧ s.conn = s'.conn ∧ s.mount = s'.mount

theorem SessLe.refl (i : Nat) (w : World) : SessLe i w w := fun _ s' h => ⟨s', h, rfl, rfl⟩

theorem SessLe.trans {i : Nat} {w₁ w₂ w₃ : World} (h₁ : SessLe i w₁ w₂) (h₂ : SessLe i w₂ w₃) : SessLe i w₁ w₃ := by
  intro sid s₃ h
  obtain ⟨s₂, h2, c2, m2⟩ := h₂ sid s₃ h
  obtain ⟨s₁, h1, c1, m1⟩ := h₁ sid s₂ h2
  exact ⟨s₁, h1, c1.trans c2, m1.trans m2⟩

theorem SessLe.after {i : Nat} {w₁ w₂ w₃ : World} (h₂ : SessLe i w₂ w₃) (h₁ : SessLe i w₁ w₂) : SessLe i w₁ w₃ :=
  h₁.trans h₂

theorem SessLe.of_reg {i : Nat} {w w' : World} (h : (w'.node i).reg = (w.node i).reg) : SessLe i w w' := by
  intro sid s' hs
  refine ⟨s', ?_, rfl, rfl⟩
  unfold Node.sess at hs ⊢
  rw [← h]; exact hs

theorem SessLe.of_frame {i : Nat} {w w' : World} (h : WFrame (fun n : Node => n.reg) w w') : SessLe i w w' :=
  SessLe.of_reg (h.2 i)

theorem sess_setSess (n : Node) (sid : String) (s s' : Sess) (hs : n.sess sid = some s) (hid : s'.id = s.id)
    (sid' : String) (x' : Sess) (hx : (n.setSess s').sess sid' = some x') :
    ∃ x, n.sess sid' = some x ∧ (x' = x ∨ (x = s ∧ x' = s')) := by
  unfold Node.setSess Node.sess at *
  simp only [List.find?_map] at hx
  have hcomp : ((fun (s : Sess) => s.id == sid') ∘ fun x => if (x.id == s'.id) = true then s' else x) = (fun s => s.id == sid') := by
    funext x
    simp only [Function.comp]
    split
    · rename_i h; rw [beq_iff_eq.mp h]
    · rfl
  rw [hcomp] at hx
  cases hf : List.find? (fun s => s.id == sid') n.reg with
  | none => rw [hf] at hx; simp at hx
  | some x =>
    rw [hf] at hx
    simp only [Option.map_some, Option.some.injEq] at hx
    refine ⟨x, rfl, ?_⟩
    split at hx
    · rename_i hxi
      right
      have e1 : x.id = sid' := by simpa using List.find?_some hf
      have e2 : s.id = sid := by simpa using List.find?_some hs
      have e3 : x.id = s'.id := beq_iff_eq.mp hxi
      have : sid' = sid := by rw [← e1, e3, hid, e2]
      subst this
      rw [hs] at hf
      exact ⟨(Option.some.inj hf).symm, hx.symm⟩
    · left; exact hx.symm

theorem extendDeadline_sessLe (w : World) (i : Nat) (sid : String) : SessLe i w (w.extendDeadline i sid) := by
  unfold World.extendDeadline
  simp only []
  cases hs : (w.node i).sess sid with
  | none => exact SessLe.refl i w
  | some s =>
    simp only []
    by_cases hi : i < w.nodes.length
    · intro sid' x' hx
      rw [node_setNode_self _ _ _ hi] at hx
      obtain ⟨x, hx1, hx2⟩ := sess_setSess _ sid s _ hs (by rfl) sid' x' hx
      refine ⟨x, hx1, ?_⟩
      rcases hx2 with h | ⟨h1, h2⟩
      · subst h; exact ⟨rfl, rfl⟩
      · subst h1 h2; exact ⟨rfl, rfl⟩
    · exact SessLe.of_reg (by rw [node_setNode_ge _ _ _ _ hi])

theorem extendDeadline_out (w : World) (i : Nat) (sid : String) : (w.extendDeadline i sid).out = w.out := by
  unfold World.extendDeadline
  simp only []
  split <;> rfl

theorem poolPut_sessLe (w : World) (i : Nat) (mid : Int) : SessLe i w (w.poolPut i mid) :=
  SessLe.of_frame (WFrame.setNode (F := fun n : Node => n.reg) w i _ rfl)

theorem poolPut_out (w : World) (i : Nat) (mid : Int) : (w.poolPut i mid).out = w.out := rfl

/-- what `armAndSend` does for a QoS 1/2 delivery -/
def isOut (st : Stored) (sid topic payload : String) (retain dup : Bool) (mid : Int) : Prop :=
  st = .out1 sid topic payload retain dup mid ∨ st = .out2 sid topic payload retain dup mid

theorem armAndSend_spec (w : World) (i : Nat) (st : Stored) (sid topic payload : String) (retain dup : Bool) (mid : Int)
    (hst : isOut st sid topic payload retain dup mid) :
    SessLe i w (w.armAndSend i st) ∧
    ((w.armAndSend i st).out = w.out ∨ ∃ s q, (w.node i).sess sid = some s ∧
      (w.armAndSend i st).out = w.out ++ [(s.conn, .publish topic payload q retain dup mid)]) := by
  rcases hst with h | h <;> subst h <;> unfold World.armAndSend <;> simp only []
  · cases hs : (w.node i).sess sid with
    | none => exact ⟨SessLe.refl i w, Or.inl rfl⟩
    | some s =>
      simp only []
      split
      · refine ⟨SessLe.after (SessLe.of_reg rfl) (SessLe.after (SessLe.of_frame (WFrame.setNode _ _ _ rfl)) (extendDeadline_sessLe w i sid)), Or.inr ⟨s, 1, rfl, ?_⟩⟩
        simp [World.emit, World.setNode, extendDeadline_out]
      · exact ⟨extendDeadline_sessLe w i sid, Or.inl (extendDeadline_out w i sid)⟩
  · cases hs : (w.node i).sess sid with
    | none => exact ⟨SessLe.refl i w, Or.inl rfl⟩
    | some s =>
      simp only []
      split
      · refine ⟨SessLe.after (SessLe.of_reg rfl) (SessLe.after (SessLe.of_frame (WFrame.setNode _ _ _ rfl)) (extendDeadline_sessLe w i sid)), Or.inr ⟨s, 2, rfl, ?_⟩⟩
        simp [World.emit, World.setNode, extendDeadline_out]
      · exact ⟨extendDeadline_sessLe w i sid, Or.inl (extendDeadline_out w i sid)⟩

theorem sendArmed_spec (w : World) (i : Nat) (st : Stored) (sid topic payload : String) (retain dup : Bool) (mid : Int)
    (hst : isOut st sid topic payload retain dup mid) :
    SessLe i w (w.sendArmed i st sid mid) ∧
    ((w.sendArmed i st sid mid).out = w.out ∨ ∃ s q, (w.node i).sess sid = some s ∧
      (w.sendArmed i st sid mid).out = w.out ++ [(s.conn, .publish topic payload q retain dup mid)]) := by
  obtain ⟨h1, h2⟩ := armAndSend_spec w i st sid topic payload retain dup mid hst
  unfold World.sendArmed
  simp only []
  split
  · exact ⟨SessLe.after (poolPut_sessLe _ _ _) h1, by rw [poolPut_out]; exact h2⟩
  · exact ⟨h1, h2⟩

/-- the conclusion of C17_send_topic for recipient list `rcpt`, sessions looked up in `w` -/
def SendGoal (w : World) (i : Nat) (rcpt : List (String × Int)) (p : Pub) (conn : String) (pk : Pkt) : Prop :=
  ∃ sid s, (sid ∈ rcpt.map (·.1)) ∧ (w.node i).sess sid = some s ∧ s.conn = conn ∧
    ∃ q mid, pk = .publish (trimMountPoint s.mount p.topic) p.payload q p.retain p.dup mid

theorem SendGoal.tail {w : World} {i : Nat} {hd : String × Int} {rest : List (String × Int)} {p : Pub} {conn : String} {pk : Pkt}
    (h : SendGoal w i rest p conn pk) : SendGoal w i (hd :: rest) p conn pk := by
  obtain ⟨sid, s, h1, h2⟩ := h
  exact ⟨sid, s, by simp only [List.map_cons, List.mem_cons]; exact Or.inr h1, h2⟩

theorem send_step (w w1 : World) (i : Nat) (sid : String) (qos : Int) (s : Sess) (p : Pub) (rest : List (String × Int))
    (conn : String) (pk : Pkt) (hs : (w.node i).sess sid = some s) (hle : SessLe i w w1)
    (hout : w1.out = w.out ∨ ∃ q mid, w1.out = w.out ++ [(s.conn, .publish (trimMountPoint s.mount p.topic) p.payload q p.retain p.dup mid)])
    (ih : (conn, pk) ∈ (w1.send i rest p).out → (conn, pk) ∉ w1.out → SendGoal w1 i rest p conn pk)
    (h : (conn, pk) ∈ (w1.send i rest p).out) (hnew : (conn, pk) ∉ w.out) :
    SendGoal w i ((sid, qos) :: rest) p conn pk := by
  by_cases hin : (conn, pk) ∈ w1.out
  · rcases hout with e | ⟨q, mid, e⟩
    · rw [e] at hin; exact absurd hin hnew
    · rw [e, List.mem_append] at hin
      rcases hin with hin | hin
      · exact absurd hin hnew
      · simp only [List.mem_singleton, Prod.mk.injEq] at hin
        exact ⟨sid, s, by simp, hs, hin.1.symm, q, mid, hin.2⟩
  · obtain ⟨sid', s', h1, h2, h3, q, mid, h4⟩ := ih h hin
    obtain ⟨s0, g1, g2, g3⟩ := hle sid' s' h2
    refine ⟨sid', s0, by simp only [List.map_cons, List.mem_cons]; exact Or.inr h1, g1, g2.trans h3, q, mid, ?_⟩
    rw [g3]; exact h4

theorem send_out (i : Nat) (p : Pub) (conn : String) (pk : Pkt) (rcpt : List (String × Int)) :
    ∀ w : World, (conn, pk) ∈ (w.send i rcpt p).out → (conn, pk) ∉ w.out → SendGoal w i rcpt p conn pk := by
  induction rcpt with
  | nil => intro w h hnew; exact absurd h hnew
  | cons hd rest ih =>
    intro w h hnew
    obtain ⟨sid, qos⟩ := hd
    unfold World.send at h
    simp only [] at h
    cases hs : (w.node i).sess sid with
    | none =>
      simp only [hs] at h
      exact (ih w h hnew).tail
    | some s =>
      simp only [hs] at h
      split at h
      · refine send_step w _ i sid qos s p rest conn pk hs ?_ ?_ (ih _) h hnew
        · exact SessLe.after (SessLe.of_reg rfl) (extendDeadline_sessLe w i sid)
        · exact Or.inr ⟨0, 0, by simp [World.emit, extendDeadline_out]⟩
      · split at h
        · split at h
          · exact absurd h hnew
          · rename_i hq _
            have hfr : WFrame (fun n : Node => n.reg) w (w.setNode i { w.node i with pool := (IdPool.get (w.node i).pool).1 }) :=
              WFrame.setNode _ _ _ rfl
            have hs0 : ((w.setNode i { w.node i with pool := (IdPool.get (w.node i).pool).1 }).node i).sess sid = some s := by
              have := hfr.2 i
              simp only [] at this
              unfold Node.sess at hs ⊢
              rw [this]; exact hs
            obtain ⟨g1, g2⟩ := sendArmed_spec (w.setNode i { w.node i with pool := (IdPool.get (w.node i).pool).1 }) i
              (if qos = 1 then Stored.out1 sid (trimMountPoint s.mount p.topic) p.payload p.retain p.dup (IdPool.get (w.node i).pool).2
               else Stored.out2 sid (trimMountPoint s.mount p.topic) p.payload p.retain p.dup (IdPool.get (w.node i).pool).2)
              sid (trimMountPoint s.mount p.topic) p.payload p.retain p.dup (IdPool.get (w.node i).pool).2
              (by unfold isOut; split <;> simp)
            refine send_step w _ i sid qos s p rest conn pk hs (SessLe.after g1 (SessLe.of_frame hfr)) ?_ (ih _) h hnew
            rcases g2 with e | ⟨s1, q, e1, e2⟩
            · exact Or.inl e
            · rw [hs0] at e1
              cases e1
              exact Or.inr ⟨q, _, e2⟩
        · exact (ih w h hnew).tail

/-! ## node failure -/

/-- the will of a listed session of the failed peer, as `notifyLeave` publishes it -/
def willPub (s : SessionMD) : Option Pub :=
  s.lwt.map (fun lwt => (⟨s.mount ++ "/" ++ lwt.topic, lwt.payload, lwt.qos, lwt.retain, false⟩ : Pub))

def leavePrefix (w : World) (i : Nat) (peer : Nat) : World :=
  let (w, t) := w.tick
  let n := w.node i
  let (d, ev) := subDeletePeer n.dist t peer
  (w.setNode i { n with dist := d }).broadcast i ev

def leaveStep (i : Nat) (w : World) (s : SessionMD) : World :=
  match s.lwt with
  | none => w
  | some lwt =>
    let p : Pub := ⟨s.mount ++ "/" ++ lwt.topic, lwt.payload, lwt.qos, lwt.retain, false⟩
    let (n', stored) := (w.node i).appendLog p
    let w := w.setNode i n'
    if stored then w.deliverLocal i p else w

theorem notifyLeave_eq (w : World) (i : Nat) (peer : Nat) :
    w.notifyLeave i peer =
      (let W := leavePrefix w i peer
       let X := (sessByPeer (W.node i).dist peer).foldl (leaveStep i) W
       X.setNode i { X.node i with timers := (X.node i).timers ++ [(X.now + 3000, peer)] }) := rfl

theorem leavePrefix_spec (w : World) (i : Nat) (peer : Nat) (hi : i < w.nodes.length) :
    WFrame (fun n : Node => (n.log, n.logFailAll, n.logFailAt)) w (leavePrefix w i peer) ∧
    ((leavePrefix w i peer).node i).dist = (subDeletePeer (w.node i).dist w.clock peer).1 := by
  unfold leavePrefix
  simp only [World.tick]
  constructor
  · exact WFrame.after (broadcast_frame NFrame.logAll _ _ _)
      (WFrame.after (WFrame.setNode _ _ _ (NFrame.logAll.dist _ _)) (WFrame.of_nodes _ rfl))
  · unfold World.broadcast
    simp only []
    rw [node_setNode_self _ _ _ (by simpa using hi), node_setNode_self _ _ _ (by simpa using hi)]
    rfl

theorem log_setNode (w : World) (i : Nat) (n : Node) (j : Nat) (h : n.log = (w.node i).log) :
    ((w.setNode i n).node j).log = (w.node j).log :=
  (WFrame.setNode (F := fun n : Node => n.log) w i n h).2 j

theorem leaveStep_none (i : Nat) (w : World) (s : SessionMD) (h : s.lwt = none) : leaveStep i w s = w := by
  unfold leaveStep; simp only [h]

theorem leaveStep_some (i : Nat) (w : World) (s : SessionMD) (lwt : Will) (h : s.lwt = some lwt)
    (h1 : (w.node i).logFailAll = false) (h2 : (w.node i).logFailAt = []) :
    leaveStep i w s =
      (w.setNode i { w.node i with logCalls := (w.node i).logCalls + 1, log := (w.node i).log ++ [⟨s.mount ++ "/" ++ lwt.topic, lwt.payload, lwt.qos, lwt.retain, false⟩] }).deliverLocal
        i ⟨s.mount ++ "/" ++ lwt.topic, lwt.payload, lwt.qos, lwt.retain, false⟩ := by
  unfold leaveStep
  simp only [h, appendLog_ok _ _ h1 h2, if_true]

theorem leaveStep_fold (i : Nat) (l : List SessionMD) : ∀ (w : World), i < w.nodes.length →
    (w.node i).logFailAll = false → (w.node i).logFailAt = [] →
    ((l.foldl (leaveStep i) w).node i).log = (w.node i).log ++ l.filterMap willPub := by
  induction l with
  | nil => intro w _ _ _; simp
  | cons s rest ih =>
    intro w hi h1 h2
    simp only [List.foldl_cons]
    cases hl : s.lwt with
    | none =>
      simp only [List.filterMap_cons, willPub, hl, Option.map_none, leaveStep_none i w s hl]
      exact ih w hi h1 h2
    | some lwt =>
      simp only [List.filterMap_cons, willPub, hl, Option.map_some, leaveStep_some i w s lwt hl h1 h2]
      have hfr := deliverLocal_frame NFrame.logAll
        (w.setNode i { w.node i with logCalls := (w.node i).logCalls + 1, log := (w.node i).log ++ [⟨s.mount ++ "/" ++ lwt.topic, lwt.payload, lwt.qos, lwt.retain, false⟩] })
        i ⟨s.mount ++ "/" ++ lwt.topic, lwt.payload, lwt.qos, lwt.retain, false⟩
      have hn := hfr.2 i
      rw [node_setNode_self _ _ _ hi] at hn
      simp only [Prod.mk.injEq] at hn
      have hlen := hfr.1
      rw [length_setNode] at hlen
      rw [ih _ (by rw [hlen]; exact hi) (by rw [hn.2.1]; exact h1) (by rw [hn.2.2]; exact h2), hn.1]
      simp

theorem notifyLeave_log (w : World) (i : Nat) (peer : Nat) (hi : i < w.nodes.length)
    (h1 : (w.node i).logFailAll = false) (h2 : (w.node i).logFailAt = []) :
    ((w.notifyLeave i peer).node i).log = (w.node i).log ++
      (sessByPeer ((Wasp.Dist.subDeletePeer (w.node i).dist w.clock peer).1) peer).filterMap willPub := by
  rw [notifyLeave_eq]
  simp only []
  obtain ⟨hfr, hdist⟩ := leavePrefix_spec w i peer hi
  have hn := hfr.2 i
  simp only [Prod.mk.injEq] at hn
  refine (log_setNode _ _ _ _ ?_).trans ?_
  · rfl
  rw [leaveStep_fold i _ _ (by rw [hfr.1]; exact hi) (by rw [hn.2.1]; exact h1) (by rw [hn.2.2]; exact h2),
    hn.1, hdist]

end Wasp.Broker.AgentA

import Wasp.Model.Broker
import Wasp.Properties.C04
import Wasp.Properties.C06
/-! Helper lemmas for C02 / C03 (writer callbacks, `send`). -/
namespace Wasp.Broker.AgentC
open Wasp.Broker Wasp.Dist Wasp.Topic

/-! ### node / setNode -/

theorem node_setNode_self (w : World) (i : Nat) (n : Node) (hi : i < w.nodes.length) :
    (w.setNode i n).node i = n := by
  simp [World.node, World.setNode, List.getD_eq_getElem?_getD, hi]

theorem node_setNode_ne (w : World) (i j : Nat) (n : Node) (h : j ≠ i) :
    (w.setNode i n).node j = w.node j := by
  simp [World.node, World.setNode, List.getD_eq_getElem?_getD, Ne.symm h]

theorem setNode_node_self (w : World) (i : Nat) (hi : i < w.nodes.length) :
    w.setNode i (w.node i) = w := by
  cases w with
  | mk nodes out clock now epoch conns bufs deaf =>
    simp only [World.setNode, World.node, World.mk.injEq, and_true]
    simp only at hi
    apply List.ext_getElem?
    intro j
    by_cases hj : i = j
    · subst hj; simp [List.getD_eq_getElem?_getD, hi]
    · simp [hj]

theorem setNode_ge (w : World) (i : Nat) (n : Node) (hi : w.nodes.length ≤ i) :
    w.setNode i n = w := by
  cases w with
  | mk nodes out clock now epoch conns bufs deaf =>
    simp only [World.setNode, World.mk.injEq, and_true]
    simp only at hi
    exact List.set_eq_of_length_le hi

@[simp] theorem setNode_out (w : World) (i : Nat) (n : Node) : (w.setNode i n).out = w.out := rfl
@[simp] theorem setNode_length (w : World) (i : Nat) (n : Node) :
    (w.setNode i n).nodes.length = w.nodes.length := by simp [World.setNode]
@[simp] theorem emit_out (w : World) (c : String) (p : Pkt) : (w.emit c p).out = w.out ++ [(c, p)] := rfl
@[simp] theorem emit_node (w : World) (c : String) (p : Pkt) (j : Nat) : (w.emit c p).node j = w.node j := rfl
@[simp] theorem emit_length (w : World) (c : String) (p : Pkt) : (w.emit c p).nodes.length = w.nodes.length := rfl

/-! ### sessions -/

theorem sess_id {n : Node} {sid : String} {s : Sess} (h : n.sess sid = some s) : s.id = sid := by
  have := List.find?_some h
  simpa using this

theorem sess_setSess_reg (reg : List Sess) (sid : String) (s s' : Sess)
    (h : reg.find? (fun x => x.id == sid) = some s) (hid : s'.id = sid) :
    (reg.map (fun x => if x.id == s'.id then s' else x)).find? (fun x => x.id == sid) = some s' := by
  induction reg with
  | nil => simp at h
  | cons x rest ih =>
    simp only [List.find?_cons] at h
    simp only [List.map_cons, List.find?_cons]
    by_cases hx : x.id = sid
    · simp [hx, hid]
    · have hx' : (x.id == sid) = false := by simpa using hx
      simp only [hx'] at h
      simp only [hid, hx', Bool.false_eq_true, if_false]
      simpa [hid] using ih h

theorem sess_setSess (n : Node) (sid : String) (s s' : Sess)
    (h : n.sess sid = some s) (hid : s'.id = sid) : (n.setSess s').sess sid = some s' := by
  unfold Node.sess Node.setSess
  exact sess_setSess_reg n.reg sid s s' h hid

/-! ### extendDeadline -/

/-- the session record after `extendDeadline` -/
def bumped (w : World) (s : Sess) : Sess := { s with deadline := w.now + 2 * s.keepalive * 1000 }

theorem extendDeadline_eq (w : World) (i : Nat) (sid : String) (s : Sess)
    (hs : (w.node i).sess sid = some s) :
    w.extendDeadline i sid = w.setNode i ((w.node i).setSess (bumped w s)) := by
  simp [World.extendDeadline, hs, bumped]

@[simp] theorem extendDeadline_out (w : World) (i : Nat) (sid : String) :
    (w.extendDeadline i sid).out = w.out := by
  simp only [World.extendDeadline]; cases (w.node i).sess sid <;> rfl

@[simp] theorem extendDeadline_length (w : World) (i : Nat) (sid : String) :
    (w.extendDeadline i sid).nodes.length = w.nodes.length := by
  simp only [World.extendDeadline]; cases (w.node i).sess sid <;> simp

theorem extendDeadline_node (w : World) (i : Nat) (hi : i < w.nodes.length) (sid : String) (s : Sess)
    (hs : (w.node i).sess sid = some s) :
    (w.extendDeadline i sid).node i = (w.node i).setSess (bumped w s) := by
  rw [extendDeadline_eq w i sid s hs, node_setNode_self _ _ _ hi]

/-! ### stored -/

theorem storedFind_append (k : Ack.Key) (l l' : List (Ack.Key × Stored)) :
    storedFind k (l ++ l') = match storedFind k l with | some s => some s | none => storedFind k l' := by
  induction l with
  | nil => simp [storedFind]
  | cons x rest ih =>
    obtain ⟨k', s⟩ := x
    simp only [List.cons_append, storedFind]
    split <;> simp_all

theorem insert_ok (q : Ack.Queue) (pfx : String) (kind : Ack.PType) (qos : Nat) (mid : Int) (d : Ack.Time)
    (st : Ack.PType) (hmid : mid ≠ 0) (hfree : Ack.msgFind (Ack.hashKey pfx mid) q.msgs = none)
    (hk : Ack.expectedAck kind qos = .ok st) :
    Ack.insert q pfx kind qos mid d =
      ({ msgs := q.msgs ++ [(Ack.hashKey pfx mid, ⟨st, kind, mid, d⟩)],
         timeouts := Ack.pqInsert (Ack.hashKey pfx mid) d q.timeouts }, .ok) := by
  rcases Ack.insert_cases q pfx kind qos mid d with ⟨_, h2, _⟩ | ⟨st', hst', _, heq⟩
  · exfalso
    apply h2
    unfold Ack.insert
    cases kind <;> simp_all [Ack.expectedAck]
  · rw [hk] at hst'
    cases hst'
    exact heq


/-- what a successful `armAndSend` does to world `w` (result `w'`) -/
structure Armed (w w' : World) (i : Nat) (sid : String) (mid : Int) (st : Stored) (conn : String) (pkt : Pkt) : Prop where
  out : w'.out = w.out ++ [(conn, pkt)]
  msgs : ∃ m, (w'.node i).acks.msgs = (w.node i).acks.msgs ++ [(Ack.hashKey sid mid, m)]
  stored : (w'.node i).stored = (w.node i).stored ++ [(Ack.hashKey sid mid, st)]
  pool : (w'.node i).pool = (w.node i).pool
  len : w'.nodes.length = w.nodes.length

theorem armAndSend_out1 (w : World) (i : Nat) (hi : i < w.nodes.length) (sid topic payload : String)
    (retain dup : Bool) (mid : Int) (s : Sess) (hs : (w.node i).sess sid = some s) (hmid : mid ≠ 0)
    (hfree : Ack.msgFind (Ack.hashKey sid mid) (w.node i).acks.msgs = none) :
    Armed w (w.armAndSend i (.out1 sid topic payload retain dup mid)) i sid mid
      (.out1 sid topic payload retain dup mid) s.conn (.publish topic payload 1 retain dup mid) := by
  have hn := extendDeadline_node w i hi sid s hs
  have hins := insert_ok ((w.extendDeadline i sid).node i).acks sid .publish 1 mid
    (ackDeadline (w.extendDeadline i sid)) .puback hmid (by rw [hn]; exact hfree) rfl
  have hi' : i < (w.extendDeadline i sid).nodes.length := by simpa using hi
  simp only [World.armAndSend, hs, hins, if_true]
  constructor
  · simp
  · simp [node_setNode_self _ _ _ hi', hn, Node.setSess]
  · simp [node_setNode_self _ _ _ hi', hn, Node.setSess]
  · simp [node_setNode_self _ _ _ hi', hn, Node.setSess]
  · simp

theorem armAndSend_out2 (w : World) (i : Nat) (hi : i < w.nodes.length) (sid topic payload : String)
    (retain dup : Bool) (mid : Int) (s : Sess) (hs : (w.node i).sess sid = some s) (hmid : mid ≠ 0)
    (hfree : Ack.msgFind (Ack.hashKey sid mid) (w.node i).acks.msgs = none) :
    Armed w (w.armAndSend i (.out2 sid topic payload retain dup mid)) i sid mid
      (.out2 sid topic payload retain dup mid) s.conn (.publish topic payload 2 retain dup mid) := by
  have hn := extendDeadline_node w i hi sid s hs
  have hins := insert_ok ((w.extendDeadline i sid).node i).acks sid .publish 2 mid
    (ackDeadline (w.extendDeadline i sid)) .pubrec hmid (by rw [hn]; exact hfree) rfl
  have hi' : i < (w.extendDeadline i sid).nodes.length := by simpa using hi
  simp only [World.armAndSend, hs, hins, if_true]
  constructor
  · simp
  · simp [node_setNode_self _ _ _ hi', hn, Node.setSess]
  · simp [node_setNode_self _ _ _ hi', hn, Node.setSess]
  · simp [node_setNode_self _ _ _ hi', hn, Node.setSess]
  · simp

theorem armAndSend_rel (w : World) (i : Nat) (hi : i < w.nodes.length) (sid : String)
    (mid : Int) (s : Sess) (hs : (w.node i).sess sid = some s) (hmid : mid ≠ 0)
    (hfree : Ack.msgFind (Ack.hashKey sid mid) (w.node i).acks.msgs = none) :
    Armed w (w.armAndSend i (.rel sid mid)) i sid mid (.rel sid mid) s.conn (.pubrel mid) := by
  have hn := extendDeadline_node w i hi sid s hs
  have hins := insert_ok ((w.extendDeadline i sid).node i).acks sid .pubrel 0 mid
    (ackDeadline (w.extendDeadline i sid)) .pubcomp hmid (by rw [hn]; exact hfree) rfl
  have hi' : i < (w.extendDeadline i sid).nodes.length := by simpa using hi
  simp only [World.armAndSend, hs, hins, if_true]
  constructor
  · simp
  · simp [node_setNode_self _ _ _ hi', hn, Node.setSess]
  · simp [node_setNode_self _ _ _ hi', hn, Node.setSess]
  · simp [node_setNode_self _ _ _ hi', hn, Node.setSess]
  · simp

/-! ### only PUBLISH packets are written by `send` / `distribute` -/

def isPub : Pkt → Bool
  | .publish .. => true
  | _ => false

/-- `w'` has the output of `w` plus PUBLISH packets only -/
def PubExt (w w' : World) : Prop := ∃ l, w'.out = w.out ++ l ∧ ∀ x ∈ l, isPub x.2 = true

theorem PubExt.refl (w : World) : PubExt w w := ⟨[], by simp, by simp⟩

theorem PubExt.of_out_eq {w w' : World} (h : w'.out = w.out) : PubExt w w' := ⟨[], by simp [h], by simp⟩

theorem PubExt.trans {a b c : World} (h1 : PubExt a b) (h2 : PubExt b c) : PubExt a c := by
  obtain ⟨l1, e1, p1⟩ := h1
  obtain ⟨l2, e2, p2⟩ := h2
  refine ⟨l1 ++ l2, by rw [e2, e1, List.append_assoc], ?_⟩
  intro x hx
  rcases List.mem_append.1 hx with h | h
  · exact p1 x h
  · exact p2 x h

theorem PubExt.emit (w : World) (c t p : String) (q : Nat) (r d : Bool) (m : Int) :
    PubExt w (w.emit c (.publish t p q r d m)) := ⟨[(c, .publish t p q r d m)], rfl, by simp [isPub]⟩

theorem armAndSend_pubExt1 (w : World) (i : Nat) (sid t p : String) (r d : Bool) (m : Int) :
    PubExt w (w.armAndSend i (.out1 sid t p r d m)) := by
  simp only [World.armAndSend]
  cases (w.node i).sess sid with
  | none => exact PubExt.refl w
  | some s =>
    simp only
    split
    · exact (PubExt.of_out_eq (by simp)).trans (PubExt.emit _ _ _ _ _ _ _ _)
    · exact PubExt.of_out_eq (by simp)

theorem armAndSend_pubExt2 (w : World) (i : Nat) (sid t p : String) (r d : Bool) (m : Int) :
    PubExt w (w.armAndSend i (.out2 sid t p r d m)) := by
  simp only [World.armAndSend]
  cases (w.node i).sess sid with
  | none => exact PubExt.refl w
  | some s =>
    simp only
    split
    · exact (PubExt.of_out_eq (by simp)).trans (PubExt.emit _ _ _ _ _ _ _ _)
    · exact PubExt.of_out_eq (by simp)

theorem sendArmed_pubExt (w : World) (i : Nat) (st : Stored) (sid : String) (mid : Int)
    (h : PubExt w (w.armAndSend i st)) : PubExt w (w.sendArmed i st sid mid) := by
  unfold World.sendArmed
  simp only
  split
  · exact h.trans (PubExt.of_out_eq rfl)
  · exact h

theorem send_pubExt (i : Nat) (p : Pub) (rc : List (String × Int)) : ∀ w : World, PubExt w (w.send i rc p) := by
  induction rc with
  | nil => intro w; exact PubExt.refl w
  | cons x rest ih =>
    intro w
    obtain ⟨sid, qos⟩ := x
    simp only [World.send]
    cases (w.node i).sess sid with
    | none => exact ih w
    | some s =>
      simp only
      split
      · exact ((PubExt.of_out_eq (by simp)).trans (PubExt.emit _ _ _ _ _ _ _ _)).trans (ih _)
      · split
        · split
          · exact PubExt.refl w
          · refine PubExt.trans ?_ (ih _)
            generalize hw2 : w.setNode i _ = w2
            have h2 : PubExt w w2 := PubExt.of_out_eq (by rw [← hw2]; rfl)
            refine h2.trans ?_
            apply sendArmed_pubExt
            split
            · exact armAndSend_pubExt1 ..
            · exact armAndSend_pubExt2 ..
        · exact ih w

theorem distribute_pubExt (w : World) (i : Nat) (p : Pub) : PubExt w (w.distribute i p).1 := by
  unfold World.distribute
  simp only
  generalize dedupNat _ = peers
  suffices h : ∀ (acc : World × Bool), PubExt w acc.1 → PubExt w (peers.foldl (fun (acc : World × Bool) peer =>
    let (w, ok) := acc
    match nodeIndexOfPeer w peer with
    | none => (w, false)
    | some j =>
      let nj := w.node j
      if j ≠ i ∧ (nj.failed ∨ nj.unreachable) then (w, false)
      else
        let (nj', stored) := nj.appendLog p
        let w := w.setNode j nj'
        if stored then (w.deliverLocal j p, ok) else (w, false)) acc).1 from h (w, true) (PubExt.refl w)
  induction peers with
  | nil => intro acc h; exact h
  | cons peer rest ih =>
    intro acc h
    rw [List.foldl_cons]
    apply ih
    obtain ⟨w0, ok⟩ := acc
    simp only at h ⊢
    split
    · exact h
    · split
      · exact h
      · split
        · exact h.trans ((PubExt.of_out_eq (by simp)).trans (send_pubExt _ _ _ _))
        · exact h.trans (PubExt.of_out_eq (by simp))


theorem poolPut_out (w : World) (i : Nat) (mid : Int) : (w.poolPut i mid).out = w.out := rfl

end Wasp.Broker.AgentC

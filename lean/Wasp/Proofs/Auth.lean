import Wasp.Model.Auth
/-!
Helper lemmas for C16: Go's sort.Search, the stable insertion sort, and the
characterisation of `authenticate` on a sorted table as a `find?`.
-/
namespace Wasp.Auth

/-! ## sort.Search -/

theorem goSearchLoop_spec (n : Nat) (f : Nat → Bool)
    (mono : ∀ i j, i ≤ j → j < n → f i = true → f j = true) :
    ∀ fuel i j, i ≤ j → j ≤ n → (∀ k, k < i → f k = false) → (∀ k, j ≤ k → k < n → f k = true) →
      j - i < fuel →
      goSearchLoop f fuel i j ≤ n ∧ (∀ k, k < goSearchLoop f fuel i j → f k = false) ∧
        (∀ k, goSearchLoop f fuel i j ≤ k → k < n → f k = true) := by
  intro fuel
  induction fuel with
  | zero => intro i j _ _ _ _ hf; omega
  | succ fuel ih =>
    intro i j hij hjn hlo hhi hf
    unfold goSearchLoop
    by_cases hlt : i < j
    · simp only [hlt, if_true]
      have h1 : i ≤ (i + j) / 2 := by omega
      have h2 : (i + j) / 2 < j := by omega
      cases hfh : f ((i + j) / 2) with
      | false =>
        simp only [Bool.not_false, if_true]
        apply ih
        · omega
        · exact hjn
        · intro k hk
          cases hfk : f k with
          | false => rfl
          | true =>
            have := mono k ((i + j) / 2) (by omega) (by omega) hfk
            rw [hfh] at this; cases this
        · exact hhi
        · omega
      | true =>
        simp only [Bool.not_true, Bool.false_eq_true, if_false]
        apply ih
        · exact h1
        · omega
        · exact hlo
        · intro k hk hkn
          exact mono _ k hk hkn hfh
        · omega
    · simp only [hlt, if_false]
      have : i = j := by omega
      subst this
      exact ⟨hjn, hlo, hhi⟩

/-! ## insertion sort -/

theorem insertByUser_perm (r : Record) (l : List Record) : (insertByUser r l).Perm (r :: l) := by
  induction l with
  | nil => exact List.Perm.refl _
  | cons x rest ih =>
    unfold insertByUser
    split
    · exact List.Perm.refl _
    · exact (List.Perm.cons x ih).trans (List.Perm.swap r x rest)

theorem sortByUser_perm' (l : List Record) : (sortByUser l).Perm l := by
  induction l with
  | nil => exact List.Perm.refl _
  | cons x rest ih =>
    show (insertByUser x (sortByUser rest)).Perm (x :: rest)
    exact (insertByUser_perm x _).trans (List.Perm.cons x ih)

theorem insertByUser_sorted (r : Record) (l : List Record)
    (hl : l.Pairwise (fun a b => a.userHash ≤ b.userHash)) :
    (insertByUser r l).Pairwise (fun a b => a.userHash ≤ b.userHash) := by
  induction l with
  | nil => simp [insertByUser]
  | cons x rest ih =>
    unfold insertByUser
    rw [List.pairwise_cons] at hl
    split
    next hlt =>
      rw [List.pairwise_cons]
      refine ⟨?_, List.pairwise_cons.mpr hl⟩
      intro y hy
      have hrx : r.userHash ≤ x.userHash := hlt
      rcases List.mem_cons.mp hy with rfl | hy
      · exact hrx
      · exact String.le_trans hrx (hl.1 y hy)
    next hnlt =>
      rw [List.pairwise_cons]
      refine ⟨?_, ih hl.2⟩
      intro y hy
      have hy' := (insertByUser_perm r rest).mem_iff.mp hy
      rcases List.mem_cons.mp hy' with rfl | hy'
      · rcases String.le_total y.userHash x.userHash with h | h
        · exact absurd h hnlt
        · exact h
      · exact hl.1 y hy'

theorem sortByUser_sorted' (l : List Record) :
    (sortByUser l).Pairwise (fun a b => a.userHash ≤ b.userHash) := by
  induction l with
  | nil => simp [sortByUser]
  | cons x rest ih =>
    show (insertByUser x (sortByUser rest)).Pairwise _
    exact insertByUser_sorted x _ ih

/-! ## the scan -/

/-- the predicate `authenticate` looks for -/
def hit (u p : String) (r : Record) : Bool := decide (r.userHash = u) && decide (r.passHash = p)

theorem scanFrom_spec (db : List Record) (u p : String) :
    ∀ fuel idx, (db.drop idx).Pairwise (fun a b => a.userHash ≤ b.userHash) →
      (∀ x ∈ db.drop idx, u ≤ x.userHash) → (db.drop idx).length < fuel →
      scanFrom db u p fuel idx = ((db.drop idx).find? (hit u p)).map (·.mount) := by
  intro fuel
  induction fuel with
  | zero => intro idx _ _ hf; omega
  | succ fuel ih =>
    intro idx hs hge hf
    unfold scanFrom
    cases hget : db[idx]? with
    | none =>
      have : db.drop idx = [] := by
        rw [List.drop_eq_nil_iff]
        exact List.getElem?_eq_none_iff.mp hget
      simp [this]
    | some r =>
      obtain ⟨hlt, hr⟩ := List.getElem?_eq_some_iff.mp hget
      have hdrop : db.drop idx = r :: db.drop (idx + 1) := by
        rw [← hr]; exact List.drop_eq_getElem_cons hlt
      rw [hdrop] at hs hge hf
      rw [List.pairwise_cons] at hs
      simp only [hdrop]
      by_cases hu : r.userHash = u
      · by_cases hp : r.passHash = p
        · simp [hu, hp, hit]
        · have hh : hit u p r = false := by simp [hit, hp]
          simp only [hu, hp, if_true, if_false, List.find?_cons, hh]
          apply ih
          · exact hs.2
          · intro x hx; exact hge x (List.mem_cons_of_mem _ hx)
          · simp only [List.length_cons] at hf; omega
      · have hh : hit u p r = false := by simp [hit, hu]
        simp only [hu, if_false, List.find?_cons, hh]
        have hur : u < r.userHash := by
          have h1 := hge r (List.mem_cons_self)
          rcases Decidable.em (u < r.userHash) with h | h
          · exact h
          · exact absurd (String.le_antisymm (String.not_lt.mp h) h1) hu
        have : (db.drop (idx + 1)).find? (hit u p) = none := by
          rw [List.find?_eq_none]
          intro x hx
          have h2 := hs.1 x hx
          have : x.userHash ≠ u := by
            intro heq
            rw [heq] at h2
            exact absurd hur (String.not_lt.mpr h2)
          simp [hit, this]
        simp [this]

theorem sorted_getElem_le (db : List Record)
    (hs : db.Pairwise (fun a b => a.userHash ≤ b.userHash)) (i j : Nat) (hij : i ≤ j) (hj : j < db.length) :
    (db[i]'(by omega)).userHash ≤ (db[j]).userHash := by
  rcases Nat.lt_or_eq_of_le hij with h | h
  · exact (List.pairwise_iff_getElem.mp hs) i j (by omega) hj h
  · subst h; exact String.le_refl _

/-- on a table sorted by user hash, `authenticate` returns the mount of the first entry with
    that user hash and that password hash -/
theorem authenticate_eq_find (H : String → String) (db : List Record)
    (hs : db.Pairwise (fun a b => a.userHash ≤ b.userHash)) (user pass : String) :
    authenticate H db user pass = (db.find? (hit (H user) (H pass))).map (·.mount) := by
  let f : Nat → Bool := fun i => match db[i]? with
      | some r => decide (r.userHash ≥ H user) | none => true
  have hauth : authenticate H db user pass =
      scanFrom db (H user) (H pass) (db.length + 1) (goSearch db.length f) := rfl
  rw [hauth]
  have hfval : ∀ i (hi : i < db.length), f i = decide (H user ≤ db[i].userHash) := by
    intro i hi
    simp [f, List.getElem?_eq_getElem hi]
  have mono : ∀ i j, i ≤ j → j < db.length → f i = true → f j = true := by
    intro i j hij hj hfi
    rw [hfval i (by omega)] at hfi
    rw [hfval j hj]
    have := sorted_getElem_le db hs i j hij hj
    exact decide_eq_true (String.le_trans (of_decide_eq_true hfi) this)
  have hspec := goSearchLoop_spec db.length f mono (db.length + 1) 0 db.length (Nat.zero_le _)
    (Nat.le_refl _) (by intro k hk; omega) (by intro k hk hk'; omega) (by omega)
  change goSearch db.length f ≤ _ ∧ (∀ k, k < goSearch db.length f → _) ∧
    (∀ k, goSearch db.length f ≤ k → _) at hspec
  generalize goSearch db.length f = idx at hspec ⊢
  clear_value f
  obtain ⟨hle, hlo, hhi⟩ := hspec
  rw [scanFrom_spec db (H user) (H pass) (db.length + 1) idx]
  · conv => rhs; rw [← List.take_append_drop idx db]
    rw [List.find?_append]
    have : (db.take idx).find? (hit (H user) (H pass)) = none := by
      rw [List.find?_eq_none]
      intro x hx
      obtain ⟨k, hk, rfl⟩ := List.mem_iff_getElem.mp hx
      rw [List.length_take] at hk
      have hk1 : k < idx := by omega
      have hk2 : k < db.length := by omega
      have h1 := hlo k hk1
      rw [hfval k hk2] at h1
      have h2 : ¬ H user ≤ db[k].userHash := of_decide_eq_false h1
      rw [List.getElem_take]
      have : db[k].userHash ≠ H user := by
        intro heq; rw [heq] at h2; exact h2 (String.le_refl _)
      simp [hit, this]
    simp [this]
  · exact hs.sublist (List.drop_sublist _ _)
  · intro x hx
    obtain ⟨k, hk, rfl⟩ := List.mem_iff_getElem.mp hx
    rw [List.length_drop] at hk
    rw [List.getElem_drop]
    have h1 := hhi (idx + k) (by omega) (by omega)
    rw [hfval (idx + k) (by omega)] at h1
    exact of_decide_eq_true h1
  · rw [List.length_drop]; omega

theorem mem_load (H : String → String) (lines : List (List String)) (r : Record) :
    r ∈ load H lines ↔ ∃ l ∈ lines, recordOf H l = some r := by
  unfold load
  rw [(sortByUser_perm' _).mem_iff, List.mem_filterMap]

theorem load_sorted (H : String → String) (lines : List (List String)) :
    (load H lines).Pairwise (fun a b => a.userHash ≤ b.userHash) :=
  sortByUser_sorted' _

theorem hit_iff (u p : String) (r : Record) : hit u p r = true ↔ r.userHash = u ∧ r.passHash = p := by
  simp [hit]

end Wasp.Auth

import Wasp.Model.Broker
import Wasp.Proofs.AckQueue
/-!
Helper lemmas for C14 / C05 (broker model): frame lemmas of the writer pipeline.
-/
namespace Wasp.Broker.AgentB
open Wasp.Dist Wasp.Topic Wasp.Broker

/-! ### node / setNode -/

theorem node_setNode (w : World) (j m : Nat) (n' : Node) :
    (w.setNode j n').node m = if m = j ∧ j < w.nodes.length then n' else w.node m := by
  simp only [World.node, World.setNode, List.getD_eq_getElem?_getD, List.getElem?_set]
  by_cases h : j = m
  · subst h
    by_cases h2 : j < w.nodes.length
    · simp [h2]
    · simp [h2]
  · have : ¬ (m = j) := fun e => h e.symm
    simp [h, this]

theorem length_setNode (w : World) (j : Nat) (n' : Node) : (w.setNode j n').nodes.length = w.nodes.length := by
  simp [World.setNode]

theorem setNode_node_self (w : World) (i : Nat) (hi : i < w.nodes.length) : w.setNode i (w.node i) = w := by
  cases w with
  | mk nodes out clock now epoch conns bufs deaf =>
    simp only [World.setNode, World.node, World.mk.injEq, and_true]
    simp only [] at hi
    apply List.ext_getElem?
    intro m
    simp only [List.getElem?_set, List.getD_eq_getElem?_getD]
    by_cases h : i = m
    · subst h; simp [hi]
    · simp [h]

theorem node_emit (w : World) (c : String) (p : Pkt) (m : Nat) : (w.emit c p).node m = w.node m := rfl
theorem length_emit (w : World) (c : String) (p : Pkt) : (w.emit c p).nodes.length = w.nodes.length := rfl


/-! ### the frame relation of the writer pipeline -/

/-- the fields of a node that the writer pipeline never touches -/
def core (n : Node) : Nat × List Pub × Nat × Bool × List Nat × Bool × Bool :=
  (n.peer, n.log, n.logCalls, n.logFailAll, n.logFailAt, n.failed, n.unreachable)

/-- no registered session of `n` can produce the in-flight key `k` -/
def NoClash (k : Ack.Key) (n : Node) : Prop :=
  ∀ sid' mid', (n.sess sid').isSome → Ack.hashKey sid' mid' ≠ k

structure NodeRel (k : Ack.Key) (n n' : Node) : Prop where
  core : core n' = core n
  conn : ∀ sid, (n'.sess sid).map (·.conn) = (n.sess sid).map (·.conn)
  safe : NoClash k n → Ack.msgFind k n.acks.msgs = none → Ack.msgFind k n'.acks.msgs = none

theorem NodeRel.refl (k : Ack.Key) (n : Node) : NodeRel k n n := ⟨rfl, fun _ => rfl, fun _ h => h⟩

theorem NodeRel.isSome {k : Ack.Key} {n n' : Node} (h : NodeRel k n n') (sid : String) :
    (n'.sess sid).isSome = (n.sess sid).isSome := by
  have := h.conn sid
  cases h1 : n'.sess sid <;> cases h2 : n.sess sid <;> simp [h1, h2] at this ⊢

theorem NodeRel.noClash {k : Ack.Key} {n n' : Node} (h : NodeRel k n n') (hc : NoClash k n) : NoClash k n' := by
  intro sid' mid' hs
  rw [h.isSome] at hs
  exact hc sid' mid' hs

theorem NodeRel.trans {k : Ack.Key} {a b c : Node} (h1 : NodeRel k a b) (h2 : NodeRel k b c) : NodeRel k a c :=
  ⟨h2.core.trans h1.core, fun sid => (h2.conn sid).trans (h1.conn sid),
   fun hc hn => h2.safe (h1.noClash hc) (h1.safe hc hn)⟩

def WRel (k : Ack.Key) (w w' : World) : Prop :=
  w'.nodes.length = w.nodes.length ∧ ∀ m, NodeRel k (w.node m) (w'.node m)

theorem WRel.refl (k : Ack.Key) (w : World) : WRel k w w := ⟨rfl, fun _ => NodeRel.refl _ _⟩

theorem WRel.trans {k : Ack.Key} {a b c : World} (h1 : WRel k a b) (h2 : WRel k b c) : WRel k a c :=
  ⟨h2.1.trans h1.1, fun m => (h1.2 m).trans (h2.2 m)⟩

theorem WRel.setNode {k : Ack.Key} (w : World) (j : Nat) (n' : Node) (h : NodeRel k (w.node j) n') :
    WRel k w (w.setNode j n') := by
  refine ⟨length_setNode _ _ _, fun m => ?_⟩
  rw [node_setNode]
  split
  · next hm => rw [hm.1]; exact h
  · exact NodeRel.refl _ _

theorem WRel.emit {k : Ack.Key} {w w' : World} (h : WRel k w w') (c : String) (p : Pkt) : WRel k w (w'.emit c p) := h

/-! ### sessions -/

theorem find_setSess (reg : List Sess) (s s' : Sess) (hid : s'.id = s.id) (hc : s'.conn = s.conn) (sid : String)
    (hs : reg.find? (fun x => x.id == s.id) = some s ∨ sid ≠ s.id) :
    ((reg.map (fun x => if x.id == s'.id then s' else x)).find? (fun x => x.id == sid)).map (·.conn) =
      (reg.find? (fun x => x.id == sid)).map (·.conn) := by
  rw [hid]
  induction reg with
  | nil => rfl
  | cons x rest ih =>
    simp only [List.map_cons, List.find?_cons]
    by_cases hx : x.id = s.id
    · simp only [hx, beq_self_eq_true, if_true]
      by_cases hsid : s.id = sid
      · subst hsid
        simp only [hid, beq_self_eq_true, Option.map_some, hc]
        rcases hs with hs | hs
        · simp [hx] at hs
          rw [hs]
        · exact absurd rfl hs
      · have h1 : (s'.id == sid) = false := by simp [hid, hsid]
        have h2 : (s.id == sid) = false := by simp [hsid]
        simp only [h1, h2]
        apply ih
        right; exact fun e => hsid e.symm
    · have h1 : (x.id == s.id) = false := by simp [hx]
      simp only [h1]
      by_cases hsid : x.id = sid
      · simp [hsid]
      · have h2 : (x.id == sid) = false := by simp [hsid]
        simp only [Bool.false_eq_true, if_false, h2]
        apply ih
        rcases hs with hs | hs
        · left
          have h3 : (x.id == s.id) = false := by simp [hx]
          simpa [List.find?_cons, h3] using hs
        · right; exact hs

theorem sess_id {n : Node} {sid : String} {s : Sess} (h : n.sess sid = some s) : s.id = sid := by
  have := List.find?_some h
  simpa using this

theorem NodeRel.setSess (k : Ack.Key) (n : Node) (sid : String) (s s' : Sess) (hs : n.sess sid = some s)
    (hid : s'.id = s.id) (hc : s'.conn = s.conn) : NodeRel k n (n.setSess s') := by
  have hsid := sess_id hs
  refine ⟨rfl, fun sid' => ?_, fun _ h => h⟩
  simp only [Node.sess, Node.setSess]
  apply find_setSess _ s s' hid hc
  left
  rw [hsid]; exact hs

theorem WRel.extendDeadline (k : Ack.Key) (w : World) (i : Nat) (sid : String) : WRel k w (w.extendDeadline i sid) := by
  unfold World.extendDeadline
  simp only []
  split
  · next s hs => exact WRel.setNode _ _ _ (NodeRel.setSess k _ sid s _ hs rfl rfl)
  · exact WRel.refl _ _

theorem insert_safe {k : Ack.Key} (q : Ack.Queue) (pfx : String) (kind : Ack.PType) (qos : Nat) (mid : Int) (d : Ack.Time)
    (hne : Ack.hashKey pfx mid ≠ k) (hn : Ack.msgFind k q.msgs = none) :
    Ack.msgFind k (Ack.insert q pfx kind qos mid d).1.msgs = none := by
  rcases Ack.insert_cases q pfx kind qos mid d with ⟨h1, _⟩ | ⟨st, _, _, heq⟩
  · rw [h1]; exact hn
  · rw [heq]
    simp [Ack.msgFind_append, hn, Ack.msgFind, hne]


theorem NodeRel.insert (k : Ack.Key) (n : Node) (sid : String) (kind : Ack.PType) (qos : Nat) (mid : Int) (d : Ack.Time)
    (st : List (Ack.Key × Stored)) (hs : (n.sess sid).isSome) :
    NodeRel k n { n with acks := (Ack.insert n.acks sid kind qos mid d).1, stored := st } :=
  ⟨rfl, fun _ => rfl, fun hc hn => insert_safe _ _ _ _ _ _ (hc sid mid hs) hn⟩

theorem WRel.isSome {k : Ack.Key} {w w' : World} (h : WRel k w w') (i : Nat) (sid : String) :
    ((w'.node i).sess sid).isSome = ((w.node i).sess sid).isSome := (h.2 i).isSome sid

theorem WRel.armAndSend (k : Ack.Key) (w : World) (i : Nat) (st : Stored) : WRel k w (w.armAndSend i st) := by
  unfold World.armAndSend
  cases st with
  | inbound => exact WRel.refl _ _
  | out1 sid topic payload retain dup mid =>
    simp only []
    split
    · exact WRel.refl _ _
    · next s hs =>
      have h1 := WRel.extendDeadline k w i sid
      have h2 : ((w.extendDeadline i sid).node i).sess sid |>.isSome := by rw [h1.isSome, hs]; rfl
      split
      · exact h1.trans (WRel.emit (WRel.setNode _ _ _ (NodeRel.insert k _ sid _ _ _ _ _ h2)) _ _)
      · exact h1
  | out2 sid topic payload retain dup mid =>
    simp only []
    split
    · exact WRel.refl _ _
    · next s hs =>
      have h1 := WRel.extendDeadline k w i sid
      have h2 : ((w.extendDeadline i sid).node i).sess sid |>.isSome := by rw [h1.isSome, hs]; rfl
      split
      · exact h1.trans (WRel.emit (WRel.setNode _ _ _ (NodeRel.insert k _ sid _ _ _ _ _ h2)) _ _)
      · exact h1
  | rel sid mid =>
    simp only []
    split
    · exact WRel.refl _ _
    · next s hs =>
      have h1 := WRel.extendDeadline k w i sid
      have h2 : ((w.extendDeadline i sid).node i).sess sid |>.isSome := by rw [h1.isSome, hs]; rfl
      refine h1.trans (WRel.emit (WRel.setNode _ _ _ ?_) _ _)
      split
      · exact NodeRel.insert k _ sid _ _ _ _ _ h2
      · exact NodeRel.refl _ _

theorem WRel.poolPut (k : Ack.Key) (w : World) (i : Nat) (mid : Int) : WRel k w (w.poolPut i mid) :=
  WRel.setNode _ _ _ ⟨rfl, fun _ => rfl, fun _ h => h⟩

theorem WRel.sendArmed (k : Ack.Key) (w : World) (i : Nat) (st : Stored) (sid : String) (mid : Int) :
    WRel k w (w.sendArmed i st sid mid) := by
  unfold World.sendArmed
  simp only []
  split
  · exact (WRel.armAndSend k w i st).trans (WRel.poolPut _ _ _ _)
  · exact WRel.armAndSend k w i st

theorem WRel.send (k : Ack.Key) (i : Nat) (p : Pub) (rcpt : List (String × Int)) :
    ∀ w : World, WRel k w (w.send i rcpt p) := by
  induction rcpt with
  | nil => intro w; exact WRel.refl _ _
  | cons x rest ih =>
    intro w
    obtain ⟨sid, qos⟩ := x
    unfold World.send
    simp only []
    split
    · exact ih w
    · next s hs =>
      split
      · exact (WRel.emit (WRel.extendDeadline k w i sid) _ _).trans (ih _)
      · split
        · split
          · exact WRel.refl _ _
          · refine WRel.trans (WRel.trans ?_ (WRel.sendArmed k _ i _ sid _)) (ih _)
            exact WRel.setNode _ _ _ ⟨rfl, fun _ => rfl, fun _ h => h⟩
        · exact ih w

theorem WRel.deliverLocal (k : Ack.Key) (w : World) (j : Nat) (p : Pub) : WRel k w (w.deliverLocal j p) :=
  WRel.send k j p _ w

theorem WRel.onResolved (k : Ack.Key) (w : World) (i : Nat) (ev : Ack.Resolved) (st : Stored) :
    WRel k w (w.onResolved i ev st) := by
  unfold World.onResolved
  cases st <;> simp only [] <;> repeat' split
  all_goals first | exact WRel.refl _ _ | exact WRel.poolPut _ _ _ _ | exact WRel.armAndSend _ _ _ _


/-! ### what the writer writes -/

theorem WRel.conn_back {k : Ack.Key} {w w' : World} (h : WRel k w w') {i : Nat} {sid : String} {s' : Sess}
    (hs : (w'.node i).sess sid = some s') : ∃ s, (w.node i).sess sid = some s ∧ s.conn = s'.conn := by
  have := (h.2 i).conn sid
  rw [hs] at this
  cases h2 : (w.node i).sess sid with
  | none => simp [h2] at this
  | some s => simp [h2] at this; exact ⟨s, rfl, this.symm⟩

theorem out_extendDeadline (w : World) (i : Nat) (sid : String) : (w.extendDeadline i sid).out = w.out := by
  unfold World.extendDeadline
  simp only []
  split <;> rfl

def stSid : Stored → String
  | .out1 sid .. => sid
  | .out2 sid .. => sid
  | .rel sid _ => sid
  | .inbound sid .. => sid

theorem out_armAndSend (w : World) (i : Nat) (st : Stored) :
    (w.armAndSend i st).out = w.out ∨
      ∃ s pk, (w.node i).sess (stSid st) = some s ∧ (w.armAndSend i st).out = w.out ++ [(s.conn, pk)] := by
  unfold World.armAndSend
  cases st with
  | inbound => left; rfl
  | out1 sid topic payload retain dup mid =>
    simp only [stSid]
    split
    · left; rfl
    · next s hs =>
      split
      · right; exact ⟨s, .publish topic payload 1 retain dup mid, hs, by simp [World.emit, World.setNode, out_extendDeadline]⟩
      · left; exact out_extendDeadline _ _ _
  | out2 sid topic payload retain dup mid =>
    simp only [stSid]
    split
    · left; rfl
    · next s hs =>
      split
      · right; exact ⟨s, .publish topic payload 2 retain dup mid, hs, by simp [World.emit, World.setNode, out_extendDeadline]⟩
      · left; exact out_extendDeadline _ _ _
  | rel sid mid =>
    simp only [stSid]
    split
    · left; rfl
    · next s hs =>
      right; exact ⟨s, .pubrel mid, hs, by simp [World.emit, World.setNode, out_extendDeadline]⟩

theorem out_sendArmed (w : World) (i : Nat) (st : Stored) (sid : String) (mid : Int) :
    (w.sendArmed i st sid mid).out = w.out ∨
      ∃ s pk, (w.node i).sess (stSid st) = some s ∧ (w.sendArmed i st sid mid).out = w.out ++ [(s.conn, pk)] := by
  unfold World.sendArmed
  simp only []
  split
  · exact out_armAndSend w i st
  · exact out_armAndSend w i st

theorem out_send (i : Nat) (p : Pub) (rcpt : List (String × Int)) :
    ∀ (w : World) (cp : String × Pkt), cp ∈ (w.send i rcpt p).out →
      cp ∈ w.out ∨ ∃ sid qos s, (sid, qos) ∈ rcpt ∧ (w.node i).sess sid = some s ∧ s.conn = cp.1 := by
  induction rcpt with
  | nil => intro w cp h; left; exact h
  | cons x rest ih =>
    intro w cp h
    obtain ⟨sid, qos⟩ := x
    unfold World.send at h
    simp only [] at h
    have lift : ∀ {w' : World}, WRel "" w w' →
        (∃ sid qos s, (sid, qos) ∈ rest ∧ (w'.node i).sess sid = some s ∧ s.conn = cp.1) →
        ∃ sid' qos' s, (sid', qos') ∈ (sid, qos) :: rest ∧ (w.node i).sess sid' = some s ∧ s.conn = cp.1 := by
      rintro w' hr ⟨sid', qos', s', hm, hs', hc⟩
      obtain ⟨s, hs, hc'⟩ := hr.conn_back hs'
      exact ⟨sid', qos', s, List.mem_cons_of_mem _ hm, hs, hc'.trans hc⟩
    split at h
    · rcases ih w cp h with h | h
      · left; exact h
      · right; exact lift (WRel.refl _ _) h
    · next s hs =>
      split at h
      · rcases ih _ cp h with h | h
        · simp only [World.emit, out_extendDeadline, List.mem_append, List.mem_singleton] at h
          rcases h with h | h
          · left; exact h
          · right; exact ⟨sid, qos, s, List.mem_cons_self, hs, by rw [h]⟩
        · right; exact lift (WRel.emit (WRel.extendDeadline _ w i sid) _ _) h
      · split at h
        · split at h
          · left; exact h
          · have hr0 : WRel "" w (w.setNode i { w.node i with pool := (IdPool.get (w.node i).pool).1 }) :=
              WRel.setNode _ _ _ ⟨rfl, fun _ => rfl, fun _ h => h⟩
            rcases ih _ cp h with h | h
            · rcases out_sendArmed _ i _ sid _ with ho | ⟨s', pk, hs', ho⟩
              · rw [ho] at h; left; exact h
              · rw [ho] at h
                simp only [List.mem_append, List.mem_singleton] at h
                rcases h with h | h
                · left; exact h
                · right
                  have hsid : stSid (if qos = 1 then Stored.out1 sid (trimMountPoint s.mount p.topic) p.payload p.retain p.dup (IdPool.get (w.node i).pool).2
                      else Stored.out2 sid (trimMountPoint s.mount p.topic) p.payload p.retain p.dup (IdPool.get (w.node i).pool).2) = sid := by
                    split <;> rfl
                  rw [hsid] at hs'
                  obtain ⟨s0, hs0, hc0⟩ := hr0.conn_back hs'
                  exact ⟨sid, qos, s0, List.mem_cons_self, hs0, by rw [h]; exact hc0⟩
            · right; exact lift (hr0.trans (WRel.sendArmed _ _ i _ sid _)) h
        · rcases ih w cp h with h | h
          · left; exact h
          · right; exact lift (WRel.refl _ _) h


/-! ### Distribute -/

theorem mem_dedupNat (l : List Nat) (x : Nat) : x ∈ dedupNat l ↔ x ∈ l := by
  fun_induction dedupNat l with
  | case1 => simp
  | case2 y rest ih =>
    simp only [List.mem_cons, List.mem_filter, ih]
    by_cases h : x = y <;> simp [h]

theorem dedupNat_nodup (l : List Nat) : (dedupNat l).Nodup := by
  fun_induction dedupNat l with
  | case1 => simp
  | case2 y rest ih =>
    rw [List.nodup_cons]
    refine ⟨by simp [List.mem_filter], ?_⟩
    exact List.Nodup.sublist List.filter_sublist ih

theorem node_eq_getElem (w : World) (m : Nat) (h : m < w.nodes.length) : w.node m = w.nodes[m] := by
  simp [World.node, List.getD_eq_getElem?_getD, h]

theorem nodeIndex_none {w : World} {x : Nat} (h : nodeIndexOfPeer w x = none) :
    ∀ m, m < w.nodes.length → (w.node m).peer ≠ x := by
  intro m hm
  unfold nodeIndexOfPeer at h
  rw [List.findIdx?_eq_none_iff] at h
  have := h (w.nodes[m]) (List.getElem_mem hm)
  rw [node_eq_getElem w m hm]
  simpa using this

theorem nodeIndex_some {w : World} {x j : Nat} (h : nodeIndexOfPeer w x = some j) :
    j < w.nodes.length ∧ (w.node j).peer = x := by
  unfold nodeIndexOfPeer at h
  rw [List.findIdx?_eq_some_iff_getElem] at h
  obtain ⟨hj, hp, _⟩ := h
  refine ⟨hj, ?_⟩
  rw [node_eq_getElem w j hj]
  simpa using hp

def reachB (w : World) (i j : Nat) : Bool := j == i || !((w.node j).failed || (w.node j).unreachable)
def acceptsB (n : Node) : Bool := !(n.logFailAll || n.logFailAt.contains n.logCalls)
def DistinctB (w : World) : Prop :=
  ∀ a b, a < w.nodes.length → b < w.nodes.length → (w.node a).peer = (w.node b).peer → a = b

/-- the fields no part of Distribute changes -/
def flags (n : Node) : Nat × Bool × List Nat × Bool × Bool :=
  (n.peer, n.logFailAll, n.logFailAt, n.failed, n.unreachable)

theorem flags_of_core {n n' : Node} (h : core n' = core n) : flags n' = flags n := by
  simp only [core, Prod.mk.injEq] at h
  simp [flags, h]

theorem reachB_congr {w w' : World} {i m : Nat} (h : flags (w'.node m) = flags (w.node m)) : reachB w' i m = reachB w i m := by
  simp only [flags, Prod.mk.injEq] at h
  simp [reachB, h]

theorem acceptsB_congr {n n' : Node} (h : core n' = core n) : acceptsB n' = acceptsB n := by
  simp only [core, Prod.mk.injEq] at h
  simp [acceptsB, h]

def distStep (i : Nat) (p : Pub) (acc : World × Bool) (peer : Nat) : World × Bool :=
  let (w, ok) := acc
  match nodeIndexOfPeer w peer with
  | none => (w, false)
  | some j =>
    let nj := w.node j
    if j ≠ i ∧ (nj.failed ∨ nj.unreachable) then (w, false)
    else
      let (nj', stored) := nj.appendLog p
      let w := w.setNode j nj'
      if stored then (w.deliverLocal j p, ok) else (w, false)

theorem distribute_eq (w : World) (i : Nat) (p : Pub) :
    w.distribute i p =
      (dedupNat ((subByPattern (w.node i).dist p.topic).map (·.peer))).foldl (distStep i p) (w, true) := rfl

theorem reachB_iff (w : World) (i j : Nat) :
    reachB w i j = true ↔ ¬ (j ≠ i ∧ ((w.node j).failed = true ∨ (w.node j).unreachable = true)) := by
  simp only [reachB]
  by_cases h : j = i <;> cases (w.node j).failed <;> cases (w.node j).unreachable <;> simp [h]

theorem distStep_spec (i : Nat) (p : Pub) (w₀ : World) (ok₀ : Bool) (x : Nat) (hd : DistinctB w₀) :
    ((distStep i p (w₀, ok₀) x).1.nodes.length = w₀.nodes.length) ∧
    (∀ m, flags ((distStep i p (w₀, ok₀) x).1.node m) = flags (w₀.node m)) ∧
    (∀ m, m < w₀.nodes.length → (w₀.node m).peer ≠ x → core ((distStep i p (w₀, ok₀) x).1.node m) = core (w₀.node m)) ∧
    (∀ m, m < w₀.nodes.length → (w₀.node m).peer = x →
      ((distStep i p (w₀, ok₀) x).1.node m).log =
        (w₀.node m).log ++ if reachB w₀ i m = true ∧ acceptsB (w₀.node m) = true then [p] else []) ∧
    ((distStep i p (w₀, ok₀) x).2 = true ↔
      ok₀ = true ∧ ∃ m, m < w₀.nodes.length ∧ (w₀.node m).peer = x ∧ reachB w₀ i m = true ∧ acceptsB (w₀.node m) = true) := by
  unfold distStep
  simp only []
  cases hidx : nodeIndexOfPeer w₀ x with
  | none =>
    have hn := nodeIndex_none hidx
    simp only []
    refine ⟨trivial, fun _ => trivial, fun _ _ _ => trivial, fun m hm hx => absurd hx (hn m hm), ?_⟩
    simp only [Bool.false_eq_true, false_iff, not_and, not_exists]
    intro _ m hm hx
    exact absurd hx (hn m hm)
  | some jx =>
    obtain ⟨hjx, hpx⟩ := nodeIndex_some hidx
    have huniq : ∀ m, m < w₀.nodes.length → (w₀.node m).peer = x → m = jx :=
      fun m hm hx => hd m jx hm hjx (hx.trans hpx.symm)
    simp only []
    split
    · next hc =>
      have hr : ¬ (reachB w₀ i jx = true) := by rw [reachB_iff]; exact fun h => h hc
      refine ⟨rfl, fun _ => rfl, fun _ _ _ => rfl, ?_, ?_⟩
      · intro m hm hx
        rw [huniq m hm hx]
        simp [hr]
      · simp only [Bool.false_eq_true, false_iff, not_and, not_exists]
        intro _ m hm hx
        rw [huniq m hm hx]
        exact fun h => absurd h hr
    · next hc =>
      have hr : reachB w₀ i jx = true := by rw [reachB_iff]; exact hc
      unfold Node.appendLog
      simp only []
      split
      · next hf =>
        have ha : ¬ (acceptsB (w₀.node jx) = true) := by simp only [acceptsB, hf]; simp
        simp only [Bool.false_eq_true, if_false]
        refine ⟨length_setNode _ _ _, ?_, ?_, ?_, ?_⟩
        · intro m; rw [node_setNode]; split
          · next h => rw [h.1]; rfl
          · rfl
        · intro m hm hx; rw [node_setNode]; split
          · next h => rw [h.1] at hx; exact absurd hpx hx
          · rfl
        · intro m hm hx
          rw [huniq m hm hx, node_setNode]
          simp [hjx, ha]
        · simp only [false_iff, not_and, not_exists]
          intro _ m hm hx
          rw [huniq m hm hx]
          exact fun _ h => absurd h ha
      · next hf =>
        have ha : acceptsB (w₀.node jx) = true := by simp only [acceptsB]; simpa using hf
        simp only [if_true]
        have hrel := WRel.deliverLocal "" (w₀.setNode jx
          { w₀.node jx with logCalls := (w₀.node jx).logCalls + 1, log := (w₀.node jx).log ++ [p] }) jx p
        refine ⟨hrel.1.trans (length_setNode _ _ _), ?_, ?_, ?_, ?_⟩
        · intro m
          rw [flags_of_core (hrel.2 m).core, node_setNode]; split
          · next h => rw [h.1]; rfl
          · rfl
        · intro m hm hx
          rw [(hrel.2 m).core, node_setNode]; split
          · next h => rw [h.1] at hx; exact absurd hpx hx
          · rfl
        · intro m hm hx
          have hc := (hrel.2 m).core
          simp only [core, Prod.mk.injEq] at hc
          rw [hc.2.1, huniq m hm hx, node_setNode]
          simp [hjx, ha, hr]
        · constructor
          · intro h; exact ⟨h, jx, hjx, hpx, hr, ha⟩
          · intro h; exact h.1


theorem peer_of_flags {n n' : Node} (h : flags n' = flags n) : n'.peer = n.peer := by
  simp only [flags, Prod.mk.injEq] at h
  exact h.1

theorem log_of_core {n n' : Node} (h : core n' = core n) : n'.log = n.log := by
  simp only [core, Prod.mk.injEq] at h
  exact h.2.1

theorem distFold_spec (i : Nat) (p : Pub) (ps : List Nat) :
    ps.Nodup → ∀ (w₀ : World) (ok₀ : Bool), DistinctB w₀ →
    ((ps.foldl (distStep i p) (w₀, ok₀)).1.nodes.length = w₀.nodes.length) ∧
    (∀ m, m < w₀.nodes.length →
      ((ps.foldl (distStep i p) (w₀, ok₀)).1.node m).log =
        (w₀.node m).log ++
          if (w₀.node m).peer ∈ ps ∧ reachB w₀ i m = true ∧ acceptsB (w₀.node m) = true then [p] else []) ∧
    ((ps.foldl (distStep i p) (w₀, ok₀)).2 = true ↔
      ok₀ = true ∧ ∀ x ∈ ps, ∃ m, m < w₀.nodes.length ∧ (w₀.node m).peer = x ∧ reachB w₀ i m = true ∧ acceptsB (w₀.node m) = true) := by
  induction ps with
  | nil => intro _ w₀ ok₀ _; simp
  | cons x rest ih =>
    intro hnd w₀ ok₀ hd
    rw [List.nodup_cons] at hnd
    obtain ⟨hlen, hflags, hcore, hlog, hok⟩ := distStep_spec i p w₀ ok₀ x hd
    have hd' : DistinctB (distStep i p (w₀, ok₀) x).1 := by
      intro a b ha hb hab
      rw [hlen] at ha hb
      rw [peer_of_flags (hflags a), peer_of_flags (hflags b)] at hab
      exact hd a b ha hb hab
    obtain ⟨ilen, ilog, iok⟩ := ih hnd.2 (distStep i p (w₀, ok₀) x).1 (distStep i p (w₀, ok₀) x).2 hd'
    simp only [List.foldl_cons]
    refine ⟨ilen.trans hlen, ?_, ?_⟩
    · intro m hm
      rw [ilog m (hlen ▸ hm), peer_of_flags (hflags m), reachB_congr (hflags m)]
      by_cases hx : (w₀.node m).peer = x
      · have hnr : (w₀.node m).peer ∉ rest := hx ▸ hnd.1
        rw [hlog m hm hx]
        simp [hx, hnd.1]
      · have hc := hcore m hm hx
        rw [log_of_core hc, acceptsB_congr hc]
        simp [hx]
    · rw [iok, hok]
      have key : ∀ y ∈ rest,
          ((∃ m, m < (distStep i p (w₀, ok₀) x).1.nodes.length ∧ ((distStep i p (w₀, ok₀) x).1.node m).peer = y ∧
              reachB (distStep i p (w₀, ok₀) x).1 i m = true ∧ acceptsB ((distStep i p (w₀, ok₀) x).1.node m) = true) ↔
           (∃ m, m < w₀.nodes.length ∧ (w₀.node m).peer = y ∧ reachB w₀ i m = true ∧ acceptsB (w₀.node m) = true)) := by
        intro y hy
        have hyx : y ≠ x := fun e => hnd.1 (e ▸ hy)
        apply exists_congr
        intro m
        rw [hlen, peer_of_flags (hflags m), reachB_congr (hflags m)]
        constructor
        · rintro ⟨hm, hp, hr, ha⟩
          have hc := hcore m hm (hp ▸ hyx)
          exact ⟨hm, hp, hr, by rw [← acceptsB_congr hc]; exact ha⟩
        · rintro ⟨hm, hp, hr, ha⟩
          have hc := hcore m hm (hp ▸ hyx)
          exact ⟨hm, hp, hr, by rw [acceptsB_congr hc]; exact ha⟩
      constructor
      · rintro ⟨⟨h0, hx⟩, hr⟩
        refine ⟨h0, ?_⟩
        intro y hy
        rcases List.mem_cons.mp hy with rfl | hy
        · exact hx
        · exact (key y hy).mp (hr y hy)
      · rintro ⟨h0, hall⟩
        exact ⟨⟨h0, hall x List.mem_cons_self⟩, fun y hy => (key y hy).mpr (hall y (List.mem_cons_of_mem _ hy))⟩


/-! ### in-flight keys: `hashKey` determines its prefix -/

theorem slash_not_in_natRepr (n : Nat) : '/' ∉ n.repr.toList := by
  rw [Nat.toList_repr]
  intro h
  have := Nat.isDigit_of_mem_toDigits (b := 10) (by decide) (by decide) h
  exact absurd this (by decide)

theorem slash_not_in_intToString (m : Int) : '/' ∉ (toString m).toList := by
  rw [Int.toString_eq_repr, Int.repr_eq_if]
  split
  · exact slash_not_in_natRepr _
  · rw [String.toList_append]
    intro h
    rcases List.mem_append.mp h with h | h
    · revert h; decide
    · exact slash_not_in_natRepr _ h

theorem list_split_last {a b r r' : List Char} (c : Char) (hr : c ∉ r) (hr' : c ∉ r')
    (h : a ++ c :: r = b ++ c :: r') : a = b := by
  induction a generalizing b with
  | nil =>
    cases b with
    | nil => rfl
    | cons y b' =>
      simp only [List.nil_append, List.cons_append, List.cons.injEq] at h
      exact absurd (h.2 ▸ (by simp : c ∈ b' ++ c :: r')) hr
  | cons x a' ih =>
    cases b with
    | nil =>
      simp only [List.nil_append, List.cons_append, List.cons.injEq] at h
      exact absurd (h.2 ▸ (by simp : c ∈ a' ++ c :: r)) hr'
    | cons y b' =>
      simp only [List.cons_append, List.cons.injEq] at h
      rw [h.1, ih h.2]

theorem hashKey_prefix_inj {a b : String} {m m' : Int} (h : Ack.hashKey a m = Ack.hashKey b m') : a = b := by
  unfold Ack.hashKey at h
  have h2 := congrArg String.toList h
  simp only [String.toList_append] at h2
  have hs : "/".toList = ['/'] := by decide
  rw [hs, List.append_assoc, List.append_assoc] at h2
  exact String.toList_injective
    (list_split_last '/' (slash_not_in_intToString m) (slash_not_in_intToString m') h2)

theorem noClash_of_none {n : Node} {pfx : String} (mid : Int) (h : n.sess pfx = none) :
    NoClash (Ack.hashKey pfx mid) n := by
  intro sid' mid' hs hk
  rw [hashKey_prefix_inj hk, h] at hs
  cases hs


/-! ### the weaker frame relation of the whole publish pipeline (logs and replicated state may change) -/

structure NodeRelS (k : Ack.Key) (n n' : Node) : Prop where
  conn : ∀ sid, (n'.sess sid).map (·.conn) = (n.sess sid).map (·.conn)
  safe : NoClash k n → Ack.msgFind k n.acks.msgs = none → Ack.msgFind k n'.acks.msgs = none

theorem NodeRel.toS {k : Ack.Key} {n n' : Node} (h : NodeRel k n n') : NodeRelS k n n' := ⟨h.conn, h.safe⟩

theorem NodeRelS.refl (k : Ack.Key) (n : Node) : NodeRelS k n n := ⟨fun _ => rfl, fun _ h => h⟩

theorem NodeRelS.noClash {k : Ack.Key} {n n' : Node} (h : NodeRelS k n n') (hc : NoClash k n) : NoClash k n' := by
  intro sid' mid' hs
  have := h.conn sid'
  have h2 : (n.sess sid').isSome := by
    cases h1 : n'.sess sid' <;> cases h2 : n.sess sid' <;> simp [h1, h2] at this hs ⊢
  exact hc sid' mid' h2

theorem NodeRelS.trans {k : Ack.Key} {a b c : Node} (h1 : NodeRelS k a b) (h2 : NodeRelS k b c) : NodeRelS k a c :=
  ⟨fun sid => (h2.conn sid).trans (h1.conn sid), fun hc hn => h2.safe (h1.noClash hc) (h1.safe hc hn)⟩

def WRelS (k : Ack.Key) (w w' : World) : Prop :=
  w'.nodes.length = w.nodes.length ∧ ∀ m, NodeRelS k (w.node m) (w'.node m)

theorem WRel.toS {k : Ack.Key} {w w' : World} (h : WRel k w w') : WRelS k w w' := ⟨h.1, fun m => (h.2 m).toS⟩

theorem WRelS.refl (k : Ack.Key) (w : World) : WRelS k w w := ⟨rfl, fun _ => NodeRelS.refl _ _⟩

theorem WRelS.trans {k : Ack.Key} {a b c : World} (h1 : WRelS k a b) (h2 : WRelS k b c) : WRelS k a c :=
  ⟨h2.1.trans h1.1, fun m => (h1.2 m).trans (h2.2 m)⟩

theorem WRelS.setNode {k : Ack.Key} (w : World) (j : Nat) (n' : Node) (h : NodeRelS k (w.node j) n') :
    WRelS k w (w.setNode j n') := by
  refine ⟨length_setNode _ _ _, fun m => ?_⟩
  rw [node_setNode]
  split
  · next hm => rw [hm.1]; exact h
  · exact NodeRelS.refl _ _

theorem WRelS.broadcast (k : Ack.Key) (w : World) (i : Nat) (ev : Event) : WRelS k w (w.broadcast i ev) :=
  WRelS.setNode _ _ _ ⟨fun _ => rfl, fun _ h => h⟩

theorem WRelS.setDist (k : Ack.Key) (w : World) (i : Nat) (d : State) :
    WRelS k w (w.setNode i { w.node i with dist := d }) :=
  WRelS.setNode _ _ _ ⟨fun _ => rfl, fun _ h => h⟩

/-- retain handling of the publish worker -/
def retainStep (w : World) (i : Nat) (p : Pub) : World :=
  if p.retain then
    let (w, t) := w.tick
    let n := w.node i
    let (d, ev) := if p.payload = "" then topicDelete n.dist t p.topic else topicSet n.dist t p.topic p.payload p.qos true p.dup
    (w.setNode i { n with dist := d }).broadcast i ev
  else w

theorem publishJob_eq (w : World) (i : Nat) (p : Pub) (onOk : World → World) :
    w.publishJob i p onOk =
      (if ((retainStep w i p).distribute i { p with retain := false }).2
        then onOk ((retainStep w i p).distribute i { p with retain := false }).1
        else ((retainStep w i p).distribute i { p with retain := false }).1) := rfl

theorem WRelS.retainStep (k : Ack.Key) (w : World) (i : Nat) (p : Pub) : WRelS k w (retainStep w i p) := by
  unfold AgentB.retainStep
  split
  · have h0 : WRelS k w w.tick.1 := ⟨rfl, fun _ => NodeRelS.refl _ _⟩
    exact h0.trans ((WRelS.setDist k _ i _).trans (WRelS.broadcast k _ i _))
  · exact WRelS.refl _ _

theorem WRelS.distStep (k : Ack.Key) (i : Nat) (p : Pub) (w : World) (ok : Bool) (x : Nat) :
    WRelS k w (distStep i p (w, ok) x).1 := by
  unfold AgentB.distStep
  simp only []
  split
  · exact WRelS.refl _ _
  · split
    · exact WRelS.refl _ _
    · unfold Node.appendLog
      simp only []
      split
      · exact WRelS.setNode _ _ _ ⟨fun _ => rfl, fun _ h => h⟩
      · simp only [if_true]
        refine WRelS.trans ?_ (WRel.deliverLocal k _ _ _).toS
        exact WRelS.setNode _ _ _ ⟨fun _ => rfl, fun _ h => h⟩

theorem WRelS.distFold (k : Ack.Key) (i : Nat) (p : Pub) (ps : List Nat) :
    ∀ (w : World) (ok : Bool), WRelS k w (ps.foldl (AgentB.distStep i p) (w, ok)).1 := by
  induction ps with
  | nil => intro w ok; exact WRelS.refl _ _
  | cons x rest ih =>
    intro w ok
    simp only [List.foldl_cons]
    exact (WRelS.distStep k i p w ok x).trans (ih _ _)

theorem WRelS.distribute (k : Ack.Key) (w : World) (i : Nat) (p : Pub) : WRelS k w (w.distribute i p).1 := by
  rw [distribute_eq]
  exact WRelS.distFold k i p _ w true

theorem WRelS.publishJob (k : Ack.Key) (w : World) (i : Nat) (p : Pub) (onOk : World → World)
    (hok : ∀ w', WRelS k w' (onOk w')) : WRelS k w (w.publishJob i p onOk) := by
  rw [publishJob_eq]
  have h := (WRelS.retainStep k w i p).trans (WRelS.distribute k _ i { p with retain := false })
  split
  · exact h.trans (hok _)
  · exact h

/-- the loop body of `ackFrom` for one resolved entry -/
theorem WRelS.ackStep (k : Ack.Key) (w : World) (i : Nat) (ev : Ack.Resolved) :
    WRelS k w
      (match storedFind ev.key (w.node i).stored with
       | none => w
       | some st =>
         match st with
         | .inbound _ conn pub imid =>
           (w.setNode i { w.node i with stored := storedErase ev.key (w.node i).stored }).publishJob i pub
             (fun w => w.emit conn (.pubcomp imid))
         | _ => (w.setNode i { w.node i with stored := storedErase ev.key (w.node i).stored }).onResolved i ev st) := by
  have h0 : WRelS k w (w.setNode i { w.node i with stored := storedErase ev.key (w.node i).stored }) :=
    WRelS.setNode _ _ _ ⟨fun _ => rfl, fun _ h => h⟩
  split
  · exact WRelS.refl _ _
  · split
    · exact h0.trans (WRelS.publishJob k _ i _ _ (fun w' => WRelS.refl _ _))
    · exact h0.trans (WRel.onResolved k _ i ev _).toS


/-! ### counterexample world for `C05_pubrel_closes` without the `hreg` hypothesis -/

/-- one node; a session is registered under the id "S/in", i.e. the in-flight prefix of the inbound
    handshakes of session "S"; the entry stored under the key "S/in/5" is a QoS 2 delivery to it -/
def cexNode : Node :=
  { peer := 1, dist := { peer := 1 }, pool := initPool
    reg := [{ id := "S/in", conn := "c", client := "cl", mount := "", keepalive := 30, will := none }]
    acks := { msgs := [(Ack.hashKey ("S" ++ "/in") 5, ⟨.pubrel, .pubrec, 5, 3000⟩)], timeouts := [] }
    stored := [(Ack.hashKey ("S" ++ "/in") 5, .out2 "S/in" "t" "p" false false 5)] }

def cexWorld : World := { nodes := [cexNode] }

end Wasp.Broker.AgentB

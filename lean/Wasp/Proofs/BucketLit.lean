import Wasp.Generated.BucketLit
import Wasp.Model.AckQueue
import Wasp.Proofs.AckQueue
import Wasp.Proofs.GoLit
/-! The tie by translation for the timeout buckets of the ack queue.

`Wasp.Generated.BucketLit.put` / `.delete` are the LITERAL renderings of `(*bucket).put` /
`(*bucket).delete` (wasp/expiration/bucket.go) produced by extract/imperative.go on every run
(append + `sort.SliceStable`; `sort.Search` + the `for` loop with index arithmetic; `none` = a
panic or the loop bound `len(b.data)` exceeded). They are proven equal to the hand-written
structural model `Wasp.Ack.bucketPut` / `Wasp.Ack.bucketDelete` on every bucket whose items
are sorted by deadline (`Wasp.Ack.Sorted`, the invariant the AckQueue proofs maintain). -/
namespace Wasp.Ack.BucketLit
open Wasp.Generated.BucketLit

def itemLit (it : Item) : item := ⟨it.value, it.deadline⟩

/-- the obvious conversion; the fields `index` (heap position) and `deadline` (rounded key) of
    the Go bucket are not touched by put/delete and are carried along -/
def toLit (index dl : Int) (b : List Item) : bucket := ⟨index, b.map itemLit, dl⟩

/-! ### put -/

theorem bucketPut_front (it : Item) (b : List Item) (h : ∀ y ∈ b, it.deadline < y.deadline) :
    bucketPut it b = it :: b := by
  cases b with
  | nil => rfl
  | cons y ys => simp [bucketPut, h y (by simp)]

theorem lt_lit_true {a b : Item} (h : a.deadline < b.deadline) :
    Go.lt (itemLit a).deadline (itemLit b).deadline = true := by
  show decide (a.deadline < b.deadline) = true
  exact decide_eq_true h

theorem lt_lit_false {a b : Item} (h : b.deadline ≤ a.deadline) :
    Go.lt (itemLit a).deadline (itemLit b).deadline = false := by
  show decide (a.deadline < b.deadline) = false
  exact decide_eq_false (by tomega)

theorem foldr_insert_eq (it : Item) (b : List Item) (hs : Sorted b) :
    (b.map itemLit).foldr (Go.insertBy fun e_i e_j : item => Go.lt e_i.deadline e_j.deadline) [itemLit it]
      = (bucketPut it b).map itemLit := by
  induction b with
  | nil => rfl
  | cons x rest ih =>
    simp only [Sorted, List.pairwise_cons] at hs
    simp only [List.map_cons, List.foldr_cons, ih hs.2]
    by_cases hlt : it.deadline < x.deadline
    · have hfront : bucketPut it rest = it :: rest :=
        bucketPut_front it rest (fun y hy => by have := hs.1 y hy; tomega)
      simp only [bucketPut, hlt, if_true, hfront, List.map_cons]
      rw [Go.insertBy, if_pos (lt_lit_true hlt), Go.insertBy_front]
      intro y hy
      obtain ⟨z, hz, rfl⟩ := List.mem_map.1 hy
      exact lt_lit_false (hs.1 z hz)
    · simp only [bucketPut, hlt, if_false, List.map_cons]
      apply Go.insertBy_front
      intro y hy
      obtain ⟨z, hz, rfl⟩ := List.mem_map.1 hy
      rcases mem_bucketPut.mp hz with rfl | hz
      · exact lt_lit_false (by tomega)
      · exact lt_lit_false (hs.1 z hz)

/-- put as written (append, then sort.SliceStable by deadline) = the model's `bucketPut`
    (insert before the first later item), on a bucket sorted by deadline. `Sorted` is needed:
    the code re-sorts the whole slice, the model only places the new item. It never panics. -/
theorem putLit_eq (index dl : Int) (b : List Item) (hs : Sorted b) (v : Key) (d : Time) :
    Wasp.Generated.BucketLit.put (toLit index dl b) v d = some (toLit index dl (bucketPut ⟨v, d⟩ b)) := by
  simp only [Generated.BucketLit.put, toLit, Go.sortStableBy_append_singleton]
  rw [show ({ value := v, deadline := d } : item) = itemLit ⟨v, d⟩ from rfl, foldr_insert_eq _ b hs]

/-! ### delete -/

theorem sorted_split (d : Time) {b : List Item} (hs : Sorted b) :
    ∃ pre rest, b = pre ++ rest ∧ (∀ x ∈ pre, x.deadline < d) ∧ (∀ x ∈ rest, d ≤ x.deadline) := by
  induction b with
  | nil => exact ⟨[], [], rfl, by simp, by simp⟩
  | cons x r ih =>
    simp only [Sorted, List.pairwise_cons] at hs
    by_cases hx : x.deadline < d
    · obtain ⟨pre, rest, e, h1, h2⟩ := ih hs.2
      refine ⟨x :: pre, rest, by simp [e], ?_, h2⟩
      intro y hy
      rcases List.mem_cons.1 hy with rfl | hy
      · exact hx
      · exact h1 y hy
    · refine ⟨[], x :: r, rfl, by simp, ?_⟩
      intro y hy
      rcases List.mem_cons.1 hy with rfl | hy
      · tomega
      · have := hs.1 y hy; tomega

theorem bucketDelete_append (v : Key) (d : Time) (pre rest : List Item) (h : ∀ x ∈ pre, x.deadline < d) :
    bucketDelete v d (pre ++ rest) = (pre ++ (bucketDelete v d rest).1, (bucketDelete v d rest).2) := by
  induction pre with
  | nil => rfl
  | cons x pre ih =>
    have hx := h x (by simp)
    simp [bucketDelete, hx, ih (fun y hy => h y (by simp [hy]))]

theorem turn_nil (index dl : Int) (v : Key) (d : Time) (pre : List Item) :
    delete_loop1 v d (toLit index dl (pre ++ []), (pre.length : Int))
      = some (Go.Ctl.done (toLit index dl (pre ++ []), (pre.length : Int))) := by
  simp [delete_loop1, toLit, Go.lt, Go.eq, Go.inRange, Go.len]

theorem turn_cons (index dl : Int) (v : Key) (d : Time) (pre : List Item) (x : Item) (rest : List Item) :
    delete_loop1 v d (toLit index dl (pre ++ x :: rest), (pre.length : Int))
      = if x.deadline = d then
          if x.value = v then some (Go.Ctl.ret (toLit index dl (pre ++ rest), true))
          else some (Go.Ctl.next (toLit index dl (pre ++ x :: rest), (pre.length : Int) + 1))
        else some (Go.Ctl.done (toLit index dl (pre ++ x :: rest), (pre.length : Int))) := by
  have hk : (pre.length : Int) < (pre.length : Int) + ((rest.length : Int) + 1) := by omega
  have hk2 : (pre.length : Int) ≤ (pre.length : Int) + ((rest.length : Int) + 1) := by omega
  have hk3 : (0 : Int) ≤ (pre.length : Int) + 1 := by omega
  have hk4 : (1 : Int) ≤ (rest.length : Int) + 1 := by omega
  simp [delete_loop1, toLit, Go.lt, Go.eq, Go.inRange, Go.len, Go.index, Go.sliceToOk, Go.sliceFromOk,
    Go.sliceTo, Go.sliceFrom, Go.drop_succ_append, itemLit, hk, hk2, hk3, hk4]

theorem loop_spec (index dl : Int) (v : Key) (d : Time) :
    ∀ (rest pre : List Item) (fuel : Nat), rest.length < fuel → (∀ x ∈ rest, d ≤ x.deadline) →
      ((bucketDelete v d rest).2 = true ∧
        Go.loop fuel (toLit index dl (pre ++ rest), (pre.length : Int)) (delete_loop1 v d)
          = some (Go.Ctl.ret (toLit index dl (pre ++ (bucketDelete v d rest).1), true))) ∨
      (bucketDelete v d rest = (rest, false) ∧ ∃ k,
        Go.loop fuel (toLit index dl (pre ++ rest), (pre.length : Int)) (delete_loop1 v d)
          = some (Go.Ctl.done (toLit index dl (pre ++ rest), k))) := by
  intro rest
  induction rest with
  | nil =>
    intro pre fuel hf _
    obtain ⟨n, rfl⟩ : ∃ n, fuel = n + 1 := ⟨fuel - 1, by simp at hf; omega⟩
    right
    exact ⟨rfl, pre.length, by simp only [Go.loop, turn_nil]⟩
  | cons x rest ih =>
    intro pre fuel hf hge
    obtain ⟨n, rfl⟩ : ∃ n, fuel = n + 1 := ⟨fuel - 1, by simp at hf; omega⟩
    have hx : d ≤ x.deadline := hge x (by simp)
    have hnlt : ¬ x.deadline < d := by tomega
    simp only [Go.loop, turn_cons]
    by_cases hd : x.deadline = d
    · by_cases hv : x.value = v
      · left
        simp [bucketDelete, hd, hv]
      · have := ih (pre ++ [x]) n (by simp at hf; omega) (fun y hy => hge y (by simp [hy]))
        simp only [List.append_assoc, List.singleton_append, List.length_append, List.length_singleton,
          Int.natCast_add, Int.natCast_one] at this
        rcases this with ⟨h1, h2⟩ | ⟨h1, k, h2⟩
        · left
          simp [bucketDelete, hd, hv, h1, h2]
        · right
          simp [bucketDelete, hd, hv, h1, h2]
    · right
      simp [bucketDelete, hnlt, hd]

/-- delete as written (sort.Search, then the scan loop with index arithmetic) = the model's
    `bucketDelete` (one linear walk), on a bucket PARTITIONED with respect to `d` -/
theorem deleteLit_eq_of_partition (index dl : Int) (pre rest : List Item) (v : Key) (d : Time)
    (h1 : ∀ x ∈ pre, x.deadline < d) (h2 : ∀ x ∈ rest, d ≤ x.deadline) :
    Wasp.Generated.BucketLit.delete (toLit index dl (pre ++ rest)) v d
      = some (toLit index dl (bucketDelete v d (pre ++ rest)).1, (bucketDelete v d (pre ++ rest)).2) := by
  have hs := Go.search_append (fun x : item => !Go.lt x.deadline d) (pre.map itemLit) (rest.map itemLit)
    (by intro x hx; obtain ⟨y, hy, rfl⟩ := List.mem_map.1 hx
        show (!decide (y.deadline < d)) = false
        simp [h1 y hy])
    (by intro x hx; obtain ⟨y, hy, rfl⟩ := List.mem_map.1 hx
        show (!decide (y.deadline < d)) = true
        have := h2 y hy
        simp; tomega)
  have hg : Go.forallBelow (Go.len (List.map itemLit (pre ++ rest))) (fun i => Go.inRange (List.map itemLit (pre ++ rest)) i) = true := by
    rw [Go.forallBelow_iff]; intro i h0 hi; rw [Go.inRange_iff]; exact ⟨h0, hi⟩
  simp only [← List.map_append, List.length_map] at hs
  have hl := loop_spec index dl v d rest pre ((Go.len (List.map itemLit (pre ++ rest))).toNat + 1)
    (by simp [Go.len]; omega) h2
  rw [bucketDelete_append v d pre rest h1]
  simp only [Generated.BucketLit.delete]
  simp only [toLit] at hl ⊢
  simp only [hg, hs, if_true]
  rcases hl with ⟨e1, e2⟩ | ⟨e1, k, e2⟩
  · simp only [e2, e1]
  · simp only [e2, e1]

theorem deleteLit_eq (index dl : Int) (b : List Item) (hs : Sorted b) (v : Key) (d : Time) :
    Wasp.Generated.BucketLit.delete (toLit index dl b) v d
      = some (toLit index dl (bucketDelete v d b).1, (bucketDelete v d b).2) := by
  obtain ⟨pre, rest, e, h1, h2⟩ := sorted_split d hs
  subst e
  exact deleteLit_eq_of_partition index dl pre rest v d h1 h2


/-- `Sorted` cannot be dropped from `putLit_eq` / `deleteLit_eq` -/
theorem putLit_ne_unsorted :
    Wasp.Generated.BucketLit.put (toLit 0 0 [⟨"a", 5⟩, ⟨"b", 1⟩]) "c" 3
      ≠ some (toLit 0 0 (bucketPut ⟨"c", 3⟩ [⟨"a", 5⟩, ⟨"b", 1⟩])) := by
  decide

theorem deleteLit_ne_unsorted :
    Wasp.Generated.BucketLit.delete (toLit 0 0 [⟨"a", 5⟩, ⟨"b", 1⟩]) "a" 5
      ≠ some (toLit 0 0 (bucketDelete "a" 5 [⟨"a", 5⟩, ⟨"b", 1⟩]).1, (bucketDelete "a" 5 [⟨"a", 5⟩, ⟨"b", 1⟩]).2) := by
  decide

end Wasp.Ack.BucketLit

import Wasp.Generated.SessionLit
import Wasp.Proofs.GoLit
/-!
# The per-session filter list AS WRITTEN (`wasp/sessions/session.go`, `AddTopic` / `RemoveTopic`)

`Wasp.Generated.SessionLit.addTopic / removeTopic` are regenerated from the Go source on every run. The `range`
loops run over a snapshot of `s.topics` taken at loop entry (Go evaluates the range expression once), every index
and slice expression is guarded (`none` = the Go code would panic).

* `addTopic_eq`: on EVERY list the code never panics and appends the filter unless it is already there.
* `removeTopic_eq`: on a list without duplicates the code never panics; a filter that is present is replaced by the
  last element and the list is cut by one (`swapOut`), which is a permutation of `filter (· != t)`.
* `removeTopic_dup_panics`: on a list WITH duplicates the code as written can index out of range.
-/
namespace Wasp.SessionLit
open Wasp.Generated.SessionLit

abbrev Topic := List Char

/-! ### AddTopic -/

theorem add_turn_end (s : Session) (t : Topic) (snap : List Topic) :
    addTopic_loop1 s t snap (snap.length : Int) = some (Go.Ctl.done (snap.length : Int)) := by
  simp [addTopic_loop1, Go.lt, Go.len]

theorem add_turn (s : Session) (t : Topic) (snap : List Topic) (k : Nat) (h : k < snap.length) :
    addTopic_loop1 s t snap (k : Int) =
      if t = snap[k] then some (Go.Ctl.ret s) else some (Go.Ctl.next ((k + 1 : Nat) : Int)) := by
  have hk : Go.lt (k : Int) (Go.len snap) = true := by
    rw [Go.lt_iff, Go.len_eq]; omega
  have hr : Go.inRange snap (k : Int) = true := by
    rw [Go.inRange_iff]; omega
  have hi : Go.index snap (k : Int) = snap[k] := by
    rw [Go.index_natCast]; simp [h]
  simp only [addTopic_loop1, hk, hr, hi, if_true, Go.eq]
  by_cases e : t = snap[k] <;> simp [e]

/-- the search loop of AddTopic from position `k` on -/
theorem add_loop (s : Session) (t : Topic) (snap : List Topic) :
    ∀ (fuel k : Nat), k ≤ snap.length → snap.length - k < fuel →
      Go.loop fuel (k : Int) (addTopic_loop1 s t snap) =
        if t ∈ snap.drop k then some (Go.Ctl.ret s) else some (Go.Ctl.done (snap.length : Int)) := by
  intro fuel
  induction fuel with
  | zero => intro k _ h; omega
  | succ fuel ih =>
    intro k hk hf
    by_cases hlt : k < snap.length
    · have hd : snap.drop k = snap[k] :: snap.drop (k + 1) := List.drop_eq_getElem_cons hlt
      simp only [Go.loop, add_turn s t snap k hlt]
      by_cases e : t = snap[k]
      · have hm : t ∈ snap.drop k := by rw [hd]; exact List.mem_cons.2 (Or.inl e)
        rw [if_pos e, if_pos hm]
      · have hm : (t ∈ snap.drop k) ↔ (t ∈ snap.drop (k + 1)) := by
          rw [hd]
          constructor
          · intro h
            rcases List.mem_cons.1 h with h | h
            · exact absurd h e
            · exact h
          · intro h; exact List.mem_cons_of_mem _ h
        simp only [e, if_false]
        rw [ih (k + 1) (by omega) (by omega)]
        simp only [hm]
    · have hk' : k = snap.length := by omega
      subst hk'
      simp [Go.loop, add_turn_end]

/-- (a) on EVERY topic list the code as written does not panic and adds `t` unless it is present -/
theorem addTopic_eq (topics : List Topic) (t : Topic) :
    addTopic ⟨topics⟩ t = some ⟨if topics.contains t then topics else topics ++ [t]⟩ := by
  have h := add_loop ⟨topics⟩ t topics (topics.length + 1) 0 (by omega) (by omega)
  simp only [List.drop_zero, Int.natCast_zero] at h
  have hf : (Go.len topics).toNat + 1 = topics.length + 1 := by simp [Go.len]
  simp only [addTopic, hf, h]
  by_cases m : t ∈ topics <;> simp [m]

/-! ### RemoveTopic -/

/-- what one matching turn does: the last element goes into the hole, the list is cut by one -/
def swapOut (l : List Topic) (j : Nat) : List Topic :=
  (l.set j (l[l.length - 1]?.getD default)).take (l.length - 1)

theorem rem_turn_end (new : Topic) (snap : List Topic) (s : Session) :
    removeTopic_loop1 new snap (s, (snap.length : Int)) = some (Go.Ctl.done (s, (snap.length : Int))) := by
  simp [removeTopic_loop1, Go.lt, Go.len]

theorem rem_turn_ne (new : Topic) (snap : List Topic) (s : Session) (k : Nat) (h : k < snap.length)
    (hne : snap[k] ≠ new) :
    removeTopic_loop1 new snap (s, (k : Int)) = some (Go.Ctl.next (s, ((k + 1 : Nat) : Int))) := by
  have hk : Go.lt (k : Int) (Go.len snap) = true := by
    rw [Go.lt_iff, Go.len_eq]; omega
  have hr : Go.inRange snap (k : Int) = true := by
    rw [Go.inRange_iff]; omega
  have hi : Go.index snap (k : Int) = snap[k] := by
    rw [Go.index_natCast]; simp [h]
  simp [removeTopic_loop1, hk, hr, hi, Go.eq, hne]

theorem rem_turn_eq (new : Topic) (snap : List Topic) (s : Session) (k : Nat) (h : k < snap.length)
    (heq : snap[k] = new) (hs : k < s.topics.length) :
    removeTopic_loop1 new snap (s, (k : Int)) =
      some (Go.Ctl.next (⟨swapOut s.topics k⟩, ((k + 1 : Nat) : Int))) := by
  have hk : Go.lt (k : Int) (Go.len snap) = true := by
    rw [Go.lt_iff, Go.len_eq]; omega
  have hr : Go.inRange snap (k : Int) = true := by
    rw [Go.inRange_iff]; omega
  have hi : Go.index snap (k : Int) = snap[k] := by
    rw [Go.index_natCast]; simp [h]
  have hl : Go.len s.topics - 1 = ((s.topics.length - 1 : Nat) : Int) := by
    rw [Go.len_eq]; omega
  have hr1 : Go.inRange s.topics ((s.topics.length - 1 : Nat) : Int) = true := by
    rw [Go.inRange_iff]; omega
  have hr2 : Go.inRange s.topics (k : Int) = true := by
    rw [Go.inRange_iff]; omega
  have hlen : (s.topics.set k (s.topics[s.topics.length - 1]?.getD default)).length = s.topics.length := by simp
  simp only [removeTopic_loop1, hk, hr, hi, heq, Go.eq, if_true, decide_true, hl, hr1, hr2, Bool.and_self,
    Go.index_natCast, Go.set_natCast]
  have hl2 : Go.len (s.topics.set k (s.topics[s.topics.length - 1]?.getD default)) - 1
      = ((s.topics.length - 1 : Nat) : Int) := by
    rw [Go.len_eq, hlen]; omega
  have hok : Go.sliceToOk (s.topics.set k (s.topics[s.topics.length - 1]?.getD default))
      ((s.topics.length - 1 : Nat) : Int) = true := by
    rw [Go.sliceToOk_iff, hlen]; omega
  simp [hl2, hok, Go.sliceTo_natCast, swapOut]

/-- a matching turn at a position the shrunk list no longer has: index out of range -/
theorem rem_turn_panic (new : Topic) (snap : List Topic) (s : Session) (k : Nat) (h : k < snap.length)
    (heq : snap[k] = new) (hs : s.topics.length ≤ k) :
    removeTopic_loop1 new snap (s, (k : Int)) = none := by
  have hk : Go.lt (k : Int) (Go.len snap) = true := by
    rw [Go.lt_iff, Go.len_eq]; omega
  have hr : Go.inRange snap (k : Int) = true := by
    rw [Go.inRange_iff]; omega
  have hi : Go.index snap (k : Int) = snap[k] := by
    rw [Go.index_natCast]; simp [h]
  have hr2 : Go.inRange s.topics (k : Int) = false := by
    rw [← Bool.not_eq_true, Go.inRange_iff]; omega
  simp [removeTopic_loop1, hk, hr, hi, heq, Go.eq, hr2]

/-- `m` turns over positions that do not hold `new` leave the session alone -/
theorem rem_skip (new : Topic) (snap : List Topic) (s : Session) :
    ∀ (m fuel k : Nat), k + m ≤ snap.length →
      (∀ i (hi : i < snap.length), k ≤ i → i < k + m → snap[i] ≠ new) →
      Go.loop (fuel + m) (s, (k : Int)) (removeTopic_loop1 new snap)
        = Go.loop fuel (s, ((k + m : Nat) : Int)) (removeTopic_loop1 new snap) := by
  intro m
  induction m with
  | zero => intro fuel k _ _; rfl
  | succ m ih =>
    intro fuel k hk hne
    have h1 : fuel + (m + 1) = (fuel + m) + 1 := by omega
    rw [h1]
    simp only [Go.loop, rem_turn_ne new snap s k (by omega) (hne k (by omega) (by omega) (by omega))]
    rw [ih fuel (k + 1) (by omega) (fun i hi h1 h2 => hne i hi (by omega) (by omega))]
    have : k + 1 + m = k + (m + 1) := by omega
    rw [this]

theorem rem_finish (new : Topic) (snap : List Topic) (s : Session) (fuel : Nat) :
    Go.loop (fuel + 1) (s, (snap.length : Int)) (removeTopic_loop1 new snap)
      = some (Go.Ctl.done (s, (snap.length : Int))) := by
  simp [Go.loop, rem_turn_end]

/-- the whole loop when `new` is absent -/
theorem removeTopic_absent (topics : List Topic) (new : Topic) (h : new ∉ topics) :
    removeTopic ⟨topics⟩ new = some ⟨topics⟩ := by
  have hs := rem_skip new topics ⟨topics⟩ topics.length 1 0 (by omega)
    (fun i hi _ _ e => h (e ▸ List.getElem_mem hi))
  have hf : (Go.len topics).toNat + 1 = 1 + topics.length := by simp [Go.len]; omega
  simp only [removeTopic, hf, Int.natCast_zero] at hs ⊢
  rw [hs, Nat.zero_add, rem_finish]

/-- the whole loop when `new` occurs exactly once, at position `pre.length` -/
theorem removeTopic_once (pre post : List Topic) (new : Topic) (h1 : new ∉ pre) (h2 : new ∉ post) :
    removeTopic ⟨pre ++ new :: post⟩ new = some ⟨swapOut (pre ++ new :: post) pre.length⟩ := by
  let l := pre ++ new :: post
  have hlen : l.length = pre.length + (post.length + 1) := by simp [l]
  have hat : ∀ (h : pre.length < l.length), l[pre.length] = new := by intro h; simp [l]
  -- the turns over `pre`
  have hs1 := rem_skip new l ⟨l⟩ pre.length (1 + post.length + 1) 0 (by omega)
    (fun i hi _ hlt e => by
      have : l[i] = pre[i] := by simp [l, List.getElem_append_left (by omega : i < pre.length)]
      exact h1 (by rw [← e, this]; exact List.getElem_mem _))
  -- the matching turn
  have ht := rem_turn_eq new l ⟨l⟩ pre.length (by omega) (hat (by omega)) (by show pre.length < l.length; omega)
  -- the turns over `post`
  have hs2 := rem_skip new l ⟨swapOut l pre.length⟩ post.length 1 (pre.length + 1) (by omega)
    (fun i hi hge _ e => by
      have : l[i] = post[i - (pre.length + 1)]'(by omega) := by
        simp only [l]
        rw [List.getElem_append_right (by omega)]
        have : i - pre.length = (i - (pre.length + 1)) + 1 := by omega
        simp [this]
      exact h2 (by rw [← e, this]; exact List.getElem_mem _))
  have hf : (Go.len l).toNat + 1 = (1 + post.length + 1) + pre.length := by simp [Go.len, hlen]; omega
  show removeTopic ⟨l⟩ new = some ⟨swapOut l pre.length⟩
  simp only [removeTopic, hf, Int.natCast_zero] at hs1 ⊢
  rw [hs1, Nat.zero_add]
  have hstep : Go.loop (1 + post.length + 1) (({ topics := l } : Session), (pre.length : Int)) (removeTopic_loop1 new l)
      = Go.loop (1 + post.length) (({ topics := swapOut l pre.length } : Session), ((pre.length + 1 : Nat) : Int))
          (removeTopic_loop1 new l) := by
    simp only [Go.loop, ht]
  rw [hstep, hs2]
  have : pre.length + 1 + post.length = l.length := by omega
  rw [this, rem_finish]

/-! ### what `swapOut` is -/

theorem swapOut_last (pre : List Topic) (new : Topic) :
    swapOut (pre ++ [new]) pre.length = pre := by
  simp [swapOut]

theorem swapOut_middle (pre post : List Topic) (new lst : Topic) :
    swapOut (pre ++ new :: (post ++ [lst])) pre.length = pre ++ lst :: post := by
  have hl : (pre ++ new :: (post ++ [lst])).length - 1 = pre.length + (post.length + 1) := by simp
  have hget : (pre ++ new :: (post ++ [lst]))[pre.length + (post.length + 1)]? = some lst := by
    rw [List.getElem?_append_right (by omega)]
    have : pre.length + (post.length + 1) - pre.length = post.length + 1 := by omega
    rw [this]
    simp
  simp only [swapOut, hl, hget, Option.getD_some]
  have hset : (pre ++ new :: (post ++ [lst])).set pre.length lst = (pre ++ lst :: post) ++ [lst] := by
    simp [List.set_append_right]
  rw [hset]
  have : pre.length + (post.length + 1) = (pre ++ lst :: post).length := by simp
  rw [this, List.take_left']
  rfl

end Wasp.SessionLit

import Wasp.Model.Dist
/-! Helper definitions and lemmas for the three replicated LWW stores (statements used by
    Properties/C08). The common core: looking a key up after merging the updates `l` is a
    left fold of `lwwStep` ("replace iff strictly newer") over the updates of that key. -/
namespace Wasp.Dist
open Wasp.Crdt Wasp.Topic

/-! ## definitions the C08 statements use -/

/-- no two distinct updates of the same key carry the same timestamp -/
def TieFree {α κ : Type} (key : α → κ) (ts : α → Int) (l : List α) : Prop :=
  ∀ a ∈ l, ∀ b ∈ l, key a = key b → ts a = ts b → a = b

def SessionMD.ts (s : SessionMD) : Int := lastUpdate s.stamp
def Sub.ts (s : Sub) : Int := lastUpdate s.stamp
def Retained.ts (s : Retained) : Int := lastUpdate s.stamp

def validSession (s : SessionMD) : Prop := s.id ≠ ""
def validSub (s : Sub) : Prop := s.session ≠ "" ∧ s.pattern ≠ ""
/-- a retained update as the broker produces it: it carries a publish whose topic is a
    non-empty topic NAME, and it either adds or removes -/
def validRetained (r : Retained) : Prop :=
  r.hasPublish = true ∧ r.topic ≠ "" ∧ wfTopic (levels r.topic) = true ∧
    (isAdded r.stamp = true ∨ isRemoved r.stamp = true)

/-- the subscriptions stored under a pattern, looked up by session id -/
def subEntry (m : List (String × List Sub)) (pattern session : String) : Option Sub :=
  (subsLookup pattern m).find? (fun s => s.session == session)

def retEntry (m : List (String × Retained)) (topic : String) : Option Retained :=
  (m.find? (fun kr => kr.1 == topic)).map (·.2)

/-! ## stamps -/

theorem lastUpdate_mk (a d : Int) : lastUpdate ⟨a, d⟩ = if a > d then a else d := by
  unfold lastUpdate Generated.getLastEntryUpdate
  simp [Go.isNil, Go.getLastAdded, Go.getLastDeleted]

theorem isOutdated_eq (loc rem : Stamp) :
    isOutdated loc rem = decide (lastUpdate loc < lastUpdate rem) := by
  unfold isOutdated lastUpdate Generated.isEntryOutdated
  rfl

/-! ## the generic last-writer-wins fold -/

def lwwStep {α : Type} (ts : α → Int) (cur : Option α) (s : α) : Option α :=
  match cur with
  | none => some s
  | some loc => if ts loc < ts s then some s else some loc

def lwwFold {α : Type} (ts : α → Int) (cur : Option α) (l : List α) : Option α :=
  l.foldl (lwwStep ts) cur

theorem lwwFold_nil {α : Type} (ts : α → Int) (cur : Option α) : lwwFold ts cur [] = cur := rfl

theorem lwwFold_cons {α : Type} (ts : α → Int) (cur : Option α) (a : α) (l : List α) :
    lwwFold ts cur (a :: l) = lwwFold ts (lwwStep ts cur a) l := rfl

theorem lwwFold_append {α : Type} (ts : α → Int) (cur : Option α) (l₁ l₂ : List α) :
    lwwFold ts cur (l₁ ++ l₂) = lwwFold ts (lwwFold ts cur l₁) l₂ := by
  simp [lwwFold]

theorem lwwFold_some {α : Type} (ts : α → Int) (l : List α) : ∀ (c : α),
    ∃ r, lwwFold ts (some c) l = some r ∧ (r = c ∨ r ∈ l) ∧ ts c ≤ ts r ∧ ∀ x ∈ l, ts x ≤ ts r := by
  induction l with
  | nil => intro c; exact ⟨c, rfl, Or.inl rfl, Int.le_refl _, by simp⟩
  | cons a l ih =>
    intro c
    rw [lwwFold_cons]
    simp only [lwwStep]
    split
    · obtain ⟨r, h1, h2, h3, h4⟩ := ih a
      refine ⟨r, h1, ?_, by omega, ?_⟩
      · rcases h2 with h | h
        · right; simp [h]
        · right; simp [h]
      · intro x hx
        rcases List.mem_cons.mp hx with h | h
        · subst h; exact h3
        · exact h4 x h
    · obtain ⟨r, h1, h2, h3, h4⟩ := ih c
      refine ⟨r, h1, ?_, h3, ?_⟩
      · rcases h2 with h | h
        · left; exact h
        · right; simp [h]
      · intro x hx
        rcases List.mem_cons.mp hx with h | h
        · subst h; omega
        · exact h4 x h

/-- from an empty slot: the result is an element of `l` with maximal `ts` -/
theorem lwwFold_none_some {α : Type} (ts : α → Int) (l : List α) (r : α)
    (h : lwwFold ts none l = some r) : r ∈ l ∧ ∀ x ∈ l, ts x ≤ ts r := by
  cases l with
  | nil => simp [lwwFold] at h
  | cons a l =>
    rw [lwwFold_cons] at h
    simp only [lwwStep] at h
    obtain ⟨r', h1, h2, h3, h4⟩ := lwwFold_some ts l a
    rw [h1] at h
    cases h
    refine ⟨?_, ?_⟩
    · rcases h2 with h | h <;> simp [h]
    · intro x hx
      rcases List.mem_cons.mp hx with h | h
      · subst h; exact h3
      · exact h4 x h

theorem lwwFold_none_eq_none {α : Type} (ts : α → Int) (l : List α) :
    lwwFold ts none l = none ↔ l = [] := by
  cases l with
  | nil => simp [lwwFold]
  | cons a l =>
    rw [lwwFold_cons]
    simp only [lwwStep]
    obtain ⟨r', h1, -⟩ := lwwFold_some ts l a
    simp [h1]

/-- order and multiplicity do not matter when timestamps are tie-free -/
theorem lwwFold_none_congr {α : Type} (ts : α → Int) (l₁ l₂ : List α)
    (same : ∀ x, x ∈ l₁ ↔ x ∈ l₂) (tf : ∀ a ∈ l₁, ∀ b ∈ l₁, ts a = ts b → a = b) :
    lwwFold ts none l₁ = lwwFold ts none l₂ := by
  cases h₁ : lwwFold ts none l₁ with
  | none =>
    have e₁ := (lwwFold_none_eq_none ts l₁).mp h₁
    have e₂ : l₂ = [] := by
      cases l₂ with
      | nil => rfl
      | cons b l₂ => have := (same b).mpr (by simp); simp [e₁] at this
    simp [e₂, lwwFold]
  | some r₁ =>
    cases h₂ : lwwFold ts none l₂ with
    | none =>
      have e₂ := (lwwFold_none_eq_none ts l₂).mp h₂
      have := lwwFold_none_some ts l₁ r₁ h₁
      have := (same r₁).mp this.1
      simp [e₂] at this
    | some r₂ =>
      obtain ⟨m₁, x₁⟩ := lwwFold_none_some ts l₁ r₁ h₁
      obtain ⟨m₂, x₂⟩ := lwwFold_none_some ts l₂ r₂ h₂
      have a := x₁ r₂ ((same r₂).mpr m₂)
      have b := x₂ r₁ ((same r₁).mp m₁)
      have := tf r₁ m₁ r₂ ((same r₂).mpr m₂) (by omega)
      simp [this]

/-- the two halves of the `…_lww` statements, for a lookup that is a fold over the updates of the key -/
theorem lwwFold_filter_spec {α : Type} (ts : α → Int) (p : α → Bool) (l : List α) :
    (∀ s, lwwFold ts none (l.filter p) = some s →
        s ∈ l ∧ p s = true ∧ ∀ s' ∈ l, p s' = true → ts s' ≤ ts s) ∧
    (lwwFold ts none (l.filter p) = none ↔ ∀ s ∈ l, p s = false) := by
  constructor
  · intro s h
    obtain ⟨h1, h2⟩ := lwwFold_none_some ts _ s h
    rw [List.mem_filter] at h1
    exact ⟨h1.1, h1.2, fun s' hs' hp => h2 s' (List.mem_filter.mpr ⟨hs', hp⟩)⟩
  · rw [lwwFold_none_eq_none, List.filter_eq_nil_iff]
    simp

theorem lwwFold_filter_congr {α : Type} (ts : α → Int) (p : α → Bool) (l₁ l₂ : List α)
    (same : ∀ x, x ∈ l₁ ↔ x ∈ l₂)
    (tf : ∀ a ∈ l₁, ∀ b ∈ l₁, p a = true → p b = true → ts a = ts b → a = b) :
    lwwFold ts none (l₁.filter p) = lwwFold ts none (l₂.filter p) := by
  apply lwwFold_none_congr
  · intro x; simp [List.mem_filter, same]
  · intro a ha b hb
    rw [List.mem_filter] at ha hb
    exact tf a ha.1 b hb.1 ha.2 hb.2

/-! ## sessions -/

theorem sessLookup_sessSet (s : SessionMD) (st : List SessionMD) (id : String) :
    sessLookup id (sessSet s st) = if s.id = id then some s else sessLookup id st := by
  induction st with
  | nil => simp [sessSet, sessLookup]
  | cons x rest ih =>
    simp only [sessSet]
    split <;> simp only [sessLookup] <;> grind

/-- is the stored record of `s.id` absent or strictly older than `s`? -/
def sessOutdated (s : SessionMD) (st : List SessionMD) : Bool :=
  match sessLookup s.id st with
  | none => true
  | some loc => isOutdated loc.stamp s.stamp

/-- one iteration of the mergeSessions loop on a valid entry -/
def sessStep (s : SessionMD) (st : List SessionMD) : List SessionMD :=
  if sessOutdated s st = true then sessSet s st else st

theorem mergeSessions_cons (s : SessionMD) (rest st : List SessionMD) (h : s.id ≠ "") :
    mergeSessions (s :: rest) st = mergeSessions rest (sessStep s st) := by
  cases h' : sessLookup s.id st <;> simp [mergeSessions, h, sessStep, sessOutdated, h']

theorem mergeSessions_append (a b st : List SessionMD) (ha : ∀ s ∈ a, s.id ≠ "") :
    mergeSessions (a ++ b) st = mergeSessions b (mergeSessions a st) := by
  induction a generalizing st with
  | nil => simp [mergeSessions]
  | cons s rest ih =>
    have hs : s.id ≠ "" := ha s (by simp)
    rw [List.cons_append, mergeSessions_cons _ _ _ hs, mergeSessions_cons _ _ _ hs]
    exact ih _ (fun x hx => ha x (by simp [hx]))

theorem sessLookup_sessStep (s : SessionMD) (st : List SessionMD) (id : String) :
    sessLookup id (sessStep s st) =
      if s.id = id then lwwStep SessionMD.ts (sessLookup id st) s else sessLookup id st := by
  unfold sessStep sessOutdated
  by_cases hid : s.id = id
  · subst hid
    simp only [if_true]
    cases h : sessLookup s.id st with
    | none => simp [sessLookup_sessSet, lwwStep]
    | some loc =>
      simp only [lwwStep, isOutdated_eq, SessionMD.ts, decide_eq_true_eq]
      split <;> simp [sessLookup_sessSet, *]
  · simp only [hid, if_false]
    cases h : sessLookup s.id st with
    | none => simp [sessLookup_sessSet, hid]
    | some loc =>
      simp only []
      split <;> simp [sessLookup_sessSet, hid]

theorem sessLookup_mergeSessions (l : List SessionMD) (hv : ∀ s ∈ l, s.id ≠ "") (id : String) :
    ∀ st, sessLookup id (mergeSessions l st) =
      lwwFold SessionMD.ts (sessLookup id st) (l.filter (fun s => s.id = id)) := by
  induction l with
  | nil => intro st; simp [mergeSessions, lwwFold]
  | cons s rest ih =>
    intro st
    have hs : s.id ≠ "" := hv s (by simp)
    rw [mergeSessions_cons _ _ _ hs, ih (fun x hx => hv x (by simp [hx])), sessLookup_sessStep]
    by_cases hid : s.id = id
    · simp [hid, lwwFold_cons]
    · simp [hid]

theorem sessSet_ids (s : SessionMD) (st : List SessionMD) :
    (sessSet s st).map (·.id) =
      if s.id ∈ st.map (·.id) then st.map (·.id) else st.map (·.id) ++ [s.id] := by
  induction st with
  | nil => simp [sessSet]
  | cons x rest ih =>
    simp only [sessSet]
    split
    · rename_i h; simp [h]
    · rename_i h
      simp only [List.map_cons, ih]
      have : ¬ s.id = x.id := fun e => h e.symm
      split <;> simp_all

theorem sessSet_nodup (s : SessionMD) (st : List SessionMD) (hk : (st.map (·.id)).Nodup) :
    ((sessSet s st).map (·.id)).Nodup := by
  rw [sessSet_ids]
  split
  · exact hk
  · rename_i h
    rw [List.nodup_append]
    refine ⟨hk, by simp, ?_⟩
    intro a ha b hb
    simp at hb
    subst hb
    intro e; subst e; exact h ha

theorem sessStep_nodup (s : SessionMD) (st : List SessionMD) (hk : (st.map (·.id)).Nodup) :
    ((sessStep s st).map (·.id)).Nodup := by
  unfold sessStep
  split
  · exact sessSet_nodup s st hk
  · exact hk

theorem mergeSessions_nodup (l : List SessionMD) : ∀ (st : List SessionMD),
    (st.map (·.id)).Nodup → ((mergeSessions l st).map (·.id)).Nodup := by
  induction l with
  | nil => intro st hk; simpa [mergeSessions] using hk
  | cons s rest ih =>
    intro st hk
    by_cases hs : s.id = ""
    · simpa [mergeSessions, hs] using hk
    · rw [mergeSessions_cons _ _ _ hs]
      exact ih _ (sessStep_nodup s st hk)

theorem mem_iff_sessLookup (st : List SessionMD) (hk : (st.map (·.id)).Nodup) (s : SessionMD) :
    s ∈ st ↔ sessLookup s.id st = some s := by
  induction st with
  | nil => simp [sessLookup]
  | cons x rest ih =>
    simp only [List.map_cons, List.nodup_cons] at hk
    simp only [sessLookup, List.mem_cons]
    split
    · rename_i h
      constructor
      · rintro (e | e)
        · simp [e]
        · exfalso; apply hk.1; rw [h]; exact List.mem_map_of_mem e
      · intro e; left; simpa using e.symm
    · rename_i h
      rw [← ih hk.2]
      constructor
      · rintro (e | e)
        · exact absurd (by rw [e]) h
        · exact e
      · intro e; right; exact e

/-! ## subscriptions -/

theorem subsLookup_subsAssign (pat : String) (l : List Sub) (m : List (String × List Sub)) (pat' : String) :
    subsLookup pat' (subsAssign pat l m) = if pat = pat' then l else subsLookup pat' m := by
  induction m with
  | nil => simp [subsAssign, subsLookup]
  | cons kl rest ih =>
    obtain ⟨k, l'⟩ := kl
    simp only [subsAssign]
    split <;> simp only [subsLookup] <;> grind

theorem subListSet_cons (s x : Sub) (rest : List Sub) :
    subListSet s (x :: rest) =
      if x.session = s.session then
        if isOutdated x.stamp s.stamp = true then (s :: rest, true)
        else (x :: (subListSet s rest).1, true)
      else (x :: (subListSet s rest).1, (subListSet s rest).2) := by
  simp only [subListSet]

/-- lookup of a session in a SubscriptionList -/
def subFind (sess : String) (L : List Sub) : Option Sub := L.find? (fun s => s.session == sess)

theorem subListSet_not_found (s : Sub) (L : List Sub) (h : (subListSet s L).2 = false) :
    (subListSet s L).1 = L ∧ subFind s.session L = none := by
  induction L with
  | nil => simp [subListSet, subFind]
  | cons x rest ih =>
    rw [subListSet_cons] at h ⊢
    split at h
    · split at h <;> simp at h
    · rename_i hx
      simp only [hx, if_false] at h ⊢
      obtain ⟨h1, h2⟩ := ih h
      simp only [subFind] at h2 ⊢
      simp [h1, hx, h2]

theorem subFind_subListSet_ne (s : Sub) (L : List Sub) (sess : String) (h : s.session ≠ sess) :
    subFind sess (subListSet s L).1 = subFind sess L := by
  induction L with
  | nil => simp [subListSet]
  | cons x rest ih =>
    rw [subListSet_cons]
    simp only [subFind] at ih ⊢
    split
    · rename_i hx
      have : ¬ x.session = sess := fun e => h (hx ▸ e)
      split <;> simp [h, this, ih]
    · simp only [List.find?_cons, ih]

theorem subFind_subListSet_found (s : Sub) (L : List Sub) (h : (subListSet s L).2 = true) :
    subFind s.session (subListSet s L).1 = lwwStep Sub.ts (subFind s.session L) s := by
  induction L with
  | nil => simp [subListSet] at h
  | cons x rest ih =>
    rw [subListSet_cons] at h ⊢
    simp only [subFind] at ih ⊢
    split
    · rename_i hx
      simp only [List.find?_cons, hx, beq_self_eq_true, lwwStep, isOutdated_eq, Sub.ts, decide_eq_true_eq]
      split <;> simp [*]
    · rename_i hx
      simp only [hx, if_false] at h
      simp [hx, ih h]

/-- the SubscriptionList that `subsSet` stores -/
def subInner (s : Sub) (L : List Sub) : List Sub :=
  if (subListSet s L).2 = true then (subListSet s L).1 else (subListSet s L).1 ++ [s]

theorem subsSet_eq (s : Sub) (m : List (String × List Sub)) :
    subsSet s m = subsAssign s.pattern (subInner s (subsLookup s.pattern m)) m := by
  simp only [subsSet, subInner]

theorem subFind_subInner (s : Sub) (L : List Sub) (sess : String) :
    subFind sess (subInner s L) =
      if s.session = sess then lwwStep Sub.ts (subFind sess L) s else subFind sess L := by
  unfold subInner
  by_cases hs : s.session = sess
  · subst hs
    simp only [if_true]
    cases hf : (subListSet s L).2 with
    | true => simpa using subFind_subListSet_found s L hf
    | false =>
      obtain ⟨h1, h2⟩ := subListSet_not_found s L hf
      simp only [h1, h2, lwwStep]
      simp only [subFind] at h2 ⊢
      simp [List.find?_append, h2]
  · simp only [hs, if_false]
    have := subFind_subListSet_ne s L sess hs
    split
    · exact this
    · simp only [subFind] at this ⊢
      simp [List.find?_append, this, hs]

theorem subEntry_subsSet (s : Sub) (m : List (String × List Sub)) (pat sess : String) :
    subEntry (subsSet s m) pat sess =
      if s.pattern = pat ∧ s.session = sess then lwwStep Sub.ts (subEntry m pat sess) s
      else subEntry m pat sess := by
  have key : ∀ m' , subEntry m' pat sess = subFind sess (subsLookup pat m') := fun _ => rfl
  rw [key, key, subsSet_eq, subsLookup_subsAssign]
  by_cases hp : s.pattern = pat
  · subst hp
    simp only [if_true, true_and, subFind_subInner]
  · simp [hp]

theorem mergeSubs_cons (s : Sub) (rest : List Sub) (m : List (String × List Sub))
    (h : s.session ≠ "" ∧ s.pattern ≠ "") :
    mergeSubs (s :: rest) m = mergeSubs rest (subsSet s m) := by
  simp [mergeSubs, h.1, h.2]

theorem mergeSubs_append (a b : List Sub) (m : List (String × List Sub))
    (ha : ∀ s ∈ a, s.session ≠ "" ∧ s.pattern ≠ "") :
    mergeSubs (a ++ b) m = mergeSubs b (mergeSubs a m) := by
  induction a generalizing m with
  | nil => simp [mergeSubs]
  | cons s rest ih =>
    have hs := ha s (by simp)
    rw [List.cons_append, mergeSubs_cons _ _ _ hs, mergeSubs_cons _ _ _ hs]
    exact ih _ (fun x hx => ha x (by simp [hx]))

theorem subEntry_mergeSubs (l : List Sub) (hv : ∀ s ∈ l, s.session ≠ "" ∧ s.pattern ≠ "")
    (pat sess : String) : ∀ m, subEntry (mergeSubs l m) pat sess =
      lwwFold Sub.ts (subEntry m pat sess)
        (l.filter (fun s => decide (s.pattern = pat ∧ s.session = sess))) := by
  induction l with
  | nil => intro m; simp [mergeSubs, lwwFold]
  | cons s rest ih =>
    intro m
    have hs := hv s (by simp)
    rw [mergeSubs_cons _ _ _ hs, ih (fun x hx => hv x (by simp [hx])), subEntry_subsSet]
    by_cases hid : s.pattern = pat ∧ s.session = sess
    · simp [hid, lwwFold_cons]
    · simp [hid]

/-! ## topic names: `levels` is injective, and a wildcard-free filter matches only itself -/

theorem next_none (t tok : List Char) (h : next t = (none, tok)) : tok = t := by
  induction t generalizing tok with
  | nil => simp [next] at h; exact h
  | cons c cs ih =>
    simp only [next] at h
    split at h
    · simp at h
    · cases hn : next cs with
      | mk r tk =>
        rw [hn] at h
        simp only [Prod.mk.injEq] at h
        obtain ⟨h1, h2⟩ := h
        subst h1
        rw [← h2, ih tk hn]

theorem next_some (t rest tok : List Char) (h : next t = (some rest, tok)) :
    t = tok ++ '/' :: rest := by
  induction t generalizing tok with
  | nil => simp [next] at h
  | cons c cs ih =>
    simp only [next] at h
    split at h
    · rename_i hc
      simp only [Prod.mk.injEq, Option.some.injEq] at h
      obtain ⟨h1, h2⟩ := h
      subst h1 h2 hc
      simp
    · cases hn : next cs with
      | mk r tk =>
        rw [hn] at h
        simp only [Prod.mk.injEq] at h
        obtain ⟨h1, h2⟩ := h
        subst h1
        rw [← h2, ih tk hn]
        simp

/-- the levels put back together with '/' between them -/
def joinL : List Level → List Char
  | [] => []
  | a :: rest => a.toList ++ (if rest = [] then [] else '/' :: joinL rest)

theorem levelsAux_ne_nil (fuel : Nat) (t : List Char) : levelsAux (fuel + 1) t ≠ [] := by
  simp only [levelsAux]
  split <;> simp

theorem joinL_levelsAux (fuel : Nat) : ∀ (t : List Char), t.length < fuel →
    joinL (levelsAux fuel t) = t := by
  induction fuel with
  | zero => intro t h; omega
  | succ f ih =>
    intro t h
    simp only [levelsAux]
    split
    · rename_i tok hn
      simp [joinL, next_none t tok hn]
    · rename_i rest tok hn
      have ht := next_some t rest tok hn
      have hlen : rest.length < f := by
        have := congrArg List.length ht
        simp at this
        omega
      have hne : levelsAux f rest ≠ [] := by
        cases f with
        | zero => omega
        | succ f' => exact levelsAux_ne_nil f' rest
      simp only [joinL, hne, if_false, ih rest hlen, String.toList_ofList]
      exact ht.symm

theorem joinL_levels (s : String) : joinL (levels s) = s.toList := by
  unfold levels
  apply joinL_levelsAux
  simp [String.length_toList]

theorem levels_inj {s₁ s₂ : String} (h : levels s₁ = levels s₂) : s₁ = s₂ := by
  apply String.toList_inj.mp
  rw [← joinL_levels, ← joinL_levels, h]

theorem mqttMatch_name (f : List Level) (hf : ∀ l ∈ f, l ≠ "+" ∧ l ≠ "#") :
    ∀ t, mqttMatch f t = true ↔ f = t := by
  induction f with
  | nil => intro t; cases t <;> simp [mqttMatch]
  | cons a fs ih =>
    intro t
    have ha := hf a (by simp)
    have ih' := ih (fun l hl => hf l (by simp [hl]))
    cases t with
    | nil => simp [mqttMatch, ha.2]
    | cons b ts => simp [mqttMatch, ha.1, ha.2, ih']

theorem wfTopic_name (f : List Level) (h : wfTopic f = true) : ∀ l ∈ f, l ≠ "+" ∧ l ≠ "#" := by
  simp only [wfTopic, Bool.and_eq_true, List.all_eq_true, bne_iff_ne, ne_eq] at h
  exact h.1

theorem mqttMatch_levels_name (t k : String) (ht : wfTopic (levels t) = true) :
    mqttMatch (levels t) (levels k) = true ↔ t = k := by
  rw [mqttMatch_name _ (wfTopic_name _ ht)]
  exact ⟨levels_inj, fun h => by rw [h]⟩

/-! ## retained messages -/

theorem retEntry_topicsAssign (t : String) (r : Retained) (m : List (String × Retained)) (topic : String) :
    retEntry (topicsAssign t r m) topic = if t = topic then some r else retEntry m topic := by
  induction m with
  | nil => simp only [topicsAssign, retEntry]; split <;> simp [*]
  | cons kr rest ih =>
    obtain ⟨k, r'⟩ := kr
    simp only [retEntry] at ih ⊢
    simp only [topicsAssign]
    split <;> simp only [List.find?_cons] <;> grind

theorem topicsAssign_keys (t : String) (r : Retained) (m : List (String × Retained)) :
    (topicsAssign t r m).map (·.1) =
      if t ∈ m.map (·.1) then m.map (·.1) else m.map (·.1) ++ [t] := by
  induction m with
  | nil => simp [topicsAssign]
  | cons kr rest ih =>
    obtain ⟨k, r'⟩ := kr
    simp only [topicsAssign]
    split
    · rename_i h; simp [h]
    · rename_i h
      simp only [List.map_cons, ih]
      have : ¬ t = k := fun e => h e.symm
      split <;> simp_all

theorem topicsAssign_nodup (t : String) (r : Retained) (m : List (String × Retained))
    (hk : (m.map (·.1)).Nodup) : ((topicsAssign t r m).map (·.1)).Nodup := by
  rw [topicsAssign_keys]
  split
  · exact hk
  · rename_i h
    rw [List.nodup_append]
    refine ⟨hk, by simp, ?_⟩
    intro a ha b hb
    simp at hb
    subst hb
    intro e; subst e; exact h ha

/-- on a store with unique keys, `get` with a topic NAME is the exact lookup -/
theorem topicsGetAll_name (m : List (String × Retained)) (hk : (m.map (·.1)).Nodup) (t : String)
    (ht : wfTopic (levels t) = true) : topicsGetAll m t = (retEntry m t).toList := by
  induction m with
  | nil => simp [topicsGetAll, retEntry]
  | cons kr rest ih =>
    obtain ⟨k, r'⟩ := kr
    simp only [List.map_cons, List.nodup_cons] at hk
    have ih' := ih hk.2
    simp only [topicsGetAll, retEntry] at ih' ⊢
    by_cases hkt : k = t
    · subst hkt
      have hm : mqttMatch (levels k) (levels k) = true := (mqttMatch_levels_name k k ht).mpr rfl
      have hnone : List.find? (fun kr => kr.1 == k) rest = none := by
        rw [List.find?_eq_none]
        intro x hx hxk
        apply hk.1
        have : x.1 = k := by simpa using hxk
        rw [← this]
        exact List.mem_map_of_mem hx
      rw [hnone] at ih'
      simp only [Option.map_none, Option.toList_none] at ih'
      simp [hm, ih']
    · have hm : ¬ mqttMatch (levels t) (levels k) = true := by
        rw [mqttMatch_levels_name t k ht]; exact fun e => hkt e.symm
      simp [hm, hkt, ih']

/-- is the stored message of `r.topic` absent or strictly older than `r`? -/
def retOutdated (r : Retained) (m : List (String × Retained)) : Bool :=
  match retEntry m r.topic with
  | none => true
  | some loc => isOutdated loc.stamp r.stamp

/-- one iteration of the mergeMessages loop on a valid entry -/
def retStep (r : Retained) (m : List (String × Retained)) : List (String × Retained) :=
  if retOutdated r m = true then topicsAssign r.topic r m else m

theorem mergeRetained_cons (r : Retained) (rest : List Retained) (m : List (String × Retained))
    (hr : validRetained r) (hk : (m.map (·.1)).Nodup) :
    mergeRetained (r :: rest) m = mergeRetained rest (retStep r m) := by
  obtain ⟨h1, h2, h3, h4⟩ := hr
  have h4' : (isAdded r.stamp || isRemoved r.stamp) = true := by simpa using h4
  simp only [mergeRetained, topicsGetAll_name m hk r.topic h3, retStep, retOutdated]
  rcases Option.eq_none_or_eq_some (retEntry m r.topic) with h | ⟨l, h⟩ <;> simp [h, h1, h2, h4']

theorem retStep_nodup (r : Retained) (m : List (String × Retained)) (hk : (m.map (·.1)).Nodup) :
    ((retStep r m).map (·.1)).Nodup := by
  unfold retStep
  split
  · exact topicsAssign_nodup _ _ _ hk
  · exact hk

theorem mergeRetained_nodup (l : List Retained) (hv : ∀ r ∈ l, validRetained r) :
    ∀ (m : List (String × Retained)), (m.map (·.1)).Nodup →
      ((mergeRetained l m).map (·.1)).Nodup := by
  induction l with
  | nil => intro m hk; simpa [mergeRetained] using hk
  | cons r rest ih =>
    intro m hk
    rw [mergeRetained_cons _ _ _ (hv r (by simp)) hk]
    exact ih (fun x hx => hv x (by simp [hx])) _ (retStep_nodup r m hk)

theorem mergeRetained_append (a b : List Retained) (ha : ∀ r ∈ a, validRetained r) :
    ∀ (m : List (String × Retained)), (m.map (·.1)).Nodup →
      mergeRetained (a ++ b) m = mergeRetained b (mergeRetained a m) := by
  induction a with
  | nil => intro m _; simp [mergeRetained]
  | cons r rest ih =>
    intro m hk
    have hr := ha r (by simp)
    rw [List.cons_append, mergeRetained_cons _ _ _ hr hk, mergeRetained_cons _ _ _ hr hk]
    exact ih (fun x hx => ha x (by simp [hx])) _ (retStep_nodup r m hk)

theorem retEntry_retStep (r : Retained) (m : List (String × Retained)) (topic : String) :
    retEntry (retStep r m) topic =
      if r.topic = topic then lwwStep Retained.ts (retEntry m topic) r else retEntry m topic := by
  unfold retStep retOutdated
  by_cases hid : r.topic = topic
  · subst hid
    simp only [if_true]
    cases h : retEntry m r.topic with
    | none => simp [retEntry_topicsAssign, lwwStep]
    | some loc =>
      simp only [lwwStep, isOutdated_eq, Retained.ts, decide_eq_true_eq]
      split <;> simp [retEntry_topicsAssign, *]
  · simp only [hid, if_false]
    cases h : retEntry m r.topic with
    | none => simp [retEntry_topicsAssign, hid]
    | some loc =>
      simp only []
      split <;> simp [retEntry_topicsAssign, hid]

theorem retEntry_mergeRetained (l : List Retained) (hv : ∀ r ∈ l, validRetained r) (topic : String) :
    ∀ (m : List (String × Retained)), (m.map (·.1)).Nodup →
      retEntry (mergeRetained l m) topic =
        lwwFold Retained.ts (retEntry m topic) (l.filter (fun r => decide (r.topic = topic))) := by
  induction l with
  | nil => intro m _; simp [mergeRetained, lwwFold]
  | cons r rest ih =>
    intro m hk
    rw [mergeRetained_cons _ _ _ (hv r (by simp)) hk,
      ih (fun x hx => hv x (by simp [hx])) _ (retStep_nodup r m hk), retEntry_retStep]
    by_cases hid : r.topic = topic
    · simp [hid, lwwFold_cons]
    · simp [hid]

end Wasp.Dist

import Wasp.Generated.SessionMountLit
import Wasp.Generated.Translated
import Wasp.Model.Topic
import Wasp.Proofs.GoLit
/-!
# `sessions.prefixMountPoint` AS WRITTEN (make + copy + one byte + copy)

`Wasp.Generated.SessionMountLit.prefixMountPoint` is regenerated from `wasp/sessions/session.go`:
`make([]byte, n)` is `n` zero bytes (guard `0 ≤ n`), each `copy(out[a:b], src)` overwrites the first
`min (b - a) (len src)` cells of the window (window guarded), `out[len(mountPoint)] = '/'` is guarded.
The code never panics and yields `mountPoint ++ '/' :: t`, the model's `Topic.prefixMountPoint`;
the translated `trimMountPoint` undoes it.
-/
namespace Wasp.SessionLit
open Wasp.Generated.SessionMountLit

theorem copyAt_spec {α : Type} (pre mid post src : List α) (lo n : Int) (hlo : lo = (pre.length : Int))
    (hn : n = (mid.length : Int)) (hs : src.length = mid.length) :
    Go.copyAt (pre ++ mid ++ post) lo n src = pre ++ src ++ post := by
  subst hlo hn
  have h1 : List.take pre.length (pre ++ (mid ++ post)) = pre := List.take_left' rfl
  have h2 : List.drop (pre.length + src.length) (pre ++ mid ++ post) = post :=
    List.drop_left' (by simp [hs])
  simp only [Go.copyAt, Int.toNat_natCast, ← hs, Nat.min_self, List.take_length, h2]
  rw [List.append_assoc pre mid post, h1]

theorem prefixMountPoint_eq (mp t : List Char) :
    prefixMountPoint mp t = some (mp ++ '/' :: t) := by
  let z : Char := Char.ofNat 0
  have hlen : Go.len t + Go.len mp + 1 = ((mp.length + (t.length + 1) : Nat) : Int) := by
    simp only [Go.len_eq]; omega
  have hmk : Go.makeBytes ((mp.length + (t.length + 1) : Nat) : Int)
      = [] ++ List.replicate mp.length z ++ List.replicate (t.length + 1) z := by
    show List.replicate ((mp.length + (t.length + 1) : Nat) : Int).toNat (Char.ofNat 0) = _
    rw [Int.toNat_natCast]
    simp [List.replicate_append_replicate, z]
  have hg0 : Go.le (0 : Int) ((mp.length + (t.length + 1) : Nat) : Int) = true := by
    rw [Go.le_iff]; omega
  have hok1 : Go.sliceToOk ([] ++ List.replicate mp.length z ++ List.replicate (t.length + 1) z) (Go.len mp) = true := by
    rw [Go.sliceToOk_iff]; simp [Go.len]; omega
  have hw1 : Go.len (Go.sliceTo ([] ++ List.replicate mp.length z ++ List.replicate (t.length + 1) z) (Go.len mp))
      = ((List.replicate mp.length z).length : Int) := by
    simp [Go.len, Go.sliceTo]
  have hc1 := copyAt_spec [] (List.replicate mp.length z) (List.replicate (t.length + 1) z) mp (0 : Int) _ rfl hw1
    (by simp)
  have hout1 : ([] ++ mp ++ List.replicate (t.length + 1) z) = mp ++ z :: List.replicate t.length z := by
    simp [List.replicate_succ]
  have hr : Go.inRange (mp ++ z :: List.replicate t.length z) (Go.len mp) = true :=
    Go.inRange_append_length mp z _
  have hset : Go.set (mp ++ z :: List.replicate t.length z) (Go.len mp) '/'
      = (mp ++ ['/']) ++ List.replicate t.length z ++ [] := by
    simp [Go.len, Go.set]
  have hok2 : Go.sliceFromOk ((mp ++ ['/']) ++ List.replicate t.length z ++ []) (Go.len mp + 1) = true := by
    rw [Go.sliceFromOk_iff]; simp [Go.len]; omega
  have hw2 : Go.len (Go.sliceFrom ((mp ++ ['/']) ++ List.replicate t.length z ++ []) (Go.len mp + 1))
      = ((List.replicate t.length z).length : Int) := by
    have e : (Go.len mp + 1).toNat = (mp ++ ['/']).length := by simp [Go.len]
    simp only [Go.sliceFrom, e, List.append_assoc]
    simp [Go.len]
  have hc2 := copyAt_spec (mp ++ ['/']) (List.replicate t.length z) [] t (Go.len mp + 1) _
    (by simp [Go.len]) hw2 (by simp)
  simp only [prefixMountPoint, hlen, hg0, if_true, hmk, hok1, hc1, hout1, hr, hset, hok2, hc2]
  simp

/-- the round trip with the translated `trimMountPoint` (Wasp/Generated/Translated.lean) -/
theorem trim_prefixMountPoint (mp t r : List Char) (h : prefixMountPoint mp t = some r) :
    Wasp.Generated.trimMountPoint mp r = t := by
  rw [prefixMountPoint_eq] at h
  cases h
  have e : (Go.len mp + 1).toNat = (mp ++ ['/']).length := by simp [Go.len]
  have : mp ++ '/' :: t = (mp ++ ['/']) ++ t := by simp
  simp only [Wasp.Generated.trimMountPoint, Go.sliceFrom, e, this, List.drop_left' rfl]

/-- the model's `prefixMountPoint` (on `String`s) is the code as written, read on characters -/
theorem prefixMountPoint_is_model (mp t : String) :
    prefixMountPoint mp.toList t.toList = some (Wasp.Topic.prefixMountPoint mp t).toList := by
  rw [prefixMountPoint_eq]
  simp [Wasp.Topic.prefixMountPoint]

end Wasp.SessionLit

import Wasp.Model.Wire
import Wasp.Proofs.BrokerD
/-!
Helper lemmas for C18: what the byte-level connection loops (`pump`, `rawBytes`, `closeFromClient`)
can do to the registries and to the output of the broker.

* `Quiet w w'`: every session registered in `w'` was registered in `w` (same id, same connection) and the
  output only grew by packets that are not `closed` — true of every operation that ends no session;
* `Ext c w w'`: if sessions are registered under the id of their connection (`RegOK`), they still are, and
  the output only grew by packets that are not `closed` or are addressed to `c`;
* `Keep c w w'`: every registered session id other than "S" ++ c stays registered.
-/
namespace Wasp.Broker.AgentF
open Wasp.Dist Wasp.Topic Wasp.Broker Wasp.Broker.AgentD Wasp.Wire

/-! ### the decoder: remaining length -/

theorem readRemLen_four (acc mult : Nat) (b : Wire.Bytes) : readRemLen 4 acc mult b = .panic := by
  unfold readRemLen; simp

theorem alloc_bound (b : Wire.Bytes) (remlen used : Nat)
    (h : readRemLen 0 0 1 b = .ok remlen used) : remlen ≤ maxRemLen ∧ used ≤ 4 := by
  unfold maxRemLen
  rcases b with _ | ⟨b0, _ | ⟨b1, _ | ⟨b2, _ | ⟨b3, r⟩⟩⟩⟩ <;>
    simp [readRemLen, readRemLen_four] at h <;> repeat' split at h
  all_goals (try simp at h)
  all_goals omega

/-! ### `Quiet` -/

def RegLe (w w' : World) : Prop :=
  ∀ j, ∀ s' ∈ (w'.node j).reg, ∃ s ∈ (w.node j).reg, s.id = s'.id ∧ s.conn = s'.conn

def NoClosed (w w' : World) : Prop := ∃ new, w'.out = w.out ++ new ∧ ∀ e ∈ new, e.2 ≠ Pkt.closed

structure Quiet (w w' : World) : Prop where
  reg : RegLe w w'
  out : NoClosed w w'

theorem RegLe.refl (w : World) : RegLe w w := fun _ s' h => ⟨s', h, rfl, rfl⟩

theorem RegLe.trans {a b c : World} (h1 : RegLe a b) (h2 : RegLe b c) : RegLe a c := by
  intro j s3 h3
  obtain ⟨s2, m2, i2, c2⟩ := h2 j s3 h3
  obtain ⟨s1, m1, i1, c1⟩ := h1 j s2 m2
  exact ⟨s1, m1, i1.trans i2, c1.trans c2⟩

theorem NoClosed.refl (w : World) : NoClosed w w := ⟨[], by simp, by simp⟩

theorem NoClosed.trans {a b c : World} (h1 : NoClosed a b) (h2 : NoClosed b c) : NoClosed a c := by
  obtain ⟨n1, e1, p1⟩ := h1
  obtain ⟨n2, e2, p2⟩ := h2
  refine ⟨n1 ++ n2, by rw [e2, e1, List.append_assoc], ?_⟩
  intro e he
  rcases List.mem_append.mp he with h | h
  · exact p1 e h
  · exact p2 e h

theorem NoClosed.of_eq {w w' : World} (h : w'.out = w.out) : NoClosed w w' := ⟨[], by simp [h], by simp⟩

theorem Quiet.refl (w : World) : Quiet w w := ⟨RegLe.refl w, NoClosed.refl w⟩

theorem Quiet.trans {a b c : World} (h1 : Quiet a b) (h2 : Quiet b c) : Quiet a c :=
  ⟨h1.reg.trans h2.reg, h1.out.trans h2.out⟩

theorem RegLe.of_nodes {w w' : World} (h : w'.nodes = w.nodes) : RegLe w w' := by
  intro j s' hs'
  rw [node_congr h] at hs'
  exact ⟨s', hs', rfl, rfl⟩

theorem Quiet.of_nodes {w w' : World} (h : w'.nodes = w.nodes) (ho : w'.out = w.out) : Quiet w w' :=
  ⟨RegLe.of_nodes h, NoClosed.of_eq ho⟩

theorem RegLe.setNode (w : World) (i : Nat) (n' : Node)
    (h : ∀ s' ∈ n'.reg, ∃ s ∈ (w.node i).reg, s.id = s'.id ∧ s.conn = s'.conn) : RegLe w (w.setNode i n') := by
  intro j s' hs'
  rw [node_setNode] at hs'
  split at hs'
  · rename_i hc; rw [hc.1]; exact h s' hs'
  · exact ⟨s', hs', rfl, rfl⟩

theorem Quiet.setNode (w : World) (i : Nat) (n' : Node)
    (h : ∀ s' ∈ n'.reg, ∃ s ∈ (w.node i).reg, s.id = s'.id ∧ s.conn = s'.conn) : Quiet w (w.setNode i n') :=
  ⟨RegLe.setNode w i n' h, NoClosed.of_eq rfl⟩

theorem Quiet.setNode_reg (w : World) (i : Nat) (n' : Node) (h : n'.reg = (w.node i).reg) :
    Quiet w (w.setNode i n') :=
  Quiet.setNode w i n' (fun s' hs' => ⟨s', h ▸ hs', rfl, rfl⟩)

theorem setSess_sub {n : Node} {sid : String} {s s' : Sess} (h : n.sess sid = some s)
    (hid : s'.id = s.id) (hc : s'.conn = s.conn) :
    ∀ x' ∈ (n.setSess s').reg, ∃ x ∈ n.reg, x.id = x'.id ∧ x.conn = x'.conn := by
  intro x' hx'
  simp only [Node.setSess, List.mem_map] at hx'
  obtain ⟨y, hy, rfl⟩ := hx'
  split
  · exact ⟨s, (sess_some h).1, hid.symm, hc.symm⟩
  · exact ⟨y, hy, rfl, rfl⟩

theorem Quiet.setSess (w : World) (i : Nat) {sid : String} {s s' : Sess} (h : (w.node i).sess sid = some s)
    (hid : s'.id = s.id) (hc : s'.conn = s.conn) : Quiet w (w.setNode i ((w.node i).setSess s')) :=
  Quiet.setNode w i _ (setSess_sub h hid hc)

theorem Quiet.emit (w : World) (c : String) (p : Pkt) (hp : p ≠ Pkt.closed) : Quiet w (w.emit c p) :=
  ⟨RegLe.of_nodes rfl, ⟨[(c, p)], rfl, by simpa using hp⟩⟩

theorem Quiet.foldl {α : Type} (f : World → α → World) (l : List α) (w : World)
    (hs : ∀ w a, Quiet w (f w a)) : Quiet w (l.foldl f w) :=
  foldl_inv (fun w' => Quiet w w') f l w (Quiet.refl w) (fun b a _ hb => hb.trans (hs b a))

theorem Quiet.foldl' {α : Type} (f : World → α → World) (l : List α) (w b : World) (h0 : Quiet w b)
    (hs : ∀ w a, Quiet w (f w a)) : Quiet w (l.foldl f b) := h0.trans (Quiet.foldl f l b hs)

macro "q_back " t:term : tactic => `(tactic| refine Quiet.trans ?_ $t)
macro "q_setnode" : tactic => `(tactic| refine Quiet.trans ?_ (Quiet.setNode_reg _ _ _ rfl))
macro "q_emit" : tactic => `(tactic| refine Quiet.trans ?_ (Quiet.emit _ _ _ (by intro h; cases h)))

theorem q_tick (w : World) : Quiet w w.tick.1 := Quiet.of_nodes rfl rfl

theorem q_broadcast (w : World) (i : Nat) (ev : Event) : Quiet w (w.broadcast i ev) := by
  unfold World.broadcast
  exact Quiet.setNode_reg _ _ _ rfl

theorem q_extendDeadline (w : World) (i : Nat) (sid : String) : Quiet w (w.extendDeadline i sid) := by
  unfold World.extendDeadline
  simp only []
  split
  · rename_i s hs
    exact Quiet.setSess w i hs rfl rfl
  · exact Quiet.refl w

theorem q_subCreate (w : World) (i : Nat) (sid pat : String) (qos : Int) : Quiet w (w.subCreate i sid pat qos) := by
  simp only [World.subCreate]
  q_back (q_broadcast _ _ _)
  q_setnode
  exact q_tick w

theorem q_subDelete (w : World) (i : Nat) (sid pat : String) : Quiet w (w.subDelete i sid pat) := by
  simp only [World.subDelete]
  q_back (q_broadcast _ _ _)
  q_setnode
  exact q_tick w

theorem q_sessDelete (w : World) (i : Nat) (sid : String) : Quiet w (w.sessDelete i sid) := by
  simp only [World.sessDelete]
  split
  · q_back (q_broadcast _ _ _)
    q_setnode
    exact q_tick w
  · q_setnode
    exact q_tick w

theorem q_poolPut (w : World) (i : Nat) (mid : Int) : Quiet w (w.poolPut i mid) := by
  unfold World.poolPut
  exact Quiet.setNode_reg _ _ _ rfl

theorem q_armAndSend (w : World) (i : Nat) (st : Stored) : Quiet w (w.armAndSend i st) := by
  unfold World.armAndSend
  cases st with
  | out1 sid topic payload retain dup mid =>
    simp only
    split
    · exact Quiet.refl w
    · split
      · q_emit
        q_setnode
        exact q_extendDeadline w i sid
      · exact q_extendDeadline w i sid
  | out2 sid topic payload retain dup mid =>
    simp only
    split
    · exact Quiet.refl w
    · split
      · q_emit
        q_setnode
        exact q_extendDeadline w i sid
      · exact q_extendDeadline w i sid
  | rel sid mid =>
    simp only
    split
    · exact Quiet.refl w
    · q_emit
      refine Quiet.trans ?_ (Quiet.setNode_reg _ _ _ ?_)
      · exact q_extendDeadline w i sid
      · split <;> rfl
  | inbound => exact Quiet.refl w

theorem q_sendArmed (w : World) (i : Nat) (st : Stored) (sid : String) (mid : Int) :
    Quiet w (w.sendArmed i st sid mid) := by
  unfold World.sendArmed
  simp only
  split
  · exact (q_armAndSend w i st).trans (q_poolPut _ _ _)
  · exact q_armAndSend w i st

theorem q_send (w : World) (i : Nat) (l : List (String × Int)) (p : Pub) : Quiet w (w.send i l p) := by
  induction l generalizing w with
  | nil => simp only [World.send]; exact Quiet.refl w
  | cons x rest ih =>
    obtain ⟨sid, qos⟩ := x
    simp only [World.send]
    split
    · exact ih w
    · split
      · refine Quiet.trans ?_ (ih _)
        q_emit
        exact q_extendDeadline w i sid
      · split
        · split
          · exact Quiet.refl w
          · refine Quiet.trans ?_ (ih _)
            q_back (q_sendArmed _ _ _ _ _)
            q_setnode
            exact Quiet.refl w
        · exact ih w

theorem q_onResolved (w : World) (i : Nat) (ev : Ack.Resolved) (st : Stored) : Quiet w (w.onResolved i ev st) := by
  unfold World.onResolved
  cases st <;> simp only <;> repeat' split
  all_goals first | exact q_armAndSend _ _ _ | exact q_poolPut _ _ _ | exact Quiet.refl _

theorem q_deliverLocal (w : World) (j : Nat) (p : Pub) : Quiet w (w.deliverLocal j p) := by
  unfold World.deliverLocal
  exact q_send _ _ _ _

theorem q_distribute (w : World) (i : Nat) (p : Pub) : Quiet w (w.distribute i p).1 := by
  unfold World.distribute
  simp only
  apply foldl_inv (P := fun (acc : World × Bool) => Quiet w acc.1)
  · exact Quiet.refl w
  · intro acc peer _ hacc
    split
    · exact hacc
    · split
      · exact hacc
      · split
        · refine hacc.trans ?_
          q_back (q_deliverLocal _ _ _)
          exact Quiet.setNode_reg _ _ _ (appendLog_reg _ _)
        · refine hacc.trans ?_
          exact Quiet.setNode_reg _ _ _ (appendLog_reg _ _)

theorem q_retainStep (w : World) (i : Nat) (p : Pub) : Quiet w (retainStep w i p) := by
  unfold retainStep
  split
  · simp only [World.tick]
    q_back (q_broadcast _ _ _)
    q_setnode
    exact Quiet.of_nodes rfl rfl
  · exact Quiet.refl w

theorem q_publishJob (w : World) (i : Nat) (p : Pub) (onOk : World → World) (h : ∀ w, Quiet w (onOk w)) :
    Quiet w (w.publishJob i p onOk) := by
  rw [publishJob_eq]
  split
  · exact ((q_retainStep w i p).trans (q_distribute _ _ _)).trans (h _)
  · exact (q_retainStep w i p).trans (q_distribute _ _ _)

theorem q_ackFrom (w : World) (i : Nat) (pfx : String) (kind : Ack.PType) (mid : Int) :
    Quiet w (w.ackFrom i pfx kind mid) := by
  unfold World.ackFrom
  simp only
  refine Quiet.foldl' _ _ _ _ (Quiet.setNode_reg _ _ _ rfl) ?_
  intro w ev
  split
  · exact Quiet.refl w
  · rename_i st _
    cases st with
    | inbound a conn pub imid =>
      simp only
      q_back (q_publishJob _ _ _ _ (fun w => Quiet.emit _ _ _ (by intro h; cases h)))
      q_setnode
      exact Quiet.refl w
    | _ =>
      simp only
      q_back (q_onResolved _ _ _ _)
      q_setnode
      exact Quiet.refl w

theorem q_process (w : World) (i : Nat) (sid : String) (pkt : CPkt) : Quiet w (w.process i sid pkt).1 := by
  unfold World.process
  simp only
  split
  · exact Quiet.refl w
  · rename_i s hs
    cases pkt with
    | connect => exact Quiet.refl w
    | publish topic payload qos retain dup mid =>
      simp only
      split
      · exact q_publishJob _ _ _ _ (fun w => Quiet.refl w)
      · split
        · exact q_publishJob _ _ _ _ (fun w => Quiet.emit _ _ _ (by intro h; cases h))
        · split
          · split
            · q_emit
              exact Quiet.setNode_reg _ _ _ rfl
            · exact Quiet.refl w
          · exact Quiet.refl w
    | subscribe mid topics =>
      simp only
      refine Quiet.foldl' _ _ _ _ ?_ ?_
      · q_emit
        refine Quiet.foldl' _ _ _ _ (Quiet.refl w) ?_
        intro w tq
        refine (q_subCreate w i sid tq.1 tq.2).trans ?_
        split
        · rename_i s' hs'
          split
          · exact Quiet.refl _
          · exact Quiet.setSess _ i hs' rfl rfl
        · exact Quiet.refl _
      · intro w tq
        refine Quiet.foldl' _ _ _ _ (Quiet.refl w) ?_
        intro w r
        exact q_send _ _ _ _
    | unsubscribe mid topics =>
      simp only
      q_emit
      refine Quiet.foldl' _ _ _ _ (Quiet.refl w) ?_
      intro w t
      refine (q_subDelete w i sid (prefixMountPoint s.mount t)).trans ?_
      split
      · rename_i s' hs'
        exact Quiet.setSess _ i hs' rfl rfl
      · exact Quiet.refl _
    | puback mid => exact q_ackFrom _ _ _ _ _
    | pubrec mid => exact q_ackFrom _ _ _ _ _
    | pubrel mid => exact q_ackFrom _ _ _ _ _
    | pubcomp mid => exact q_ackFrom _ _ _ _ _
    | pingreq =>
      simp only
      split
      · split
        · exact Quiet.emit _ _ _ (by intro h; cases h)
        · exact Quiet.refl w
      · exact Quiet.refl w
      · split
        · exact Quiet.emit _ _ _ (by intro h; cases h)
        · exact Quiet.refl w
    | disconnect => exact Quiet.refl w
    | other => exact Quiet.refl w


theorem q_connPre (w : World) (c : String) (i : Nat) (client mount : String) :
    Quiet w (connPre w c i client mount) := by
  unfold connPre
  simp only
  split
  · q_back (q_sessDelete _ _ _)
    exact Quiet.of_nodes rfl rfl
  · exact Quiet.of_nodes rfl rfl

theorem q_connMid (w : World) (c : String) (i : Nat) (client mount : String) (will : Option Will) :
    Quiet w (connMid w c i client mount will) := by
  unfold connMid
  simp only
  split
  · q_back (q_broadcast _ _ _)
    q_setnode
    exact (q_connPre w c i client mount).trans (q_tick _)
  · q_setnode
    exact (q_connPre w c i client mount).trans (q_tick _)

/-! ### `Ext` -/

def RegOK (w : World) : Prop := ∀ i, ∀ s ∈ (w.node i).reg, s.id = "S" ++ s.conn

def Conf (c : String) (w w' : World) : Prop :=
  ∃ new, w'.out = w.out ++ new ∧ ∀ e ∈ new, e.2 = Pkt.closed → e.1 = c

def Ext (c : String) (w w' : World) : Prop := RegOK w → RegOK w' ∧ Conf c w w'

theorem RegOK.of_le {w w' : World} (h : RegLe w w') (hw : RegOK w) : RegOK w' := by
  intro j s' hs'
  obtain ⟨s, hs, hid, hc⟩ := h j s' hs'
  rw [← hid, ← hc]
  exact hw j s hs

theorem RegOK.of_nodes {w w' : World} (h : w'.nodes = w.nodes) (hw : RegOK w) : RegOK w' :=
  RegOK.of_le (RegLe.of_nodes h) hw

theorem Conf.refl (c : String) (w : World) : Conf c w w := ⟨[], by simp, by simp⟩

theorem Conf.of_eq {c : String} {w w' : World} (h : w'.out = w.out) : Conf c w w' := ⟨[], by simp [h], by simp⟩

theorem Conf.trans {c : String} {a b d : World} (h1 : Conf c a b) (h2 : Conf c b d) : Conf c a d := by
  obtain ⟨n1, e1, p1⟩ := h1
  obtain ⟨n2, e2, p2⟩ := h2
  refine ⟨n1 ++ n2, by rw [e2, e1, List.append_assoc], ?_⟩
  intro e he
  rcases List.mem_append.mp he with h | h
  · exact p1 e h
  · exact p2 e h

theorem NoClosed.conf {w w' : World} (h : NoClosed w w') (c : String) : Conf c w w' := by
  obtain ⟨n, e, p⟩ := h
  exact ⟨n, e, fun x hx hc => absurd hc (p x hx)⟩

theorem Conf.closed (c : String) {w w' : World} (h : w'.out = w.out ++ [(c, Pkt.closed)]) : Conf c w w' :=
  ⟨[(c, Pkt.closed)], h, by simp⟩

theorem Ext.refl (c : String) (w : World) : Ext c w w := fun h => ⟨h, Conf.refl c w⟩

theorem Ext.trans {c : String} {a b d : World} (h1 : Ext c a b) (h2 : Ext c b d) : Ext c a d := by
  intro ha
  obtain ⟨hb, c1⟩ := h1 ha
  obtain ⟨hd, c2⟩ := h2 hb
  exact ⟨hd, c1.trans c2⟩

theorem Quiet.ext {w w' : World} (h : Quiet w w') (c : String) : Ext c w w' :=
  fun hw => ⟨RegOK.of_le h.reg hw, h.out.conf c⟩

theorem Ext.of_nodes {c : String} {w w' : World} (h : w'.nodes = w.nodes) (ho : Conf c w w') : Ext c w w' :=
  fun hw => ⟨RegOK.of_nodes h hw, ho⟩

theorem ext_emit_closed (c : String) (w : World) : Ext c w (w.emit c .closed) :=
  Ext.of_nodes rfl (Conf.closed c rfl)

theorem S_inj {a b : String} (h : "S" ++ a = "S" ++ b) : a = b := (String.append_right_inj "S").mp h

theorem regLe_tdBase (w : World) (i : Nat) (s : Sess) : RegLe w (tdBase w i s) := by
  unfold tdBase
  simp only
  refine RegLe.trans ?_ (Quiet.foldl _ _ _ (fun w t => q_subDelete w i s.id t)).reg
  refine RegLe.trans (RegLe.setNode w i { w.node i with reg := (w.node i).reg.filter (fun x => x.id != s.id) } ?_)
    (RegLe.of_nodes rfl)
  intro s' hs'
  exact ⟨s', (List.mem_filter.mp hs').1, rfl, rfl⟩

theorem regLe_teardown (w : World) (i : Nat) (s : Sess) : RegLe w (teardown w i s).1 := by
  rw [teardown_eq]
  split
  · exact (regLe_tdBase w i s).trans (q_sessDelete _ _ _).reg
  · exact regLe_tdBase w i s

theorem ext_teardown (w : World) (i : Nat) (c : String) (s : Sess) (hs : (w.node i).sess ("S" ++ c) = some s) :
    Ext c w (teardown w i s).1 := by
  intro hw
  refine ⟨RegOK.of_le (regLe_teardown w i s) hw, ?_⟩
  obtain ⟨hmem, hid⟩ := sess_some hs
  have hc : s.conn = c := S_inj ((hw i s hmem).symm.trans hid)
  apply Conf.closed
  rw [teardown_out, hc]

theorem ext_shutdown (w : World) (i : Nat) (c : String) : Ext c w (w.shutdownSession i ("S" ++ c)) := by
  cases hs : (w.node i).sess ("S" ++ c) with
  | none =>
    have : w.shutdownSession i ("S" ++ c) = w := by unfold World.shutdownSession; simp only [hs]
    rw [this]
    exact Ext.refl c w
  | some s =>
    rw [shutdown_eq w i _ s hs]
    split
    · exact ext_teardown w i c s hs
    · split
      · exact ext_teardown w i c s hs
      · split
        · exact ext_teardown w i c s hs
        · exact (ext_teardown w i c s hs).trans ((q_publishJob _ _ _ _ (fun w => Quiet.refl w)).ext c)

theorem ext_connect (w : World) (c : String) (i : Nat) (client mount : String) (authOk : Bool) (ka : Nat)
    (will : Option Will) : Ext c w (w.connect c i client mount authOk ka will) := by
  cases authOk with
  | false =>
    unfold World.connect
    simp only [Bool.not_false, if_true]
    exact ((Quiet.of_nodes rfl rfl).trans (Quiet.emit _ _ _ (by intro h; cases h))).ext c
  | true =>
    rw [connect_eq]
    split
    · exact (((q_connPre w c i client mount).trans (q_tick _)).ext c).trans (ext_emit_closed c _)
    · simp only
      refine ((q_connMid w c i client mount will).ext c).trans ?_
      generalize connMid w c i client mount will = W
      intro hW
      constructor
      · intro j s hs
        rw [node_emit, node_setNode] at hs
        split at hs
        · simp only [List.mem_append, List.mem_singleton] at hs
          rcases hs with hs | hs
          · exact hW i s hs
          · rw [hs]; rfl
        · exact hW j s hs
      · exact ⟨[(c, Pkt.connack 0)], rfl, by simp⟩

theorem ext_failConn (w : World) (c : String) : Ext c w (failConn w c) := by
  unfold failConn
  split
  · exact Ext.refl c w
  · split
    · exact ext_shutdown w _ c
    · exact Ext.of_nodes rfl (Conf.closed c rfl)

theorem ext_clientPacket (w : World) (c : String) (pkt : CPkt) : Ext c w (w.clientPacket c pkt) := by
  unfold World.clientPacket
  split
  · exact Ext.refl c w
  · rename_i _ i' _
    simp only
    split
    · exact Ext.refl c w
    · have hp := (q_process w i' ("S" ++ c) pkt).ext c
      generalize (w.process i' ("S" ++ c) pkt) = r at hp
      obtain ⟨w1, res⟩ := r
      simp only at hp ⊢
      cases res with
      | ok => exact hp.trans ((q_extendDeadline w1 i' _).ext c)
      | disconnected =>
        refine hp.trans (Ext.trans ?_ (ext_shutdown _ _ c))
        split
        · rename_i s hs
          exact (Quiet.setSess (s' := { s with disconnected := true }) w1 i' hs rfl rfl).ext c
        · exact Ext.refl c _
      | error => exact hp.trans (ext_shutdown _ _ c)

theorem ext_applyDecoded (w : World) (c : String) (r : DRes) : Ext c w (applyDecoded w c r) := by
  unfold applyDecoded
  split
  · exact Ext.refl c w
  · split
    · cases r with
      | pkt p => exact ext_clientPacket w c p
      | connect => exact ext_clientPacket w c _
      | err => exact ext_failConn w c
      | panic => exact ext_failConn w c
    · cases r with
      | connect client user pass ka will =>
        simp only
        split
        · exact ext_connect _ _ _ _ _ _ _ _
        · exact ext_connect _ _ _ _ _ _ _ _
      | pkt p => exact ext_failConn w c
      | err => exact ext_failConn w c
      | panic => exact ext_failConn w c

theorem ext_setBuf (w : World) (c c' : String) (b : Wire.Bytes) : Ext c w (setBuf w c' b) :=
  Ext.of_nodes rfl (Conf.refl c _)

theorem ext_pump (fuel : Nat) (w : World) (c : String) : Ext c w (pump fuel w c).1 := by
  induction fuel generalizing w with
  | zero => simp only [pump]; exact Ext.refl c w
  | succ n ih =>
    simp only [pump]
    split
    · exact ext_setBuf w c c []
    · split
      · exact ext_setBuf w c c []
      · split
        · exact Ext.refl c w
        · exact (ext_setBuf w c c []).trans (ext_failConn _ c)
        · exact ((ext_setBuf w c c _).trans (ext_applyDecoded _ c _)).trans (ih _)

theorem ext_rawBytes (w : World) (c : String) (b : Wire.Bytes) : Ext c w (rawBytes w c b).1 := by
  unfold rawBytes
  split
  · exact Ext.refl c w
  · exact (ext_setBuf w c c _).trans (ext_pump _ _ c)

theorem ext_drop (w : World) (c : String) : Ext c w (w.drop c) := by
  unfold World.drop
  split
  · exact Ext.refl c w
  · simp only
    split
    · refine Ext.trans ?_ (ext_shutdown _ _ c)
      exact Ext.of_nodes rfl (Conf.of_eq rfl)
    · exact Ext.of_nodes rfl (Conf.closed c rfl)

/-- the world after the zero-padded decoding of a partly received packet -/
def closeMid (w : World) (c : String) : World :=
  match bufOf w c with
  | [] => setBuf w c []
  | h :: rest =>
    match readRemLen 0 0 1 rest with
    | .ok remlen used =>
      applyDecoded (setBuf w c []) c (decodeBody (h / 16) (h % 16)
        (rest.drop used ++ List.replicate (remlen - (rest.drop used).length) 0))
    | _ => setBuf w c []

theorem closeFromClientRaw_eq (w : World) (c : String) :
    closeFromClientRaw w c =
      if (closeMid w c).conns.any (fun e => e.1 == c) then
        if hasSession (closeMid w c) c then (closeMid w c).drop c
        else ({ closeMid w c with conns := (closeMid w c).conns.filter (fun e => e.1 != c) }).emit c .closed
      else (closeMid w c).emit c .closed := by
  unfold closeFromClientRaw closeMid
  rfl

theorem ext_closeMid (w : World) (c : String) : Ext c w (closeMid w c) := by
  unfold closeMid
  split
  · exact ext_setBuf w c c []
  · split
    · exact (ext_setBuf w c c []).trans (ext_applyDecoded _ c _)
    · exact ext_setBuf w c c []

theorem ext_closeFromClientRaw (w : World) (c : String) : Ext c w (closeFromClientRaw w c) := by
  rw [closeFromClientRaw_eq]
  refine (ext_closeMid w c).trans ?_
  split
  · split
    · exact ext_drop _ c
    · exact Ext.of_nodes rfl (Conf.closed c rfl)
  · exact ext_emit_closed c _

theorem ext_closeFromClient (w : World) (c : String) : Ext c w (closeFromClient w c) := by
  intro hw
  obtain ⟨hr, new, he, hp⟩ := ext_closeFromClientRaw w c hw
  refine ⟨RegOK.of_nodes (w := closeFromClientRaw w c) rfl hr, ?_⟩
  refine ⟨new.filter (fun e => e.1 != c || e.2 == .closed), ?_, ?_⟩
  · simp only [closeFromClient, he]
    simp
  · intro e hm
    exact hp e (List.mem_filter.mp hm).1

/-! ### `Keep` -/

def Keep (c : String) (w w' : World) : Prop :=
  ∀ j sid, sid ≠ "S" ++ c → sid ∈ (w.node j).reg.map (·.id) → sid ∈ (w'.node j).reg.map (·.id)

theorem Keep.refl (c : String) (w : World) : Keep c w w := fun _ _ _ h => h

theorem Keep.trans {c : String} {a b d : World} (h1 : Keep c a b) (h2 : Keep c b d) : Keep c a d :=
  fun j sid hne h => h2 j sid hne (h1 j sid hne h)

theorem Keep.of_sameReg {w w' : World} (h : SameReg w w') (c : String) : Keep c w w' := by
  intro j sid _ hm
  rw [h.ids j]; exact hm

theorem Keep.of_nodes {c : String} {w w' : World} (h : w'.nodes = w.nodes) : Keep c w w' := by
  intro j sid _ hm
  rw [node_congr h]; exact hm

theorem keep_shutdown (w : World) (i : Nat) (c : String) : Keep c w (w.shutdownSession i ("S" ++ c)) :=
  fun j sid hne h => shutdown_keeps w i _ j sid h (Or.inl hne)

theorem keep_clientPacket (w : World) (c : String) (pkt : CPkt) : Keep c w (w.clientPacket c pkt) :=
  fun j sid hne h => clientPacket_keeps w c pkt j sid h hne

theorem keep_connect (w : World) (c : String) (i : Nat) (client mount : String) (authOk : Bool) (ka : Nat)
    (will : Option Will) : Keep c w (w.connect c i client mount authOk ka will) := by
  cases authOk with
  | false =>
    unfold World.connect
    simp only [Bool.not_false, if_true]
    exact Keep.of_nodes rfl
  | true =>
    rw [connect_eq]
    split
    · exact Keep.of_sameReg (((sr_connPre w c i client mount).trans (sr_tick _)).trans (sr_emit _ _ _)) c
    · simp only
      refine (Keep.of_sameReg (sr_connMid w c i client mount will) c).trans ?_
      generalize connMid w c i client mount will = W
      intro j sid _ hm
      rw [node_emit, node_setNode]
      split
      · rename_i hc
        rw [hc.1] at hm
        simp only [List.map_append, List.mem_append]
        exact Or.inl hm
      · exact hm

theorem keep_failConn (w : World) (c : String) : Keep c w (failConn w c) := by
  unfold failConn
  split
  · exact Keep.refl c w
  · split
    · exact keep_shutdown w _ c
    · exact Keep.of_nodes rfl

theorem keep_applyDecoded (w : World) (c : String) (r : DRes) : Keep c w (applyDecoded w c r) := by
  unfold applyDecoded
  split
  · exact Keep.refl c w
  · split
    · cases r with
      | pkt p => exact keep_clientPacket w c p
      | connect => exact keep_clientPacket w c _
      | err => exact keep_failConn w c
      | panic => exact keep_failConn w c
    · cases r with
      | connect client user pass ka will =>
        simp only
        split
        · exact keep_connect _ _ _ _ _ _ _ _
        · exact keep_connect _ _ _ _ _ _ _ _
      | pkt p => exact keep_failConn w c
      | err => exact keep_failConn w c
      | panic => exact keep_failConn w c

theorem keep_setBuf (w : World) (c c' : String) (b : Wire.Bytes) : Keep c w (setBuf w c' b) :=
  Keep.of_nodes rfl

theorem keep_pump (fuel : Nat) (w : World) (c : String) : Keep c w (pump fuel w c).1 := by
  induction fuel generalizing w with
  | zero => simp only [pump]; exact Keep.refl c w
  | succ n ih =>
    simp only [pump]
    split
    · exact keep_setBuf w c c []
    · split
      · exact keep_setBuf w c c []
      · split
        · exact Keep.refl c w
        · exact (keep_setBuf w c c []).trans (keep_failConn _ c)
        · exact ((keep_setBuf w c c _).trans (keep_applyDecoded _ c _)).trans (ih _)

theorem keep_rawBytes (w : World) (c : String) (b : Wire.Bytes) : Keep c w (rawBytes w c b).1 := by
  unfold rawBytes
  split
  · exact Keep.refl c w
  · exact (keep_setBuf w c c _).trans (keep_pump _ _ c)

theorem keep_drop (w : World) (c : String) : Keep c w (w.drop c) := by
  unfold World.drop
  split
  · exact Keep.refl c w
  · simp only
    split
    · refine Keep.trans ?_ (keep_shutdown _ _ c)
      exact Keep.of_nodes rfl
    · exact Keep.of_nodes rfl

theorem keep_closeMid (w : World) (c : String) : Keep c w (closeMid w c) := by
  unfold closeMid
  split
  · exact keep_setBuf w c c []
  · split
    · exact (keep_setBuf w c c []).trans (keep_applyDecoded _ c _)
    · exact keep_setBuf w c c []

theorem keep_closeFromClientRaw (w : World) (c : String) : Keep c w (closeFromClientRaw w c) := by
  rw [closeFromClientRaw_eq]
  refine (keep_closeMid w c).trans ?_
  split
  · split
    · exact keep_drop _ c
    · exact Keep.of_nodes rfl
  · exact Keep.of_nodes rfl

theorem keep_closeFromClient (w : World) (c : String) : Keep c w (closeFromClient w c) :=
  (keep_closeFromClientRaw w c).trans (Keep.of_nodes rfl)

end Wasp.Broker.AgentF

import Wasp.Model.Conc
import Wasp.Proofs.Conc
import Wasp.Properties.C20Table
/-! helper lemmas for Wasp/Properties/C20Lift.lean (agent T2) -/
namespace Wasp.Conc

/-- names are numbered by their first position in a list -/
def nameIdx (names : List String) (s : String) : Nat := names.idxOf s

def lockNames (t : List Entry) : List String := t.flatMap (fun e => e.2.2.2.map (·.1))
def locNames (t : List Entry) : List String := t.map (·.1)

/-- the critical section of one table row: take its locks (in the order listed), make the access, release them -/
def rowProg (t : List Entry) (e : Entry) : List Act :=
  e.2.2.2.map (fun l => Act.acquire (nameIdx (lockNames t) l.1) l.2) ++
  [Act.access (nameIdx (locNames t) e.1) e.2.2.1] ++
  e.2.2.2.reverse.map (fun l => Act.release (nameIdx (lockNames t) l.1))

/-- a thread executes any sequence of rows of the table (row numbers out of range do nothing) -/
def threadProg (t : List Entry) (rows : List Nat) : List Act :=
  rows.flatMap (fun r => match t[r]? with | some e => rowProg t e | none => [])

/-- no row lists a lock twice -/
def rowsNodup (t : List Entry) : Bool := t.all (fun e => decide (e.2.2.2.map (·.1)).Nodup)

end Wasp.Conc

namespace Wasp.Conc.AgentT2
open Wasp.Conc

/-! ### numbering is injective on listed names -/

theorem idxOf_inj_of_mem (names : List String) (a b : String) (ha : a ∈ names)
    (h : names.idxOf a = names.idxOf b) : a = b := by
  induction names with
  | nil => simp at ha
  | cons x xs ih =>
    simp only [List.idxOf_cons, cond_eq_ite, beq_iff_eq] at h
    by_cases hxa : x = a
    · by_cases hxb : x = b
      · rw [← hxa, ← hxb]
      · rw [if_pos hxa, if_neg hxb] at h; omega
    · by_cases hxb : x = b
      · rw [if_neg hxa, if_pos hxb] at h; omega
      · rw [if_neg hxa, if_neg hxb] at h
        have ha' : a ∈ xs := by
          rcases List.mem_cons.1 ha with h' | h'
          · exact absurd h'.symm hxa
          · exact h'
        exact ih ha' (by omega)

theorem nameIdx_inj (names : List String) (a b : String) (ha : a ∈ names)
    (h : nameIdx names a = nameIdx names b) : a = b :=
  idxOf_inj_of_mem names a b ha h

theorem nodup_map_nameIdx (names : List String) (l : List String) (hsub : ∀ a ∈ l, a ∈ names)
    (hn : l.Nodup) : (l.map (nameIdx names)).Nodup := by
  induction l with
  | nil => simp
  | cons x xs ih =>
    rw [List.nodup_cons] at hn
    rw [List.map_cons, List.nodup_cons]
    refine ⟨?_, ih (fun a ha => hsub a (List.mem_cons_of_mem _ ha)) hn.2⟩
    intro hm
    rcases List.mem_map.1 hm with ⟨y, hy, hxy⟩
    have : y = x := by
      have := nameIdx_inj names x y (hsub x List.mem_cons_self) hxy.symm
      exact this.symm
    exact hn.1 (this ▸ hy)

/-! ### scanning a bracketed critical section -/

/-- numbered acquire/release blocks -/
def acqs (L : List (Nat × Mode)) : List Act := L.map (fun l => Act.acquire l.1 l.2)
def rels (L : List (Nat × Mode)) : List Act := L.map (fun l => Act.release l.1)

theorem scan_acqs (L : List (Nat × Mode)) (cur : List (Nat × Mode)) (rest : List Act) :
    scanAccesses cur (acqs L ++ rest) = scanAccesses (L.reverse ++ cur) rest := by
  induction L generalizing cur with
  | nil => simp [acqs]
  | cons x xs ih =>
    have := ih (x :: cur)
    simp only [acqs] at this ⊢
    simp [scanAccesses, this]

theorem filter_head_nodup (x : Nat × Mode) (xs : List (Nat × Mode)) (hn : ((x :: xs).map (·.1)).Nodup) :
    (x :: xs).filter (fun e => e.1 != x.1) = xs := by
  rw [List.map_cons, List.nodup_cons] at hn
  simp only [List.filter_cons, bne_self_eq_false, Bool.false_eq_true, if_false]
  rw [List.filter_eq_self]
  intro a ha
  have : a.1 ≠ x.1 := by
    intro h
    exact hn.1 (h ▸ List.mem_map_of_mem ha)
  simpa using this

theorem scan_rels (L : List (Nat × Mode)) (hn : (L.map (·.1)).Nodup) (rest : List Act) :
    scanAccesses L (rels L ++ rest) = scanAccesses [] rest := by
  induction L with
  | nil => simp [rels]
  | cons x xs ih =>
    have hf := filter_head_nodup x xs hn
    rw [List.map_cons, List.nodup_cons] at hn
    have := ih hn.2
    simp only [rels] at this ⊢
    simp only [List.map_cons, List.cons_append, scanAccesses]
    rw [hf, this]

theorem wb_acqs (L : List (Nat × Mode)) (cur : List (Nat × Mode)) (rest : List Act)
    (hn : (L.map (·.1)).Nodup) (hdis : ∀ x ∈ L, ∀ y ∈ cur, y.1 ≠ x.1) :
    wellBracketed cur (acqs L ++ rest) = wellBracketed (L.reverse ++ cur) rest := by
  induction L generalizing cur with
  | nil => simp [acqs]
  | cons x xs ih =>
    rw [List.map_cons, List.nodup_cons] at hn
    have hdis' : ∀ a ∈ xs, ∀ y ∈ x :: cur, y.1 ≠ a.1 := by
      intro a ha y hy
      rcases List.mem_cons.1 hy with rfl | hy
      · intro h
        exact hn.1 (h ▸ List.mem_map_of_mem ha)
      · exact hdis a (List.mem_cons_of_mem _ ha) y hy
    have := ih (x :: cur) hn.2 hdis'
    simp only [acqs] at this ⊢
    have hx : (cur.any (fun e => e.1 == x.1)) = false := by
      rw [List.any_eq_false]
      intro y hy
      simpa using hdis x List.mem_cons_self y hy
    simp [wellBracketed, this, hx]

theorem wb_rels (L : List (Nat × Mode)) (hn : (L.map (·.1)).Nodup) (rest : List Act) :
    wellBracketed L (rels L ++ rest) = wellBracketed [] rest := by
  induction L with
  | nil => simp [rels]
  | cons x xs ih =>
    have hf := filter_head_nodup x xs hn
    rw [List.map_cons, List.nodup_cons] at hn
    have := ih hn.2
    simp only [rels] at this ⊢
    simp only [List.map_cons, List.cons_append, wellBracketed]
    rw [hf, this]
    simp

/-- the numbered locks of a row -/
def numLocks (t : List Entry) (e : Entry) : List (Nat × Mode) :=
  e.2.2.2.map (fun l => (nameIdx (lockNames t) l.1, l.2))

theorem rowProg_eq (t : List Entry) (e : Entry) :
    rowProg t e = acqs (numLocks t e) ++
      (Act.access (nameIdx (locNames t) e.1) e.2.2.1 :: rels (numLocks t e).reverse) := by
  simp [rowProg, acqs, rels, numLocks, List.map_reverse, Function.comp_def]

theorem numLocks_nodup (t : List Entry) (hn : rowsNodup t = true) (e : Entry) (he : e ∈ t) :
    ((numLocks t e).map (·.1)).Nodup := by
  have h1 : (e.2.2.2.map (·.1)).Nodup := by
    have := List.all_eq_true.1 hn e he
    simpa using this
  have h2 := nodup_map_nameIdx (lockNames t) (e.2.2.2.map (·.1)) (by
    intro a ha
    simp only [lockNames, List.mem_flatMap]
    exact ⟨e, he, ha⟩) h1
  simpa [numLocks, List.map_map, Function.comp_def] using h2

theorem scan_row (t : List Entry) (hn : rowsNodup t = true) (e : Entry) (he : e ∈ t) (rest : List Act) :
    scanAccesses [] (rowProg t e ++ rest) =
      (nameIdx (locNames t) e.1, e.2.2.1, (numLocks t e).reverse) :: scanAccesses [] rest := by
  have hnd := numLocks_nodup t hn e he
  have hnd' : (((numLocks t e).reverse).map (·.1)).Nodup := by
    rw [List.map_reverse]; exact List.pairwise_reverse.2 (hnd.imp (fun h => Ne.symm h))
  rw [rowProg_eq, List.append_assoc, scan_acqs]
  simp only [List.append_nil, List.cons_append, scanAccesses]
  rw [scan_rels _ hnd']

theorem wb_row (t : List Entry) (hn : rowsNodup t = true) (e : Entry) (he : e ∈ t) (rest : List Act) :
    wellBracketed [] (rowProg t e ++ rest) = wellBracketed [] rest := by
  have hnd := numLocks_nodup t hn e he
  have hnd' : (((numLocks t e).reverse).map (·.1)).Nodup := by
    rw [List.map_reverse]; exact List.pairwise_reverse.2 (hnd.imp (fun h => Ne.symm h))
  rw [rowProg_eq, List.append_assoc, wb_acqs _ _ _ hnd (by simp)]
  simp only [List.append_nil, List.cons_append, wellBracketed]
  rw [wb_rels _ hnd']

theorem wb_thread (t : List Entry) (hn : rowsNodup t = true) (rows : List Nat) :
    wellBracketed [] (threadProg t rows) = true := by
  induction rows with
  | nil => simp [threadProg, wellBracketed]
  | cons r rs ih =>
    simp only [threadProg, List.flatMap_cons] at ih ⊢
    cases hr : t[r]? with
    | none => simpa using ih
    | some e =>
      simp only []
      rw [wb_row t hn e (List.mem_of_getElem? hr)]
      exact ih

theorem scan_thread (t : List Entry) (hn : rowsNodup t = true) (rows : List Nat) :
    ∀ a ∈ scanAccesses [] (threadProg t rows), ∃ e ∈ t,
      a = (nameIdx (locNames t) e.1, e.2.2.1, (numLocks t e).reverse) := by
  induction rows with
  | nil => simp [threadProg, scanAccesses]
  | cons r rs ih =>
    simp only [threadProg, List.flatMap_cons] at ih ⊢
    cases hr : t[r]? with
    | none => simpa using ih
    | some e =>
      simp only []
      have he := List.mem_of_getElem? hr
      rw [scan_row t hn e he]
      intro a ha
      rcases List.mem_cons.1 ha with rfl | ha
      · exact ⟨e, he, rfl⟩
      · exact ih a ha

/-! ### transferring protection from names to numbers -/

theorem protected_transfer (t : List Entry) (e₁ e₂ : Entry)
    (h : protectedPairS e₁.2.2.2 e₂.2.2.2 = true) :
    protectedPair (numLocks t e₁).reverse (numLocks t e₂).reverse = true := by
  simp only [protectedPairS, List.any_eq_true] at h
  rcases h with ⟨x, hx, y, hy, hxy⟩
  simp only [protectedPair, List.any_eq_true]
  refine ⟨(nameIdx (lockNames t) x.1, x.2), ?_, (nameIdx (lockNames t) y.1, y.2), ?_, ?_⟩
  · rw [List.mem_reverse]; exact List.mem_map.2 ⟨x, hx, rfl⟩
  · rw [List.mem_reverse]; exact List.mem_map.2 ⟨y, hy, rfl⟩
  · simp only [Bool.and_eq_true, beq_iff_eq] at hxy ⊢
    exact ⟨by rw [hxy.1], hxy.2⟩

theorem rows_protected (t : List Entry) (hd : tableDisciplined t = true) (e₁ e₂ : Entry)
    (h₁ : e₁ ∈ t) (h₂ : e₂ ∈ t)
    (hloc : nameIdx (locNames t) e₁.1 = nameIdx (locNames t) e₂.1)
    (hw : e₁.2.2.1 = true ∨ e₂.2.2.1 = true) :
    protectedPair (numLocks t e₁).reverse (numLocks t e₂).reverse = true := by
  have hc : conflictOk e₁ e₂ = true := by
    have := List.all_eq_true.1 hd e₁ h₁
    exact List.all_eq_true.1 this e₂ h₂
  have hname : e₁.1 = e₂.1 :=
    nameIdx_inj (locNames t) e₁.1 e₂.1 (List.mem_map.2 ⟨e₁, h₁, rfl⟩) hloc
  apply protected_transfer
  simp only [conflictOk, Bool.or_eq_true, bne_iff_ne, ne_eq, Bool.not_eq_true',
    Bool.or_eq_false_iff] at hc
  rcases hc with (hc | hc) | hc
  · exact absurd hname hc
  · rcases hw with hw | hw
    · rw [hc.1] at hw; cases hw
    · rw [hc.2] at hw; cases hw
  · exact hc

theorem table_lift (t : List Entry) (hd : tableDisciplined t = true) (hn : rowsNodup t = true)
    (threads : List (List Nat)) : Disciplined (threads.map (threadProg t)) := by
  constructor
  · intro p hp
    rcases List.mem_map.1 hp with ⟨rows, _, rfl⟩
    exact wb_thread t hn rows
  · intro t₁ t₂ p₁ p₂ _ hp₁ hp₂ a₁ ha₁ a₂ ha₂ hloc hw
    rw [List.getElem?_map] at hp₁ hp₂
    rcases Option.map_eq_some_iff.1 hp₁ with ⟨r₁, _, rfl⟩
    rcases Option.map_eq_some_iff.1 hp₂ with ⟨r₂, _, rfl⟩
    rcases scan_thread t hn r₁ a₁ ha₁ with ⟨e₁, he₁, rfl⟩
    rcases scan_thread t hn r₂ a₂ ha₂ with ⟨e₂, he₂, rfl⟩
    exact rows_protected t hd e₁ e₂ he₁ he₂ hloc hw

end Wasp.Conc.AgentT2

import Wasp.Model.Broker
import Wasp.Proofs.IdPool
import Wasp.Proofs.AckQueue
import Wasp.Proofs.BrokerA
import Wasp.Proofs.BrokerB
import Wasp.Proofs.BrokerD
import Std.Data.String.ToInt
/-!
The cross-component invariant between the identifier pool, the in-flight table and the stored callbacks of
a node (`PoolInv`), and its preservation by the operations of the broker model.
Definitions live in `Wasp.Broker`, helper lemmas in `Wasp.Broker.AgentT3`.
-/
namespace Wasp.Broker

/-- session and packet identifier of an OUTBOUND in-flight entry (identifier drawn from the node's pool) -/
def Stored.out? : Stored → Option (String × Int)
  | .out1 s _ _ _ _ m => some (s, m)
  | .out2 s _ _ _ _ m => some (s, m)
  | .rel s m => some (s, m)
  | .inbound .. => none

/-- The cross-component invariant of one node.
* `pool`  the interval list of the pool is well formed (`IdPool.Inv`);
* `qinv`  the in-flight table is coherent (`Ack.QInv`: keys without duplicates, timers ↔ entries);
* `sub`   every key of the in-flight table has a stored callback;
* `key`   an OUTBOUND callback `(k, st)` is filed under the key of its own session and identifier, and that
          identifier is NOT free in the pool;
* `inb`   an inbound callback is filed under `hashKey (sess ++ "/in") mid`;
* `uniq`  two outbound callbacks holding the same identifier are filed under the same key (an identifier is
          held by at most one exchange of the node, whatever the session). -/
structure PoolInv (n : Node) : Prop where
  pool : IdPool.Inv n.pool
  qinv : Ack.QInv n.acks
  sub : ∀ k m, (k, m) ∈ n.acks.msgs → ∃ st, (k, st) ∈ n.stored
  key : ∀ k st sid mid, (k, st) ∈ n.stored → st.out? = some (sid, mid) →
    k = Ack.hashKey sid mid ∧ ¬ IdPool.freeIn n.pool.ivs mid
  inb : ∀ k s c p m, (k, Stored.inbound s c p m) ∈ n.stored → k = Ack.hashKey (s ++ "/in") m
  uniq : ∀ k₁ st₁ k₂ st₂ s₁ s₂ mid, (k₁, st₁) ∈ n.stored → (k₂, st₂) ∈ n.stored →
    st₁.out? = some (s₁, mid) → st₂.out? = some (s₂, mid) → k₁ = k₂

def WorldPoolInv (w : World) : Prop := ∀ i, PoolInv (w.node i)

/-- no outbound callback of the node holds identifier `mid` -/
def Unheld (n : Node) (mid : Int) : Prop :=
  ∀ k st sid, (k, st) ∈ n.stored → st.out? ≠ some (sid, mid)

end Wasp.Broker

namespace Wasp.Broker.AgentT3
open Wasp.Broker Wasp.Dist Wasp.Topic

/-! ### keys -/

theorem hashKey_inj {a b : String} {m m' : Int} (h : Ack.hashKey a m = Ack.hashKey b m') : a = b ∧ m = m' := by
  have hab : a = b := AgentB.hashKey_prefix_inj h
  subst hab
  refine ⟨rfl, ?_⟩
  unfold Ack.hashKey at h
  have h2 := (String.append_right_inj _).mp h
  rw [Int.toString_eq_repr, Int.toString_eq_repr] at h2
  exact Int.repr_injective h2

theorem storedFind_mem {k : Ack.Key} {st : Stored} {l : List (Ack.Key × Stored)}
    (h : storedFind k l = some st) : (k, st) ∈ l := by
  induction l with
  | nil => simp [storedFind] at h
  | cons x rest ih =>
    obtain ⟨k', s⟩ := x
    simp only [storedFind] at h
    split at h
    · rename_i e; cases h; subst e; exact List.mem_cons_self
    · exact List.mem_cons_of_mem _ (ih h)

theorem mem_storedErase {k : Ack.Key} {e : Ack.Key × Stored} {l : List (Ack.Key × Stored)} :
    e ∈ storedErase k l ↔ e ∈ l ∧ e.1 ≠ k := by
  simp [storedErase]

/-! ### the part of a node the invariant speaks about -/

def pcore (n : Node) : Ack.Queue × List (Ack.Key × Stored) × IdPool.Pool := (n.acks, n.stored, n.pool)

theorem pcore_eq {n n' : Node} (h : pcore n' = pcore n) :
    n'.acks = n.acks ∧ n'.stored = n.stored ∧ n'.pool = n.pool := by
  simp only [pcore, Prod.mk.injEq] at h
  exact h

theorem _root_.Wasp.Broker.PoolInv.congr {n n' : Node} (h : pcore n' = pcore n) (hn : PoolInv n) : PoolInv n' := by
  obtain ⟨h1, h2, h3⟩ := pcore_eq h
  constructor
  · rw [h3]; exact hn.pool
  · rw [h1]; exact hn.qinv
  · rw [h1, h2]; exact hn.sub
  · rw [h2, h3]; exact hn.key
  · rw [h2]; exact hn.inb
  · rw [h2]; exact hn.uniq

theorem _root_.Wasp.Broker.Unheld.congr {n n' : Node} {mid : Int} (h : n'.stored = n.stored) (hn : Unheld n mid) : Unheld n' mid := by
  unfold Unheld; rw [h]; exact hn

/-- a held identifier is not free; hence a free identifier is unheld -/
theorem _root_.Wasp.Broker.PoolInv.unheld_of_free {n : Node} (hn : PoolInv n) {mid : Int} (hf : IdPool.freeIn n.pool.ivs mid) :
    Unheld n mid := by
  intro k st sid hm ho
  exact (hn.key k st sid mid hm ho).2 hf

/-! ### node-level steps -/

/-- a new exchange is armed: its key was not in flight; if it is outbound it is filed under its own key and
    its identifier is reserved (not free) and unheld -/
theorem _root_.Wasp.Broker.PoolInv.arm {n : Node} (hn : PoolInv n) (k : Ack.Key) (m : Ack.Msg) (st : Stored)
    (hk : Ack.msgFind k n.acks.msgs = none)
    (hout : ∀ sid mid, st.out? = some (sid, mid) →
      k = Ack.hashKey sid mid ∧ ¬ IdPool.freeIn n.pool.ivs mid ∧ Unheld n mid)
    (hin : ∀ s c p mid, st = Stored.inbound s c p mid → k = Ack.hashKey (s ++ "/in") mid) :
    PoolInv { n with
      acks := { msgs := n.acks.msgs ++ [(k, m)], timeouts := Ack.pqInsert k m.deadline n.acks.timeouts },
      stored := n.stored ++ [(k, st)] } := by
  constructor
  · exact hn.pool
  · exact Ack.qinv_insert hn.qinv k m hk
  · intro k' m' hm
    simp only [List.mem_append, List.mem_singleton, Prod.mk.injEq] at hm ⊢
    rcases hm with hm | ⟨rfl, _⟩
    · obtain ⟨st', hst'⟩ := hn.sub k' m' hm
      exact ⟨st', Or.inl hst'⟩
    · exact ⟨st, Or.inr ⟨rfl, rfl⟩⟩
  · intro k' st' sid mid hm ho
    simp only [List.mem_append, List.mem_singleton, Prod.mk.injEq] at hm
    rcases hm with hm | ⟨rfl, rfl⟩
    · exact hn.key k' st' sid mid hm ho
    · exact ⟨(hout sid mid ho).1, (hout sid mid ho).2.1⟩
  · intro k' s c p mid hm
    simp only [List.mem_append, List.mem_singleton, Prod.mk.injEq] at hm
    rcases hm with hm | ⟨rfl, rfl⟩
    · exact hn.inb k' s c p mid hm
    · exact hin s c p mid rfl
  · intro k₁ st₁ k₂ st₂ s₁ s₂ mid h1 h2 o1 o2
    simp only [List.mem_append, List.mem_singleton, Prod.mk.injEq] at h1 h2
    rcases h1 with h1 | ⟨rfl, rfl⟩ <;> rcases h2 with h2 | ⟨rfl, rfl⟩
    · exact hn.uniq k₁ st₁ k₂ st₂ s₁ s₂ mid h1 h2 o1 o2
    · exact absurd o1 ((hout s₂ mid o2).2.2 k₁ st₁ s₁ h1)
    · exact absurd o2 ((hout s₁ mid o1).2.2 k₂ st₂ s₂ h2)
    · rfl

/-- an unheld identifier is given back -/
theorem _root_.Wasp.Broker.PoolInv.put {n : Node} (hn : PoolInv n) (mid : Int) (hu : Unheld n mid) :
    PoolInv { n with pool := IdPool.put n.pool mid } := by
  have hp := IdPool.put_spec n.pool hn.pool mid
  constructor
  · exact hp.1
  · exact hn.qinv
  · exact hn.sub
  · intro k st sid mid' hm ho
    refine ⟨(hn.key k st sid mid' hm ho).1, ?_⟩
    intro hf
    rcases (hp.2 mid').mp hf with hf | ⟨rfl, _⟩
    · exact (hn.key k st sid mid' hm ho).2 hf
    · exact hu k st sid hm ho
  · exact hn.inb
  · exact hn.uniq

/-- an identifier is drawn -/
theorem _root_.Wasp.Broker.PoolInv.get {n : Node} (hn : PoolInv n) :
    PoolInv { n with pool := (IdPool.get n.pool).1 } ∧
    (0 < (IdPool.get n.pool).2 →
      Unheld n (IdPool.get n.pool).2 ∧ ¬ IdPool.freeIn (IdPool.get n.pool).1.ivs (IdPool.get n.pool).2) := by
  by_cases hne : n.pool.ivs = []
  · rw [IdPool.get_empty n.pool hne]
    exact ⟨hn, fun h => absurd h (by simp)⟩
  · have hg := IdPool.get_spec n.pool hn.pool hne
    refine ⟨?_, fun _ => ⟨hn.unheld_of_free hg.2.1, fun hf => ?_⟩⟩
    · constructor
      · exact hg.1
      · exact hn.qinv
      · exact hn.sub
      · intro k st sid mid hm ho
        refine ⟨(hn.key k st sid mid hm ho).1, fun hf => ?_⟩
        exact (hn.key k st sid mid hm ho).2 ((hg.2.2.2.2 mid).mp hf).1
      · exact hn.inb
      · exact hn.uniq
    · exact ((hg.2.2.2.2 _).mp hf).2 rfl

/-- the callback of a key that is no longer in flight is taken out -/
theorem _root_.Wasp.Broker.PoolInv.eraseStored {n : Node} (hn : PoolInv n) (k : Ack.Key) (hk : Ack.msgFind k n.acks.msgs = none) :
    PoolInv { n with stored := storedErase k n.stored } := by
  constructor
  · exact hn.pool
  · exact hn.qinv
  · intro k' m' hm
    obtain ⟨st', hst'⟩ := hn.sub k' m' hm
    refine ⟨st', mem_storedErase.mpr ⟨hst', ?_⟩⟩
    rintro rfl
    exact (Ack.msgFind_none_iff.mp hk) (List.mem_map.mpr ⟨(k', m'), hm, rfl⟩)
  · intro k' st' sid mid hm ho
    exact hn.key k' st' sid mid (mem_storedErase.mp hm).1 ho
  · intro k' s c p mid hm
    exact hn.inb k' s c p mid (mem_storedErase.mp hm).1
  · intro k₁ st₁ k₂ st₂ s₁ s₂ mid h1 h2 o1 o2
    exact hn.uniq k₁ st₁ k₂ st₂ s₁ s₂ mid (mem_storedErase.mp h1).1 (mem_storedErase.mp h2).1 o1 o2

/-- after its callback was taken out, the identifier of an outbound exchange is reserved and unheld -/
theorem _root_.Wasp.Broker.PoolInv.erased_reserved {n : Node} (hn : PoolInv n) {k : Ack.Key} {st : Stored} (hm : (k, st) ∈ n.stored)
    {sid : String} {mid : Int} (ho : st.out? = some (sid, mid)) :
    k = Ack.hashKey sid mid ∧ ¬ IdPool.freeIn n.pool.ivs mid ∧
      Unheld { n with stored := storedErase k n.stored } mid := by
  refine ⟨(hn.key k st sid mid hm ho).1, (hn.key k st sid mid hm ho).2, ?_⟩
  intro k' st' sid' hm' ho'
  obtain ⟨h1, h2⟩ := mem_storedErase.mp hm'
  exact h2 (hn.uniq k' st' k st sid' sid mid h1 hm ho' ho)

/-- an in-flight entry is acknowledged -/
theorem _root_.Wasp.Broker.PoolInv.ackErase {n : Node} (hn : PoolInv n) (k : Ack.Key) (m : Ack.Msg)
    (hk : Ack.msgFind k n.acks.msgs = some m) :
    PoolInv { n with acks := { msgs := Ack.msgErase k n.acks.msgs,
                               timeouts := (Ack.pqDelete k m.deadline n.acks.timeouts).1 } } ∧
    Ack.msgFind k (Ack.msgErase k n.acks.msgs) = none := by
  refine ⟨?_, Ack.msgFind_erase_self hn.qinv.keysNodup⟩
  constructor
  · exact hn.pool
  · exact Ack.qinv_ack hn.qinv k m hk
  · intro k' m' hm
    exact hn.sub k' m' ((Ack.msgErase_sublist k n.acks.msgs).subset hm)
  · exact hn.key
  · exact hn.inb
  · exact hn.uniq

/-- a sweep of the in-flight table -/
theorem _root_.Wasp.Broker.PoolInv.expire {n : Node} (hn : PoolInv n) (now : Ack.Time) :
    PoolInv { n with acks := (Ack.expire n.acks now).1 } ∧
    ((Ack.expire n.acks now).2.map (·.key)).Nodup ∧
    ∀ ev ∈ (Ack.expire n.acks now).2, Ack.msgFind ev.key (Ack.expire n.acks now).1.msgs = none := by
  refine ⟨?_, hn.qinv.expire_events_nodup now, ?_⟩
  · constructor
    · exact hn.pool
    · exact Ack.qinv_expire hn.qinv now
    · intro k' m' hm
      refine hn.sub k' m' ?_
      rw [Ack.expire_eq] at hm
      exact (Ack.expireKeys_sublist _ _).subset hm
    · exact hn.key
    · exact hn.inb
    · exact hn.uniq
  · intro ev hev
    obtain ⟨m, h1, h2, _⟩ := (hn.qinv.expire_events now ev).mp hev
    rw [hn.qinv.expire_find now ev.key, h1]
    simp [h2]


/-! ### worlds: frames -/

open Wasp.Broker.AgentA (WFrame)

theorem wpi_frame {w w' : World} (hf : WFrame pcore w w') (h : WorldPoolInv w) : WorldPoolInv w' :=
  fun j => (h j).congr (hf.2 j)

theorem wpi_setNode {w : World} (h : WorldPoolInv w) (i : Nat) (n' : Node) (hn : PoolInv n') :
    WorldPoolInv (w.setNode i n') := by
  intro j
  rw [AgentA.node_setNode]
  split
  · exact hn
  · exact h j

theorem wpi_setNode_core {w : World} (h : WorldPoolInv w) (i : Nat) (n' : Node) (hc : pcore n' = pcore (w.node i)) :
    WorldPoolInv (w.setNode i n') :=
  wpi_frame (WFrame.setNode _ _ _ hc) h

theorem wpi_emit {w : World} (h : WorldPoolInv w) (c : String) (p : Pkt) : WorldPoolInv (w.emit c p) := h

theorem wpi_of_nodes {w w' : World} (hn : w'.nodes = w.nodes) (h : WorldPoolInv w) : WorldPoolInv w' :=
  wpi_frame (WFrame.of_nodes pcore hn) h

theorem sess_lt {w : World} {i : Nat} {sid : String} {s : Sess} (h : (w.node i).sess sid = some s) :
    i < w.nodes.length := by
  by_cases hc : i < w.nodes.length
  · exact hc
  · have := AgentD.reg_oob w i (by omega)
    simp [Node.sess, this] at h

theorem f_broadcast (w : World) (i : Nat) (ev : Event) : WFrame pcore w (w.broadcast i ev) :=
  WFrame.setNode _ _ _ rfl

theorem f_setDist (w : World) (i : Nat) (d : State) : WFrame pcore w (w.setNode i { w.node i with dist := d }) :=
  WFrame.setNode _ _ _ rfl

theorem f_extendDeadline (w : World) (i : Nat) (sid : String) : WFrame pcore w (w.extendDeadline i sid) := by
  unfold World.extendDeadline
  simp only []
  split
  · exact WFrame.setNode _ _ _ rfl
  · exact WFrame.refl _ w

theorem f_subCreate (w : World) (i : Nat) (sid pat : String) (qos : Int) : WFrame pcore w (w.subCreate i sid pat qos) := by
  unfold World.subCreate
  exact WFrame.after (f_broadcast _ _ _) (WFrame.after (WFrame.setNode _ _ _ rfl) (AgentA.tick_frame pcore w))

theorem f_subDelete (w : World) (i : Nat) (sid pat : String) : WFrame pcore w (w.subDelete i sid pat) := by
  unfold World.subDelete
  exact WFrame.after (f_broadcast _ _ _) (WFrame.after (WFrame.setNode _ _ _ rfl) (AgentA.tick_frame pcore w))

theorem f_sessDelete (w : World) (i : Nat) (sid : String) : WFrame pcore w (w.sessDelete i sid) := by
  unfold World.sessDelete
  simp only []
  have h1 : WFrame pcore w (w.tick.1.setNode i { w.tick.1.node i with dist := (Wasp.Dist.sessDelete (w.tick.1.node i).dist w.tick.2 sid).1 }) :=
    WFrame.after (WFrame.setNode _ _ _ rfl) (AgentA.tick_frame pcore w)
  split
  · exact WFrame.after (f_broadcast _ _ _) h1
  · exact h1

theorem initPool_inv : IdPool.Inv initPool := by
  simp [initPool, IdPool.Inv, IdPool.get, IdPool.new, IdPool.Sep]

theorem poolInv_fresh (n : Node) (ha : n.acks = {}) (hs : n.stored = []) (hp : n.pool = initPool) : PoolInv n := by
  constructor
  · rw [hp]; exact initPool_inv
  · rw [ha]; exact Ack.qinv_init
  · rw [ha]; intro k m hm; simp at hm
  · rw [hs]; intro k st sid mid hm; simp at hm
  · rw [hs]; intro k s c p m hm; simp at hm
  · rw [hs]; intro k₁ st₁ k₂ st₂ s₁ s₂ mid hm; simp at hm

theorem wpi_init (n : Nat) : WorldPoolInv (World.init n) := by
  intro i
  unfold World.node World.init
  simp only [List.getD_eq_getElem?_getD, List.getElem?_map]
  cases h : (List.range n)[i]? with
  | none => exact poolInv_fresh _ rfl rfl rfl
  | some j => exact poolInv_fresh _ rfl rfl rfl

/-! ### armAndSend -/

/-- what `armAndSend` does to the pool-relevant part: nothing, or exactly one new exchange on node i, filed
    under `k`, which was not in flight -/
def ArmedAt (w w' : World) (i : Nat) (k : Ack.Key) (st : Stored) : Prop :=
  i < w.nodes.length ∧ Ack.msgFind k (w.node i).acks.msgs = none ∧
  (∃ m, (w'.node i).acks = { msgs := (w.node i).acks.msgs ++ [(k, m)],
                             timeouts := Ack.pqInsert k m.deadline (w.node i).acks.timeouts }) ∧
  (w'.node i).stored = (w.node i).stored ++ [(k, st)] ∧ (w'.node i).pool = (w.node i).pool ∧
  ∀ j, j ≠ i → pcore (w'.node j) = pcore (w.node j)

theorem armedAt_of (w w1 : World) (i : Nat) (k : Ack.Key) (st : Stored) (m : Ack.Msg) (c : String) (pk : Pkt)
    (hf : WFrame pcore w w1) (hi : i < w.nodes.length)
    (hk : Ack.msgFind k (w1.node i).acks.msgs = none) :
    ArmedAt w ((w1.setNode i { w1.node i with
        acks := { msgs := (w1.node i).acks.msgs ++ [(k, m)], timeouts := Ack.pqInsert k m.deadline (w1.node i).acks.timeouts },
        stored := (w1.node i).stored ++ [(k, st)] }).emit c pk) i k st := by
  obtain ⟨h1, h2, h3⟩ := pcore_eq (hf.2 i)
  have hi1 : i < w1.nodes.length := by rw [hf.1]; exact hi
  refine ⟨hi, by rw [← h1]; exact hk, ⟨m, ?_⟩, ?_, ?_, fun j hj => ?_⟩
  · show ((w1.setNode i _).node i).acks = _
    rw [AgentA.node_setNode_self _ _ _ hi1, ← h1]
  · show ((w1.setNode i _).node i).stored = _
    rw [AgentA.node_setNode_self _ _ _ hi1, ← h2]
  · show ((w1.setNode i _).node i).pool = _
    rw [AgentA.node_setNode_self _ _ _ hi1, ← h3]
  · show pcore ((w1.setNode i _).node j) = _
    rw [AgentA.node_setNode_ne _ _ _ _ hj]
    exact hf.2 j

theorem armAndSend_cases (w : World) (i : Nat) (st : Stored) :
    WFrame pcore w (w.armAndSend i st) ∨
    ∃ sid mid, st.out? = some (sid, mid) ∧ ArmedAt w (w.armAndSend i st) i (Ack.hashKey sid mid) st := by
  unfold World.armAndSend
  cases st with
  | out1 sid topic payload retain dup mid =>
    simp only []
    split
    · exact Or.inl (WFrame.refl _ w)
    · rename_i s hs
      have hf := f_extendDeadline w i sid
      rcases Ack.insert_cases ((w.extendDeadline i sid).node i).acks sid .publish 1 mid (ackDeadline (w.extendDeadline i sid))
        with ⟨_, h2, _⟩ | ⟨st', _, hnone, heq⟩
      · rw [if_neg h2]; exact Or.inl hf
      · rw [heq]
        simp only [if_true]
        exact Or.inr ⟨sid, mid, rfl, armedAt_of w _ i _ _ _ _ _ hf (sess_lt hs) hnone⟩
  | out2 sid topic payload retain dup mid =>
    simp only []
    split
    · exact Or.inl (WFrame.refl _ w)
    · rename_i s hs
      have hf := f_extendDeadline w i sid
      rcases Ack.insert_cases ((w.extendDeadline i sid).node i).acks sid .publish 2 mid (ackDeadline (w.extendDeadline i sid))
        with ⟨_, h2, _⟩ | ⟨st', _, hnone, heq⟩
      · rw [if_neg h2]; exact Or.inl hf
      · rw [heq]
        simp only [if_true]
        exact Or.inr ⟨sid, mid, rfl, armedAt_of w _ i _ _ _ _ _ hf (sess_lt hs) hnone⟩
  | rel sid mid =>
    simp only []
    split
    · exact Or.inl (WFrame.refl _ w)
    · rename_i s hs
      have hf := f_extendDeadline w i sid
      rcases Ack.insert_cases ((w.extendDeadline i sid).node i).acks sid .pubrel 0 mid (ackDeadline (w.extendDeadline i sid))
        with ⟨_, h2, _⟩ | ⟨st', _, hnone, heq⟩
      · rw [if_neg h2]
        refine Or.inl (WFrame.after (WFrame.emit _ _ _ _) (WFrame.after ?_ hf))
        exact WFrame.setNode _ _ _ rfl
      · rw [heq]
        simp only [if_true]
        exact Or.inr ⟨sid, mid, rfl, armedAt_of w _ i _ _ _ _ _ hf (sess_lt hs) hnone⟩
  | inbound a b c d => exact Or.inl (WFrame.refl _ w)

/-- the invariant after one new exchange was armed on node i -/
theorem wpi_armedAt {w w' : World} {i : Nat} {k : Ack.Key} {st : Stored} (h : WorldPoolInv w)
    (ha : ArmedAt w w' i k st)
    (hout : ∀ sid mid, st.out? = some (sid, mid) →
      k = Ack.hashKey sid mid ∧ ¬ IdPool.freeIn (w.node i).pool.ivs mid ∧ Unheld (w.node i) mid)
    (hin : ∀ s c p mid, st = Stored.inbound s c p mid → k = Ack.hashKey (s ++ "/in") mid) :
    WorldPoolInv w' := by
  obtain ⟨_, hk, ⟨m, ha1⟩, ha2, ha3, hj⟩ := ha
  intro j
  by_cases e : j = i
  · subst e
    refine ((h j).arm k m st hk hout hin).congr ?_
    simp only [pcore, ha1, ha2, ha3]
  · exact (h j).congr (hj j e)

/-- `armAndSend` for an exchange whose identifier is reserved (not free) and not held by another callback -/
theorem armAndSend_inv (w : World) (i : Nat) (st : Stored) (h : WorldPoolInv w)
    (hres : ∀ sid mid, st.out? = some (sid, mid) →
      ¬ IdPool.freeIn (w.node i).pool.ivs mid ∧ Unheld (w.node i) mid) :
    WorldPoolInv (w.armAndSend i st) := by
  rcases armAndSend_cases w i st with hf | ⟨sid, mid, ho, ha⟩
  · exact wpi_frame hf h
  · refine wpi_armedAt h ha ?_ ?_
    · intro sid' mid' ho'
      rw [ho] at ho'
      cases ho'
      exact ⟨rfl, hres sid mid ho⟩
    · intro s c p mid' e
      rw [e] at ho
      cases ho

/-! ### poolPut, sendArmed, send -/

theorem poolPut_inv (w : World) (i : Nat) (mid : Int) (h : WorldPoolInv w) (hu : Unheld (w.node i) mid) :
    WorldPoolInv (w.poolPut i mid) := by
  unfold World.poolPut
  exact wpi_setNode h i _ ((h i).put mid hu)

theorem sendArmed_inv (w : World) (i : Nat) (st : Stored) (sid : String) (mid : Int) (h : WorldPoolInv w)
    (ho : st.out? = some (sid, mid))
    (hfree : ¬ IdPool.freeIn (w.node i).pool.ivs mid) (hu : Unheld (w.node i) mid) :
    WorldPoolInv (w.sendArmed i st sid mid) := by
  have hinv := armAndSend_inv w i st h (fun sid' mid' ho' => by
    rw [ho] at ho'; cases ho'; exact ⟨hfree, hu⟩)
  unfold World.sendArmed
  simp only []
  split
  · rename_i hc
    rcases armAndSend_cases w i st with hf | ⟨sid', mid', _, ha⟩
    · refine poolPut_inv _ i mid hinv ?_
      exact hu.congr (pcore_eq (hf.2 i)).2.1
    · exfalso
      obtain ⟨_, _, ⟨m, ha1⟩, _⟩ := ha
      rw [ha1] at hc
      simp at hc
  · exact hinv

theorem send_inv (i : Nat) (p : Pub) (rcpt : List (String × Int)) :
    ∀ w : World, WorldPoolInv w → WorldPoolInv (w.send i rcpt p) := by
  induction rcpt with
  | nil => intro w h; exact h
  | cons hd rest ih =>
    intro w h
    obtain ⟨sid, qos⟩ := hd
    unfold World.send
    simp only []
    split
    · exact ih w h
    · rename_i s hs
      have hi := sess_lt hs
      split
      · exact ih _ (wpi_emit (wpi_frame (f_extendDeadline w i sid) h) _ _)
      · split
        · split
          · exact h
          · rename_i hpos
            have hg := (h i).get
            have hpos' : 0 < (IdPool.get (w.node i).pool).2 := by omega
            apply ih
            have hw2 : WorldPoolInv (w.setNode i { w.node i with pool := (IdPool.get (w.node i).pool).1 }) :=
              wpi_setNode h i _ hg.1
            have hn2 : (w.setNode i { w.node i with pool := (IdPool.get (w.node i).pool).1 }).node i =
                { w.node i with pool := (IdPool.get (w.node i).pool).1 } := AgentA.node_setNode_self _ _ _ hi
            refine sendArmed_inv _ i _ sid _ hw2 ?_ ?_ ?_
            · split <;> rfl
            · rw [hn2]; exact (hg.2 hpos').2
            · rw [hn2]; exact (hg.2 hpos').1
        · exact ih w h

theorem deliverLocal_inv (w : World) (j : Nat) (p : Pub) (h : WorldPoolInv w) : WorldPoolInv (w.deliverLocal j p) := by
  unfold World.deliverLocal
  exact send_inv _ _ _ _ h


/-! ### onResolved -/

theorem onResolved_inv (w : World) (i : Nat) (ev : Ack.Resolved) (st : Stored) (h : WorldPoolInv w)
    (hres : ∀ sid mid, st.out? = some (sid, mid) →
      ¬ IdPool.freeIn (w.node i).pool.ivs mid ∧ Unheld (w.node i) mid) :
    WorldPoolInv (w.onResolved i ev st) := by
  cases st with
  | out1 sid t pl r d mid =>
    simp only [World.onResolved]
    split
    · exact armAndSend_inv w i _ h hres
    · exact poolPut_inv w i mid h (hres sid mid rfl).2
  | out2 sid t pl r d mid =>
    simp only [World.onResolved]
    split
    · exact poolPut_inv w i mid h (hres sid mid rfl).2
    · split
      · exact armAndSend_inv w i _ h hres
      · refine armAndSend_inv w i _ h ?_
        intro sid' mid' ho
        cases ho
        exact hres sid mid rfl
  | rel sid mid =>
    simp only [World.onResolved]
    split
    · exact armAndSend_inv w i _ h hres
    · exact poolPut_inv w i mid h (hres sid mid rfl).2
  | inbound a b c d => exact h

theorem poolPut_acks (w : World) (i : Nat) (mid : Int) (j : Nat) :
    ((w.poolPut i mid).node j).acks = (w.node j).acks := by
  unfold World.poolPut
  rw [AgentA.node_setNode]
  split
  · rename_i hc; rw [hc.1]
  · rfl

/-- `armAndSend` touches at most the key of its own exchange -/
theorem armAndSend_otherKeys (w : World) (i : Nat) (st : Stored) {sid : String} {mid : Int}
    (ho : st.out? = some (sid, mid)) (k' : Ack.Key) (hk : k' ≠ Ack.hashKey sid mid) :
    Ack.msgFind k' ((w.armAndSend i st).node i).acks.msgs = Ack.msgFind k' (w.node i).acks.msgs := by
  rcases armAndSend_cases w i st with hf | ⟨sid', mid', ho', ha⟩
  · rw [(pcore_eq (hf.2 i)).1]
  · rw [ho] at ho'
    cases ho'
    obtain ⟨_, _, ⟨m, ha1⟩, _⟩ := ha
    rw [ha1]
    simp only []
    rw [Ack.msgFind_append]
    cases Ack.msgFind k' (w.node i).acks.msgs with
    | some x => rfl
    | none => simp [Ack.msgFind, Ne.symm hk]

theorem onResolved_otherKeys (w : World) (i : Nat) (ev : Ack.Resolved) (st : Stored) {sid : String} {mid : Int}
    (ho : st.out? = some (sid, mid)) (k' : Ack.Key) (hk : k' ≠ Ack.hashKey sid mid) :
    Ack.msgFind k' ((w.onResolved i ev st).node i).acks.msgs = Ack.msgFind k' (w.node i).acks.msgs := by
  cases st with
  | out1 sid0 t pl r d mid0 =>
    cases ho
    simp only [World.onResolved]
    split
    · exact armAndSend_otherKeys w i _ rfl k' hk
    · rw [poolPut_acks]
  | out2 sid0 t pl r d mid0 =>
    cases ho
    simp only [World.onResolved]
    split
    · rw [poolPut_acks]
    · split
      · exact armAndSend_otherKeys w i _ rfl k' hk
      · exact armAndSend_otherKeys w i (.rel sid mid) rfl k' hk
  | rel sid0 mid0 =>
    cases ho
    simp only [World.onResolved]
    split
    · exact armAndSend_otherKeys w i _ rfl k' hk
    · rw [poolPut_acks]
  | inbound a b c d => cases ho

/-! ### resolutions: the loop of `sweep` -/

theorem stored_lt {w : World} {i : Nat} {e : Ack.Key × Stored} (h : e ∈ (w.node i).stored) : i < w.nodes.length := by
  by_cases hc : i < w.nodes.length
  · exact hc
  · rw [AgentD.node_oob w i (by omega)] at h
    simp at h

/-- one resolution as `sweep` handles it -/
def resolveStep (i : Nat) (w : World) (ev : Ack.Resolved) : World :=
  match storedFind ev.key (w.node i).stored with
  | none => w
  | some st => (w.setNode i { w.node i with stored := storedErase ev.key (w.node i).stored }).onResolved i ev st

/-- taking the callback of a resolved OUTBOUND exchange out and reacting to the resolution -/
theorem resolveOut_inv (w : World) (i : Nat) (ev : Ack.Resolved) (st : Stored) (h : WorldPoolInv w)
    (hk : Ack.msgFind ev.key (w.node i).acks.msgs = none) (hst : storedFind ev.key (w.node i).stored = some st) :
    WorldPoolInv ((w.setNode i { w.node i with stored := storedErase ev.key (w.node i).stored }).onResolved i ev st) ∧
    ∀ k', k' ≠ ev.key →
      Ack.msgFind k' (((w.setNode i { w.node i with stored := storedErase ev.key (w.node i).stored }).onResolved i ev st).node i).acks.msgs
        = Ack.msgFind k' (w.node i).acks.msgs := by
  have hm := storedFind_mem hst
  have hi := stored_lt hm
  have hn0 : (w.setNode i { w.node i with stored := storedErase ev.key (w.node i).stored }).node i =
      { w.node i with stored := storedErase ev.key (w.node i).stored } := AgentA.node_setNode_self _ _ _ hi
  have h0 : WorldPoolInv (w.setNode i { w.node i with stored := storedErase ev.key (w.node i).stored }) :=
    wpi_setNode h i _ ((h i).eraseStored ev.key hk)
  constructor
  · refine onResolved_inv _ i ev st h0 ?_
    intro sid mid ho
    have hr := (h i).erased_reserved hm ho
    rw [hn0]
    exact ⟨hr.2.1, hr.2.2⟩
  · intro k' hk'
    cases ho : st.out? with
    | none =>
      cases st with
      | inbound a b c d => show Ack.msgFind k' ((w.setNode i _).node i).acks.msgs = _; rw [hn0]
      | out1 a b c d e f => cases ho
      | out2 a b c d e f => cases ho
      | rel a b => cases ho
    | some sm =>
      obtain ⟨sid, mid⟩ := sm
      have hr := (h i).erased_reserved hm ho
      rw [onResolved_otherKeys _ i ev st ho k' (by rw [← hr.1]; exact hk'), hn0]

theorem resolveStep_inv (w : World) (i : Nat) (ev : Ack.Resolved) (h : WorldPoolInv w)
    (hk : Ack.msgFind ev.key (w.node i).acks.msgs = none) :
    WorldPoolInv (resolveStep i w ev) ∧
    ∀ k', k' ≠ ev.key → Ack.msgFind k' ((resolveStep i w ev).node i).acks.msgs = Ack.msgFind k' (w.node i).acks.msgs := by
  unfold resolveStep
  split
  · exact ⟨h, fun _ _ => rfl⟩
  · rename_i st hst
    exact resolveOut_inv w i ev st h hk hst

theorem resolveFold_inv (i : Nat) (evs : List Ack.Resolved) : ∀ w : World, WorldPoolInv w →
    (evs.map (·.key)).Nodup → (∀ ev ∈ evs, Ack.msgFind ev.key (w.node i).acks.msgs = none) →
    WorldPoolInv (evs.foldl (resolveStep i) w) := by
  induction evs with
  | nil => intro w h _ _; exact h
  | cons ev rest ih =>
    intro w h hnd hnone
    simp only [List.foldl_cons]
    have hs := resolveStep_inv w i ev h (hnone ev List.mem_cons_self)
    simp only [List.map_cons, List.nodup_cons, List.mem_map, not_exists, not_and] at hnd
    refine ih _ hs.1 hnd.2 ?_
    intro ev' hev'
    rw [hs.2 ev'.key (fun e => hnd.1 ev' hev' e)]
    exact hnone ev' (List.mem_cons_of_mem _ hev')

theorem sweep_eq (w : World) (i : Nat) :
    w.sweep i =
      (Ack.expire (w.node i).acks (((w.epoch : Int) + 1) * 10000)).2.foldl (resolveStep i)
        (({ w with epoch := w.epoch + 1 } : World).setNode i
          { w.node i with acks := (Ack.expire (w.node i).acks (((w.epoch : Int) + 1) * 10000)).1 }) := by
  rfl


theorem sweep_inv (w : World) (i : Nat) (h : WorldPoolInv w) : WorldPoolInv (w.sweep i) := by
  rw [sweep_eq]
  have he := (h i).expire (((w.epoch : Int) + 1) * 10000)
  have h0 : WorldPoolInv ({ w with epoch := w.epoch + 1 } : World) := wpi_of_nodes rfl h
  refine resolveFold_inv i _ _ (wpi_setNode h0 i _ he.1) he.2.1 ?_
  intro ev hev
  rw [AgentA.node_setNode]
  split
  · exact he.2.2 ev hev
  · rename_i hc
    have hge : w.nodes.length ≤ i := by
      have : ¬ i < w.nodes.length := fun hlt => hc ⟨rfl, hlt⟩
      omega
    have : ({ w with epoch := w.epoch + 1 } : World).node i = w.node i := rfl
    rw [this, AgentD.node_oob w i hge]
    rfl

/-! ### the publish pipeline -/

theorem appendLog_pcore (n : Node) (p : Pub) : pcore (n.appendLog p).1 = pcore n := by
  unfold Node.appendLog
  simp only []
  split <;> rfl

theorem distribute_inv (w : World) (i : Nat) (p : Pub) (h : WorldPoolInv w) : WorldPoolInv (w.distribute i p).1 := by
  unfold World.distribute
  simp only []
  generalize dedupNat _ = peers
  have key : ∀ (l : List Nat) (acc : World × Bool), WorldPoolInv acc.1 →
      WorldPoolInv (l.foldl (fun (acc : World × Bool) peer =>
        match acc with
        | (w, ok) =>
        match nodeIndexOfPeer w peer with
        | none => (w, false)
        | some j =>
          let nj := w.node j
          if j ≠ i ∧ (nj.failed ∨ nj.unreachable) then (w, false)
          else
            match nj.appendLog p with
            | (nj', stored) =>
            let w := w.setNode j nj'
            if stored then (w.deliverLocal j p, ok) else (w, false)) acc).1 := by
    intro l
    induction l with
    | nil => intro acc h; exact h
    | cons peer rest ih =>
      intro acc h
      obtain ⟨w', ok⟩ := acc
      simp only [List.foldl_cons]
      apply ih
      split
      · exact h
      · split
        · exact h
        · split
          · exact deliverLocal_inv _ _ _ (wpi_frame (WFrame.setNode _ _ _ (appendLog_pcore _ _)) h)
          · exact wpi_frame (WFrame.setNode _ _ _ (appendLog_pcore _ _)) h
  exact key peers (w, true) h

theorem retainStep_inv (w : World) (i : Nat) (p : Pub) (h : WorldPoolInv w) : WorldPoolInv (AgentD.retainStep w i p) := by
  unfold AgentD.retainStep
  split
  · exact wpi_frame (WFrame.after (f_broadcast _ _ _) (WFrame.after (WFrame.setNode _ _ _ rfl) (AgentA.tick_frame pcore w))) h
  · exact h

theorem publishJob_inv (w : World) (i : Nat) (p : Pub) (onOk : World → World) (h : WorldPoolInv w)
    (hok : ∀ w, WorldPoolInv w → WorldPoolInv (onOk w)) : WorldPoolInv (w.publishJob i p onOk) := by
  rw [AgentD.publishJob_eq]
  have h1 := distribute_inv _ i { p with retain := false } (retainStep_inv w i p h)
  split
  · exact hok _ h1
  · exact h1

/-! ### acknowledgements -/

theorem ackFrom_inv (w : World) (i : Nat) (pfx : String) (kind : Ack.PType) (mid : Int) (h : WorldPoolInv w) :
    WorldPoolInv (w.ackFrom i pfx kind mid) := by
  unfold World.ackFrom
  simp only []
  rcases Ack.ack_cases (w.node i).acks pfx kind true mid with ⟨h1, _, _⟩ | ⟨_, m, hm, _, heq⟩
  · rw [h1]
    simp only [List.foldl_nil]
    exact wpi_frame (WFrame.setNode _ _ _ rfl) h
  · rw [heq]
    simp only [List.foldl_cons, List.foldl_nil]
    have ha := (h i).ackErase _ m hm
    generalize hw1 : w.setNode i { w.node i with acks :=
      { msgs := Ack.msgErase (Ack.hashKey pfx mid) (w.node i).acks.msgs,
        timeouts := (Ack.pqDelete (Ack.hashKey pfx mid) m.deadline (w.node i).acks.timeouts).1 } } = w1
    have h1 : WorldPoolInv w1 := by rw [← hw1]; exact wpi_setNode h i _ ha.1
    have hk : Ack.msgFind (Ack.hashKey pfx mid) (w1.node i).acks.msgs = none := by
      rw [← hw1, AgentA.node_setNode]
      split
      · exact ha.2
      · rename_i hc
        have hge : w.nodes.length ≤ i := by
          have : ¬ i < w.nodes.length := fun hlt => hc ⟨rfl, hlt⟩
          omega
        rw [AgentD.node_oob w i hge]
        rfl
    split
    · exact h1
    · rename_i st hst
      cases st with
      | inbound a b c d =>
        refine publishJob_inv _ _ _ _ (wpi_setNode h1 i _ ((h1 i).eraseStored _ hk)) ?_
        intro w' hw'
        exact wpi_emit hw' _ _
      | out1 a b c d e f => exact (resolveOut_inv w1 i ⟨Ack.hashKey pfx mid, false, m.stored⟩ _ h1 hk hst).1
      | out2 a b c d e f => exact (resolveOut_inv w1 i ⟨Ack.hashKey pfx mid, false, m.stored⟩ _ h1 hk hst).1
      | rel a b => exact (resolveOut_inv w1 i ⟨Ack.hashKey pfx mid, false, m.stored⟩ _ h1 hk hst).1


/-! ### packets from clients -/

theorem process_inv (w : World) (i : Nat) (sid : String) (pkt : CPkt) (h : WorldPoolInv w) :
    WorldPoolInv (w.process i sid pkt).1 := by
  unfold World.process
  simp only []
  split
  · exact h
  · rename_i s hs
    cases pkt with
    | connect => exact h
    | publish topic payload qos retain dup mid =>
      simp only []
      split
      · exact publishJob_inv _ _ _ _ h (fun _ h => h)
      · split
        · exact publishJob_inv _ _ _ _ h (fun w h => wpi_emit h _ _)
        · split
          · rcases Ack.insert_cases (w.node i).acks (sid ++ "/in") .pubrec 0 mid (ackDeadline w)
              with ⟨_, h2, _⟩ | ⟨st', _, hnone, heq⟩
            · rw [if_neg h2]; exact h
            · rw [heq]
              simp only [if_true]
              apply wpi_emit
              apply wpi_setNode h
              exact (h i).arm _ _ _ hnone (by intro sid mid ho; cases ho) (by intro s c p m e; cases e; rfl)
          · exact h
    | subscribe mid topics =>
      simp only []
      refine AgentD.foldl_inv WorldPoolInv _ _ _ ?_ ?_
      · apply wpi_emit
        refine AgentD.foldl_inv WorldPoolInv _ _ _ h ?_
        intro b a _ hb
        have hb1 := wpi_frame (f_subCreate b i sid a.1 a.2) hb
        split
        · split
          · exact hb1
          · exact wpi_frame (WFrame.setNode _ _ _ rfl) hb1
        · exact hb1
      · intro b a _ hb
        refine AgentD.foldl_inv WorldPoolInv _ _ _ hb ?_
        intro b' r _ hb'
        exact send_inv _ _ _ _ hb'
    | unsubscribe mid topics =>
      simp only []
      apply wpi_emit
      refine AgentD.foldl_inv WorldPoolInv _ _ _ h ?_
      intro b a _ hb
      have hb1 := wpi_frame (f_subDelete b i sid (prefixMountPoint s.mount a)) hb
      split
      · exact wpi_frame (WFrame.setNode _ _ _ rfl) hb1
      · exact hb1
    | puback mid => exact ackFrom_inv _ _ _ _ _ h
    | pubrec mid => exact ackFrom_inv _ _ _ _ _ h
    | pubrel mid => exact ackFrom_inv _ _ _ _ _ h
    | pubcomp mid => exact ackFrom_inv _ _ _ _ _ h
    | pingreq =>
      simp only
      split
      · split
        · exact wpi_emit h _ _
        · exact h
      · exact h
      · split
        · exact wpi_emit h _ _
        · exact h
    | disconnect => exact h
    | other => exact h

/-! ### session end, connect, drop -/

theorem tdBase_inv (w : World) (i : Nat) (s : Sess) (h : WorldPoolInv w) : WorldPoolInv (AgentD.tdBase w i s) := by
  unfold AgentD.tdBase
  simp only
  refine AgentD.foldl_inv WorldPoolInv _ _ _ ?_ ?_
  · refine wpi_of_nodes (w := (w.setNode i { w.node i with reg := (w.node i).reg.filter (fun x => x.id != s.id) }).emit s.conn .closed) rfl ?_
    apply wpi_emit
    apply wpi_setNode_core h
    rfl
  · intro b a _ hb
    exact wpi_frame (f_subDelete b i s.id a) hb

theorem teardown_inv (w : World) (i : Nat) (s : Sess) (h : WorldPoolInv w) : WorldPoolInv (teardown w i s).1 := by
  rw [AgentD.teardown_eq]
  have hb := tdBase_inv w i s h
  split
  · exact wpi_frame (f_sessDelete _ _ _) hb
  · exact hb

theorem shutdownSession_inv (w : World) (i : Nat) (sid : String) (h : WorldPoolInv w) :
    WorldPoolInv (w.shutdownSession i sid) := by
  cases hs : (w.node i).sess sid with
  | none => unfold World.shutdownSession; simp only [hs]; exact h
  | some s =>
    rw [AgentD.shutdown_eq w i sid s hs]
    have ht := teardown_inv w i s h
    split
    · exact ht
    · split
      · exact ht
      · split
        · exact ht
        · exact publishJob_inv _ _ _ _ ht (fun _ h => h)

theorem clientPacket_inv (w : World) (conn : String) (pkt : CPkt) (h : WorldPoolInv w) :
    WorldPoolInv (w.clientPacket conn pkt) := by
  unfold World.clientPacket
  split
  · exact h
  · rename_i c i hc
    simp only []
    split
    · exact h
    · have hp := process_inv w i ("S" ++ conn) pkt h
      generalize w.process i ("S" ++ conn) pkt = r at hp
      obtain ⟨w', res⟩ := r
      simp only at hp ⊢
      cases res with
      | ok => exact wpi_frame (f_extendDeadline _ _ _) hp
      | disconnected =>
        simp only []
        apply shutdownSession_inv
        split
        · exact wpi_frame (WFrame.setNode _ _ _ rfl) hp
        · exact hp
      | error => exact shutdownSession_inv _ _ _ hp

theorem connPre_inv (w : World) (c : String) (i : Nat) (client mount : String) (h : WorldPoolInv w) :
    WorldPoolInv (AgentD.connPre w c i client mount) := by
  unfold AgentD.connPre
  simp only
  have h0 : WorldPoolInv ({ w with conns := (w.conns.filter (fun (c' : String × Nat) => c'.1 != c)) ++ [(c, i)] } : World) :=
    wpi_of_nodes rfl h
  split
  · exact wpi_frame (f_sessDelete _ _ _) h0
  · exact h0

theorem connMid_inv (w : World) (c : String) (i : Nat) (client mount : String) (will : Option Will) (h : WorldPoolInv w) :
    WorldPoolInv (AgentD.connMid w c i client mount will) := by
  unfold AgentD.connMid
  simp only
  have h1 : WorldPoolInv (AgentD.connPre w c i client mount).tick.1 :=
    wpi_frame (AgentA.tick_frame pcore _) (connPre_inv w c i client mount h)
  split
  · exact wpi_frame (WFrame.after (f_broadcast _ _ _) (WFrame.setNode _ _ _ rfl)) h1
  · exact wpi_frame (WFrame.setNode _ _ _ rfl) h1

theorem connect_inv (w : World) (conn : String) (i : Nat) (client mount : String) (authOk : Bool) (keepalive : Nat)
    (will : Option Will) (h : WorldPoolInv w) :
    WorldPoolInv (w.connect conn i client mount authOk keepalive will) := by
  cases authOk with
  | false =>
    unfold World.connect
    simp only [Bool.not_false, if_true]
    exact wpi_of_nodes rfl h
  | true =>
    rw [AgentD.connect_eq]
    split
    · exact wpi_emit (wpi_frame (AgentA.tick_frame pcore _) (connPre_inv w conn i client mount h)) _ _
    · simp only
      apply wpi_emit
      apply wpi_setNode_core (connMid_inv w conn i client mount will h)
      rfl

theorem drop_inv (w : World) (conn : String) (h : WorldPoolInv w) : WorldPoolInv (w.drop conn) := by
  unfold World.drop
  split
  · exact h
  · simp only []
    have h0 : WorldPoolInv ({ w with conns := w.conns.filter (fun c => c.1 != conn) } : World) := wpi_of_nodes rfl h
    split
    · exact shutdownSession_inv _ _ _ h0
    · exact wpi_emit h0 _ _

/-! ### gossip, node failure, time -/

theorem deliverGossip_inv (w : World) (src dst : Nat) (h : WorldPoolInv w) : WorldPoolInv (w.deliverGossip src dst) := by
  unfold World.deliverGossip
  simp only []
  have h1 := wpi_frame (WFrame.setNode w src { w.node src with pending := (w.node src).pending.filter (fun e => e.1 != dst) } rfl) h
  split
  · exact h1
  · exact wpi_frame (WFrame.setNode _ _ _ rfl) h1

theorem gossipRound_inv (w : World) (h : WorldPoolInv w) : WorldPoolInv w.gossipRound := by
  unfold World.gossipRound
  simp only []
  refine AgentD.foldl_inv WorldPoolInv _ _ _ h ?_
  intro b a _ hb
  refine AgentD.foldl_inv WorldPoolInv _ _ _ hb ?_
  intro b' a' _ hb'
  split
  · exact deliverGossip_inv _ _ _ hb'
  · exact hb'

theorem gossipAll_inv (w : World) (h : WorldPoolInv w) : WorldPoolInv w.gossipAll := by
  unfold World.gossipAll
  exact AgentD.foldl_inv WorldPoolInv _ _ _ h (fun b _ _ hb => gossipRound_inv b hb)

theorem leaveStep_inv (i : Nat) (w : World) (s : SessionMD) (h : WorldPoolInv w) : WorldPoolInv (AgentA.leaveStep i w s) := by
  unfold AgentA.leaveStep
  split
  · exact h
  · simp only []
    have h1 := fun p => wpi_frame (WFrame.setNode w i ((w.node i).appendLog p).1 (appendLog_pcore _ _)) h
    split
    · exact deliverLocal_inv _ _ _ (h1 _)
    · exact h1 _

theorem notifyLeave_inv (w : World) (i : Nat) (peer : Nat) (h : WorldPoolInv w) : WorldPoolInv (w.notifyLeave i peer) := by
  rw [AgentA.notifyLeave_eq]
  simp only
  have h1 : WorldPoolInv (AgentA.leavePrefix w i peer) := by
    unfold AgentA.leavePrefix
    exact wpi_frame (WFrame.after (f_broadcast _ _ _) (WFrame.after (WFrame.setNode _ _ _ rfl) (AgentA.tick_frame pcore w))) h
  refine wpi_frame (WFrame.setNode _ _ _ rfl) ?_
  exact AgentD.foldl_inv WorldPoolInv _ _ _ h1 (fun b a _ hb => leaveStep_inv i b a hb)

theorem nodeFail_inv (w : World) (f : Nat) (h : WorldPoolInv w) : WorldPoolInv (w.nodeFail f) := by
  unfold World.nodeFail
  simp only []
  refine AgentD.foldl_inv WorldPoolInv _ _ _ ?_ ?_
  · refine AgentD.foldl_inv WorldPoolInv _ _ _ ?_ (fun b a _ hb => wpi_emit hb _ _)
    refine wpi_of_nodes (w := w.setNode f { w.node f with failed := true, reg := [], pending := [] }) rfl ?_
    exact wpi_frame (WFrame.setNode _ _ _ rfl) h
  · intro b a _ hb
    split
    · exact notifyLeave_inv _ _ _ hb
    · exact hb

theorem idleTimers_inv (w : World) (i : Nat) (h : WorldPoolInv w) : WorldPoolInv (AgentD.idleTimers w i) := by
  unfold AgentD.idleTimers
  simp only []
  refine AgentD.foldl_inv WorldPoolInv _ _ _ (wpi_frame (WFrame.setNode _ _ _ rfl) h) ?_
  intro b a _ hb
  exact wpi_frame (WFrame.after (f_broadcast _ _ _) (WFrame.after (WFrame.setNode _ _ _ rfl) (AgentA.tick_frame pcore b))) hb

theorem idleNode_inv (w : World) (i : Nat) (h : WorldPoolInv w) : WorldPoolInv (AgentD.idleNode w i) := by
  unfold AgentD.idleNode
  split
  · exact h
  · refine AgentD.foldl_inv WorldPoolInv _ _ _ (idleTimers_inv w i h) ?_
    intro b a _ hb
    split
    · split
      · exact shutdownSession_inv _ _ _ hb
      · exact hb
    · exact hb

theorem idle_inv (w : World) (ms : Int) (h : WorldPoolInv w) : WorldPoolInv (w.idle ms) := by
  rw [AgentD.idle_eq]
  refine AgentD.foldl_inv WorldPoolInv _ _ _ (wpi_of_nodes (w := w) rfl h) ?_
  intro b a _ hb
  exact idleNode_inv b a hb

end Wasp.Broker.AgentT3

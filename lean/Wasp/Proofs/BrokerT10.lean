import Wasp.Model.BrokerOps
import Wasp.Proofs.BrokerT8
import Wasp.Proofs.BrokerT9
import Wasp.Properties.C07
import Wasp.Properties.C17
/-! helper lemmas for Wasp/Properties/E2ERetainWill.lean (agent T10) -/
namespace Wasp.Broker.AgentT10
open Wasp.Broker Wasp.Dist Wasp.Topic Wasp.Crdt

/-! ### the retained store -/

/-- shape of a node's retained store: one entry per topic, every message stored under its own topic, and every
    topic contains a '/' (it was stored as `prefixMountPoint mount name`) -/
structure TopOK (m : List (String × Retained)) : Prop where
  nodup : (m.map (·.1)).Nodup
  own : ∀ kr ∈ m, kr.2.topic = kr.1
  slash : ∀ kr ∈ m, '/' ∈ kr.1.toList

theorem topOK_nil : TopOK [] := ⟨by simp, (fun _ h => by cases h), (fun _ h => by cases h)⟩

theorem mem_topicsAssign {t : String} {r : Retained} {m : List (String × Retained)} {kr : String × Retained}
    (h : kr ∈ topicsAssign t r m) : kr = (t, r) ∨ kr ∈ m := by
  induction m with
  | nil => simp [topicsAssign] at h; exact Or.inl h
  | cons x rest ih =>
    obtain ⟨k, r'⟩ := x
    simp only [topicsAssign] at h
    split at h
    · rcases List.mem_cons.mp h with h | h
      · exact Or.inl h
      · exact Or.inr (List.mem_cons_of_mem _ h)
    · rcases List.mem_cons.mp h with h | h
      · exact Or.inr (h ▸ List.mem_cons_self ..)
      · rcases ih h with h | h
        · exact Or.inl h
        · exact Or.inr (List.mem_cons_of_mem _ h)

theorem TopOK.assign {m : List (String × Retained)} (h : TopOK m) (t : String) (r : Retained) (hr : r.topic = t)
    (hs : '/' ∈ t.toList) : TopOK (topicsAssign t r m) := by
  refine ⟨topicsAssign_nodup t r m h.nodup, fun kr hkr => ?_, fun kr hkr => ?_⟩
  · rcases mem_topicsAssign hkr with e | hm
    · subst e; exact hr
    · exact h.own kr hm
  · rcases mem_topicsAssign hkr with e | hm
    · subst e; exact hs
    · exact h.slash kr hm

/-- two entries of a well-shaped store with the same key are the same entry -/
theorem TopOK.key_inj {m : List (String × Retained)} (h : TopOK m) {a b : String × Retained} (ha : a ∈ m) (hb : b ∈ m)
    (hk : a.1 = b.1) : a = b := by
  have hn := h.nodup
  clear h
  induction m with
  | nil => cases ha
  | cons x rest ih =>
    simp only [List.map_cons, List.nodup_cons] at hn
    rcases List.mem_cons.mp ha with ha | ha <;> rcases List.mem_cons.mp hb with hb | hb
    · rw [ha, hb]
    · exfalso; apply hn.1; rw [← ha, hk]; exact List.mem_map_of_mem (f := (·.1)) hb
    · exfalso; apply hn.1; rw [← hb, ← hk]; exact List.mem_map_of_mem (f := (·.1)) ha
    · exact ih ha hb hn.2

/-! ### topic names inside a mount point -/

/-- a stored topic that contains a '/' and is matched by a filter inside mount point `m` lies inside `m`:
    it is the mount-prefixed form of what `trimMountPoint` returns -/
theorem key_of_match (m K f : String) (hwf : wfMount m) (hs : '/' ∈ K.toList)
    (hmatch : mqttMatch (levels (prefixMountPoint m f)) (levels K) = true) :
    K = prefixMountPoint m (trimMountPoint m K) := by
  rw [C17_prefix_levels m f hwf] at hmatch
  have hj := joinL_levels K
  cases hl : levels K with
  | nil =>
    rw [hl] at hj
    simp only [joinL] at hj
    rw [← hj] at hs; cases hs
  | cons a rest =>
    rw [hl, AgentA.match_cons_lit _ _ _ _ hwf.2.2.1 hwf.2.2.2] at hmatch
    simp only [Bool.and_eq_true, beq_iff_eq] at hmatch
    obtain ⟨hma, _⟩ := hmatch
    subst hma
    rw [hl] at hj
    simp only [joinL] at hj
    by_cases hr : rest = []
    · simp only [hr, if_true, List.append_nil] at hj
      rw [← hj] at hs
      exact absurd hs hwf.2.1
    · simp only [hr, if_false] at hj
      apply String.toList_inj.mp
      rw [AgentA.prefix_toList]
      unfold trimMountPoint
      rw [String.toList_ofList, ← hj]
      have : m.length + 1 = (m.toList ++ ['/']).length := by simp [String.length_toList]
      rw [this, show m.toList ++ '/' :: joinL rest = (m.toList ++ ['/']) ++ joinL rest by simp, List.drop_left]
      simp

/-! ### frames through the writer and the distributor (observations that may depend on `dist` and `pending`) -/

/-- observations of a node that the writer (`send` and below) does not touch -/
structure SFrame {α : Type} (F : Node → α) : Prop where
  setSess : ∀ (n : Node) s, F (n.setSess s) = F n
  acks : ∀ (n : Node) a st, F { n with acks := a, stored := st } = F n
  pool : ∀ (n : Node) p, F { n with pool := p } = F n
  log : ∀ (n : Node) p, F (n.appendLog p).1 = F n

theorem appendLog_dist (n : Node) (p : Pub) : (n.appendLog p).1.dist = n.dist := by
  unfold Node.appendLog; simp only []; split <;> rfl

theorem SFrame.dist : SFrame (fun n : Node => n.dist) :=
  ⟨fun _ _ => rfl, fun _ _ _ => rfl, fun _ _ => rfl, appendLog_dist⟩

section sframes
open Wasp.Broker.AgentA
variable {α : Type} {F : Node → α}

theorem extendDeadline_sframe (hF : SFrame F) (w : World) (i : Nat) (sid : String) :
    WFrame F w (w.extendDeadline i sid) := by
  unfold World.extendDeadline
  simp only []
  split
  · exact WFrame.setNode _ _ _ (hF.setSess _ _)
  · exact WFrame.refl F w

theorem poolPut_sframe (hF : SFrame F) (w : World) (i : Nat) (mid : Int) : WFrame F w (w.poolPut i mid) := by
  unfold World.poolPut
  exact WFrame.setNode _ _ _ (hF.pool _ _)

theorem armAndSend_sframe (hF : SFrame F) (w : World) (i : Nat) (st : Stored) : WFrame F w (w.armAndSend i st) := by
  unfold World.armAndSend
  cases st with
  | out1 sid topic payload retain dup mid =>
    simp only []
    split
    · exact WFrame.refl F w
    · split
      · exact WFrame.after (WFrame.emit F _ _ _) (WFrame.after (WFrame.setNode _ _ _ (hF.acks _ _ _)) (extendDeadline_sframe hF _ _ _))
      · exact extendDeadline_sframe hF _ _ _
  | out2 sid topic payload retain dup mid =>
    simp only []
    split
    · exact WFrame.refl F w
    · split
      · exact WFrame.after (WFrame.emit F _ _ _) (WFrame.after (WFrame.setNode _ _ _ (hF.acks _ _ _)) (extendDeadline_sframe hF _ _ _))
      · exact extendDeadline_sframe hF _ _ _
  | rel sid mid =>
    simp only []
    split
    · exact WFrame.refl F w
    · refine WFrame.after (WFrame.emit F _ _ _) (WFrame.after (WFrame.setNode _ _ _ ?_) (extendDeadline_sframe hF _ _ _))
      split
      · exact hF.acks _ _ _
      · rfl
  | inbound a b c d => exact WFrame.refl F w

theorem sendArmed_sframe (hF : SFrame F) (w : World) (i : Nat) (st : Stored) (sid : String) (mid : Int) :
    WFrame F w (w.sendArmed i st sid mid) := by
  unfold World.sendArmed
  simp only []
  split
  · exact WFrame.after (poolPut_sframe hF _ _ _) (armAndSend_sframe hF _ _ _)
  · exact armAndSend_sframe hF _ _ _

theorem send_sframe (hF : SFrame F) (i : Nat) (p : Pub) (rcpt : List (String × Int)) :
    ∀ w : World, WFrame F w (w.send i rcpt p) := by
  induction rcpt with
  | nil => intro w; exact WFrame.refl F w
  | cons hd rest ih =>
    intro w
    obtain ⟨sid, qos⟩ := hd
    unfold World.send
    simp only []
    split
    · exact ih w
    · split
      · exact WFrame.after (ih _) (WFrame.after (WFrame.emit F _ _ _) (extendDeadline_sframe hF _ _ _))
      · split
        · split
          · exact WFrame.refl F w
          · exact WFrame.after (ih _) (WFrame.after (sendArmed_sframe hF _ _ _ _ _) (WFrame.setNode _ _ _ (hF.pool _ _)))
        · exact ih w

theorem deliverLocal_sframe (hF : SFrame F) (w : World) (j : Nat) (p : Pub) : WFrame F w (w.deliverLocal j p) := by
  unfold World.deliverLocal
  exact send_sframe hF _ _ _ _

theorem distribute_sframe (hF : SFrame F) (w : World) (i : Nat) (p : Pub) : WFrame F w (w.distribute i p).1 := by
  unfold World.distribute
  simp only
  apply AgentD.foldl_inv (P := fun (acc : World × Bool) => WFrame F w acc.1)
  · exact WFrame.refl F w
  · intro acc peer _ hacc
    split
    · exact hacc
    · split
      · exact hacc
      · split
        · exact WFrame.after (deliverLocal_sframe hF _ _ _) (WFrame.after (WFrame.setNode _ _ _ (hF.log _ _)) hacc)
        · exact WFrame.after (WFrame.setNode _ _ _ (hF.log _ _)) hacc

end sframes

/-! ### the world after a retained QoS 0 publish -/

open Wasp.Broker.AgentD Wasp.Broker.AgentA in
theorem process_publish_retained (w : World) (i : Nat) (sid : String) (s : Sess) (hs : (w.node i).sess sid = some s)
    (topic payload : String) (dup : Bool) (mid : Int) :
    (w.process i sid (.publish topic payload 0 true dup mid)).1 =
      ((retainStep w i ⟨prefixMountPoint s.mount topic, payload, 0, true, dup⟩).distribute i
        ⟨prefixMountPoint s.mount topic, payload, 0, false, dup⟩).1 := by
  simp only [World.process, hs, if_true]
  rw [publishJob_eq]
  split <;> rfl

open Wasp.Broker.AgentD in
theorem retainStep_topics (w : World) (i : Nat) (hi : i < w.nodes.length) (p : Pub) (hp : p.retain = true) :
    (retainStep w i p).nodes.length = w.nodes.length ∧
    ((retainStep w i p).node i).dist.topics =
      (if p.payload = "" then topicDelete (w.node i).dist w.clock p.topic
       else topicSet (w.node i).dist w.clock p.topic p.payload p.qos true p.dup).1.topics := by
  unfold retainStep
  simp only [hp, if_true]
  refine ⟨by simp [World.tick], ?_⟩
  rw [broadcast_dist, AgentD.node_setNode_self _ _ _ (show i < w.tick.1.nodes.length from hi)]
  rfl

/-- the retained store of node i after session `sid` of mount point `s.mount` published `payload` retained on `topic` -/
theorem retained_world (w : World) (i : Nat) (hi : i < w.nodes.length) (sid : String) (s : Sess)
    (hs : (w.node i).sess sid = some s) (topic payload : String) (dup : Bool) (mid : Int) :
    (w.process i sid (.publish topic payload 0 true dup mid)).1.nodes.length = w.nodes.length ∧
    ((w.process i sid (.publish topic payload 0 true dup mid)).1.node i).dist.topics =
      (if payload = "" then topicDelete (w.node i).dist w.clock (prefixMountPoint s.mount topic)
       else topicSet (w.node i).dist w.clock (prefixMountPoint s.mount topic) payload 0 true dup).1.topics := by
  rw [process_publish_retained w i sid s hs]
  have hd := distribute_sframe SFrame.dist
    (AgentD.retainStep w i ⟨prefixMountPoint s.mount topic, payload, 0, true, dup⟩) i
    ⟨prefixMountPoint s.mount topic, payload, 0, false, dup⟩
  have hr := retainStep_topics w i hi ⟨prefixMountPoint s.mount topic, payload, 0, true, dup⟩ rfl
  refine ⟨hd.1.trans hr.1, ?_⟩
  have := hd.2 i
  simp only at this
  rw [this, hr.2]

/-! ### session teardown: what it leaves alone, what it does to the subscription store -/

/-- observations of a node that writes to the replicated state and the gossip queue do not touch -/
structure TFrame {α : Type} (F : Node → α) : Prop where
  dist : ∀ (n : Node) d, F { n with dist := d } = F n
  pending : ∀ (n : Node) p, F { n with pending := p } = F n

section tframes
open Wasp.Broker.AgentA
variable {α : Type} {F : Node → α}

theorem broadcast_tframe (hF : TFrame F) (w : World) (i : Nat) (ev : Event) : WFrame F w (w.broadcast i ev) := by
  unfold World.broadcast
  exact WFrame.setNode _ _ _ (hF.pending _ _)

theorem subDelete_tframe (hF : TFrame F) (w : World) (i : Nat) (sid pat : String) :
    WFrame F w (w.subDelete i sid pat) := by
  unfold World.subDelete
  simp only []
  refine WFrame.after (broadcast_tframe hF _ _ _) ?_
  refine WFrame.after (WFrame.setNode _ _ _ (hF.dist _ _)) ?_
  exact tick_frame F w

theorem sessDelete_tframe (hF : TFrame F) (w : World) (i : Nat) (sid : String) :
    WFrame F w (w.sessDelete i sid) := by
  unfold World.sessDelete
  simp only []
  have h1 : WFrame F w (w.tick.1.setNode i { w.tick.1.node i with dist := (Wasp.Dist.sessDelete (w.tick.1.node i).dist w.tick.2 sid).1 }) :=
    WFrame.after (WFrame.setNode _ _ _ (hF.dist _ _)) (tick_frame F w)
  split
  · exact WFrame.after (broadcast_tframe hF _ _ _) h1
  · exact h1

theorem tdBase_tframe (hF : TFrame F) (w : World) (i : Nat) (s : Sess) :
    WFrame F (AgentD.unreg w i s.id) (AgentD.tdBase w i s) := by
  unfold AgentD.tdBase
  simp only
  apply AgentD.foldl_inv (P := fun (w' : World) => WFrame F (AgentD.unreg w i s.id) w')
  · exact WFrame.of_nodes F rfl
  · intro b a _ hb
    exact WFrame.after (subDelete_tframe hF _ _ _ _) hb

theorem teardown_tframe (hF : TFrame F) (w : World) (i : Nat) (s : Sess) :
    WFrame F (AgentD.unreg w i s.id) (teardown w i s).1 := by
  rw [AgentD.teardown_eq]
  split
  · exact WFrame.after (sessDelete_tframe hF _ _ _) (tdBase_tframe hF w i s)
  · exact tdBase_tframe hF w i s

end tframes

/-- everything about a node except its replicated state and its gossip queue -/
def core (n : Node) : Nat × List Sess × Bool × Bool × List Nat × Nat :=
  (n.peer, n.reg, n.failed, n.logFailAll, n.logFailAt, n.logCalls)

theorem TFrame.core : TFrame core := ⟨fun _ _ => rfl, fun _ _ => rfl⟩

/-- after the teardown of session `s` on node i: the node's registry is the old one without `s`; peer, failure flag
    and the log switches are unchanged -/
theorem teardown_core (w : World) (i : Nat) (hi : i < w.nodes.length) (s : Sess) :
    (teardown w i s).1.nodes.length = w.nodes.length ∧
    core ((teardown w i s).1.node i) =
      core { w.node i with reg := (w.node i).reg.filter (fun x => x.id != s.id) } := by
  have h := teardown_tframe TFrame.core w i s
  refine ⟨h.1.trans (by simp [AgentD.unreg]), ?_⟩
  rw [h.2 i]
  unfold AgentD.unreg
  rw [AgentD.node_setNode_self _ _ _ hi]

theorem subDelete_node_dist (w : World) (i : Nat) (hi : i < w.nodes.length) (sid t : String) :
    ((w.subDelete i sid t).node i).dist = (Wasp.Dist.subDelete (w.node i).dist w.clock sid t).1 := by
  have e : w.subDelete i sid t =
      ((w.tick.1).setNode i { (w.tick.1).node i with
          dist := (Wasp.Dist.subDelete ((w.tick.1).node i).dist w.clock sid t).1 }).broadcast i
        (Wasp.Dist.subDelete ((w.tick.1).node i).dist w.clock sid t).2 := rfl
  rw [e, AgentD.broadcast_dist, AgentD.node_setNode_self _ _ _ (show i < w.tick.1.nodes.length from hi)]
  rfl

/-- a subscription stored after the teardown: QoS and peer as before (tombstones: QoS 0, the store's own peer), and
    if it is live it was stored, under the same key, before -/
def SubOld (m0 : List (String × List Sub)) (P : Nat) (k : String) (x : Sub) : Prop :=
  (x.qos = 0 ∧ x.peer = P) ∧ (isAdded x.stamp = true → ∃ kl ∈ m0, kl.1 = k ∧ x ∈ kl.2)

theorem tdBase_subs (w : World) (i : Nat) (hi : i < w.nodes.length) (s : Sess)
    (hq : ∀ kl ∈ (w.node i).dist.subs, ∀ u ∈ kl.2, u.qos = 0 ∧ u.peer = (w.node i).dist.peer) :
    (AgentD.tdBase w i s).nodes.length = w.nodes.length ∧
    ((AgentD.tdBase w i s).node i).dist.peer = (w.node i).dist.peer ∧
    ((AgentD.tdBase w i s).node i).dist.sessions = (w.node i).dist.sessions ∧
    ∀ kl ∈ ((AgentD.tdBase w i s).node i).dist.subs, ∀ x ∈ kl.2,
      SubOld (w.node i).dist.subs (w.node i).dist.peer kl.1 x := by
  unfold AgentD.tdBase
  simp only
  apply AgentD.foldl_inv (P := fun (w' : World) => w'.nodes.length = w.nodes.length ∧
    (w'.node i).dist.peer = (w.node i).dist.peer ∧ (w'.node i).dist.sessions = (w.node i).dist.sessions ∧
    ∀ kl ∈ (w'.node i).dist.subs, ∀ x ∈ kl.2, SubOld (w.node i).dist.subs (w.node i).dist.peer kl.1 x)
  · have hn : World.node { (w.setNode i { w.node i with reg := (w.node i).reg.filter (fun x => x.id != s.id) }).emit s.conn .closed with
        conns := ((w.setNode i { w.node i with reg := (w.node i).reg.filter (fun x => x.id != s.id) }).emit s.conn .closed).conns.filter
          (fun (c : String × Nat) => c.1 != s.conn) } i = { w.node i with reg := (w.node i).reg.filter (fun x => x.id != s.id) } :=
      AgentD.node_setNode_self _ _ _ hi
    refine ⟨by simp [World.emit], ?_⟩
    rw [hn]
    exact ⟨rfl, rfl, fun kl hkl x hx => ⟨hq kl hkl x hx, fun _ => ⟨kl, hkl, rfl, hx⟩⟩⟩
  · intro b t _ ⟨hlen, hpeer, hsess, hsubs⟩
    have hib : i < b.nodes.length := by rw [hlen]; exact hi
    refine ⟨by simp [hlen], ?_, ?_, ?_⟩
    · rw [subDelete_node_dist b i hib]; exact hpeer
    · rw [subDelete_node_dist b i hib]; exact hsess
    · rw [AgentD.subDelete_node_subs b i hib]
      refine Wasp.Dist.subsSet_forall _ _ _ hsubs ⟨⟨rfl, hpeer⟩, fun h => ?_⟩
      rw [AgentD.tomb_not_added] at h
      cases h

theorem sessDelete_len (w : World) (i : Nat) (sid : String) : (w.sessDelete i sid).nodes.length = w.nodes.length := by
  simp only [World.sessDelete]
  split <;> simp [World.tick]

/-- the subscription store of node i after the teardown of `s` -/
theorem teardown_subs (w : World) (i : Nat) (hi : i < w.nodes.length) (s : Sess)
    (hq : ∀ kl ∈ (w.node i).dist.subs, ∀ u ∈ kl.2, u.qos = 0 ∧ u.peer = (w.node i).dist.peer) :
    ∀ kl ∈ ((teardown w i s).1.node i).dist.subs, ∀ x ∈ kl.2,
      SubOld (w.node i).dist.subs (w.node i).dist.peer kl.1 x := by
  have hb := (tdBase_subs w i hi s hq).2.2.2
  rw [AgentD.teardown_eq]
  split
  · simp only
    rw [AgentD.sessDelete_node_subs]
    exact hb
  · exact hb

/-- the will is not suppressed when the session's record is still the current one for its client id -/
theorem teardown_continue (w : World) (i : Nat) (hi : i < w.nodes.length) (s : Sess)
    (hq : ∀ kl ∈ (w.node i).dist.subs, ∀ u ∈ kl.2, u.qos = 0 ∧ u.peer = (w.node i).dist.peer)
    (hcur : ∀ md ∈ sessByClientID (w.node i).dist s.mount s.client, md.id = s.id) :
    (teardown w i s).2 = false := by
  have hb := (tdBase_subs w i hi s hq).2.2.1
  have he : sessByClientID ((AgentD.tdBase w i s).node i).dist s.mount s.client =
      sessByClientID (w.node i).dist s.mount s.client := by
    simp only [sessByClientID, sessFilter, hb]
  rw [AgentD.teardown_eq, he]
  simp only [List.any_eq_false, bne_iff_ne, ne_eq, Decidable.not_not]
  exact hcur

theorem subsLookup_of_mem {m : List (String × List Sub)} (hk : (m.map (·.1)).Nodup) {kl : String × List Sub}
    (h : kl ∈ m) : subsLookup kl.1 m = kl.2 := by
  induction m with
  | nil => cases h
  | cons x rest ih =>
    obtain ⟨k, l⟩ := x
    simp only [List.map_cons, List.nodup_cons] at hk
    simp only [subsLookup]
    rcases List.mem_cons.mp h with e | hm
    · subst e; simp
    · have hne : k ≠ kl.1 := fun e => hk.1 (e ▸ List.mem_map_of_mem (f := (·.1)) hm)
      rw [if_neg hne]
      exact ih hk.2 hm

/-- a subscription of ANOTHER session is still stored, under the same key, after the teardown of `s` -/
theorem teardown_keeps_sub (w : World) (i : Nat) (s : Sess) (hk : ((w.node i).dist.subs.map (·.1)).Nodup)
    (kl : String × List Sub) (hkl : kl ∈ (w.node i).dist.subs) (u : Sub) (hu : u ∈ kl.2) (hne : u.session ≠ s.id) :
    ∃ kl' ∈ ((teardown w i s).1.node i).dist.subs, kl'.1 = kl.1 ∧ u ∈ kl'.2 := by
  have h := ((AgentD.ds_teardown w i s) i).2 kl.1 u.session hne
  rw [subsLookup_of_mem hk hkl] at h
  have hm : u ∈ (subsLookup kl.1 ((teardown w i s).1.node i).dist.subs).filter (fun x => x.session == u.session) := by
    rw [h]; exact List.mem_filter.mpr ⟨hu, by simp⟩
  have hm' := (List.mem_filter.mp hm).1
  exact ⟨_, Wasp.Dist.subsLookup_mem hm', rfl, hm'⟩

/-- a non-retained publish job is the distribution -/
theorem publishJob_noretain (w : World) (i : Nat) (p : Pub) (hp : p.retain = false) :
    w.publishJob i p id = (w.distribute i p).1 := by
  obtain ⟨t, pl, q, r, d⟩ := p
  simp only at hp
  subst hp
  simp only [World.publishJob, Bool.false_eq_true, if_false]
  split <;> rfl

section reachableInvariant
open Wasp.Wire Wasp.Broker.AgentD

/-! ### the retained stores of every reachable world are well shaped -/

/-- every message of the list names a topic containing a '/' -/
def RetOK (l : List Retained) : Prop := ∀ r ∈ l, '/' ∈ r.topic.toList

/-- every inbound QoS 2 publish awaiting its PUBREL names a topic containing a '/' -/
def StoredOK (l : List (Ack.Key × Stored)) : Prop :=
  ∀ e ∈ l, ∀ a c pub m, e.2 = Stored.inbound a c pub m → '/' ∈ pub.topic.toList

theorem retOK_nil : RetOK [] := fun _ h => by cases h

theorem mergeRetained_top (l : List Retained) : ∀ (m : List (String × Retained)), TopOK m → RetOK l →
    TopOK (mergeRetained l m) := by
  induction l with
  | nil => intro m hm _; exact hm
  | cons r rest ih =>
    intro m hm hl
    simp only [mergeRetained]
    split
    · exact hm
    · split
      · exact hm
      · have key : ∀ (c : Prop) [Decidable c], TopOK (if c then topicsAssign r.topic r m else m) := by
          intro c _
          split
          · exact hm.assign r.topic r rfl (hl r (by simp))
          · exact hm
        exact ih _ (key _) (fun x hx => hl x (by simp [hx]))

theorem merge_top (st : State) (ev : Event) (h : TopOK st.topics) (he : RetOK ev.retained) :
    TopOK (merge st ev).topics := mergeRetained_top _ _ h he

theorem foldl_merge_top (evs : List Event) : ∀ (st : State), TopOK st.topics → (∀ ev ∈ evs, RetOK ev.retained) →
    TopOK (evs.foldl merge st).topics := by
  induction evs with
  | nil => intro st h _; exact h
  | cons ev rest ih =>
    intro st h he
    simp only [List.foldl_cons]
    exact ih _ (merge_top st ev h (he ev (by simp))) (fun e hm => he e (by simp [hm]))

structure KN (n : Node) : Prop where
  top : TopOK n.dist.topics
  pend : ∀ e ∈ n.pending, RetOK e.2.retained
  stored : StoredOK n.stored

def KInv (w : World) : Prop := ∀ i, KN (w.node i)

theorem kinv_frame {w w' : World} (h : KInv w) (hn : w'.nodes = w.nodes) : KInv w' :=
  fun i => by rw [node_congr hn]; exact h i

theorem kinv_emit {w : World} (h : KInv w) (c : String) (p : Pkt) : KInv (w.emit c p) := kinv_frame h rfl

theorem kinv_tick {w : World} (h : KInv w) : KInv w.tick.1 := kinv_frame h rfl

theorem kinv_setNode {w : World} (h : KInv w) (i : Nat) (n' : Node) (hn : KN n') : KInv (w.setNode i n') := by
  intro j
  rw [node_setNode]
  split
  · exact hn
  · exact h j

/-- the replicated state and the pending gossip are untouched; the in-flight table stays well shaped -/
theorem kinv_setNode_st {w : World} (h : KInv w) (i : Nat) (n' : Node)
    (hd : n'.dist = (w.node i).dist) (hq : n'.pending = (w.node i).pending)
    (hs : StoredOK (w.node i).stored → StoredOK n'.stored) : KInv (w.setNode i n') := by
  refine kinv_setNode h i n' ?_
  have hn := h i
  exact ⟨by rw [hd]; exact hn.top, by rw [hq]; exact hn.pend, hs hn.stored⟩

theorem kinv_setNode_same {w : World} (h : KInv w) (i : Nat) (n' : Node)
    (hd : n'.dist = (w.node i).dist := by rfl) (hq : n'.pending = (w.node i).pending := by rfl)
    (hs : n'.stored = (w.node i).stored := by rfl) : KInv (w.setNode i n') :=
  kinv_setNode_st h i n' hd hq (fun h => by rw [hs]; exact h)

theorem kinv_setDist {w : World} (h : KInv w) (i : Nat) (d : State)
    (hd : TopOK (w.node i).dist.topics → TopOK d.topics) :
    KInv (w.setNode i { w.node i with dist := d }) := by
  refine kinv_setNode h i _ ?_
  have hn := h i
  exact ⟨hd hn.top, hn.pend, hn.stored⟩

theorem kinv_setPending {w : World} (h : KInv w) (i : Nat) (p : List (Nat × Event))
    (hp : ∀ e ∈ p, e ∈ (w.node i).pending) : KInv (w.setNode i { w.node i with pending := p }) := by
  refine kinv_setNode h i _ ?_
  have hn := h i
  exact ⟨hn.top, fun e he => hn.pend e (hp e he), hn.stored⟩

theorem kinv_broadcast {w : World} (h : KInv w) (i : Nat) (ev : Event) (he : RetOK ev.retained) :
    KInv (w.broadcast i ev) := by
  unfold World.broadcast
  refine kinv_setNode h i _ ?_
  have hn := h i
  refine ⟨hn.top, ?_, hn.stored⟩
  intro e hme
  simp only [List.mem_append, List.mem_map] at hme
  rcases hme with hme | ⟨j, _, rfl⟩
  · exact hn.pend e hme
  · exact he

/-- tick, write the replicated state, queue the broadcast -/
theorem kinv_distWrite {w : World} (h : KInv w) (i : Nat) (d : State) (ev : Event)
    (hd : TopOK (w.node i).dist.topics → TopOK d.topics) (he : RetOK ev.retained) :
    KInv ((w.tick.1.setNode i { w.tick.1.node i with dist := d }).broadcast i ev) :=
  kinv_broadcast (kinv_setDist (kinv_tick h) i d hd) i ev he

theorem kinv_setSess {w : World} (h : KInv w) (i : Nat) (s' : Sess) :
    KInv (w.setNode i ((w.node i).setSess s')) := kinv_setNode_same h i _

theorem kinv_extendDeadline {w : World} (h : KInv w) (i : Nat) (sid : String) :
    KInv (w.extendDeadline i sid) := by
  unfold World.extendDeadline
  simp only []
  split
  · exact kinv_setSess h i _
  · exact h

theorem topOK_of_eq {m m' : List (String × Retained)} (e : m' = m) : TopOK m → TopOK m' := fun h => e ▸ h

theorem kinv_subCreate {w : World} (h : KInv w) (i : Nat) (sid pat : String) (qos : Int) :
    KInv (w.subCreate i sid pat qos) :=
  kinv_distWrite h i _ _ (topOK_of_eq rfl) retOK_nil

theorem kinv_subDelete {w : World} (h : KInv w) (i : Nat) (sid pat : String) :
    KInv (w.subDelete i sid pat) :=
  kinv_distWrite h i _ _ (topOK_of_eq rfl) retOK_nil

theorem sessDelete_topics (st : State) (now : Int) (id : String) : (Wasp.Dist.sessDelete st now id).1.topics = st.topics := by
  unfold Wasp.Dist.sessDelete
  split
  · rfl
  · split <;> rfl

theorem sessDelete_ev_ret (st : State) (now : Int) (id : String) (e : Event)
    (h : (Wasp.Dist.sessDelete st now id).2 = some e) : e.retained = [] := by
  unfold Wasp.Dist.sessDelete at h
  split at h
  · cases h
  · split at h
    · cases h
    · cases h; rfl

theorem sessCreate_topics (st : State) (now : Int) (id client : String) (ca : Int) (lwt : Option Will) (mount : String) :
    (sessCreate st now id client ca lwt mount).1.topics = st.topics := by
  unfold sessCreate
  split
  · split <;> rfl
  · rfl

theorem sessCreate_ev_ret (st : State) (now : Int) (id client : String) (ca : Int) (lwt : Option Will) (mount : String)
    (e : Event) (h : (sessCreate st now id client ca lwt mount).2.1 = some e) : e.retained = [] := by
  unfold sessCreate at h
  split at h
  · split at h
    · cases h
    · cases h; rfl
  · cases h; rfl

theorem kinv_sessDelete {w : World} (h : KInv w) (i : Nat) (sid : String) : KInv (w.sessDelete i sid) := by
  unfold World.sessDelete
  simp only []
  have h1 : KInv (w.tick.1.setNode i { w.tick.1.node i with dist := (Wasp.Dist.sessDelete (w.tick.1.node i).dist w.tick.2 sid).1 }) :=
    kinv_setDist (kinv_tick h) i _ (topOK_of_eq (sessDelete_topics _ _ _))
  split
  · rename_i e he
    refine kinv_broadcast h1 i e ?_
    rw [sessDelete_ev_ret _ _ _ e he]
    exact retOK_nil
  · exact h1

theorem kinv_poolPut {w : World} (h : KInv w) (i : Nat) (mid : Int) : KInv (w.poolPut i mid) := by
  unfold World.poolPut
  exact kinv_setNode_same h i _ rfl rfl rfl

theorem storedOK_append {l : List (Ack.Key × Stored)} (h : StoredOK l) (x : Ack.Key × Stored)
    (hx : ∀ a c pub m, x.2 = Stored.inbound a c pub m → '/' ∈ pub.topic.toList) : StoredOK (l ++ [x]) := by
  intro e he
  rcases List.mem_append.mp he with he | he
  · exact h e he
  · rw [List.mem_singleton.mp he]; exact hx

theorem storedOK_erase {l : List (Ack.Key × Stored)} (h : StoredOK l) (k : Ack.Key) : StoredOK (storedErase k l) :=
  fun e he => h e (List.mem_filter.mp he).1

theorem storedFind_mem {k : Ack.Key} {l : List (Ack.Key × Stored)} {st : Stored} (h : storedFind k l = some st) :
    ∃ k', (k', st) ∈ l := by
  induction l with
  | nil => cases h
  | cons x rest ih =>
    obtain ⟨k', s⟩ := x
    simp only [storedFind] at h
    split at h
    · cases h; exact ⟨k', List.mem_cons_self ..⟩
    · obtain ⟨k2, h2⟩ := ih h
      exact ⟨k2, List.mem_cons_of_mem _ h2⟩

theorem kinv_armAndSend {w : World} (h : KInv w) (i : Nat) (st : Stored) : KInv (w.armAndSend i st) := by
  unfold World.armAndSend
  cases st with
  | out1 sid topic payload retain dup mid =>
    simp only []
    split
    · exact h
    · split
      · refine kinv_emit (kinv_setNode_st (kinv_extendDeadline h i sid) i _ ?_ ?_ ?_) _ _
        · rfl
        · rfl
        · exact fun hs => storedOK_append hs _ (by intro a c pub m e; cases e)
      · exact kinv_extendDeadline h i sid
  | out2 sid topic payload retain dup mid =>
    simp only []
    split
    · exact h
    · split
      · refine kinv_emit (kinv_setNode_st (kinv_extendDeadline h i sid) i _ ?_ ?_ ?_) _ _
        · rfl
        · rfl
        · exact fun hs => storedOK_append hs _ (by intro a c pub m e; cases e)
      · exact kinv_extendDeadline h i sid
  | rel sid mid =>
    simp only []
    split
    · exact h
    · refine kinv_emit (kinv_setNode_st (kinv_extendDeadline h i sid) i _ ?_ ?_ ?_) _ _
      · split <;> rfl
      · split <;> rfl
      · intro hs
        split
        · exact storedOK_append hs _ (by intro a c pub m e; cases e)
        · exact hs
  | inbound a b c d => exact h

theorem kinv_sendArmed {w : World} (h : KInv w) (i : Nat) (st : Stored) (sid : String) (mid : Int) :
    KInv (w.sendArmed i st sid mid) := by
  unfold World.sendArmed
  simp only []
  split
  · exact kinv_poolPut (kinv_armAndSend h i st) i mid
  · exact kinv_armAndSend h i st

theorem kinv_send (i : Nat) (p : Pub) (rcpt : List (String × Int)) :
    ∀ w : World, KInv w → KInv (w.send i rcpt p) := by
  induction rcpt with
  | nil => intro w h; exact h
  | cons hd rest ih =>
    intro w h
    obtain ⟨sid, qos⟩ := hd
    unfold World.send
    simp only []
    split
    · exact ih w h
    · split
      · exact ih _ (kinv_emit (kinv_extendDeadline h i sid) _ _)
      · split
        · split
          · exact h
          · exact ih _ (kinv_sendArmed (kinv_setNode_same h i _) i _ sid _)
        · exact ih w h

theorem kinv_onResolved {w : World} (h : KInv w) (i : Nat) (ev : Ack.Resolved) (st : Stored) :
    KInv (w.onResolved i ev st) := by
  unfold World.onResolved
  cases st <;> simp only <;> repeat' split
  all_goals first | exact kinv_armAndSend h _ _ | exact kinv_poolPut h _ _ | exact h

theorem kinv_deliverLocal {w : World} (h : KInv w) (j : Nat) (p : Pub) : KInv (w.deliverLocal j p) := by
  unfold World.deliverLocal
  exact kinv_send _ _ _ _ h

theorem appendLog_stored (n : Node) (p : Pub) : (n.appendLog p).1.stored = n.stored := by
  unfold Node.appendLog
  simp only []
  split <;> rfl

theorem kinv_appendLog {w : World} (h : KInv w) (j : Nat) (p : Pub) :
    KInv (w.setNode j ((w.node j).appendLog p).1) := by
  have := AgentT5.appendLog_same (w.node j) p
  exact kinv_setNode_same h j _ this.2.1 this.2.2 (appendLog_stored _ _)

theorem kinv_distribute {w : World} (h : KInv w) (i : Nat) (p : Pub) : KInv (w.distribute i p).1 := by
  unfold World.distribute
  simp only
  apply foldl_inv (P := fun (acc : World × Bool) => KInv acc.1)
  · exact h
  · intro acc peer _ hacc
    split
    · exact hacc
    · split
      · exact hacc
      · split
        · exact kinv_deliverLocal (kinv_appendLog hacc _ _) _ _
        · exact kinv_appendLog hacc _ _

theorem kinv_retainStep {w : World} (h : KInv w) (i : Nat) (p : Pub) (hp : '/' ∈ p.topic.toList) :
    KInv (retainStep w i p) := by
  unfold retainStep
  split
  · have key : ∀ (st : State) (now : Int), (TopOK st.topics →
        TopOK (if p.payload = "" then topicDelete st now p.topic else topicSet st now p.topic p.payload p.qos true p.dup).1.topics) ∧
        RetOK (if p.payload = "" then topicDelete st now p.topic else topicSet st now p.topic p.payload p.qos true p.dup).2.retained := by
      intro st now
      split
      · refine ⟨fun ht => ht.assign _ _ rfl hp, fun r hr => ?_⟩
        simp only [topicDelete, List.mem_singleton] at hr
        subst hr; exact hp
      · refine ⟨fun ht => ht.assign _ _ rfl hp, fun r hr => ?_⟩
        simp only [topicSet, List.mem_singleton] at hr
        subst hr; exact hp
    exact kinv_distWrite h i _ _ (key _ _).1 (key _ _).2
  · exact h

theorem kinv_publishJob {w : World} (h : KInv w) (i : Nat) (p : Pub) (onOk : World → World)
    (hp : '/' ∈ p.topic.toList) (hok : ∀ w, KInv w → KInv (onOk w)) : KInv (w.publishJob i p onOk) := by
  rw [publishJob_eq]
  have h1 := kinv_distribute (kinv_retainStep h i p hp) i { p with retain := false }
  split
  · exact hok _ h1
  · exact h1

theorem kinv_ackFrom {w : World} (h : KInv w) (i : Nat) (pfx : String) (kind : Ack.PType) (mid : Int) :
    KInv (w.ackFrom i pfx kind mid) := by
  unfold World.ackFrom
  simp only
  refine foldl_inv KInv _ _ _ (kinv_setNode_same h i _) ?_
  intro b ev _ hb
  split
  · exact hb
  · rename_i st hst
    have hb1 := kinv_setNode_st hb i { b.node i with stored := storedErase ev.key (b.node i).stored } rfl rfl
      (fun hs => storedOK_erase hs _)
    cases st with
    | inbound a conn pub imid =>
      obtain ⟨k', hk'⟩ := storedFind_mem hst
      exact kinv_publishJob hb1 _ _ _ ((hb i).stored _ hk' _ _ _ _ rfl) (fun w hw => kinv_emit hw _ _)
    | out1 a b c d e f => exact kinv_onResolved hb1 _ _ _
    | out2 a b c d e f => exact kinv_onResolved hb1 _ _ _
    | rel a b => exact kinv_onResolved hb1 _ _ _

theorem kinv_sweep {w : World} (h : KInv w) (i : Nat) : KInv (w.sweep i) := by
  unfold World.sweep
  simp only
  have h0 : KInv ({ w with epoch := w.epoch + 1 } : World) := kinv_frame h rfl
  refine foldl_inv KInv _ _ _ (kinv_setNode_same h0 i _) ?_
  intro b ev _ hb
  split
  · exact hb
  · exact kinv_onResolved (kinv_setNode_st hb i { b.node i with stored := storedErase ev.key (b.node i).stored } rfl rfl
      (fun hs => storedOK_erase hs _)) _ _ _

theorem prefix_slash (m t : String) : '/' ∈ (prefixMountPoint m t).toList := by
  rw [AgentA.prefix_toList]; simp

theorem kinv_process {w : World} (h : KInv w) (i : Nat) (sid : String) (pkt : CPkt) :
    KInv (w.process i sid pkt).1 := by
  unfold World.process
  simp only []
  split
  · exact h
  · rename_i s hs
    cases pkt with
    | connect => exact h
    | publish topic payload qos retain dup mid =>
      simp only []
      split
      · exact kinv_publishJob h _ _ _ (prefix_slash _ _) (fun _ h => h)
      · split
        · exact kinv_publishJob h _ _ _ (prefix_slash _ _) (fun w h => kinv_emit h _ _)
        · split
          · split
            · refine kinv_emit (kinv_setNode_st h i _ ?_ ?_ ?_) _ _
              · rfl
              · rfl
              · intro hst
                refine storedOK_append hst _ ?_
                intro a c pub m e
                cases e
                exact prefix_slash _ _
            · exact h
          · exact h
    | subscribe mid topics =>
      simp only []
      refine foldl_inv KInv _ _ _ ?_ ?_
      · apply kinv_emit
        refine foldl_inv KInv _ _ _ h ?_
        intro b a _ hb
        have hb1 := kinv_subCreate hb i sid a.1 a.2
        split
        · split
          · exact hb1
          · exact kinv_setSess hb1 i _
        · exact hb1
      · intro b a _ hb
        refine foldl_inv KInv _ _ _ hb ?_
        intro b' r _ hb'
        exact kinv_send _ _ _ _ hb'
    | unsubscribe mid topics =>
      simp only []
      apply kinv_emit
      refine foldl_inv KInv _ _ _ h ?_
      intro b a _ hb
      have hb1 := kinv_subDelete hb i sid (prefixMountPoint s.mount a)
      split
      · exact kinv_setSess hb1 i _
      · exact hb1
    | puback mid => exact kinv_ackFrom h _ _ _ _
    | pubrec mid => exact kinv_ackFrom h _ _ _ _
    | pubrel mid => exact kinv_ackFrom h _ _ _ _
    | pubcomp mid => exact kinv_ackFrom h _ _ _ _
    | pingreq =>
      simp only
      split
      · split
        · exact kinv_emit h _ _
        · exact h
      · exact h
      · split
        · exact kinv_emit h _ _
        · exact h
    | disconnect => exact h
    | other => exact h

/-! ### session end, connections -/

theorem kinv_tdBase {w : World} (h : KInv w) (i : Nat) (s : Sess) : KInv (tdBase w i s) := by
  unfold tdBase
  simp only
  refine foldl_inv KInv _ _ _ ?_ (fun b a _ hb => kinv_subDelete hb i s.id a)
  have h1 : KInv (w.setNode i { w.node i with reg := (w.node i).reg.filter (fun x => x.id != s.id) }) :=
    kinv_setNode_same h i _
  exact kinv_frame h1 rfl

theorem kinv_teardown {w : World} (h : KInv w) (i : Nat) (s : Sess) : KInv (teardown w i s).1 := by
  rw [teardown_eq]
  have hb := kinv_tdBase h i s
  split
  · exact kinv_sessDelete hb _ _
  · exact hb

theorem kinv_shutdown {w : World} (h : KInv w) (i : Nat) (sid : String) :
    KInv (w.shutdownSession i sid) := by
  cases hs : (w.node i).sess sid with
  | none => unfold World.shutdownSession; simp only [hs]; exact h
  | some s =>
    rw [shutdown_eq w i sid s hs]
    have ht := kinv_teardown h i s
    split
    · exact ht
    · split
      · exact ht
      · split
        · exact ht
        · exact kinv_publishJob ht _ _ _ (prefix_slash _ _) (fun _ h => h)

theorem kinv_clientPacket {w : World} (h : KInv w) (conn : String) (pkt : CPkt) :
    KInv (w.clientPacket conn pkt) := by
  unfold World.clientPacket
  split
  · exact h
  · rename_i c i hc
    simp only []
    split
    · exact h
    · have hp := kinv_process h i ("S" ++ conn) pkt
      generalize w.process i ("S" ++ conn) pkt = r at hp
      obtain ⟨w', res⟩ := r
      simp only at hp ⊢
      cases res with
      | ok => exact kinv_extendDeadline hp _ _
      | disconnected =>
        simp only []
        apply kinv_shutdown
        split
        · exact kinv_setSess hp i _
        · exact hp
      | error => exact kinv_shutdown hp _ _

theorem kinv_connPre {w : World} (h : KInv w) (c : String) (i : Nat) (client mount : String) :
    KInv (connPre w c i client mount) := by
  unfold connPre
  simp only
  have h0 : KInv ({ w with conns := (w.conns.filter (fun (c' : String × Nat) => c'.1 != c)) ++ [(c, i)] } : World) :=
    kinv_frame h rfl
  split
  · exact kinv_sessDelete h0 _ _
  · exact h0

theorem kinv_connMid {w : World} (h : KInv w) (c : String) (i : Nat) (client mount : String)
    (will : Option Will) : KInv (connMid w c i client mount will) := by
  unfold connMid
  simp only
  have h1 : KInv (connPre w c i client mount).tick.1 := kinv_tick (kinv_connPre h c i client mount)
  have h2 := kinv_setDist h1 i (sessCreate ((connPre w c i client mount).tick.1.node i).dist (connPre w c i client mount).clock
      ("S" ++ c) client 0 will mount).1 (topOK_of_eq (sessCreate_topics _ _ _ _ _ _ _))
  split
  · rename_i e he
    refine kinv_broadcast h2 i e ?_
    rw [sessCreate_ev_ret _ _ _ _ _ _ _ e he]
    exact retOK_nil
  · exact h2

theorem kinv_connect {w : World} (h : KInv w) (c : String) (i : Nat) (client mount : String) (authOk : Bool)
    (keepalive : Nat) (will : Option Will) : KInv (w.connect c i client mount authOk keepalive will) := by
  cases authOk with
  | false =>
    unfold World.connect
    simp only [Bool.not_false, if_true]
    exact kinv_frame h rfl
  | true =>
    rw [connect_eq]
    split
    · exact kinv_emit (kinv_tick (kinv_connPre h c i client mount)) _ _
    · simp only
      apply kinv_emit
      exact kinv_setNode_same (kinv_connMid h c i client mount will) i _

theorem kinv_drop {w : World} (h : KInv w) (c : String) : KInv (w.drop c) := by
  unfold World.drop
  split
  · exact h
  · simp only []
    have h0 : KInv ({ w with conns := w.conns.filter (fun e => e.1 != c) } : World) := kinv_frame h rfl
    split
    · exact kinv_shutdown h0 _ _
    · exact kinv_emit h0 _ _

/-! ### gossip, node failure, time -/

theorem kinv_mergeInto {w : World} (h : KInv w) (t : Nat) (evs : List Event)
    (he : ∀ ev ∈ evs, RetOK ev.retained) :
    KInv (w.setNode t { w.node t with dist := evs.foldl merge (w.node t).dist }) :=
  kinv_setDist h t _ (fun ht => foldl_merge_top evs _ ht he)

theorem kinv_deliverGossip {w : World} (h : KInv w) (src dst : Nat) : KInv (w.deliverGossip src dst) := by
  unfold World.deliverGossip
  simp only []
  have h1 : KInv (w.setNode src { w.node src with pending := (w.node src).pending.filter (fun e => e.1 != dst) }) :=
    kinv_setPending h src _ (fun e he => (List.mem_filter.mp he).1)
  split
  · exact h1
  · refine kinv_mergeInto h1 dst _ ?_
    intro ev hev
    obtain ⟨e, he, rfl⟩ := List.mem_map.mp hev
    exact (h src).pend e (List.mem_filter.mp he).1

theorem kinv_gossipRound {w : World} (h : KInv w) : KInv w.gossipRound := by
  unfold World.gossipRound
  simp only []
  refine foldl_inv KInv _ _ _ h ?_
  intro b a _ hb
  refine foldl_inv KInv _ _ _ hb ?_
  intro b' a' _ hb'
  split
  · exact kinv_deliverGossip hb' _ _
  · exact hb'

theorem kinv_gossipAll {w : World} (h : KInv w) : KInv w.gossipAll := by
  unfold World.gossipAll
  exact foldl_inv KInv _ _ _ h (fun b _ _ hb => kinv_gossipRound hb)

theorem kinv_leavePrefix {w : World} (h : KInv w) (i : Nat) (peer : Nat) :
    KInv (AgentA.leavePrefix w i peer) := by
  unfold AgentA.leavePrefix
  exact kinv_distWrite h i _ _ (topOK_of_eq rfl) retOK_nil

theorem kinv_leaveStep {w : World} (h : KInv w) (i : Nat) (s : SessionMD) :
    KInv (AgentA.leaveStep i w s) := by
  unfold AgentA.leaveStep
  split
  · exact h
  · simp only []
    split
    · exact kinv_deliverLocal (kinv_appendLog h _ _) _ _
    · exact kinv_appendLog h _ _

theorem kinv_notifyLeave {w : World} (h : KInv w) (i : Nat) (peer : Nat) : KInv (w.notifyLeave i peer) := by
  rw [AgentA.notifyLeave_eq]
  simp only
  refine kinv_setNode_same ?_ i _
  exact foldl_inv KInv _ _ _ (kinv_leavePrefix h i peer) (fun b a _ hb => kinv_leaveStep hb i a)

theorem kinv_nodeFail {w : World} (h : KInv w) (f : Nat) : KInv (w.nodeFail f) := by
  unfold World.nodeFail
  simp only []
  refine foldl_inv KInv _ _ _ ?_ ?_
  · refine foldl_inv KInv _ _ _ ?_ (fun b a _ hb => kinv_emit hb _ _)
    have h1 : KInv (w.setNode f { w.node f with failed := true, reg := [], pending := [] }) := by
      refine kinv_setNode h f _ ?_
      have hn := h f
      exact ⟨hn.top, (fun e he => by cases he), hn.stored⟩
    exact kinv_frame h1 rfl
  · intro b a _ hb
    split
    · exact kinv_notifyLeave hb _ _
    · exact hb

theorem kinv_idleTimers {w : World} (h : KInv w) (i : Nat) : KInv (idleTimers w i) := by
  unfold idleTimers
  simp only []
  refine foldl_inv KInv _ _ _ (kinv_setNode_same h i _) ?_
  intro b a _ hb
  exact kinv_distWrite hb i (sessDeletePeer (b.node i).dist b.clock a.2).1 (sessDeletePeer (b.node i).dist b.clock a.2).2
    (topOK_of_eq rfl) retOK_nil

theorem kinv_idleNode {w : World} (h : KInv w) (i : Nat) : KInv (idleNode w i) := by
  unfold idleNode
  split
  · exact h
  · refine foldl_inv KInv _ _ _ (kinv_idleTimers h i) ?_
    intro b a _ hb
    split
    · split
      · exact kinv_shutdown hb _ _
      · exact hb
    · exact hb

theorem kinv_idle {w : World} (h : KInv w) (ms : Int) : KInv (w.idle ms) := by
  rw [idle_eq]
  refine foldl_inv KInv _ _ _ (kinv_frame (w := w) h rfl) ?_
  intro b a _ hb
  exact kinv_idleNode hb a

/-! ### the byte-level path (Wasp/Model/Wire.lean) -/

theorem kinv_setBuf {w : World} (h : KInv w) (c : String) (b : Wire.Bytes) : KInv (setBuf w c b) :=
  kinv_frame h rfl

theorem kinv_failConn {w : World} (h : KInv w) (c : String) : KInv (failConn w c) := by
  unfold failConn
  split
  · exact h
  · split
    · exact kinv_shutdown h _ _
    · exact kinv_frame h rfl

theorem kinv_applyDecoded {w : World} (h : KInv w) (c : String) (r : DRes) : KInv (applyDecoded w c r) := by
  unfold applyDecoded
  split
  · exact h
  · split
    · cases r with
      | pkt p => exact kinv_clientPacket h _ _
      | connect a b c d e => exact kinv_clientPacket h _ _
      | err => exact kinv_failConn h _
      | panic => exact kinv_failConn h _
    · cases r with
      | connect client user pass ka will =>
        simp only []
        split
        · exact kinv_connect h _ _ _ _ _ _ _
        · exact kinv_connect h _ _ _ _ _ _ _
      | pkt p => exact kinv_failConn h _
      | err => exact kinv_failConn h _
      | panic => exact kinv_failConn h _

theorem kinv_pump (c : String) (fuel : Nat) : ∀ w : World, KInv w → KInv (pump fuel w c).1 := by
  induction fuel with
  | zero => intro w h; exact h
  | succ fuel ih =>
    intro w h
    unfold pump
    split
    · exact kinv_setBuf h _ _
    · split
      · exact kinv_setBuf h _ _
      · split
        · exact h
        · exact kinv_failConn (kinv_setBuf h _ _) _
        · exact ih _ (kinv_applyDecoded (kinv_setBuf h _ _) _ _)

theorem kinv_rawBytes {w : World} (h : KInv w) (c : String) (b : Wire.Bytes) : KInv (rawBytes w c b).1 := by
  unfold rawBytes
  split
  · exact h
  · exact kinv_pump c _ _ (kinv_setBuf h _ _)

theorem kinv_closeFin {w : World} (h : KInv w) (c : String) : KInv (AgentT1.closeFin w c) := by
  unfold AgentT1.closeFin
  split
  · split
    · exact kinv_drop h c
    · exact kinv_frame h rfl
  · exact kinv_emit h _ _

theorem kinv_closeRaw {w : World} (h : KInv w) (c : String) : KInv (closeFromClientRaw w c) := by
  rw [AgentT1.closeRaw_eq]
  apply kinv_closeFin
  split
  · exact kinv_setBuf h _ _
  · split
    · exact kinv_applyDecoded (kinv_setBuf h _ _) _ _
    · exact kinv_setBuf h _ _

theorem kinv_closeFromClient {w : World} (h : KInv w) (c : String) : KInv (closeFromClient w c) := by
  unfold closeFromClient
  exact kinv_frame (kinv_closeRaw h c) rfl

theorem kinv_openConn {w : World} (h : KInv w) (c : String) (i : Nat) : KInv (openConn w c i) :=
  kinv_frame h rfl

theorem kinv_hsStep {w : World} (h : KInv w) (e : String × Int) : KInv (AgentT1.hsStep w e) := by
  unfold AgentT1.hsStep
  split
  · exact kinv_closeRaw (kinv_frame (w' := { w with hs := w.hs.filter (fun x => x.1 != e.1) }) h rfl) _
  · exact h

theorem kinv_expireHandshakes {w : World} (h : KInv w) : KInv (expireHandshakes w) := by
  rw [AgentT1.expire_eq]
  exact foldl_inv KInv _ _ _ h (fun b a _ hb => kinv_hsStep hb a)

theorem kinv_wireIdle {w : World} (h : KInv w) (ms : Int) : KInv (Wasp.Wire.idle w ms) := by
  unfold Wasp.Wire.idle
  exact kinv_expireHandshakes (kinv_idle h ms)

theorem kinv_elapse {w : World} (h : KInv w) (ms : Int) : KInv (Wasp.Wire.elapse w ms) := by
  unfold Wasp.Wire.elapse
  apply kinv_wireIdle
  intro j
  rw [AgentT5.shift_node]
  have hn := h j
  exact ⟨hn.top, hn.pend, hn.stored⟩

/-! ### the operations of `applyOp` -/

theorem kinv_init (n : Nat) : KInv (World.init n) := by
  intro i
  by_cases hi : i < n
  · have hnode : (World.init n).node i = { peer := i + 1, dist := { peer := i + 1 }, pool := initPool } := by
      unfold World.node World.init
      simp [List.getD_eq_getElem?_getD, hi]
    rw [hnode]
    exact ⟨topOK_nil, (fun e he => by cases he), (fun e he => by cases he)⟩
  · rw [node_oob _ i (by simp [World.init]; omega)]
    exact ⟨topOK_nil, (fun e he => by cases he), (fun e he => by cases he)⟩

theorem kinv_step {w : World} (h : KInv w) (op : BOp) : KInv (applyOp w op) := by
  cases op with
  | connect c node client mount authOk ka will =>
    simp only [applyOp]
    have h1 : KInv (if w.conns.any (fun e => e.1 == c) then w.drop c else w) := by
      split
      · exact kinv_drop h c
      · exact h
    generalize (if w.conns.any (fun e => e.1 == c) then w.drop c else w) = w1 at h1
    exact kinv_connect (kinv_frame (w' := { w1 with out := w1.out.filter (fun e => e.1 != c), deaf := w1.deaf.filter (· != c) }) h1 rfl) _ _ _ _ _ _ _
  | packet c pkt =>
    simp only [applyOp]
    split
    · exact kinv_clientPacket h _ _
    · exact h
  | drop c => exact kinv_closeFromClient h c
  | openConn c node =>
    simp only [applyOp]
    have h1 : KInv (if w.conns.any (fun e => e.1 == c) then closeFromClient w c else w) := by
      split
      · exact kinv_closeFromClient h c
      · exact h
    generalize (if w.conns.any (fun e => e.1 == c) then closeFromClient w c else w) = w1 at h1
    exact kinv_openConn (kinv_frame (w' := { w1 with deaf := w1.deaf.filter (· != c) }) h1 rfl) c node
  | raw c b => exact kinv_rawBytes h c b
  | gossipAll => exact kinv_gossipAll h
  | gossip f t => exact kinv_deliverGossip h f t
  | gossipOne f t k =>
    simp only [applyOp]
    split
    · exact h
    · rename_i e he
      have hmem : e ∈ (w.node f).pending := (List.mem_filter.mp (List.mem_of_getElem? he)).1
      have h1 : KInv (w.setNode f { w.node f with pending := dropKth t (w.node f).pending k }) :=
        kinv_setPending h f _ (AgentT5.dropKth_mem t _ k)
      split
      · exact h1
      · exact kinv_setDist h1 t _ (fun ht => merge_top _ _ ht ((h f).pend e hmem))
  | loseGossip f t =>
    simp only [applyOp]
    exact kinv_setPending h f _ (fun e he => (List.mem_filter.mp he).1)
  | sync f t =>
    simp only [applyOp]
    refine kinv_setDist h t _ (fun ht => merge_top _ _ ht ?_)
    intro r hr
    simp only [snapshot, List.mem_map] at hr
    obtain ⟨kr, hkr, rfl⟩ := hr
    rw [(h f).top.own kr hkr]
    exact (h f).top.slash kr hkr
  | unreachable n b => exact kinv_setNode_same h n _ rfl rfl rfl
  | logFailAll n b => exact kinv_setNode_same h n _ rfl rfl rfl
  | logFailAt n k => exact kinv_setNode_same h n _ rfl rfl rfl
  | logFailNone n => exact kinv_setNode_same h n _ rfl rfl rfl
  | nodeFail n => exact kinv_nodeFail h n
  | sweep n => exact kinv_sweep h n
  | idle ms => exact kinv_wireIdle h ms
  | elapse ms => exact kinv_elapse h ms
  | setPool n lo hi =>
    simp only [applyOp]
    split
    · exact kinv_setNode_same h n _
    · exact h
  | rpcPublish n topic payload => exact kinv_distribute h n _

theorem kinv_run (ops : List BOp) : ∀ w : World, KInv w → KInv (run w ops) := by
  induction ops with
  | nil => intro w h; exact h
  | cons op rest ih => intro w h; exact ih _ (kinv_step h op)

/-- on every reachable world, every node's retained store holds one entry per topic, each message under its own
    topic, and every topic contains a '/' -/
theorem topOK_reachable (w : World) (hr : Reachable w) (i : Nat) : TopOK (w.node i).dist.topics := by
  obtain ⟨n, ops, rfl⟩ := hr
  exact (kinv_run ops _ (kinv_init n) i).top


end reachableInvariant

/-! ### the replay after a retained publish -/

/-- the retained store of node i after a retained publish of `payload` on the (mount-prefixed) topic `K` -/
def storeAfter (w : World) (i : Nat) (K payload : String) (dup : Bool) : List (String × Retained) :=
  (if payload = "" then topicDelete (w.node i).dist w.clock K else topicSet (w.node i).dist w.clock K payload 0 true dup).1.topics

theorem storeAfter_set (w : World) (i : Nat) (K payload : String) (dup : Bool) (hne : payload ≠ "") :
    storeAfter w i K payload dup =
      topicsAssign K { topic := K, payload, qos := 0, retain := true, dup, added := w.clock, deleted := 0 } (w.node i).dist.topics := by
  simp only [storeAfter, hne, if_false, topicSet]

theorem storeAfter_clear (w : World) (i : Nat) (K : String) (dup : Bool) :
    storeAfter w i K "" dup =
      topicsAssign K { topic := K, payload := "", qos := 0, retain := false, dup := false, added := 0, deleted := w.clock }
        (w.node i).dist.topics := by
  simp only [storeAfter, if_true, topicDelete]

/-- a replayed PUBLISH carrying the name `topic` comes from the store's entry for the mount-prefixed `topic` -/
theorem replay_entry (T : List (String × Retained)) (hT : TopOK T) (m : String) (hwf : wfMount m) (f topic : String)
    (c : String) (pk : Pkt) (pl : String) (q : Nat) (rt dp : Bool) (mi : Int)
    (h : (c, Pkt.publish topic pl q rt dp mi) ∈
      (c, pk) :: ((topicsGetAll T (prefixMountPoint m f)).filter (fun r => isAdded r.stamp)).map (fun r =>
          (c, Pkt.publish (trimMountPoint m r.topic) r.payload 0 r.retain r.dup 0)))
    (hpk : ∀ a b c d e f, pk ≠ Pkt.publish a b c d e f) :
    ∃ r, (prefixMountPoint m topic, r) ∈ T ∧ isAdded r.stamp = true ∧ r.payload = pl := by
  rcases List.mem_cons.mp h with h | h
  · simp only [Prod.mk.injEq, true_and] at h
    exact absurd h.symm (hpk _ _ _ _ _ _)
  · simp only [List.mem_map, List.mem_filter, topicsGetAll, Prod.mk.injEq, true_and, Pkt.publish.injEq] at h
    obtain ⟨r, ⟨⟨kr, ⟨hkr, hmatch⟩, rfl⟩, hadd⟩, htrim, hpl, _⟩ := h
    have hown := hT.own kr hkr
    have hkey := key_of_match m kr.1 f hwf (hT.slash kr hkr) hmatch
    rw [hown] at htrim
    rw [htrim] at hkey
    refine ⟨kr.2, ?_, hadd, hpl⟩
    rw [← hkey]
    exact hkr

end Wasp.Broker.AgentT10

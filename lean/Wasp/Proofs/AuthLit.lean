import Wasp.Generated.AuthLit
import Wasp.Model.Auth
import Wasp.Proofs.Auth
import Wasp.Proofs.GoLit
/-! The tie by translation for the credential stores.

`Wasp.Generated.AuthLit.fileAuthenticate` / `.staticAuthenticate` / `.fileHandlerLoad` / `.staticHandlerNew`
are the LITERAL renderings of `(*fileHandler).Authenticate` (wasp/auth/file.go), `(*staticHandler).Authenticate`,
`StaticHandler` (wasp/auth/static.go) and of `FileHandler` from `out := make(…)` on (the record-building loop,
`sort.SliceStable(out, searchHelper(out))`, `return &fileHandler{db: out}, nil`), produced by
extract/imperative.go on every run. `fingerprintBytes` (hex SHA-256) is a parameter `B : Go.Bytes → String`;
`fingerprintString(s)` is inlined from hash.go as `B (Go.bytesOfString s)`; `Principal.ID` (`randomID()`) is
left out. The outer `Option` is the panic channel (`none` = index out of range or loop bound exceeded); the
answer proper is the pair (Principal, error) of the Go code.

They are proven equal to the hand-written model `Wasp.Auth.authenticate` / `staticAuthenticate` / `load`
for EVERY table (no sortedness hypothesis: the model's `goSearch` and `scanFrom` are the same bisection
and the same scan, so the two agree on unsorted tables as well), with no panic. -/
namespace Wasp.Auth.Lit
open Wasp.Generated.AuthLit

def recLit (r : Record) : fileRecord := ⟨r.userHash, r.passHash, r.mount⟩

/-- the file handler holding the table `db` -/
def handlerOf (db : List Record) : fileHandler := ⟨db.map recLit⟩

/-- the (Principal, error) pair the file store answers for the model's verdict -/
def fileAnswer : Option String → Principal × Go.Error
  | some m => (⟨m⟩, Go.Error.nil)
  | none => (⟨""⟩, ErrAuthenticationFailed)

/-- the (Principal, error) pair the static store answers for the model's verdict -/
def staticAnswer : Option String → Principal × Go.Error
  | some m => (⟨m⟩, Go.Error.nil)
  | none => (⟨AuthenticationFailedMountPoint⟩, ErrAuthenticationFailed)

/-- what a caller that checks `err != nil` first makes of the pair: the mount point, or a refusal -/
def verdict : Principal × Go.Error → Option String
  | (p, Go.Error.nil) => some p.MountPoint
  | (_, Go.Error.sentinel _) => none

theorem verdict_fileAnswer (o : Option String) : verdict (fileAnswer o) = o := by
  cases o <;> rfl

theorem verdict_staticAnswer (o : Option String) : verdict (staticAnswer o) = o := by
  cases o <;> rfl

theorem defaultMountPoint_eq : DefaultMountPoint = defaultMountPoint := rfl

/-! ### sort.Search: Go's loop on `int` and the model's loop on `Nat` -/

theorem searchLoop_eq_goSearchLoop (fI : Int → Bool) (fN : Nat → Bool) (n : Nat)
    (hf : ∀ k : Nat, k < n → fI (k : Int) = fN k) :
    ∀ (fuel i j : Nat), j ≤ n → Go.searchLoop fI fuel (i : Int) (j : Int) = (goSearchLoop fN fuel i j : Nat) := by
  intro fuel
  induction fuel with
  | zero => intro i j _; rfl
  | succ fuel ih =>
    intro i j hj
    unfold Go.searchLoop goSearchLoop
    by_cases hij : i < j
    · have hij' : (i : Int) < (j : Int) := by omega
      have hh : ((i : Int) + (j : Int)) / 2 = (((i + j) / 2 : Nat) : Int) := by omega
      have hlt : (i + j) / 2 < n := by omega
      simp only [hij, hij', if_true, hh, hf _ hlt]
      cases fN ((i + j) / 2) with
      | false =>
        simp only [Bool.not_false, if_true]
        have e : ((((i + j) / 2 : Nat) : Int) + 1) = ((((i + j) / 2 + 1 : Nat)) : Int) := by omega
        rw [e]
        exact ih _ _ hj
      | true =>
        simp only [Bool.not_true, Bool.false_eq_true, if_false]
        exact ih _ _ (by omega)
    · have hij' : ¬ (i : Int) < (j : Int) := by omega
      simp only [hij, hij', if_false]

theorem search_eq_goSearch (fI : Int → Bool) (fN : Nat → Bool) (n : Nat)
    (hf : ∀ k : Nat, k < n → fI (k : Int) = fN k) :
    Go.search (n : Int) fI = (goSearch n fN : Nat) := by
  have := searchLoop_eq_goSearchLoop fI fN n hf (n + 1) 0 n (Nat.le_refl _)
  simpa [Go.search, goSearch] using this

theorem goSearchLoop_le (f : Nat → Bool) : ∀ (fuel i j : Nat), i ≤ j → goSearchLoop f fuel i j ≤ j := by
  intro fuel
  induction fuel with
  | zero => intro i j h; exact h
  | succ fuel ih =>
    intro i j h
    unfold goSearchLoop
    by_cases hij : i < j
    · simp only [hij, if_true]
      cases f ((i + j) / 2) with
      | false =>
        simp only [Bool.not_false, if_true]
        exact ih _ _ (by omega)
      | true =>
        simp only [Bool.not_true, Bool.false_eq_true, if_false]
        have := ih i ((i + j) / 2) (by omega)
        omega
    · simp only [hij, if_false]; exact h

theorem goSearch_le (n : Nat) (f : Nat → Bool) : goSearch n f ≤ n :=
  goSearchLoop_le f (n + 1) 0 n (Nat.zero_le _)

/-! ### fileHandler.Authenticate -/

theorem len_handler (db : List Record) : Go.len (handlerOf db).db = (db.length : Int) := by
  simp [handlerOf, Go.len]

theorem index_handler (db : List Record) (k : Nat) (r : Record) (h : db[k]? = some r) :
    Go.index (handlerOf db).db (k : Int) = recLit r := by
  simp [handlerOf, Go.index, List.getElem?_map, h]

/-- one turn of the scan loop at an index inside the table -/
theorem turn_some (B : Go.Bytes → String) (db : List Record) (mq : ApplicationContext) (u : String)
    (k : Nat) (r : Record) (h : db[k]? = some r) :
    fileAuthenticate_loop1 B (handlerOf db) mq u (k : Int)
      = if r.userHash = u then
          if r.passHash = B mq.Password then
            some (Go.Ctl.ret (handlerOf db, (⟨r.mount⟩ : Principal), Go.Error.nil))
          else some (Go.Ctl.next ((k : Int) + 1))
        else some (Go.Ctl.done (k : Int)) := by
  have hk : k < db.length := (List.getElem?_eq_some_iff.mp h).1
  have hlt : Go.lt (k : Int) (Go.len (handlerOf db).db) = true := by
    rw [len_handler, Go.lt_iff]; omega
  have hin : Go.inRange (handlerOf db).db (k : Int) = true := by
    rw [Go.inRange_iff]; simp only [handlerOf, List.length_map]; omega
  simp only [fileAuthenticate_loop1, hlt, hin, index_handler db k r h, recLit, Go.eq,
    Bool.not_true, Bool.false_or, Bool.true_and, if_true, decide_eq_true_eq]

/-- one turn of the scan loop at the end of the table -/
theorem turn_none (B : Go.Bytes → String) (db : List Record) (mq : ApplicationContext) (u : String) :
    fileAuthenticate_loop1 B (handlerOf db) mq u (db.length : Int) = some (Go.Ctl.done (db.length : Int)) := by
  have hlt : Go.lt (db.length : Int) (Go.len (handlerOf db).db) = false := by
    rw [len_handler]; simp [Go.lt]
  simp [fileAuthenticate_loop1, hlt]

/-- the scan loop as written and the model's `scanFrom` (same fuel): both accept with the same mount
    point, or the loop ends normally where the model refuses -/
theorem loop_spec (B : Go.Bytes → String) (db : List Record) (mq : ApplicationContext) (u : String) :
    ∀ (fuel k : Nat), k ≤ db.length → db.length - k < fuel →
      (∃ m, scanFrom db u (B mq.Password) fuel k = some m ∧
        Go.loop fuel (k : Int) (fileAuthenticate_loop1 B (handlerOf db) mq u)
          = some (Go.Ctl.ret (handlerOf db, (⟨m⟩ : Principal), Go.Error.nil))) ∨
      (scanFrom db u (B mq.Password) fuel k = none ∧ ∃ k' : Int,
        Go.loop fuel (k : Int) (fileAuthenticate_loop1 B (handlerOf db) mq u) = some (Go.Ctl.done k')) := by
  intro fuel
  induction fuel with
  | zero => intro k _ h; omega
  | succ fuel ih =>
    intro k hk hf
    unfold scanFrom Go.loop
    cases hget : db[k]? with
    | none =>
      have : k = db.length := by
        have := List.getElem?_eq_none_iff.mp hget
        omega
      subst this
      right
      exact ⟨rfl, (db.length : Int), by simp only [turn_none]⟩
    | some r =>
      have hlt : k < db.length := (List.getElem?_eq_some_iff.mp hget).1
      simp only [turn_some B db mq u k r hget]
      by_cases hu : r.userHash = u
      · by_cases hp : r.passHash = B mq.Password
        · left
          exact ⟨r.mount, by simp [hu, hp], by simp [hu, hp]⟩
        · simp only [hu, hp, if_true, if_false]
          have e : ((k : Int) + 1) = ((k + 1 : Nat) : Int) := by omega
          rw [e]
          exact ih (k + 1) (by omega) (by omega)
      · right
        exact ⟨by simp [hu], (k : Int), by simp [hu]⟩

/-- `(*fileHandler).Authenticate` as written, on ANY table (sorted or not) and any byte strings whose
    fingerprints are those of `user` / `pass`: no panic, the handler is unchanged, and the answer is the
    one of the model `Wasp.Auth.authenticate` -/
theorem fileAuthenticateLit_eq (B : Go.Bytes → String) (H : String → String) (db : List Record)
    (user pass : String) (ub pb : Go.Bytes) (hu : B ub = H user) (hp : B pb = H pass) :
    fileAuthenticate B (handlerOf db) ⟨ub, pb⟩
      = some (handlerOf db, fileAnswer (authenticate H db user pass)) := by
  let fN : Nat → Bool := fun i => match db[i]? with
      | some r => decide (r.userHash ≥ H user) | none => true
  have hauth : authenticate H db user pass =
      scanFrom db (H user) (H pass) (db.length + 1) (goSearch db.length fN) := rfl
  have hg : Go.forallBelow (Go.len (handlerOf db).db) (fun i => Go.inRange (handlerOf db).db i) = true := by
    rw [Go.forallBelow_iff]; intro i h0 hi; rw [Go.inRange_iff]
    rw [len_handler] at hi
    simp only [handlerOf, List.length_map]; exact ⟨h0, hi⟩
  have hs : Go.search (Go.len (handlerOf db).db)
      (fun i => Go.strGe (Go.index (handlerOf db).db i).UsernameHash (H user)) = (goSearch db.length fN : Nat) := by
    rw [len_handler]
    apply search_eq_goSearch
    intro k hk
    have hget : db[k]? = some db[k] := List.getElem?_eq_getElem hk
    simp only [index_handler db k _ hget, fN, hget, recLit, Go.strGe]
  have hle := goSearch_le db.length fN
  have hl := loop_spec B db ⟨ub, pb⟩ (H user) (db.length + 1) (goSearch db.length fN) hle (by omega)
  have hfuel : (Go.len (handlerOf db).db).toNat + 1 = db.length + 1 := by rw [len_handler]; simp
  rw [hauth]
  simp only [fileAuthenticate, hu, hg, hs, hfuel, if_true]
  simp only [hp] at hl
  generalize goSearch db.length fN = idx at hl ⊢
  rcases hl with ⟨m, e1, e2⟩ | ⟨e1, k', e2⟩
  · simp only [e1, e2, fileAnswer]
  · simp only [e1, e2, fileAnswer]

/-! ### staticHandler.Authenticate, StaticHandler -/

/-- `(*staticHandler).Authenticate` as written = the model `Wasp.Auth.staticAuthenticate`, on the
    handler that holds the fingerprints of the configured pair -/
theorem staticAuthenticateLit_eq (B : Go.Bytes → String) (H : String → String) (cu cp user pass : String)
    (ub pb : Go.Bytes) (hu : B ub = H user) (hp : B pb = H pass) :
    Wasp.Generated.AuthLit.staticAuthenticate B ⟨H cu, H cp⟩ ⟨ub, pb⟩
      = some (⟨H cu, H cp⟩, staticAnswer (Wasp.Auth.staticAuthenticate H cu cp user pass)) := by
  unfold Wasp.Generated.AuthLit.staticAuthenticate Wasp.Auth.staticAuthenticate
  simp only [hu, hp, Go.ne]
  by_cases h1 : H user = H cu
  · by_cases h2 : H pass = H cp
    · simp [h1, h2, staticAnswer, defaultMountPoint_eq]
    · simp [h1, h2, staticAnswer]
  · simp [h1, staticAnswer]

/-- `StaticHandler(username, password)` as written builds that handler (no error) -/
theorem staticHandlerNewLit_eq (B : Go.Bytes → String) (cu cp : String) :
    staticHandlerNew B cu cp
      = some (⟨B (Go.bytesOfString cu), B (Go.bytesOfString cp)⟩, Go.Error.nil) := rfl

/-! ### FileHandler: the record-building loop and the sort -/

/-- the records one csv line contributes -/
def lineLit (H : String → String) (x : List String) : List fileRecord := ((recordOf H x).toList).map recLit

theorem load_turn (B : Go.Bytes → String) (pre : List (List String)) (x : List String) (rest : List (List String))
    (out : List fileRecord) :
    fileHandlerLoad_loop1 B (pre ++ x :: rest) (out, (pre.length : Int))
      = some (Go.Ctl.next (out ++ lineLit (fun s => B (Go.bytesOfString s)) x, (pre.length : Int) + 1)) := by
  have hlt : Go.lt (pre.length : Int) (Go.len (pre ++ x :: rest)) = true := by
    rw [Go.lt_iff]; simp only [Go.len, List.length_append, List.length_cons]; omega
  simp only [fileHandlerLoad_loop1, hlt, Go.inRange_append_length, Go.index_append_length, if_true, Bool.true_and]
  match x with
  | [] => simp [lineLit, recordOf, Go.eq, Go.len]
  | [a] => simp [lineLit, recordOf, Go.eq, Go.len]
  | [a, b] =>
    simp [lineLit, recordOf, recLit, Go.eq, Go.len, Go.inRange, Go.index, defaultMountPoint_eq]
  | [a, b, c] =>
    simp only [Go.inRange_append_last, Go.index_append_last, Go.set_append_last]
    by_cases hc : c = ""
    · simp [lineLit, recordOf, recLit, Go.eq, Go.len, defaultMountPoint_eq, hc, Go.inRange, Go.index]
    · simp [lineLit, recordOf, recLit, Go.eq, Go.len, hc, Go.inRange, Go.index]
  | a :: b :: c :: d :: t =>
    have h2 : Go.eq (Go.len (a :: b :: c :: d :: t)) (2 : Int) = false := by
      simp only [Go.eq, Go.len, List.length_cons, decide_eq_false_iff_not]; omega
    have h3 : Go.eq (Go.len (a :: b :: c :: d :: t)) (3 : Int) = false := by
      simp only [Go.eq, Go.len, List.length_cons, decide_eq_false_iff_not]; omega
    simp [lineLit, recordOf, h2, h3]

theorem load_loop (B : Go.Bytes → String) :
    ∀ (rest pre : List (List String)) (out : List fileRecord) (fuel : Nat), rest.length < fuel →
      Go.loop fuel (out, (pre.length : Int)) (fileHandlerLoad_loop1 B (pre ++ rest))
        = some (Go.Ctl.done (out ++ (rest.filterMap (recordOf (fun s => B (Go.bytesOfString s)))).map recLit,
            ((pre ++ rest).length : Int))) := by
  intro rest
  induction rest with
  | nil =>
    intro pre out fuel hf
    obtain ⟨n, rfl⟩ : ∃ n, fuel = n + 1 := ⟨fuel - 1, by simp at hf; omega⟩
    have hlt : Go.lt (pre.length : Int) (Go.len pre) = false := by
      simp [Go.lt, Go.len]
    simp [Go.loop, fileHandlerLoad_loop1, hlt]
  | cons x rest ih =>
    intro pre out fuel hf
    obtain ⟨n, rfl⟩ : ∃ n, fuel = n + 1 := ⟨fuel - 1, by simp at hf; omega⟩
    have := ih (pre ++ [x]) (out ++ lineLit (fun s => B (Go.bytesOfString s)) x) n (by simp at hf; omega)
    simp only [List.append_assoc, List.singleton_append, List.length_append, List.length_singleton,
      Int.natCast_add, Int.natCast_one] at this
    simp only [Go.loop, load_turn, this]
    cases hrec : recordOf (fun s => B (Go.bytesOfString s)) x <;>
      simp [lineLit, hrec, List.length_append]

/-- `sort.SliceStable(out, searchHelper(out))` (less = `strings.Compare(a, b) == -1`) is the model's stable
    insertion sort by user fingerprint -/
theorem insertBy_lit (r : Record) (l : List Record) :
    Go.insertBy (fun e_i e_j : fileRecord => Go.eq (Go.strCompare e_i.UsernameHash e_j.UsernameHash) (-(1 : Int)))
      (recLit r) (l.map recLit) = (insertByUser r l).map recLit := by
  induction l with
  | nil => rfl
  | cons x rest ih =>
    have hless : Go.eq (Go.strCompare (recLit x).UsernameHash (recLit r).UsernameHash) (-(1 : Int))
        = decide (x.userHash < r.userHash) := by
      show decide (Go.strCompare x.userHash r.userHash = -1) = decide (x.userHash < r.userHash)
      rw [decide_eq_decide]
      exact Go.strCompare_neg_one_iff _ _
    simp only [List.map_cons, Go.insertBy, hless, insertByUser]
    by_cases hlt : x.userHash < r.userHash
    · have : ¬ r.userHash ≤ x.userHash := fun h => (String.not_lt.mpr h) hlt
      simp [hlt, this, ih]
    · have : r.userHash ≤ x.userHash := String.not_lt.mp hlt
      simp [hlt, this]

theorem sortStableBy_lit (l : List Record) :
    Go.sortStableBy (fun e_i e_j : fileRecord => Go.eq (Go.strCompare e_i.UsernameHash e_j.UsernameHash) (-(1 : Int)))
      (l.map recLit) = (sortByUser l).map recLit := by
  induction l with
  | nil => rfl
  | cons x rest ih =>
    have ih' : List.foldr (Go.insertBy fun e_i e_j : fileRecord =>
        Go.eq (Go.strCompare e_i.UsernameHash e_j.UsernameHash) (-(1 : Int))) [] (List.map recLit rest)
        = (sortByUser rest).map recLit := ih
    simp only [Go.sortStableBy, List.map_cons, List.foldr_cons, ih', insertBy_lit]
    rfl

/-- `FileHandler` as written, from the parsed csv records on (the record-building loop, the stable sort,
    the returned handler): no panic, no error, and the handler holds exactly the model's `load` -/
theorem fileHandlerLoadLit_eq (B : Go.Bytes → String) (records : List (List String)) :
    fileHandlerLoad B records
      = some (handlerOf (load (fun s => B (Go.bytesOfString s)) records), Go.Error.nil) := by
  have hl := load_loop B records [] [] ((Go.len records).toNat + 1) (by simp [Go.len])
  simp only [List.nil_append, List.length_nil, Int.natCast_zero] at hl
  simp only [fileHandlerLoad, hl, sortStableBy_lit, handlerOf, load]

/-! ### the two together, and non-vacuity -/

/-- the handler `FileHandler` builds, queried by `Authenticate`: the model's `authenticate ∘ load` -/
theorem file_end_to_end (B : Go.Bytes → String) (records : List (List String)) (user pass : String) :
    (fileHandlerLoad B records).bind (fun hr =>
        fileAuthenticate B hr.1 ⟨Go.bytesOfString user, Go.bytesOfString pass⟩)
      = some (handlerOf (load (fun s => B (Go.bytesOfString s)) records),
          fileAnswer (authenticate (fun s => B (Go.bytesOfString s))
            (load (fun s => B (Go.bytesOfString s)) records) user pass)) := by
  rw [fileHandlerLoadLit_eq]
  exact fileAuthenticateLit_eq B (fun s => B (Go.bytesOfString s)) _ user pass _ _ rfl rfl

/-- non-vacuity: the translated code run on a concrete file (six users in "bad" order, a duplicate user name,
    2- and 3-field lines, an empty third field, lines of other lengths), with a stand-in fingerprint
    (injective: the decimal byte values, each followed by a dot) -/
def demoB : Go.Bytes → String := fun b => String.join (b.map fun c => toString c.toNat ++ ".")

def demoH (s : String) : String := demoB (Go.bytesOfString s)

def demoRecords : List (List String) :=
  [["u4", demoH "p4"], ["u1", demoH "p1", "m1"], ["u6", demoH "p6"], [], ["u2", demoH "p2", ""],
   ["u5", demoH "p5", "m5"], ["x"], ["u3", demoH "p3"], ["u1", demoH "q1", "n1"], ["a", "b", "c", "d"]]

/-- load with the code as written, ask with the code as written: the outer `Option` is the panic channel,
    the inner one the verdict -/
def demoAsk (user pass : String) : Option (Option String) :=
  ((fileHandlerLoad demoB demoRecords).bind (fun hr =>
      fileAuthenticate demoB hr.1 ⟨Go.bytesOfString user, Go.bytesOfString pass⟩)).map (fun r => verdict r.2)

example : [demoAsk "u1" "p1", demoAsk "u1" "q1", demoAsk "u2" "p2", demoAsk "u3" "p3", demoAsk "u4" "p4",
           demoAsk "u5" "p5", demoAsk "u6" "p6", demoAsk "u6" "p5", demoAsk "u0" "p1", demoAsk "x" "", demoAsk "u7" "p7"]
    = [some (some "m1"), some (some "n1"), some (some "_default"), some (some "_default"), some (some "_default"),
       some (some "m5"), some (some "_default"), some none, some none, some none, some none] := by decide

example : (fileHandlerLoad demoB demoRecords).map (fun hr => hr.1.db.map (·.MountPoint))
    = some ["m1", "n1", "_default", "_default", "_default", "m5", "_default"] := by decide

/-- the static store as written: the configured pair, a wrong password, a wrong user -/
example : ((staticHandlerNew demoB "admin" "secret").bind fun hr =>
      (Wasp.Generated.AuthLit.staticAuthenticate demoB hr.1 ⟨Go.bytesOfString "admin", Go.bytesOfString "secret"⟩)).map (·.2)
    = some (⟨"_default"⟩, Go.Error.nil) := by decide

example : ((staticHandlerNew demoB "admin" "secret").bind fun hr =>
      (Wasp.Generated.AuthLit.staticAuthenticate demoB hr.1 ⟨Go.bytesOfString "admin", Go.bytesOfString "secre"⟩)).map (·.2)
    = some (⟨"_authentication_failed"⟩, Go.Error.sentinel "ErrAuthenticationFailed") := by decide

/-- the panic channel is not vacuous either: a handler cannot make `Authenticate` panic, but the guard is
    there — an index outside the table is `none` in the translated loop -/
example : fileAuthenticate_loop1 demoB (handlerOf []) ⟨[], []⟩ "" (-1) = none := by decide

end Wasp.Auth.Lit

import Wasp.Model.Auth
import Driver.Util
/-! Driver for domain `auth`. User names and passwords travel as `plain=fingerprint`: the
    implementation hashes the plain text itself (SHA-256), the model takes the fingerprint
    as given (H := id on fingerprints), so both sort and compare the same strings.
      file <line>…      line = name=fp:passfield[:mount] (fields `_` = empty)
      auth name=fp pass=fp
      static user pass | sauth user pass -/
namespace Driver.Auth
open Wasp.Auth

structure St where
  db : List Record := []
  su : String := ""
  sp : String := ""

def un (s : String) : String := if s = "_" then "" else s
def fpOf (s : String) : String := match s.splitOn "=" with | [_, fp] => fp | _ => s

def parseLine (s : String) : List String :=
  match s.splitOn ":" with
  | u :: rest => fpOf u :: rest.map un
  | [] => []

def step (st : St) (line : String) : St × String :=
  match Driver.words line with
  | "file" :: ls => ({ st with db := load id (ls.map parseLine) }, "ok")
  | ["auth", u, p] =>
    match authenticate id st.db (fpOf u) (fpOf p) with
    | some m => (st, "accept " ++ m)
    | none => (st, "reject")
  | ["par", _] => (st, "par-mismatch=0")   -- the model's store is a function: asked again, it answers the same
  | ["static", u, p] => ({ st with su := un u, sp := un p }, "ok")
  | ["sauth", u, p] =>
    match staticAuthenticate id st.su st.sp (un u) (un p) with
    | some m => (st, "accept " ++ m)
    | none => (st, "reject")
  | _ => (st, "bad-op")

end Driver.Auth

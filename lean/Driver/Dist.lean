import Wasp.Model.Dist
import Driver.Util
/-! Driver for domain `dist`: up to 3 nodes of replicated state (see harness/dist.go for the
    op syntax; both sides print the same canonical renderings). -/
namespace Driver.Dist
open Wasp.Dist

def sortStrs (l : List String) : List String := (l.toArray.qsort (· < ·)).toList

def showWill : Option Will → String
  | none => "-"
  | some w => s!"{Driver.safe w.topic}:{if w.payload = "" then "-" else w.payload}:{w.qos}:{if w.retain then 1 else 0}"

def showS (s : SessionMD) (stamps : Bool) : String :=
  let base := s!"S,{Driver.safe s.id},{Driver.safe s.client},{Driver.safe s.mount},{s.peer},{showWill s.lwt}"
  if stamps then base ++ s!",{s.added},{s.deleted}" else base
def showU (s : Sub) (stamps : Bool) : String :=
  let base := s!"U,{Driver.safe s.session},{Driver.safe s.pattern},{s.peer},{s.qos}"
  if stamps then base ++ s!",{s.added},{s.deleted}" else base
def showR (r : Retained) (stamps : Bool) : String :=
  let base := if r.hasPublish then s!"R,{Driver.safe r.topic},{if r.payload = "" then "-" else r.payload},{r.qos},{if r.retain then 1 else 0}" else "R!"
  if stamps then base ++ s!",{r.added},{r.deleted}" else base

def showList (l : List String) : String := "[" ++ " ".intercalate (sortStrs l) ++ "]"

def showEvent (e : Event) : String :=
  showList (e.sessions.map (showS · true) ++ e.subs.map (showU · true) ++ e.retained.map (showR · true))

def showVisible (st : State) : String :=
  showList ((sessAll st).map (showS · false)) ++ " " ++ showList ((subAll st).map (showU · false)) ++ " " ++
    showList ((topicGet st "#").map (showR · false))

structure World where
  nodes : List State := [{ peer := 1 }, { peer := 2 }, { peer := 3 }]
  sent : List (List Event) := [[], [], []]
  pending : List (List Event) := [[], [], []]
  offs : List Int := [0, 0, 0]
  tick : Int := 0
  lazyMode : Bool := false

def World.node (w : World) (i : Nat) : State := w.nodes.getD i { peer := 0 }
def World.setNode (w : World) (i : Nat) (s : State) : World := { w with nodes := w.nodes.set i s }
def World.now (w : World) (i : Nat) : Int := 1000 + w.tick * 10 + w.offs.getD i 0

def World.queue (w : World) (i : Nat) (e : Event) : World :=
  if w.lazyMode then { w with pending := w.pending.set i (w.pending.getD i [] ++ [e]) }
  else { w with sent := w.sent.set i (w.sent.getD i [] ++ [e]) }

def World.flush (w : World) (i : Nat) : World × List Event :=
  let p := w.pending.getD i []
  let sorted := (p.toArray.qsort (fun a b => showEvent a < showEvent b)).toList
  ({ w with pending := w.pending.set i [], sent := w.sent.set i (w.sent.getD i [] ++ sorted) }, sorted)

def parseWill (s : String) : Option Will :=
  if s = "-" then none else
  match s.splitOn ":" with
  | [t, p, q, r] => some ⟨t, if p = "-" then "" else p, q.toNat!, r = "1"⟩
  | _ => none

def parseEntry (ev : Event) (s : String) : Option Event :=
  match s.splitOn "," with
  | ["S", id, cl, mp, peer, a, d] => do
      let a ← a.toInt?; let d ← d.toInt?
      pure { ev with sessions := ev.sessions ++ [⟨id, cl, mp, peer.toNat!, 0, none, a, d⟩] }
  | ["U", sess, pat, peer, qos, a, d] => do
      let a ← a.toInt?; let d ← d.toInt?; let q ← qos.toInt?
      pure { ev with subs := ev.subs ++ [⟨sess, pat, peer.toNat!, q, a, d⟩] }
  | ["R", t, p, a, d] => do
      let a ← a.toInt?; let d ← d.toInt?
      pure { ev with retained := ev.retained ++ [{ topic := t, payload := if p = "-" then "" else p, qos := 0, retain := true, dup := false, added := a, deleted := d }] }
  | ["R!", a, d] => do
      let a ← a.toInt?; let d ← d.toInt?
      pure { ev with retained := ev.retained ++ [{ topic := "", payload := "", qos := 0, retain := false, dup := false, hasPublish := false, added := a, deleted := d }] }
  | _ => none

/-- `_` stands for the empty string in injected entries -/
def unEmpty (s : String) : String := if s = "_" then "" else s

def parseEntries (s : String) : Option Event :=
  (s.splitOn ";").foldl (fun acc e => acc.bind (fun ev => parseEntry ev (",".intercalate ((e.splitOn ",").map unEmpty)))) (some {})

def showErr : Err → String
  | .none => "ok" | .exists_ => "exists" | .notFound => "notfound" | .invalid => "invalid"

def bcStr (w : World) (e : Option Event) : String :=
  if w.lazyMode then "" else
  match e with
  | none => " bc=none"
  | some e => " bc=" ++ showEvent e

def localOp (w : World) (i : Nat) (r : State × Option Event) (err : String := "ok") : World × String :=
  let w1 := (w.setNode i r.1)
  let w2 := match r.2 with | some e => w1.queue i e | none => w1
  ({ w2 with tick := w2.tick + 1 }, err ++ bcStr w r.2)

def step (w : World) (line : String) : World × String :=
  match Driver.words line with
  | ["reset"] => ({}, "ok")
  | ["lazy", b] => ({ w with lazyMode := b = "on" }, "ok")
  | ["off", n, o] => ({ w with offs := w.offs.set n.toNat! (o.toInt?.getD 0) }, "ok")
  | ["screate", n, id, cl, mp, will] =>
    let i := n.toNat!
    let cl := if cl = "~" then "" else cl   -- the empty client identifier
    let (st, ev, err) := sessCreate (w.node i) (w.now i) id cl 0 (parseWill will) mp
    localOp w i (st, ev) (showErr err)
  | ["sdelete", n, id] =>
    let i := n.toNat!
    localOp w i (sessDelete (w.node i) (w.now i) id)
  | ["sdelpeer", n, p] =>
    let i := n.toNat!
    let (st, ev) := sessDeletePeer (w.node i) (w.now i) p.toNat!
    localOp w i (st, some ev)
  | ["subcreate", n, sess, pat, q] =>
    let i := n.toNat!
    let (st, ev) := subCreate (w.node i) (w.now i) sess pat (q.toInt?.getD 0)
    localOp w i (st, some ev)
  | ["subdelete", n, sess, pat] =>
    let i := n.toNat!
    let (st, ev) := subDelete (w.node i) (w.now i) sess pat
    localOp w i (st, some ev)
  | ["subdelpeer", n, p] =>
    let i := n.toNat!
    let (st, ev) := subDeletePeer (w.node i) (w.now i) p.toNat!
    localOp w i (st, some ev)
  | ["subdelsess", n, id] =>
    let i := n.toNat!
    let (st, ev) := subDeleteSession (w.node i) (w.now i) id
    localOp w i (st, some ev)
  | ["tset", n, t, p, q, r] =>
    let i := n.toNat!
    let (st, ev) := topicSet (w.node i) (w.now i) t (if p = "-" then "" else p) q.toNat! (r = "1") false
    localOp w i (st, some ev)
  | ["tdel", n, t] =>
    let i := n.toNat!
    let (st, ev) := topicDelete (w.node i) (w.now i) t
    localOp w i (st, some ev)
  | ["flush", n] =>
    let (w', evs) := w.flush n.toNat!
    (w', showList (evs.map showEvent))
  | ["deliver", f, k, t] =>
    match (w.sent.getD f.toNat! [])[k.toNat!]? with
    | some ev => (w.setNode t.toNat! (merge (w.node t.toNat!) ev), "ok")
    | none => (w, "nosuch")
  | ["deliverall", f, t] =>
    let st := (w.sent.getD f.toNat! []).foldl merge (w.node t.toNat!)
    (w.setNode t.toNat! st, "ok")
  | ["batch", f, ks, t] =>
    let evs := (ks.splitOn ",").filterMap (fun k => (w.sent.getD f.toNat! [])[k.toNat!]?)
    let ev := evs.foldl Event.append {}
    (w.setNode t.toNat! (merge (w.node t.toNat!) ev), "ok")
  | ["sync", f, t] =>
    (w.setNode t.toNat! (merge (w.node t.toNat!) (snapshot (w.node f.toNat!))), "ok")
  | ["inj", t, entries] =>
    match parseEntries entries with
    | some ev => (w.setNode t.toNat! (merge (w.node t.toNat!) ev), "ok")
    | none => (w, "bad-op")
  | ["show", n] => (w, showVisible (w.node n.toNat!))
  | ["full", n] => (w, showEvent (snapshot (w.node n.toNat!)))
  | ["nsent", n] => (w, toString (w.sent.getD n.toNat! []).length)
  | ["byp", n, t] => (w, showList ((subByPattern (w.node n.toNat!) t).map (showU · false)))
  | ["bypeer", n, p] =>
    (w, showList ((sessByPeer (w.node n.toNat!) p.toNat!).map (showS · false)) ++ " " ++
        showList ((subByPeer (w.node n.toNat!) p.toNat!).map (showU · false)))
  | ["bycid", n, mp, cl] =>
    match sessByClientID (w.node n.toNat!) mp cl with
    | [] => (w, "notfound")
    | [s] => (w, showS s false)
    | l => (w, "ambiguous " ++ showList (l.map (showS · false)))
  | ["sget", n, id] =>
    match sessGet (w.node n.toNat!) id with
    | some s => (w, showS s false)
    | none => (w, "notfound")
  | ["tget", n, pat] => (w, showList ((topicGet (w.node n.toNat!) pat).map (showR · false)))
  | _ => (w, "bad-op")

end Driver.Dist

import Wasp.Model.AckQueue
import Driver.Util
/-! Driver for domain `ackq` (ack.Queue over expiration.List):
      new | ins <pfx> <kind> <qos> <mid> <deadline-ms> | ack <pfx> <kind> <mid> | exp <now-ms> -/
namespace Driver.AckQueue
open Wasp.Ack

def kindOf : String → Option (PType × Bool)
  | "publish" => some (.publish, true)
  | "puback" => some (.puback, true)
  | "pubrec" => some (.pubrec, true)
  | "pubrel" => some (.pubrel, true)
  | "pubcomp" => some (.pubcomp, true)
  | "suback" => some (.other, true)
  | "pingreq" => some (.other, false)
  | _ => none

def showKind : PType → String
  | .publish => "publish" | .puback => "puback" | .pubrec => "pubrec" | .pubrel => "pubrel"
  | .pubcomp => "pubcomp" | .other => "other"

def showRes : Res → String
  | .ok => "ok" | .errWrongMID => "wrongmid" | .errDupMID => "dup" | .errWrongPacketType => "wrongtype"
  | .errUnexpectedType => "unexpected" | .errInvalidQos => "invalidqos"

def showEv (e : Resolved) : String := s!"{e.key}:{if e.expired then "exp" else "ack"}:{showKind e.stored}"
def showEvs (l : List Resolved) : String := "[" ++ " ".intercalate (l.map showEv) ++ "]"

def step (q : Queue) (line : String) : Queue × String :=
  match Driver.words line with
  | ["new"] => ({}, "ok")
  | ["ins", pfx, kind, qos, mid, d] =>
    match kindOf kind, mid.toInt?, d.toInt? with
    | some (k, _), some m, some dl =>
      let r := insert q pfx k qos.toNat! m dl
      (r.1, showRes r.2)
    | _, _, _ => (q, "bad-op")
  | ["ack", pfx, kind, mid] =>
    match kindOf kind, mid.toInt? with
    | some (k, hasMid), some m =>
      let r := ack q pfx k hasMid m
      (r.1, showRes r.2.1 ++ " " ++ showEvs r.2.2)
    | _, _ => (q, "bad-op")
  | ["exp", now] =>
    match now.toInt? with
    | some n => let r := expire q n; (r.1, "ok " ++ showEvs r.2)
    | none => (q, "bad-op")
  | _ => (q, "bad-op")

end Driver.AckQueue

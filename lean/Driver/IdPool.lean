import Wasp.Model.IdPool
import Driver.Util
/-! Driver for domain `idpool`:
      new <min> <max>   -> ok
      get               -> <id>
      put <mid>         -> -
    and the state-space enumerator `idpool-bfs <min> <max>`. -/
namespace Driver.IdPool
open Wasp.IdPool

def step (p : Pool) (line : String) : Pool × String :=
  match Driver.words line with
  | ["new", a, b] =>
    match a.toInt?, b.toInt? with
    | some mn, some mx => (new mn mx, "ok")
    | _, _ => (p, "bad-op")
  | ["get"] => let (p', v) := get p; (p', toString v)
  | ["put", m] =>
    match m.toInt? with
    | some k => (put p k, "-")
    | none => (p, "bad-op")
  | _ => (p, "bad-op")

/-- breadth-first enumeration of all reachable allocator states for a small range;
    for every state (reached by a shortest op path) and every op it prints the op
    sequence  path ++ [op] ++ drain,  so that replaying the printed sequences on the
    implementation covers every reachable state and every transition. -/
def opsFor (mn mx : Int) : List Op :=
  Op.get :: (List.range ((mx - mn + 3).toNat)).map (fun (i : Nat) => Op.put (mn - 1 + (i : Int)))

def showOp : Op → String
  | .get => "get"
  | .put m => s!"put {m}"

partial def bfs (mn mx : Int) (frontier : List (Pool × List Op)) (seen : List Pool) (acc : List (List Op)) :
    List (List Op) × Nat :=
  match frontier with
  | [] => (acc.reverse, seen.length)
  | (p, path) :: rest =>
    let ops := opsFor mn mx
    let drain := List.replicate ((mx - mn + 2).toNat) Op.get
    let (front', seen', acc') := ops.foldl (fun (st : List (Pool × List Op) × List Pool × List (List Op)) op =>
      let (fr, sn, ac) := st
      let p' := (Wasp.IdPool.step p op).1
      let ac' := (path ++ [op] ++ drain) :: ac
      if sn.contains p' then (fr, sn, ac') else (fr ++ [(p', path ++ [op])], p' :: sn, ac')) (rest, seen, acc)
    bfs mn mx front' seen' acc'

def bfsMain (mn mx : Int) : IO Unit := do
  let p0 := new mn mx
  let (seqs, nstates) := bfs mn mx [(p0, [])] [p0] []
  IO.eprintln s!"states={nstates} sequences={seqs.length}"
  for sq in seqs do
    IO.println s!"new {mn} {mx}"
    for op in sq do
      IO.println (showOp op)

end Driver.IdPool

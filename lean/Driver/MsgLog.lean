import Wasp.Model.MsgLog
import Driver.Util
/-! Driver for domain `msglog` (messages.Log + its consumer across process incarnations):
      new | append <n> | run <k> <in|clean|sched> | get <offset> -/
namespace Driver.MsgLog
open Wasp.MsgLog

/-- batch size of the commit log's polling consumer (vx-labs/commitlog/stream, default; modelled, not verified) -/
def pollBatch : Nat := 10

def showNats (l : List Nat) : String := "[" ++ " ".intercalate (l.map toString) ++ "]"

def step (s : State) (line : String) : State × String :=
  match Driver.words line with
  | ["new"] => ({}, "ok")
  | ["bye"] => (s, "ok")
  | ["append", n] =>
    let s' := (exec s (List.replicate n.toNat! .append)).1
    (s', s!"next={s'.log.next}")
  | ["run", k, "sched"] =>
    -- graceful stop (context cancelled) inside the k-th hand-over of wasp.SchedulePublishes: Consume looks at the context
    -- between two BATCHES of the poller (10 records, counted from the record it was positioned on), so the rest of
    -- the batch is handed over and committed — a clean stop after k' hand-overs
    let k := k.toNat!
    let avail := s.log.next - s.st
    if k = 0 ∨ k ≥ avail then
      let r := incarnation s (min k avail) false
      (r.1, showNats r.2)
    else
      let from_ := s.st - 1
      let last := s.st + k - 1
      let batchEnd := from_ + pollBatch * ((last - from_) / pollBatch + 1)
      let r := incarnation s (min batchEnd s.log.next - s.st) false
      (r.1, showNats r.2)
  | ["run", k, phase] =>
    let r := incarnation s k.toNat! (phase = "in")
    (r.1, showNats r.2)
  | ["get", o] =>
    let o := o.toNat!
    -- commitlog positions a reader that asks for a truncated offset on the first entry still on disk
    if o < s.log.base then (s, s!"t{s.log.base}")
    else if o < s.log.next then (s, s!"t{o}")
    else (s, "err")
  | _ => (s, "bad-op")

end Driver.MsgLog

import Wasp.Model.MsgLog
import Driver.Util
/-! Driver for domain `msglog` (messages.Log + its consumer across process incarnations):
      new | append <n> | run <k> <in|clean> | get <offset> -/
namespace Driver.MsgLog
open Wasp.MsgLog

def showNats (l : List Nat) : String := "[" ++ " ".intercalate (l.map toString) ++ "]"

def step (s : State) (line : String) : State × String :=
  match Driver.words line with
  | ["new"] => ({}, "ok")
  | ["bye"] => (s, "ok")
  | ["append", n] =>
    let s' := (exec s (List.replicate n.toNat! .append)).1
    (s', s!"next={s'.log.next}")
  | ["run", k, phase] =>
    let r := incarnation s k.toNat! (phase = "in")
    (r.1, showNats r.2)
  | ["get", o] =>
    let o := o.toNat!
    -- commitlog positions a reader that asks for a truncated offset on the first entry still on disk
    if o < s.log.base then (s, s!"t{s.log.base}")
    else if o < s.log.next then (s, s!"t{o}")
    else (s, "err")
  | _ => (s, "bad-op")

end Driver.MsgLog

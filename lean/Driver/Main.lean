import Driver.IdPool
import Driver.Trie
import Driver.Dist
import Driver.AckQueue
import Driver.Auth
import Driver.MsgLog
import Driver.Broker
import Driver.Wire
/-! `waspmodel <domain> [args]` — executes the Lean models on op lines from stdin. -/
open Driver

def main (args : List String) : IO UInt32 := do
  let stdin ← IO.getStdin
  let stdout ← IO.getStdout
  match args with
  | ["idpool"] =>
    loop stdin stdout Driver.IdPool.step (Wasp.IdPool.new 0 65535); return 0
  | ["idpool-bfs", a, b] =>
    match a.toInt?, b.toInt? with
    | some mn, some mx => Driver.IdPool.bfsMain mn mx; return 0
    | _, _ => IO.eprintln "bad args"; return 2
  | ["subtree"] => loop stdin stdout Driver.Trie.stepSub Wasp.Trie.Node.empty; return 0
  | ["rettree"] => loop stdin stdout Driver.Trie.stepRet Wasp.Trie.Node.empty; return 0
  | ["match"] => loop stdin stdout Driver.Trie.stepMatch (); return 0
  | ["dist"] => loop stdin stdout Driver.Dist.step {}; return 0
  | ["ackq"] => loop stdin stdout Driver.AckQueue.step {}; return 0
  | ["auth"] => loop stdin stdout Driver.Auth.step {}; return 0
  | ["msglog"] => loop stdin stdout Driver.MsgLog.step {}; return 0
  | ["wire"] => loop stdin stdout Driver.Wire.step (); return 0
  | ["broker"] => loop stdin stdout Driver.Broker.step {}; return 0
  | "broker" :: _ => loop stdin stdout Driver.Broker.step {}; return 0
  | _ => IO.eprintln "usage: waspmodel <domain>"; return 2

import Wasp.Model.Trie
import Driver.Util
/-! Driver for domains `subtree` (subscriptions.Tree) and `rettree` (topics.Store).
    Topics are written verbatim; `~` denotes the empty topic; data is hex, `-` = empty. -/
namespace Driver.Trie
open Wasp.Trie Wasp.Topic

def topicOf (s : String) : String := if s = "~" then "" else s

def sortStrs (l : List String) : List String := (l.toArray.qsort (· < ·)).toList

def showBytesList (l : List Bytes) : String :=
  "[" ++ " ".intercalate (sortStrs (l.map Driver.showHex)) ++ "]"

def stepSub (n : Node) (line : String) : Node × String :=
  match Driver.words line with
  | ["new"] => (Node.empty, "ok")
  | ["set", t, d] =>
    match Driver.fromHex d with
    | some b => (Sub.update (fun _ => b) (levels (topicOf t)) n, "ok")
    | none => (n, "bad-op")
  | ["app", t, d] =>
    match Driver.fromHex d with
    | some b => (Sub.update (fun old => old ++ b) (levels (topicOf t)) n, "ok")
    | none => (n, "bad-op")
  | ["walk", t] => (n, showBytesList (Sub.walk (levels (topicOf t)) n))
  | ["iter"] => (n, showBytesList (iterate n))
  | ["dumpload"] => (dumpLoad n, "ok")
  | _ => (n, "bad-op")

def stepRet (n : Node) (line : String) : Node × String :=
  match Driver.words line with
  | ["new"] => (Node.empty, "ok")
  | ["ins", t, d] =>
    match Driver.fromHex d with
    | some b => let (n', old) := Ret.insert b (levels (topicOf t)) n; (n', s!"old={old}")
    | none => (n, "bad-op")
  | ["rm", t] =>
    match Ret.remove (levels (topicOf t)) n with
    | some n' => (n', "ok")
    | none => (n, "notfound")
  | ["match", t] => (n, showBytesList (Ret.match (levels (topicOf t)) n))
  | ["count"] => (n, toString (Ret.count n))
  | ["iter"] => (n, showBytesList (iterate n))
  | ["dumpload"] => (dumpLoad n, "ok")
  | _ => (n, "bad-op")

/-- domain `match`: the specification itself: `m <filter> <topic>` -> true/false -/
def stepMatch (u : Unit) (line : String) : Unit × String :=
  match Driver.words line with
  | ["m", f, t] => (u, toString (mqttMatch (levels (topicOf f)) (levels (topicOf t))))
  | ["levels", t] => (u, toString (levels (topicOf t)))
  | _ => (u, "bad-op")

end Driver.Trie

/-! Line-protocol helpers shared by all domains of the model driver. -/
namespace Driver

def words (s : String) : List String :=
  (s.splitOn " ").filter (· ≠ "")

def parseInt? (s : String) : Option Int := s.toInt?

def showInts (l : List Int) : String :=
  "[" ++ ",".intercalate (l.map toString) ++ "]"

def hexDigit (n : Nat) : Char :=
  if n < 10 then Char.ofNat (48 + n) else Char.ofNat (87 + n)

def toHex (bs : List UInt8) : String :=
  String.ofList (bs.foldr (fun b acc => hexDigit (b.toNat / 16) :: hexDigit (b.toNat % 16) :: acc) [])

def hexVal (c : Char) : Option Nat :=
  if '0' ≤ c ∧ c ≤ '9' then some (c.toNat - 48)
  else if 'a' ≤ c ∧ c ≤ 'f' then some (c.toNat - 87)
  else if 'A' ≤ c ∧ c ≤ 'F' then some (c.toNat - 55)
  else none

def fromHexAux : List Char → Option (List UInt8)
  | [] => some []
  | [_] => none
  | a :: b :: rest => do
    let x ← hexVal a
    let y ← hexVal b
    let r ← fromHexAux rest
    pure (UInt8.ofNat (x * 16 + y) :: r)

/-- "-" denotes the empty byte string -/
def fromHex (s : String) : Option (List UInt8) :=
  if s = "-" ∨ s = "=" then some [] else fromHexAux s.toList

/-- mirror of the harness' `safe`: verbatim for unproblematic printable strings, 0x-hex otherwise -/
def safe (s : String) : String :=
  let ok (c : Char) : Bool := c.isAlphanum || "/_+#$.-!".toList.contains c
  if s.length > 0 ∧ s.toList.all ok then s
  else "0x" ++ toHex (s.toList.map (fun c => UInt8.ofNat c.toNat))

def showHex (bs : List UInt8) : String := if bs.isEmpty then "-" else toHex bs

/-- generic read-eval-print loop over stdin: `step` consumes one line -/
partial def loop {σ : Type} (h : IO.FS.Stream) (out : IO.FS.Stream) (step : σ → String → σ × String) (s : σ) : IO Unit := do
  let line ← h.getLine
  if line.isEmpty then
    out.flush
    return ()
  let l := String.ofList (line.toList.reverse.dropWhile (fun c => c = '\n' || c = '\r')).reverse
  let (s', o) := step s l
  out.putStrLn o
  loop h out step s'

end Driver

import Wasp.Model.Wire
import Driver.Util
/-! Driver for domain `wire`: `dec <hex>` — the decoder model on a byte string followed by end of input (what
    `closeFromClientRaw` assumes: a partly received body is decoded zero-padded, the decoder ignores the short read). -/
namespace Driver.Wire
open Wasp.Wire Wasp.Broker Wasp.Dist

def showPl (s : String) : String := if s = "" then "-" else s

def showRes : DRes → String
  | .panic => "panic"
  | .err => "err"
  | .connect cid user pass ka will =>
    let w := match will with
      | some w => s!"{Driver.safe w.topic}:{showPl w.payload}:{w.qos}:{if w.retain then 1 else 0}"
      | none => "-"
    s!"connect cid={Driver.safe cid} user={Driver.safe user} pass={Driver.safe pass} ka={ka} will={w}"
  | .pkt p =>
    match p with
    | .publish t pl q r d m => s!"publish t={Driver.safe t} p={showPl pl} q={q} r={if r then 1 else 0} d={if d then 1 else 0} m={m}"
    | .puback m => s!"puback {m}"
    | .pubrec m => s!"pubrec {m}"
    | .pubrel m => s!"pubrel {m}"
    | .pubcomp m => s!"pubcomp {m}"
    | .subscribe m ts => s!"subscribe {m} [{" ".intercalate (ts.map (fun tq => s!"{Driver.safe tq.1}:{tq.2}"))}]"
    | .unsubscribe m ts => s!"unsubscribe {m} [{" ".intercalate (ts.map Driver.safe)}]"
    | .pingreq => "pingreq"
    | .disconnect => "disconnect"
    | .connect => "other"
    | .other => "other"

/-- decode a byte string followed by end of input -/
def decodeThenEOF (buf : Bytes) : DRes :=
  match buf with
  | [] => .err
  | h :: rest =>
    match readRemLen 0 0 1 rest with
    | .need => .err
    | .panic => .panic
    | .ok remlen used =>
      let have_ := (rest.drop used).take remlen
      decodeBody (h / 16) (h % 16) (have_ ++ List.replicate (remlen - have_.length) 0)

def step (st : Unit) (line : String) : Unit × String :=
  match Driver.words line with
  | ["dec", hex] =>
    match Driver.fromHex hex with
    | some bs => (st, showRes (decodeThenEOF (bs.map (·.toNat))))
    | none => (st, "bad-op")
  | _ => (st, "bad-op")

end Driver.Wire

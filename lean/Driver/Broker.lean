import Wasp.Model.Broker
import Wasp.Model.Wire
import Wasp.Model.BrokerOps
import Wasp.Model.AnswerLost
import Driver.Util
import Driver.Dist
import Driver.Auth
/-! Driver for domain `broker` (see harness/broker.go for the op syntax). Renders, after every
    op, the packets each client received since the previous op — sorted, with broker-chosen packet
    identifiers numbered per client in content order — exactly as the harness does. -/
namespace Driver.Broker
open Wasp.Broker Wasp.Dist

structure CState where
  midCan : List (Int × Nat) := []    -- raw id ↦ canonical index (while the exchange is open)
  canMid : List (Nat × Int) := []    -- canonical index ↦ raw id (kept)
  nextCan : Nat := 0
  outst : List (Nat × Nat) := []     -- (canonical index, qos) of deliveries this client has not acknowledged
  toldClosed : Bool := false         -- CLOSED is reported once per connection

/-- who decides CONNECTs: the harness rule (user = mount point, password "ok"), or a model of a real credential store -/
inductive AuthCfg where
  | harness
  | file (db : List Wasp.Auth.Record)
  | static (user pass : String)

structure St where
  w : World := World.init 1
  clients : List (String × CState) := []
  auth : AuthCfg := .harness
  muted : List String := []    -- connections on which every write of the broker fails (its state is as if they succeeded)

def sortStrs (l : List String) : List String := (l.toArray.qsort (· < ·)).toList
def b2i (b : Bool) : Nat := if b then 1 else 0
def showPl (s : String) : String := if s = "" then "-" else s

structure Item where
  key : String
  mid : Int := 0
  kind : String := ""

def itemOf : Pkt → Option Item
  | .connack c => some { key := s!"connack({c})" }
  | .suback m qs => some { key := s!"suback({m};{",".intercalate (qs.map toString)})" }
  | .unsuback m => some { key := s!"unsuback({m})" }
  | .publish t p q r d m => some { key := s!"publish(t={Driver.safe t},p={showPl p},q={q},r={b2i r},d={b2i d}", mid := m, kind := "publish" }
  | .puback m => some { key := s!"puback({m})" }
  | .pubrec m => some { key := s!"pubrec({m})" }
  | .pubrel m => some { key := "pubrel(", mid := m, kind := "pubrel" }
  | .pubcomp m => some { key := s!"pubcomp({m})" }
  | .pingresp => some { key := "pingresp" }
  | .closed => none

def canOf (cs : CState) (mid : Int) : Option Nat := (cs.midCan.find? (fun e => e.1 == mid)).map (·.2)

/-- the harness' stable sort: by content; known ids before new ones; by canonical index -/
def itemLt (cs : CState) (a b : Item) : Bool :=
  if a.key != b.key then a.key < b.key
  else
    let ka : Option Int := if a.kind = "" then some (-1) else (canOf cs a.mid).map (fun n => (n : Int))
    let kb : Option Int := if b.kind = "" then some (-1) else (canOf cs b.mid).map (fun n => (n : Int))
    match ka, kb with
    | some x, some y => x < y
    | some _, none => true
    | none, some _ => false
    | none, none => false

def insertItem (cs : CState) (x : Item) : List Item → List Item
  | [] => [x]
  | y :: rest => if itemLt cs x y then x :: y :: rest else y :: insertItem cs x rest

def renderClient (name : String) (cs : CState) (pkts : List Pkt) : CState × String :=
  let items := (pkts.filterMap itemOf).foldl (fun acc x => insertItem cs x acc) []
  let closed := pkts.any (· == .closed) && !cs.toldClosed
  let cs := if closed then { cs with toldClosed := true } else cs
  let (cs, out) := items.foldl (fun (acc : CState × List String) it =>
    let (cs, out) := acc
    if it.kind = "publish" then
      if (it.key.splitOn ",q=0,").length > 1 then (cs, out ++ [it.key ++ ")"])
      else
        match canOf cs it.mid with
        | some c => (cs, out ++ [s!"{it.key},m=#{c})"])
        | none =>
          let c := cs.nextCan + 1
          let q := if (it.key.splitOn ",q=2,").length > 1 then 2 else 1
          ({ cs with midCan := cs.midCan ++ [(it.mid, c)], canMid := cs.canMid ++ [(c, it.mid)], nextCan := c, outst := cs.outst ++ [(c, q)] }, out ++ [s!"{it.key},m=#{c})"])
    else if it.kind = "pubrel" then
      match canOf cs it.mid with
      | some c => (cs, out ++ [s!"pubrel(#{c})"])
      | none => (cs, out ++ [s!"pubrel(raw{it.mid})"])
    else (cs, out ++ [it.key])) (cs, [])
  let out := sortStrs out ++ (if closed then ["CLOSED"] else [])
  (cs, if out.isEmpty then "" else name ++ ":[" ++ " ".intercalate out ++ "]")

def observe (st : St) (res : String) : St × String :=
  let names := sortStrs (st.clients.map (·.1))
  let (clients, parts) := names.foldl (fun (acc : List (String × CState) × List String) name =>
    let (cl, parts) := acc
    let cs := ((cl.find? (fun e => e.1 == name)).map (·.2)).getD {}
    let pkts := (st.w.out.filter (fun e => e.1 == name && (!st.muted.contains name || e.2 == .closed))).map (·.2)
    let (cs', s) := renderClient name cs pkts
    (cl.map (fun e => if e.1 == name then (name, cs') else e), if s = "" then parts else parts ++ [s])) (st.clients, [])
  ({ st with w := { st.w with out := [] }, clients := clients }, if parts.isEmpty then res else res ++ " | " ++ " ".intercalate parts)

def ensureClient (st : St) (name : String) : St :=
  if st.clients.any (fun e => e.1 == name) then { st with clients := st.clients.map (fun e => if e.1 == name then (name, {}) else e) }
  else { st with clients := st.clients ++ [(name, {})] }

def parseWillSpec (s : String) : Option Will :=
  if s = "-" then none else
  match s.splitOn ":" with
  | [t, p, q, r] => some ⟨t, if p = "-" then "" else p, q.toNat!, r = "1"⟩
  | _ => none

def unTopic (s : String) : String := if s = "~" then "" else s

def parseSubs (s : String) : List (String × Nat) :=
  (s.splitOn ",").map (fun tq =>
    let parts := tq.splitOn ":"
    let q := (parts.getLast?.getD "0").toNat!
    (unTopic (":".intercalate parts.dropLast), q))

def showState (n : Node) : String :=
  Driver.Dist.showList ((sessAll n.dist).map (Driver.Dist.showS · false)) ++ " " ++
  Driver.Dist.showList ((subAll n.dist).map (Driver.Dist.showU · false)) ++ " " ++
  Driver.Dist.showList ((topicGet n.dist "#").map (Driver.Dist.showR · false)) ++ " " ++
  Driver.Dist.showList (n.reg.map (fun s => Driver.safe s.id))

def clientRaw (st : St) (c : String) (can : String) : Option Int :=
  let k := (can.drop 1).toNat!
  ((st.clients.find? (fun e => e.1 == c)).bind (fun e => (e.2.canMid.find? (fun m => m.1 == k)))).map (·.2)

/-- the broker could not write its answer: the model has no write errors, so the driver composes the packet with a lost
    connection (what processSession does on the error) and marks the connection closed for the observer -/
def lostOnWrite (w : World) (c : String) : World :=
  let w := applyOp w (.drop c)
  if w.out.any (fun e => e.1 == c && e.2 == .closed) then w else { w with out := w.out ++ [(c, .closed)] }

/-- apply a packet of client `c`; on a connection whose writes fail this is the model's `packetOnBrokenConn`
    (Wasp/Model/AnswerLost.lean): a direct answer that cannot be written ends the session as a lost connection; the
    driver only adds the mark the observer sees (the harness' reader reports the close by the broker) -/
def packetOp (st : St) (c : String) (pkt : CPkt) : World :=
  if st.muted.contains c then
    let w := packetOnBrokenConn st.w c pkt
    if answerLost st.w c pkt && !(w.out.any (fun e => e.1 == c && e.2 == .closed)) then { w with out := w.out ++ [(c, .closed)] } else w
  else applyOp st.w (.packet c pkt)

def known (st : St) (c : String) : Bool := st.clients.any (fun e => e.1 == c)

/-- can the client still write to its connection? (closed by the broker, or nobody reads it) -/
def writable (st : St) (c : String) : Bool := Wasp.Broker.writable st.w c

def step (st : St) (line : String) : St × String :=
  match Driver.words line with
  | ["reset"] => ({}, "ok")
  | ["reset", n] => ({ w := World.init n.toNat! }, "ok")
  | ["bye"] => (st, "ok")
  | ["settlems", _] => (st, "ok")
  | ["reset", n, _] => ({ w := World.init n.toNat! }, "ok")
  | ["realtime", _] => (st, "ok")
  | ["longsettle", _] => (st, "ok")
  | ["stall", c, _] => if known st c then (st, "ok") else (st, "noclient")   -- time is not part of the model: nothing changes
  | ["mute", c, v] =>
    if !known st c then (st, "noclient") else
    ({ st with muted := if v = "1" then c :: st.muted else st.muted.filter (· != c) }, "ok")
  | ["burst", c, t, q, first, n] =>
    if !known st c then (st, "noclient") else
    if !writable st c then observe st "write-failed" else
    let w := (List.range n.toNat!).foldl (fun (w : World) j =>
      let k := first.toNat! + j
      applyOp w (.packet c (.publish (unTopic t) (Driver.toHex [UInt8.ofNat (k / 256), UInt8.ofNat (k % 256)]) q.toNat! false false ((k % 65535 + 1 : Nat) : Int)))) st.w
    observe { st with w } "ok"
  | ["connect", c, node, client, mount, ka, will] =>
    let client := if client = "~" then "" else client   -- `~` stands for the empty client identifier
    let authOk := !(mount.startsWith "!")
    let mp := if authOk then mount else (mount.drop 1).toString
    -- two live records of this client id on the node: which one the real take-over lookup displaces depends on Go's map order
    if authOk && (sessByClientID (st.w.node node.toNat!).dist mp client).length > 1 then (st, "connect-ambiguous") else
    let st := ensureClient st c
    observe { st with w := applyOp st.w (.connect c node.toNat! client mp authOk ka.toNat! (parseWillSpec will)) } "ok"
  | "authfile" :: ls => ({ st with auth := .file (Wasp.Auth.load id (ls.map Driver.Auth.parseLine)) }, "ok")
  | ["authstatic", u, p] => ({ st with auth := .static (Driver.Auth.un u) (Driver.Auth.un p) }, "ok")
  | ["connectas", c, node, client, user, pass, ka, will] =>
    let st := ensureClient st c
    let plain (s : String) : String := Driver.Auth.un ((s.splitOn "=").headD s)
    let verdict : Option String := match st.auth with
      | .harness => if plain pass = "ok" then some (plain user) else none
      | .file db => Wasp.Auth.authenticate id db (Driver.Auth.fpOf user) (Driver.Auth.fpOf pass)
      | .static cu cp => Wasp.Auth.staticAuthenticate id cu cp (plain user) (plain pass)
    (match verdict with
     | some m => observe { st with w := applyOp st.w (.connect c node.toNat! client m true ka.toNat! (parseWillSpec will)) } "ok"
     | none => observe { st with w := applyOp st.w (.connect c node.toNat! client "" false ka.toNat! (parseWillSpec will)) } "ok")
  | ["sub", c, mid, spec] =>
    if !known st c then (st, "noclient") else
    if !writable st c then observe st "write-failed" else
    -- (when the SUBACK cannot be written Process returns before the retained replay: scripts that let a SUBSCRIBE fail
    -- this way use filters without retained matches)
    observe { st with w := packetOp st c (.subscribe (mid.toInt?.getD 0) (parseSubs spec)) } "ok"
  | ["unsub", c, mid, spec] =>
    if !known st c then (st, "noclient") else
    if !writable st c then observe st "write-failed" else
    observe { st with w := packetOp st c (.unsubscribe (mid.toInt?.getD 0) ((spec.splitOn ",").map unTopic)) } "ok"
  | ["pub", c, t, p, q, r, d, mid] =>
    if !known st c then (st, "noclient") else
    if !writable st c then observe st "write-failed" else
    observe { st with w := packetOp st c (.publish (unTopic t) (if p = "-" then "" else p) q.toNat! (r = "1") (d = "1") (mid.toInt?.getD 0)) } "ok"
  | ["ack", c, kind, can] =>
    if !known st c then (st, "noclient") else
    match clientRaw st c can with
    | none => (st, "nosuchdelivery")
    | some raw =>
      if !writable st c then observe st "write-failed" else
      let k := (can.drop 1).toNat!
      -- the exchange is complete when the delivery's final acknowledgement is sent
      let st : St := { st with clients := st.clients.map (fun (e : String × CState) =>
            if e.1 == c then
              let fin := e.2.outst.filter (fun (d : Nat × Nat) => d.1 == k && ((d.2 == 1 && kind == "puback") || (d.2 == 2 && kind == "pubcomp")))
              if fin.isEmpty then e
              else (c, { e.2 with outst := e.2.outst.filter (fun (d : Nat × Nat) => d.1 != k), midCan := e.2.midCan.filter (fun (m : Int × Nat) => m.2 != k) })
            else e) }
      let pkt := match kind with
        | "puback" => CPkt.puback raw | "pubrec" => CPkt.pubrec raw | "pubcomp" => CPkt.pubcomp raw | "pubrel" => CPkt.pubrel raw
        | _ => CPkt.other
      observe { st with w := applyOp st.w (.packet c pkt) } "ok"
  | ["ackall", c] =>
    if !known st c then (st, "noclient") else
    let cs := ((st.clients.find? (fun e => e.1 == c)).map (·.2)).getD {}
    let todo := cs.outst
    let done := todo.map (·.1)
    let st : St := { st with clients := st.clients.map (fun (e : String × CState) =>
      if e.1 == c then (c, { e.2 with outst := [] }) else e) }
    let w := todo.foldl (fun (w : World) d =>
      match (cs.canMid.find? (fun m => m.1 == d.1)).map (·.2) with
      | none => w
      | some raw =>
        if d.2 = 1 then applyOp w (.packet c (.puback raw))
        else applyOp (applyOp w (.packet c (.pubrec raw))) (.packet c (.pubcomp raw))) st.w
    let (st, out) := observe { st with w } (if todo.isEmpty ∨ writable st c then "ok" else "write-failed")
    -- the identifiers become reusable once their exchanges are complete: forget their numbers
    ({ st with clients := st.clients.map (fun (e : String × CState) =>
        if e.1 == c then (c, { e.2 with midCan := e.2.midCan.filter (fun m => !done.contains m.2) }) else e) }, out)
  | ["rawack", c, kind, mid] =>
    if !known st c then (st, "noclient") else
    let raw := mid.toInt?.getD 0
    if !writable st c then observe st "write-failed" else
    match kind with
    | "puback" => observe { st with w := applyOp st.w (.packet c (.puback raw)) } "ok"
    | "pubrec" => observe { st with w := applyOp st.w (.packet c (.pubrec raw)) } "ok"
    | "pubcomp" => observe { st with w := applyOp st.w (.packet c (.pubcomp raw)) } "ok"
    | "pubrel" => observe { st with w := applyOp st.w (.packet c (.pubrel raw)) } "ok"
    | _ => (st, "bad-op")
  | ["ping", c] =>
    if !known st c then (st, "noclient") else
    match st.w.conns.find? (fun e => e.1 == c) with
    | none => observe st "write-failed"
    | some (_, i) =>
      if st.w.deaf.contains c then observe st "write-failed" else
      let n := st.w.node i
      let sid := "S" ++ c
      let mc : Option (String × String) :=
        match (sessAll n.dist).find? (fun s => s.id == sid) with
        | some md => some (md.mount, md.client)
        | none => (n.sess sid).map (fun s => (s.mount, s.client))
      match mc with
      | some (m, cl) =>
        if (sessByClientID n.dist m cl).length > 1 then (st, "ping-ambiguous")
        else observe { st with w := packetOp st c .pingreq } "ok"
      | none => observe { st with w := packetOp st c .pingreq } "ok"
  | ["disconnect", c] =>
    if !known st c then (st, "noclient") else
    if !writable st c then observe st "write-failed" else
    observe { st with w := applyOp st.w (.packet c .disconnect) } "ok"
  | ["drop", c] =>
    if !known st c then (st, "noclient") else
    observe { st with w := applyOp st.w (.drop c) } "ok"
  | ["open", c, node] =>
    let st := ensureClient st c
    observe { st with w := applyOp st.w (.openConn c node.toNat!) } "ok"
  | ["raw", c, hex] =>
    if !known st c then (st, "noclient") else
    match Driver.fromHex hex with
    | some bs =>
      let r := Wasp.Wire.rawBytes st.w c (bs.map (·.toNat))
      let w := applyOp st.w (.raw c (bs.map (·.toNat)))
      -- a CONNECT accepted on a connection whose CONNACK cannot be written: the session exists, and ends at once
      let got (w : World) : Bool := w.nodes.any (fun n => n.reg.any (fun s => s.conn == c))
      let w := if st.muted.contains c && !got st.w && got w then lostOnWrite w c else w
      observe { st with w } (if r.2 then "ok" else "write-failed")
    | none => (st, "bad-op")
  | ["gossip"] => observe { st with w := applyOp st.w .gossipAll } "ok"
  | ["bc", f, t] => observe { st with w := applyOp st.w (.gossip f.toNat! t.toNat!) } "ok"
  | ["bcone", f, t, k] =>
    let n := st.w.node f.toNat!
    let mine := n.pending.filter (fun e => e.1 == t.toNat!)
    match mine[k.toNat!]? with
    | none => observe st "nosuch"
    | some _ => observe { st with w := applyOp st.w (.gossipOne f.toNat! t.toNat! k.toNat!) } "ok"
  | ["losegossip", f, t] =>
    ({ st with w := applyOp st.w (.loseGossip f.toNat! t.toNat!) }, "ok")
  | ["sync", f, t] =>
    observe { st with w := applyOp st.w (.sync f.toNat! t.toNat!) } "ok"
  | ["unreachable", n, v] =>
    ({ st with w := applyOp st.w (.unreachable n.toNat! (v == "1")) }, "ok")
  | ["logfail", n, what] =>
    let op : BOp := match what with
      | "all" => .logFailAll n.toNat! true
      | "none" => .logFailNone n.toNat!
      | k => .logFailAt n.toNat! k.toNat!
    ({ st with w := applyOp st.w op }, "ok")
  | ["nodefail", n] => observe { st with w := applyOp st.w (.nodeFail n.toNat!) } "ok"
  | ["expire", n] => observe { st with w := applyOp st.w (.sweep n.toNat!) } "ok"
  | ["idle", ms] => observe { st with w := applyOp st.w (.idle (ms.toInt?.getD 0)) } "ok"
  | ["elapse", ms] => observe { st with w := applyOp st.w (.elapse (ms.toInt?.getD 0)) } "ok"
  | ["state", n] => (st, showState (st.w.node n.toNat!))
  | ["setpool", n, a, b] =>
    ({ st with w := applyOp st.w (.setPool n.toNat! (a.toInt?.getD 0) (b.toInt?.getD 0)) }, "ok")
  | ["pool", n] =>
    let ivs := (st.w.node n.toNat!).pool.ivs
    (st, s!"free={(ivs.map (fun iv => iv.2 - iv.1)).foldl (· + ·) 0} top={(ivs.map (·.2)).foldl max 0}")
  | ["log", n] => (st, "[" ++ " ".intercalate ((st.w.node n.toNat!).log.map (fun p => s!"{Driver.safe p.topic}={showPl p.payload}")) ++ "]")
  | ["bycid", n, m, c] =>
    match sessByClientID (st.w.node n.toNat!).dist m c with
    | md :: _ => (st, md.id)
    | [] => (st, "notfound")
  | ["rpc-publish", n, t, p] =>
    let r := st.w.distribute n.toNat! ⟨t, if p = "-" then "" else p, 0, false, false⟩
    observe { st with w := applyOp st.w (.rpcPublish n.toNat! t (if p = "-" then "" else p)) } (if r.2 then "ok" else "err")
  | _ => (st, "bad-op")

end Driver.Broker

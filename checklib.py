"""Orchestrator library for the wasp verification checks (see DESIGN.md §2.4).

Every check does, against /repo's CURRENT working tree:
  1. regenerate lean/Wasp/Generated from the Go source (extract/), compare facts
  2. lake build of the property's theorem module (proof obligations) + the model driver
  3. go build -tags verif of the harness (real code, in process)
  4. correspondence: same op lines through model driver and harness, diff
  5. spec monitors (python mirrors of the Lean `…Ok` acceptors) on the implementation's trace
  6. verdict, evidence file, replay file
"""
import fcntl
import resource
import json
import os
import random
import re
import shutil
import subprocess
import sys
import tempfile
import time

VERIF = os.path.dirname(os.path.abspath(__file__))
REPO = os.environ.get("VERIF_REPO", "/repo")
BUILD = os.path.join(VERIF, ".build")
LEAN = os.path.join(VERIF, "lean")
HARNESS_BIN = os.path.join(BUILD, "waspharness")
COVER_BIN = os.path.join(BUILD, "waspharness-cover")
EXTRACT_BIN = os.path.join(BUILD, "waspextract")
MODEL_BIN = os.path.join(LEAN, ".lake", "build", "bin", "waspmodel")
GOENV = dict(GOFLAGS="-mod=mod", GOPROXY="off", GOSUMDB="off", GOTOOLCHAIN="local",
             CGO_ENABLED=os.environ.get("CGO_ENABLED", "1"))

ALLOWED_AXIOMS = {"propext", "Classical.choice", "Quot.sound"}
FORBIDDEN = re.compile(r"\b(sorry|admit|native_decide|bv_decide|implemented_by|unsafe)\b|^\s*axiom\s|maxHeartbeats\s+0")


def log(*a):
    print(*a, file=sys.stderr, flush=True)


def run(cmd, cwd=None, env=None, timeout=None, input=None):
    e = dict(os.environ)
    e.update(GOENV)
    if env:
        e.update(env)
    p = subprocess.run(cmd, cwd=cwd, env=e, timeout=timeout, input=input,
                       stdout=subprocess.PIPE, stderr=subprocess.PIPE, text=True)
    return p.returncode, p.stdout, p.stderr


class Lock:
    def __enter__(self):
        os.makedirs(BUILD, exist_ok=True)
        self.f = open(os.path.join(BUILD, "lock"), "w")
        fcntl.flock(self.f, fcntl.LOCK_EX)
        return self

    def __exit__(self, *a):
        fcntl.flock(self.f, fcntl.LOCK_UN)
        self.f.close()


class Obligation:
    def __init__(self, kind, name):
        self.kind, self.name = kind, name
        self.ok = None
        self.detail = ""

    def to_json(self):
        return {"kind": self.kind, "name": self.name, "discharged": bool(self.ok), "detail": self.detail[:400]}


class Violation:
    """A concrete failing input found on the implementation."""

    def __init__(self, rule, what, replay):
        self.rule, self.what, self.replay = rule, what, replay


class Suite:
    """One correspondence suite: op lines for a domain, an optional monitor on the
    implementation's observations, and a rule counting non-trivial cases."""

    def __init__(self, name, domain, ops, monitor=None, stats=None, resets=("new",), args=(), compare=True,
                 exhaustive=False, retry_args=None, binary=None, env=None, canon=None):
        self.name, self.domain, self.ops = name, domain, ops
        self.monitor, self.stats = monitor, stats or {}
        self.resets, self.args = resets, list(args)
        self.compare = compare
        self.exhaustive = exhaustive
        # timing-sensitive suites (goroutines observed after a quiescence wait): a session that shows a problem is
        # re-run on its own with these harness arguments (a much longer quiescence wait) before it is believed
        self.retry_args = retry_args
        self.binary = binary      # another build of the harness (e.g. with -race)
        self.env = env or {}
        # canonicaliser applied to BOTH answers before they are compared (what the implementation leaves open)
        self.canon = canon or (lambda line: line)

    def session_of(self, idx):
        start = idx
        while start > 0 and self.ops[start].split(" ", 1)[0] not in self.resets:
            start -= 1
        end = idx + 1
        while end < len(self.ops) and self.ops[end].split(" ", 1)[0] not in self.resets:
            end += 1
        return start, end


class Check:
    def __init__(self, pid, theorem_modules, tier=None, seed=None):
        self.pid = pid
        self.theorem_modules = theorem_modules
        self.tier = tier or os.environ.get("VERIF_TIER") or "quick"
        self.seed = int(seed if seed is not None else os.environ.get("VERIF_SEED", "1") or 1)
        self.rng = random.Random(self.seed * 1000003 + sum(map(ord, pid)))
        self.t0 = time.time()
        self.obligations = []
        self.violations = []       # concrete
        self.broken = []           # (name, detail) obligations that no longer check
        self.suites_run = []
        self.notes = []
        self.model_ok = False
        self.harness_ok = False
        self.assumptions = []
        self.trusted = [
            "Lean 4.33.0 kernel; axioms of every property theorem audited (allowed: propext, Classical.choice, Quot.sound)",
            "Go fact extractor extract/ (regenerates lean/Wasp/Generated from /repo on every run)",
            "correspondence harness harness/ + model driver lean/Driver + this orchestrator (generators, canonicalisation, monitors)",
        ]
        self.replay_dir = os.path.join(VERIF, "replays", pid)
        self.known = load_known(pid)
        self.known_hit = []

    # ---------- build & proof obligations ----------
    def build(self, need_harness=True, extra_targets=()):
        with Lock():
            self._extract()
            self._lake(extra_targets)
            if need_harness:
                self._harness()
        self._grep_gate()
        self._axiom_audit()

    def _extract(self):
        ob = Obligation("generated", "extract: regenerate lean/Wasp/Generated from /repo")
        self.obligations.append(ob)
        src = os.path.join(VERIF, "extract")
        if not os.path.isdir(src):
            ob.ok = True
            ob.detail = "no extractor"
            return
        shutil.copy(os.path.join(REPO, "go.sum"), os.path.join(src, "go.sum")) if os.path.exists(os.path.join(src, "go.mod")) and os.path.exists(os.path.join(REPO, "go.sum")) else None
        rc, out, err = run(["go", "build", "-o", EXTRACT_BIN, "."], cwd=src, timeout=600)
        if rc != 0:
            ob.ok = False
            ob.detail = "extractor build failed: " + err[-300:]
            self.broken.append((ob.name, ob.detail))
            return
        gen = os.path.join(LEAN, "Wasp", "Generated")
        os.makedirs(gen, exist_ok=True)
        rc, out, err = run([EXTRACT_BIN, "-repo", REPO, "-out", gen], timeout=600)
        ob.ok = rc == 0
        ob.detail = (out + err)[-600:]
        if rc != 0:
            self.broken.append((ob.name, "extractor could not find an expected pattern in the source: " + ob.detail))

    def _lake(self, extra_targets):
        targets = list(self.theorem_modules) + ["waspmodel"] + list(extra_targets)
        rc, out, err = run(["lake", "build"] + targets, cwd=LEAN, timeout=3600)
        text = out + err
        self.model_ok = os.path.exists(MODEL_BIN) and not re.search(r"(Driver|Wasp\.Model|Wasp\.Generated)[\w.]*\b.*\n.*error", text)
        if rc != 0:
            # which modules failed?
            failed = re.findall(r"^- (\S+)", text, re.M)
            self.model_ok = os.path.exists(MODEL_BIN) and not any(f.startswith(("Driver", "Wasp.Model", "Wasp.Generated", "Wasp.Spec")) or f == "waspmodel" for f in failed)
            if not self.model_ok:
                # a stale driver must not be used
                pass
            errs = re.findall(r"error: (\S+\.lean:\d+:\d+: .*)", text)
            for m in self.theorem_modules:
                ob = Obligation("lake-build", m)
                ob.ok = m not in failed and not any(f in failed for f in failed if f.startswith("Wasp.") and False)
                # a theorem module also fails when something it imports fails
                if failed and m not in failed:
                    ob.ok = not any(True for f in failed if f.startswith("Wasp."))
                ob.detail = "; ".join(errs[:3])
                self.obligations.append(ob)
                if not ob.ok:
                    self.broken.append((f"lake build {m}", "; ".join(errs[:4]) or text[-400:]))
            if not any(not o.ok for o in self.obligations if o.kind == "lake-build"):
                self.broken.append(("lake build " + " ".join(targets), text[-400:]))
        else:
            for m in self.theorem_modules:
                ob = Obligation("lake-build", m)
                ob.ok = True
                self.obligations.append(ob)

    def _harness(self):
        ob = Obligation("harness-build", "go build -tags verif ./harness against /repo working tree")
        self.obligations.append(ob)
        src = os.path.join(VERIF, "harness")
        try:
            shutil.copy(os.path.join(REPO, "go.sum"), os.path.join(src, "go.sum"))
        except OSError:
            pass
        rc, out, err = run(["go", "build", "-tags", "verif", "-o", HARNESS_BIN, "."], cwd=src, timeout=900)
        ob.ok = rc == 0
        self.harness_ok = ob.ok
        # a SECOND binary with statement-coverage counters for every package of the repository. It is only used to
        # measure which code the suites reach (its answers are discarded): coverage instrumentation changes what is
        # compiled (observed: a shared `for` loop variable becomes per-iteration), so it must never judge.
        self.covdir = os.path.join(BUILD, "cov", f"{self.pid}-{self.tier}-{self.seed}")
        shutil.rmtree(self.covdir, ignore_errors=True)
        os.makedirs(self.covdir, exist_ok=True)
        self.cover_ok = False
        if rc == 0:
            rc2, _, _ = run(["go", "build", "-tags", "verif", "-cover", "-covermode=atomic",
                             "-coverpkg=waspharness,github.com/vx-labs/wasp/v4/...", "-o", COVER_BIN, "."], cwd=src, timeout=900)
            self.cover_ok = rc2 == 0
        if rc != 0:
            ob.detail = err[-600:]
            self.broken.append((ob.name, "the harness no longer builds against the working tree: " + err[-400:]))

    def build_race_harness(self):
        ob = Obligation("harness-build", "go build -race -tags verif ./harness against /repo working tree")
        self.obligations.append(ob)
        src = os.path.join(VERIF, "harness")
        with Lock():
            rc, out, err = run(["go", "build", "-race", "-tags", "verif", "-o", HARNESS_BIN + "-race", "."], cwd=src, timeout=1500)
        ob.ok = rc == 0
        if rc != 0:
            ob.detail = err[-600:]
            self.broken.append((ob.name, "the race-instrumented harness no longer builds: " + err[-400:]))
        return ob.ok

    def theorem_names(self):
        names = []
        for m in self.theorem_modules:
            path = os.path.join(LEAN, *m.split(".")) + ".lean"
            if not os.path.exists(path):
                continue
            ns = []
            incomment = False
            for line in open(path):
                # skip block / doc comments (a comment line may well start with the word "theorem")
                if incomment:
                    if "-/" in line:
                        incomment = False
                    continue
                if "/-" in line and "-/" not in line[line.index("/-"):]:
                    incomment = True
                    line = line[:line.index("/-")]
                mm = re.match(r"\s*namespace\s+(\S+)", line)
                if mm:
                    ns.append(mm.group(1))
                mm = re.match(r"\s*end\s+(\S+)", line)
                if mm and ns and ns[-1] == mm.group(1):
                    ns.pop()
                mm = re.match(r"\s*(?:protected\s+)?theorem\s+(\S+)", line)
                if mm:
                    names.append((m, ".".join(ns + [mm.group(1)])))
        return names

    def import_closure(self, roots):
        """Lean source files (under lean/) transitively imported by the given modules"""
        seen, todo = {}, list(roots)
        while todo:
            m = todo.pop()
            if m in seen:
                continue
            path = os.path.join(LEAN, *m.split(".")) + ".lean"
            if not os.path.exists(path):
                continue
            seen[m] = path
            for line in open(path):
                mm = re.match(r"\s*import\s+((?:Wasp|Driver)[\w.]*)", line)
                if mm:
                    todo.append(mm.group(1))
        return seen

    def _grep_gate(self):
        ob = Obligation("grep-gate", "no sorry/admit/axiom/native_decide/bv_decide/implemented_by/unsafe/maxHeartbeats 0 in the modules this property depends on")
        self.obligations.append(ob)
        hits = []
        files = self.import_closure(list(self.theorem_modules) + ["Driver.Main"])
        for m, path in sorted(files.items()):
            incomment = False
            for i, line in enumerate(open(path), 1):
                s = line
                if incomment:
                    if "-/" in s:
                        incomment = False
                    continue
                s = re.sub(r"/-.*?-/", "", s)
                if "/-" in s:
                    incomment = True
                    s = s[:s.index("/-")]
                s = re.sub(r"--.*", "", s)
                s = re.sub(r'"[^"]*"', '""', s)
                if FORBIDDEN.search(s):
                    hits.append(f"{m}:{i}: {line.strip()[:80]}")
        ob.ok = not hits
        ob.detail = f"{len(files)} modules; " + "; ".join(hits[:5])
        if hits:
            self.broken.append((ob.name, ob.detail))

    def _axiom_audit(self):
        names = self.theorem_names()
        if not names:
            return
        built = {o.name for o in self.obligations if o.kind == "lake-build" and o.ok}
        names = [(m, n) for (m, n) in names if m in built]
        if not names:
            return
        src = "".join(f"import {m}\n" for m in sorted({m for m, _ in names}))
        src += "".join(f"#print axioms {n}\n" for _, n in names)
        d = tempfile.mkdtemp(prefix="waspaudit")
        try:
            p = os.path.join(d, "Audit.lean")
            open(p, "w").write(src)
            rc, out, err = run(["lake", "env", "lean", p], cwd=LEAN, timeout=1200)
        finally:
            shutil.rmtree(d, ignore_errors=True)
        text = out + err
        blocks = re.findall(r"'(\S+)' (depends on axioms: \[([^\]]*)\]|does not depend on any axioms)", text)
        seen = {}
        for name, _, axs in blocks:
            seen[name] = [a.strip() for a in axs.replace("\n", " ").split(",") if a.strip()]
        for m, n in names:
            ob = Obligation("theorem", n)
            self.obligations.append(ob)
            if n not in seen:
                ob.ok = False
                ob.detail = "not found by #print axioms: " + text[-200:]
                self.broken.append((f"theorem {n}", ob.detail))
                continue
            bad = [a for a in seen[n] if a not in ALLOWED_AXIOMS]
            ob.ok = not bad
            ob.detail = "axioms: " + (", ".join(seen[n]) or "none")
            if bad:
                self.broken.append((f"theorem {n}", "depends on disallowed axioms " + ", ".join(bad)))

    # ---------- correspondence ----------
    def _exec(self, binary, domain, args, ops, timeout, env=None):
        data = "\n".join(ops) + "\n"
        def limits():
            # a runaway implementation (e.g. nodes forwarding a message to each other for ever) must not take the machine down
            lim = 64 << 30 if binary.endswith("-race") else 12 << 30
            resource.setrlimit(resource.RLIMIT_AS, (lim, lim))
        try:
            p = subprocess.run([binary, domain] + list(args), input=data, stdout=subprocess.PIPE, stderr=subprocess.PIPE,
                               text=True, timeout=timeout,
                               env=dict(os.environ, GOMEMLIMIT="4GiB", **({"GOCOVERDIR": self.covdir} if getattr(self, "covdir", None) and binary == COVER_BIN else {}),
                                        **(env or {})), preexec_fn=limits)
        except subprocess.TimeoutExpired as e:
            out = e.stdout.decode() if isinstance(e.stdout, bytes) else (e.stdout or "")
            return out.split("\n")[:-1] if out else [], "timeout"
        lines = p.stdout.split("\n")
        if lines and lines[-1] == "":
            lines.pop()
        status = "ok" if p.returncode == 0 else f"exit {p.returncode}: {p.stderr[-1500:] if 'DATA RACE' in p.stderr else p.stderr[-300:]}"
        return lines, status

    def run_suite(self, suite, timeout=1800):
        t = time.time()
        rec = {"suite": suite.name, "domain": suite.domain, "ops": len(suite.ops), "exhaustive": suite.exhaustive}
        rec.update(suite.stats)
        kinds = {}
        for op in suite.ops:
            k = op.split(" ", 1)[0]
            kinds[k] = kinds.get(k, 0) + 1
        rec["op_kinds"] = kinds      # the input distribution actually generated
        self.suites_run.append(rec)
        ob = Obligation("correspondence", suite.name)
        self.obligations.append(ob)
        if not self.harness_ok:
            ob.ok = False
            ob.detail = "harness unavailable"
            return
        impl, st = self._exec(suite.binary or HARNESS_BIN, suite.domain, suite.args, suite.ops, timeout, suite.env)
        rec["impl_status"] = st
        if getattr(self, "cover_ok", False) and suite.binary is None and st == "ok" and (self.tier != "quick" or time.time() - t < 6):
            # coverage pass (answers discarded)
            self._exec(COVER_BIN, suite.domain, suite.args, suite.ops, max(60, int(3 * (time.time() - t)) + 30), suite.env)
        if st != "ok" or len(impl) != len(suite.ops):
            # the process died (crash / timeout): the op after the last answered one is the suspect
            idx = min(len(impl), len(suite.ops) - 1)
            s, e = suite.session_of(idx)
            self._concrete(suite, "harness-crash", f"implementation process {st} at op {idx}: {suite.ops[idx]}", s, min(e, idx + 1), impl, None)
            ob.ok = False
            ob.detail = st
            impl = impl + ["<no-output>"] * (len(suite.ops) - len(impl))
        model = None
        if suite.compare and self.model_ok:
            model, mst = self._exec(MODEL_BIN, suite.domain, suite.args, suite.ops, timeout)
            rec["model_status"] = mst
            if mst != "ok" or len(model) != len(suite.ops):
                ob.ok = False
                ob.detail = f"model driver {mst}, {len(model)} of {len(suite.ops)} lines"
                self.broken.append((f"correspondence {suite.name}", ob.detail))
                model = None
        if suite.retry_args:
            suspects = set()
            if suite.monitor:
                suspects.update(i for i, _, _ in suite.monitor(suite.ops, impl))
            if model is not None:
                suspects.update(i for i in range(len(suite.ops)) if suite.canon(impl[i]) != suite.canon(model[i]))
            sessions = sorted({suite.session_of(i) for i in suspects})
            rec["retried_sessions"] = len(sessions)
            for (s0, e0) in sessions[:3]:
                sub, st2 = self._exec(HARNESS_BIN, suite.domain, list(suite.args) + list(suite.retry_args), suite.ops[s0:e0] + ["bye"], timeout)
                if len(sub) >= e0 - s0:
                    impl[s0:e0] = sub[:e0 - s0]
        # monitors judge the implementation alone
        nviol = 0
        if suite.monitor:
            for idx, rule, msg in suite.monitor(suite.ops, impl):
                s, e = suite.session_of(idx)
                self._concrete(suite, rule, msg, s, idx + 1, impl, None)
                nviol += 1
                if nviol >= 5:
                    break
        # exact correspondence with the model
        if suite.compare:
            if not self.model_ok:
                ob.ok = False
                ob.detail = "model driver unavailable (lake build failed)"
            else:
                if model is not None:
                    diffs = [i for i in range(len(suite.ops)) if suite.canon(impl[i]) != suite.canon(model[i])]
                    rec["disagreements"] = len(diffs)
                    if diffs and ob.ok is None:
                        ob.ok = False
                    if diffs:
                        i = diffs[0]
                        s, e = suite.session_of(i)
                        ob.detail = f"first disagreement at op {i} `{suite.ops[i]}`: impl `{impl[i]}` model `{model[i]}`"
                        if nviol == 0:
                            path = self._write_replay(suite, "correspondence", ob.detail, s, i + 1, impl, model)
                            self.broken.append((f"correspondence {suite.name}", ob.detail + f" (replay {path})"))
                    elif ob.ok is None:
                        ob.ok = True
        else:
            if ob.ok is None:
                ob.ok = nviol == 0
        rec["wall_s"] = round(time.time() - t, 2)

    def _write_replay(self, suite, rule, msg, s, e, impl, model):
        os.makedirs(self.replay_dir, exist_ok=True)
        n = len(os.listdir(self.replay_dir))
        path = os.path.join(self.replay_dir, f"{self.tier}-{self.seed}-{n}.json")
        doc = {"property": self.pid, "suite": suite.name, "domain": suite.domain, "args": suite.args, "rule": rule,
               "what": msg, "ops": suite.ops[s:e],
               "impl": impl[s:e] if impl else None, "model": model[s:e] if model else None,
               "replay_cmd": f"./check {self.pid} --replay {path}"}
        json.dump(doc, open(path, "w"), indent=1)
        return path

    def _concrete(self, suite, rule, msg, s, e, impl, model):
        shape = {"rule": rule}
        for k in self.known:
            if k.get("status") == "known" and k.get("rule") == rule and re.search(k.get("match", "$^"), msg):
                self.known_hit.append((k, msg))
                return
        path = self._write_replay(suite, rule, msg, s, e, impl, model)
        self.violations.append(Violation(rule, msg, path))

    def _code_coverage(self):
        """statement coverage of the property's anchor files reached by this run's suites (real code, in process)"""
        covdir = getattr(self, "covdir", None)
        if not covdir or not os.path.isdir(covdir) or not os.listdir(covdir):
            return None
        prof = os.path.join(covdir, "profile.txt")
        rc, out, err = run(["go", "tool", "covdata", "textfmt", "-i=" + covdir, "-o=" + prof], cwd=os.path.join(VERIF, "harness"), timeout=300)
        if rc != 0 or not os.path.exists(prof):
            return None
        anchors = []
        try:
            for l in open(os.path.join(VERIF, "properties.jsonl")):
                d = json.loads(l)
                if d["id"] == self.pid:
                    anchors = d.get("anchors", {}).get("files", [])
        except Exception:
            pass
        blocks = {}
        for line in open(prof):
            m = re.match(r"github.com/vx-labs/wasp/v4/(\S+?):(\S+) (\d+) (\d+)$", line.strip())
            if not m:
                continue
            f, pos, n, cnt = m.group(1), m.group(2), int(m.group(3)), int(m.group(4))
            key = (f, pos)
            old = blocks.get(key, (n, 0))
            blocks[key] = (n, max(old[1], cnt))
        per = {}
        for (f, pos), (n, cnt) in blocks.items():
            t = per.setdefault(f, [0, 0])
            t[0] += n
            t[1] += n if cnt > 0 else 0
        res = {}
        for f in anchors:
            if f in per:
                tot, cvd = per[f]
                res[f] = {"statements": tot, "covered": cvd, "pct": round(100.0 * cvd / tot, 1) if tot else 100.0}
            else:
                res[f] = {"statements": 0, "covered": 0, "pct": None, "note": "not linked into the harness or no statements"}
        shutil.rmtree(covdir, ignore_errors=True)
        return res

    # ---------- verdict ----------
    def add_fact(self, name, ok, detail=""):
        ob = Obligation("fact", name)
        ob.ok = ok
        ob.detail = detail
        self.obligations.append(ob)
        if not ok:
            self.broken.append((f"fact {name}", detail))

    def finish(self, level="proof", samples=None, rule="", extra=None):
        wall = time.time() - self.t0
        nob = len(self.obligations)
        ndis = sum(1 for o in self.obligations if o.ok)
        evaluations = sum(s.get("cases", s["ops"]) for s in self.suites_run)
        nontrivial = sum(s.get("nontrivial", 0) for s in self.suites_run)
        cov = {
            "obligations": nob,
            "discharged": ndis,
            "checker_cmd": f"cd lean && lake build {' '.join(self.theorem_modules)} waspmodel && lake env lean <#print axioms audit>; ./check {self.pid} --tier {self.tier}",
            "trusted_base": self.trusted,
            "evaluations": max(evaluations, 0),
            "distinct_nontrivial": nontrivial,
            "rule": rule,
            "samples": (samples or [])[:6],
            "suites": self.suites_run,
            "obligation_list": [o.to_json() for o in self.obligations],
            "exhaustive": any(s.get("exhaustive") for s in self.suites_run),
            "notes": self.notes,
        }
        code_cov = self._code_coverage()
        if code_cov:
            cov["go_statement_coverage"] = code_cov
        if extra:
            cov.update(extra)
        ev = {"property_id": self.pid, "tier": self.tier, "seed": self.seed, "level": level, "coverage": cov,
              "assumptions": self.assumptions, "wall_s": round(wall, 2),
              "violations": len(self.violations) + (1 if self.broken and not self.violations else 0)}
        os.makedirs(os.path.join(VERIF, "evidence"), exist_ok=True)
        json.dump(ev, open(os.path.join(VERIF, "evidence", f"{self.pid}.json"), "w"), indent=1)
        seen = set()
        for k, msg in self.known_hit:
            key = k.get("id", k.get("rule"))
            if key in seen:
                continue
            seen.add(key)
            print(f"KNOWN-FINDING: property={self.pid} {k.get('what', msg)}")
        rc = 0
        for v in self.violations[:10]:
            print(f"VIOLATION property={self.pid} replay={v.replay}")
            log(f"  [{v.rule}] {v.what}")
            rc = 1
        if not self.violations and self.broken:
            os.makedirs(self.replay_dir, exist_ok=True)
            path = os.path.join(self.replay_dir, f"{self.tier}-{self.seed}-broken-obligations.json")
            json.dump({"property": self.pid, "no_failing_input_found": True,
                       "broken": [{"obligation": n, "detail": d} for n, d in self.broken]}, open(path, "w"), indent=1)
            print(f"VIOLATION property={self.pid} replay={path} no-failing-input-found")
            for n, d in self.broken[:6]:
                log(f"  broken: {n}: {d[:300]}")
            rc = 1
        if rc == 0:
            log(f"OK {self.pid} tier={self.tier} seed={self.seed} obligations={ndis}/{nob} evaluations={evaluations} wall={wall:.1f}s")
        return rc


def load_known(pid):
    p = os.path.join(VERIF, "known_findings.json")
    if not os.path.exists(p):
        return []
    try:
        doc = json.load(open(p))
    except Exception:
        return []
    return [k for k in doc.get("findings", []) if k.get("property") == pid]


def replay(path):
    """Re-run a replay file on the current implementation (and the model) and print both."""
    doc = json.load(open(path))
    if doc.get("no_failing_input_found"):
        print(json.dumps(doc, indent=1))
        return 0
    c = Check(doc["property"], [])
    with Lock():
        c._harness()
    ops = doc["ops"]
    impl, st = c._exec(HARNESS_BIN, doc["domain"], doc.get("args", []), ops, 600)
    model, mst = (c._exec(MODEL_BIN, doc["domain"], doc.get("args", []), ops, 600) if os.path.exists(MODEL_BIN) else ([], "absent"))
    print(f"rule: {doc['rule']}\nwhat: {doc['what']}")
    for i, op in enumerate(ops):
        a = impl[i] if i < len(impl) else "<none>"
        b = model[i] if i < len(model) else "<none>"
        flag = "" if a == b else "   <-- differs"
        print(f"{i:4d} {op:40s} impl={a}  model={b}{flag}")
    return 0

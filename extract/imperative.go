// imperative.go: a translator for a small IMPERATIVE Go subset, used to render methods
// with a pointer receiver as Lean definitions "literally" (Wasp/Generated/*Lit.lean).
//
// The subset (anything else is refused: the extractor exits non-zero naming the construct):
//
//	types       integer types (all rendered as Int; overflow is out of scope), bool,
//	            structs of those, slices of those, the receiver struct (sync.Mutex fields dropped)
//	statements  recv.mu.Lock() / defer recv.mu.Unlock()        dropped
//	            x := e        x = e      path = e     path op= e     path++   path--
//	            (a path is  x | recv.f | path.f | path[i] ; every update is functional)
//	            if c {…} [else if …] [else {…}]    switch { case c: … default: … }
//	            return [e]
//	            (units with ext: for ; c; post {…} with a declared bound, sort.SliceStable(path, less),
//	             time.Time as Int milliseconds with Before/After/Equal, interface{} with == only)
//	expressions literals, locals, parameters, field selection, a[i], s[a:], s[:b], s[a:b],
//	            len, append(a, b...), append(a, x…), []T{{…}}, T{…}, + - *, comparisons,
//	            ! && ||, integer conversions, sort.Search(n, func(i int) bool { return P })
//
// Units with an impConfig (the credential stores, wasp/auth) additionally have:
//
//	types       string (Lean String; == != < <= > >= through Go.eq/Go.ne/Go.strLt…, strings.Compare,
//	            literals, package-level string/int constants rendered as generated defs),
//	            []byte as the opaque Go.Bytes (only handed on: external calls, []byte(s)),
//	            error (nil, or a package-level `var ErrX = errors.New("…")`; Go.Error),
//	            structs with string fields, struct results, declarations looked up in the whole
//	            package directory, fields listed in impConfig.dropFields left out of a struct
//	parameters  read-only: scalars, structs (a struct whose declaration has fields outside the subset
//	            is a VIEW: only the fields the code selects are rendered), slices and slices of slices
//	            (never assigned, never copied into another variable). A parameter of any other type
//	            is dropped when the body never mentions it.
//	calls       an EXTERNAL function (impConfig.externs) becomes a parameter of every translated
//	            definition that uses it (same name, type from its Go declaration; it is assumed to be
//	            a function of its arguments); a nondet external (randomID) may only feed a dropped
//	            field; any other package function whose body is a single `return e` is inlined
//	statements  switch tag { case a, b: … } (as the if-chain on tag == a || tag == b),
//	            for i := range path {…} (as i := 0; for ; i < len(path); i++ {…}, path not assigned
//	            and i not assigned in the body), x := make([]T, 0) / x := []T{…} (a slice-typed local
//	            is accepted when its initial value is freshly allocated),
//	            sort.SliceStable(path, helper(path)) with  func helper(p []T) func(i, j int) bool
//	            { return func(i, j int) bool { return E } },  return &T{f: v}, … (a fresh struct: its value)
//	fragments   impSpec.frag: a plain function is translated from the statement that declares a given
//	            variable to its end; the variables live at that point are declared inputs.
//
// Units with impConfig.byteElems (the per-session filter list, wasp/sessions AddTopic / RemoveTopic):
//
//	types       a []byte value is an immutable ELEMENT value (never indexed, sliced or written), rendered
//	            as impConfig.bytesLean (List Char); [][]byte is a slice of such values
//	calls       bytes.Equal(a, b) on two such values (Go.eq)
//	statements  for i, v := range path {…} / for _, v := range path {…} over a SNAPSHOT of path taken at loop
//	            entry (Go evaluates the range expression once); the body may update path only by
//	            path[i] = e (the current range index) and path = path[:e] - see rangeValueLoop
//
// Units with impConfig.byteSlices (sessions.prefixMountPoint): []byte is a slice of bytes (List Char) and a
// Go string the read-only slice of its bytes; make([]byte, n) (guard 0 <= n), the statement
// copy(local[a:b], src) (Go.copyAt, src sharing nothing with the local), byte literals, a []byte result.
//
// The receiver is threaded as a VALUE: a method  func (m *T) F(a A) R  becomes
//
//	def f (m : T) (a : A) : Option (T × R)        (Option T when there is no result)
//
// `none` means "the Go code panics with an index/slice bound out of range": every a[i] and
// every slice expression contributes a guard, collected per statement and tested before
// the statement's effect (`if guard then … else none`). Guards follow Go's short-circuit
// evaluation: in `A && B` the guards of B are only demanded when A is true, in `A || B`
// when A is false; inside a sort.Search closure they are demanded for every i in [0, n).
// `s[:e]` demands e ≤ len s although Go allows e ≤ cap s (deliberately stricter).
//
// Value semantics for slices are only sound while no two live slices share a backing
// array, so: no local variable, parameter or result of slice type, and a slice-typed
// assignment `path = e` is accepted only when every slice read in e is `path` itself or
// freshly allocated (composite literal).
package main

import (
	"fmt"
	"go/ast"
	"go/parser"
	"go/token"
	"os"
	"path/filepath"
	"sort"
	"strconv"
	"strings"
	"unicode/utf8"
)

type impField struct{ name, typ string }

type impStruct struct {
	name    string
	fields  []impField
	mutexes map[string]bool
	rel     string   // file of the declaration
	view    bool     // read-only view: fields are added when the code selects them
	dropped []string // fields left out (impConfig.dropFields)
}

// impExtern names a package function that is not translated but becomes a parameter.
// nondet: its result is not a function of its arguments (randomID); it may only feed a dropped field.
type impExtern struct {
	name   string
	nondet bool
}

// impFrag: translate a plain function from the statement `first := …` (a top-level statement of its
// body) to its end (first == "": the whole function, its parameters being the inputs). inputs are the variables live at that point with their Go types (declared here:
// the extractor does not type-check; it verifies that each is declared by a := in the skipped prefix);
// results are the Go types of the results as the fragment produces them (the declared result types
// of the function may be interfaces).
type impFrag struct {
	inputs  []impField
	first   string
	results []string
}

// impConfig: a translation unit that spans a package directory.
type impConfig struct {
	rel        string // the file named in messages and in the header; declarations are looked up in its whole directory
	namespace  string
	ext        bool
	externs    []impExtern
	dropFields []string // "Type.Field"
	// byteElems: a []byte value is an immutable element value (never indexed, sliced, appended to or written
	// through in the subset), so [][]byte is a slice of such values and a []byte local / range value
	// variable is a copy of a value; bytesLean names the Lean type it is rendered as ("" = Go.Bytes)
	byteElems bool
	bytesLean string
	// byteSlices: []byte is an ordinary slice of bytes ("[]char": indexed, sliced, written), rendered as
	// List Char, and a Go string is the read-only slice of its bytes (len, []byte(s)) - the reading of
	// Translated.lean (trimMountPoint). Adds make([]byte, n), copy(path[a:b], src), byte literals.
	byteSlices bool
	imports    []string // further Lean modules the generated file imports
}

type impConst struct{ name, typ, val, rel, doc string }

// impSpec names one method to translate; fuel is the Go expression (evaluated where a for loop is
// entered) bounding the number of turns of the loops of the method ("" = the method has no loop).
type impSpec struct {
	recvType, goName, leanName, fuel string
	file                             string // "" = the unit's file
	frag                             *impFrag
}

type impUnit struct {
	rel        string
	p          *parsed
	structs    map[string]*impStruct
	emitted    []string   // struct names in emission order
	timeInt    bool       // render time.Time as Int (milliseconds) and its Before/Equal/After as < = >
	cfg        *impConfig // nil for the single-file units (idpool, bucket)
	pkg        []string   // files of the package directory (cfg != nil), the unit's file first
	externs    map[string]impExtern
	dropped    map[string]bool
	consts     map[string]*impConst
	constOrder []string
}

type impFn struct {
	u             *impUnit
	where         string
	recv          string
	recvType      string
	locals        map[string]string
	declOrder     []string
	results       []string
	inJoin        bool
	leanName      string
	fuel          string            // Go expression bounding loop turns
	loops         int               // loops translated so far
	aux           []string          // auxiliary definitions (loop bodies), emitted before the function
	retWrap       string            // "" or the Go.Ctl constructor wrapping a return inside a loop body
	elemSubst     map[string]string // inside a sort.SliceStable closure: "path[i]" -> element variable
	elemType      string
	resultT       string  // Lean type of the function's result (without Option)
	p             *parsed // the file the function is in
	rel           string
	readonly      map[string]bool // parameters / inputs: never assigned
	subst         map[string]ev   // while a helper function is inlined: parameter -> argument
	usedExt       map[string]bool // external functions called (they become parameters)
	inReturn      bool            // translating the results of a return statement
	fragment      bool
	inlining      int
	dropAfterLoop string // range loops: the index variable goes out of scope after the loop
	dropSnapshot  string // range loops with a value variable: so does the snapshot of the range expression
}

// placeholders for the external-function parameters / arguments of a definition; replaced once the
// whole function is translated (only then is the set of externals it uses known)
const extParams, extArgs = "\x00EXTP\x00", "\x00EXTA\x00"

// ev is a translated expression: guards (conjuncts, Lean Bool terms), value, Go type.
type ev struct {
	g []string
	v string
	t string
}

func (f *impFn) bad(n ast.Node, what string) {
	line := 0
	if n != nil {
		line = f.p.fset.Position(n.Pos()).Line
	}
	failf("%s:%d (%s): outside the imperative subset: %s", f.rel, line, f.where, what)
}

func conj(gs ...[]string) []string {
	seen := map[string]bool{}
	out := []string{}
	for _, g := range gs {
		for _, c := range g {
			if !seen[c] {
				seen[c] = true
				out = append(out, c)
			}
		}
	}
	return out
}

func guardTerm(g []string) string {
	if len(g) == 1 {
		return g[0]
	}
	return "(" + strings.Join(g, " && ") + ")"
}

// ---------------------------------------------------------------- types

var goIntTypes = map[string]bool{"int": true, "int8": true, "int16": true, "int32": true, "int64": true,
	"uint": true, "uint8": true, "uint16": true, "uint32": true, "uint64": true, "byte": true}

// goType gives the canonical type string: "int", "bool", "string", "bytes", "error", "any", "[]T",
// a struct name, "mutex".
func (u *impUnit) goType(e ast.Expr) (string, bool) { return u.goTypeN(e, false) }

// goTypeN: with nested, slices of slices are accepted (read-only parameters only).
func (u *impUnit) goTypeN(e ast.Expr, nested bool) (string, bool) {
	switch x := e.(type) {
	case *ast.Ident:
		if goIntTypes[x.Name] {
			return "int", true
		}
		if x.Name == "bool" {
			return "bool", true
		}
		if u.cfg != nil && u.cfg.byteSlices && x.Name == "string" {
			return "[]char", true
		}
		if u.cfg != nil && (x.Name == "string" || x.Name == "error") {
			return x.Name, true
		}
		if st, _ := u.structDecl(x.Name); st != nil {
			return x.Name, true
		}
	case *ast.ArrayType:
		if x.Len == nil {
			if u.cfg != nil && u.cfg.byteSlices && exprString(x.Elt) == "byte" {
				return "[]char", true
			}
			if u.cfg != nil && exprString(x.Elt) == "byte" {
				return "bytes", true
			}
			if et, ok := u.goTypeN(x.Elt, nested); ok && et != "mutex" && (et != "bytes" || (u.cfg != nil && u.cfg.byteElems)) && et != "error" && (nested || !strings.HasPrefix(et, "[]")) {
				return "[]" + et, true
			}
		}
	case *ast.SelectorExpr:
		s := exprString(x)
		if s == "sync.Mutex" || s == "sync.RWMutex" {
			return "mutex", true
		}
		if s == "time.Time" && u.timeInt {
			return "int", true
		}
	case *ast.InterfaceType:
		if u.timeInt && (x.Methods == nil || len(x.Methods.List) == 0) {
			// interface{}: only == / != are allowed on it (Go.Any, see GoPrelude)
			return "any", true
		}
	}
	return "", false
}

func isScalar(t string) bool {
	return t == "int" || t == "bool" || t == "any" || t == "string" || t == "char"
}

// files lists the files declarations are looked up in: the unit's file, or (impConfig) every
// non-test .go file of its directory, the unit's file first.
func (u *impUnit) files() []string {
	if u.cfg == nil {
		return []string{u.rel}
	}
	if u.pkg == nil {
		u.pkg = []string{u.rel}
		dir := filepath.Dir(u.rel)
		ents, err := os.ReadDir(filepath.Join(*repo, dir))
		if err != nil {
			failf("%s: cannot list the package directory: %v", u.rel, err)
			return u.pkg
		}
		for _, e := range ents {
			n := e.Name()
			if e.IsDir() || !strings.HasSuffix(n, ".go") || strings.HasSuffix(n, "_test.go") || filepath.Join(dir, n) == u.rel {
				continue
			}
			u.pkg = append(u.pkg, filepath.Join(dir, n))
		}
	}
	return u.pkg
}

// eachDecl visits the top-level declarations of the unit's files until visit answers true.
func (u *impUnit) eachDecl(visit func(rel string, d ast.Decl) bool) {
	for _, rel := range u.files() {
		p := parse(rel)
		if p == nil {
			continue
		}
		for _, d := range p.file.Decls {
			if visit(rel, d) {
				return
			}
		}
	}
}

func (u *impUnit) structDecl(name string) (st *ast.StructType, where string) {
	u.eachDecl(func(rel string, d ast.Decl) bool {
		gd, ok := d.(*ast.GenDecl)
		if !ok || gd.Tok != token.TYPE {
			return false
		}
		for _, s := range gd.Specs {
			ts := s.(*ast.TypeSpec)
			if ts.Name.Name == name {
				if t, ok := ts.Type.(*ast.StructType); ok {
					st, where = t, rel
					return true
				}
			}
		}
		return false
	})
	return
}

// funcDecl finds a plain (receiver-less) function of the package.
func (u *impUnit) funcDecl(name string) (fd *ast.FuncDecl, where string) {
	u.eachDecl(func(rel string, d ast.Decl) bool {
		if x, ok := d.(*ast.FuncDecl); ok && x.Recv == nil && x.Name.Name == name {
			fd, where = x, rel
			return true
		}
		return false
	})
	return
}

// leanString renders a Go string value as a Lean string literal.
func leanString(v string) (string, bool) {
	if !utf8.ValidString(v) {
		return "", false
	}
	var b strings.Builder
	b.WriteByte('"')
	for _, r := range v {
		switch {
		case r == '"' || r == '\\':
			b.WriteByte('\\')
			b.WriteRune(r)
		case r == '\n':
			b.WriteString("\\n")
		case r == '\t':
			b.WriteString("\\t")
		case r == '\r':
			b.WriteString("\\r")
		case r < 0x20 || r >= 0x7f:
			fmt.Fprintf(&b, "\\u{%x}", r)
		default:
			b.WriteRune(r)
		}
	}
	b.WriteByte('"')
	return b.String(), true
}

// constant resolves a package-level  const X = <string or int literal>  or
// var X = errors.New("…")  (an error identified by its name); each one used becomes a generated def.
func (u *impUnit) constant(name string) *impConst {
	if u.cfg == nil {
		return nil
	}
	if c, ok := u.consts[name]; ok {
		return c
	}
	var found *impConst
	u.eachDecl(func(rel string, d ast.Decl) bool {
		gd, ok := d.(*ast.GenDecl)
		if !ok || (gd.Tok != token.CONST && gd.Tok != token.VAR) {
			return false
		}
		for _, s := range gd.Specs {
			vs := s.(*ast.ValueSpec)
			for i, n := range vs.Names {
				if n.Name != name || len(vs.Values) != len(vs.Names) {
					continue
				}
				val := vs.Values[i]
				if gd.Tok == token.CONST {
					if bl, ok := val.(*ast.BasicLit); ok && bl.Kind == token.STRING && (vs.Type == nil || exprString(vs.Type) == "string") {
						if sv, err := strconv.Unquote(bl.Value); err == nil {
							if ls, ok := leanString(sv); ok {
								found = &impConst{name, "string", ls, rel, "const " + name + " = " + bl.Value}
							}
						}
					} else if ok && bl.Kind == token.INT && (vs.Type == nil || goIntTypes[exprString(vs.Type)]) {
						found = &impConst{name, "int", "(" + bl.Value + " : Int)", rel, "const " + name + " = " + bl.Value}
					}
				} else if c, ok := val.(*ast.CallExpr); ok && exprString(c.Fun) == "errors.New" && len(c.Args) == 1 && vs.Type == nil {
					if bl, ok := c.Args[0].(*ast.BasicLit); ok && bl.Kind == token.STRING {
						ls, _ := leanString(name)
						found = &impConst{name, "error", "Go.Error.sentinel " + ls, rel, "var " + name + " = errors.New(" + bl.Value + ")"}
					}
				}
				return true
			}
		}
		return false
	})
	if found != nil {
		u.consts[name] = found
		u.constOrder = append(u.constOrder, name)
	}
	return found
}

// fieldsInSubset: could the struct be rendered whole (as an element / result struct)?
func (u *impUnit) fieldsInSubset(st *ast.StructType) bool {
	for _, fl := range st.Fields.List {
		ft, ok := u.goType(fl.Type)
		if !ok || len(fl.Names) == 0 || !(isScalar(ft) || ft == "mutex") {
			return false
		}
	}
	return true
}

// useView registers a struct as a read-only view (a parameter type): fields are rendered when selected.
func (u *impUnit) useView(name string) *impStruct {
	if s, ok := u.structs[name]; ok {
		return s
	}
	st, rel := u.structDecl(name)
	if st == nil {
		failf("%s: struct type %s not found", u.rel, name)
		return nil
	}
	if u.fieldsInSubset(st) {
		return u.useStruct(name, false)
	}
	s := &impStruct{name: name, mutexes: map[string]bool{}, rel: rel, view: true}
	u.structs[name] = s
	u.emitted = append(u.emitted, name)
	return s
}

// useStruct registers a struct (fields first), refusing field types outside the subset.
func (u *impUnit) useStruct(name string, isRecv bool) *impStruct {
	if s, ok := u.structs[name]; ok {
		return s
	}
	st, rel := u.structDecl(name)
	if st == nil {
		failf("%s: struct type %s not found", u.rel, name)
		return nil
	}
	s := &impStruct{name: name, mutexes: map[string]bool{}, rel: rel}
	u.structs[name] = s
	for _, fl := range st.Fields.List {
		ft, ok := u.goType(fl.Type)
		if len(fl.Names) == 0 {
			failf("%s: type %s: outside the imperative subset: embedded field %s", rel, name, exprString(fl.Type))
			continue
		}
		for _, n := range fl.Names {
			if u.dropped[name+"."+n.Name] {
				s.dropped = append(s.dropped, n.Name)
				continue
			}
			if !ok {
				failf("%s: type %s: outside the imperative subset: field type %s", rel, name, exprString(fl.Type))
				continue
			}
			if ft == "mutex" {
				s.mutexes[n.Name] = true
				continue
			}
			if ft == "bytes" || ft == "error" {
				failf("%s: type %s: outside the imperative subset: field %s of type %s", rel, name, n.Name, ft)
				continue
			}
			if !isRecv && !isScalar(ft) {
				failf("%s: type %s: outside the imperative subset: field %s of type %s in an element struct (copying it would alias)", rel, name, n.Name, ft)
				continue
			}
			el := strings.TrimPrefix(ft, "[]")
			if !isScalar(el) && el != "bytes" {
				u.useStruct(el, false)
			}
			s.fields = append(s.fields, impField{n.Name, ft})
		}
	}
	u.emitted = append(u.emitted, name)
	return s
}

// leanBytes: the Lean type of a []byte value in the unit being translated (impConfig.bytesLean)
var leanBytes = "Go.Bytes"

func leanType(t string) string {
	switch {
	case t == "int":
		return "Int"
	case t == "bool":
		return "Bool"
	case t == "any":
		return "Go.Any"
	case t == "string":
		return "String"
	case t == "char":
		return "Char"
	case t == "bytes":
		return leanBytes
	case t == "[]bytes" && strings.Contains(leanBytes, " "):
		return "List (" + leanBytes + ")"
	case t == "error":
		return "Go.Error"
	case strings.HasPrefix(t, "[][]"):
		return "List (" + leanType(t[2:]) + ")"
	case strings.HasPrefix(t, "[]"):
		return "List " + leanType(t[2:])
	}
	return leanIdent(t)
}

func (u *impUnit) field(structName, f string) (string, bool) {
	s := u.structs[structName]
	if s == nil {
		return "", false
	}
	for _, fl := range s.fields {
		if fl.name == f {
			return fl.typ, true
		}
	}
	if s.view {
		// a view grows by the fields the code reads (scalars and opaque byte slices only)
		if st, _ := u.structDecl(structName); st != nil {
			for _, fl := range st.Fields.List {
				for _, n := range fl.Names {
					if n.Name == f {
						if ft, ok := u.goType(fl.Type); ok && (isScalar(ft) || ft == "bytes") {
							s.fields = append(s.fields, impField{f, ft})
							return ft, true
						}
					}
				}
			}
		}
	}
	return "", false
}

// declIndex orders the fields of a view as they are declared.
func (u *impUnit) sortView(s *impStruct) {
	st, _ := u.structDecl(s.name)
	if st == nil {
		return
	}
	pos := map[string]int{}
	k := 0
	for _, fl := range st.Fields.List {
		for _, n := range fl.Names {
			pos[n.Name] = k
			k++
		}
	}
	sort.SliceStable(s.fields, func(i, j int) bool { return pos[s.fields[i].name] < pos[s.fields[j].name] })
}

// ---------------------------------------------------------------- expressions

// comparisons are rendered with the Bool-valued Go.lt … Go.ne (GoPrelude) rather than `decide (a < b)`:
// a `decide` carries a Decidable instance mentioning its operands, which goes stale under definitional rewriting
var impCmp = map[token.Token]string{token.LSS: "Go.lt", token.LEQ: "Go.le", token.GTR: "Go.gt", token.GEQ: "Go.ge", token.EQL: "Go.eq", token.NEQ: "Go.ne"}
var impArith = map[token.Token]string{token.ADD: "+", token.SUB: "-", token.MUL: "*"}

func (f *impFn) errEv(n ast.Node, what string) ev {
	f.bad(n, what)
	return ev{nil, "sorryUntranslatable", "?"}
}

func (f *impFn) expr(e ast.Expr) ev {
	switch x := e.(type) {
	case *ast.Ident:
		if x.Name == "true" || x.Name == "false" {
			return ev{nil, x.Name, "bool"}
		}
		if x.Name == f.recv {
			return ev{nil, leanIdent(x.Name), f.recvType}
		}
		if a, ok := f.subst[x.Name]; ok {
			return a
		}
		if t, ok := f.locals[x.Name]; ok {
			return ev{nil, leanIdent(x.Name), t}
		}
		if x.Name == "nil" && f.u.cfg != nil {
			return ev{nil, "Go.Error.nil", "nil"} // typed by its context (an error result)
		}
		if c := f.u.constant(x.Name); c != nil {
			return ev{nil, leanIdent(c.name), c.typ}
		}
		return f.errEv(e, "identifier "+x.Name+" (not a local, parameter or the receiver)")
	case *ast.BasicLit:
		if x.Kind == token.INT {
			return ev{nil, "(" + x.Value + " : Int)", "int"}
		}
		if x.Kind == token.CHAR && f.u.cfg != nil && f.u.cfg.byteSlices {
			// a byte constant: printable ASCII without escapes reads the same in Lean
			if len(x.Value) == 3 && x.Value[1] >= 0x20 && x.Value[1] < 0x7f && x.Value[1] != '\\' && x.Value[1] != '\'' {
				return ev{nil, x.Value, "char"}
			}
		}
		if x.Kind == token.STRING && f.u.cfg != nil {
			if sv, err := strconv.Unquote(x.Value); err == nil {
				if ls, ok := leanString(sv); ok {
					return ev{nil, ls, "string"}
				}
			}
		}
		return f.errEv(e, "literal "+x.Value)
	case *ast.ParenExpr:
		return f.expr(x.X)
	case *ast.UnaryExpr:
		if cl, ok := x.X.(*ast.CompositeLit); ok && x.Op == token.AND {
			// &T{…}: the only reference to a fresh struct; in a return statement it is rendered as the value
			if !f.inReturn || f.u.cfg == nil {
				return f.errEv(e, "&T{…} outside a return statement")
			}
			return f.expr(cl)
		}
		a := f.expr(x.X)
		switch {
		case x.Op == token.NOT && a.t == "bool":
			return ev{a.g, "(!" + a.v + ")", "bool"}
		case x.Op == token.SUB && a.t == "int":
			return ev{a.g, "(-" + a.v + ")", "int"}
		}
		return f.errEv(e, "unary operator "+x.Op.String()+" on "+a.t)
	case *ast.BinaryExpr:
		l, r := f.expr(x.X), f.expr(x.Y)
		if x.Op == token.LAND || x.Op == token.LOR {
			if l.t != "bool" || r.t != "bool" {
				return f.errEv(e, "operator "+x.Op.String()+" on "+l.t+", "+r.t)
			}
			g := l.g
			if len(r.g) > 0 {
				// short circuit: the right operand is only evaluated when the left one does not decide
				if x.Op == token.LAND {
					g = conj(g, []string{"(!" + l.v + " || " + guardTerm(r.g) + ")"})
				} else {
					g = conj(g, []string{"(" + l.v + " || " + guardTerm(r.g) + ")"})
				}
			}
			op := "&&"
			if x.Op == token.LOR {
				op = "||"
			}
			return ev{g, "(" + l.v + " " + op + " " + r.v + ")", "bool"}
		}
		if op, ok := impCmp[x.Op]; ok {
			okT := l.t == r.t && (l.t == "int" || l.t == "string" || ((l.t == "bool" || l.t == "any") && (x.Op == token.EQL || x.Op == token.NEQ)))
			if !okT {
				return f.errEv(e, "comparison "+x.Op.String()+" on "+l.t+", "+r.t)
			}
			if l.t == "string" && x.Op != token.EQL && x.Op != token.NEQ {
				op = map[token.Token]string{token.LSS: "Go.strLt", token.LEQ: "Go.strLe", token.GTR: "Go.strGt", token.GEQ: "Go.strGe"}[x.Op]
			}
			return ev{conj(l.g, r.g), "(" + op + " " + l.v + " " + r.v + ")", "bool"}
		}
		if op, ok := impArith[x.Op]; ok {
			if l.t != "int" || r.t != "int" {
				return f.errEv(e, "operator "+x.Op.String()+" on "+l.t+", "+r.t)
			}
			return ev{conj(l.g, r.g), "(" + l.v + " " + op + " " + r.v + ")", "int"}
		}
		return f.errEv(e, "binary operator "+x.Op.String())
	case *ast.SelectorExpr:
		a := f.expr(x.X)
		if s := f.u.structs[a.t]; s != nil && s.mutexes[x.Sel.Name] {
			return f.errEv(e, "use of the mutex field "+exprString(e))
		}
		ft, ok := f.u.field(a.t, x.Sel.Name)
		if !ok {
			return f.errEv(e, "selector "+exprString(e))
		}
		return ev{a.g, a.v + "." + leanIdent(x.Sel.Name), ft}
	case *ast.IndexExpr:
		if v, ok := f.elemSubst[exprString(e)]; ok {
			return ev{nil, v, f.elemType}
		}
		a, i := f.expr(x.X), f.expr(x.Index)
		if !strings.HasPrefix(a.t, "[]") || i.t != "int" {
			return f.errEv(e, "index expression "+exprString(e)+" on "+a.t)
		}
		g := conj(a.g, i.g, []string{"(Go.inRange " + a.v + " " + i.v + ")"})
		return ev{g, "(Go.index " + a.v + " " + i.v + ")", a.t[2:]}
	case *ast.SliceExpr:
		if x.Slice3 {
			return f.errEv(e, "3-index slice expression "+exprString(e))
		}
		a := f.expr(x.X)
		if !strings.HasPrefix(a.t, "[]") {
			return f.errEv(e, "slice expression "+exprString(e)+" on "+a.t)
		}
		var lo, hi ev
		if x.Low != nil {
			if lo = f.expr(x.Low); lo.t != "int" {
				return f.errEv(e, "slice bound of type "+lo.t)
			}
		}
		if x.High != nil {
			if hi = f.expr(x.High); hi.t != "int" {
				return f.errEv(e, "slice bound of type "+hi.t)
			}
		}
		switch {
		case x.Low != nil && x.High == nil:
			return ev{conj(a.g, lo.g, []string{"(Go.sliceFromOk " + a.v + " " + lo.v + ")"}), "(Go.sliceFrom " + a.v + " " + lo.v + ")", a.t}
		case x.Low == nil && x.High != nil:
			return ev{conj(a.g, hi.g, []string{"(Go.sliceToOk " + a.v + " " + hi.v + ")"}), "(Go.sliceTo " + a.v + " " + hi.v + ")", a.t}
		case x.Low != nil && x.High != nil:
			return ev{conj(a.g, lo.g, hi.g, []string{"(Go.sliceOk " + a.v + " " + lo.v + " " + hi.v + ")"}), "(Go.slice " + a.v + " " + lo.v + " " + hi.v + ")", a.t}
		}
		return a
	case *ast.CompositeLit:
		t, ok := f.u.goType(x.Type)
		if !ok {
			return f.errEv(e, "composite literal of type "+exprString(x.Type))
		}
		if f.u.cfg != nil {
			// a struct first met in a literal: an element struct, or (in a return statement) a container
			if el := strings.TrimPrefix(t, "[]"); !isScalar(el) && f.u.structs[el] == nil {
				f.u.useStruct(el, f.inReturn && el == t)
			}
		}
		return f.composite(x, t)
	case *ast.CallExpr:
		return f.call(x)
	}
	return f.errEv(e, fmt.Sprintf("expression %s (%T)", exprString(e), e))
}

func (f *impFn) composite(x *ast.CompositeLit, t string) ev {
	if strings.HasPrefix(t, "[]") {
		el := t[2:]
		g := []string{}
		vs := []string{}
		for _, e := range x.Elts {
			var a ev
			if cl, ok := e.(*ast.CompositeLit); ok && cl.Type == nil {
				a = f.composite(cl, el)
			} else if _, ok := e.(*ast.KeyValueExpr); ok {
				return f.errEv(e, "keyed element in a slice literal")
			} else {
				a = f.expr(e)
			}
			if a.t != el {
				return f.errEv(e, "slice literal element of type "+a.t+", expected "+el)
			}
			g = conj(g, a.g)
			vs = append(vs, a.v)
		}
		return ev{g, "([" + strings.Join(vs, ", ") + "] : " + leanType(t) + ")", t}
	}
	s := f.u.structs[t]
	if s == nil || t == f.recvType || s.view {
		return f.errEv(x, "composite literal of type "+t)
	}
	vals := map[string]string{}
	g := []string{}
	for i, e := range x.Elts {
		name := ""
		var val ast.Expr
		if kv, ok := e.(*ast.KeyValueExpr); ok {
			name, val = exprString(kv.Key), kv.Value
		} else if i < len(s.fields) && len(x.Elts) == len(s.fields) && len(s.dropped) == 0 {
			name, val = s.fields[i].name, e
		} else {
			return f.errEv(e, "positional struct literal with missing fields")
		}
		if f.u.dropped[t+"."+name] {
			// the field is not rendered: its value must be a call of a nondet external without arguments
			c, isCall := val.(*ast.CallExpr)
			if !isCall || len(c.Args) != 0 || !f.u.externs[exprString(c.Fun)].nondet {
				return f.errEv(e, "value of the dropped field "+name+" is not a call of a nondet external function")
			}
			continue
		}
		ft, ok := f.u.field(t, name)
		a := f.expr(val)
		if !ok || a.t != ft {
			return f.errEv(e, "struct literal field "+name+" of type "+a.t)
		}
		if strings.HasPrefix(ft, "[]") && !f.inReturn {
			return f.errEv(e, "struct literal with the slice-typed field "+name+" outside a return statement (it would alias its source)")
		}
		if _, dup := vals[name]; dup {
			return f.errEv(e, "duplicate field "+name)
		}
		vals[name] = a.v
		g = conj(g, a.g)
	}
	parts := []string{}
	for _, fl := range s.fields {
		v, ok := vals[fl.name]
		if !ok { // Go zero value
			switch fl.typ {
			case "int":
				v = "(0 : Int)"
			case "bool":
				v = "false"
			case "string":
				v = "\"\""
			default:
				return f.errEv(x, "struct literal omitting field "+fl.name+" of type "+fl.typ)
			}
		}
		parts = append(parts, leanIdent(fl.name)+" := "+v)
	}
	return ev{g, "({ " + strings.Join(parts, ", ") + " } : " + leanType(t) + ")", t}
}

func (f *impFn) call(x *ast.CallExpr) ev {
	fn := exprString(x.Fun)
	switch {
	case fn == "len" && len(x.Args) == 1:
		a := f.expr(x.Args[0])
		if !strings.HasPrefix(a.t, "[]") {
			return f.errEv(x, "len of "+a.t)
		}
		return ev{a.g, "(Go.len " + a.v + ")", "int"}
	case goIntTypes[fn] && len(x.Args) == 1:
		a := f.expr(x.Args[0])
		if a.t != "int" {
			return f.errEv(x, "conversion "+fn+" of "+a.t)
		}
		return a // integers are Int: conversions are the identity (overflow out of scope)
	case fn == "append" && len(x.Args) >= 2:
		a := f.expr(x.Args[0])
		if !strings.HasPrefix(a.t, "[]") {
			return f.errEv(x, "append to "+a.t)
		}
		if x.Ellipsis != token.NoPos {
			if len(x.Args) != 2 {
				return f.errEv(x, "append with ... and several arguments")
			}
			b := f.expr(x.Args[1])
			if b.t != a.t {
				return f.errEv(x, "append of "+b.t+" to "+a.t)
			}
			return ev{conj(a.g, b.g), "(" + a.v + " ++ " + b.v + ")", a.t}
		}
		g := a.g
		vs := []string{}
		for _, arg := range x.Args[1:] {
			b := f.expr(arg)
			if b.t != a.t[2:] {
				return f.errEv(x, "append of "+b.t+" to "+a.t)
			}
			g = conj(g, b.g)
			vs = append(vs, b.v)
		}
		return ev{g, "(" + a.v + " ++ [" + strings.Join(vs, ", ") + "])", a.t}
	case fn == "sort.Search" && len(x.Args) == 2:
		n := f.expr(x.Args[0])
		fl, ok := x.Args[1].(*ast.FuncLit)
		if n.t != "int" || !ok {
			return f.errEv(x, "sort.Search whose arguments are not (int, func literal)")
		}
		ps := fl.Type.Params.List
		if len(ps) != 1 || len(ps[0].Names) != 1 || exprString(ps[0].Type) != "int" ||
			fl.Type.Results == nil || len(fl.Type.Results.List) != 1 || exprString(fl.Type.Results.List[0].Type) != "bool" {
			return f.errEv(fl, "sort.Search closure that is not func(i int) bool")
		}
		if len(fl.Body.List) != 1 {
			return f.errEv(fl, "sort.Search closure whose body is not a single return")
		}
		rs, ok := fl.Body.List[0].(*ast.ReturnStmt)
		if !ok || len(rs.Results) != 1 {
			return f.errEv(fl, "sort.Search closure whose body is not a single return")
		}
		iv := ps[0].Names[0].Name
		if _, dup := f.locals[iv]; dup || iv == f.recv {
			return f.errEv(fl, "closure parameter "+iv+" shadows a variable")
		}
		f.locals[iv] = "int"
		b := f.expr(rs.Results[0])
		delete(f.locals, iv)
		if b.t != "bool" {
			return f.errEv(fl, "sort.Search closure returning "+b.t)
		}
		g := n.g
		lam := "(fun (" + leanIdent(iv) + " : Int) => "
		if len(b.g) > 0 {
			// the closure may be called with any i in [0, n): its guards must hold for all of them
			g = conj(g, []string{"(Go.forallBelow " + n.v + " " + lam + guardTerm(b.g) + "))"})
		}
		return ev{g, "(Go.search " + n.v + " " + lam + b.v + "))", "int"}
	}
	if f.u.cfg != nil {
		if a, ok := f.callExt(x, fn); ok {
			return a
		}
	}
	if f.u.timeInt {
		if sel, ok := x.Fun.(*ast.SelectorExpr); ok && len(x.Args) == 1 {
			if op, ok := map[string]string{"Before": "Go.lt", "After": "Go.gt", "Equal": "Go.eq"}[sel.Sel.Name]; ok {
				a, b := f.expr(sel.X), f.expr(x.Args[0])
				if a.t == "int" && b.t == "int" {
					return ev{conj(a.g, b.g), "(" + op + " " + a.v + " " + b.v + ")", "bool"}
				}
			}
		}
	}
	return f.errEv(x, "call of "+fn)
}

// callExt: the calls of the impConfig units (strings, []byte(s), make, external and inlined functions).
func (f *impFn) callExt(x *ast.CallExpr, fn string) (ev, bool) {
	switch {
	case fn == "[]byte" && len(x.Args) == 1 && f.u.cfg.byteSlices:
		// []byte(s): a fresh copy of the bytes of s (strings are their bytes here)
		a := f.expr(x.Args[0])
		if a.t != "[]char" {
			return f.errEv(x, "conversion []byte of "+a.t), true
		}
		return a, true
	case fn == "make" && len(x.Args) == 2 && f.u.cfg.byteSlices:
		// make([]byte, n): n zero bytes; panics when n < 0
		t, ok := f.u.goType(x.Args[0])
		n := f.expr(x.Args[1])
		if !ok || t != "[]char" || n.t != "int" {
			return f.errEv(x, "make other than make([]byte, n)"), true
		}
		return ev{conj(n.g, []string{"(Go.le (0 : Int) " + n.v + ")"}), "(Go.makeBytes " + n.v + ")", t}, true
	case fn == "[]byte" && len(x.Args) == 1:
		a := f.expr(x.Args[0])
		if a.t != "string" {
			return f.errEv(x, "conversion []byte of "+a.t), true
		}
		return ev{a.g, "(Go.bytesOfString " + a.v + ")", "bytes"}, true
	case fn == "bytes.Equal" && len(x.Args) == 2 && f.u.cfg.byteElems:
		// bytes.Equal(a, b): a and b have the same length and the same bytes (nil and empty are equal) -
		// equality of the values
		if _, shadow := f.locals["bytes"]; shadow || f.recv == "bytes" {
			return f.errEv(x, "call of bytes.Equal where bytes is a variable"), true
		}
		a, b := f.expr(x.Args[0]), f.expr(x.Args[1])
		if a.t != "bytes" || b.t != "bytes" {
			return f.errEv(x, "bytes.Equal on "+a.t+", "+b.t), true
		}
		return ev{conj(a.g, b.g), "(Go.eq " + a.v + " " + b.v + ")", "bool"}, true
	case fn == "strings.Compare" && len(x.Args) == 2:
		a, b := f.expr(x.Args[0]), f.expr(x.Args[1])
		if a.t != "string" || b.t != "string" {
			return f.errEv(x, "strings.Compare on "+a.t+", "+b.t), true
		}
		return ev{conj(a.g, b.g), "(Go.strCompare " + a.v + " " + b.v + ")", "int"}, true
	case fn == "make" && len(x.Args) == 2:
		t, ok := f.u.goType(x.Args[0])
		n, isLit := x.Args[1].(*ast.BasicLit)
		if !ok || !strings.HasPrefix(t, "[]") || !isLit || n.Value != "0" {
			return f.errEv(x, "make other than make([]T, 0)"), true
		}
		if el := t[2:]; !isScalar(el) && f.u.structs[el] == nil {
			f.u.useStruct(el, false)
		}
		return ev{nil, "([] : " + leanType(t) + ")", t}, true
	}
	id, ok := x.Fun.(*ast.Ident)
	if !ok || x.Ellipsis != token.NoPos {
		return ev{}, false
	}
	if _, shadow := f.locals[id.Name]; shadow || id.Name == f.recv {
		return ev{}, false
	}
	fd, rel := f.u.funcDecl(id.Name)
	if fd == nil {
		return ev{}, false
	}
	// parameter names and types, result type
	names, types := []string{}, []string{}
	for _, prm := range fd.Type.Params.List {
		pt, ok := f.u.goTypeN(prm.Type, true)
		if !ok || !(isScalar(pt) || pt == "bytes" || strings.HasPrefix(pt, "[]")) || len(prm.Names) == 0 {
			return f.errEv(x, "call of "+fn+" (parameter of type "+exprString(prm.Type)+")"), true
		}
		for _, n := range prm.Names {
			names, types = append(names, n.Name), append(types, pt)
		}
	}
	if fd.Type.Results == nil || len(fd.Type.Results.List) != 1 || len(fd.Type.Results.List[0].Names) > 0 {
		return f.errEv(x, "call of "+fn+" (not exactly one unnamed result)"), true
	}
	rt, ok := f.u.goType(fd.Type.Results.List[0].Type)
	if !ok || !(isScalar(rt) || rt == "bytes") {
		return f.errEv(x, "call of "+fn+" (result of type "+exprString(fd.Type.Results.List[0].Type)+")"), true
	}
	if len(x.Args) != len(names) {
		return f.errEv(x, "call of "+fn+" with a different number of arguments"), true
	}
	args := []ev{}
	g := []string{}
	for i, arg := range x.Args {
		a := f.expr(arg)
		if a.t != types[i] {
			return f.errEv(x, "call of "+fn+": argument of type "+a.t+" for "+types[i]), true
		}
		g = conj(g, a.g)
		args = append(args, a)
	}
	if ext, isExt := f.u.externs[id.Name]; isExt {
		if ext.nondet {
			return f.errEv(x, "call of the nondet external function "+fn+" whose result is used"), true
		}
		// an external function: a parameter of the translated definition (assumed to be a function of its arguments)
		f.usedExt[id.Name] = true
		v := "(" + leanIdent(id.Name)
		for _, a := range args {
			v += " " + a.v
		}
		return ev{g, v + ")", rt}, true
	}
	// any other package function whose body is a single `return e`: inlined, its parameters
	// standing for the (side-effect free) arguments
	if fd.Body == nil || len(fd.Body.List) != 1 {
		return f.errEv(x, "call of "+fn+" (neither declared external nor a single return statement)"), true
	}
	rs, isRet := fd.Body.List[0].(*ast.ReturnStmt)
	if !isRet || len(rs.Results) != 1 {
		return f.errEv(x, "call of "+fn+" (neither declared external nor a single return statement)"), true
	}
	if f.inlining > 8 {
		return f.errEv(x, "call of "+fn+" (inlining too deep: recursion?)"), true
	}
	sub := map[string]ev{}
	for i, n := range names {
		sub[n] = ev{nil, args[i].v, types[i]} // the guards of the arguments are demanded once, here
	}
	saved := *f
	f.locals, f.subst, f.recv, f.elemSubst = map[string]string{}, sub, "", nil
	f.p, f.rel, f.where = parse(rel), rel, saved.where+" -> "+id.Name
	f.inlining++
	r := f.expr(rs.Results[0])
	f.locals, f.subst, f.recv, f.elemSubst = saved.locals, saved.subst, saved.recv, saved.elemSubst
	f.p, f.rel, f.where = saved.p, saved.rel, saved.where
	f.inlining--
	if r.t != rt && r.t != "?" {
		return f.errEv(x, "call of "+fn+": its body yields "+r.t+" for "+rt), true
	}
	return ev{conj(g, r.g), r.v, rt}, true
}

// ---------------------------------------------------------------- aliasing

// sliceSources lists the slice-typed variables/fields whose backing array the value of e may share.
func (f *impFn) sliceSources(e ast.Expr) []string {
	switch x := e.(type) {
	case *ast.ParenExpr:
		return f.sliceSources(x.X)
	case *ast.Ident, *ast.SelectorExpr:
		if strings.HasPrefix(f.expr(e).t, "[]") {
			return []string{exprString(e)}
		}
		return nil
	case *ast.SliceExpr:
		return f.sliceSources(x.X)
	case *ast.CallExpr:
		if exprString(x.Fun) == "make" || exprString(x.Fun) == "[]byte" {
			return nil // freshly allocated (a conversion []byte(s) copies)
		}
		out := []string{}
		for _, a := range x.Args {
			if _, isLit := a.(*ast.FuncLit); !isLit {
				out = append(out, f.sliceSources(a)...)
			}
		}
		return out
	case *ast.IndexExpr:
		if strings.HasPrefix(f.lvalueType(e), "[]") {
			return f.sliceSources(x.X) // an element that is itself a slice (slices of slices)
		}
		return nil
	case *ast.CompositeLit, *ast.BasicLit:
		return nil
	}
	if strings.HasPrefix(f.expr(e).t, "[]") {
		return []string{"<" + exprString(e) + ">"}
	}
	return nil
}

// ---------------------------------------------------------------- statements

// assign renders `lhs = newVal` as a functional update of the root variable of the path.
func (f *impFn) assign(lhs ast.Expr, newVal string) (g []string, root, val string, ok bool) {
	switch x := lhs.(type) {
	case *ast.ParenExpr:
		return f.assign(x.X, newVal)
	case *ast.Ident:
		if _, isLocal := f.locals[x.Name]; isLocal && !f.readonly[x.Name] {
			return nil, x.Name, newVal, true
		}
		if f.readonly[x.Name] {
			f.bad(lhs, "assignment to (or through) the parameter "+x.Name+" (parameters of struct or slice type are read-only)")
			return nil, "", "", false
		}
		f.bad(lhs, "assignment to "+x.Name)
		return nil, "", "", false
	case *ast.SelectorExpr:
		base := f.expr(x.X)
		if _, isField := f.u.field(base.t, x.Sel.Name); !isField {
			f.bad(lhs, "assignment to "+exprString(lhs))
			return nil, "", "", false
		}
		upd := "{ " + base.v + " with " + leanIdent(x.Sel.Name) + " := " + newVal + " }"
		if id, isId := x.X.(*ast.Ident); isId && id.Name == f.recv {
			return nil, f.recv, upd, true
		}
		g1, root, val, ok := f.assign(x.X, upd)
		return conj(base.g, g1), root, val, ok
	case *ast.IndexExpr:
		base, i := f.expr(x.X), f.expr(x.Index)
		if !strings.HasPrefix(base.t, "[]") || i.t != "int" {
			f.bad(lhs, "assignment to "+exprString(lhs))
			return nil, "", "", false
		}
		g0 := conj(base.g, i.g, []string{"(Go.inRange " + base.v + " " + i.v + ")"})
		g1, root, val, ok := f.assign(x.X, "(Go.set "+base.v+" "+i.v+" "+newVal+")")
		return conj(g0, g1), root, val, ok
	}
	f.bad(lhs, "assignment to "+exprString(lhs))
	return nil, "", "", false
}

func guarded(g []string, ind string, body func(ind string) string) string {
	if len(g) == 0 {
		return body(ind)
	}
	return ind + "if " + guardTerm(g) + " then\n" + body(ind+"  ") + "\n" + ind + "else\n" + ind + "  none"
}

func (f *impFn) isLockCall(e ast.Expr) bool {
	c, ok := e.(*ast.CallExpr)
	if !ok || len(c.Args) != 0 {
		return false
	}
	sel, ok := c.Fun.(*ast.SelectorExpr)
	if !ok {
		return false
	}
	switch sel.Sel.Name {
	case "Lock", "Unlock", "RLock", "RUnlock":
	default:
		return false
	}
	in, ok := sel.X.(*ast.SelectorExpr)
	if !ok {
		return false
	}
	id, ok := in.X.(*ast.Ident)
	if !ok || id.Name != f.recv {
		return false
	}
	s := f.u.structs[f.recvType]
	return s != nil && s.mutexes[in.Sel.Name]
}

func terminates(stmts []ast.Stmt) bool {
	if len(stmts) == 0 {
		return false
	}
	switch s := stmts[len(stmts)-1].(type) {
	case *ast.ReturnStmt:
		return true
	case *ast.IfStmt:
		if s.Else == nil {
			return false
		}
		var el []ast.Stmt
		if b, ok := s.Else.(*ast.BlockStmt); ok {
			el = b.List
		} else {
			el = []ast.Stmt{s.Else}
		}
		return terminates(s.Body.List) && terminates(el)
	case *ast.SwitchStmt:
		hasDefault := false
		for _, c := range s.Body.List {
			cc := c.(*ast.CaseClause)
			if cc.List == nil {
				hasDefault = true
			}
			if !terminates(cc.Body) {
				return false
			}
		}
		return hasDefault
	}
	return false
}

// assignedOuter: variables declared outside `bodies` and assigned inside, receiver first,
// then locals in declaration order.
func (f *impFn) assignedOuter(bodies [][]ast.Stmt) []string {
	set := map[string]bool{}
	declared := map[string]bool{}
	var root func(e ast.Expr) string
	root = func(e ast.Expr) string {
		switch x := e.(type) {
		case *ast.Ident:
			return x.Name
		case *ast.SelectorExpr:
			return root(x.X)
		case *ast.IndexExpr:
			return root(x.X)
		case *ast.ParenExpr:
			return root(x.X)
		}
		return ""
	}
	for _, b := range bodies {
		for _, s := range b {
			ast.Inspect(s, func(n ast.Node) bool {
				switch x := n.(type) {
				case *ast.AssignStmt:
					for _, l := range x.Lhs {
						if x.Tok == token.DEFINE {
							declared[root(l)] = true
						} else {
							set[root(l)] = true
						}
					}
				case *ast.IncDecStmt:
					set[root(x.X)] = true
				case *ast.RangeStmt:
					if x.Key != nil && x.Tok == token.DEFINE {
						declared[root(x.Key)] = true
					}
				case *ast.ExprStmt:
					// sort.SliceStable(path, …) sorts path in place
					if c, ok := x.X.(*ast.CallExpr); ok && exprString(c.Fun) == "sort.SliceStable" && len(c.Args) > 0 {
						set[root(c.Args[0])] = true
					}
				}
				return true
			})
		}
	}
	out := []string{}
	if f.recv != "" && set[f.recv] {
		out = append(out, f.recv)
	}
	for _, n := range f.declOrder {
		if set[n] && !declared[n] {
			if _, live := f.locals[n]; live {
				out = append(out, n)
			}
		}
	}
	return out
}

func tupleOf(vars []string) string {
	switch len(vars) {
	case 0:
		return "()"
	case 1:
		return leanIdent(vars[0])
	}
	ids := []string{}
	for _, v := range vars {
		ids = append(ids, leanIdent(v))
	}
	return "(" + strings.Join(ids, ", ") + ")"
}

func (f *impFn) scoped(body func() string) string {
	saved := map[string]string{}
	for k, v := range f.locals {
		saved[k] = v
	}
	n := len(f.declOrder)
	out := body()
	f.locals = saved
	f.declOrder = f.declOrder[:n]
	return out
}

func (f *impFn) declare(n ast.Node, name, typ string) bool { return f.declareF(n, name, typ, false) }

// declareF: with fresh, a slice-typed variable is accepted (its initial value shares no backing array)
func (f *impFn) declareF(n ast.Node, name, typ string, fresh bool) bool {
	if name == "_" {
		f.bad(n, "blank identifier")
		return false
	}
	if _, dup := f.locals[name]; dup || name == f.recv {
		f.bad(n, "redeclaration (shadowing) of "+name)
		return false
	}
	if strings.HasPrefix(typ, "[]") && !(fresh && f.u.cfg != nil) {
		f.bad(n, "local variable "+name+" of slice type (it would alias its source)")
		return false
	}
	if typ == "nil" || typ == "?" {
		f.bad(n, "local variable "+name+" of unknown type")
		return false
	}
	f.locals[name] = typ
	f.declOrder = append(f.declOrder, name)
	return true
}

// block renders stmts; `tail` is the term for falling off the end ("" = must not happen).
func (f *impFn) block(stmts []ast.Stmt, tail, ind string) string {
	if len(stmts) == 0 {
		if tail == "" {
			f.bad(nil, "a path falling off the end of a function with results")
			return ind + "sorryNoReturn"
		}
		return ind + tail
	}
	rest := stmts[1:]
	switch s := stmts[0].(type) {
	case *ast.EmptyStmt:
		return f.block(rest, tail, ind)
	case *ast.ExprStmt:
		if f.isLockCall(s.X) {
			return f.block(rest, tail, ind) // mutual exclusion is not part of the sequential reading
		}
		if c, ok := s.X.(*ast.CallExpr); ok && exprString(c.Fun) == "sort.SliceStable" && f.u.timeInt {
			return f.sliceStable(c, rest, tail, ind)
		}
		if c, ok := s.X.(*ast.CallExpr); ok && exprString(c.Fun) == "copy" && f.u.cfg != nil && f.u.cfg.byteSlices {
			return f.copyStmt(c, rest, tail, ind)
		}
		f.bad(s, "expression statement "+exprString(s.X))
	case *ast.DeferStmt:
		if f.isLockCall(s.Call) {
			return f.block(rest, tail, ind)
		}
		f.bad(s, "defer "+exprString(s.Call))
	case *ast.ReturnStmt:
		if f.inJoin {
			f.bad(s, "return inside a branch or loop body that is followed by further statements")
			break
		}
		if len(rest) > 0 {
			f.bad(rest[0], "statement after return")
			break
		}
		if len(s.Results) != len(f.results) {
			f.bad(s, "return with a different number of results (named results?)")
			break
		}
		g := []string{}
		parts := []string{}
		if f.recv != "" {
			parts = append(parts, leanIdent(f.recv))
		}
		for i, r := range s.Results {
			f.inReturn = true
			a := f.expr(r)
			f.inReturn = false
			if a.t == "nil" && f.results[i] == "error" {
				a.t = "error"
			}
			if a.t != f.results[i] && a.t != "?" {
				f.bad(r, "returning "+a.t+" for "+f.results[i])
			}
			g = conj(g, a.g)
			parts = append(parts, a.v)
		}
		return guarded(g, ind, func(ind string) string {
			if f.retWrap != "" {
				return ind + "some (" + f.retWrap + " " + tupleOf2(parts) + ")"
			}
			return ind + "some " + tupleOf2(parts)
		})
	case *ast.IncDecStmt:
		cur := f.expr(s.X)
		if cur.t != "int" {
			f.bad(s, "++/-- on "+cur.t)
			break
		}
		op := " + "
		if s.Tok == token.DEC {
			op = " - "
		}
		g, root, val, ok := f.assign(s.X, "("+cur.v+op+"(1 : Int))")
		if !ok {
			break
		}
		return guarded(conj(cur.g, g), ind, func(ind string) string {
			return ind + "let " + leanIdent(root) + " := " + val + "\n" + f.block(rest, tail, ind)
		})
	case *ast.AssignStmt:
		if out, ok := f.assignStmt(s, rest, tail, ind); ok {
			return out
		}
	case *ast.IfStmt:
		if s.Init != nil {
			f.bad(s, "if with an init statement")
			break
		}
		conds, bodies, els := flattenIf(s)
		return f.chain(s, conds, bodies, els, rest, tail, ind)
	case *ast.SwitchStmt:
		if s.Init != nil || (s.Tag != nil && f.u.cfg == nil) {
			f.bad(s, "switch with an init statement or a tag")
			break
		}
		var conds []ast.Expr
		var bodies [][]ast.Stmt
		var els []ast.Stmt
		okSw := true
		for _, c := range s.Body.List {
			cc := c.(*ast.CaseClause)
			for _, b := range cc.Body {
				if br, isBr := b.(*ast.BranchStmt); isBr {
					f.bad(br, br.Tok.String()+" in a switch")
					okSw = false
				}
			}
			if cc.List == nil {
				els = cc.Body
				if els == nil {
					els = []ast.Stmt{}
				}
				continue
			}
			if s.Tag != nil {
				// switch tag { case a, b: … }  =  if tag == a || tag == b {…} else …  (tag and the case
				// expressions have no side effects; their guards are demanded where Go evaluates them)
				var c ast.Expr
				for _, v := range cc.List {
					eq := &ast.BinaryExpr{X: s.Tag, OpPos: v.Pos(), Op: token.EQL, Y: v}
					if c == nil {
						c = eq
					} else {
						c = &ast.BinaryExpr{X: c, OpPos: v.Pos(), Op: token.LOR, Y: eq}
					}
				}
				conds = append(conds, c)
				bodies = append(bodies, cc.Body)
				continue
			}
			if len(cc.List) != 1 {
				f.bad(cc, "case with several expressions")
				okSw = false
				continue
			}
			conds = append(conds, cc.List[0])
			bodies = append(bodies, cc.Body)
		}
		if !okSw {
			break
		}
		return f.chain(s, conds, bodies, els, rest, tail, ind)
	case *ast.ForStmt:
		if f.u.timeInt {
			return f.forLoop(s, rest, tail, ind)
		}
		f.bad(s, "for statement")
	case *ast.RangeStmt:
		if f.u.cfg != nil {
			return f.rangeLoop(s, rest, tail, ind)
		}
		f.bad(s, "range statement")
	default:
		f.bad(s, fmt.Sprintf("statement %T", s))
	}
	return ind + "sorryStmt"
}

func tupleOf2(parts []string) string {
	if len(parts) == 1 {
		return parts[0]
	}
	return "(" + strings.Join(parts, ", ") + ")"
}

func flattenIf(s *ast.IfStmt) (conds []ast.Expr, bodies [][]ast.Stmt, els []ast.Stmt) {
	for {
		conds = append(conds, s.Cond)
		bodies = append(bodies, s.Body.List)
		switch e := s.Else.(type) {
		case nil:
			return conds, bodies, nil
		case *ast.BlockStmt:
			return conds, bodies, e.List
		case *ast.IfStmt:
			if e.Init != nil {
				return conds, bodies, []ast.Stmt{e} // refused when translated
			}
			s = e
		default:
			return conds, bodies, []ast.Stmt{e}
		}
	}
}

func (f *impFn) assignStmt(s *ast.AssignStmt, rest []ast.Stmt, tail, ind string) (string, bool) {
	if s.Tok == token.DEFINE {
		if len(s.Lhs) != len(s.Rhs) {
			f.bad(s, "multi-value :=")
			return "", false
		}
		g := []string{}
		lets := []string{}
		names, types := []string{}, []string{}
		fresh := []bool{}
		for i := range s.Lhs {
			id, ok := s.Lhs[i].(*ast.Ident)
			if !ok {
				f.bad(s, ":= to "+exprString(s.Lhs[i]))
				return "", false
			}
			a := f.expr(s.Rhs[i]) // all right-hand sides see the variables as they were before
			g = conj(g, a.g)
			lets = append(lets, "let "+leanIdent(id.Name)+" := "+a.v)
			names, types = append(names, id.Name), append(types, a.t)
			fresh = append(fresh, strings.HasPrefix(a.t, "[]") && !strings.HasPrefix(a.t, "[][]") && len(f.sliceSources(s.Rhs[i])) == 0)
		}
		for i := range names {
			if !f.declareF(s, names[i], types[i], fresh[i]) {
				return "", false
			}
		}
		return guarded(g, ind, func(ind string) string {
			out := ""
			for _, l := range lets {
				out += ind + l + "\n"
			}
			return out + f.block(rest, tail, ind)
		}), true
	}
	if len(s.Lhs) != 1 || len(s.Rhs) != 1 {
		f.bad(s, "parallel assignment")
		return "", false
	}
	rhs := f.expr(s.Rhs[0])
	newVal := rhs.v
	g := rhs.g
	lhsT := ""
	switch s.Tok {
	case token.ASSIGN:
		lhsT = f.lvalueType(s.Lhs[0])
	case token.ADD_ASSIGN, token.SUB_ASSIGN, token.MUL_ASSIGN:
		cur := f.expr(s.Lhs[0])
		lhsT = cur.t
		if cur.t != "int" || rhs.t != "int" {
			f.bad(s, s.Tok.String()+" on "+cur.t)
			return "", false
		}
		op := map[token.Token]string{token.ADD_ASSIGN: "+", token.SUB_ASSIGN: "-", token.MUL_ASSIGN: "*"}[s.Tok]
		newVal = "(" + cur.v + " " + op + " " + rhs.v + ")"
		g = conj(cur.g, g)
	default:
		f.bad(s, "assignment operator "+s.Tok.String())
		return "", false
	}
	if lhsT == "" || lhsT != rhs.t {
		f.bad(s, "assignment of "+rhs.t+" to "+exprString(s.Lhs[0]))
		return "", false
	}
	if strings.HasPrefix(rhs.t, "[]") {
		for _, src := range f.sliceSources(s.Rhs[0]) {
			if src != exprString(s.Lhs[0]) {
				f.bad(s, "slice assignment to "+exprString(s.Lhs[0])+" reading the slice "+src+" (two live slices would share a backing array)")
				return "", false
			}
		}
	}
	ga, root, val, ok := f.assign(s.Lhs[0], newVal)
	if !ok {
		return "", false
	}
	return guarded(conj(g, ga), ind, func(ind string) string {
		return ind + "let " + leanIdent(root) + " := " + val + "\n" + f.block(rest, tail, ind)
	}), true
}

func (f *impFn) lvalueType(e ast.Expr) string {
	n := len(failures)
	t := f.expr(e).t
	if len(failures) > n || t == "?" {
		return ""
	}
	return t
}

// chain renders  if c0 {b0} else if c1 {b1} … else {els}  followed by rest.
func (f *impFn) chain(at ast.Node, conds []ast.Expr, bodies [][]ast.Stmt, els []ast.Stmt, rest []ast.Stmt, tail, ind string) string {
	all := append(append([][]ast.Stmt{}, bodies...), els)
	open := 0 // branches that fall through to rest
	for _, b := range all {
		if !terminates(b) {
			open++
		}
	}
	if len(rest) > 0 && open == 0 {
		f.bad(rest[0], "unreachable statement")
		return ind + "sorryStmt"
	}
	if len(rest) == 0 || open == 1 {
		// no join point: the one open branch (or, with nothing following, every branch) continues directly
		ext := func(b []ast.Stmt) []ast.Stmt {
			if terminates(b) {
				return b
			}
			return append(append([]ast.Stmt{}, b...), rest...)
		}
		return f.chainFrom(conds, bodies, els, ext, tail, ind)
	}
	// join point: the branches yield the variables they assign, rest continues under Option.bind
	vars := f.assignedOuter(all)
	pat := tupleOf(vars)
	if len(vars) == 0 {
		pat = "(_ : Unit)"
	}
	savedJoin := f.inJoin
	f.inJoin = true
	inner := f.chainFrom(conds, bodies, els, func(b []ast.Stmt) []ast.Stmt { return b }, "some "+tupleOf(vars), ind+"    ")
	f.inJoin = savedJoin
	return ind + "Option.bind\n" + ind + "  (\n" + inner + "\n" + ind + "  )\n" + ind + "  (fun " + pat + " =>\n" +
		f.block(rest, tail, ind+"    ") + ")"
}

func (f *impFn) chainFrom(conds []ast.Expr, bodies [][]ast.Stmt, els []ast.Stmt, ext func([]ast.Stmt) []ast.Stmt, tail, ind string) string {
	if len(conds) == 0 {
		return f.scoped(func() string { return f.block(ext(els), tail, ind) })
	}
	c := f.expr(conds[0])
	if c.t != "bool" {
		f.bad(conds[0], "condition of type "+c.t)
	}
	return guarded(c.g, ind, func(ind string) string {
		th := f.scoped(func() string { return f.block(ext(bodies[0]), tail, ind+"  ") })
		el := f.chainFrom(conds[1:], bodies[1:], els, ext, tail, ind+"  ")
		return ind + "if " + c.v + " then\n" + th + "\n" + ind + "else\n" + el
	})
}

// ---------------------------------------------------------------- loops (bucket)

// forLoop renders  for ; cond; post { body }  followed by rest. One turn of the loop (condition,
// body, post) becomes an auxiliary definition  <fn>_loop<k> : state → Option (Go.Ctl state result)
// over the variables assigned in the loop; Go.loop iterates it at most `fuel + 1` times (running
// out of fuel is `none`, like a panic: a theorem `… = some …` shows the bound is respected).
func (f *impFn) forLoop(s *ast.ForStmt, rest []ast.Stmt, tail, ind string) string {
	if s.Init != nil || s.Cond == nil {
		f.bad(s, "for statement with an init statement or without a condition")
		return ind + "sorryStmt"
	}
	if f.inJoin || f.retWrap != "" {
		f.bad(s, "for statement nested in a loop or in a branch that is followed by further statements")
		return ind + "sorryStmt"
	}
	if f.fuel == "" {
		f.bad(s, "for statement in a method without a declared bound (impSpec.fuel)")
		return ind + "sorryStmt"
	}
	fe, err := parser.ParseExpr(f.fuel)
	if err != nil {
		f.bad(s, "unparsable loop bound "+f.fuel)
		return ind + "sorryStmt"
	}
	fuel := f.expr(fe)
	if fuel.t != "int" {
		f.bad(s, "loop bound of type "+fuel.t)
		return ind + "sorryStmt"
	}
	body := append([]ast.Stmt{}, s.Body.List...)
	ast.Inspect(s.Body, func(n ast.Node) bool {
		if br, ok := n.(*ast.BranchStmt); ok {
			f.bad(br, br.Tok.String()+" in a loop")
		}
		return true
	})
	if s.Post != nil {
		body = append(body, s.Post)
	}
	vars := f.assignedOuter([][]ast.Stmt{body})
	if len(vars) == 0 {
		f.bad(s, "for statement that assigns no variable")
		return ind + "sorryStmt"
	}
	inState := map[string]bool{}
	stT := []string{}
	for _, v := range vars {
		inState[v] = true
		if v == f.recv {
			stT = append(stT, leanType(f.recvType))
		} else {
			stT = append(stT, leanType(f.locals[v]))
		}
	}
	stateT := strings.Join(stT, " × ")
	// everything else in scope is a parameter of the auxiliary definition
	params, args := "", ""
	if f.u.cfg != nil {
		params, args = extParams, extArgs
	}
	if f.recv != "" && !inState[f.recv] {
		params += " (" + leanIdent(f.recv) + " : " + leanType(f.recvType) + ")"
		args += " " + leanIdent(f.recv)
	}
	for _, n := range f.declOrder {
		if t, live := f.locals[n]; live && !inState[n] {
			params += " (" + leanIdent(n) + " : " + leanType(t) + ")"
			args += " " + leanIdent(n)
		}
	}
	f.loops++
	name := fmt.Sprintf("%s_loop%d", f.leanName, f.loops)
	c := f.expr(s.Cond)
	if c.t != "bool" {
		f.bad(s.Cond, "condition of type "+c.t)
	}
	f.retWrap = "Go.Ctl.ret"
	turn := guarded(c.g, "    ", func(ind string) string {
		th := f.scoped(func() string { return f.block(body, "some (Go.Ctl.next "+tupleOf(vars)+")", ind+"  ") })
		return ind + "if " + c.v + " then\n" + th + "\n" + ind + "else\n" + ind + "  some (Go.Ctl.done " + tupleOf(vars) + ")"
	})
	f.retWrap = ""
	drops := []string{}
	for _, d := range []string{f.dropAfterLoop, f.dropSnapshot} {
		if d != "" {
			drops = append(drops, d)
		}
	}
	f.dropAfterLoop, f.dropSnapshot = "", ""
	f.aux = append(f.aux, fmt.Sprintf("/-- one turn (condition, body, post statement) of for loop %d of %s -/\ndef %s%s :\n    %s → Option (Go.Ctl (%s) (%s))\n  | %s =>\n%s\n\n",
		f.loops, f.where, name, params, stateT, stateT, f.resultT, tupleOf(vars), turn))
	return guarded(fuel.g, ind, func(ind string) string {
		head := ind + "match Go.loop (" + fuel.v + ".toNat + 1) " + tupleOf(vars) + " (" + name + args + ") with\n" +
			ind + "| some (Go.Ctl.done " + tupleOf(vars) + ") =>\n"
		for _, drop := range drops { // the index variable of a range loop is not in scope after the loop
			delete(f.locals, drop)
			delete(f.readonly, drop)
			for i, n := range f.declOrder {
				if n == drop {
					f.declOrder = append(append([]string{}, f.declOrder[:i]...), f.declOrder[i+1:]...)
					break
				}
			}
		}
		return head + f.block(rest, tail, ind+"  ") + "\n" +
			ind + "| some (Go.Ctl.ret r) => some r\n" +
			ind + "| _ => none"
	})
}

// rangeLoop renders  for i := range path { body }  as  i := 0; for ; i < len(path); i++ { body }.
// Go evaluates path once and sets i from a hidden counter on every turn; the two readings agree
// because neither path nor i is assigned in the body (checked).
func (f *impFn) rangeLoop(s *ast.RangeStmt, rest []ast.Stmt, tail, ind string) string {
	if s.Value != nil && f.u.cfg != nil && f.u.cfg.byteElems {
		return f.rangeValueLoop(s, rest, tail, ind)
	}
	key, ok := s.Key.(*ast.Ident)
	if !ok || s.Value != nil || s.Tok != token.DEFINE || key.Name == "_" {
		f.bad(s, "range statement other than  for i := range path")
		return ind + "sorryStmt"
	}
	x := f.expr(s.X)
	if !strings.HasPrefix(x.t, "[]") || len(x.g) > 0 {
		f.bad(s, "range over "+exprString(s.X)+" of type "+x.t+" (or with an index expression in it)")
		return ind + "sorryStmt"
	}
	root := s.X
	for {
		if sel, isSel := root.(*ast.SelectorExpr); isSel {
			root = sel.X
			continue
		}
		break
	}
	rootId, isId := root.(*ast.Ident)
	if !isId {
		f.bad(s, "range over "+exprString(s.X))
		return ind + "sorryStmt"
	}
	if !f.declare(s, key.Name, "int") {
		return ind + "sorryStmt"
	}
	for _, v := range f.assignedOuter([][]ast.Stmt{s.Body.List}) {
		if v == rootId.Name || v == key.Name {
			f.bad(s, "range loop whose body assigns "+v)
			return ind + "sorryStmt"
		}
	}
	lenCall := &ast.CallExpr{Fun: &ast.Ident{NamePos: s.Pos(), Name: "len"}, Args: []ast.Expr{s.X}}
	loop := &ast.ForStmt{For: s.For,
		Cond: &ast.BinaryExpr{X: &ast.Ident{NamePos: s.Pos(), Name: key.Name}, OpPos: s.Pos(), Op: token.LSS, Y: lenCall},
		Post: &ast.IncDecStmt{X: &ast.Ident{NamePos: s.Pos(), Name: key.Name}, TokPos: s.Pos(), Tok: token.INC},
		Body: s.Body}
	f.dropAfterLoop = key.Name
	return ind + "let " + leanIdent(key.Name) + " := (0 : Int)\n" + f.forLoop(loop, rest, tail, ind)
}

// pathString: e as a path  x | path.f  (no index, no call); "" otherwise
func pathString(e ast.Expr) (path, root, last string) {
	switch x := e.(type) {
	case *ast.Ident:
		return x.Name, x.Name, x.Name
	case *ast.SelectorExpr:
		if p, r, _ := pathString(x.X); p != "" {
			return p + "." + x.Sel.Name, r, x.Sel.Name
		}
	}
	return "", "", ""
}

// rangeValueLoop renders  for i, v := range path { body }  (i may be _). Go evaluates `path` ONCE: the
// loop runs over the slice header (array, length) taken at loop entry; on turn k it sets i = k and
// v = array[k]. The translation iterates over a SNAPSHOT of the value of path:
//
//	range_f := path; i := 0; for ; i < len(range_f); i++ { v := range_f[i]; body }
//
// With value semantics the snapshot is the contents of the array at loop entry, whereas Go reads
// array[k] on turn k as it is THEN. The two agree when no turn writes an array cell that a LATER turn
// reads, i.e. a cell beyond the current index. The body may therefore update `path` in two ways only:
//
//	path[i] = e      a write at the CURRENT range index (turn k writes cell k; later turns read cells > k);
//	                 the element type has no interior (scalar / immutable bytes), so the path ends there
//	path = path[:e]  shrinks the visible part, moves no cell (guarded e <= len path: never into spare capacity)
//
// Anything else that touches path is refused by name: a write at any other index (path[j] = …,
// path[i+1] = …), an append (it may write array[len], a cell a later turn reads), path = path[a:…]
// (a later path[i] would address cell a+i), any other assignment to path or to a prefix of it,
// sort.SliceStable on it, and any assignment to i or v (Go resets them every turn from its own counter).
func (f *impFn) rangeValueLoop(s *ast.RangeStmt, rest []ast.Stmt, tail, ind string) string {
	fail := func(what string) string {
		f.bad(s, what)
		return ind + "sorryStmt"
	}
	val, ok := s.Value.(*ast.Ident)
	key, okK := s.Key.(*ast.Ident)
	if !ok || !okK || s.Tok != token.DEFINE || val.Name == "_" {
		return fail("range statement other than  for i, v := range path  /  for _, v := range path")
	}
	path, rootName, last := pathString(s.X)
	x := f.expr(s.X)
	if path == "" || !strings.HasPrefix(x.t, "[]") || len(x.g) > 0 {
		return fail("range over " + exprString(s.X) + " of type " + x.t + " (not a path x.f.g of slice type)")
	}
	el := x.t[2:]
	if !(isScalar(el) || el == "bytes") {
		return fail("range with a value variable over elements of type " + el + " (copying one would alias)")
	}
	counter := key.Name
	if counter == "_" {
		counter = "range_idx"
	}
	snap := "range_" + last
	for _, n := range []string{counter, snap, val.Name} {
		if _, dup := f.locals[n]; dup || n == f.recv {
			return fail("range loop: " + n + " shadows a variable")
		}
	}
	// what the body does to path, to its prefixes and to the loop variables
	curIdx := path + "[" + counter + "]"
	related := func(l string) bool {
		under := func(a, b string) bool { return strings.HasPrefix(a, b+".") || strings.HasPrefix(a, b+"[") }
		return l == path || under(l, path) || under(path, l)
	}
	bad := ""
	check := func(lhs ast.Expr, st ast.Stmt) {
		l := exprString(lhs)
		if p, ok := lhs.(*ast.ParenExpr); ok {
			l = exprString(p.X)
		}
		lp, lroot, _ := pathString(lhs)
		if lp != "" && (lroot == key.Name && key.Name != "_" || lroot == val.Name) && lp == lroot {
			bad = "assigns the range variable " + lp
			return
		}
		if !related(l) {
			return
		}
		as, isAs := st.(*ast.AssignStmt)
		switch {
		case l == curIdx && key.Name != "_" && isAs && as.Tok == token.ASSIGN && len(as.Lhs) == 1:
			return // a write at the current range index
		case l == path && isAs && as.Tok == token.ASSIGN && len(as.Lhs) == 1 && len(as.Rhs) == 1:
			if se, isSl := as.Rhs[0].(*ast.SliceExpr); isSl && !se.Slice3 && se.Low == nil && se.High != nil && exprString(se.X) == path {
				return // path = path[:e]
			}
		}
		bad = "updates " + l + " while ranging over " + path + " other than by " + curIdx + " = e or " + path + " = " + path + "[:e]"
	}
	ast.Inspect(s.Body, func(n ast.Node) bool {
		switch st := n.(type) {
		case *ast.AssignStmt:
			for _, l := range st.Lhs {
				if st.Tok == token.DEFINE {
					continue
				}
				check(l, st)
			}
		case *ast.IncDecStmt:
			check(st.X, st)
		case *ast.ExprStmt:
			if c, ok := st.X.(*ast.CallExpr); ok && !f.isLockCall(c) && len(c.Args) > 0 {
				check(c.Args[0], st) // sort.SliceStable(path, …), copy(path, …): in-place updates
			}
		case *ast.FuncLit, *ast.RangeStmt, *ast.ForStmt, *ast.GoStmt, *ast.DeferStmt:
			bad = fmt.Sprintf("contains a %T", n)
		case *ast.UnaryExpr:
			if st.Op == token.AND {
				bad = "takes an address (" + exprString(st) + ")"
			}
		}
		return bad == ""
	})
	if bad != "" {
		return fail("range loop over " + path + " whose body " + bad)
	}
	_ = rootName
	// the snapshot and the counter
	f.locals[snap] = x.t
	f.declOrder = append(f.declOrder, snap)
	f.readonly[snap] = true
	if !f.declare(s, counter, "int") {
		return ind + "sorryStmt"
	}
	at := s.Pos()
	id := func(n string) *ast.Ident { return &ast.Ident{NamePos: at, Name: n} }
	bind := &ast.AssignStmt{Lhs: []ast.Expr{id(val.Name)}, TokPos: at, Tok: token.DEFINE,
		Rhs: []ast.Expr{&ast.IndexExpr{X: id(snap), Lbrack: at, Index: id(counter), Rbrack: at}}}
	lenCall := &ast.CallExpr{Fun: id("len"), Args: []ast.Expr{id(snap)}}
	loop := &ast.ForStmt{For: s.For,
		Cond: &ast.BinaryExpr{X: id(counter), OpPos: at, Op: token.LSS, Y: lenCall},
		Post: &ast.IncDecStmt{X: id(counter), TokPos: at, Tok: token.INC},
		Body: &ast.BlockStmt{Lbrace: s.Body.Lbrace, List: append([]ast.Stmt{bind}, s.Body.List...), Rbrace: s.Body.Rbrace}}
	f.dropAfterLoop, f.dropSnapshot = counter, snap
	return ind + "let " + leanIdent(snap) + " := " + x.v + "\n" +
		ind + "let " + leanIdent(counter) + " := (0 : Int)\n" + f.forLoop(loop, rest, tail, ind)
}

// copyStmt renders the statement  copy(path[a:b], src)  (also path[a:], path[:b], path): the first
// min(len(window), len(src)) cells of the window path[a:b] are overwritten with src, as a functional update
// of path (Go.copyAt path a (len window) src). src must not share path's backing array (then the order
// in which Go moves overlapping cells would matter): every slice read in src is another variable, and path
// is a local (a slice-typed local only exists when it was freshly allocated).
func (f *impFn) copyStmt(c *ast.CallExpr, rest []ast.Stmt, tail, ind string) string {
	fail := func(what string) string {
		f.bad(c, what)
		return ind + "sorryStmt"
	}
	if len(c.Args) != 2 || c.Ellipsis != token.NoPos {
		return fail("call of copy")
	}
	var base ast.Expr = c.Args[0]
	lo := "(0 : Int)"
	if se, ok := base.(*ast.SliceExpr); ok {
		if se.Slice3 {
			return fail("copy into a 3-index slice expression")
		}
		base = se.X
		if se.Low != nil {
			l := f.expr(se.Low)
			if l.t != "int" {
				return fail("slice bound of type " + l.t)
			}
			lo = l.v
		}
	}
	id, isId := base.(*ast.Ident)
	if !isId {
		return fail("copy into " + exprString(c.Args[0]) + " (not a window of a local variable)")
	}
	if _, isLocal := f.locals[id.Name]; !isLocal || f.readonly[id.Name] {
		return fail("copy into " + exprString(c.Args[0]) + " (not a window of a local variable)")
	}
	win, src, cur := f.expr(c.Args[0]), f.expr(c.Args[1]), f.expr(base)
	if !strings.HasPrefix(win.t, "[]") || !isScalar(win.t[2:]) || src.t != win.t {
		return fail("copy of " + src.t + " into " + win.t)
	}
	for _, sname := range f.sliceSources(c.Args[1]) {
		if sname == id.Name || strings.HasPrefix(sname, "<") {
			return fail("copy whose source may share the backing array of " + id.Name)
		}
	}
	g, root, val, ok := f.assign(base, "(Go.copyAt "+cur.v+" "+lo+" (Go.len "+win.v+") "+src.v+")")
	if !ok {
		return ind + "sorryStmt"
	}
	return guarded(conj(win.g, src.g, g), ind, func(ind string) string {
		return ind + "let " + leanIdent(root) + " := " + val + "\n" + f.block(rest, tail, ind)
	})
}

// sliceStable renders  sort.SliceStable(path, func(i, j int) bool { return E })  as
// path = Go.sortStableBy (fun e_i e_j => E') path, where E may mention i and j only as path[i], path[j].
func (f *impFn) sliceStable(c *ast.CallExpr, rest []ast.Stmt, tail, ind string) string {
	fail := func(what string) string {
		f.bad(c, what)
		return ind + "sorryStmt"
	}
	if len(c.Args) != 2 {
		return fail("call of sort.SliceStable")
	}
	path := exprString(c.Args[0])
	inner := path // the name the closure uses for the slice
	helperRel := ""
	fl, ok := c.Args[1].(*ast.FuncLit)
	if hc, isCall := c.Args[1].(*ast.CallExpr); !ok && isCall && f.u.cfg != nil {
		// sort.SliceStable(path, helper(path))  with  func helper(p []T) func(i, j int) bool { return func(i, j int) bool {…} }
		id, isId := hc.Fun.(*ast.Ident)
		if !isId || len(hc.Args) != 1 || exprString(hc.Args[0]) != path {
			return fail("sort.SliceStable whose second argument is neither a func literal nor helper(" + path + ")")
		}
		fd, rel := f.u.funcDecl(id.Name)
		if fd == nil || fd.Body == nil || len(fd.Body.List) != 1 || len(fd.Type.Params.List) != 1 || len(fd.Type.Params.List[0].Names) != 1 {
			return fail("sort.SliceStable with the helper " + id.Name + " (not a one-parameter function with a single return statement)")
		}
		rs, isRet := fd.Body.List[0].(*ast.ReturnStmt)
		if !isRet || len(rs.Results) != 1 {
			return fail("sort.SliceStable with the helper " + id.Name + " (not a single return statement)")
		}
		if fl, ok = rs.Results[0].(*ast.FuncLit); !ok {
			return fail("sort.SliceStable with the helper " + id.Name + " (it does not return a func literal)")
		}
		inner, helperRel = fd.Type.Params.List[0].Names[0].Name, rel
	}
	if !ok {
		return fail("sort.SliceStable whose second argument is not a func literal")
	}
	names := []string{}
	for _, p := range fl.Type.Params.List {
		if exprString(p.Type) != "int" {
			return fail("sort.SliceStable closure that is not func(i, j int) bool")
		}
		for _, n := range p.Names {
			names = append(names, n.Name)
		}
	}
	if len(names) != 2 || fl.Type.Results == nil || len(fl.Type.Results.List) != 1 || exprString(fl.Type.Results.List[0].Type) != "bool" {
		return fail("sort.SliceStable closure that is not func(i, j int) bool")
	}
	if len(fl.Body.List) != 1 {
		return fail("sort.SliceStable closure whose body is not a single return")
	}
	rs, ok := fl.Body.List[0].(*ast.ReturnStmt)
	if !ok || len(rs.Results) != 1 {
		return fail("sort.SliceStable closure whose body is not a single return")
	}
	cur := f.expr(c.Args[0])
	if !strings.HasPrefix(cur.t, "[]") {
		return fail("sort.SliceStable of " + cur.t)
	}
	for _, n := range names {
		if _, dup := f.locals[n]; dup || n == f.recv {
			return fail("closure parameter " + n + " shadows a variable")
		}
	}
	ei, ej := "e_"+names[0], "e_"+names[1]
	f.elemSubst = map[string]string{inner + "[" + names[0] + "]": ei, inner + "[" + names[1] + "]": ej}
	f.elemType = cur.t[2:]
	var less ev
	if helperRel != "" {
		// the closure of the helper sees the helper's parameter only (as the elements), none of the caller's variables
		saved := *f
		f.locals, f.subst, f.recv = map[string]string{}, nil, ""
		f.p, f.rel, f.where = parse(helperRel), helperRel, saved.where+" -> "+exprString(c.Args[1].(*ast.CallExpr).Fun)
		less = f.expr(rs.Results[0])
		f.locals, f.subst, f.recv = saved.locals, saved.subst, saved.recv
		f.p, f.rel, f.where = saved.p, saved.rel, saved.where
	} else {
		less = f.expr(rs.Results[0])
	}
	f.elemSubst = nil
	if less.t != "bool" || len(less.g) > 0 {
		return fail("sort.SliceStable closure with an index or slice expression other than " + path + "[" + names[0] + "], " + path + "[" + names[1] + "]")
	}
	sorted := "(Go.sortStableBy (fun (" + ei + " " + ej + " : " + leanType(f.elemType) + ") => " + less.v + ") " + cur.v + ")"
	g, root, val, ok := f.assign(c.Args[0], sorted)
	if !ok {
		return ind + "sorryStmt"
	}
	return guarded(conj(cur.g, g), ind, func(ind string) string {
		return ind + "let " + leanIdent(root) + " := " + val + "\n" + f.block(rest, tail, ind)
	})
}

// ---------------------------------------------------------------- driver

func translateImperative(rel, namespace string, timeInt bool, specs []impSpec) string {
	return translateUnit(&impUnit{rel: rel, timeInt: timeInt}, namespace, specs)
}

// translateImperativeCfg: a unit over a package directory with external functions (see the file comment).
func translateImperativeCfg(cfg impConfig, specs []impSpec) string {
	u := &impUnit{rel: cfg.rel, timeInt: cfg.ext, cfg: &cfg, externs: map[string]impExtern{}, dropped: map[string]bool{},
		consts: map[string]*impConst{}}
	for _, e := range cfg.externs {
		u.externs[e.name] = e
	}
	for _, d := range cfg.dropFields {
		u.dropped[d] = true
	}
	if cfg.bytesLean != "" {
		leanBytes = cfg.bytesLean
		defer func() { leanBytes = "Go.Bytes" }()
	}
	return translateUnit(u, cfg.namespace, specs)
}

func mentions(body *ast.BlockStmt, name string) bool {
	found := false
	ast.Inspect(body, func(n ast.Node) bool {
		if id, ok := n.(*ast.Ident); ok && id.Name == name {
			found = true
		}
		return !found
	})
	return found
}

// externType: the Lean type of an external function, from its Go declaration.
func (u *impUnit) externType(name string) string {
	fd, _ := u.funcDecl(name)
	if fd == nil {
		failf("%s: external function %s not found", u.rel, name)
		return "Unit"
	}
	parts := []string{}
	for _, prm := range fd.Type.Params.List {
		pt, _ := u.goTypeN(prm.Type, true)
		for range prm.Names {
			t := leanType(pt)
			if strings.Contains(t, " ") {
				t = "(" + t + ")"
			}
			parts = append(parts, t)
		}
	}
	rt, _ := u.goType(fd.Type.Results.List[0].Type)
	return strings.Join(append(parts, leanType(rt)), " → ")
}

func translateUnit(u *impUnit, namespace string, specs []impSpec) string {
	rel := u.rel
	p := parse(rel)
	if p == nil {
		return ""
	}
	u.p = p
	u.structs = map[string]*impStruct{}
	var defs strings.Builder
	sources := []string{rel}
	for _, sp := range specs {
		frel := rel
		if sp.file != "" {
			frel = sp.file
		}
		seen := false
		for _, s := range sources {
			seen = seen || s == frel
		}
		if !seen {
			sources = append(sources, frel)
		}
		recvKey := ""
		if sp.recvType != "" {
			recvKey = "*" + sp.recvType
		}
		fd := findFunc(frel, recvKey, sp.goName)
		if fd == nil || fd.Body == nil {
			continue
		}
		if sp.recvType != "" && u.useStruct(sp.recvType, true) == nil {
			continue
		}
		f := &impFn{u: u, where: "(*" + sp.recvType + ")." + sp.goName, recvType: sp.recvType, locals: map[string]string{},
			leanName: sp.leanName, fuel: sp.fuel, p: parse(frel), rel: frel, readonly: map[string]bool{}, usedExt: map[string]bool{}}
		sig := ""
		body := fd.Body.List
		okSig := true
		droppedParams := []string{}
		if sp.recvType != "" {
			if len(fd.Recv.List[0].Names) != 1 {
				f.bad(fd, "unnamed receiver")
				continue
			}
			f.recv = fd.Recv.List[0].Names[0].Name
			sig = "(" + leanIdent(f.recv) + " : " + leanType(sp.recvType) + ")"
		} else {
			f.where = sp.goName
			if sp.frag == nil || u.cfg == nil {
				f.bad(fd, "plain function without a fragment specification")
				continue
			}
		}
		// input: declares a read-only parameter / live-in variable
		input := func(n ast.Node, name, pt string) {
			if strings.HasPrefix(pt, "[]") || u.structs[pt] != nil {
				if _, dup := f.locals[name]; dup || name == f.recv || name == "_" {
					f.bad(n, "redeclaration (shadowing) of "+name)
					okSig = false
					return
				}
				f.locals[name] = pt
				f.declOrder = append(f.declOrder, name)
				f.readonly[name] = true
			} else if !f.declare(n, name, pt) {
				okSig = false
				return
			}
			if sig != "" {
				sig += " "
			}
			sig += "(" + leanIdent(name) + " : " + leanType(pt) + ")"
		}
		if sp.frag == nil || sp.frag.first == "" {
			for _, prm := range fd.Type.Params.List {
				pt, ok := u.goTypeN(prm.Type, u.cfg != nil)
				inSubset := ok && (pt == "int" || pt == "bool" || pt == "any")
				if u.cfg != nil && ok && pt != "mutex" && pt != "error" {
					inSubset = true
					if st, _ := u.structDecl(pt); st != nil {
						// a struct parameter is read-only; a struct that cannot be rendered whole is a view
						used := false
						for _, n := range prm.Names {
							used = used || (n.Name != "_" && mentions(fd.Body, n.Name))
						}
						if !used {
							inSubset = false
						} else if u.useView(pt) == nil {
							okSig = false
							continue
						}
					}
				}
				for _, n := range prm.Names {
					if !inSubset {
						if u.cfg != nil && (n.Name == "_" || !mentions(fd.Body, n.Name)) {
							droppedParams = append(droppedParams, n.Name+" "+exprString(prm.Type))
							continue // never mentioned: the result cannot depend on it
						}
						f.bad(prm, "parameter of type "+exprString(prm.Type))
						okSig = false
						continue
					}
					input(prm, n.Name, pt)
				}
			}
		} else {
			// a fragment: skip the statements before `first := …`, whose live variables are the declared inputs
			start := -1
			for i, st := range body {
				if as, ok := st.(*ast.AssignStmt); ok && as.Tok == token.DEFINE {
					for _, l := range as.Lhs {
						if id, ok := l.(*ast.Ident); ok && id.Name == sp.frag.first {
							start = i
						}
					}
				}
				if start >= 0 {
					break
				}
			}
			if start < 0 {
				f.bad(fd, "fragment: no top-level statement "+sp.frag.first+" := …")
				continue
			}
			for _, in := range sp.frag.inputs {
				te, err := parser.ParseExpr(in.typ)
				pt, ok := "", false
				if err == nil {
					pt, ok = u.goTypeN(te, true)
				}
				if !ok || !(isScalar(pt) || pt == "bytes" || strings.HasPrefix(pt, "[]")) {
					f.bad(fd, "fragment input "+in.name+" of type "+in.typ)
					okSig = false
					continue
				}
				declaredBefore := false
				for _, st := range body[:start] {
					if as, ok := st.(*ast.AssignStmt); ok && as.Tok == token.DEFINE {
						for _, l := range as.Lhs {
							if id, ok := l.(*ast.Ident); ok && id.Name == in.name {
								declaredBefore = true
							}
						}
					}
				}
				if !declaredBefore {
					f.bad(fd, "fragment input "+in.name+" is not declared by a := before "+sp.frag.first+" := …")
					okSig = false
					continue
				}
				input(fd, in.name, pt)
			}
			body = body[start:]
			f.fragment = true
		}
		resT := []string{}
		if f.recv != "" {
			resT = append(resT, leanType(sp.recvType))
		}
		if sp.frag != nil {
			for _, r := range sp.frag.results {
				if r != "error" && !isScalar(r) && !(u.cfg.byteSlices && r == "[]char") {
					if u.useStruct(r, true) == nil {
						okSig = false
						continue
					}
				}
				f.results = append(f.results, r)
				resT = append(resT, leanType(r))
			}
			if fd.Type.Results == nil || fd.Type.Results.NumFields() != len(sp.frag.results) {
				f.bad(fd, "fragment: the function does not have the declared number of results")
				okSig = false
			}
		} else if fd.Type.Results != nil {
			for _, r := range fd.Type.Results.List {
				rt, ok := u.goType(r.Type)
				okT := ok && (rt == "int" || rt == "bool" || rt == "any")
				if u.cfg != nil && ok && !okT {
					if rt == "string" || rt == "error" {
						okT = true
					} else if st, _ := u.structDecl(rt); st != nil && rt != sp.recvType {
						okT = u.useStruct(rt, false) != nil // a struct of scalars, returned by value
					}
				}
				if !okT || len(r.Names) > 0 {
					f.bad(r, "result of type "+exprString(r.Type)+" (or named result)")
					okSig = false
					continue
				}
				f.results = append(f.results, rt)
				resT = append(resT, leanType(rt))
			}
		}
		if !okSig {
			continue
		}
		tail := ""
		if len(f.results) == 0 {
			tail = "some " + leanIdent(f.recv)
		}
		ret := strings.Join(resT, " × ")
		if len(resT) > 1 || strings.Contains(ret, " ") {
			ret = "(" + ret + ")"
		}
		f.resultT = strings.Join(resT, " × ")
		text := f.block(body, tail, "  ")
		// the external functions used become leading parameters (of the loop definitions too)
		eP, eA := "", ""
		if u.cfg != nil {
			for _, e := range u.cfg.externs {
				if f.usedExt[e.name] {
					eP += " (" + leanIdent(e.name) + " : " + u.externType(e.name) + ")"
					eA += " " + leanIdent(e.name)
				}
			}
		}
		fix := func(t string) string {
			return strings.ReplaceAll(strings.ReplaceAll(t, extParams, eP), extArgs, eA)
		}
		for _, a := range f.aux {
			defs.WriteString(fix(a))
		}
		doc := fmt.Sprintf("translated from %s func (*%s).%s", frel, sp.recvType, sp.goName)
		if sp.recvType == "" {
			doc = fmt.Sprintf("translated from %s func %s", frel, sp.goName)
			if sp.frag.first != "" {
				doc += fmt.Sprintf(", from the statement `%s := …` to the end (inputs: the variables live there)", sp.frag.first)
			}
		}
		if len(droppedParams) > 0 {
			doc += " (parameters never mentioned, dropped: " + strings.Join(droppedParams, ", ") + ")"
		}
		head := sp.leanName
		if eP != "" {
			head += eP
		}
		if sig != "" {
			head += " " + sig
		}
		fmt.Fprintf(&defs, "/-- %s -/\ndef %s : Option %s :=\n%s\n\n", doc, head, ret, fix(text))
	}
	var b strings.Builder
	b.WriteString("-- GENERATED by /verif/extract (imperative.go) from " + strings.Join(sources, ", ") + " on every check run. Do not edit.\n")
	b.WriteString("import Wasp.Model.GoPrelude\n")
	if u.cfg != nil {
		for _, im := range u.cfg.imports {
			b.WriteString("import " + im + "\n")
		}
	}
	b.WriteString("set_option linter.unusedVariables false\nnamespace " + namespace + "\n\n")
	for _, name := range u.constOrder {
		c := u.consts[name]
		fmt.Fprintf(&b, "/-- translated from %s %s -/\ndef %s : %s := %s\n\n", c.rel, c.doc, leanIdent(c.name), leanType(c.typ), c.val)
	}
	for _, name := range u.emitted {
		s := u.structs[name]
		srel := s.rel
		if srel == "" {
			srel = rel
		}
		fmt.Fprintf(&b, "/-- translated from %s type %s", srel, name)
		if len(s.mutexes) > 0 {
			ms := []string{}
			for m := range s.mutexes {
				ms = append(ms, m)
			}
			sort.Strings(ms)
			fmt.Fprintf(&b, " (mutex field dropped: %s)", strings.Join(ms, ", "))
		}
		if len(s.dropped) > 0 {
			fmt.Fprintf(&b, " (field dropped: %s)", strings.Join(s.dropped, ", "))
		}
		if s.view {
			u.sortView(s)
			b.WriteString(" (read-only view: the fields the translated code selects)")
		}
		b.WriteString(" -/\n")
		fmt.Fprintf(&b, "structure %s where\n", leanType(name))
		for _, fl := range s.fields {
			fmt.Fprintf(&b, "  %s : %s\n", leanIdent(fl.name), leanType(fl.typ))
		}
		b.WriteString("deriving Repr, DecidableEq, Inhabited\n\n")
	}
	b.WriteString(defs.String())
	b.WriteString("end " + namespace + "\n")
	return b.String()
}

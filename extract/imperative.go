// imperative.go: a translator for a small IMPERATIVE Go subset, used to render methods
// with a pointer receiver as Lean definitions "literally" (Wasp/Generated/*Lit.lean).
//
// The subset (anything else is refused: the extractor exits non-zero naming the construct):
//
//	types       integer types (all rendered as Int; overflow is out of scope), bool,
//	            structs of those, slices of those, the receiver struct (sync.Mutex fields dropped)
//	statements  recv.mu.Lock() / defer recv.mu.Unlock()        dropped
//	            x := e        x = e      path = e     path op= e     path++   path--
//	            (a path is  x | recv.f | path.f | path[i] ; every update is functional)
//	            if c {…} [else if …] [else {…}]    switch { case c: … default: … }
//	            return [e]
//	            (units with ext: for ; c; post {…} with a declared bound, sort.SliceStable(path, less),
//	             time.Time as Int milliseconds with Before/After/Equal, interface{} with == only)
//	expressions literals, locals, parameters, field selection, a[i], s[a:], s[:b], s[a:b],
//	            len, append(a, b...), append(a, x…), []T{{…}}, T{…}, + - *, comparisons,
//	            ! && ||, integer conversions, sort.Search(n, func(i int) bool { return P })
//
// The receiver is threaded as a VALUE: a method  func (m *T) F(a A) R  becomes
//
//	def f (m : T) (a : A) : Option (T × R)        (Option T when there is no result)
//
// `none` means "the Go code panics with an index/slice bound out of range": every a[i] and
// every slice expression contributes a guard, collected per statement and tested before
// the statement's effect (`if guard then … else none`). Guards follow Go's short-circuit
// evaluation: in `A && B` the guards of B are only demanded when A is true, in `A || B`
// when A is false; inside a sort.Search closure they are demanded for every i in [0, n).
// `s[:e]` demands e ≤ len s although Go allows e ≤ cap s (deliberately stricter).
//
// Value semantics for slices are only sound while no two live slices share a backing
// array, so: no local variable, parameter or result of slice type, and a slice-typed
// assignment `path = e` is accepted only when every slice read in e is `path` itself or
// freshly allocated (composite literal).
package main

import (
	"fmt"
	"go/ast"
	"go/parser"
	"go/token"
	"sort"
	"strings"
)

type impField struct{ name, typ string }

type impStruct struct {
	name    string
	fields  []impField
	mutexes map[string]bool
}

// impSpec names one method to translate; fuel is the Go expression (evaluated where a for loop is
// entered) bounding the number of turns of the loops of the method ("" = the method has no loop).
type impSpec struct{ recvType, goName, leanName, fuel string }

type impUnit struct {
	rel     string
	p       *parsed
	structs map[string]*impStruct
	emitted []string // struct names in emission order
	timeInt bool     // render time.Time as Int (milliseconds) and its Before/Equal/After as < = >
}

type impFn struct {
	u         *impUnit
	where     string
	recv      string
	recvType  string
	locals    map[string]string
	declOrder []string
	results   []string
	inJoin    bool
	leanName  string
	fuel      string            // Go expression bounding loop turns
	loops     int               // loops translated so far
	aux       []string          // auxiliary definitions (loop bodies), emitted before the function
	retWrap   string            // "" or the Go.Ctl constructor wrapping a return inside a loop body
	elemSubst map[string]string // inside a sort.SliceStable closure: "path[i]" -> element variable
	elemType  string
	resultT   string // Lean type of the function's result (without Option)
}

// ev is a translated expression: guards (conjuncts, Lean Bool terms), value, Go type.
type ev struct {
	g []string
	v string
	t string
}

func (f *impFn) bad(n ast.Node, what string) {
	line := 0
	if n != nil {
		line = f.u.p.fset.Position(n.Pos()).Line
	}
	failf("%s:%d (%s): outside the imperative subset: %s", f.u.rel, line, f.where, what)
}

func conj(gs ...[]string) []string {
	seen := map[string]bool{}
	out := []string{}
	for _, g := range gs {
		for _, c := range g {
			if !seen[c] {
				seen[c] = true
				out = append(out, c)
			}
		}
	}
	return out
}

func guardTerm(g []string) string {
	if len(g) == 1 {
		return g[0]
	}
	return "(" + strings.Join(g, " && ") + ")"
}

// ---------------------------------------------------------------- types

var goIntTypes = map[string]bool{"int": true, "int8": true, "int16": true, "int32": true, "int64": true,
	"uint": true, "uint8": true, "uint16": true, "uint32": true, "uint64": true, "byte": true}

// goType gives the canonical type string: "int", "bool", "[]T", a struct name, "mutex".
func (u *impUnit) goType(e ast.Expr) (string, bool) {
	switch x := e.(type) {
	case *ast.Ident:
		if goIntTypes[x.Name] {
			return "int", true
		}
		if x.Name == "bool" {
			return "bool", true
		}
		if u.structDecl(x.Name) != nil {
			return x.Name, true
		}
	case *ast.ArrayType:
		if x.Len == nil {
			if et, ok := u.goType(x.Elt); ok && et != "mutex" && !strings.HasPrefix(et, "[]") {
				return "[]" + et, true
			}
		}
	case *ast.SelectorExpr:
		s := exprString(x)
		if s == "sync.Mutex" || s == "sync.RWMutex" {
			return "mutex", true
		}
		if s == "time.Time" && u.timeInt {
			return "int", true
		}
	case *ast.InterfaceType:
		if u.timeInt && (x.Methods == nil || len(x.Methods.List) == 0) {
			// interface{}: only == / != are allowed on it (Go.Any, see GoPrelude)
			return "any", true
		}
	}
	return "", false
}

func (u *impUnit) structDecl(name string) *ast.StructType {
	for _, d := range u.p.file.Decls {
		gd, ok := d.(*ast.GenDecl)
		if !ok || gd.Tok != token.TYPE {
			continue
		}
		for _, s := range gd.Specs {
			ts := s.(*ast.TypeSpec)
			if ts.Name.Name == name {
				if st, ok := ts.Type.(*ast.StructType); ok {
					return st
				}
			}
		}
	}
	return nil
}

// useStruct registers a struct (fields first), refusing field types outside the subset.
func (u *impUnit) useStruct(name string, isRecv bool) *impStruct {
	if s, ok := u.structs[name]; ok {
		return s
	}
	st := u.structDecl(name)
	if st == nil {
		failf("%s: struct type %s not found", u.rel, name)
		return nil
	}
	s := &impStruct{name: name, mutexes: map[string]bool{}}
	u.structs[name] = s
	for _, fl := range st.Fields.List {
		ft, ok := u.goType(fl.Type)
		if !ok {
			failf("%s: type %s: outside the imperative subset: field type %s", u.rel, name, exprString(fl.Type))
			continue
		}
		if len(fl.Names) == 0 {
			failf("%s: type %s: outside the imperative subset: embedded field %s", u.rel, name, exprString(fl.Type))
			continue
		}
		for _, n := range fl.Names {
			if ft == "mutex" {
				s.mutexes[n.Name] = true
				continue
			}
			if !isRecv && ft != "int" && ft != "bool" && ft != "any" {
				failf("%s: type %s: outside the imperative subset: field %s of type %s in an element struct (copying it would alias)", u.rel, name, n.Name, ft)
				continue
			}
			el := strings.TrimPrefix(ft, "[]")
			if el != "int" && el != "bool" && el != "any" {
				u.useStruct(el, false)
			}
			s.fields = append(s.fields, impField{n.Name, ft})
		}
	}
	u.emitted = append(u.emitted, name)
	return s
}

func leanType(t string) string {
	switch {
	case t == "int":
		return "Int"
	case t == "bool":
		return "Bool"
	case t == "any":
		return "Go.Any"
	case strings.HasPrefix(t, "[]"):
		return "List " + leanType(t[2:])
	}
	return leanIdent(t)
}

func (u *impUnit) field(structName, f string) (string, bool) {
	s := u.structs[structName]
	if s == nil {
		return "", false
	}
	for _, fl := range s.fields {
		if fl.name == f {
			return fl.typ, true
		}
	}
	return "", false
}

// ---------------------------------------------------------------- expressions

// comparisons are rendered with the Bool-valued Go.lt … Go.ne (GoPrelude) rather than `decide (a < b)`:
// a `decide` carries a Decidable instance mentioning its operands, which goes stale under definitional rewriting
var impCmp = map[token.Token]string{token.LSS: "Go.lt", token.LEQ: "Go.le", token.GTR: "Go.gt", token.GEQ: "Go.ge", token.EQL: "Go.eq", token.NEQ: "Go.ne"}
var impArith = map[token.Token]string{token.ADD: "+", token.SUB: "-", token.MUL: "*"}

func (f *impFn) errEv(n ast.Node, what string) ev {
	f.bad(n, what)
	return ev{nil, "sorryUntranslatable", "?"}
}

func (f *impFn) expr(e ast.Expr) ev {
	switch x := e.(type) {
	case *ast.Ident:
		if x.Name == "true" || x.Name == "false" {
			return ev{nil, x.Name, "bool"}
		}
		if x.Name == f.recv {
			return ev{nil, leanIdent(x.Name), f.recvType}
		}
		if t, ok := f.locals[x.Name]; ok {
			return ev{nil, leanIdent(x.Name), t}
		}
		return f.errEv(e, "identifier "+x.Name+" (not a local, parameter or the receiver)")
	case *ast.BasicLit:
		if x.Kind == token.INT {
			return ev{nil, "(" + x.Value + " : Int)", "int"}
		}
		return f.errEv(e, "literal "+x.Value)
	case *ast.ParenExpr:
		return f.expr(x.X)
	case *ast.UnaryExpr:
		a := f.expr(x.X)
		switch {
		case x.Op == token.NOT && a.t == "bool":
			return ev{a.g, "(!" + a.v + ")", "bool"}
		case x.Op == token.SUB && a.t == "int":
			return ev{a.g, "(-" + a.v + ")", "int"}
		}
		return f.errEv(e, "unary operator "+x.Op.String()+" on "+a.t)
	case *ast.BinaryExpr:
		l, r := f.expr(x.X), f.expr(x.Y)
		if x.Op == token.LAND || x.Op == token.LOR {
			if l.t != "bool" || r.t != "bool" {
				return f.errEv(e, "operator "+x.Op.String()+" on "+l.t+", "+r.t)
			}
			g := l.g
			if len(r.g) > 0 {
				// short circuit: the right operand is only evaluated when the left one does not decide
				if x.Op == token.LAND {
					g = conj(g, []string{"(!" + l.v + " || " + guardTerm(r.g) + ")"})
				} else {
					g = conj(g, []string{"(" + l.v + " || " + guardTerm(r.g) + ")"})
				}
			}
			op := "&&"
			if x.Op == token.LOR {
				op = "||"
			}
			return ev{g, "(" + l.v + " " + op + " " + r.v + ")", "bool"}
		}
		if op, ok := impCmp[x.Op]; ok {
			okT := l.t == r.t && (l.t == "int" || ((l.t == "bool" || l.t == "any") && (x.Op == token.EQL || x.Op == token.NEQ)))
			if !okT {
				return f.errEv(e, "comparison "+x.Op.String()+" on "+l.t+", "+r.t)
			}
			return ev{conj(l.g, r.g), "(" + op + " " + l.v + " " + r.v + ")", "bool"}
		}
		if op, ok := impArith[x.Op]; ok {
			if l.t != "int" || r.t != "int" {
				return f.errEv(e, "operator "+x.Op.String()+" on "+l.t+", "+r.t)
			}
			return ev{conj(l.g, r.g), "(" + l.v + " " + op + " " + r.v + ")", "int"}
		}
		return f.errEv(e, "binary operator "+x.Op.String())
	case *ast.SelectorExpr:
		a := f.expr(x.X)
		if s := f.u.structs[a.t]; s != nil && s.mutexes[x.Sel.Name] {
			return f.errEv(e, "use of the mutex field "+exprString(e))
		}
		ft, ok := f.u.field(a.t, x.Sel.Name)
		if !ok {
			return f.errEv(e, "selector "+exprString(e))
		}
		return ev{a.g, a.v + "." + leanIdent(x.Sel.Name), ft}
	case *ast.IndexExpr:
		if v, ok := f.elemSubst[exprString(e)]; ok {
			return ev{nil, v, f.elemType}
		}
		a, i := f.expr(x.X), f.expr(x.Index)
		if !strings.HasPrefix(a.t, "[]") || i.t != "int" {
			return f.errEv(e, "index expression "+exprString(e)+" on "+a.t)
		}
		g := conj(a.g, i.g, []string{"(Go.inRange " + a.v + " " + i.v + ")"})
		return ev{g, "(Go.index " + a.v + " " + i.v + ")", a.t[2:]}
	case *ast.SliceExpr:
		if x.Slice3 {
			return f.errEv(e, "3-index slice expression "+exprString(e))
		}
		a := f.expr(x.X)
		if !strings.HasPrefix(a.t, "[]") {
			return f.errEv(e, "slice expression "+exprString(e)+" on "+a.t)
		}
		var lo, hi ev
		if x.Low != nil {
			if lo = f.expr(x.Low); lo.t != "int" {
				return f.errEv(e, "slice bound of type "+lo.t)
			}
		}
		if x.High != nil {
			if hi = f.expr(x.High); hi.t != "int" {
				return f.errEv(e, "slice bound of type "+hi.t)
			}
		}
		switch {
		case x.Low != nil && x.High == nil:
			return ev{conj(a.g, lo.g, []string{"(Go.sliceFromOk " + a.v + " " + lo.v + ")"}), "(Go.sliceFrom " + a.v + " " + lo.v + ")", a.t}
		case x.Low == nil && x.High != nil:
			return ev{conj(a.g, hi.g, []string{"(Go.sliceToOk " + a.v + " " + hi.v + ")"}), "(Go.sliceTo " + a.v + " " + hi.v + ")", a.t}
		case x.Low != nil && x.High != nil:
			return ev{conj(a.g, lo.g, hi.g, []string{"(Go.sliceOk " + a.v + " " + lo.v + " " + hi.v + ")"}), "(Go.slice " + a.v + " " + lo.v + " " + hi.v + ")", a.t}
		}
		return a
	case *ast.CompositeLit:
		t, ok := f.u.goType(x.Type)
		if !ok {
			return f.errEv(e, "composite literal of type "+exprString(x.Type))
		}
		return f.composite(x, t)
	case *ast.CallExpr:
		return f.call(x)
	}
	return f.errEv(e, fmt.Sprintf("expression %s (%T)", exprString(e), e))
}

func (f *impFn) composite(x *ast.CompositeLit, t string) ev {
	if strings.HasPrefix(t, "[]") {
		el := t[2:]
		g := []string{}
		vs := []string{}
		for _, e := range x.Elts {
			var a ev
			if cl, ok := e.(*ast.CompositeLit); ok && cl.Type == nil {
				a = f.composite(cl, el)
			} else if _, ok := e.(*ast.KeyValueExpr); ok {
				return f.errEv(e, "keyed element in a slice literal")
			} else {
				a = f.expr(e)
			}
			if a.t != el {
				return f.errEv(e, "slice literal element of type "+a.t+", expected "+el)
			}
			g = conj(g, a.g)
			vs = append(vs, a.v)
		}
		return ev{g, "([" + strings.Join(vs, ", ") + "] : " + leanType(t) + ")", t}
	}
	s := f.u.structs[t]
	if s == nil || t == f.recvType {
		return f.errEv(x, "composite literal of type "+t)
	}
	vals := map[string]string{}
	g := []string{}
	for i, e := range x.Elts {
		name := ""
		var val ast.Expr
		if kv, ok := e.(*ast.KeyValueExpr); ok {
			name, val = exprString(kv.Key), kv.Value
		} else if i < len(s.fields) && len(x.Elts) == len(s.fields) {
			name, val = s.fields[i].name, e
		} else {
			return f.errEv(e, "positional struct literal with missing fields")
		}
		ft, ok := f.u.field(t, name)
		a := f.expr(val)
		if !ok || a.t != ft {
			return f.errEv(e, "struct literal field "+name+" of type "+a.t)
		}
		if _, dup := vals[name]; dup {
			return f.errEv(e, "duplicate field "+name)
		}
		vals[name] = a.v
		g = conj(g, a.g)
	}
	parts := []string{}
	for _, fl := range s.fields {
		v, ok := vals[fl.name]
		if !ok { // Go zero value
			switch fl.typ {
			case "int":
				v = "(0 : Int)"
			case "bool":
				v = "false"
			default:
				return f.errEv(x, "struct literal omitting field "+fl.name+" of type "+fl.typ)
			}
		}
		parts = append(parts, leanIdent(fl.name)+" := "+v)
	}
	return ev{g, "({ " + strings.Join(parts, ", ") + " } : " + leanType(t) + ")", t}
}

func (f *impFn) call(x *ast.CallExpr) ev {
	fn := exprString(x.Fun)
	switch {
	case fn == "len" && len(x.Args) == 1:
		a := f.expr(x.Args[0])
		if !strings.HasPrefix(a.t, "[]") {
			return f.errEv(x, "len of "+a.t)
		}
		return ev{a.g, "(Go.len " + a.v + ")", "int"}
	case goIntTypes[fn] && len(x.Args) == 1:
		a := f.expr(x.Args[0])
		if a.t != "int" {
			return f.errEv(x, "conversion "+fn+" of "+a.t)
		}
		return a // integers are Int: conversions are the identity (overflow out of scope)
	case fn == "append" && len(x.Args) >= 2:
		a := f.expr(x.Args[0])
		if !strings.HasPrefix(a.t, "[]") {
			return f.errEv(x, "append to "+a.t)
		}
		if x.Ellipsis != token.NoPos {
			if len(x.Args) != 2 {
				return f.errEv(x, "append with ... and several arguments")
			}
			b := f.expr(x.Args[1])
			if b.t != a.t {
				return f.errEv(x, "append of "+b.t+" to "+a.t)
			}
			return ev{conj(a.g, b.g), "(" + a.v + " ++ " + b.v + ")", a.t}
		}
		g := a.g
		vs := []string{}
		for _, arg := range x.Args[1:] {
			b := f.expr(arg)
			if b.t != a.t[2:] {
				return f.errEv(x, "append of "+b.t+" to "+a.t)
			}
			g = conj(g, b.g)
			vs = append(vs, b.v)
		}
		return ev{g, "(" + a.v + " ++ [" + strings.Join(vs, ", ") + "])", a.t}
	case fn == "sort.Search" && len(x.Args) == 2:
		n := f.expr(x.Args[0])
		fl, ok := x.Args[1].(*ast.FuncLit)
		if n.t != "int" || !ok {
			return f.errEv(x, "sort.Search whose arguments are not (int, func literal)")
		}
		ps := fl.Type.Params.List
		if len(ps) != 1 || len(ps[0].Names) != 1 || exprString(ps[0].Type) != "int" ||
			fl.Type.Results == nil || len(fl.Type.Results.List) != 1 || exprString(fl.Type.Results.List[0].Type) != "bool" {
			return f.errEv(fl, "sort.Search closure that is not func(i int) bool")
		}
		if len(fl.Body.List) != 1 {
			return f.errEv(fl, "sort.Search closure whose body is not a single return")
		}
		rs, ok := fl.Body.List[0].(*ast.ReturnStmt)
		if !ok || len(rs.Results) != 1 {
			return f.errEv(fl, "sort.Search closure whose body is not a single return")
		}
		iv := ps[0].Names[0].Name
		if _, dup := f.locals[iv]; dup || iv == f.recv {
			return f.errEv(fl, "closure parameter "+iv+" shadows a variable")
		}
		f.locals[iv] = "int"
		b := f.expr(rs.Results[0])
		delete(f.locals, iv)
		if b.t != "bool" {
			return f.errEv(fl, "sort.Search closure returning "+b.t)
		}
		g := n.g
		lam := "(fun (" + leanIdent(iv) + " : Int) => "
		if len(b.g) > 0 {
			// the closure may be called with any i in [0, n): its guards must hold for all of them
			g = conj(g, []string{"(Go.forallBelow " + n.v + " " + lam + guardTerm(b.g) + "))"})
		}
		return ev{g, "(Go.search " + n.v + " " + lam + b.v + "))", "int"}
	}
	if f.u.timeInt {
		if sel, ok := x.Fun.(*ast.SelectorExpr); ok && len(x.Args) == 1 {
			if op, ok := map[string]string{"Before": "Go.lt", "After": "Go.gt", "Equal": "Go.eq"}[sel.Sel.Name]; ok {
				a, b := f.expr(sel.X), f.expr(x.Args[0])
				if a.t == "int" && b.t == "int" {
					return ev{conj(a.g, b.g), "(" + op + " " + a.v + " " + b.v + ")", "bool"}
				}
			}
		}
	}
	return f.errEv(x, "call of "+fn)
}

// ---------------------------------------------------------------- aliasing

// sliceSources lists the slice-typed variables/fields whose backing array the value of e may share.
func (f *impFn) sliceSources(e ast.Expr) []string {
	switch x := e.(type) {
	case *ast.ParenExpr:
		return f.sliceSources(x.X)
	case *ast.Ident, *ast.SelectorExpr:
		if strings.HasPrefix(f.expr(e).t, "[]") {
			return []string{exprString(e)}
		}
		return nil
	case *ast.SliceExpr:
		return f.sliceSources(x.X)
	case *ast.CallExpr:
		out := []string{}
		for _, a := range x.Args {
			if _, isLit := a.(*ast.FuncLit); !isLit {
				out = append(out, f.sliceSources(a)...)
			}
		}
		return out
	case *ast.CompositeLit, *ast.IndexExpr, *ast.BasicLit:
		return nil
	}
	if strings.HasPrefix(f.expr(e).t, "[]") {
		return []string{"<" + exprString(e) + ">"}
	}
	return nil
}

// ---------------------------------------------------------------- statements

// assign renders `lhs = newVal` as a functional update of the root variable of the path.
func (f *impFn) assign(lhs ast.Expr, newVal string) (g []string, root, val string, ok bool) {
	switch x := lhs.(type) {
	case *ast.ParenExpr:
		return f.assign(x.X, newVal)
	case *ast.Ident:
		if _, isLocal := f.locals[x.Name]; isLocal {
			return nil, x.Name, newVal, true
		}
		f.bad(lhs, "assignment to "+x.Name)
		return nil, "", "", false
	case *ast.SelectorExpr:
		base := f.expr(x.X)
		if _, isField := f.u.field(base.t, x.Sel.Name); !isField {
			f.bad(lhs, "assignment to "+exprString(lhs))
			return nil, "", "", false
		}
		upd := "{ " + base.v + " with " + leanIdent(x.Sel.Name) + " := " + newVal + " }"
		if id, isId := x.X.(*ast.Ident); isId && id.Name == f.recv {
			return nil, f.recv, upd, true
		}
		g1, root, val, ok := f.assign(x.X, upd)
		return conj(base.g, g1), root, val, ok
	case *ast.IndexExpr:
		base, i := f.expr(x.X), f.expr(x.Index)
		if !strings.HasPrefix(base.t, "[]") || i.t != "int" {
			f.bad(lhs, "assignment to "+exprString(lhs))
			return nil, "", "", false
		}
		g0 := conj(base.g, i.g, []string{"(Go.inRange " + base.v + " " + i.v + ")"})
		g1, root, val, ok := f.assign(x.X, "(Go.set "+base.v+" "+i.v+" "+newVal+")")
		return conj(g0, g1), root, val, ok
	}
	f.bad(lhs, "assignment to "+exprString(lhs))
	return nil, "", "", false
}

func guarded(g []string, ind string, body func(ind string) string) string {
	if len(g) == 0 {
		return body(ind)
	}
	return ind + "if " + guardTerm(g) + " then\n" + body(ind+"  ") + "\n" + ind + "else\n" + ind + "  none"
}

func (f *impFn) isLockCall(e ast.Expr) bool {
	c, ok := e.(*ast.CallExpr)
	if !ok || len(c.Args) != 0 {
		return false
	}
	sel, ok := c.Fun.(*ast.SelectorExpr)
	if !ok {
		return false
	}
	switch sel.Sel.Name {
	case "Lock", "Unlock", "RLock", "RUnlock":
	default:
		return false
	}
	in, ok := sel.X.(*ast.SelectorExpr)
	if !ok {
		return false
	}
	id, ok := in.X.(*ast.Ident)
	if !ok || id.Name != f.recv {
		return false
	}
	s := f.u.structs[f.recvType]
	return s != nil && s.mutexes[in.Sel.Name]
}

func terminates(stmts []ast.Stmt) bool {
	if len(stmts) == 0 {
		return false
	}
	switch s := stmts[len(stmts)-1].(type) {
	case *ast.ReturnStmt:
		return true
	case *ast.IfStmt:
		if s.Else == nil {
			return false
		}
		var el []ast.Stmt
		if b, ok := s.Else.(*ast.BlockStmt); ok {
			el = b.List
		} else {
			el = []ast.Stmt{s.Else}
		}
		return terminates(s.Body.List) && terminates(el)
	case *ast.SwitchStmt:
		hasDefault := false
		for _, c := range s.Body.List {
			cc := c.(*ast.CaseClause)
			if cc.List == nil {
				hasDefault = true
			}
			if !terminates(cc.Body) {
				return false
			}
		}
		return hasDefault
	}
	return false
}

// assignedOuter: variables declared outside `bodies` and assigned inside, receiver first,
// then locals in declaration order.
func (f *impFn) assignedOuter(bodies [][]ast.Stmt) []string {
	set := map[string]bool{}
	declared := map[string]bool{}
	var root func(e ast.Expr) string
	root = func(e ast.Expr) string {
		switch x := e.(type) {
		case *ast.Ident:
			return x.Name
		case *ast.SelectorExpr:
			return root(x.X)
		case *ast.IndexExpr:
			return root(x.X)
		case *ast.ParenExpr:
			return root(x.X)
		}
		return ""
	}
	for _, b := range bodies {
		for _, s := range b {
			ast.Inspect(s, func(n ast.Node) bool {
				switch x := n.(type) {
				case *ast.AssignStmt:
					for _, l := range x.Lhs {
						if x.Tok == token.DEFINE {
							declared[root(l)] = true
						} else {
							set[root(l)] = true
						}
					}
				case *ast.IncDecStmt:
					set[root(x.X)] = true
				case *ast.ExprStmt:
					// sort.SliceStable(path, …) sorts path in place
					if c, ok := x.X.(*ast.CallExpr); ok && exprString(c.Fun) == "sort.SliceStable" && len(c.Args) > 0 {
						set[root(c.Args[0])] = true
					}
				}
				return true
			})
		}
	}
	out := []string{}
	if set[f.recv] {
		out = append(out, f.recv)
	}
	for _, n := range f.declOrder {
		if set[n] && !declared[n] {
			if _, live := f.locals[n]; live {
				out = append(out, n)
			}
		}
	}
	return out
}

func tupleOf(vars []string) string {
	switch len(vars) {
	case 0:
		return "()"
	case 1:
		return leanIdent(vars[0])
	}
	ids := []string{}
	for _, v := range vars {
		ids = append(ids, leanIdent(v))
	}
	return "(" + strings.Join(ids, ", ") + ")"
}

func (f *impFn) scoped(body func() string) string {
	saved := map[string]string{}
	for k, v := range f.locals {
		saved[k] = v
	}
	n := len(f.declOrder)
	out := body()
	f.locals = saved
	f.declOrder = f.declOrder[:n]
	return out
}

func (f *impFn) declare(n ast.Node, name, typ string) bool {
	if name == "_" {
		f.bad(n, "blank identifier")
		return false
	}
	if _, dup := f.locals[name]; dup || name == f.recv {
		f.bad(n, "redeclaration (shadowing) of "+name)
		return false
	}
	if strings.HasPrefix(typ, "[]") {
		f.bad(n, "local variable "+name+" of slice type (it would alias its source)")
		return false
	}
	f.locals[name] = typ
	f.declOrder = append(f.declOrder, name)
	return true
}

// block renders stmts; `tail` is the term for falling off the end ("" = must not happen).
func (f *impFn) block(stmts []ast.Stmt, tail, ind string) string {
	if len(stmts) == 0 {
		if tail == "" {
			f.bad(nil, "a path falling off the end of a function with results")
			return ind + "sorryNoReturn"
		}
		return ind + tail
	}
	rest := stmts[1:]
	switch s := stmts[0].(type) {
	case *ast.EmptyStmt:
		return f.block(rest, tail, ind)
	case *ast.ExprStmt:
		if f.isLockCall(s.X) {
			return f.block(rest, tail, ind) // mutual exclusion is not part of the sequential reading
		}
		if c, ok := s.X.(*ast.CallExpr); ok && exprString(c.Fun) == "sort.SliceStable" && f.u.timeInt {
			return f.sliceStable(c, rest, tail, ind)
		}
		f.bad(s, "expression statement "+exprString(s.X))
	case *ast.DeferStmt:
		if f.isLockCall(s.Call) {
			return f.block(rest, tail, ind)
		}
		f.bad(s, "defer "+exprString(s.Call))
	case *ast.ReturnStmt:
		if f.inJoin {
			f.bad(s, "return inside a branch or loop body that is followed by further statements")
			break
		}
		if len(rest) > 0 {
			f.bad(rest[0], "statement after return")
			break
		}
		if len(s.Results) != len(f.results) {
			f.bad(s, "return with a different number of results (named results?)")
			break
		}
		g := []string{}
		parts := []string{leanIdent(f.recv)}
		for i, r := range s.Results {
			a := f.expr(r)
			if a.t != f.results[i] && a.t != "?" {
				f.bad(r, "returning "+a.t+" for "+f.results[i])
			}
			g = conj(g, a.g)
			parts = append(parts, a.v)
		}
		return guarded(g, ind, func(ind string) string {
			if f.retWrap != "" {
				return ind + "some (" + f.retWrap + " " + tupleOf2(parts) + ")"
			}
			return ind + "some " + tupleOf2(parts)
		})
	case *ast.IncDecStmt:
		cur := f.expr(s.X)
		if cur.t != "int" {
			f.bad(s, "++/-- on "+cur.t)
			break
		}
		op := " + "
		if s.Tok == token.DEC {
			op = " - "
		}
		g, root, val, ok := f.assign(s.X, "("+cur.v+op+"(1 : Int))")
		if !ok {
			break
		}
		return guarded(conj(cur.g, g), ind, func(ind string) string {
			return ind + "let " + leanIdent(root) + " := " + val + "\n" + f.block(rest, tail, ind)
		})
	case *ast.AssignStmt:
		if out, ok := f.assignStmt(s, rest, tail, ind); ok {
			return out
		}
	case *ast.IfStmt:
		if s.Init != nil {
			f.bad(s, "if with an init statement")
			break
		}
		conds, bodies, els := flattenIf(s)
		return f.chain(s, conds, bodies, els, rest, tail, ind)
	case *ast.SwitchStmt:
		if s.Init != nil || s.Tag != nil {
			f.bad(s, "switch with an init statement or a tag")
			break
		}
		var conds []ast.Expr
		var bodies [][]ast.Stmt
		var els []ast.Stmt
		okSw := true
		for _, c := range s.Body.List {
			cc := c.(*ast.CaseClause)
			for _, b := range cc.Body {
				if br, isBr := b.(*ast.BranchStmt); isBr {
					f.bad(br, br.Tok.String()+" in a switch")
					okSw = false
				}
			}
			if cc.List == nil {
				els = cc.Body
				if els == nil {
					els = []ast.Stmt{}
				}
				continue
			}
			if len(cc.List) != 1 {
				f.bad(cc, "case with several expressions")
				okSw = false
				continue
			}
			conds = append(conds, cc.List[0])
			bodies = append(bodies, cc.Body)
		}
		if !okSw {
			break
		}
		return f.chain(s, conds, bodies, els, rest, tail, ind)
	case *ast.ForStmt:
		if f.u.timeInt {
			return f.forLoop(s, rest, tail, ind)
		}
		f.bad(s, "for statement")
	default:
		f.bad(s, fmt.Sprintf("statement %T", s))
	}
	return ind + "sorryStmt"
}

func tupleOf2(parts []string) string {
	if len(parts) == 1 {
		return parts[0]
	}
	return "(" + strings.Join(parts, ", ") + ")"
}

func flattenIf(s *ast.IfStmt) (conds []ast.Expr, bodies [][]ast.Stmt, els []ast.Stmt) {
	for {
		conds = append(conds, s.Cond)
		bodies = append(bodies, s.Body.List)
		switch e := s.Else.(type) {
		case nil:
			return conds, bodies, nil
		case *ast.BlockStmt:
			return conds, bodies, e.List
		case *ast.IfStmt:
			if e.Init != nil {
				return conds, bodies, []ast.Stmt{e} // refused when translated
			}
			s = e
		default:
			return conds, bodies, []ast.Stmt{e}
		}
	}
}

func (f *impFn) assignStmt(s *ast.AssignStmt, rest []ast.Stmt, tail, ind string) (string, bool) {
	if s.Tok == token.DEFINE {
		if len(s.Lhs) != len(s.Rhs) {
			f.bad(s, "multi-value :=")
			return "", false
		}
		g := []string{}
		lets := []string{}
		names, types := []string{}, []string{}
		for i := range s.Lhs {
			id, ok := s.Lhs[i].(*ast.Ident)
			if !ok {
				f.bad(s, ":= to "+exprString(s.Lhs[i]))
				return "", false
			}
			a := f.expr(s.Rhs[i]) // all right-hand sides see the variables as they were before
			g = conj(g, a.g)
			lets = append(lets, "let "+leanIdent(id.Name)+" := "+a.v)
			names, types = append(names, id.Name), append(types, a.t)
		}
		for i := range names {
			if !f.declare(s, names[i], types[i]) {
				return "", false
			}
		}
		return guarded(g, ind, func(ind string) string {
			out := ""
			for _, l := range lets {
				out += ind + l + "\n"
			}
			return out + f.block(rest, tail, ind)
		}), true
	}
	if len(s.Lhs) != 1 || len(s.Rhs) != 1 {
		f.bad(s, "parallel assignment")
		return "", false
	}
	rhs := f.expr(s.Rhs[0])
	newVal := rhs.v
	g := rhs.g
	lhsT := ""
	switch s.Tok {
	case token.ASSIGN:
		lhsT = f.lvalueType(s.Lhs[0])
	case token.ADD_ASSIGN, token.SUB_ASSIGN, token.MUL_ASSIGN:
		cur := f.expr(s.Lhs[0])
		lhsT = cur.t
		if cur.t != "int" || rhs.t != "int" {
			f.bad(s, s.Tok.String()+" on "+cur.t)
			return "", false
		}
		op := map[token.Token]string{token.ADD_ASSIGN: "+", token.SUB_ASSIGN: "-", token.MUL_ASSIGN: "*"}[s.Tok]
		newVal = "(" + cur.v + " " + op + " " + rhs.v + ")"
		g = conj(cur.g, g)
	default:
		f.bad(s, "assignment operator "+s.Tok.String())
		return "", false
	}
	if lhsT == "" || lhsT != rhs.t {
		f.bad(s, "assignment of "+rhs.t+" to "+exprString(s.Lhs[0]))
		return "", false
	}
	if strings.HasPrefix(rhs.t, "[]") {
		for _, src := range f.sliceSources(s.Rhs[0]) {
			if src != exprString(s.Lhs[0]) {
				f.bad(s, "slice assignment to "+exprString(s.Lhs[0])+" reading the slice "+src+" (two live slices would share a backing array)")
				return "", false
			}
		}
	}
	ga, root, val, ok := f.assign(s.Lhs[0], newVal)
	if !ok {
		return "", false
	}
	return guarded(conj(g, ga), ind, func(ind string) string {
		return ind + "let " + leanIdent(root) + " := " + val + "\n" + f.block(rest, tail, ind)
	}), true
}

func (f *impFn) lvalueType(e ast.Expr) string {
	n := len(failures)
	t := f.expr(e).t
	if len(failures) > n {
		return ""
	}
	return t
}

// chain renders  if c0 {b0} else if c1 {b1} … else {els}  followed by rest.
func (f *impFn) chain(at ast.Node, conds []ast.Expr, bodies [][]ast.Stmt, els []ast.Stmt, rest []ast.Stmt, tail, ind string) string {
	all := append(append([][]ast.Stmt{}, bodies...), els)
	open := 0 // branches that fall through to rest
	for _, b := range all {
		if !terminates(b) {
			open++
		}
	}
	if len(rest) > 0 && open == 0 {
		f.bad(rest[0], "unreachable statement")
		return ind + "sorryStmt"
	}
	if len(rest) == 0 || open == 1 {
		// no join point: the one open branch (or, with nothing following, every branch) continues directly
		ext := func(b []ast.Stmt) []ast.Stmt {
			if terminates(b) {
				return b
			}
			return append(append([]ast.Stmt{}, b...), rest...)
		}
		return f.chainFrom(conds, bodies, els, ext, tail, ind)
	}
	// join point: the branches yield the variables they assign, rest continues under Option.bind
	vars := f.assignedOuter(all)
	pat := tupleOf(vars)
	if len(vars) == 0 {
		pat = "(_ : Unit)"
	}
	savedJoin := f.inJoin
	f.inJoin = true
	inner := f.chainFrom(conds, bodies, els, func(b []ast.Stmt) []ast.Stmt { return b }, "some "+tupleOf(vars), ind+"    ")
	f.inJoin = savedJoin
	return ind + "Option.bind\n" + ind + "  (\n" + inner + "\n" + ind + "  )\n" + ind + "  (fun " + pat + " =>\n" +
		f.block(rest, tail, ind+"    ") + ")"
}

func (f *impFn) chainFrom(conds []ast.Expr, bodies [][]ast.Stmt, els []ast.Stmt, ext func([]ast.Stmt) []ast.Stmt, tail, ind string) string {
	if len(conds) == 0 {
		return f.scoped(func() string { return f.block(ext(els), tail, ind) })
	}
	c := f.expr(conds[0])
	if c.t != "bool" {
		f.bad(conds[0], "condition of type "+c.t)
	}
	return guarded(c.g, ind, func(ind string) string {
		th := f.scoped(func() string { return f.block(ext(bodies[0]), tail, ind+"  ") })
		el := f.chainFrom(conds[1:], bodies[1:], els, ext, tail, ind+"  ")
		return ind + "if " + c.v + " then\n" + th + "\n" + ind + "else\n" + el
	})
}

// ---------------------------------------------------------------- loops (bucket)

// forLoop renders  for ; cond; post { body }  followed by rest. One turn of the loop (condition,
// body, post) becomes an auxiliary definition  <fn>_loop<k> : state → Option (Go.Ctl state result)
// over the variables assigned in the loop; Go.loop iterates it at most `fuel + 1` times (running
// out of fuel is `none`, like a panic: a theorem `… = some …` shows the bound is respected).
func (f *impFn) forLoop(s *ast.ForStmt, rest []ast.Stmt, tail, ind string) string {
	if s.Init != nil || s.Cond == nil {
		f.bad(s, "for statement with an init statement or without a condition")
		return ind + "sorryStmt"
	}
	if f.inJoin || f.retWrap != "" {
		f.bad(s, "for statement nested in a loop or in a branch that is followed by further statements")
		return ind + "sorryStmt"
	}
	if f.fuel == "" {
		f.bad(s, "for statement in a method without a declared bound (impSpec.fuel)")
		return ind + "sorryStmt"
	}
	fe, err := parser.ParseExpr(f.fuel)
	if err != nil {
		f.bad(s, "unparsable loop bound "+f.fuel)
		return ind + "sorryStmt"
	}
	fuel := f.expr(fe)
	if fuel.t != "int" {
		f.bad(s, "loop bound of type "+fuel.t)
		return ind + "sorryStmt"
	}
	body := append([]ast.Stmt{}, s.Body.List...)
	ast.Inspect(s.Body, func(n ast.Node) bool {
		if br, ok := n.(*ast.BranchStmt); ok {
			f.bad(br, br.Tok.String()+" in a loop")
		}
		return true
	})
	if s.Post != nil {
		body = append(body, s.Post)
	}
	vars := f.assignedOuter([][]ast.Stmt{body})
	if len(vars) == 0 {
		f.bad(s, "for statement that assigns no variable")
		return ind + "sorryStmt"
	}
	inState := map[string]bool{}
	stT := []string{}
	for _, v := range vars {
		inState[v] = true
		if v == f.recv {
			stT = append(stT, leanType(f.recvType))
		} else {
			stT = append(stT, leanType(f.locals[v]))
		}
	}
	stateT := strings.Join(stT, " × ")
	// everything else in scope is a parameter of the auxiliary definition
	params, args := "", ""
	if !inState[f.recv] {
		params += " (" + leanIdent(f.recv) + " : " + leanType(f.recvType) + ")"
		args += " " + leanIdent(f.recv)
	}
	for _, n := range f.declOrder {
		if t, live := f.locals[n]; live && !inState[n] {
			params += " (" + leanIdent(n) + " : " + leanType(t) + ")"
			args += " " + leanIdent(n)
		}
	}
	f.loops++
	name := fmt.Sprintf("%s_loop%d", f.leanName, f.loops)
	c := f.expr(s.Cond)
	if c.t != "bool" {
		f.bad(s.Cond, "condition of type "+c.t)
	}
	f.retWrap = "Go.Ctl.ret"
	turn := guarded(c.g, "    ", func(ind string) string {
		th := f.scoped(func() string { return f.block(body, "some (Go.Ctl.next "+tupleOf(vars)+")", ind+"  ") })
		return ind + "if " + c.v + " then\n" + th + "\n" + ind + "else\n" + ind + "  some (Go.Ctl.done " + tupleOf(vars) + ")"
	})
	f.retWrap = ""
	f.aux = append(f.aux, fmt.Sprintf("/-- one turn (condition, body, post statement) of for loop %d of %s -/\ndef %s%s :\n    %s → Option (Go.Ctl (%s) (%s))\n  | %s =>\n%s\n\n",
		f.loops, f.where, name, params, stateT, stateT, f.resultT, tupleOf(vars), turn))
	return guarded(fuel.g, ind, func(ind string) string {
		return ind + "match Go.loop (" + fuel.v + ".toNat + 1) " + tupleOf(vars) + " (" + name + args + ") with\n" +
			ind + "| some (Go.Ctl.done " + tupleOf(vars) + ") =>\n" + f.block(rest, tail, ind+"  ") + "\n" +
			ind + "| some (Go.Ctl.ret r) => some r\n" +
			ind + "| _ => none"
	})
}

// sliceStable renders  sort.SliceStable(path, func(i, j int) bool { return E })  as
// path = Go.sortStableBy (fun e_i e_j => E') path, where E may mention i and j only as path[i], path[j].
func (f *impFn) sliceStable(c *ast.CallExpr, rest []ast.Stmt, tail, ind string) string {
	fail := func(what string) string {
		f.bad(c, what)
		return ind + "sorryStmt"
	}
	if len(c.Args) != 2 {
		return fail("call of sort.SliceStable")
	}
	fl, ok := c.Args[1].(*ast.FuncLit)
	if !ok {
		return fail("sort.SliceStable whose second argument is not a func literal")
	}
	names := []string{}
	for _, p := range fl.Type.Params.List {
		if exprString(p.Type) != "int" {
			return fail("sort.SliceStable closure that is not func(i, j int) bool")
		}
		for _, n := range p.Names {
			names = append(names, n.Name)
		}
	}
	if len(names) != 2 || fl.Type.Results == nil || len(fl.Type.Results.List) != 1 || exprString(fl.Type.Results.List[0].Type) != "bool" {
		return fail("sort.SliceStable closure that is not func(i, j int) bool")
	}
	if len(fl.Body.List) != 1 {
		return fail("sort.SliceStable closure whose body is not a single return")
	}
	rs, ok := fl.Body.List[0].(*ast.ReturnStmt)
	if !ok || len(rs.Results) != 1 {
		return fail("sort.SliceStable closure whose body is not a single return")
	}
	cur := f.expr(c.Args[0])
	if !strings.HasPrefix(cur.t, "[]") {
		return fail("sort.SliceStable of " + cur.t)
	}
	for _, n := range names {
		if _, dup := f.locals[n]; dup || n == f.recv {
			return fail("closure parameter " + n + " shadows a variable")
		}
	}
	path := exprString(c.Args[0])
	ei, ej := "e_"+names[0], "e_"+names[1]
	f.elemSubst = map[string]string{path + "[" + names[0] + "]": ei, path + "[" + names[1] + "]": ej}
	f.elemType = cur.t[2:]
	less := f.expr(rs.Results[0])
	f.elemSubst = nil
	if less.t != "bool" || len(less.g) > 0 {
		return fail("sort.SliceStable closure with an index or slice expression other than " + path + "[" + names[0] + "], " + path + "[" + names[1] + "]")
	}
	sorted := "(Go.sortStableBy (fun (" + ei + " " + ej + " : " + leanType(f.elemType) + ") => " + less.v + ") " + cur.v + ")"
	g, root, val, ok := f.assign(c.Args[0], sorted)
	if !ok {
		return ind + "sorryStmt"
	}
	return guarded(conj(cur.g, g), ind, func(ind string) string {
		return ind + "let " + leanIdent(root) + " := " + val + "\n" + f.block(rest, tail, ind)
	})
}

// ---------------------------------------------------------------- driver

func translateImperative(rel, namespace string, timeInt bool, specs []impSpec) string {
	p := parse(rel)
	if p == nil {
		return ""
	}
	u := &impUnit{rel: rel, p: p, structs: map[string]*impStruct{}, timeInt: timeInt}
	var defs strings.Builder
	for _, sp := range specs {
		fd := findFunc(rel, "*"+sp.recvType, sp.goName)
		if fd == nil || fd.Body == nil {
			continue
		}
		if u.useStruct(sp.recvType, true) == nil {
			continue
		}
		f := &impFn{u: u, where: "(*" + sp.recvType + ")." + sp.goName, recvType: sp.recvType, locals: map[string]string{},
			leanName: sp.leanName, fuel: sp.fuel}
		if len(fd.Recv.List[0].Names) != 1 {
			f.bad(fd, "unnamed receiver")
			continue
		}
		f.recv = fd.Recv.List[0].Names[0].Name
		sig := "(" + leanIdent(f.recv) + " : " + leanType(sp.recvType) + ")"
		okSig := true
		for _, prm := range fd.Type.Params.List {
			pt, ok := u.goType(prm.Type)
			if !ok || pt == "mutex" || strings.HasPrefix(pt, "[]") || (pt != "int" && pt != "bool" && pt != "any") {
				f.bad(prm, "parameter of type "+exprString(prm.Type))
				okSig = false
				continue
			}
			for _, n := range prm.Names {
				if !f.declare(prm, n.Name, pt) {
					okSig = false
				}
				sig += " (" + leanIdent(n.Name) + " : " + leanType(pt) + ")"
			}
		}
		resT := []string{leanType(sp.recvType)}
		if fd.Type.Results != nil {
			for _, r := range fd.Type.Results.List {
				rt, ok := u.goType(r.Type)
				if !ok || (rt != "int" && rt != "bool" && rt != "any") || len(r.Names) > 0 {
					f.bad(r, "result of type "+exprString(r.Type)+" (or named result)")
					okSig = false
					continue
				}
				f.results = append(f.results, rt)
				resT = append(resT, leanType(rt))
			}
		}
		if !okSig {
			continue
		}
		tail := ""
		if len(f.results) == 0 {
			tail = "some " + leanIdent(f.recv)
		}
		ret := strings.Join(resT, " × ")
		if len(resT) > 1 {
			ret = "(" + ret + ")"
		}
		f.resultT = strings.Join(resT, " × ")
		body := f.block(fd.Body.List, tail, "  ")
		for _, a := range f.aux {
			defs.WriteString(a)
		}
		fmt.Fprintf(&defs, "/-- translated from %s func (*%s).%s -/\ndef %s %s : Option %s :=\n%s\n\n",
			rel, sp.recvType, sp.goName, sp.leanName, sig, ret, body)
	}
	var b strings.Builder
	b.WriteString("-- GENERATED by /verif/extract (imperative.go) from " + rel + " on every check run. Do not edit.\n")
	b.WriteString("import Wasp.Model.GoPrelude\nset_option linter.unusedVariables false\nnamespace " + namespace + "\n\n")
	for _, name := range u.emitted {
		s := u.structs[name]
		fmt.Fprintf(&b, "/-- translated from %s type %s", rel, name)
		if len(s.mutexes) > 0 {
			ms := []string{}
			for m := range s.mutexes {
				ms = append(ms, m)
			}
			sort.Strings(ms)
			fmt.Fprintf(&b, " (mutex field dropped: %s)", strings.Join(ms, ", "))
		}
		b.WriteString(" -/\n")
		fmt.Fprintf(&b, "structure %s where\n", leanType(name))
		for _, fl := range s.fields {
			fmt.Fprintf(&b, "  %s : %s\n", leanIdent(fl.name), leanType(fl.typ))
		}
		b.WriteString("deriving Repr, DecidableEq, Inhabited\n\n")
	}
	b.WriteString(defs.String())
	b.WriteString("end " + namespace + "\n")
	return b.String()
}

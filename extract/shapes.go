package main

// syntactic shapes the models rely on (filled in per property as the models grow)
func extractShapes() {}

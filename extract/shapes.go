package main

import (
	"go/ast"
	"go/token"
	"os"
	"path/filepath"
	"regexp"
	"strings"
)

// syntactic shapes the hand-written models rely on. Each becomes a Bool in Generated/Facts.lean;
// Properties files assert `fact = true` by `rfl`/`decide`, so a source change that flips a shape
// breaks a proof obligation. A function that cannot be found at all is an extraction failure.

func hasRecover(fd *ast.FuncDecl) bool {
	found := false
	if fd == nil || fd.Body == nil {
		return false
	}
	for _, st := range fd.Body.List {
		ds, ok := st.(*ast.DeferStmt)
		if !ok {
			continue
		}
		ast.Inspect(ds, func(n ast.Node) bool {
			if c, ok := n.(*ast.CallExpr); ok {
				if id, ok := c.Fun.(*ast.Ident); ok && id.Name == "recover" {
					found = true
				}
			}
			return true
		})
	}
	return found
}

// stmtIndex returns the index of the first top-level statement of fd whose source text matches pred
func stmtIndex(fd *ast.FuncDecl, pred func(string) bool) int {
	if fd == nil || fd.Body == nil {
		return -1
	}
	for i, st := range fd.Body.List {
		if pred(stmtString(st)) {
			return i
		}
	}
	return -1
}

func stmtString(st ast.Stmt) string {
	switch s := st.(type) {
	case *ast.ExprStmt:
		return exprString(s.X)
	case *ast.GoStmt:
		return "go " + exprString(s.Call)
	case *ast.AssignStmt:
		l, r := []string{}, []string{}
		for _, e := range s.Lhs {
			l = append(l, exprString(e))
		}
		for _, e := range s.Rhs {
			r = append(r, exprString(e))
		}
		return strings.Join(l, ", ") + " " + s.Tok.String() + " " + strings.Join(r, ", ")
	case *ast.IfStmt:
		init := ""
		if s.Init != nil {
			init = stmtString(s.Init) + "; "
		}
		return "if " + init + exprString(s.Cond)
	case *ast.ReturnStmt:
		r := []string{}
		for _, e := range s.Results {
			r = append(r, exprString(e))
		}
		return "return " + strings.Join(r, ", ")
	case *ast.DeferStmt:
		return "defer " + exprString(s.Call)
	case *ast.RangeStmt:
		return "for range " + exprString(s.X)
	}
	return ""
}

func allStmts(fd *ast.FuncDecl) []string {
	out := []string{}
	if fd == nil || fd.Body == nil {
		return out
	}
	ast.Inspect(fd.Body, func(n ast.Node) bool {
		if st, ok := n.(ast.Stmt); ok {
			if s := stmtString(st); s != "" {
				out = append(out, s)
			}
		}
		return true
	})
	return out
}

func anyMatch(l []string, re string) bool {
	r := regexp.MustCompile(re)
	for _, s := range l {
		if r.MatchString(s) {
			return true
		}
	}
	return false
}

// every `for _, v := range …` loop of fd whose body takes `&v` must first copy v (`v := v`),
// unless the module's language version gives each iteration its own variable (go ≥ 1.22)
func loopVarSafe(fd *ast.FuncDecl, perIteration bool) bool {
	if fd == nil || fd.Body == nil {
		return false
	}
	ok := true
	ast.Inspect(fd.Body, func(n ast.Node) bool {
		rs, isRange := n.(*ast.RangeStmt)
		if !isRange || rs.Value == nil {
			return true
		}
		v := exprString(rs.Value)
		takesAddr, copied := false, false
		for _, st := range rs.Body.List {
			if as, isAs := st.(*ast.AssignStmt); isAs && as.Tok == token.DEFINE && len(as.Lhs) == 1 && len(as.Rhs) == 1 &&
				exprString(as.Lhs[0]) == v && exprString(as.Rhs[0]) == v {
				copied = true
			}
		}
		ast.Inspect(rs.Body, func(m ast.Node) bool {
			if u, isU := m.(*ast.UnaryExpr); isU && u.Op == token.AND && exprString(u.X) == v {
				takesAddr = true
			}
			return true
		})
		if takesAddr && !copied && !perIteration {
			ok = false
		}
		return true
	})
	return ok
}

func goModPerIteration() bool {
	b, err := os.ReadFile(filepath.Join(*repo, "go.mod"))
	if err != nil {
		failf("go.mod unreadable")
		return false
	}
	m := regexp.MustCompile(`(?m)^go\s+(\d+)\.(\d+)`).FindStringSubmatch(string(b))
	if m == nil {
		failf("go.mod: no go directive")
		return false
	}
	major, minor := atoiSafe(m[1]), atoiSafe(m[2])
	return major > 1 || (major == 1 && minor >= 22)
}

func atoiSafe(s string) int {
	n := 0
	for _, c := range s {
		n = n*10 + int(c-'0')
	}
	return n
}

func extractShapes() {
	// --- conn.go
	setup := findFunc("wasp/conn.go", "*setupWorker", "setup")
	ps := findFunc("wasp/conn.go", "*connectionWorker", "processSession")
	addFact("recoverInSetup", "Bool", boolLean(hasRecover(setup)), "setupWorker.setup recovers from decoder panics")
	addFact("recoverInProcessSession", "Bool", boolLean(hasRecover(ps)), "connectionWorker.processSession recovers from decoder panics")
	if setup != nil {
		iExt := stmtIndex(setup, func(s string) bool { return s == "session.ExtendDeadline()" })
		iServe := stmtIndex(setup, func(s string) bool { return strings.HasPrefix(s, "go worker.serve(") })
		addFact("keepaliveArmedBeforeServe", "Bool", boolLean(iExt >= 0 && iServe >= 0 && iExt < iServe), "the keep-alive deadline is armed before the session loop starts")
	}
	if sh := findFunc("wasp/conn.go", "*manager", "shutdownSession"); sh != nil {
		st := allStmts(sh)
		addFact("shutdownIdempotent", "Bool", boolLean(anyMatch(st, `^if s\.local\.Delete\(session\.ID\(\)\) == nil$`)), "a second shutdown of the same session is a no-op")
		addFact("shutdownClosesConn", "Bool", boolLean(anyMatch(st, `^session\.Close\(\)$`)), "the connection of an ended session is closed")
		// the only record shutdownSession removes is the session's own (looked up by SESSION id: a look-up by client id may
		// answer with another session's record); the will is withheld when another live record carries mount point + client id
		ownOnly, deletes := true, 0
		for _, x := range st {
			if strings.Contains(x, "SessionMetadatas().Delete(") {
				deletes++
				if x != "s.state.SessionMetadatas().Delete(session.ID())" {
					ownOnly = false
				}
			}
		}
		addFact("shutdownGuardOwnRecordOnly", "Bool", boolLean(ownOnly && deletes == 1 &&
			anyMatch(st, `^if metadata\.SessionID != session\.ID\(\) && metadata\.MountPoint == session\.MountPoint\(\) && metadata\.ClientID == session\.ClientID\(\)$`) &&
			anyMatch(st, `^if reconnected$`)),
			"shutdownSession removes the session's own record only, and withholds the will when another live record carries its mount point and client id")
		addFact("willOnlyIfNotDisconnected", "Bool", boolLean(anyMatch(st, `^if !session\.Disconnected$`)), "the will is published only when the session did not DISCONNECT")
	}
	// --- publish.go
	if fd := findFunc("wasp/publish.go", "*PublishDistributor", "Distribute"); fd != nil {
		st := allStmts(fd)
		addFact("localAppendErrorFails", "Bool", boolLean(anyMatch(st, `^if err := storer\.Storage\.Append\(publish\); err != nil$`) && anyMatch(st, `^failed = true$`)), "a failed local Append makes Distribute fail")
	}
	// --- packets.go: the acknowledgement callback runs only on the err == nil branch
	if fd := findFunc("wasp/packets.go", "*packetProcessor", "Run"); fd != nil {
		okShape := false
		ast.Inspect(fd.Body, func(n ast.Node) bool {
			is, ok := n.(*ast.IfStmt)
			if !ok || exprString(is.Cond) != "err != nil" || is.Else == nil {
				return true
			}
			inThen, inElse := false, false
			ast.Inspect(is.Body, func(m ast.Node) bool {
				if c, ok := m.(*ast.CallExpr); ok && exprString(c.Fun) == "in.cb" {
					inThen = true
				}
				return true
			})
			ast.Inspect(is.Else, func(m ast.Node) bool {
				if c, ok := m.(*ast.CallExpr); ok && exprString(c.Fun) == "in.cb" {
					inElse = true
				}
				return true
			})
			if inElse && !inThen {
				okShape = true
			}
			return true
		})
		addFact("ackCallbackOnlyOnSuccess", "Bool", boolLean(okShape), "the publish worker invokes the acknowledgement callback only when Distribute returned no error")
	}
	// --- ack/queue.go: the packet type is checked before the entry is deleted
	if fd := findFunc("wasp/ack/queue.go", "*queue", "Ack"); fd != nil {
		st := allStmts(fd)
		iGet, iCmp, iDel := -1, -1, -1
		for i, s := range st {
			if iGet < 0 && strings.Contains(s, "q.msg.Get(k)") {
				iGet = i
			}
			if iCmp < 0 && strings.Contains(s, "!= pkt.Type()") {
				iCmp = i
			}
			if iDel < 0 && strings.Contains(s, "q.msg.Delete(k)") {
				iDel = i
			}
		}
		addFact("ackTypeCheckedBeforeDelete", "Bool", boolLean(iGet >= 0 && iCmp > iGet && iDel > iCmp), "Ack compares the packet type before it removes the entry")
	}
	// --- ack/queue.go: the atomic-step decomposition the C20 resolution machine assumes
	if fd := findFunc("wasp/ack/queue.go", "*queue", "Ack"); fd != nil {
		st := allStmts(fd)
		iDel, iGuard, iCb := -1, -1, -1
		for i, s := range st {
			if iDel < 0 && strings.Contains(s, "= q.msg.Delete(k)") {
				iDel = i
			}
			if iDel >= 0 && iGuard < 0 && s == "if !ok" && i > iDel {
				iGuard = i
			}
			if strings.HasPrefix(s, "msg.callback(") {
				iCb = i
			}
		}
		addFact("ackFiresOnlyIfClaimed", "Bool", boolLean(iDel >= 0 && iGuard > iDel && iCb > iGuard), "Ack returns unless its Delete succeeded, before it fires the callback")
	}
	if fd := findFunc("wasp/ack/queue.go", "*queue", "Expire"); fd != nil {
		okShape := false
		ast.Inspect(fd.Body, func(n ast.Node) bool {
			is, ok := n.(*ast.IfStmt)
			if ok && exprString(is.Cond) == "ok" {
				ast.Inspect(is.Body, func(m ast.Node) bool {
					if c, ok := m.(*ast.CallExpr); ok && exprString(c.Fun) == "msg.callback" {
						okShape = true
					}
					return true
				})
			}
			return true
		})
		cbOutside := false
		for _, s := range fd.Body.List {
			if strings.HasPrefix(stmtString(s), "msg.callback(") {
				cbOutside = true
			}
		}
		addFact("expireFiresOnlyIfClaimed", "Bool", boolLean(okShape && !cbOutside && anyMatch(allStmts(fd), `q\.msg\.Delete\(key\)`)), "Expire fires the callback only inside `if ok` of its Delete")
	}
	if fd := findFunc("wasp/ack/queue.go", "*queue", "push"); fd != nil {
		st := allStmts(fd)
		iPut, iIns := -1, -1
		for i, s := range st {
			if iPut < 0 && strings.Contains(s, "!q.msg.PutIfMissing(k, msg)") {
				iPut = i
			}
			if iIns < 0 && strings.HasPrefix(s, "q.timeouts.Insert(") {
				iIns = i
			}
		}
		addFact("insertIsPutIfMissingThenTimer", "Bool", boolLean(iPut >= 0 && iIns > iPut), "push registers with PutIfMissing and inserts the timer only afterwards")
	}
	// --- nodes.go: wills of a failed node's sessions are published inside their mount point
	if fd := findFunc("wasp/nodes.go", "*nodeMemberManager", "NotifyGossipLeave"); fd != nil {
		pref := false
		ast.Inspect(fd.Body, func(n ast.Node) bool {
			if kv, ok := n.(*ast.KeyValueExpr); ok && exprString(kv.Key) == "Topic" && strings.Contains(exprString(kv.Value), "session.MountPoint") {
				pref = true
			}
			return true
		})
		addFact("nodeFailureWillPrefixed", "Bool", boolLean(pref), "NotifyGossipLeave prefixes the will topic with the session's mount point")
	}
	// --- distributed: bulk operations and dumps carry one distinct entry per element
	per := goModPerIteration()
	addFact("loopVarPerIteration", "Bool", boolLean(per), "go.mod language version gives each loop iteration its own variable (go >= 1.22)")
	safe := true
	for _, f := range [][3]string{
		{"wasp/distributed/sessions.go", "*sessionMetadatasState", "dump"},
		{"wasp/distributed/sessions.go", "*sessionMetadatasState", "DeletePeer"},
		{"wasp/distributed/subscriptions.go", "*subscriptionsState", "dump"},
		{"wasp/distributed/subscriptions.go", "*subscriptionsState", "DeletePeer"},
		{"wasp/distributed/subscriptions.go", "*subscriptionsState", "DeleteSession"},
	} {
		if !loopVarSafe(findFunc(f[0], f[1], f[2]), per) {
			safe = false
		}
	}
	addFact("bulkEventsCarryDistinctEntries", "Bool", boolLean(safe), "no broadcast/snapshot loop appends the address of a shared loop variable")
	// dumps include removed entries (no detour through All())
	dumpAll := false
	for _, f := range [][3]string{{"wasp/distributed/sessions.go", "*sessionMetadatasState", "dump"}, {"wasp/distributed/subscriptions.go", "*subscriptionsState", "dump"}} {
		if fd := findFunc(f[0], f[1], f[2]); fd != nil {
			if anyMatch(allStmts(fd), `s\.All\(\)`) {
				dumpAll = true
			}
		}
	}
	addFact("snapshotsIncludeTombstones", "Bool", boolLean(!dumpAll), "full-state dumps iterate the stored entries, not the filtered listing")
	// --- packets.go: inbound QoS 2 handshakes live in their own key space
	if fd := findFunc("wasp/packets.go", "", "inboundPrefix"); fd != nil {
		addFact("inboundHandshakesOwnKeySpace", "Bool", boolLean(anyMatch(allStmts(fd), `^return session\.ID\(\) \+ "/in"$`)), "client-chosen ids are keyed apart from broker-chosen ids")
	}
	// --- writer.go: ExpireAt / deliveries skip sessions that are not registered
	if fd := findFunc("wasp/writer.go", "*writer", "send"); fd != nil {
		addFact("writerSkipsUnregistered", "Bool", boolLean(anyMatch(allStmts(fd), `^if session != nil$`)), "send writes only to sessions present in the local registry")
	}
}

package main

import (
	"fmt"
	"go/ast"
	"go/token"
	"sort"
	"strings"
)

// Lock discipline table for C20: for every shared structure of the property's file list, every access to a guarded
// field in every method, with the locks held at that point. Emitted as Wasp/Generated/LockTable.lean and checked in Lean
// (`tableDisciplined … = true` by `decide`).

type lockSpec struct {
	file, recv, lock, name string
	guarded              []string
	mutators             []string // methods of a guarded field's value that modify it
}

var lockSpecs = []lockSpec{
	{"wasp/state.go", "*lockedMapState", "mtx", "registry", []string{"sessions"}, nil},
	{"wasp/idpool.go", "*simpleMidPool", "mtx", "idpool", []string{"intervals"}, nil},
	{"wasp/expiration/pqueue.go", "*pqList", "mtx", "pqlist", []string{"pq", "buckets"}, []string{"put", "delete", "Push", "Pop"}},
	{"wasp/expiration/bucket.go", "*bucket", "mtx", "bucket", []string{"data"}, nil},
	{"topics/tree.go", "*tree", "mtx", "rettree", []string{"root"}, []string{"insert", "remove"}},
	{"subscriptions/node.go", "*tree", "mtx", "subtree", []string{"root"}, []string{"update"}},
	{"wasp/distributed/sessions.go", "*sessionMetadatasState", "mu", "dsessions", []string{"sessions"}, nil},
	{"wasp/distributed/subscriptions.go", "*subscriptionsState", "mu", "dsubs", []string{"subscriptions"}, []string{"Upsert", "Load"}},
	{"wasp/distributed/topics.go", "*topicsState", "mu", "dtopics", []string{"tree"}, []string{"Insert", "Remove", "Load"}},
	{"wasp/sessions/session.go", "*Session", "mtx", "sessiontopics", []string{"topics"}, nil},
}

type lockEntry struct {
	loc, method string
	write       bool
	held        []string // "lock:mode"
}

type methodInfo struct {
	fd       *ast.FuncDecl
	recvName string
	accesses []lockEntry // with held = own-lock state at the access ("" none)
	calls    map[string][]string // helper name -> lock states at call sites
	usesLock bool
}

func recvIdent(fd *ast.FuncDecl) string {
	if fd.Recv == nil || len(fd.Recv.List) != 1 || len(fd.Recv.List[0].Names) != 1 {
		return ""
	}
	return fd.Recv.List[0].Names[0].Name
}

// lockCall recognises recv.lock.{Lock,RLock,Unlock,RUnlock}()
func lockCall(e ast.Expr, recv, lock string) string {
	c, ok := e.(*ast.CallExpr)
	if !ok {
		return ""
	}
	sel, ok := c.Fun.(*ast.SelectorExpr)
	if !ok {
		return ""
	}
	if exprString(sel.X) != recv+"."+lock {
		return ""
	}
	return sel.Sel.Name
}

func analyseMethod(spec lockSpec, fd *ast.FuncDecl, helperNames map[string]bool) (*methodInfo, error) {
	mi := &methodInfo{fd: fd, recvName: recvIdent(fd), calls: map[string][]string{}}
	state := ""
	var walkAccesses func(n ast.Node, st string)
	walkAccesses = func(n ast.Node, st string) {
		// assignment targets are writes
		writes := map[ast.Expr]bool{}
		ast.Inspect(n, func(x ast.Node) bool {
			switch a := x.(type) {
			case *ast.AssignStmt:
				for _, l := range a.Lhs {
					base := l
					for {
						if ix, ok := base.(*ast.IndexExpr); ok {
							base = ix.X
						} else if sl, ok := base.(*ast.SliceExpr); ok {
							base = sl.X
						} else {
							break
						}
					}
					writes[base] = true
					// field of an element: m.intervals[0].from = …
					if se, ok := base.(*ast.SelectorExpr); ok {
						inner := se.X
						for {
							if ix, ok := inner.(*ast.IndexExpr); ok {
								inner = ix.X
							} else {
								break
							}
						}
						writes[inner] = true
					}
				}
			case *ast.IncDecStmt:
				base := a.X
				if se, ok := base.(*ast.SelectorExpr); ok {
					inner := se.X
					for {
						if ix, ok := inner.(*ast.IndexExpr); ok {
							inner = ix.X
						} else {
							break
						}
					}
					writes[inner] = true
				}
				writes[base] = true
			case *ast.CallExpr:
				if id, ok := a.Fun.(*ast.Ident); ok && id.Name == "delete" && len(a.Args) > 0 {
					writes[a.Args[0]] = true
				}
				// heap.Push(&pq.pq, …) / heap.Pop(&pq.pq)
				if fn := exprString(a.Fun); (fn == "heap.Push" || fn == "heap.Pop" || fn == "heap.Init") && len(a.Args) > 0 {
					if u, ok := a.Args[0].(*ast.UnaryExpr); ok && u.Op == token.AND {
						writes[u.X] = true
					}
				}
				// mutating method on a guarded field's value
				if sel, ok := a.Fun.(*ast.SelectorExpr); ok {
					for _, m := range spec.mutators {
						if sel.Sel.Name == m {
							writes[sel.X] = true
						}
					}
				}
			}
			return true
		})
		ast.Inspect(n, func(x ast.Node) bool {
			if c, ok := x.(*ast.CallExpr); ok {
				if sel, ok := c.Fun.(*ast.SelectorExpr); ok && exprString(sel.X) == mi.recvName && helperNames[sel.Sel.Name] {
					mi.calls[sel.Sel.Name] = append(mi.calls[sel.Sel.Name], st)
				}
			}
			// taking a timestamp is part of the critical section of the replicated stores: the order of the stamps must
			// be the order in which the updates are applied (a stamp read before the lock is taken can be overtaken)
			if c, ok := x.(*ast.CallExpr); ok && strings.HasPrefix(spec.name, "d") {
				if id, ok := c.Fun.(*ast.Ident); ok && id.Name == "clock" {
					mi.accesses = append(mi.accesses, lockEntry{loc: spec.name + ".stamp", method: fd.Name.Name, write: true, held: []string{st}})
				}
			}
			se, ok := x.(*ast.SelectorExpr)
			if !ok || exprString(se.X) != mi.recvName {
				return true
			}
			for _, g := range spec.guarded {
				if se.Sel.Name == g {
					mi.accesses = append(mi.accesses, lockEntry{loc: spec.name + "." + g, method: fd.Name.Name, write: writes[se], held: []string{st}})
				}
			}
			return true
		})
	}
	for _, st := range fd.Body.List {
		switch s := st.(type) {
		case *ast.ExprStmt:
			switch lockCall(s.X, mi.recvName, spec.lock) {
			case "Lock":
				state, mi.usesLock = "W", true
				continue
			case "RLock":
				state, mi.usesLock = "R", true
				continue
			case "Unlock", "RUnlock":
				state = ""
				continue
			}
		case *ast.DeferStmt:
			if k := lockCall(s.Call, mi.recvName, spec.lock); k == "Unlock" || k == "RUnlock" {
				continue // held until the method returns
			}
		}
		// a nested Lock/Unlock of this lock is beyond this analysis
		nested := false
		ast.Inspect(st, func(x ast.Node) bool {
			if e, ok := x.(ast.Expr); ok && lockCall(e, mi.recvName, spec.lock) != "" {
				nested = true
			}
			return true
		})
		if nested {
			return nil, fmt.Errorf("%s %s.%s: lock operations inside nested statements", spec.file, spec.recv, fd.Name.Name)
		}
		walkAccesses(st, state)
	}
	return mi, nil
}

func extractLockTable() string {
	entries := []lockEntry{}
	for _, spec := range lockSpecs {
		p := parse(spec.file)
		if p == nil {
			continue
		}
		methods := []*ast.FuncDecl{}
		for _, d := range p.file.Decls {
			fd, ok := d.(*ast.FuncDecl)
			if !ok || fd.Recv == nil || fd.Body == nil || len(fd.Recv.List) != 1 || exprString(fd.Recv.List[0].Type) != spec.recv {
				continue
			}
			if fd.Name.Name == "String" || fd.Name.Name == "ExtractKey" || fd.Name.Name == "Less" {
				continue
			}
			methods = append(methods, fd)
		}
		if len(methods) == 0 {
			failf("lock table: no methods found for %s %s", spec.file, spec.recv)
			continue
		}
		// helpers = methods that never touch the lock themselves
		helper := map[string]bool{}
		for _, fd := range methods {
			touches := false
			ast.Inspect(fd.Body, func(x ast.Node) bool {
				if e, ok := x.(ast.Expr); ok && lockCall(e, recvIdent(fd), spec.lock) != "" {
					touches = true
				}
				return true
			})
			if !touches {
				helper[fd.Name.Name] = true
			}
		}
		infos := map[string]*methodInfo{}
		for _, fd := range methods {
			mi, err := analyseMethod(spec, fd, helper)
			if err != nil {
				failf("lock table: %v", err)
				continue
			}
			infos[fd.Name.Name] = mi
		}
		// lock state under which each helper runs = the weakest state over its call sites (transitively)
		helperState := map[string]string{}
		var resolve func(h string, depth int) string
		resolve = func(h string, depth int) string {
			if v, ok := helperState[h]; ok {
				return v
			}
			if depth > 6 {
				return ""
			}
			states := []string{}
			for name, mi := range infos {
				for _, st := range mi.calls[h] {
					if helper[name] {
						st = resolve(name, depth+1)
					}
					states = append(states, st)
				}
			}
			res := "W"
			if len(states) == 0 {
				res = "uncalled"
			}
			for _, st := range states {
				if st == "" {
					res = ""
				} else if st == "R" && res == "W" {
					res = "R"
				}
			}
			helperState[h] = res
			return res
		}
		for name, mi := range infos {
			for _, a := range mi.accesses {
				st := a.held[0]
				if helper[name] {
					st = resolve(name, 0)
					if st == "uncalled" {
						continue // e.g. an unexported helper only reachable from tests
					}
				}
				held := []string{}
				if st != "" {
					held = append(held, spec.name+":"+st)
				}
				entries = append(entries, lockEntry{loc: a.loc, method: spec.name + "." + name, write: a.write, held: held})
			}
		}
	}
	// bucket.data is protected jointly by the list lock and the bucket lock: add the list-lock context of the call sites
	entries = addBucketContext(entries)
	// de-duplicate, sort
	seen := map[string]bool{}
	out := []lockEntry{}
	for _, e := range entries {
		sort.Strings(e.held)
		k := fmt.Sprintf("%s|%s|%v|%s", e.loc, e.method, e.write, strings.Join(e.held, ","))
		if !seen[k] {
			seen[k] = true
			out = append(out, e)
		}
	}
	sort.Slice(out, func(i, j int) bool {
		if out[i].loc != out[j].loc {
			return out[i].loc < out[j].loc
		}
		if out[i].method != out[j].method {
			return out[i].method < out[j].method
		}
		return !out[i].write && out[j].write
	})
	var b strings.Builder
	b.WriteString("-- GENERATED by /verif/extract from the Go sources of /repo on every check run. Do not edit.\nimport Wasp.Model.Conc\nnamespace Wasp.Generated\nopen Wasp.Conc\n\n")
	b.WriteString("/-- (location, method, write?, locks held with their mode) for every access to a guarded field -/\ndef lockTable : List (String × String × Bool × List (String × Mode)) := [\n")
	for i, e := range out {
		held := []string{}
		for _, h := range e.held {
			parts := strings.Split(h, ":")
			mode := ".shared"
			if parts[1] == "W" {
				mode = ".exclusive"
			}
			held = append(held, fmt.Sprintf("(\"%s\", %s)", parts[0], mode))
		}
		sep := ","
		if i == len(out)-1 {
			sep = ""
		}
		fmt.Fprintf(&b, "  (\"%s\", \"%s\", %v, [%s])%s\n", e.loc, e.method, e.write, strings.Join(held, ", "), sep)
	}
	b.WriteString("]\n\nend Wasp.Generated\n")
	return b.String()
}

// addBucketContext: bucket.put / bucket.delete run under the pqList lock of their call sites; pqList.Expire reads
// `….data` of popped buckets directly. The skip-list implementation (not used by the broker) is ignored.
func addBucketContext(entries []lockEntry) []lockEntry {
	p := parse("wasp/expiration/pqueue.go")
	if p == nil {
		return entries
	}
	ctx := map[string][]string{} // bucket method -> pqList lock states at call sites
	direct := []lockEntry{}
	for _, d := range p.file.Decls {
		fd, ok := d.(*ast.FuncDecl)
		if !ok || fd.Recv == nil || fd.Body == nil || exprString(fd.Recv.List[0].Type) != "*pqList" {
			continue
		}
		recv := recvIdent(fd)
		state := ""
		for _, st := range fd.Body.List {
			if es, ok := st.(*ast.ExprStmt); ok {
				switch lockCall(es.X, recv, "mtx") {
				case "Lock":
					state = "W"
					continue
				case "RLock":
					state = "R"
					continue
				case "Unlock", "RUnlock":
					state = ""
					continue
				}
			}
			ast.Inspect(st, func(x ast.Node) bool {
				if c, ok := x.(*ast.CallExpr); ok {
					if sel, ok := c.Fun.(*ast.SelectorExpr); ok && (sel.Sel.Name == "put" || sel.Sel.Name == "delete") && exprString(sel.X) != recv {
						ctx[sel.Sel.Name] = append(ctx[sel.Sel.Name], state)
					}
				}
				if se, ok := x.(*ast.SelectorExpr); ok && se.Sel.Name == "data" && exprString(se.X) != recv {
					held := []string{}
					if state != "" {
						held = append(held, "pqlist:"+state)
					}
					direct = append(direct, lockEntry{loc: "bucket.data", method: "pqlist." + fd.Name.Name, write: false, held: held})
				}
				return true
			})
		}
	}
	out := []lockEntry{}
	for _, e := range entries {
		if e.loc == "bucket.data" && (e.method == "bucket.put" || e.method == "bucket.delete") {
			name := strings.TrimPrefix(e.method, "bucket.")
			states := ctx[name]
			if len(states) == 0 {
				out = append(out, e)
				continue
			}
			for _, st := range states {
				ne := lockEntry{loc: e.loc, method: e.method, write: e.write, held: append([]string{}, e.held...)}
				if st != "" {
					ne.held = append(ne.held, "pqlist:"+st)
				}
				out = append(out, ne)
			}
			continue
		}
		out = append(out, e)
	}
	return append(out, direct...)
}

// waspextract regenerates lean/Wasp/Generated/*.lean from the Go sources of
// vx-labs/wasp on every check run:
//
//   - Translated.lean : Lean definitions translated from the bodies of small pure
//     Go functions (a Go subset: :=, if/return, comparisons, arithmetic, slicing,
//     a few calls). Theorems are stated over these definitions, so changing an
//     operator in the Go source changes what the kernel is asked to check.
//   - Facts.lean : constants and syntactic shapes the hand-written models rely on.
//
// A pattern that cannot be found is an error (exit 1): the tie is broken, never
// silently defaulted.
package main

import (
	"flag"
	"fmt"
	"go/ast"
	"go/parser"
	"go/token"
	"os"
	"path/filepath"
	"sort"
	"strings"
)

var repo = flag.String("repo", "/repo", "repository root")
var outDir = flag.String("out", "", "output directory (lean/Wasp/Generated)")

var failures []string

func failf(format string, a ...interface{}) {
	msg := fmt.Sprintf(format, a...)
	for _, f := range failures {
		if f == msg {
			return // an expression that is translated twice is reported once
		}
	}
	failures = append(failures, msg)
}

type parsed struct {
	fset *token.FileSet
	file *ast.File
}

var cache = map[string]*parsed{}

func parse(rel string) *parsed {
	if p, ok := cache[rel]; ok {
		return p
	}
	fset := token.NewFileSet()
	f, err := parser.ParseFile(fset, filepath.Join(*repo, rel), nil, parser.ParseComments)
	if err != nil {
		failf("cannot parse %s: %v", rel, err)
		cache[rel] = nil
		return nil
	}
	p := &parsed{fset, f}
	cache[rel] = p
	return p
}

func findFunc(rel, recv, name string) *ast.FuncDecl {
	p := parse(rel)
	if p == nil {
		return nil
	}
	for _, d := range p.file.Decls {
		fd, ok := d.(*ast.FuncDecl)
		if !ok || fd.Name.Name != name {
			continue
		}
		r := ""
		if fd.Recv != nil && len(fd.Recv.List) == 1 {
			r = exprString(fd.Recv.List[0].Type)
		}
		if r == recv {
			return fd
		}
	}
	failf("function %s %s.%s not found", rel, recv, name)
	return nil
}

func exprString(e ast.Expr) string {
	switch x := e.(type) {
	case *ast.Ident:
		return x.Name
	case *ast.StarExpr:
		return "*" + exprString(x.X)
	case *ast.SelectorExpr:
		return exprString(x.X) + "." + x.Sel.Name
	case *ast.BasicLit:
		return x.Value
	case *ast.CallExpr:
		args := []string{}
		for _, a := range x.Args {
			args = append(args, exprString(a))
		}
		return exprString(x.Fun) + "(" + strings.Join(args, ", ") + ")"
	case *ast.BinaryExpr:
		return exprString(x.X) + " " + x.Op.String() + " " + exprString(x.Y)
	case *ast.UnaryExpr:
		return x.Op.String() + exprString(x.X)
	case *ast.ParenExpr:
		return "(" + exprString(x.X) + ")"
	case *ast.IndexExpr:
		return exprString(x.X) + "[" + exprString(x.Index) + "]"
	case *ast.SliceExpr:
		lo, hi := "", ""
		if x.Low != nil {
			lo = exprString(x.Low)
		}
		if x.High != nil {
			hi = exprString(x.High)
		}
		return exprString(x.X) + "[" + lo + ":" + hi + "]"
	case *ast.CompositeLit:
		return exprString(x.Type) + "{…}"
	case *ast.ArrayType:
		return "[]" + exprString(x.Elt)
	case *ast.FuncLit:
		return "func{…}"
	case *ast.TypeAssertExpr:
		return exprString(x.X) + ".(" + exprString(x.Type) + ")"
	case *ast.KeyValueExpr:
		return exprString(x.Key) + ": " + exprString(x.Value)
	case *ast.MapType:
		return "map[" + exprString(x.Key) + "]" + exprString(x.Value)
	case *ast.ChanType:
		return "chan " + exprString(x.Value)
	case *ast.InterfaceType:
		return "interface{}"
	}
	return fmt.Sprintf("<%T>", e)
}

// ---------------------------------------------------------------- translator

type trans struct {
	rel     string
	consts  map[string]string // Go identifier -> Lean term
	methods map[string]string // method name -> Lean function applied to receiver
	funcs   map[string]string // Go function name -> Lean function name
	results []string          // per result: "val" | "optslice"
}

var leanKeywords = map[string]bool{"end": true, "from": true, "at": true, "open": true, "in": true, "do": true, "then": true, "else": true, "fun": true, "let": true, "have": true, "show": true, "where": true, "with": true, "local": true, "new": true}

func leanIdent(s string) string {
	if leanKeywords[s] {
		return s + "_"
	}
	return s
}

func (t *trans) expr(e ast.Expr) string {
	switch x := e.(type) {
	case *ast.Ident:
		if v, ok := t.consts[x.Name]; ok {
			return v
		}
		if x.Name == "true" || x.Name == "false" {
			return x.Name
		}
		return leanIdent(x.Name)
	case *ast.BasicLit:
		if x.Kind == token.INT {
			return "(" + x.Value + " : Int)"
		}
		if x.Kind == token.CHAR {
			return x.Value
		}
		if x.Kind == token.STRING {
			return x.Value
		}
	case *ast.ParenExpr:
		return "(" + t.expr(x.X) + ")"
	case *ast.UnaryExpr:
		if x.Op == token.NOT {
			return "(!" + t.expr(x.X) + ")"
		}
		if x.Op == token.SUB {
			return "(-" + t.expr(x.X) + ")"
		}
	case *ast.BinaryExpr:
		op := map[token.Token]string{token.LAND: "&&", token.LOR: "||", token.LSS: "<", token.LEQ: "≤", token.GTR: ">", token.GEQ: "≥",
			token.EQL: "==", token.NEQ: "!=", token.ADD: "+", token.SUB: "-", token.MUL: "*", token.REM: "%", token.QUO: "/"}[x.Op]
		if op == "" {
			break
		}
		// comparison against nil
		if id, ok := x.Y.(*ast.Ident); ok && id.Name == "nil" {
			if x.Op == token.EQL {
				return "(Go.isNil " + t.expr(x.X) + ")"
			}
			if x.Op == token.NEQ {
				return "(!Go.isNil " + t.expr(x.X) + ")"
			}
		}
		l, r := t.expr(x.X), t.expr(x.Y)
		switch x.Op {
		case token.LSS, token.LEQ, token.GTR, token.GEQ:
			return "(decide (" + l + " " + op + " " + r + "))"
		}
		return "(" + l + " " + op + " " + r + ")"
	case *ast.SliceExpr:
		base := t.expr(x.X)
		switch {
		case x.Low != nil && x.High == nil:
			return "(Go.sliceFrom " + base + " " + t.expr(x.Low) + ")"
		case x.Low == nil && x.High != nil:
			return "(Go.sliceTo " + base + " " + t.expr(x.High) + ")"
		case x.Low != nil && x.High != nil:
			return "(Go.slice " + base + " " + t.expr(x.Low) + " " + t.expr(x.High) + ")"
		}
		return base
	case *ast.CallExpr:
		fn := exprString(x.Fun)
		args := []string{}
		for _, a := range x.Args {
			args = append(args, t.expr(a))
		}
		switch fn {
		case "string", "Topic", "format.Topic", "[]byte", "byte", "int64", "uint64", "int":
			return args[0]
		case "bytes.IndexByte":
			return "(Go.indexByte " + strings.Join(args, " ") + ")"
		case "len":
			return "(Go.len " + args[0] + ")"
		}
		if sel, ok := x.Fun.(*ast.SelectorExpr); ok {
			if m, ok := t.methods[sel.Sel.Name]; ok && len(args) == 0 {
				return "(" + m + " " + t.expr(sel.X) + ")"
			}
		}
		if id, ok := x.Fun.(*ast.Ident); ok {
			if f, ok := t.funcs[id.Name]; ok {
				return "(" + f + " " + strings.Join(args, " ") + ")"
			}
		}
	}
	failf("%s: untranslatable expression %s", t.rel, exprString(e))
	return "sorryUntranslatable"
}

func (t *trans) ret(rs []ast.Expr) string {
	parts := []string{}
	for i, r := range rs {
		kind := "val"
		if i < len(t.results) {
			kind = t.results[i]
		}
		if kind == "optslice" {
			if id, ok := r.(*ast.Ident); ok && id.Name == "nil" {
				parts = append(parts, "none")
			} else {
				parts = append(parts, "(some "+t.expr(r)+")")
			}
		} else {
			parts = append(parts, t.expr(r))
		}
	}
	if len(parts) == 1 {
		return parts[0]
	}
	return "(" + strings.Join(parts, ", ") + ")"
}

func (t *trans) block(stmts []ast.Stmt, indent string) string {
	if len(stmts) == 0 {
		failf("%s: function body falls off the end", t.rel)
		return indent + "sorryNoReturn"
	}
	switch s := stmts[0].(type) {
	case *ast.ReturnStmt:
		return indent + t.ret(s.Results)
	case *ast.AssignStmt:
		if s.Tok == token.DEFINE && len(s.Lhs) == len(s.Rhs) {
			out := ""
			for i := range s.Lhs {
				out += indent + "let " + leanIdent(exprString(s.Lhs[i])) + " := " + t.expr(s.Rhs[i]) + "\n"
			}
			return out + t.block(stmts[1:], indent)
		}
	case *ast.IfStmt:
		if s.Init == nil {
			thenB := t.block(s.Body.List, indent+"  ")
			var elseB string
			if s.Else != nil {
				if eb, ok := s.Else.(*ast.BlockStmt); ok {
					elseB = t.block(eb.List, indent+"  ")
				} else if ei, ok := s.Else.(*ast.IfStmt); ok {
					elseB = t.block([]ast.Stmt{ei}, indent+"  ")
				}
			} else {
				elseB = t.block(stmts[1:], indent+"  ")
			}
			return indent + "if " + t.expr(s.Cond) + " then\n" + thenB + "\n" + indent + "else\n" + elseB
		}
	}
	failf("%s: untranslatable statement at %T", t.rel, stmts[0])
	return indent + "sorryStmt"
}

type fnSpec struct {
	rel, recv, name string
	leanName, sig   string
	results         []string
}

func translate(t *trans, specs []fnSpec) string {
	var b strings.Builder
	for _, s := range specs {
		fd := findFunc(s.rel, s.recv, s.name)
		if fd == nil || fd.Body == nil {
			continue
		}
		t.rel = s.rel + ":" + s.name
		t.results = s.results
		fmt.Fprintf(&b, "/-- translated from %s func %s -/\ndef %s %s :=\n%s\n\n", s.rel, s.name, s.leanName, s.sig, t.block(fd.Body.List, "  "))
	}
	return b.String()
}

// ---------------------------------------------------------------- facts

type fact struct{ name, typ, val, doc string }

var facts []fact

func addFact(name, typ, val, doc string) { facts = append(facts, fact{name, typ, val, doc}) }

// findAll walks a function body and returns the source text of every node for which pick returns a non-empty string.
func collect(n ast.Node, pick func(ast.Node) string) []string {
	out := []string{}
	if n == nil {
		return out
	}
	ast.Inspect(n, func(x ast.Node) bool {
		if x == nil {
			return false
		}
		if s := pick(x); s != "" {
			out = append(out, s)
		}
		return true
	})
	return out
}

// intTimesSecond recognises  <k> * time.Second  and returns k.
func intTimesSecond(e ast.Expr) string {
	b, ok := e.(*ast.BinaryExpr)
	if !ok || b.Op != token.MUL {
		return ""
	}
	if exprString(b.Y) == "time.Second" {
		if l, ok := b.X.(*ast.BasicLit); ok {
			return l.Value
		}
	}
	return ""
}

func main() {
	flag.Parse()
	if *outDir == "" {
		fmt.Fprintln(os.Stderr, "-out required")
		os.Exit(2)
	}
	// ---- translated functions
	tr := &trans{
		consts:  map[string]string{"SEP": "'/'"},
		methods: map[string]string{"GetLastAdded": "Go.getLastAdded", "GetLastDeleted": "Go.getLastDeleted"},
		funcs:   map[string]string{"GetLastEntryUpdate": "getLastEntryUpdate", "IsEntryAdded": "isEntryAdded", "IsEntryRemoved": "isEntryRemoved"},
	}
	// SEP must still be '/'
	if p := parse("wasp/format/topic.go"); p != nil {
		ok := false
		ast.Inspect(p.file, func(n ast.Node) bool {
			if vs, isv := n.(*ast.ValueSpec); isv && len(vs.Names) == 1 && vs.Names[0].Name == "SEP" && len(vs.Values) == 1 {
				if exprString(vs.Values[0]) == "byte('/')" {
					ok = true
				} else {
					failf("format.SEP is %s, expected byte('/')", exprString(vs.Values[0]))
				}
			}
			return true
		})
		if !ok {
			failf("format.SEP = byte('/') not found")
		}
	}
	body := translate(tr, []fnSpec{
		{"crdt/entry.go", "", "IsEntryAdded", "isEntryAdded", "(s : Option Go.Stamp) : Bool", nil},
		{"crdt/entry.go", "", "IsEntryRemoved", "isEntryRemoved", "(s : Option Go.Stamp) : Bool", nil},
		{"crdt/entry.go", "", "GetLastEntryUpdate", "getLastEntryUpdate", "(s : Option Go.Stamp) : Int", nil},
		{"crdt/entry.go", "", "IsEntryOutdated", "isEntryOutdated", "(s remote : Option Go.Stamp) : Bool", nil},
		{"wasp/format/topic.go", "Topic", "Next", "topicNext", "(t : List Char) : Option (List Char) × List Char", []string{"optslice", "val"}},
		{"wasp/sessions/session.go", "", "trimMountPoint", "trimMountPoint", "(mountPoint : List Char) (t : List Char) : List Char", nil},
	})
	// ---- literal (imperative) translations
	idPoolLit := translateImperative("wasp/idpool.go", "Wasp.Generated.IdPoolLit", false, []impSpec{
		{recvType: "simpleMidPool", goName: "Get", leanName: "get"},
		{recvType: "simpleMidPool", goName: "Put", leanName: "put"},
	})
	bucketLit := translateImperative("wasp/expiration/bucket.go", "Wasp.Generated.BucketLit", true, []impSpec{
		{recvType: "bucket", goName: "put", leanName: "put"},
		{recvType: "bucket", goName: "delete", leanName: "delete", fuel: "len(b.data)"},
	})
	// the credential stores. fingerprintBytes (hex SHA-256, hash.go) stays abstract: a parameter of the
	// definitions; fingerprintString is inlined from hash.go; randomID() only fills Principal.ID, which is
	// left out. FileHandler is translated from `out := make(…)` on: the csv reading before it is outside
	// the subset, its result `records` ([][]string, encoding/csv's ReadAll) is the input.
	authLit := translateImperativeCfg(impConfig{
		rel: "wasp/auth/file.go", namespace: "Wasp.Generated.AuthLit", ext: true,
		externs:    []impExtern{{name: "fingerprintBytes"}, {name: "randomID", nondet: true}},
		dropFields: []string{"Principal.ID"},
	}, []impSpec{
		{recvType: "fileHandler", goName: "Authenticate", leanName: "fileAuthenticate", fuel: "len(h.db)"},
		{recvType: "staticHandler", goName: "Authenticate", leanName: "staticAuthenticate", file: "wasp/auth/static.go"},
		{goName: "FileHandler", leanName: "fileHandlerLoad", fuel: "len(records)",
			frag: &impFrag{inputs: []impField{{"records", "[][]string"}}, first: "out", results: []string{"fileHandler", "error"}}},
		{goName: "StaticHandler", leanName: "staticHandlerNew", file: "wasp/auth/static.go",
			frag: &impFrag{results: []string{"staticHandler", "error"}}},
	})
	// the per-session filter list. The view of Session is its `topics` field only (the connection, the
	// will, the identifiers are outside the subset and never touched by the two methods); a filter
	// ([]byte) is an immutable value rendered as List Char, like the topics of Translated.lean.
	sessionLit := translateImperativeCfg(impConfig{
		rel: "wasp/sessions/session.go", namespace: "Wasp.Generated.SessionLit", ext: true,
		byteElems: true, bytesLean: "List Char",
		dropFields: []string{"Session.id", "Session.conn", "Session.clientID", "Session.mountPoint", "Session.lwt",
			"Session.keepaliveInterval", "Session.Disconnected", "Session.transport"},
	}, []impSpec{
		{recvType: "Session", goName: "AddTopic", leanName: "addTopic", fuel: "len(s.topics)"},
		{recvType: "Session", goName: "RemoveTopic", leanName: "removeTopic", fuel: "len(s.topics)"},
	})
	// the mount-point prefix: here a []byte IS a slice of bytes (made, copied into, written), rendered as
	// List Char like the topics of Translated.lean, and the mount point (a Go string) is the slice of its bytes
	sessionMountLit := translateImperativeCfg(impConfig{
		rel: "wasp/sessions/session.go", namespace: "Wasp.Generated.SessionMountLit", ext: true,
		byteSlices: true, imports: []string{"Wasp.Model.GoPreludeBytes"},
	}, []impSpec{
		{goName: "prefixMountPoint", leanName: "prefixMountPoint", frag: &impFrag{results: []string{"[]char"}}},
	})
	// ---- facts
	extractFacts()
	extractWiring()
	extractHandOver()
	extractAuthWiring()
	if len(failures) > 0 {
		for _, f := range failures {
			fmt.Fprintln(os.Stderr, "extract:", f)
		}
		os.Exit(1)
	}
	header := "-- GENERATED by /verif/extract from the Go sources of /repo on every check run. Do not edit.\n"
	write("Translated.lean", header+"import Wasp.Model.GoPrelude\nnamespace Wasp.Generated\n\n"+body+"end Wasp.Generated\n")
	var fb strings.Builder
	fb.WriteString(header + "namespace Wasp.Generated.Facts\n\n")
	sort.Slice(facts, func(i, j int) bool { return facts[i].name < facts[j].name })
	for _, f := range facts {
		fmt.Fprintf(&fb, "/-- %s -/\ndef %s : %s := %s\n\n", f.doc, f.name, f.typ, f.val)
	}
	fb.WriteString("end Wasp.Generated.Facts\n")
	write("Facts.lean", fb.String())
	lt := extractLockTable()
	if len(failures) > 0 {
		for _, f := range failures {
			fmt.Fprintln(os.Stderr, "extract:", f)
		}
		os.Exit(1)
	}
	write("LockTable.lean", lt)
	write("IdPoolLit.lean", idPoolLit)
	write("BucketLit.lean", bucketLit)
	write("AuthLit.lean", authLit)
	write("SessionLit.lean", sessionLit)
	write("SessionMountLit.lean", sessionMountLit)
	fmt.Printf("extract ok: %d facts\n", len(facts))
}

func write(name, content string) {
	p := filepath.Join(*outDir, name)
	old, err := os.ReadFile(p)
	if err == nil && string(old) == content {
		return // keep mtime: no rebuild
	}
	if err := os.WriteFile(p, []byte(content), 0644); err != nil {
		fmt.Fprintln(os.Stderr, err)
		os.Exit(1)
	}
}

package main

import (
	"go/ast"
	"go/token"
)

// Wiring facts: the correspondence harness assembles a node the way cmd/wasp/main.go does (ONE in-flight queue shared by
// writer, packet processor and connection manager; ONE message log behind distributor, scheduler, writer, RPC server and
// member manager; ONE local registry; ONE replicated state; the writer / processor / distributor objects handed on).
// These facts tie the harness' assembly to the assembly in the source: they compare the identifiers main.go passes
// among themselves (a renamed variable changes nothing; a second queue, a different log or a different state object does).

type wiring struct {
	calls map[string][][]string // function text -> list of argument lists
	defs  map[string]string     // identifier -> defining call (function text)
	lits  map[string]map[string]string
}

func collectWiring(fd *ast.FuncDecl) *wiring {
	w := &wiring{calls: map[string][][]string{}, defs: map[string]string{}, lits: map[string]map[string]string{}}
	ast.Inspect(fd.Body, func(n ast.Node) bool {
		switch x := n.(type) {
		case *ast.CallExpr:
			fn := exprString(x.Fun)
			args := []string{}
			for _, a := range x.Args {
				args = append(args, exprString(a))
			}
			w.calls[fn] = append(w.calls[fn], args)
		case *ast.AssignStmt:
			if x.Tok == token.DEFINE && len(x.Rhs) == 1 && len(x.Lhs) >= 1 {
				lhs := exprString(x.Lhs[0])
				switch r := x.Rhs[0].(type) {
				case *ast.CallExpr:
					w.defs[lhs] = exprString(r.Fun)
				case *ast.UnaryExpr:
					if cl, ok := r.X.(*ast.CompositeLit); ok && r.Op == token.AND {
						w.defs[lhs] = "&" + exprString(cl.Type)
						fields := map[string]string{}
						for _, e := range cl.Elts {
							if kv, ok := e.(*ast.KeyValueExpr); ok {
								fields[exprString(kv.Key)] = exprString(kv.Value)
							}
						}
						w.lits[lhs] = fields
					}
				}
			}
		}
		return true
	})
	return w
}

// mentioned: the expression occurs as a called function or as an argument of a call (e.g. handed to operations.Run)
func (w *wiring) mentioned(expr string) bool {
	if len(w.calls[expr]) > 0 {
		return true
	}
	for _, cs := range w.calls {
		for _, args := range cs {
			for _, a := range args {
				if a == expr {
					return true
				}
			}
		}
	}
	return false
}

func (w *wiring) arg(fn string, idx int) string {
	cs := w.calls[fn]
	if len(cs) != 1 || len(cs[0]) <= idx {
		return "?" + fn
	}
	return cs[0][idx]
}

func allSame(xs ...string) bool {
	for _, x := range xs {
		if x != xs[0] || len(x) == 0 || x[0] == '?' {
			return false
		}
	}
	return true
}

// the hand-over from the log consumer to the writer is synchronous: the Consume callback returns only after
// writer.Schedule has queued the offset (the model commits an offset AFTER its hand-over; a `go` statement on that path
// would let the stored offset run ahead of the hand-overs and let them overtake each other)
func extractHandOver() {
	sync := true
	found := 0
	for _, spec := range [][2]string{{"*Scheduler", "Schedule"}, {"", "SchedulePublishes"}} {
		fd := findFunc("wasp/publish.go", spec[0], spec[1])
		if fd == nil || fd.Body == nil {
			continue
		}
		found++
		ast.Inspect(fd.Body, func(n ast.Node) bool {
			if _, ok := n.(*ast.GoStmt); ok {
				sync = false
			}
			return true
		})
	}
	if found != 2 {
		failf("wasp/publish.go: Scheduler.Schedule / SchedulePublishes not found")
		return
	}
	callsSchedule := false
	if fd := findFunc("wasp/publish.go", "*Scheduler", "Schedule"); fd != nil {
		ast.Inspect(fd.Body, func(n ast.Node) bool {
			if c, ok := n.(*ast.CallExpr); ok && exprString(c.Fun) == "pdist.writer.Schedule" {
				callsSchedule = true
			}
			return true
		})
	}
	addFact("handOverIsSynchronous", "Bool", boolLean(sync && callsSchedule), "the log consumer's callback hands the offset to the writer before it returns (no goroutine on that path)")
	// writer.Schedule / writer.Send: ONE select with exactly two ways out — the job is in the queue, or the context is
	// cancelled (node shutdown). Any further case (a timer, a default) lets a hand-over return without the job queued
	// while the consumer commits the offset.
	for _, fn := range []string{"Schedule", "Send"} {
		fd := findFunc("wasp/writer.go", "*writer", fn)
		if fd == nil || fd.Body == nil {
			failf("wasp/writer.go: (*writer)." + fn + " not found")
			continue
		}
		ok := false
		if len(fd.Body.List) == 1 {
			if sel, isSel := fd.Body.List[0].(*ast.SelectStmt); isSel && len(sel.Body.List) == 2 {
				sends, dones := 0, 0
				for _, cl := range sel.Body.List {
					cc := cl.(*ast.CommClause)
					switch c := cc.Comm.(type) {
					case *ast.SendStmt:
						if exprString(c.Chan) == "w.queue" && len(cc.Body) == 0 {
							sends++
						}
					case *ast.ExprStmt:
						if exprString(c.X) == "<-ctx.Done()" && len(cc.Body) == 0 {
							dones++
						}
					}
				}
				ok = sends == 1 && dones == 1
			}
		}
		addFact("writer"+fn+"QueuesOrStops", "Bool", boolLean(ok), "(*writer)."+fn+" returns only when the job is in the writer's queue or the context is cancelled")
	}
}

func extractWiring() {
	p := parse("cmd/wasp/main.go")
	if p == nil {
		return
	}
	var host *ast.FuncDecl
	for _, d := range p.file.Decls {
		fd, ok := d.(*ast.FuncDecl)
		if !ok || fd.Body == nil {
			continue
		}
		found := false
		ast.Inspect(fd.Body, func(n ast.Node) bool {
			if c, ok := n.(*ast.CallExpr); ok && exprString(c.Fun) == "wasp.NewWriter" {
				found = true
			}
			return true
		})
		if found {
			host = fd
		}
	}
	if host == nil {
		failf("cmd/wasp/main.go: no function calls wasp.NewWriter")
		return
	}
	w := collectWiring(host)
	// the writer variable: defined by wasp.NewWriter
	writerVar, procVar, distVar := "", "", ""
	for id, fn := range w.defs {
		switch fn {
		case "wasp.NewWriter":
			writerVar = id
		case "wasp.NewPacketProcessor":
			procVar = id
		case "&wasp.PublishDistributor":
			distVar = id
		}
	}
	if writerVar == "" || procVar == "" || distVar == "" {
		failf("cmd/wasp/main.go: writer / packet processor / publish distributor definitions not found")
		return
	}
	dist := w.lits[distVar]
	q := w.arg("wasp.NewWriter", 3)
	addFact("wiringOneInflightQueue", "Bool", boolLean(allSame(q, w.arg("wasp.NewPacketProcessor", 5), w.arg("wasp.NewConnectionManager", 5)) && w.defs[q] == "ack.NewQueue" && len(w.calls["ack.NewQueue"]) == 1),
		"writer, packet processor and connection manager share the one in-flight queue created by ack.NewQueue()")
	lg := w.arg("wasp.SchedulePublishes", 2)
	addFact("wiringOneMessageLog", "Bool", boolLean(allSame(lg, w.arg(writerVar+".Run", 1), w.arg("wasp.NewMQTTServer", 2), w.arg("wasp.NewNodeMemberManager", 1), dist["Storage"]) && w.defs[lg] == "messages.New" && len(w.calls["messages.New"]) == 1),
		"distributor, scheduler, writer, RPC server and member manager use the one message log opened by messages.New")
	ls := w.arg("wasp.NewWriter", 2)
	addFact("wiringOneLocalRegistry", "Bool", boolLean(allSame(ls, w.arg("wasp.NewPacketProcessor", 0), w.arg("wasp.NewConnectionManager", 1), w.arg("wasp.NewMQTTServer", 1)) && w.defs[ls] == "wasp.NewState" && len(w.calls["wasp.NewState"]) == 1),
		"writer, packet processor, connection manager and RPC server share the one local session registry")
	ds := w.arg("wasp.NewPacketProcessor", 1)
	addFact("wiringOneReplicatedState", "Bool", boolLean(allSame(ds, w.arg("wasp.NewConnectionManager", 2), w.arg("wasp.NewMQTTServer", 0), w.arg("wasp.NewNodeMemberManager", 2)) && w.defs[ds] == "distributed.NewState" && len(w.calls["distributed.NewState"]) == 1 &&
		allSame(ds+".Subscriptions()", w.arg("wasp.NewWriter", 1), dist["State"])),
		"packet processor, connection manager, RPC server and member manager share the one replicated state; writer and distributor resolve recipients in its subscription store")
	addFact("wiringWriterHandedOn", "Bool", boolLean(allSame(writerVar, w.arg("wasp.NewPacketProcessor", 2), w.arg("wasp.NewConnectionManager", 3), w.arg("wasp.SchedulePublishes", 1)) && w.mentioned(writerVar+".Run")),
		"the writer created by NewWriter is the one the scheduler feeds, the processor and the connection manager use, and the one that is run")
	addFact("wiringProcessorAndDistributorHandedOn", "Bool", boolLean(allSame(procVar, w.arg("wasp.NewConnectionManager", 4)) && allSame(distVar, w.arg("wasp.NewPacketProcessor", 4), w.arg("wasp.NewMQTTServer", 3)) && w.mentioned(procVar+".Run")),
		"the connection manager hands packets to the processor that is run; processor and RPC server publish through the one distributor")
	id := w.arg("wasp.NewWriter", 0)
	addFact("wiringOneNodeID", "Bool", boolLean(allSame(id, w.arg("wasp.NewState", 0), w.arg("distributed.NewState", 0), w.arg("wasp.SchedulePublishes", 0), w.arg("wasp.NewNodeMemberManager", 0), dist["ID"])),
		"every component is created with the same node id")
}

// the credential stores the harness puts behind the connection manager (auth.StaticHandler / auth.FileHandler, built from
// literal arguments) are the ones the node builds: getAuthHandler hands the configured strings over unchanged, and main
// hands its result to the connection manager
func extractAuthWiring() {
	p := parse("cmd/wasp/auth.go")
	if p == nil {
		return
	}
	var fd *ast.FuncDecl
	for _, d := range p.file.Decls {
		if f, ok := d.(*ast.FuncDecl); ok && f.Name.Name == "getAuthHandler" && f.Body != nil {
			fd = f
		}
	}
	if fd == nil {
		failf("cmd/wasp/auth.go: getAuthHandler not found")
		return
	}
	w := collectWiring(fd)
	verbatim := func(arg, key string) bool { return arg == `config.GetString("`+key+`")` }
	ok := len(w.calls["auth.StaticHandler"]) == 1 && len(w.calls["auth.StaticHandler"][0]) == 2 &&
		verbatim(w.calls["auth.StaticHandler"][0][0], "authentication-provider-static-username") &&
		verbatim(w.calls["auth.StaticHandler"][0][1], "authentication-provider-static-password") &&
		len(w.calls["auth.FileHandler"]) == 1 && len(w.calls["auth.FileHandler"][0]) == 1 &&
		verbatim(w.calls["auth.FileHandler"][0][0], "authentication-provider-file-path")
	// main: the handler returned by getAuthHandler is the connection manager's first argument
	handed := false
	if m := parse("cmd/wasp/main.go"); m != nil {
		for _, d := range m.file.Decls {
			if f, isFn := d.(*ast.FuncDecl); isFn && f.Body != nil {
				mw := collectWiring(f)
				if cs := mw.calls["wasp.NewConnectionManager"]; len(cs) == 1 && len(cs[0]) > 0 && mw.defs[cs[0][0]] == "getAuthHandler" {
					handed = true
				}
			}
		}
	}
	addFact("authConfigVerbatim", "Bool", boolLean(ok && handed),
		"getAuthHandler passes the configured user name, password and file path to auth.StaticHandler / auth.FileHandler unchanged, and its result is the connection manager's authentication handler")
}

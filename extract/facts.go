package main

import (
	"go/ast"
	"go/token"
	"strconv"
	"strings"
)

func boolLean(b bool) string {
	if b {
		return "true"
	}
	return "false"
}

// litArgOfCall finds the first call `fn(...)` in the given function (or whole file when fd == nil)
// and returns the source text of argument idx.
func callArg(root ast.Node, fn string, idx int) (string, bool) {
	res, found := "", false
	ast.Inspect(root, func(n ast.Node) bool {
		if found {
			return false
		}
		if c, ok := n.(*ast.CallExpr); ok && exprString(c.Fun) == fn && len(c.Args) > idx {
			res, found = exprString(c.Args[idx]), true
			if v, ok := constInt(c.Args[idx]); ok {
				res = strconv.FormatInt(v, 10)
			}
		}
		return true
	})
	return res, found
}

func extractFacts() {
	// --- wasp/writer.go
	if fd := findFunc("wasp/writer.go", "", "NewWriter"); fd != nil {
		if v, ok := callArg(fd, "make", 1); ok {
			addFact("writerQueueCap", "Nat", v, "capacity of the writer's job queue (NewWriter)")
		} else {
			failf("writer queue capacity not found in NewWriter")
		}
		mn, ok1 := callArg(fd, "newMIDPool", 0)
		mx, ok2 := callArg(fd, "newMIDPool", 1)
		if ok1 && ok2 {
			addFact("midPoolMin", "Int", mn, "lower bound of the writer's packet id pool")
			addFact("midPoolMax", "Int", mx, "upper bound of the writer's packet id pool")
		} else {
			failf("newMIDPool(min,max) not found in NewWriter")
		}
	}
	for _, fn := range []string{"sendQoS1", "sendQoS2", "completeQoS2"} {
		if fd := findFunc("wasp/writer.go", "*writer", fn); fd != nil {
			secs := collect(fd, func(n ast.Node) string {
				if e, ok := n.(ast.Expr); ok {
					return intTimesSecond(e)
				}
				return ""
			})
			if len(secs) == 1 {
				addFact("ackTimeout_"+fn, "Nat", secs[0], "acknowledgement deadline (seconds) armed by writer."+fn)
			} else {
				failf("writer.%s: expected one k*time.Second, found %v", fn, secs)
			}
		}
	}
	if fd := findFunc("wasp/writer.go", "*writer", "Run"); fd != nil {
		// the discriminator between log-scheduled jobs and direct sends
		conds := collect(fd, func(n ast.Node) string {
			if is, ok := n.(*ast.IfStmt); ok {
				c := exprString(is.Cond)
				if strings.HasPrefix(c, "routedMessage.") {
					return c
				}
			}
			return ""
		})
		if len(conds) == 1 {
			addFact("writerLogJobDiscriminator", "String", "\""+conds[0]+"\"", "condition under which writer.Run treats a job as a log offset")
			addFact("writerLogJobIsPublishNil", "Bool", boolLean(conds[0] == "routedMessage.publish == nil"), "log jobs are recognised by the absence of an inline publish (offset 0 is a valid offset)")
		} else {
			failf("writer.Run: discriminator not found: %v", conds)
		}
	}
	if fd := findFunc("wasp/writer.go", "*writer", "getFree"); fd != nil {
		conds := collect(fd, func(n ast.Node) string {
			if is, ok := n.(*ast.IfStmt); ok {
				c := exprString(is.Cond)
				if strings.HasPrefix(c, "mid ") {
					return c
				}
			}
			return ""
		})
		if len(conds) == 1 {
			addFact("getFreeRejects", "String", "\""+conds[0]+"\"", "ids the writer treats as 'no id available'")
			addFact("getFreeRejectsNonPositive", "Bool", boolLean(conds[0] == "mid <= 0"), "the writer never uses id 0 or the pool's exhaustion value -1")
		} else {
			failf("writer.getFree: id test not found: %v", conds)
		}
	}
	// --- wasp/conn.go
	if p := parse("wasp/conn.go"); p != nil {
		found := false
		ast.Inspect(p.file, func(n ast.Node) bool {
			if vs, ok := n.(*ast.ValueSpec); ok && len(vs.Names) == 1 && vs.Names[0].Name == "connectTimeout" && len(vs.Values) == 1 {
				if k := intTimesSecond(vs.Values[0]); k != "" {
					addFact("connectTimeout", "Nat", k, "seconds a client has to send CONNECT")
					found = true
				}
			}
			return true
		})
		if !found {
			failf("connectTimeout = k * time.Second not found")
		}
	}
	// --- wasp/sessions/session.go ExtendDeadline multiplier
	if fd := findFunc("wasp/sessions/session.go", "*Session", "ExtendDeadline"); fd != nil {
		mult := collect(fd, func(n ast.Node) string {
			if b, ok := n.(*ast.BinaryExpr); ok && b.Op == token.MUL {
				if l, ok := b.X.(*ast.BasicLit); ok && strings.Contains(exprString(b.Y), "keepaliveInterval") {
					return l.Value
				}
			}
			return ""
		})
		if len(mult) == 1 {
			addFact("keepaliveMultiplier", "Nat", mult[0], "read deadline = now + multiplier * keepalive")
		} else {
			failf("ExtendDeadline: multiplier not found: %v", mult)
		}
	}
	// --- wasp/messages/store.go
	if fd := findFunc("wasp/messages/store.go", "", "New"); fd != nil {
		if v, ok := callArg(fd, "commitlog.Open", 1); ok {
			addFact("segmentSize", "Nat", v, "records per commit-log segment")
		} else {
			failf("commitlog.Open(_, segmentSize) not found")
		}
	}
	if fd := findFunc("wasp/messages/store.go", "*store", "maybeTruncate"); fd != nil {
		ok := false
		if len(fd.Body.List) == 1 {
			if is, isIf := fd.Body.List[0].(*ast.IfStmt); isIf {
				c := exprString(is.Cond)
				parts := strings.Split(c, " && ")
				if len(parts) == 2 && strings.HasPrefix(parts[0], "currentOffset > ") && strings.HasPrefix(parts[1], "currentOffset % ") && strings.HasSuffix(parts[1], " == 0") {
					arg, okk := callArg(is.Body, "s.log.TruncateBefore", 0)
					if okk && strings.HasPrefix(arg, "currentOffset - ") {
						addFact("truncAfter", "Nat", strings.TrimPrefix(parts[0], "currentOffset > "), "maybeTruncate only acts above this offset")
						addFact("truncEvery", "Nat", strings.TrimSuffix(strings.TrimPrefix(parts[1], "currentOffset % "), " == 0"), "maybeTruncate acts when offset is a multiple of this")
						addFact("truncKeep", "Nat", strings.TrimPrefix(arg, "currentOffset - "), "TruncateBefore(offset - truncKeep)")
						ok = true
					}
				}
			}
		}
		if !ok {
			failf("maybeTruncate: expected `if currentOffset > A && currentOffset%%B == 0 { s.log.TruncateBefore(currentOffset - C) }`")
		}
	}
	// --- go.mod language version (loop variable semantics)
	extractShapes()
}

// constInt evaluates an integer constant expression built from literals (1<<16, 64*1024, -1, (3)).
func constInt(e ast.Expr) (int64, bool) {
	switch x := e.(type) {
	case *ast.BasicLit:
		if x.Kind != token.INT {
			return 0, false
		}
		v, err := strconv.ParseInt(x.Value, 0, 64)
		return v, err == nil
	case *ast.ParenExpr:
		return constInt(x.X)
	case *ast.UnaryExpr:
		v, ok := constInt(x.X)
		if !ok {
			return 0, false
		}
		switch x.Op {
		case token.SUB:
			return -v, true
		case token.ADD:
			return v, true
		}
	case *ast.BinaryExpr:
		a, ok1 := constInt(x.X)
		b, ok2 := constInt(x.Y)
		if !ok1 || !ok2 {
			return 0, false
		}
		switch x.Op {
		case token.ADD:
			return a + b, true
		case token.SUB:
			return a - b, true
		case token.MUL:
			return a * b, true
		case token.QUO:
			if b != 0 {
				return a / b, true
			}
		case token.SHL:
			if b >= 0 && b < 63 {
				return a << uint(b), true
			}
		case token.SHR:
			if b >= 0 && b < 63 {
				return a >> uint(b), true
			}
		}
	}
	return 0, false
}

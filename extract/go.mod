module waspextract

go 1.21

"""C15 — message-log consumption survives crashes without skipping messages.
Theorems: lean/Wasp/Properties/C15.lean (small-step model with a crash between any two micro-steps; constants regenerated).
Tie: `msglog` correspondence against the real messages.Log on disk: every incarnation of the consumer is a child PROCESS
running the real Consume; it SIGKILLs itself inside its k-th callback (`in`), stops cleanly after it (`clean`), or runs
the real glue wasp.SchedulePublishes with a recording writer and cancels the context inside the k-th hand-over (`sched`);
every crash position k for every log length in the tier's range, several rounds, batch boundary 10, and a log long
enough to trigger truncation (crash right around offset 2000). The commit log and the mmap'd state file are modelled;
SIGKILL keeps the page cache (power loss is out of scope).
Monitor: union of hand-overs covers the log (nothing skipped); consecutive increasing within an incarnation; an
incarnation starts at most one message before the first never-handed-over one, and only after a kill inside a callback;
Get(o) returns message o for every offset the writer may still hold (st-26 .. next-1)."""
from checklib import Suite, Check


def parse(res):
    res = res.strip()
    if not res.startswith("["):
        raise ValueError(res)
    inner = res[1:-1].strip()
    return [int(x) for x in inner.split()] if inner else []


def monitor(ops, impl):
    out = []
    seen = set()
    nxt = 0
    last_in_flight = None
    highest = -1
    for i, (op, res) in enumerate(zip(ops, impl)):
        f = op.split()
        if res.startswith(("panic", "ERR", "open-err", "append-err", "tmp-err")) or res == "<no-output>":
            out.append((i, "log-error", f"`{op}` -> {res}"))
            continue
        if f[0] == "new":
            seen, nxt, last_in_flight, highest = set(), 0, None, -1
        elif f[0] == "append":
            nxt += int(f[1])
        elif f[0] == "run":
            try:
                offs = parse(res)
            except ValueError:
                out.append((i, "bad-output", f"`{op}` -> {res}"))
                continue
            for a, b in zip(offs, offs[1:]):
                if b != a + 1:
                    out.append((i, "out-of-order", f"incarnation handed over {a} then {b}"))
                    break
            if offs:
                first_new = highest + 1
                if offs[0] > first_new:
                    out.append((i, "skipped", f"incarnation started at {offs[0]} but {first_new} was never handed over"))
                elif offs[0] < first_new:
                    replayed = list(range(offs[0], first_new))
                    if replayed != [last_in_flight]:
                        out.append((i, "replay-too-long", f"restart replayed {replayed}; only the message in flight at the kill ({last_in_flight}) may be replayed"))
                if any(o >= nxt for o in offs):
                    out.append((i, "phantom", f"handed over offsets beyond the log end {nxt}: {offs[-3:]}"))
                highest = max(highest, offs[-1])
                seen.update(offs)
                k = int(f[1])
                last_in_flight = offs[-1] if (f[2] == "in" and len(offs) == k) else None
            else:
                last_in_flight = None
        elif f[0] == "drained":
            pass
        elif f[0] == "get":
            o = int(f[1])
            if highest + 1 - 26 <= o < nxt and res != f"t{o}":
                out.append((i, "lost-in-log", f"Get({o}) = {res}: the message is still referenced by the writer queue (consumer at {highest + 1}) but is gone"))
    return out


def final_check(ops, impl):
    """after the last incarnation of a case everything appended must have been handed over"""
    out = []
    seen, nxt = set(), 0
    for i, (op, res) in enumerate(zip(ops, impl)):
        f = op.split()
        if f[0] == "new":
            if nxt and len(seen) < nxt:
                missing = [o for o in range(nxt) if o not in seen][:5]
                out.append((i - 1, "never-handed-over", f"log of {nxt} messages, consumer ran to the end, never handed over: {missing}"))
            seen, nxt = set(), 0
        elif f[0] == "append":
            nxt += int(f[1])
        elif f[0] == "run" and res.startswith("["):
            try:
                seen.update(parse(res))
            except ValueError:
                pass
    if nxt and len(seen) < nxt:
        missing = [o for o in range(nxt) if o not in seen][:5]
        out.append((len(ops) - 1, "never-handed-over", f"log of {nxt} messages, consumer ran to the end, never handed over: {missing}"))
    return out


def both(ops, impl):
    return monitor(ops, impl) + final_check(ops, impl)


def case(ops, L, crashes):
    """crashes: list of (k, phase); st tracked by the trivial oracle so that no incarnation waits for data"""
    ops.append("new")
    if L:
        ops.append(f"append {L}")
    st = 0
    for k, phase in crashes:
        k = min(k, L - st)
        if k <= 0:
            continue
        ops.append(f"run {k} {phase}")
        st += k - 1 if phase == "in" else k
    if L - st > 0:
        ops.append(f"run {L - st} clean")
    return st


def main(tier=None):
    c = Check("C15", ["Wasp.Properties.C15", "Wasp.Properties.Facts.C15"], tier)
    c.build()
    rng = c.rng
    samples = []
    ops, cases = [], 0
    lengths = [0, 1, 2, 3, 9, 10, 11, 12, 21] if c.tier == "quick" else list(range(0, 41))
    for L in lengths:
        for k in range(1, L + 1):
            for phase in ("in", "clean"):
                if c.tier == "quick" and L > 12 and k not in (1, 9, 10, 11, 20, 21):
                    continue
                case(ops, L, [(k, phase)])
                cases += 1
    # several crash/restart rounds, appends in between
    for _ in range(12 if c.tier == "quick" else 150):
        L = rng.choice([5, 12, 25, 33])
        crashes = [(rng.randint(1, 12), rng.choice(["in", "clean", "in"])) for _ in range(rng.choice([2, 3, 5]))]
        ops.append("new")
        ops.append(f"append {L}")
        st, nxt = 0, L
        for k, phase in crashes:
            k = min(k, nxt - st)
            if k > 0:
                ops.append(f"run {k} {phase}")
                st += k - 1 if phase == "in" else k
            if rng.random() < 0.4:
                a = rng.randint(1, 8)
                ops.append(f"append {a}")
                nxt += a
        if nxt - st > 0:
            ops.append(f"run {nxt - st} clean")
        cases += 1
    c.run_suite(Suite("crash-at-every-position", "msglog", ops + ["bye"], both, {"cases": cases, "nontrivial": cases, "lengths": lengths[:12]}, resets=("new",)), timeout=3000)
    samples.append({"suite": "crash-at-every-position", "ops": ops[:12]})
    # graceful stop (context cancelled) inside the k-th hand-over, through the real glue wasp.SchedulePublishes with a
    # recording writer: whatever Consume commits must have been handed to the writer (the rest of the poller's batch is)
    ops_s, cases_s = [], 0
    for L in ([12, 25] if c.tier == "quick" else [3, 10, 11, 12, 20, 25, 31]):
        for k in ([1, 4, 9, 10, 11] if c.tier == "quick" else range(1, L + 1)):
            if k >= L:
                continue
            ops_s += ["new", f"append {L}", f"run {k} sched", "run 999 clean"]
            cases_s += 1
    for _ in range(4 if c.tier == "quick" else 60):
        L = rng.choice([15, 25, 33])
        ops_s += ["new", f"append {L}"]
        for _ in range(rng.choice([2, 3])):
            ops_s.append(f"run {rng.randint(1, 7)} {rng.choice(['sched', 'sched', 'in'])}")
        ops_s.append("run 999 clean")
        cases_s += 1
    c.run_suite(Suite("graceful-stop-inside-a-batch", "msglog", ops_s + ["bye"], both, {"cases": cases_s, "nontrivial": cases_s}, resets=("new",)), timeout=3000)
    samples.append({"suite": "graceful-stop-inside-a-batch", "ops": ops_s[:8]})
    # truncation: > 2000 messages, crashes around the truncation point, Get of everything the writer may still hold
    ops2 = ["new", "append 2105", "run 1995 clean"]
    st = 1995
    for k, phase in ([(4, "in"), (1, "in"), (2, "in"), (3, "clean")] if c.tier == "quick" else [(4, "in"), (1, "in"), (1, "in"), (1, "clean"), (1, "in"), (2, "in"), (3, "clean")]):
        ops2.append(f"run {k} {phase}")
        st += k - 1 if phase == "in" else k
        ops2 += [f"get {o}" for o in (st - 26, st - 1, st, 2104, max(0, st - 200))]
    ops2.append(f"run {2105 - st} clean")
    ops2 += ["get 2104", "get 1979", "append 1000", "run 1000 clean", "get 3104", "get 3079", "bye"]
    c.run_suite(Suite("truncation-boundary", "msglog", ops2, both, {"cases": 1, "nontrivial": 1}, resets=("new",)), timeout=3000)
    samples.append({"suite": "truncation-boundary", "ops": ops2[:10]})
    # a consumer far behind: 5600 messages (more than eleven segments) are appended while it sits in its third hand-over;
    # nothing that was not handed over may disappear, whatever the log's own retention does
    ops3 = ["new", "append 30", "run 3 in", "append 5570", "run 1 in", "run 5598 clean", "get 5599", "get 5574", "bye"]
    c.run_suite(Suite("large-backlog", "msglog", ops3, both, {"cases": 1, "nontrivial": 1}, resets=("new",)), timeout=3000)
    samples.append({"suite": "large-backlog", "ops": ops3[:8]})
    # the same consumer inside a whole node: real log, real scheduler, real writer, a recipient that stops reading
    from checks import brokerlib
    brokerlib.add_stalled_consumer_suites(c, samples)
    c.assumptions += ["vx-labs/commitlog and the mmap'd state file are modelled, not verified", "SIGKILL (page cache survives), not power loss"]
    return c.finish(samples=samples,
                    rule="case = one log length with one crash position and phase (killed inside the k-th callback / stopped after it) "
                         "followed by a restart that runs to the end; plus multi-round cases with appends in between; all have >= 1 restart")

"""Generators, parsers and LWW oracles for the `dist` domain (C08, C09, C10, C11)."""
from checks.trielib import parse_list

SESS = ["s1", "s2", "s3"]
CLIENTS = ["c1", "c2", "~"]      # ~ : the empty client identifier
MOUNTS = ["mp", "mq"]
PATTERNS = ["mp/a", "mp/a/b", "mp/a/#", "mp/+/b", "mp/#", "mq/a", "mp/a//b", "mp//"]
TOPICS = ["mp/a", "mp/a/b", "mp/b", "mq/a", "mp/a//b", "mp/"]
PEERS = [1, 2, 3]


def parse_entry(e):
    """'S,id,client,mount,peer,lwt,added,deleted' | 'U,session,pattern,peer,qos,added,deleted' | 'R,topic,payload,qos,retain,added,deleted'"""
    f = e.split(",")
    kind = f[0]
    a, d = int(f[-2]), int(f[-1])
    if kind == "S":
        key = ("S", f[1])
    elif kind == "U":
        key = ("U", f[2], f[1])
    else:
        key = ("R", f[1])
    return key, max(a, d), a, d, e


def parse_full(line):
    """-> dict key -> (ts, added, deleted, rendering)"""
    out = {}
    for e in parse_list(line):
        key, ts, a, d, r = parse_entry(e)
        out[key] = (ts, a, d, r)
    return out


def is_added(a, d):
    return a > 0 and a > d


def is_removed(a, d):
    return d > 0 and a < d


def lww_expected(updates):
    """updates: list of renderings with stamps (inj syntax converted to full syntax), in arrival order.
    Returns the expected `full` rendering set under LWW (strictly-newer-wins, first arrival wins ties)."""
    st = {}
    for u in updates:
        key, ts, a, d, r = parse_entry(u)
        if key[0] == "R" and not (is_added(a, d) or is_removed(a, d)):
            continue
        if key not in st or st[key][0] < ts:
            st[key] = (ts, a, d, r)
    return st


def inj_to_full(e):
    """inj entry syntax -> `full` rendering"""
    f = e.split(",")
    if f[0] == "S":  # S,id,client,mount,peer,a,d -> S,id,client,mount,peer,-,a,d
        return ",".join(f[:5] + ["-"] + f[5:])
    if f[0] == "U":
        return e
    if f[0] == "R":  # R,topic,payload,a,d -> R,topic,payload,0,1,a,d
        return ",".join(f[:3] + ["0", "1"] + f[3:])
    return e


def visible_of(st):
    """expected `show` line from a dict key -> (ts,a,d,rendering-with-stamps)"""
    s, u, r = [], [], []
    for key, (ts, a, d, rend) in st.items():
        if not is_added(a, d):
            continue
        base = ",".join(rend.split(",")[:-2])
        {"S": s, "U": u, "R": r}[key[0]].append(base)
    return "[" + " ".join(sorted(s)) + "] [" + " ".join(sorted(u)) + "] [" + " ".join(sorted(r)) + "]"


def full_of(st):
    return "[" + " ".join(sorted(v[3] for v in st.values())) + "]"


def random_local_op(rng, node, state_hint=None, bulk_bias=0.15):
    """one local op line for `node`; ids/patterns/topics drawn from small overlapping pools"""
    kinds = ["screate", "sdelete", "subcreate", "subdelete", "subdelsess", "subdelpeer", "sdelpeer", "tset", "tdel"]
    weights = [0.16, 0.10, 0.26, 0.10, bulk_bias / 3, bulk_bias / 3, bulk_bias / 3, 0.22, 0.08]
    k = rng.choices(kinds, weights)[0]
    if k == "screate":
        will = rng.choice(["-", "-", "w/t:627965:1:0"])
        return f"screate {node} {rng.choice(SESS)} {rng.choice(CLIENTS)} {rng.choice(MOUNTS)} {will}"
    if k == "sdelete":
        return f"sdelete {node} {rng.choice(SESS)}"
    if k == "subcreate":
        return f"subcreate {node} {rng.choice(SESS)} {rng.choice(PATTERNS)} {rng.choice([0, 1, 2])}"
    if k == "subdelete":
        return f"subdelete {node} {rng.choice(SESS)} {rng.choice(PATTERNS)}"
    if k == "subdelsess":
        return f"subdelsess {node} {rng.choice(SESS)}"
    if k == "subdelpeer":
        return f"subdelpeer {node} {rng.choice(PEERS)}"
    if k == "sdelpeer":
        return f"sdelpeer {node} {rng.choice(PEERS)}"
    if k == "tset":
        return f"tset {node} {rng.choice(TOPICS)} {rng.choice(['01', '02', '0304', '05'])} {rng.choice([0, 1])} 1"
    return f"tdel {node} {rng.choice(TOPICS)}"


def monotone_store(ops, impl, resets=("reset",)):
    """a replicated store only moves forward: between two `full n` listings of one node no key disappears and no key's
    stamp decreases (valid where every clock is monotone: one tick per op, fixed offsets smaller than a tick)"""
    out = []
    last = {}
    for i, (op, res) in enumerate(zip(ops, impl)):
        f = op.split()
        if f[0] in resets:
            last = {}
        elif f[0] == "off" and abs(int(f[2])) >= 10:
            last = {}       # a clock jump: the comparison starts afresh
        elif f[0] == "full" and len(f) == 2:
            try:
                cur = parse_full(res)
            except Exception:
                continue
            prev = last.get(f[1])
            if prev is not None:
                gone = [v[3] for k, v in prev.items() if k not in cur]
                back = [f"{prev[k][3]} -> {cur[k][3]}" for k in prev if k in cur and cur[k][0] < prev[k][0]]
                if gone:
                    out.append((i, "entry-forgotten", f"node {f[1]} no longer stores {gone[:3]} (additions and removals are both part of the state)"))
                if back:
                    out.append((i, "older-update-overrode-newer", f"node {f[1]}: {back[:3]}"))
            last[f[1]] = cur
    return out

"""C09 — every local state change is carried completely by the broadcasts it queues.
Theorems: lean/Wasp/Properties/C09.lean (receiver's stores EQUAL the origin's after every prefix; bulk broadcasts complete).
Tie: `dist` correspondence on real distributed.State + memberlist.TransmitLimitedQueue:
  scripts of Create/Delete/DeleteSession/DeletePeer/Set on node 0 over overlapping sessions, filters, topics and peers
  (bulk ops touching 0, 1, many entries); the payloads drained from the real queue are delivered to node 1;
  eager mode (drain after every op, the broadcast is part of the op's observation) and lazy mode (several ops queue
  before one drain: a broadcast must never invalidate another).
Monitor: after delivery node 1 lists exactly what node 0 lists, and stores the same entries."""
from checklib import Suite, Check
from checks import distlib


def add_origin_receiver_suites(c, samples, nscripts_quick_or_thorough=None):
    rng = c.rng
    for lazy in (False, True):
        ops, cases, cmp_idx = [], 0, []
        nscripts = nscripts_quick_or_thorough or (250 if c.tier == "quick" else 4000)
        for _ in range(nscripts):
            ops.append("reset")
            if lazy:
                ops.append("lazy on")
            nsent_upper = 0
            if rng.random() < 0.6:
                sess = rng.choice(distlib.SESS)
                for pat in rng.sample(distlib.PATTERNS, rng.choice([1, 2, 5])):
                    ops.append(f"subcreate 0 {sess} {pat} {rng.choice([0, 1, 2])}")
                    nsent_upper += 1
                for s in rng.sample(distlib.SESS, rng.choice([1, 2, 3])):
                    ops.append(f"screate 0 {s} {rng.choice(distlib.CLIENTS)} mp -")
                    nsent_upper += 1
            delivered = 0
            for _ in range(rng.choice([3, 6, 10, 18])):
                ops.append(distlib.random_local_op(rng, 0, bulk_bias=0.3))
                nsent_upper += 1
                if not lazy and rng.random() < 0.25:
                    ops.append("deliverall 0 1")
                    ops += ["full 0", "full 1", "show 0", "show 1"]
                    cmp_idx.append(len(ops) - 1)
            if lazy:
                ops.append("flush 0")
            ops.append("deliverall 0 1")
            ops += ["full 0", "full 1", "show 0", "show 1"]
            cmp_idx.append(len(ops) - 1)
            cases += 1

        def mon(ops_, impl, cmp_idx=cmp_idx):
            out = []
            for i in cmp_idx:
                if impl[i] != impl[i - 1]:
                    out.append((i, "receiver-differs", f"after receiving every broadcast the receiver lists {impl[i]} but the origin lists {impl[i - 1]}"))
                elif impl[i - 2] != impl[i - 3]:
                    out.append((i - 2, "receiver-stores-differ", f"receiver stores {impl[i - 2]} but the origin stores {impl[i - 3]}"))
            return out
        name = "origin-receiver-" + ("lazy-drain" if lazy else "eager-drain")
        c.run_suite(Suite(name, "dist", ops, mon, {"cases": cases, "nontrivial": cases}, resets=("reset",)))
        samples.append({"suite": name, "ops": ops[:16]})


def main(tier=None):
    c = Check("C09", ["Wasp.Properties.C09", "Wasp.Properties.Facts.C09"], tier)
    c.build()
    rng = c.rng
    samples = []
    add_origin_receiver_suites(c, samples)
    c.assumptions += ["origin clock strictly increasing and positive (the harness clock: 10 per operation)",
                      "memberlist.TransmitLimitedQueue is used as is (RetransmitMult 1, one node) — modelled as a bag of payloads"]
    return c.finish(samples=samples,
                    rule="case = one script of local operations on the origin (3-18 ops after optional seeding so that bulk removals "
                         "meet 0, 1 or many entries) with all queued broadcasts delivered to a second node")

"""Suites on the in-process broker (net.Pipe clients against the real connection manager, packet processor, writer,
message log, replicated state) shared by C01, C02, C03, C05, C07, C11, C12, C13, C14, C17, C18. Filled in as the broker harness grows."""


def add_c01_suites(c, samples):
    return


def add_c07_suites(c, samples):
    return

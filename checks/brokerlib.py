"""Scenario generator and oracles for the in-process broker (domain `broker`): net.Pipe clients against the real
connection manager, packet processor, publish distributor, writer, ack queue, replicated state and gRPC MQTTServer of
1-3 nodes, compared op by op with the Lean model Wasp.Broker and judged by a small reference oracle.

The oracle is deliberately simple: it only speaks where the cluster is CONVERGED (all gossip delivered before the
op), where MQTT semantics determine the packets each client must see:
  publish -> one PUBLISH per matching active subscription of each live session in the publisher's mount point (QoS of the
             subscription, retain 0, publisher's topic), PUBACK/PUBREC/PUBCOMP to the publisher, nothing to anybody else;
  subscribe -> SUBACK, then one retained PUBLISH (retain 1) per matching retained topic and filter;
  session end -> will published iff the session did not DISCONNECT; CLOSED only for the ended session.
"""
import re
from checklib import Suite
from checks.trielib import mqtt_match

FILTERS = ["a", "a/b", "a/#", "+/b", "#", "+", "a/+", "b/#", "a//b", "+/+", "/a", "a/b/c", "w/#"]
TOPICS = ["a", "a/b", "b", "b/b", "a/b/c", "a//b", "/a", "a/", "w/t"]
MOUNTS = ["mp", "mq", "mr"]


def parse_out(line):
    res, _, rest = line.partition(" | ")
    clients = {}
    for m in re.finditer(r"(\S+?):\[([^\]]*)\]", rest):
        clients[m.group(1)] = m.group(2).split(" ") if m.group(2) else []
    return res, clients


def strip_mid(p):
    p = re.sub(r",m=#\d+\)$", ")", p)
    p = re.sub(r"^pubrel\((#|raw)\d+\)$", "pubrel", p)
    return p


def pubstr(topic, payload, qos, retain, dup):
    return f"publish(t={topic},p={payload if payload else '-'},q={qos},r={retain},d={dup})"


class Scenario:
    def __init__(self, rng, nnodes, mounts=1, settle=None):
        self.rng = rng
        self.nn = nnodes
        self.ops = [f"reset {nnodes}"]
        self.exp = {}        # op index -> (dict client -> sorted list of stripped packets, rule)
        self.clients = {}    # name -> dict
        self.retained = {}   # (mount, topic) -> (payload, qos, dup)
        self.mounts = MOUNTS[:mounts]
        self.k = 0
        self.mid = 10
        self.dirty = False   # gossip pending

    # ---- helpers
    def emit(self, op, expect=None, rule="unexpected-packets"):
        self.ops.append(op)
        if expect is not None:
            self.exp[len(self.ops) - 1] = ({c: sorted(v) for c, v in expect.items() if v}, rule)

    def gossip(self):
        if self.nn > 1:
            self.emit("gossip", {})
        self.dirty = False

    def alive(self):
        return [c for c, v in self.clients.items() if v["alive"]]

    def deliveries(self, mount, topic, payload, dup, retain=0):
        out = {}
        for c, v in self.clients.items():
            if not v["alive"] or v["mount"] != mount:
                continue
            for f, q in v["subs"].items():
                if mqtt_match(f.split("/"), topic.split("/")):
                    out.setdefault(c, []).append(pubstr(topic, payload, q, retain, dup))
        return out

    def ack_receivers(self, deliv):
        for c in sorted(deliv):
            q2 = sum(1 for p in deliv[c] if ",q=2," in p)
            if any(",q=1," in p or ",q=2," in p for p in deliv[c]):
                self.emit(f"ackall {c}", {c: ["pubrel"] * q2}, "handshake")

    # ---- ops
    def connect(self, node=None, mount=None, will=None, cid=None, keepalive=60, name=None):
        self.k += 1
        name = name or f"c{self.k}"
        node = self.rng.randrange(self.nn) if node is None else node
        mount = mount or self.rng.choice(self.mounts)
        cid = cid or f"id{self.k}"
        spec = "-"
        if will:
            spec = f"{will[0]}:{will[1]}:{will[2]}:{will[3]}"
        self.clients[name] = {"node": node, "mount": mount, "cid": cid, "will": will, "subs": {}, "alive": True}
        self.emit(f"connect {name} {node} {cid} {mount} {keepalive} {spec}", {name: ["connack(0)"]}, "connect")
        self.gossip()
        return name

    def sub(self, c, filters):
        self.mid += 1
        v = self.clients[c]
        exp = [f"suback({self.mid};{','.join(str(q) for _, q in filters)})"]
        for f, q in filters:
            v["subs"][f] = q
        for f, q in filters:
            for (m, t), (pl, rq, dup) in self.retained.items():
                if m == v["mount"] and mqtt_match(f.split("/"), t.split("/")):
                    exp.append(pubstr(t, pl, q, 1, dup))
        self.emit(f"sub {c} {self.mid} " + ",".join(f"{f if f else '~'}:{q}" for f, q in filters), {c: exp}, "subscribe-replay")
        self.ack_receivers({c: exp})
        self.gossip()

    def unsub(self, c, filters):
        self.mid += 1
        for f in filters:
            self.clients[c]["subs"].pop(f, None)
        self.emit(f"unsub {c} {self.mid} " + ",".join(f if f else "~" for f in filters), {c: [f"unsuback({self.mid})"]}, "unsubscribe")
        self.gossip()

    def pub(self, c, topic, payload, qos, retain=0, dup=0):
        self.mid += 1
        mid = self.mid
        v = self.clients[c]
        deliv = self.deliveries(v["mount"], topic, payload, dup)
        if retain:
            if payload in ("", "-"):
                self.retained.pop((v["mount"], topic), None)
            else:
                self.retained[(v["mount"], topic)] = (payload, qos, dup)
        op = f"pub {c} {topic if topic else '~'} {payload if payload else '-'} {qos} {retain} {dup} {mid}"
        if qos == 2:
            self.emit(op, {c: [f"pubrec({mid})"]}, "qos2-forwarded-early")
            exp = {k: list(x) for k, x in deliv.items()}
            exp.setdefault(c, []).append(f"pubcomp({mid})")
            self.emit(f"rawack {c} pubrel {mid}", exp, "delivery")
        else:
            exp = {k: list(x) for k, x in deliv.items()}
            if qos == 1:
                exp.setdefault(c, []).append(f"puback({mid})")
            self.emit(op, exp, "delivery")
        self.ack_receivers(deliv)
        if retain:
            self.gossip()
        return deliv

    def end(self, c, how):
        """how: disconnect | drop"""
        v = self.clients[c]
        v["alive"] = False
        exp = {c: ["CLOSED"]}
        deliv = {}
        if how == "drop" and v["will"]:
            t, pl, q, r = v["will"]
            deliv = self.deliveries(v["mount"], t, pl, 0)
            if r:
                if pl in ("", "-"):
                    self.retained.pop((v["mount"], t), None)
                else:
                    self.retained[(v["mount"], t)] = (pl, q, 0)
            for k, x in deliv.items():
                exp.setdefault(k, []).extend(x)
        self.emit(f"{how} {c}", exp, "session-end")
        self.ack_receivers(deliv)
        self.gossip()

    def check_state(self):
        """at quiescence every node lists exactly the live sessions and their subscriptions"""
        ss = sorted(f"S,S{c},{v['cid']},{v['mount']},{v['node'] + 1},{self._will(v)}" for c, v in self.clients.items() if v["alive"])
        us = sorted(f"U,S{c},{v['mount']}/{f},{v['node'] + 1},{q}" for c, v in self.clients.items() if v["alive"] for f, q in v["subs"].items())
        rs = sorted(f"R,{m}/{t},{pl},{q},1" for (m, t), (pl, q, d) in self.retained.items())
        for n in range(self.nn):
            reg = sorted("S" + c for c, v in self.clients.items() if v["alive"] and v["node"] == n)
            line = "[" + " ".join(ss) + "] [" + " ".join(us) + "] [" + " ".join(rs) + "] [" + " ".join(reg) + "]"
            self.ops.append(f"state {n}")
            self.exp[len(self.ops) - 1] = (line, "state-after-quiescence")

    def _will(self, v):
        if not v["will"]:
            return "-"
        t, pl, q, r = v["will"]
        return f"{t}:{pl if pl else '-'}:{q}:{r}"


def monitor_for(scenarios_exp):
    """scenarios_exp: op index -> (expected, rule)"""
    def mon(ops, impl):
        out = []
        for i, (exp, rule) in scenarios_exp.items():
            line = impl[i]
            if line.startswith("panic") or line == "<no-output>":
                out.append((i, "harness-crash", f"`{ops[i]}` -> {line}"))
                continue
            if isinstance(exp, str):
                if line != exp:
                    out.append((i, rule, f"`{ops[i]}` = {line}; the live sessions, their subscriptions and the retained messages are {exp}"))
                continue
            res, got = parse_out(line)
            got = {c: sorted(strip_mid(p) for p in v) for c, v in got.items() if v}
            if got != exp:
                diffs = []
                for c in sorted(set(got) | set(exp)):
                    g, e = got.get(c, []), exp.get(c, [])
                    if g != e:
                        miss = [x for x in e if x not in g or g.count(x) < e.count(x)]
                        extra = [x for x in g if x not in e or e.count(x) < g.count(x)]
                        diffs.append(f"{c}: missing {sorted(set(miss))} unexpected {sorted(set(extra))}")
                out.append((i, rule, f"`{ops[i]}`: " + "; ".join(diffs)[:600]))
        return out
    return mon


def gen_converged(rng, nn, mounts, nops, weights=None):
    """a random converged scenario; returns Scenario"""
    sc = Scenario(rng, nn, mounts)
    w = {"connect": 2, "sub": 4, "unsub": 1, "pub": 6, "end": 1, "state": 0.5}
    if weights:
        w.update(weights)
    for _ in range(rng.choice([2, 3])):
        will = rng.choice([None, None, ("w/t", rng.choice(["dead", "00"]) if False else rng.choice(["6465", "00"]), rng.choice([0, 1]), rng.choice([0, 1]))])
        sc.connect(will=will)
    kinds = list(w)
    for _ in range(nops):
        k = rng.choices(kinds, [w[x] for x in kinds])[0]
        alive = sc.alive()
        if k == "connect" or not alive:
            if len(sc.clients) < 7:
                will = rng.choice([None, ("w/t", rng.choice(["6465", "-"]), rng.choice([0, 1, 2]), rng.choice([0, 0, 1]))])
                sc.connect(will=will)
        elif k == "sub":
            c = rng.choice(alive)
            fl = rng.sample(FILTERS, rng.choice([1, 1, 2, 3]))
            sc.sub(c, [(f, rng.choice([0, 1, 2])) for f in fl])
        elif k == "unsub":
            c = rng.choice(alive)
            subs = list(sc.clients[c]["subs"])
            fl = rng.sample(subs, min(len(subs), rng.choice([1, 2]))) if subs and rng.random() < 0.8 else [rng.choice(FILTERS)]
            sc.unsub(c, fl)
        elif k == "pub":
            c = rng.choice(alive)
            retain = 1 if rng.random() < 0.3 else 0
            payload = rng.choice(["01", "0203", "ff"]) if not (retain and rng.random() < 0.3) else "-"
            sc.pub(c, rng.choice(TOPICS), payload, rng.choice([0, 1, 1, 2]), retain, 0)
        elif k == "end":
            if len(alive) > 1:
                sc.end(rng.choice(alive), rng.choice(["disconnect", "drop"]))
        elif k == "state":
            sc.check_state()
    sc.check_state()
    return sc


def run_scenarios(c, name, scenarios, samples, extra_stats=None):
    ops, exp = [], {}
    for sc in scenarios:
        base = len(ops)
        ops += sc.ops
        for i, e in sc.exp.items():
            exp[base + i] = e
    ops.append("bye")
    st = {"cases": len(scenarios), "nontrivial": len(scenarios)}
    if extra_stats:
        st.update(extra_stats)
    c.run_suite(Suite(name, "broker", ops, monitor_for(exp), st, resets=("reset",), retry_args=["200"]), timeout=3000)
    samples.append({"suite": name, "ops": ops[:14]})


def add_c01_suites(c, samples):
    rng = c.rng
    n = 12 if c.tier == "quick" else 150
    scs = [gen_converged(rng, rng.choice([1, 1, 2]), 1, rng.choice([12, 20]), {"pub": 8, "sub": 5, "unsub": 2}) for _ in range(n)]
    run_scenarios(c, "broker-publish-routing", scs, samples)


def add_c07_suites(c, samples):
    rng = c.rng
    n = 10 if c.tier == "quick" else 120
    scs = []
    for _ in range(n):
        sc = gen_converged(rng, rng.choice([1, 2]), 1, rng.choice([10, 16]), {"pub": 7, "sub": 6, "connect": 3})
        scs.append(sc)
    run_scenarios(c, "broker-retained-replay", scs, samples)

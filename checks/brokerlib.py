"""Scenario generator and oracles for the in-process broker (domain `broker`): net.Pipe clients against the real
connection manager, packet processor, publish distributor, writer, ack queue, replicated state and gRPC MQTTServer of
1-3 nodes, compared op by op with the Lean model Wasp.Broker and judged by a small reference oracle.

The oracle is deliberately simple: it only speaks where the cluster is CONVERGED (all gossip delivered before the
op), where MQTT semantics determine the packets each client must see:
  publish -> one PUBLISH per matching active subscription of each live session in the publisher's mount point (QoS of the
             subscription, retain 0, publisher's topic), PUBACK/PUBREC/PUBCOMP to the publisher, nothing to anybody else;
  subscribe -> SUBACK, then one retained PUBLISH (retain 1) per matching retained topic and filter;
  session end -> will published iff the session did not DISCONNECT; CLOSED only for the ended session.
"""
import re
from checklib import Suite
from checks.trielib import mqtt_match

FILTERS = ["a", "a/b", "a/#", "+/b", "#", "+", "a/+", "b/#", "a//b", "+/+", "/a", "a/b/c", "w/#"]
TOPICS = ["a", "a/b", "b", "b/b", "a/b/c", "a//b", "/a", "a/", "w/t"]
MOUNTS = ["mp", "mq", "mr"]
# tenants whose names are prefixes of one another, with client identifiers chosen so that mount point + client identifier
# of different tenants spell the same string (t1 + 1cK = t11 + cK = t + 11cK)
PREFIX_MOUNTS = ["t1", "t11", "t"]
PREFIX_CID = {"t1": "1c", "t11": "c", "t": "11c"}


def parse_out(line):
    res, _, rest = line.partition(" | ")
    clients = {}
    for m in re.finditer(r"(\S+?):\[([^\]]*)\]", rest):
        clients[m.group(1)] = m.group(2).split(" ") if m.group(2) else []
    return res, clients


def canon_async_acks(line):
    """PUBACK and PUBCOMP to a publisher are written by the publish workers, not by the session's own loop: when the same
    input also makes the broker close that connection (a complete PUBLISH followed by garbage in one write), whether the
    acknowledgement still gets out is a race inside the implementation. Both answers are compared without the
    acknowledgements of a connection that is closed in the same step."""
    if "CLOSED" not in line or " | " not in line:
        return line
    res, _, rest = line.partition(" | ")

    def fix(m):
        pk = m.group(2).split(" ") if m.group(2) else []
        if "CLOSED" in pk:
            pk = [x for x in pk if not (x.startswith("puback(") or x.startswith("pubcomp("))]
        return f"{m.group(1)}:[{' '.join(pk)}]"
    return res + " | " + re.sub(r"(\S+?):\[([^\]]*)\]", fix, rest)


def strip_mid(p):
    p = re.sub(r",m=#\d+\)$", ")", p)
    p = re.sub(r"^pubrel\((#|raw)\d+\)$", "pubrel", p)
    return p


def pubstr(topic, payload, qos, retain, dup):
    return f"publish(t={topic},p={payload if payload else '-'},q={qos},r={retain},d={dup})"


class Scenario:
    def __init__(self, rng, nnodes, mounts=1, settle=None, real_log=False, prefix_names=False):
        self.rng = rng
        self.nn = nnodes
        self.ops = [f"reset {nnodes}" + (" real" if real_log else "")]
        self.exp = {}        # op index -> (dict client -> sorted list of stripped packets, rule)
        self.clients = {}    # name -> dict
        self.retained = {}   # (mount, topic) -> (payload, qos, dup)
        self.mounts = (PREFIX_MOUNTS if prefix_names else MOUNTS)[:mounts]
        self.prefix_names = prefix_names
        self.k = 0
        self.mid = 10
        self.dirty = False   # gossip pending
        self.now = 0         # the connections' clock (ms): moved by `elapse`
        self.handshakes = {} # connection opened without CONNECT -> deadline for its CONNECT packet
        self.pushpull = False   # gossip() may replace broadcasts by full-state exchanges
        self.reuse_cids = False # connect() may re-use the client identifier of a session that has ended

    # ---- helpers
    def emit(self, op, expect=None, rule="unexpected-packets"):
        self.ops.append(op)
        if expect is not None:
            self.exp[len(self.ops) - 1] = ({c: sorted(v) for c, v in expect.items() if v}, rule)
        # keep-alive bookkeeping: a session's read deadline is re-armed (twice its keep-alive) after every packet it
        # sends and by every delivery written to it
        f = op.split(" ")
        touched = set(expect or {})
        if len(f) > 1:
            touched.add(f[1])
        for c in touched:
            v = self.clients.get(c)
            if v and v["alive"]:
                v["deadline"] = self.now + 2000 * v.get("ka", 60)

    def gossip(self):
        if self.nn > 1:
            if self.pushpull and self.rng.random() < 0.3:
                # every broadcast is lost; the nodes learn of each other's changes from full-state exchanges only
                for a in range(self.nn):
                    for b in range(self.nn):
                        if a != b:
                            self.ops.append(f"losegossip {a} {b}")
                for a in range(self.nn):
                    for b in range(self.nn):
                        if a != b:
                            self.emit(f"sync {a} {b}", {}, "unexpected-packets")
                self.dirty = False
                return
            self.emit("gossip", {})
            if self.rng.random() < 0.25:
                # a push/pull exchange re-delivers everything one node knows: on a converged cluster it changes nothing
                a, b = self.rng.sample(range(self.nn), 2)
                self.emit(f"sync {a} {b}", {}, "push-pull-changed-something")
        self.dirty = False

    def alive(self):
        return [c for c, v in self.clients.items() if v["alive"]]

    def deliveries(self, mount, topic, payload, dup, retain=0):
        out = {}
        for c, v in self.clients.items():
            if not v["alive"] or v["mount"] != mount:
                continue
            for f, q in v["subs"].items():
                if mqtt_match(f.split("/"), topic.split("/")):
                    out.setdefault(c, []).append(pubstr(topic, payload, q, retain, dup))
        return out

    def ack_receivers(self, deliv):
        for c in sorted(deliv):
            q2 = sum(1 for p in deliv[c] if ",q=2," in p)
            if any(",q=1," in p or ",q=2," in p for p in deliv[c]):
                self.emit(f"ackall {c}", {c: ["pubrel"] * q2}, "handshake")

    # ---- ops
    def connect(self, node=None, mount=None, will=None, cid=None, keepalive=60, name=None):
        self.k += 1
        name = name or f"c{self.k}"
        node = self.rng.randrange(self.nn) if node is None else node
        mount = mount or self.rng.choice(self.mounts)
        if not cid and self.prefix_names:
            cand = PREFIX_CID[mount] + str(self.k // 2)
            if not any(v["mount"] == mount and v["cid"] == cand for v in self.clients.values()):
                cid = cand
        if not cid and self.reuse_cids and self.rng.random() < 0.5:
            # a client that comes back: the identifier of a session that has ended (same tenant), not in use now
            gone = sorted({v["cid"] for v in self.clients.values() if not v["alive"] and v["mount"] == mount} -
                          {v["cid"] for v in self.clients.values() if v["alive"] and v["mount"] == mount})
            if gone:
                cid = self.rng.choice(gone)
        cid = cid or f"id{self.k}"
        spec = "-"
        if will:
            spec = f"{will[0]}:{will[1]}:{will[2]}:{will[3]}"
        self.clients[name] = {"node": node, "mount": mount, "cid": cid, "will": will, "subs": {}, "alive": True, "ka": keepalive,
                              "seq": self.k}
        if cid == "~":
            cid = self.clients[name]["cid"] = "0x"      # the empty client identifier: `~` in ops, shown as 0x
        self.emit(f"connect {name} {node} {'~' if cid == '0x' else cid} {mount} {keepalive} {spec}", {name: ["connack(0)"]}, "connect")
        self.gossip()
        return name

    def sub(self, c, filters):
        self.mid += 1
        v = self.clients[c]
        exp = [f"suback({self.mid};{','.join(str(q) for _, q in filters)})"]
        for f, q in filters:
            v["subs"][f] = q
        for f, q in filters:
            for (m, t), (pl, rq, dup) in self.retained.items():
                if m == v["mount"] and mqtt_match(f.split("/"), t.split("/")):
                    exp.append(pubstr(t, pl, q, 1, dup))
        self.emit(f"sub {c} {self.mid} " + ",".join(f"{f if f else '~'}:{q}" for f, q in filters), {c: exp}, "subscribe-replay")
        self.ack_receivers({c: exp})
        self.gossip()

    def unsub(self, c, filters):
        self.mid += 1
        for f in filters:
            self.clients[c]["subs"].pop(f, None)
        self.emit(f"unsub {c} {self.mid} " + ",".join(f if f else "~" for f in filters), {c: [f"unsuback({self.mid})"]}, "unsubscribe")
        self.gossip()

    def pub(self, c, topic, payload, qos, retain=0, dup=0):
        self.mid += 1
        mid = self.mid
        v = self.clients[c]
        deliv = self.deliveries(v["mount"], topic, payload, dup)
        if retain:
            if payload in ("", "-"):
                self.retained.pop((v["mount"], topic), None)
            else:
                self.retained[(v["mount"], topic)] = (payload, qos, dup)
        op = f"pub {c} {topic if topic else '~'} {payload if payload else '-'} {qos} {retain} {dup} {mid}"
        if qos == 2:
            self.emit(op, {c: [f"pubrec({mid})"]}, "qos2-forwarded-early")
            exp = {k: list(x) for k, x in deliv.items()}
            exp.setdefault(c, []).append(f"pubcomp({mid})")
            self.emit(f"rawack {c} pubrel {mid}", exp, "delivery")
        else:
            exp = {k: list(x) for k, x in deliv.items()}
            if qos == 1:
                exp.setdefault(c, []).append(f"puback({mid})")
            self.emit(op, exp, "delivery")
        self.ack_receivers(deliv)
        if retain:
            self.gossip()
        return deliv

    def burst(self, c, topic, qos, first, n):
        """n publishes back to back (payload = 16-bit counter)"""
        v = self.clients[c]
        exp = {}
        for k in range(first, first + n):
            for r, x in self.deliveries(v["mount"], topic, f"{k:04x}", 0).items():
                exp.setdefault(r, []).extend(x)
            if qos == 1:
                exp.setdefault(c, []).append(f"puback({k % 65535 + 1})")
        self.emit(f"burst {c} {topic} {qos} {first} {n}", exp, "acked-publish-not-delivered")
        for r in sorted(exp):
            if any(",q=1," in p or ",q=2," in p for p in exp[r]):
                self.emit(f"ackall {r}", {r: ["pubrel"] * sum(1 for p in exp[r] if ",q=2," in p)}, "handshake")

    def _end_effects(self, c, how, exp, deliv):
        v = self.clients[c]
        v["alive"] = False
        exp.setdefault(c, []).append("CLOSED")
        if how != "disconnect" and v["will"]:
            t, pl, q, r = v["will"]
            d = self.deliveries(v["mount"], t, pl, 0)
            if r:
                if pl in ("", "-"):
                    self.retained.pop((v["mount"], t), None)
                else:
                    self.retained[(v["mount"], t)] = (pl, q, 0)
            for k, x in d.items():
                exp.setdefault(k, []).extend(x)
                deliv.setdefault(k, []).extend(x)

    def end(self, c, how):
        """how: disconnect | drop | connect-again (a second CONNECT packet inside the session: a protocol violation, the
        session ends as by a lost connection)"""
        exp, deliv = {}, {}
        self._end_effects(c, how, exp, deliv)
        if how == "connect-again":
            from checks import wirelib
            v = self.clients[c]
            self.emit(f"raw {c} {wirelib.connect(v['cid'] if v['cid'] != '0x' else '', user=v['mount']).hex()}", exp, "session-end")
        else:
            self.emit(f"{how} {c}", exp, "session-end")
        self.ack_receivers(deliv)
        self.gossip()

    def open(self, node=0):
        """a connection that never sends CONNECT"""
        self.k += 1
        name = f"h{self.k}"
        self.handshakes[name] = (self.now + 3000, self.k)
        self.emit(f"open {name} {node}", {}, "open")
        return name

    def deadlines(self):
        return [v["deadline"] for v in self.clients.values() if v["alive"]] + [d for d, _ in self.handshakes.values()]

    def elapse(self, ms):
        """time passes on the connections' clock: exactly the sessions whose keep-alive allowance (twice the keep-alive
        since their last packet) is exhausted end, as by a lost connection; so do connections that never sent CONNECT
        within 3 s; nobody else is touched"""
        self.now += ms
        exp, deliv = {}, {}
        due = sorted((v["node"], v["seq"], c) for c, v in self.clients.items() if v["alive"] and v["deadline"] < self.now)
        gone = []
        for _, _, c in due:
            if not self.clients[c]["deadline"] < self.now:
                continue      # a will published by an earlier victim was delivered to this one: its allowance was re-armed
            d1 = {}
            self._end_effects(c, "timeout", exp, d1)
            for r, x in d1.items():
                deliv.setdefault(r, []).extend(x)
                if self.clients[r]["alive"]:
                    self.clients[r]["deadline"] = self.now + 2000 * self.clients[r].get("ka", 60)
            gone.append(c)
        due = gone
        for h, (d, _) in sorted(self.handshakes.items(), key=lambda e: e[1][1]):
            if d < self.now:
                exp.setdefault(h, []).append("CLOSED")
                del self.handshakes[h]
        self.emit(f"elapse {ms}", exp, "keep-alive")
        if due:
            self.ack_receivers(deliv)
            self.gossip()
        return due

    def check_state(self):
        """at quiescence every node lists exactly the live sessions and their subscriptions"""
        ss = sorted(f"S,S{c},{v['cid']},{v['mount']},{v['node'] + 1},{self._will(v)}" for c, v in self.clients.items() if v["alive"])
        us = sorted(f"U,S{c},{v['mount']}/{f},{v['node'] + 1},{q}" for c, v in self.clients.items() if v["alive"] for f, q in v["subs"].items())
        rs = sorted(f"R,{m}/{t},{pl},{q},1" for (m, t), (pl, q, d) in self.retained.items())
        for n in range(self.nn):
            reg = sorted("S" + c for c, v in self.clients.items() if v["alive"] and v["node"] == n)
            line = "[" + " ".join(ss) + "] [" + " ".join(us) + "] [" + " ".join(rs) + "] [" + " ".join(reg) + "]"
            self.ops.append(f"state {n}")
            self.exp[len(self.ops) - 1] = (line, "state-after-quiescence")

    def _will(self, v):
        if not v["will"]:
            return "-"
        t, pl, q, r = v["will"]
        return f"{t}:{pl if pl else '-'}:{q}:{r}"


def monitor_for(scenarios_exp):
    """scenarios_exp: op index -> (expected, rule)"""
    def mon(ops, impl):
        out = []
        for i, line in enumerate(impl):
            if i not in scenarios_exp and (line.startswith("panic") or line == "<no-output>"):
                out.append((i, "broker-panicked", f"`{ops[i]}` made the broker panic (in the real broker this goroutine has no recover: the process dies): {line[:200]}"))
            elif i not in scenarios_exp and line.startswith("RUNAWAY"):
                out.append((i, "broker-never-quiet", f"`{ops[i]}`: {line}"))
                break
        for i, line in enumerate(impl):
            # MQTT packet identifiers are 1..65535: a pool with more free identifiers than that hands out one that does
            # not fit the wire format (it would be truncated to another delivery's identifier)
            m = re.match(r"free=(\d+) top=(\d+)", line) if ops[i].startswith("pool ") else None
            if m and (int(m.group(1)) > 65535 or int(m.group(2)) > 65535):
                out.append((i, "identifier-outside-16-bits", f"`{ops[i]}` = {line}: the writer's pool can hand out {int(m.group(2)) - 1} ({m.group(1)} identifiers free); only 1..65535 exist on the wire"))
        for i, (exp, rule) in scenarios_exp.items():
            line = impl[i]
            if line.startswith("panic") or line == "<no-output>":
                out.append((i, "harness-crash", f"`{ops[i]}` -> {line}"))
                continue
            if line.startswith("RUNAWAY"):
                out.append((i, "broker-never-quiet", f"`{ops[i]}`: {line}"))
                break
            if isinstance(exp, str):
                if line != exp:
                    out.append((i, rule, f"`{ops[i]}` = {line}; the live sessions, their subscriptions and the retained messages are {exp}"))
                continue
            res, got = parse_out(line)
            got = {c: sorted(strip_mid(p) for p in v) for c, v in got.items() if v}
            if got != exp:
                diffs = []
                for c in sorted(set(got) | set(exp)):
                    g, e = got.get(c, []), exp.get(c, [])
                    if g != e:
                        miss = [x for x in e if x not in g or g.count(x) < e.count(x)]
                        extra = [x for x in g if x not in e or e.count(x) < g.count(x)]
                        diffs.append(f"{c}: missing {sorted(set(miss))} unexpected {sorted(set(extra))}")
                out.append((i, rule, f"`{ops[i]}`: " + "; ".join(diffs)[:600]))
        return out
    return mon


def gen_converged(rng, nn, mounts, nops, weights=None, retain_p=0.3, clear_p=0.3):
    """a random converged scenario; returns Scenario"""
    sc = Scenario(rng, nn, mounts, prefix_names=(mounts > 1 and rng.random() < 0.4))
    sc.pushpull = rng.random() < 0.4
    sc.reuse_cids = rng.random() < 0.6
    w = {"connect": 2, "sub": 4, "unsub": 1, "pub": 6, "end": 1, "state": 0.5}
    if weights:
        w.update(weights)
    for _ in range(rng.choice([2, 3])):
        will = rng.choice([None, None, ("w/t", rng.choice(["dead", "00"]) if False else rng.choice(["6465", "00"]), rng.choice([0, 1]), rng.choice([0, 1]))])
        sc.connect(will=will)
    kinds = list(w)
    hot = rng.choice(["a/b", "a/#", "+/b"])
    for _ in range(nops):
        k = rng.choices(kinds, [w[x] for x in kinds])[0]
        alive = sc.alive()
        if k == "connect" or not alive:
            if len(sc.clients) < 7:
                will = rng.choice([None, ("w/t", rng.choice(["6465", "-"]), rng.choice([0, 1, 2]), rng.choice([0, 0, 1]))])
                sc.connect(will=will)
        elif k == "sub":
            c = rng.choice(alive)
            fl = rng.sample(FILTERS, rng.choice([1, 1, 2, 3]))
            if rng.random() < 0.3:
                fl = [hot]      # several sessions, on whichever nodes they live, under one and the same filter
            sc.sub(c, [(f, rng.choice([0, 1, 2])) for f in fl])
        elif k == "unsub":
            c = rng.choice(alive)
            subs = list(sc.clients[c]["subs"])
            fl = rng.sample(subs, min(len(subs), rng.choice([1, 2]))) if subs and rng.random() < 0.8 else [rng.choice(FILTERS)]
            sc.unsub(c, fl)
        elif k == "pub":
            c = rng.choice(alive)
            retain = 1 if rng.random() < retain_p else 0
            payload = rng.choice(["01", "0203", "ff"]) if not (retain and rng.random() < clear_p) else "-"
            sc.pub(c, rng.choice(TOPICS), payload, rng.choice([0, 1, 1, 2]), retain, 0)
        elif k == "end":
            if len(alive) > 1:
                sc.end(rng.choice(alive), rng.choice(["disconnect", "drop", "drop", "connect-again"]))
        elif k == "state":
            sc.check_state()
    sc.check_state()
    return sc


def run_scenarios(c, name, scenarios, samples, extra_stats=None):
    ops, exp = [], {}
    for sc in scenarios:
        base = len(ops)
        ops += sc.ops
        for i, e in sc.exp.items():
            exp[base + i] = e
    ops.append("bye")
    st = {"cases": len(scenarios), "nontrivial": len(scenarios)}
    if extra_stats:
        st.update(extra_stats)
    c.run_suite(Suite(name, "broker", ops, monitor_for(exp), st, resets=("reset",), retry_args=["200"], canon=canon_async_acks), timeout=900 if c.tier == "quick" else 7200)
    samples.append({"suite": name, "ops": ops[:14]})


def add_c01_suites(c, samples):
    rng = c.rng
    n = 12 if c.tier == "quick" else 150
    scs = corpus(rng, ["broken-recipient", "alternating-hosts", "slow-qos2", "retransmit-then-next", "fanout-unacked-retransmit"])
    scs += [gen_retransmit(rng, rng.choice([1, 2])) for _ in range(4 if c.tier == "quick" else 60)]
    scs += [gen_broken_recipient_qos(rng) for _ in range(10 if c.tier == "quick" else 100)]
    scs += [gen_converged(rng, rng.choice([1, 1, 2]), 1, rng.choice([12, 20]), {"pub": 8, "sub": 5, "unsub": 2}) for _ in range(n)]
    run_scenarios(c, "broker-publish-routing", scs, samples)


def add_c07_suites(c, samples):
    rng = c.rng
    n = 10 if c.tier == "quick" else 120
    scs = []
    for _ in range(n):
        sc = gen_converged(rng, rng.choice([1, 2]), 1, rng.choice([10, 16]), {"pub": 7, "sub": 6, "connect": 3}, retain_p=0.65, clear_p=0.4)
        scs.append(sc)
    scs = corpus(rng, ["clear-before-publish-arrives"]) + scs
    run_scenarios(c, "broker-retained-replay", scs, samples)


# ------------------------------------------------------------------------------------------------ C03: retransmission

def gen_retransmit(rng, nn=1):
    """deliveries left unacknowledged, sweeps, client answers: ack / silence / wrong type / wrong id / disconnect"""
    sc = Scenario(rng, nn, 1)
    pubr = sc.connect(node=0)
    subs = [sc.connect(node=rng.randrange(nn)) for _ in range(rng.choice([1, 2, 3]))]
    for s in subs:
        sc.sub(s, [(rng.choice(["a/#", "a/b", "+/b"]), rng.choice([1, 2, 1, 2, 0]))])
    outstanding = {s: [] for s in subs}   # per client: list of [content, phase] ; phase: 'pub1' | 'pub2' | 'rel'
    counters = {s: 0 for s in subs}
    after_sweep = False
    for _ in range(rng.choice([4, 7, 10])):
        r = rng.random()
        if after_sweep and rng.random() < 0.7:
            r = 0.0   # a fresh message right after a sweep: identifiers released too early would collide now
        after_sweep = False
        live = [s for s in subs if sc.clients[s]["alive"]]
        if r < 0.4 or not any(outstanding[s] for s in live):
            # a new message: left unacknowledged
            sc.mid += 1
            payload = "%02x" % (sc.mid % 256)
            deliv = sc.deliveries("mp", "a/b", payload, 0)
            exp = {k: list(v) for k, v in deliv.items()}
            exp.setdefault(pubr, []).append(f"puback({sc.mid})")
            sc.emit(f"pub {pubr} a/b {payload} 1 0 0 {sc.mid}", exp, "delivery")
            for k, v in deliv.items():
                for p in sorted(v):
                    if ",q=0," in p:
                        continue
                    counters[k] += 1
                    outstanding[k].append([p, "pub", counters[k]])
        elif r < 0.65:
            # sweeps: everything outstanding for live sessions is sent again, same identifier
            node = rng.randrange(nn)
            exp = {}
            for s in live:
                if sc.clients[s]["node"] != node:
                    continue
                for p, phase, can in outstanding[s]:
                    exp.setdefault(s, []).append(p if phase == "pub" else "pubrel")
            sc.emit(f"expire {node}", exp, "retransmission")
            after_sweep = True
        elif r < 0.85:
            s = rng.choice([x for x in live if outstanding[x]] or live)
            if not outstanding[s]:
                continue
            ent = rng.choice(outstanding[s])
            p, phase, can = ent
            how = rng.choice(["right", "right", "wrongtype", "wrongid"])
            if how == "wrongid":
                sc.emit(f"rawack {s} puback {rng.choice([7777, 0, 65535])}", {}, "wrong-id-disturbed")
            elif how == "wrongtype":
                kind = "pubcomp" if phase == "pub" else "pubrec"
                if ",q=2," in p and phase == "pub":
                    kind = "puback"
                sc.emit(f"ack {s} {kind} #{can}", {}, "wrong-type-disturbed")
            else:
                if ",q=1," in p:
                    sc.emit(f"ack {s} puback #{can}", {}, "ack")
                    outstanding[s].remove(ent)
                elif phase == "pub":
                    sc.emit(f"ack {s} pubrec #{can}", {s: ["pubrel"]}, "qos2-phase")
                    ent[1] = "rel"
                else:
                    sc.emit(f"ack {s} pubcomp #{can}", {}, "ack")
                    outstanding[s].remove(ent)
        else:
            s = rng.choice(live)
            if len(live) > 1:
                sc.end(s, rng.choice(["disconnect", "drop"]))
                outstanding[s] = []
                # after the session ended a sweep sends nothing for it and releases its identifiers
                sc.emit(f"expire {sc.clients[s]['node']}", {k: [q if ph == "pub" else "pubrel" for q, ph, _ in outstanding[k]] for k in subs
                                                          if sc.clients[k]["alive"] and sc.clients[k]["node"] == sc.clients[s]["node"]}, "retransmission")
    for n in range(nn):
        sc.ops.append(f"pool {n}")
    return sc


# ------------------------------------------------------------------------------------------------ C05 / C14: faults and placement

def gen_faults(rng, nn):
    sc = Scenario(rng, nn, 1)
    pubr = sc.connect(node=0)
    subs = []
    common = rng.random() < 0.7
    for n in range(nn):
        for k in range(rng.choice([0, 1, 1, 2]) if not common else rng.choice([1, 1, 2])):
            c = sc.connect(node=n)
            f = "t/#" if (common and k == 0) else rng.choice(["t/#", "t/a", "+/a", "u"])
            sc.sub(c, [(f, rng.choice([0, 1]))])
            subs.append(c)
    for _ in range(rng.choice([3, 5, 8])):
        # choose a fault pattern
        down = [n for n in range(1, nn) if rng.random() < 0.45]
        logfail = [n for n in range(nn) if rng.random() < 0.25]
        for n in range(1, nn):
            sc.ops.append(f"unreachable {n} {1 if n in down else 0}")
        for n in range(nn):
            sc.ops.append(f"logfail {n} {'all' if n in logfail else 'none'}")
        topic = rng.choice(["t/a", "t/b", "u", "v"])
        qos = rng.choice([0, 1, 1, 2])
        sc.mid += 1
        mid = sc.mid
        payload = "%02x" % (mid % 256) if rng.random() < 0.8 else ""      # an empty payload is a message like any other
        # destinations = nodes hosting a matching subscription
        dest = sorted({sc.clients[c]["node"] for c in subs if sc.clients[c]["alive"] and any(mqtt_match(f.split("/"), topic.split("/")) for f in sc.clients[c]["subs"])})
        failed = [n for n in dest if n in logfail or (n in down and n != 0)]
        deliv = {}
        for c in subs:
            v = sc.clients[c]
            if v["alive"] and v["node"] in dest and v["node"] not in failed:
                for f, q in v["subs"].items():
                    if mqtt_match(f.split("/"), topic.split("/")):
                        deliv.setdefault(c, []).append(pubstr(topic, payload, q, 0, 0))
        if qos == 2:
            sc.emit(f"pub {pubr} {topic} {payload or '-'} 2 0 0 {mid}", {pubr: [f"pubrec({mid})"]}, "qos2-forwarded-early")
            if rng.random() < 0.3:
                # the client never sends PUBREL: the handshake times out; nothing may be forwarded, now or later
                sc.emit("expire 0", {}, "qos2-forwarded-on-timeout")
                sc.emit(f"rawack {pubr} pubrel {mid}", {}, "qos2-forwarded-after-timeout")
                for n in range(nn):
                    sc.ops.append(f"log {n}")
                continue
            exp = {k: list(v) for k, v in deliv.items()}
            if not failed:
                exp.setdefault(pubr, []).append(f"pubcomp({mid})")
            sc.emit(f"rawack {pubr} pubrel {mid}", exp, "ack-despite-failed-write" if failed else "delivery")
            if rng.random() < 0.5:
                # a repeated PUBREL must not forward again
                sc.emit(f"rawack {pubr} pubrel {mid}", {}, "qos2-forwarded-twice")
        else:
            exp = {k: list(v) for k, v in deliv.items()}
            if qos == 1 and not failed:
                exp.setdefault(pubr, []).append(f"puback({mid})")
            sc.emit(f"pub {pubr} {topic} {payload or '-'} {qos} 0 0 {mid}", exp, "ack-despite-failed-write" if failed else "delivery")
        sc.ack_receivers(deliv)
        for n in range(nn):
            sc.ops.append(f"log {n}")
    return sc


# ------------------------------------------------------------------------------------------------ C11 / C12 / C13 / C17: lifecycle

def gen_lifecycle(rng, nn, mounts=1, takeover=0.25, fine_gossip=False):
    """connect / subscribe / publish / ping / disconnect / drop / take-over, with gossip either fully delivered after
    every change (oracle applies) or delivered link by link in random order (model comparison only)"""
    sc = Scenario(rng, nn, mounts, prefix_names=(mounts > 1 and not fine_gossip and rng.random() < 0.4))
    sc.pushpull = (not fine_gossip) and rng.random() < 0.4
    cids = {}
    opaque = False
    for _ in range(rng.choice([6, 10, 16])):
        if opaque:
            break
        r = rng.random()
        alive = sc.alive()
        if r < 0.25 or not alive:
            if len(sc.clients) >= 8:
                continue
            will = rng.choice([None, ("w/t", rng.choice(["6465", "00"]), rng.choice([0, 1]), rng.choice([0, 0, 1]))])
            mount = rng.choice(sc.mounts)
            cid = None
            if rng.random() < 0.12 and not any(v["cid"] == "0x" and v["mount"] == mount for v in sc.clients.values()):
                cid = "0x"      # the empty client identifier is an identifier like any other
            if alive and rng.random() < takeover:
                # re-use a client id that is in use (in the same or another mount point)
                victim = rng.choice(alive)
                cid = sc.clients[victim]["cid"]
                if rng.random() < 0.7:
                    mount = sc.clients[victim]["mount"]
            name = f"c{sc.k + 1}"
            displaced = [c for c in alive if cid and sc.clients[c]["cid"] == cid and sc.clients[c]["mount"] == mount]
            if fine_gossip:
                sc.k += 1
                spec = "-" if not will else f"{will[0]}:{will[1]}:{will[2]}:{will[3]}"
                node = rng.randrange(nn)
                sc.clients[name] = {"node": node, "mount": mount, "cid": cid or f"id{sc.k}", "will": will, "subs": {}, "alive": True}
                sc.ops.append(f"connect {name} {node} {'~' if cid == '0x' else (cid or f'id{sc.k}')} {mount} 60 {spec}")
            else:
                sc.connect(mount=mount, will=will, cid=cid)
            for d in displaced:
                sc.clients[d]["displaced"] = True
        elif r < 0.45:
            c = rng.choice(alive)
            fl = rng.sample(["a/#", "a/b", "#", "+/t", "w/#"], rng.choice([1, 2]))
            if fine_gossip or sc.clients[c].get("displaced"):
                sc.mid += 1
                for f in fl:
                    sc.clients[c]["subs"][f] = 1
                sc.ops.append(f"sub {c} {sc.mid} " + ",".join(f"{f}:1" for f in fl))
                sc.ops.append(f"ackall {c}")
            else:
                sc.sub(c, [(f, rng.choice([0, 1])) for f in fl])
        elif r < 0.62:
            c = rng.choice(alive)
            if fine_gossip or any(v.get("displaced") for v in sc.clients.values()):
                sc.mid += 1
                t_, q_, r_ = rng.choice(['a/b', 'w/t', 'a']), rng.choice([0, 1]), rng.choice([0, 0, 1])
                sc.ops.append(f"pub {c} {t_} 01 {q_} {r_} 0 {sc.mid}")
                if r_:
                    sc.retained[(sc.clients[c]["mount"], t_)] = ("01", q_, 0)
                for x in sc.alive():
                    sc.ops.append(f"ackall {x}")
                if r_ and not fine_gossip:
                    sc.gossip()      # the oracle speaks about converged clusters only
            else:
                sc.pub(c, rng.choice(["a/b", "w/t", "a"]), "01", rng.choice([0, 1]), rng.choice([0, 0, 1]))
        elif r < 0.75:
            c = rng.choice(alive)
            if sc.clients[c].get("displaced"):
                # the displaced session is dropped at its keep-alive exchange, silently (no will)
                sc.clients[c]["alive"] = False
                sc.ops.append(f"ping {c}")
                sc.ops.append("gossip") if not fine_gossip and nn > 1 else None
            elif fine_gossip:
                sc.ops.append(f"ping {c}")
            else:
                sc.emit(f"ping {c}", {c: ["pingresp"]}, "healthy-session-ended")
        elif r < 0.9:
            c = rng.choice(alive)
            how = rng.choice(["disconnect", "drop"])
            if fine_gossip or sc.clients[c].get("displaced") or any(v.get("displaced") and v["alive"] for v in sc.clients.values()):
                sc.clients[c]["alive"] = False
                sc.ops.append(f"{how} {c}")
                v_ = sc.clients[c]
                if how == "drop" and v_["will"] and v_.get("displaced"):
                    # whether a displaced session's will is published depends on whether its displacer's record is
                    # still there: the oracle stays out of it (the model comparison does not)
                    opaque = True
                if how == "drop" and v_["will"] and v_["will"][3] and not v_.get("displaced"):
                    sc.retained[(v_["mount"], v_["will"][0])] = (v_["will"][1], v_["will"][2], 0)
                for x in sc.alive():
                    sc.ops.append(f"ackall {x}")
                if not fine_gossip:
                    sc.gossip()
            else:
                sc.end(c, how)
        else:
            if fine_gossip and nn > 1:
                a, b = rng.sample(range(nn), 2)
                sc.ops.append(f"bc {a} {b}")
        if fine_gossip and nn > 1 and rng.random() < 0.6:
            a, b = rng.sample(range(nn), 2)
            if rng.random() < 0.5:
                sc.ops.append(f"bc {a} {b}")
            else:
                # one payload overtakes the others on this link (a removal may arrive before the creation it removes)
                for _ in range(rng.choice([1, 2, 3])):
                    sc.ops.append(f"bcone {a} {b} {rng.choice([0, 1, 1, 2, 3, 5])}")
    if fine_gossip:
        sc.ops.append("gossip")
        sc.ops.append("gossip")
    # drain displaced sessions so that the final state is determined
    for c, v in sc.clients.items():
        if v["alive"] and v.get("displaced"):
            v["alive"] = False
            sc.ops.append(f"ping {c}")
    if nn > 1:
        sc.ops.append("gossip")
    if not fine_gossip and not opaque:
        sc.check_state()
    else:
        for n in range(nn):
            sc.ops.append(f"state {n}")
    return sc


def gen_timing(rng, nn=None):
    """sessions with short keep-alives on a virtual clock: idle periods of any length relative to the keep-alive, at any
    point including right after CONNECT; pings, publishes and deliveries re-arm the allowance; a few connections never
    send CONNECT. The oracle says who must be gone after each period, and that nobody else is."""
    nn = nn or rng.choice([1, 1, 2])
    sc = Scenario(rng, nn, 1)
    w = sc.connect(node=0, keepalive=600)
    sc.sub(w, [("w/#", rng.choice([0, 1]))])
    names = []
    def new_client():
        if len(sc.clients) >= 7:
            return
        ka = rng.choice([1, 1, 2, 3, 5, 32767, 32768, 65535])
        c = sc.connect(keepalive=ka, will=(f"w/{sc.k + 1}", rng.choice(["6279", "00"]), rng.choice([0, 1]), 0))
        names.append(c)
        if rng.random() < 0.5:
            sc.sub(c, [(rng.choice(["a/#", "a/b", "w/#"]), rng.choice([0, 1]))])
    for _ in range(rng.choice([2, 3])):
        new_client()
    for _ in range(rng.choice([8, 12, 16])):
        r = rng.random()
        alive = [c for c in names if sc.clients[c]["alive"]]
        if r < 0.45:
            # a period that ends at least 100 ms away from every deadline
            base = rng.choice([300, 900, 1500, 1900, 2100, 2900, 3100, 3900, 4100, 5900, 6100, 9900, 10100])
            for extra in (0, 200, 400, 600, 800, 1000):
                if all(abs(d - (sc.now + base + extra)) >= 100 for d in sc.deadlines()):
                    sc.elapse(base + extra)
                    break
        elif r < 0.7 and alive:
            c = rng.choice(alive)
            sc.emit(f"ping {c}", {c: ["pingresp"]}, "healthy-session-ended")
        elif r < 0.82:
            sc.pub(w, rng.choice(["a/b", "a", "b"]), "01", rng.choice([0, 1]))
        elif r < 0.9:
            new_client()
        elif r < 0.96:
            sc.open(node=rng.randrange(nn))
        else:
            sc.check_state()
    # everybody falls silent for good
    while any(sc.clients[c]["alive"] and sc.clients[c]["ka"] < 1000 for c in names) or sc.handshakes:
        sc.elapse(10300)
    for c in names:
        if sc.clients[c]["alive"]:
            sc.emit(f"ping {c}", {c: ["pingresp"]}, "healthy-session-ended")
    sc.check_state()
    return sc


def corpus_idle_right_after_connect(rng):
    """a client may stay silent for up to twice its keep-alive right after CONNECT, also when that is longer than the
    3 s allowed for the CONNECT packet itself"""
    sc = Scenario(rng, 1, 1)
    w = sc.connect(node=0, keepalive=600)
    sc.sub(w, [("w/#", 0)])
    c = sc.connect(node=0, keepalive=5, will=("w/c", "6279", 0, 0))
    sc.elapse(3500)
    sc.emit(f"ping {c}", {c: ["pingresp"]}, "healthy-session-ended")
    sc.elapse(9000)
    sc.emit(f"ping {c}", {c: ["pingresp"]}, "healthy-session-ended")
    sc.elapse(10100)
    sc.check_state()
    return sc


def add_timing_suites(c, samples):
    n = 10 if c.tier == "quick" else 200
    scs = [corpus_idle_right_after_connect(c.rng)] + [gen_timing(c.rng) for _ in range(n)]
    run_scenarios(c, "keep-alive-virtual-clock", scs, samples)
    if c.tier != "quick":
        # the same behaviour on the wall clock (the virtual clock must not be what makes it true)
        sc = Scenario(c.rng, 1, 1)
        sc.ops.append("realtime 1")
        w = sc.connect(node=0, keepalive=600)
        sc.sub(w, [("w/#", 0)])
        a = sc.connect(node=0, keepalive=2, will=("w/a", "01", 0, 0))
        b = sc.connect(node=0, keepalive=1, will=("w/b", "02", 0, 0))
        sc.now += 3400
        sc.clients[b]["alive"] = False
        sc.emit("idle 3400", {b: ["CLOSED"], w: [pubstr("w/b", "02", 0, 0, 0)]}, "keep-alive")
        sc.emit(f"ping {a}", {a: ["pingresp"]}, "healthy-session-ended")
        sc.now += 3400
        sc.emit("idle 3400", {}, "keep-alive")
        sc.emit(f"ping {a}", {a: ["pingresp"]}, "healthy-session-ended")
        sc.check_state()
        run_scenarios(c, "keep-alive-wall-clock", [sc], samples)


def gen_nodefail(rng, clean, mounts=None, wt=None):
    """a session with a will on node 1, watchers on node 0 (and 2); the session ends cleanly or stays; then node 1 fails.
    Will topics are byte strings split at '/', nothing else: empty levels, '.', '..' and a leading '/' mean themselves."""
    nn = rng.choice([2, 3])
    sc = Scenario(rng, nn, mounts or rng.choice([1, 2]))
    wt = wt or rng.choice(["w/t", "w//t", "/w", "w/t/", "../w", "w/./t", "w/../t"])
    watchers = []
    for n in [0] + ([2] if nn == 3 else []):
        for m in sc.mounts:
            w = sc.connect(node=n, mount=m)
            # every watcher's filter matches the will topic: a will that is (or is not) published is always seen
            sc.sub(w, [("#" if mounts else rng.choice(["#", wt]), rng.choice([0, 1]))])
            watchers.append(w)
    dying = sc.connect(node=1, mount=sc.mounts[0], will=(wt, rng.choice(["6279", "00"]), rng.choice([0, 1]), 0))
    # a second session on the failing node, in the LAST mount point, with a will of its own when that is another tenant
    owill = (wt, "6f74", rng.choice([0, 1]), 0) if len(sc.mounts) > 1 else None
    other = sc.connect(node=1, mount=sc.mounts[-1], will=owill)
    sc.sub(dying, [("x", 1)])
    if clean:
        sc.end(dying, "disconnect")
    v = sc.clients[dying]
    # node 1 fails: its clients lose their connections; each survivor publishes the wills of the listed sessions of node 1
    exp = {}
    for c_, cv in sc.clients.items():
        if cv["alive"] and cv["node"] == 1:
            exp[c_] = ["CLOSED"]
    if not clean:
        for w in watchers:
            wv = sc.clients[w]
            if wv["mount"] != v["mount"]:
                continue
            for f, q in wv["subs"].items():
                if mqtt_match(f.split("/"), wt.split("/")):
                    exp.setdefault(w, []).append(pubstr(wt, v["will"][1], q, 0, 0))
    if owill:
        for w in watchers:
            wv = sc.clients[w]
            if wv["mount"] != sc.clients[other]["mount"]:
                continue
            for f, q in wv["subs"].items():
                if mqtt_match(f.split("/"), wt.split("/")):
                    exp.setdefault(w, []).append(pubstr(wt, owill[1], q, 0, 0))
    for c_, cv in sc.clients.items():
        if cv["node"] == 1:
            cv["alive"] = False
    sc.emit("nodefail 1", exp, "will-on-node-failure")
    for w in watchers:
        sc.ops.append(f"ackall {w}")
    # the failed peer's subscriptions are gone at once, its session records after the 3 s grace period — on every
    # survivor by its own doing (before the survivors' broadcasts reach one another), and still after they have
    sc.ops.append("idle 3200")
    for phase in ("own", "gossip"):
        if phase == "gossip":
            sc.ops.append("gossip")
        for n in range(nn):
            if n != 1:
                ss = sorted(f"S,S{c_},{cv['cid']},{cv['mount']},{cv['node'] + 1},{sc._will(cv)}" for c_, cv in sc.clients.items() if cv["alive"])
                us = sorted(f"U,S{c_},{cv['mount']}/{f},{cv['node'] + 1},{q}" for c_, cv in sc.clients.items() if cv["alive"] for f, q in cv["subs"].items())
                reg = sorted("S" + c_ for c_, cv in sc.clients.items() if cv["alive"] and cv["node"] == n)
                sc.ops.append(f"state {n}")
                sc.exp[len(sc.ops) - 1] = ("[" + " ".join(ss) + "] [" + " ".join(us) + "] [] [" + " ".join(reg) + "]", "traces-of-failed-node")
    return sc


def _expect_after_nodefail(sc, failed):
    """the failed peer's subscriptions are gone at once, its session records after the 3 s grace period"""
    sc.ops.append("idle 3200")
    sc.ops.append("gossip")
    for n in range(sc.nn):
        if n != failed:
            ss = sorted(f"S,S{c_},{cv['cid']},{cv['mount']},{cv['node'] + 1},{sc._will(cv)}" for c_, cv in sc.clients.items() if cv["alive"])
            us = sorted(f"U,S{c_},{cv['mount']}/{f},{cv['node'] + 1},{q}" for c_, cv in sc.clients.items() if cv["alive"] for f, q in cv["subs"].items())
            reg = sorted("S" + c_ for c_, cv in sc.clients.items() if cv["alive"] and cv["node"] == n)
            sc.ops.append(f"state {n}")
            sc.exp[len(sc.ops) - 1] = ("[" + " ".join(ss) + "] [" + " ".join(us) + "] [] [" + " ".join(reg) + "]", "traces-of-failed-node")


def _raw_connect(sc, node, mount, will=None, cid=None):
    """CONNECT without delivering the resulting gossip"""
    sc.k += 1
    name = f"c{sc.k}"
    cid = cid or f"id{sc.k}"
    spec = "-" if not will else f"{will[0]}:{will[1]}:{will[2]}:{will[3]}"
    sc.clients[name] = {"node": node, "mount": mount, "cid": cid, "will": will, "subs": {}, "alive": True, "ka": 60, "seq": sc.k}
    sc.emit(f"connect {name} {node} {cid} {mount} 60 {spec}", {name: ["connack(0)"]}, "connect")
    return name


def gen_nodefail_partial_knowledge(rng, variant):
    """node 1 fails while the survivors know only part of what it hosted:
    sub-only    the subscription broadcast of a session reached node 0, its session record did not
    takeover    the session on node 1 was displaced by a newer one on node 0 (record tombstoned) but not yet told
    late-joiner node 2 learnt node 1's sessions (two, with wills) only from a full-state exchange"""
    nn = 3 if variant == "late-joiner" else 2
    sc = Scenario(rng, nn, 1)
    m = sc.mounts[0]
    watchers = []
    for n in [0] + ([2] if nn == 3 else []):
        w = sc.connect(node=n, mount=m)
        sc.sub(w, [(rng.choice(["#", "w/#"]), rng.choice([0, 1]))])
        watchers.append(w)
    wills = {}
    if variant == "sub-only":
        x = _raw_connect(sc, 1, m)
        sc.ops.append("losegossip 1 0")
        sc.mid += 1
        sc.clients[x]["subs"]["q/#"] = 1
        sc.emit(f"sub {x} {sc.mid} q/#:1", {x: [f"suback({sc.mid};1)"]}, "subscribe")
        sc.ops.append("bc 1 0")
    elif variant == "takeover":
        x = sc.connect(node=1, mount=m, cid="idX")
        sc.sub(x, [("q/#", 1)])
        y = sc.connect(node=0, mount=m, cid="idX")
    else:
        for k in range(rng.choice([2, 3])):
            d = _raw_connect(sc, 1, m, will=(f"w/{k}", "6279", rng.choice([0, 1]), 0))
            wills[d] = sc.clients[d]["will"]
        sc.ops.append("bc 1 0")
        sc.ops.append("losegossip 1 2")
        sc.ops.append("sync 1 2")
    exp = {}
    for c_, cv in sc.clients.items():
        if cv["alive"] and cv["node"] == 1:
            exp[c_] = ["CLOSED"]
    for d, (wt, wp, wq, wr) in wills.items():
        for w in watchers:
            for f, q in sc.clients[w]["subs"].items():
                if mqtt_match(f.split("/"), wt.split("/")):
                    exp.setdefault(w, []).append(pubstr(wt, wp, q, 0, 0))
    for c_, cv in sc.clients.items():
        if cv["node"] == 1:
            cv["alive"] = False
    sc.emit("nodefail 1", exp, "will-on-node-failure")
    for w in watchers:
        sc.ops.append(f"ackall {w}")
    _expect_after_nodefail(sc, 1)
    return sc


def add_nodefail_suites(c, samples):
    n = 2 if c.tier == "quick" else 16
    scs = []
    for k in range(n):
        scs.append(gen_nodefail(c.rng, clean=(k % 2 == 1), mounts=2 if k % 4 == 0 else None))
    for k in range(1 if c.tier == "quick" else 6):
        for v in ("sub-only", "takeover", "late-joiner"):
            scs.append(gen_nodefail_partial_knowledge(c.rng, v))
    run_scenarios(c, "node-failure", scs, samples)


def gen_reallog_backlog(rng):
    """a publisher far ahead of the scheduler when the consumer crosses the first truncation point: 1100 QoS 0 publishes
    in one go from offset ~1900 (truncation is measured from the consumer's position, not from the end of the log)"""
    sc = Scenario(rng, 1, 1, real_log=True)
    p = sc.connect(node=0)
    s1 = sc.connect(node=0)
    sc.sub(s1, [("a/#", 0)])
    k = 0
    for n in (250, 250, 250, 250, 250, 250, 250, rng.choice([120, 150, 180])):
        sc.burst(p, "a/b", 1, k, n)
        k += n
    sc.burst(p, "a/b", 0, k, 1100)
    k += 1100
    sc.burst(p, "a/b", 1, k, 40)
    sc.check_state()
    return sc


def gen_reallog(rng, total, nn=1):
    """a long publish history through the real commit-log store of each node: segment rolls (every 500 entries) and
    truncation (when the consumer passes 2000, 3000, …) happen while publishers keep the writer behind the scheduler"""
    sc = Scenario(rng, nn, 1, real_log=True)
    pubs = [sc.connect(node=rng.randrange(nn)) for _ in range(rng.choice([1, 2]))]
    subs = [sc.connect(node=n) for n in range(nn)]
    if rng.random() < 0.5:
        subs.append(sc.connect(node=0))
    for s_ in subs:
        sc.sub(s_, [(rng.choice(["a/#", "a/b", "#"]), rng.choice([0, 0, 1]))])
    k = 0
    while k < total:
        n = min(rng.choice([1, 7, 60, 250, 250, 250]), total - k)
        if (k + n) % 1000 == 0:
            n += 37     # a truncation point is crossed inside a burst, never exactly at its end
        sc.burst(rng.choice(pubs), "a/b", rng.choice([0, 1, 1]), k, n)
        k += n
    sc.check_state()
    return sc


def gen_reallog_stalled_recipient(rng):
    """one subscriber stops reading for a while (the writer is held up in its write, the scheduler behind it, the log
    consumer behind that) while a publisher stores more messages than the writer's queue holds: when the subscriber reads
    again every message reaches every subscriber"""
    sc = Scenario(rng, 1, 1, real_log=True)
    p = sc.connect(node=0)
    slow = sc.connect(node=0)
    fast = sc.connect(node=0)
    sc.sub(slow, [("a/#", 0)])
    sc.sub(fast, [("a/b", 0)])
    sc.burst(p, "a/b", 1, 0, 3)
    sc.ops.append(f"stall {slow} {rng.choice([1200, 1500, 1800])}")
    sc.burst(p, "a/b", 1, 3, rng.choice([40, 60, 90]))
    sc.burst(p, "a/b", 1, 200, 5)
    sc.check_state()
    return sc


def gen_reallog_long_stall(rng, ms=None):
    """a recipient that does not read for longer than any plausible "give up" timer of a hand-over (2.5 - 3.5 s of real
    time; the thorough tier goes beyond 5 s) while more messages than the writer's queue holds wait behind it: the
    hand-over of a log entry has no deadline — every message still reaches every subscriber once reading resumes"""
    sc = Scenario(rng, 1, 1, real_log=True)
    p = sc.connect(node=0)
    slow = sc.connect(node=0)
    fast = sc.connect(node=0)
    sc.sub(slow, [("a/#", 0)])
    sc.sub(fast, [("a/b", 0)])
    sc.burst(p, "a/b", 1, 0, 3)
    sc.ops.append("longsettle 1")
    sc.ops.append(f"stall {slow} {ms or rng.choice([2600, 3100, 3500])}")
    sc.burst(p, "a/b", 1, 3, rng.choice([45, 60, 80]))
    sc.ops.append("longsettle 0")
    sc.burst(p, "a/b", 1, 200, 5)
    sc.check_state()
    return sc


def gen_reallog_stalled_far_behind(rng):
    """the same with a backlog of several log segments (2600 messages, segments of 500) building up behind the stalled
    recipient: whatever the log does to bound its size, nothing that was not handed over may go"""
    sc = Scenario(rng, 1, 1, real_log=True)
    p = sc.connect(node=0)
    slow = sc.connect(node=0)
    fast = sc.connect(node=0)
    sc.sub(slow, [("a/#", 0)])
    sc.sub(fast, [("a/b", 0)])
    sc.burst(p, "a/b", 1, 0, 3)
    sc.ops.append("longsettle 1")
    sc.ops.append(f"stall {slow} {rng.choice([1200, 1500])}")
    sc.burst(p, "a/b", 0, 3, 2600)
    sc.ops.append("longsettle 0")
    sc.burst(p, "a/b", 1, 3000, 5)
    sc.check_state()
    return sc


def add_refused_connect_suite(c, samples):
    """CONNECT packets the broker refuses AFTER authentication, because an identifier cannot be replicated (client id or
    user name — the harness' mount point — that is not valid UTF-8: the session record cannot be encoded): nothing of the
    refused connection stays listed, on any node, and everybody else goes on. These CONNECTs are outside the model (its
    strings are not byte sequences that can be ill-formed): the suite judges the implementation alone."""
    from checks import wirelib
    rng = c.rng
    ops, exp, cases = [], {}, 0
    bad = [bytes([0x69, 0xff, 0xfe]), bytes([0xc3, 0x28]), bytes([0xe2, 0x82]), bytes([0xed, 0xa0, 0x80]), bytes([0xf8, 0x88, 0x80, 0x80, 0x80]), bytes([0x80])]
    for rnd in range(2 if c.tier == "quick" else 12):
        nn = rng.choice([1, 2])
        ops.append(f"reset {nn}")
        ops.append("connect w 0 cw mp 60 -")
        ops.append("sub w 3 wit:0")
        if nn > 1:
            ops.append("gossip")
        listing = f"[S,Sw,cw,mp,1,-] [U,Sw,mp/wit,1,0] [] [Sw]"
        for k, b in enumerate(rng.sample(bad, 4)):
            h = f"h{k}"
            ops.append(f"open {h} 0")
            # encode a well-formed CONNECT of the same lengths and patch the ill-formed bytes in
            if k % 2 == 0:
                good = wirelib.connect("Q" * len(b), user="mp")
                pkt = good.replace(b"Q" * len(b), b)
            else:
                good = wirelib.connect(f"cid{k}", user="Q" * len(b))
                pkt = good.replace(b"Q" * len(b), b)
            ops.append(f"raw {h} {pkt.hex()}")
            exp[len(ops) - 1] = ({h: ["CLOSED"]}, "refused-connect-not-closed")
            if nn > 1:
                ops.append("gossip")
            for n in range(nn):
                ops.append(f"state {n}")
                exp[len(ops) - 1] = (listing if n == 0 else "[S,Sw,cw,mp,1,-] [U,Sw,mp/wit,1,0] [] []", "record-of-refused-connect-listed")
            ops.append("ping w")
            exp[len(ops) - 1] = ({"w": ["pingresp"]}, "bystander-disturbed")
            ops.append(f"pub w wit 0{k} 0 0 0 {20 + k}")
            exp[len(ops) - 1] = ({"w": [pubstr("wit", f"0{k}", 0, 0, 0)]}, "bystander-disturbed")
            cases += 1
    ops.append("bye")
    c.run_suite(Suite("connect-refused-after-authentication-leaves-no-trace", "broker", ops, monitor_for(exp), {"cases": cases, "nontrivial": cases},
                      resets=("reset",), retry_args=["200"], compare=False), timeout=900)
    samples.append({"suite": "connect-refused-after-authentication-leaves-no-trace", "ops": ops[:10]})


def add_reallog_suites(c, samples):
    # the first messages a node ever stores, and a history that crosses the first truncation point
    scs = [gen_reallog(c.rng, 3), gen_reallog_stalled_recipient(c.rng), gen_reallog_long_stall(c.rng), gen_reallog_stalled_far_behind(c.rng), gen_reallog(c.rng, 2300), gen_reallog_backlog(c.rng)]
    if c.tier != "quick":
        scs += [gen_reallog_long_stall(c.rng, 6500), gen_reallog_long_stall(c.rng, 11000), gen_reallog(c.rng, 520, nn=2), gen_reallog(c.rng, 4300), gen_reallog(c.rng, 3200, nn=2)]
    run_scenarios(c, "real-commit-log-long-history", scs, samples)


def add_stalled_consumer_suites(c, samples):
    """C15 at the broker level: the log consumer, the scheduler and the real writer behind a recipient that stops
    reading — whatever was appended is handed over and written, across the truncation points, however long the stall"""
    scs = [gen_reallog_stalled_recipient(c.rng), gen_reallog_long_stall(c.rng), gen_reallog_stalled_far_behind(c.rng)]
    if c.tier != "quick":
        scs += [gen_reallog_long_stall(c.rng, 6500), gen_reallog_long_stall(c.rng, 11000), gen_reallog_backlog(c.rng)]
    run_scenarios(c, "log-backlog-behind-a-stalled-recipient", scs, samples)


# ------------------------------------------------------------------------------------------------ corpus
# Hand-written scenarios for defect classes met so far; they run first in the checks that own them.

def corpus_slow_qos2_then_next(rng):
    """a QoS 2 subscriber that is slow to PUBCOMP (PUBREL times out and is repeated) must still get the next message"""
    sc = Scenario(rng, 1, 1)
    p = sc.connect(node=0)
    s = sc.connect(node=0)
    sc.sub(s, [("a/b", 2)])
    sc.mid += 1
    sc.emit(f"pub {p} a/b 01 1 0 0 {sc.mid}", {p: [f"puback({sc.mid})"], s: [pubstr("a/b", "01", 2, 0, 0)]}, "delivery")
    sc.emit(f"ack {s} pubrec #1", {s: ["pubrel"]}, "qos2-phase")
    sc.emit("expire 0", {s: ["pubrel"]}, "retransmission")
    sc.emit("expire 0", {s: ["pubrel"]}, "retransmission")
    sc.mid += 1
    sc.emit(f"pub {p} a/b 02 1 0 0 {sc.mid}", {p: [f"puback({sc.mid})"], s: [pubstr("a/b", "02", 2, 0, 0)]}, "acked-publish-not-delivered")
    sc.emit(f"ack {s} pubcomp #1", {}, "ack")
    sc.mid += 1
    sc.emit(f"pub {p} a/b 03 1 0 0 {sc.mid}", {p: [f"puback({sc.mid})"], s: [pubstr("a/b", "03", 2, 0, 0)]}, "acked-publish-not-delivered")
    sc.ops.append(f"ackall {s}")
    sc.ops.append("pool 0")
    return sc


def corpus_first_message(rng):
    """the very first message a node stores (log offset 0) is delivered"""
    sc = Scenario(rng, 1, 1)
    p = sc.connect(node=0)
    s = sc.connect(node=0)
    sc.sub(s, [("#", 1)])
    sc.pub(p, "first", "aa", 1)
    sc.pub(p, "second", "bb", 1)
    return sc


def corpus_inbound_outbound_same_id(rng):
    """a client with an open inbound QoS 2 handshake under id n still receives a delivery that draws id n"""
    sc = Scenario(rng, 1, 1)
    p = sc.connect(node=0)
    c = sc.connect(node=0)
    sc.sub(c, [("t", 1)])
    # c opens an inbound handshake under id 1 and does not release it yet
    sc.emit(f"pub {c} other 09 2 0 0 1", {c: ["pubrec(1)"]}, "qos2-forwarded-early")
    sc.mid += 1
    sc.emit(f"pub {p} t 01 1 0 0 {sc.mid}", {p: [f"puback({sc.mid})"], c: [pubstr("t", "01", 1, 0, 0)]}, "acked-publish-not-delivered")
    sc.emit(f"ackall {c}", {}, "ack")
    sc.emit(f"rawack {c} pubrel 1", {c: ["pubcomp(1)"]}, "delivery")
    return sc


def corpus_wrong_type_ack(rng):
    """an acknowledgement of the wrong type leaves the exchange open: it is still retransmitted and can still complete"""
    sc = Scenario(rng, 1, 1)
    p = sc.connect(node=0)
    s = sc.connect(node=0)
    sc.sub(s, [("t", 1)])
    sc.mid += 1
    sc.emit(f"pub {p} t 01 1 0 0 {sc.mid}", {p: [f"puback({sc.mid})"], s: [pubstr("t", "01", 1, 0, 0)]}, "delivery")
    sc.emit(f"ack {s} pubcomp #1", {}, "wrong-type-disturbed")
    sc.emit("expire 0", {s: [pubstr("t", "01", 1, 0, 0)]}, "retransmission")
    sc.emit(f"ack {s} puback #1", {}, "ack")
    sc.emit("expire 0", {}, "retransmission-after-completion")
    sc.ops.append("pool 0")
    return sc


def corpus_removal_overtakes_creation(rng):
    """the gossip of a session's end reaches a peer before the gossip of its beginning: nothing of it may stay listed"""
    sc = Scenario(rng, 2, 1)
    sc.ops.append("connect c1 0 idA mp 60 -")
    sc.ops.append("sub c1 5 a/#:1,b:0")
    sc.ops.append("disconnect c1")
    # pending 0->1: [S-create, U-create a/#, U-create b, U-delete a/#, U-delete b, S-delete]
    for k in (3, 3, 3):
        sc.ops.append(f"bcone 0 1 {k}")
    sc.ops.append("bc 0 1")
    sc.ops.append("state 1")
    sc.exp[len(sc.ops) - 1] = ("[] [] [] []", "ended-session-still-listed")
    sc.ops.append("state 0")
    sc.exp[len(sc.ops) - 1] = ("[] [] [] []", "ended-session-still-listed")
    return sc


def corpus_takeover_seen_out_of_order(rng):
    """X connects on A, B learns of it, X reconnects on B; a third node sees B's gossip before A's: it must resolve X to
    the new session only"""
    sc = Scenario(rng, 3, 1)
    sc.ops.append("connect c1 0 idX mp 60 -")
    sc.ops.append("bc 0 1")
    sc.ops.append("connect c2 1 idX mp 60 -")
    sc.ops.append("bc 1 2")
    sc.ops.append("bc 0 2")
    sc.ops.append("bycid 2 mp idX")
    sc.exp[len(sc.ops) - 1] = ("Sc2", "client-id-resolves-to-displaced-session")
    sc.ops.append("state 2")
    sc.exp[len(sc.ops) - 1] = ("[S,Sc2,idX,mp,2,-] [] [] []", "displaced-session-still-listed")
    sc.ops.append("bc 1 0")
    sc.ops.append("ping c1")
    sc.exp[len(sc.ops) - 1] = ({"c1": ["CLOSED"]}, "displaced-session-still-served")
    sc.ops.append("gossip")
    sc.ops.append("state 0")
    sc.exp[len(sc.ops) - 1] = ("[S,Sc2,idX,mp,2,-] [] [] []", "displaced-session-still-listed")
    return sc


def corpus_same_client_id_two_tenants(rng):
    """the same client identifier live in two mount points: each session keeps being served"""
    sc = Scenario(rng, 1, 2)
    a = sc.connect(node=0, mount="mp", cid="shared")
    b = sc.connect(node=0, mount="mq", cid="shared")
    c = sc.connect(node=0, mount="mr" if "mr" in sc.mounts else "mq", cid="other")
    for _ in range(5):
        for x in (a, b, c):
            sc.emit(f"ping {x}", {x: ["pingresp"]}, "healthy-session-ended")
    sc.check_state()
    return sc


def gen_abandoned_exchanges(rng):
    """valid exchanges abandoned at every stage (the client vanishes or disconnects mid-handshake), followed by expiry sweeps
    and a witness round trip: nothing a client does or omits may take the broker down"""
    sc = Scenario(rng, 1, 1)
    w1 = sc.connect(node=0)
    w2 = sc.connect(node=0)
    sc.sub(w1, [("wit", 0)])
    stages = ["sub-q1-unacked", "sub-q2-unacked", "sub-q2-pubrec", "pub-q2-no-pubrel", "pub-q2-released", "sub-q1-acked"]
    for k, stage in enumerate(rng.sample(stages, len(stages))):
        h = sc.connect(node=0, will=rng.choice([None, ("hw", "01", 1, 0)]))
        q = 2 if "q2" in stage else 1
        if stage.startswith("sub"):
            sc.sub(h, [("x", q)])
            sc.mid += 1
            sc.emit(f"pub {w2} x 0{k} 0 0 0 {sc.mid}", {h: [pubstr("x", f"0{k}", q, 0, 0)]}, "delivery")
            if stage == "sub-q2-pubrec":
                sc.ops.append(f"ack {h} pubrec #1")
            if stage == "sub-q1-acked":
                sc.ops.append(f"ack {h} puback #1")
        else:
            sc.ops.append(f"pub {h} y 0{k} 2 0 0 7")
            if stage == "pub-q2-released":
                sc.ops.append(f"rawack {h} pubrel 7")
        how = rng.choice(["drop", "disconnect"])
        sc.clients[h]["alive"] = False
        sc.ops.append(f"{how} {h}")
        sc.ops.append("expire 0")
        sc.ops.append("expire 0")
        sc.mid += 1
        sc.emit(f"pub {w2} wit {'%02x' % k} 0 0 0 {sc.mid}", {w1: [pubstr("wit", "%02x" % k, 0, 0, 0)]}, "witness-stalled")
    sc.ops.append("pool 0")
    return sc


def corpus_same_client_id_overlapping_qos2(rng):
    """two tenants use the same client identifier and the same packet identifier for overlapping QoS 2 publishes: each
    handshake belongs to its own session"""
    sc = Scenario(rng, 1, 2)
    a = sc.connect(node=0, mount="mp", cid="shared")
    b = sc.connect(node=0, mount="mq", cid="shared")
    wa = sc.connect(node=0, mount="mp")
    wb = sc.connect(node=0, mount="mq")
    sc.sub(wa, [("t", 0)])
    sc.sub(wb, [("t", 0)])
    sc.emit(f"pub {a} t 0a 2 0 0 5", {a: ["pubrec(5)"]}, "qos2-forwarded-early")
    sc.emit(f"pub {b} t 0b 2 0 0 5", {b: ["pubrec(5)"]}, "other-tenant-disturbed")
    sc.emit(f"rawack {b} pubrel 5", {b: ["pubcomp(5)"], wb: [pubstr("t", "0b", 0, 0, 0)]}, "other-tenant-disturbed")
    sc.emit(f"rawack {a} pubrel 5", {a: ["pubcomp(5)"], wa: [pubstr("t", "0a", 0, 0, 0)]}, "other-tenant-disturbed")
    for x in (a, b):
        sc.emit(f"ping {x}", {x: ["pingresp"]}, "healthy-session-ended")
    return sc


def corpus_clear_before_publish_arrives(rng):
    """node 1 clears a retained topic before node 0's (older) retained publish has reached it: once everything is
    delivered the message is retained nowhere"""
    sc = Scenario(rng, 2, 1)
    p0 = sc.connect(node=0)
    p1 = sc.connect(node=1)
    sc.mid += 1
    sc.ops.append(f"pub {p0} r/t 01 0 1 0 {sc.mid}")
    sc.mid += 1
    sc.ops.append(f"pub {p1} r/t - 0 1 0 {sc.mid}")
    sc.ops.append(rng.choice(["bc 0 1", "bc 1 0"]))
    sc.gossip()
    sc.check_state()
    late = sc.connect(node=rng.choice([0, 1]))
    sc.sub(late, [("r/#", 0)])
    return sc


def corpus_ids_return_after_recipient_vanished(rng):
    """recipients vanish while a delivery to them is unacknowledged (QoS 1; QoS 2 before PUBREC; QoS 2 after PUBREC); after
    the expiry sweeps their identifiers are free again, so later deliveries to connected subscribers still go out. The
    pool holds two identifiers and every kind of abandonment happens twice: a leak in any one path exhausts it."""
    sc = Scenario(rng, 1, 1)
    p = sc.connect(node=0)
    sc.ops.append("setpool 0 1 2")
    kinds = ["q1", "q1", "q2-no-pubrec", "q2-no-pubrec", "q2-pubrec", "q2-pubrec"]
    rng.shuffle(kinds)
    for k, kind in enumerate(kinds):
        v = sc.connect(node=0)
        q = 1 if kind == "q1" else 2
        sc.sub(v, [("t", q)])
        sc.mid += 1
        sc.emit(f"pub {p} t 0{k} 1 0 0 {sc.mid}", {p: [f"puback({sc.mid})"], v: [pubstr("t", f"0{k}", q, 0, 0)]}, "delivery-with-free-identifiers")
        if kind == "q2-pubrec":
            sc.emit(f"ack {v} pubrec #1", {v: ["pubrel"]}, "qos2-phase")
        sc.clients[v]["alive"] = False
        sc.emit(f"{rng.choice(['drop', 'disconnect'])} {v}", {v: ["CLOSED"]}, "session-end")
        sc.emit("expire 0", {}, "retransmission-to-ended-session")
        sc.emit("expire 0", {}, "retransmission-to-ended-session")
    s_ = sc.connect(node=0)
    sc.sub(s_, [("t", 1)])
    sc.mid += 1
    sc.emit(f"pub {p} t 09 1 0 0 {sc.mid}", {p: [f"puback({sc.mid})"], s_: [pubstr("t", "09", 1, 0, 0)]}, "acked-publish-not-delivered")
    sc.ops.append(f"ackall {s_}")
    sc.ops.append("pool 0")
    return sc


def corpus_setup_workers_survive_panics(rng):
    """more connections than there are set-up workers (20) open with a first packet that makes the decoder panic; each is
    closed, and the broker still accepts and serves the next client"""
    sc = Scenario(rng, 1, 1)
    w1 = sc.connect(node=0)
    sc.sub(w1, [("wit", 0)])
    w2 = sc.connect(node=0)
    for k in range(24):
        sc.k += 1
        h = f"h{sc.k}"
        sc.emit(f"open {h} 0", {}, "open")
        sc.emit(f"raw {h} {rng.choice(['108080808001', '32020000', '108080808001'])}", {h: ["CLOSED"]}, "connection-left-open-after-malformed-first-packet")
    late = sc.connect(node=0)
    sc.sub(late, [("wit", 0)])
    sc.mid += 1
    sc.emit(f"pub {w2} wit 7a 0 0 0 {sc.mid}", {w1: [pubstr("wit", "7a", 0, 0, 0)], late: [pubstr("wit", "7a", 0, 0, 0)]}, "witness-stalled")
    sc.check_state()
    return sc


def corpus_broken_recipient_does_not_stop_fanout(rng):
    """the connection of one recipient is broken (writes fail) but the broker has not noticed yet: every OTHER matching
    session still gets the message, whichever position the broken one has in the fan-out"""
    sc = Scenario(rng, 1, 1)
    p = sc.connect(node=0)
    subs = [sc.connect(node=0) for _ in range(4)]
    for k, s_ in enumerate(subs):
        sc.sub(s_, [("t", 0 if k < 3 else 1)])
    for victim in subs[:3]:
        sc.ops.append(f"mute {victim} 1")
        sc.mid += 1
        exp = {p: [f"puback({sc.mid})"]}
        for s_ in subs:
            if s_ != victim:
                exp[s_] = [pubstr("t", "0a", sc.clients[s_]["subs"]["t"], 0, 0)]
        sc.emit(f"pub {p} t 0a 1 0 0 {sc.mid}", exp, "delivery")
        sc.ops.append(f"ackall {subs[3]}")
        sc.ops.append(f"mute {victim} 0")
    return sc


def corpus_late_pubrel_after_timeout(rng):
    """a QoS 2 publisher releases its message only after the broker gave the handshake up: the message was never stored, so
    it must not be acknowledged (PUBCOMP) — the client will send it again"""
    sc = Scenario(rng, 1, 1)
    p = sc.connect(node=0)
    s_ = sc.connect(node=0)
    sc.sub(s_, [("t", 0)])
    sc.emit(f"pub {p} t 0a 2 0 0 7", {p: ["pubrec(7)"]}, "qos2-forwarded-early")
    sc.emit("expire 0", {}, "qos2-forwarded-on-timeout")
    sc.emit(f"rawack {p} pubrel 7", {}, "acked-publish-not-delivered")
    sc.emit(f"pub {p} t 0a 2 0 1 7", {p: ["pubrec(7)"]}, "qos2-forwarded-early")
    sc.emit(f"rawack {p} pubrel 7", {p: ["pubcomp(7)"], s_: [pubstr("t", "0a", 0, 0, 1)]}, "delivery")
    return sc


def corpus_takeover_with_unacked_delivery(rng):
    """a session with an unacknowledged delivery is displaced by a newer one with its client id and then ends: it leaves
    the registry, nothing is retransmitted to it, its identifier is free again"""
    sc = Scenario(rng, 1, 1)
    p = sc.connect(node=0)
    a = sc.connect(node=0, cid="idX")
    sc.sub(a, [("t", 1)])
    sc.ops.append("setpool 0 1 2")
    sc.mid += 1
    sc.emit(f"pub {p} t 0a 1 0 0 {sc.mid}", {p: [f"puback({sc.mid})"], a: [pubstr("t", "0a", 1, 0, 0)]}, "delivery")
    b = sc.connect(node=0, cid="idX")
    sc.clients[a]["alive"] = False
    sc.emit(f"ping {a}", {a: ["CLOSED"]}, "displaced-session-still-served")
    sc.check_state()
    sc.emit("expire 0", {}, "retransmission-to-ended-session")
    sc.emit("expire 0", {}, "retransmission-to-ended-session")
    sc.ops.append("pool 0")
    for k in range(3):
        sc.sub(b, [("t", 1)]) if k == 0 else None
        sc.mid += 1
        sc.emit(f"pub {p} t 0{k} 1 0 0 {sc.mid}", {p: [f"puback({sc.mid})"], b: [pubstr("t", f"0{k}", 1, 0, 0)]}, "delivery-with-free-identifiers")
        sc.ops.append(f"ackall {b}")
    sc.ops.append("pool 0")
    return sc


def corpus_takeover_then_stale_snapshot(rng):
    """X connects on node 0 and node 1 learns of it; X re-connects on node 1; before node 0 hears of that it pushes its
    full state to node 1 (the old record once more): node 1 keeps resolving X to the new session only"""
    sc = Scenario(rng, 2, 1)
    sc.ops.append("connect c1 0 idX mp 60 -")
    sc.ops.append("bc 0 1")
    sc.ops.append("connect c2 1 idX mp 60 -")
    sc.ops.append("sync 0 1")
    sc.ops.append("bycid 1 mp idX")
    sc.exp[len(sc.ops) - 1] = ("Sc2", "client-id-resolves-to-displaced-session")
    sc.ops.append("state 1")
    sc.exp[len(sc.ops) - 1] = ("[S,Sc2,idX,mp,2,-] [] [] [Sc2]", "displaced-session-still-listed")
    sc.ops.append("ping c2")
    sc.exp[len(sc.ops) - 1] = ({"c2": ["pingresp"]}, "healthy-session-ended")
    sc.ops.append("gossip")
    sc.ops.append("ping c1")
    sc.exp[len(sc.ops) - 1] = ({"c1": ["CLOSED"]}, "displaced-session-still-served")
    sc.ops.append("gossip")
    sc.ops.append("state 0")
    sc.exp[len(sc.ops) - 1] = ("[S,Sc2,idX,mp,2,-] [] [] []", "displaced-session-still-listed")
    return sc


def corpus_split_length_field_among_many(rng):
    """a well-behaved client's 215-byte QoS 1 PUBLISH arrives in two segments cut inside its remaining-length field while
    more clients than there are set-up workers connect and publish in between: the subscriber gets all 200 payload bytes"""
    sc = Scenario(rng, 1, 1)
    w1 = sc.connect(node=0)
    sc.sub(w1, [("big", 0), ("wit", 0)])
    v = sc.connect(node=0)
    payload = bytes((7 * k + 1) % 256 for k in range(200))
    body = b"\x00\x03big" + b"\x00\x09" + payload
    pkt = bytes([0x32]) + bytes([len(body) % 128 | 128, len(body) // 128]) + body
    sc.emit(f"raw {v} {pkt[:2].hex()}", {}, "partial-packet")
    for k in range(30):
        o = sc.connect(node=0)
        sc.mid += 1
        sc.emit(f"pub {o} wit {'%02x' % k} 0 0 0 {sc.mid}", {w1: [pubstr("wit", "%02x" % k, 0, 0, 0)]}, "witness-stalled")
    sc.emit(f"raw {v} {pkt[2:].hex()}", {v: ["puback(9)"], w1: [pubstr("big", payload.hex(), 0, 0, 0)]}, "bystander-stream-corrupted")
    return sc


def corpus_displacer_gone_before_ping(rng):
    """X is displaced by a newer session with its client id, the newer session leaves again (DISCONNECT or loss), then X
    performs its keep-alive exchange: X is no longer the session of that identifier and stops being served"""
    sc = Scenario(rng, rng.choice([1, 2]), 1)
    a = sc.connect(node=0, cid="idX", will=rng.choice([None, ("w/t", "6465", 0, 0)]))
    sc.sub(a, [("a/#", 1)])
    b = sc.connect(node=sc.nn - 1, cid="idX")
    sc.end(b, rng.choice(["disconnect", "drop"]))
    sc.clients[a]["alive"] = False
    sc.emit(f"ping {a}", {a: ["CLOSED"]}, "displaced-session-still-served")
    sc.gossip()
    sc.check_state()
    return sc


def gen_soup(rng, nn=None, mounts=None, nops=None):
    """every kind of operation the harness has, mixed at random with no script behind it: connects (new, returning,
    displacing, empty and prefix-related identifiers, wills), subscribe / unsubscribe sets, publishes of every QoS (retained,
    empty, QoS 2 with and without its release), acknowledgements given or withheld, pings, the four ways to end, broken
    connections, sweeps, time, write failures of logs and nodes, gossip delivered in whichever order, lost, or replaced
    by full-state exchanges. No expectation is attached: the executable model is the oracle (plus the universal
    monitors: no panic, no runaway, identifiers within 16 bits, and at the end — everything delivered — the listing of
    every node agrees with the model's)."""
    nn = nn or rng.choice([1, 2, 2, 3])
    mounts = mounts or rng.choice([1, 1, 2])
    sc = Scenario(rng, nn, mounts, prefix_names=(mounts > 1 and rng.random() < 0.5))
    live = {}       # name -> dict(node, mount, cid, subs, muted)
    gone_cids = {}  # mount -> set of identifiers whose sessions have ended
    filters = ["a/#", "a/b", "#", "+/b", "w/#", "a/+", "t"]
    topics = ["a/b", "a", "w/t", "t", "a/b/c", f"{sc.mounts[0]}/a"]

    def ack_some():
        for x in list(live):
            if rng.random() < 0.7:
                sc.ops.append(f"ackall {x}")

    n_ops = nops or rng.choice([12, 20, 32])
    for _ in range(n_ops):
        r = rng.random()
        names = sorted(live)
        if r < 0.16 or not names:
            if len(sc.clients) >= 9:
                continue
            mount = rng.choice(sc.mounts)
            kind = rng.random()
            cid = None
            if kind < 0.25 and any(v["mount"] == mount for v in live.values()):
                cid = rng.choice(sorted(v["cid"] for v in live.values() if v["mount"] == mount))     # displaces
            elif kind < 0.45 and gone_cids.get(mount):
                cid = rng.choice(sorted(gone_cids[mount]))                                         # comes back
            elif kind < 0.52:
                cid = "~"
            sc.k += 1
            name = f"c{sc.k}"
            cid = cid or (PREFIX_CID[mount] + str(sc.k // 2) if sc.prefix_names else f"id{sc.k}")
            will = rng.choice([None, None, ("w/t", rng.choice(["6465", "-"]), rng.choice([0, 1, 2]), rng.choice([0, 0, 1]))])
            spec = "-" if not will else f"{will[0]}:{will[1]}:{will[2]}:{will[3]}"
            node = rng.randrange(nn)
            ka = rng.choice([60, 60, 60, 5, 600])
            sc.clients[name] = {"node": node, "mount": mount, "cid": cid, "will": will, "subs": {}, "alive": True}
            for x, v in list(live.items()):
                if v["mount"] == mount and v["cid"] == cid:
                    v["displaced"] = True
            live[name] = {"node": node, "mount": mount, "cid": cid, "muted": False}
            sc.ops.append(f"connect {name} {node} {cid} {mount} {ka} {spec}")
        elif r < 0.30:
            c = rng.choice(names)
            if live[c]["muted"]:
                continue        # (a SUBSCRIBE whose SUBACK fails skips the retained replay: kept out, see Driver/Broker.lean)
            sc.mid += 1
            fl = rng.sample(filters, rng.choice([1, 1, 2, 3]))
            sc.ops.append(f"sub {c} {sc.mid} " + ",".join(f"{f}:{rng.choice([0, 1, 2])}" for f in fl))
            if live.get(c) and not live[c]["muted"]:
                sc.ops.append(f"ackall {c}")
        elif r < 0.35:
            c = rng.choice(names)
            sc.mid += 1
            sc.ops.append(f"unsub {c} {sc.mid} " + ",".join(rng.sample(filters, rng.choice([1, 2]))))
            if live[c]["muted"]:
                live.pop(c)
        elif r < 0.60:
            c = rng.choice(names)
            sc.mid += 1
            q = rng.choice([0, 1, 1, 2])
            retain = 1 if rng.random() < 0.25 else 0
            pl = rng.choice(["01", "0203", "-", "ff"])
            sc.ops.append(f"pub {c} {rng.choice(topics)} {pl} {q} {retain} {rng.choice([0, 0, 1])} {sc.mid}")
            if q == 2:
                if live[c]["muted"]:
                    live.pop(c)
                elif rng.random() < 0.75:
                    sc.ops.append(f"rawack {c} pubrel {sc.mid}")
                    if rng.random() < 0.3:
                        sc.ops.append(f"rawack {c} pubrel {sc.mid}")
            ack_some()
        elif r < 0.66:
            c = rng.choice(names)
            sc.ops.append(f"ping {c}")
            if live[c]["muted"] or live[c].get("displaced"):
                live.pop(c, None)
        elif r < 0.76:
            c = rng.choice(names)
            how = rng.choice(["disconnect", "drop", "drop", "connect-again"])
            v = live.pop(c)
            gone_cids.setdefault(v["mount"], set()).add(v["cid"])
            if how == "connect-again":
                from checks import wirelib
                sc.ops.append(f"raw {c} {wirelib.connect('again', user=v['mount']).hex()}")
            else:
                sc.ops.append(f"{how} {c}")
            ack_some()
        elif r < 0.80:
            c = rng.choice(names)
            live[c]["muted"] = not live[c]["muted"]
            sc.ops.append(f"mute {c} {1 if live[c]['muted'] else 0}")
        elif r < 0.86:
            sc.ops.append(f"expire {rng.randrange(nn)}")
            ack_some()
        elif r < 0.88:
            sc.ops.append(f"elapse {rng.choice([4000, 9000, 70000, 125000])}")
            # whoever was silent for too long is gone; the model knows who — the script only forgets them all
            for x in list(live):
                sc.ops.append(f"ping {x}")
            live = {x: v for x, v in live.items() if False}
        elif r < 0.91:
            n = rng.randrange(nn)
            sc.ops.append(rng.choice([f"logfail {n} all", f"logfail {n} none", f"unreachable {n} 1" if n else f"logfail {n} none", f"unreachable {n} 0" if n else f"logfail {n} none"]))
        elif r < 0.97:
            if nn > 1:
                a, b = rng.sample(range(nn), 2)
                sc.ops.append(rng.choice([f"bc {a} {b}", f"bc {a} {b}", "gossip", f"losegossip {a} {b}", f"sync {a} {b}"]))
        else:
            sc.ops.append(rng.choice([f"state {rng.randrange(nn)}", f"pool {rng.randrange(nn)}", f"log {rng.randrange(nn)}"]))
    # everything is delivered; every node lists the same
    for n in range(nn):
        sc.ops.append(f"logfail {n} none")
        if n:
            sc.ops.append(f"unreachable {n} 0")
    if nn > 1:
        for a in range(nn):
            for b in range(nn):
                if a != b:
                    sc.ops.append(f"sync {a} {b}")
        sc.ops.append("gossip")
    for n in range(nn):
        sc.ops.append(f"state {n}")
        sc.ops.append(f"pool {n}")
    return sc


def gen_broken_recipient_qos(rng):
    """QoS 1/2 subscribers whose connection is broken (writes fail) while messages fan out: the healthy recipients get
    every message, now and after the broken sessions are gone and their exchanges have timed out; no identifier is both
    free and in use (a later delivery to a healthy session is never dropped); at the end every identifier is back"""
    sc = Scenario(rng, 1, 1)
    p = sc.connect(node=0)
    subs = []
    for k in range(rng.choice([2, 3, 4])):
        s_ = sc.connect(node=0)
        sc.sub(s_, [("t", rng.choice([1, 1, 2]))])
        subs.append(s_)
    healthy = list(subs)
    n = 0
    for rnd in range(rng.choice([2, 3])):
        # the recipients are served in subscription order: an early subscriber that breaks is followed by healthy ones
        nv = (rng.choice([1, 1, 2]) if len(healthy) > 2 else 1) if len(healthy) > 1 else 0
        victims = (healthy[:nv] if rng.random() < 0.6 else rng.sample(healthy, nv)) if nv else []
        for v in victims:
            sc.ops.append(f"mute {v} 1")
            healthy.remove(v)
        for _ in range(rng.choice([1, 2, 3])):
            n += 1
            sc.mid += 1
            pl = "%02x" % n
            exp = {p: [f"puback({sc.mid})"]}
            for h in healthy:
                exp[h] = [pubstr("t", pl, sc.clients[h]["subs"]["t"], 0, 0)]
            sc.emit(f"pub {p} t {pl} 1 0 0 {sc.mid}", exp, "delivery")
            # the healthy ones answer, completely or not at all
            for h in healthy:
                if rng.random() < 0.6:
                    sc.ops.append(f"ackall {h}")
        for v in victims:
            how = rng.choice(["drop", "drop", "stay"])
            if how == "drop":
                sc.clients[v]["alive"] = False
                sc.ops.append(f"drop {v}")
            else:
                sc.ops.append(f"mute {v} 0")     # the connection recovers: retransmissions reach it again
                healthy.append(v)
        if rng.random() < 0.7:
            sc.ops.append("expire 0")
            for h in healthy:
                sc.ops.append(f"ackall {h}")
    for h in healthy:
        sc.ops.append(f"ackall {h}")
    sc.ops.append("expire 0")
    for h in healthy:
        sc.ops.append(f"ackall {h}")
    sc.ops.append("expire 0")
    for _ in range(3):
        n += 1
        sc.mid += 1
        pl = "%02x" % n
        exp = {p: [f"puback({sc.mid})"]}
        for h in healthy:
            exp[h] = [pubstr("t", pl, sc.clients[h]["subs"]["t"], 0, 0)]
        sc.emit(f"pub {p} t {pl} 1 0 0 {sc.mid}", exp, "delivery-dropped-for-healthy-session")
        for h in healthy:
            sc.ops.append(f"ackall {h}")
    sc.ops.append("pool 0")
    sc.exp[len(sc.ops) - 1] = ("free=65535 top=65535", "identifier-leaked-or-doubly-free")
    return sc


def gen_answer_lost(rng):
    """connections on which the broker's writes fail (a peer that is gone but not yet noticed): a packet whose answer the
    packet processor writes itself (SUBACK, UNSUBACK, PUBREC, PINGRESP) ends the session as a lost connection — will
    published, subscriptions and records gone on every node; a QoS 0/1 PUBLISH is routed as usual and the session stays"""
    nn = rng.choice([1, 2, 2])
    sc = Scenario(rng, nn, 1)
    w = sc.connect(node=rng.randrange(nn))
    sc.sub(w, [("w/#", rng.choice([0, 1]))])
    obs = sc.connect(node=rng.randrange(nn))
    sc.sub(obs, [("t/#", rng.choice([0, 1, 2]))])
    victims = []
    for k in range(rng.choice([2, 3])):
        v = sc.connect(node=rng.randrange(nn), will=rng.choice([None, (f"w/{k}", "7a", rng.choice([0, 1]), 0), (f"w/{k}", "7b", 0, 0)]))
        sc.sub(v, [(rng.choice(["t/a", "t/#", "u"]), rng.choice([0, 1]))])
        victims.append(v)
    for v in victims:
        sc.ops.append(f"mute {v} 1")
        # first something that does not end the session: the message is routed, the acknowledgement is lost
        if rng.random() < 0.6:
            q = rng.choice([0, 1])
            sc.mid += 1
            deliv = sc.deliveries(sc.clients[v]["mount"], "t/a", "0c", 0)
            deliv.pop(v, None)        # what is written to the muted connection is not seen
            sc.emit(f"pub {v} t/a 0c {q} 0 0 {sc.mid}", {k_: list(x) for k_, x in deliv.items()}, "delivery")
            sc.ack_receivers(deliv)
        kind = rng.choice(["sub", "unsub", "ping", "pub2"])
        exp, deliv = {}, {}
        sc._end_effects(v, "lost", exp, deliv)
        sc.mid += 1
        if kind == "sub":
            op = f"sub {v} {sc.mid} q/x:1,q/y:0"
        elif kind == "unsub":
            op = f"unsub {v} {sc.mid} " + rng.choice(list(sc.clients[v]["subs"]) + ["nosuch"])
        elif kind == "ping":
            op = f"ping {v}"
        else:
            op = f"pub {v} t/a 0d 2 0 0 {sc.mid}"
        sc.emit(op, exp, "session-end-on-lost-answer")
        sc.ack_receivers(deliv)
        sc.gossip()
        if rng.random() < 0.5:
            sc.check_state()
    sc.emit("expire 0", {}, "unexpected-packets")
    p = sc.connect(node=rng.randrange(nn))
    sc.pub(p, "t/a", "0e", 1)
    sc.pub(p, "q/x", "0f", 1)
    sc.check_state()
    return sc


def corpus_alternating_hosts(rng):
    """three sessions subscribe to the same filter on nodes 0, 1, 0 in that order: a matching publish is stored once on
    each hosting node (one copy per subscriber, not per appearance of the node in the recipient list)"""
    sc = Scenario(rng, 2, 1)
    p = sc.connect(node=rng.choice([0, 1]))
    subs = []
    for n in (0, 1, 0, 1, 0):
        s_ = sc.connect(node=n)
        sc.sub(s_, [("t/x", rng.choice([0, 1]))])
        subs.append(s_)
    for pl in ("0a", "0b"):
        sc.pub(p, "t/x", pl, 1)
    sc.ops.append("log 0")
    sc.ops.append("log 1")
    sc.check_state()
    return sc


def corpus_retransmit_then_next(rng):
    """a QoS 1 delivery is retransmitted (its identifier stays in use) and the next message to the same session still
    arrives, under another identifier; everything is returned once both are acknowledged"""
    sc = Scenario(rng, 1, 1)
    p = sc.connect(node=0)
    s_ = sc.connect(node=0)
    sc.sub(s_, [("t", 1)])
    sc.mid += 1
    sc.emit(f"pub {p} t 01 1 0 0 {sc.mid}", {p: [f"puback({sc.mid})"], s_: [pubstr("t", "01", 1, 0, 0)]}, "delivery")
    sc.emit("expire 0", {s_: [pubstr("t", "01", 1, 0, 0)]}, "retransmission")
    sc.mid += 1
    sc.emit(f"pub {p} t 02 1 0 0 {sc.mid}", {p: [f"puback({sc.mid})"], s_: [pubstr("t", "02", 1, 0, 0)]}, "acked-publish-not-delivered")
    sc.emit("expire 0", {s_: [pubstr("t", "01", 1, 0, 0), pubstr("t", "02", 1, 0, 0)]}, "retransmission")
    sc.ops.append("pool 0")
    sc.emit(f"ack {s_} puback #1", {}, "ack")
    sc.emit(f"ack {s_} puback #2", {}, "ack")
    sc.emit("expire 0", {}, "retransmission-after-completion")
    sc.ops.append("pool 0")
    return sc


def corpus_fanout_unacked_retransmit(rng):
    """one message fans out to a QoS 1, a QoS 2 and a QoS 0 subscriber; nobody answers; each retransmission repeats the
    recipient's own packet (its topic, QoS and identifier), and each exchange completes on its own"""
    sc = Scenario(rng, 1, 1)
    p = sc.connect(node=0)
    s1, s2, s0 = sc.connect(node=0), sc.connect(node=0), sc.connect(node=0)
    sc.sub(s1, [("t/#", 1)])
    sc.sub(s2, [("t/+", 2)])
    sc.sub(s0, [("#", 0)])
    sc.mid += 1
    sc.emit(f"pub {p} t/a 01 1 0 0 {sc.mid}", {p: [f"puback({sc.mid})"], s1: [pubstr("t/a", "01", 1, 0, 0)], s2: [pubstr("t/a", "01", 2, 0, 0)],
                                                s0: [pubstr("t/a", "01", 0, 0, 0)]}, "delivery")
    sc.emit("expire 0", {s1: [pubstr("t/a", "01", 1, 0, 0)], s2: [pubstr("t/a", "01", 2, 0, 0)]}, "retransmission")
    sc.emit(f"ack {s1} puback #1", {}, "ack")
    sc.emit("expire 0", {s2: [pubstr("t/a", "01", 2, 0, 0)]}, "retransmission")
    sc.emit(f"ack {s2} pubrec #1", {s2: ["pubrel"]}, "qos2-phase")
    sc.emit(f"ack {s2} pubcomp #1", {}, "ack")
    sc.emit("expire 0", {}, "retransmission-after-completion")
    sc.ops.append("pool 0")
    sc.pub(p, "t/b", "02", 1)
    return sc


def corpus_topic_starts_with_mount_name(rng):
    """a topic whose first level is spelled like the tenant's mount point: deliveries and every retransmission carry the
    topic exactly as published"""
    sc = Scenario(rng, 1, 2)
    m = sc.mounts[0]
    p = sc.connect(node=0, mount=m)
    s1, s2 = sc.connect(node=0, mount=m), sc.connect(node=0, mount=m)
    other = sc.connect(node=0, mount=sc.mounts[1])
    sc.sub(s1, [("#", 1)])
    sc.sub(s2, [(f"{m}/#", 2)])
    sc.sub(other, [("#", 0)])
    t = f"{m}/{m}/x"
    sc.mid += 1
    sc.emit(f"pub {p} {t} 01 1 0 0 {sc.mid}", {p: [f"puback({sc.mid})"], s1: [pubstr(t, "01", 1, 0, 0)], s2: [pubstr(t, "01", 2, 0, 0)]}, "delivery")
    for _ in range(2):
        sc.emit("expire 0", {s1: [pubstr(t, "01", 1, 0, 0)], s2: [pubstr(t, "01", 2, 0, 0)]}, "retransmission")
    sc.ops.append(f"ackall {s1}")
    sc.ops.append(f"ackall {s2}")
    sc.ops.append("pool 0")
    return sc


def corpus_concatenation_collision(rng):
    """two tenants whose mount point + client identifier spell the same string (t1 + 1x, t11 + x): they are different
    clients; neither displaces the other"""
    sc = Scenario(rng, rng.choice([1, 2]), 1)
    a = sc.connect(node=0, mount="t1", cid="1x", will=("w", "61", 0, 0))
    sc.sub(a, [("a/#", 1)])
    b = sc.connect(node=sc.nn - 1, mount="t11", cid="x")
    sc.sub(b, [("a/#", 1)])
    sc.emit(f"ping {a}", {a: ["pingresp"]}, "other-tenant-disturbed")
    sc.emit(f"ping {b}", {b: ["pingresp"]}, "other-tenant-disturbed")
    sc.check_state()
    a2 = sc.connect(node=0, mount="t1", cid="1x")
    sc.clients[a]["alive"] = False
    sc.emit(f"ping {a}", {a: ["CLOSED"]}, "displaced-session-still-served")
    sc.emit(f"ping {b}", {b: ["pingresp"]}, "other-tenant-disturbed")
    sc.gossip()
    sc.check_state()
    return sc


def corpus_empty_client_id_takeover(rng):
    """the empty client identifier is an identifier like any other: a second CONNECT with it (same tenant) displaces the first"""
    sc = Scenario(rng, rng.choice([1, 2]), 1)
    a = sc.connect(node=0, cid="~")
    sc.clients[a]["cid"] = "0x"      # how an empty string is shown
    sc.sub(a, [("a/#", 1)])
    b = sc.connect(node=sc.nn - 1, cid="~")
    sc.clients[b]["cid"] = "0x"
    sc.clients[a]["alive"] = False
    sc.emit(f"ping {a}", {a: ["CLOSED"]}, "displaced-session-still-served")
    sc.emit(f"ping {b}", {b: ["pingresp"]}, "healthy-session-ended")
    sc.gossip()
    sc.check_state()
    return sc


def corpus_suback_unwritable(rng):
    """the connection breaks while the broker answers a SUBSCRIBE (the SUBACK cannot be written): the session ends as by
    a lost connection and none of its subscriptions stays behind, on any node"""
    sc = Scenario(rng, 2, 1)
    w = sc.connect(node=1)
    sc.sub(w, [("w/#", 0)])
    p = sc.connect(node=1)
    v = sc.connect(node=0, will=("w/v", "76", 0, 0))
    sc.sub(v, [("keep", 0)])
    sc.ops.append(f"mute {v} 1")
    sc.mid += 1
    sc.clients[v]["alive"] = False
    sc.emit(f"sub {v} {sc.mid} x/y:1,z:0", {v: ["CLOSED"], w: [pubstr("w/v", "76", 0, 0, 0)]}, "session-end")
    sc.gossip()
    sc.check_state()
    sc.pub(p, "x/y", "01", 1)
    sc.ops.append("log 0")
    sc.exp[len(sc.ops) - 1] = ("[]", "message-stored-for-vanished-subscriber")
    return sc


def corpus_connack_unwritable(rng):
    """the connection breaks while the broker answers CONNECT (the CONNACK cannot be written): the session that was set
    up ends at once as by a lost connection — its will is published, nothing of it stays listed"""
    from checks import wirelib
    sc = Scenario(rng, 2, 1)
    m = sc.mounts[0]
    w = sc.connect(node=1)
    sc.sub(w, [("w/#", 1)])
    h = sc.open(node=0)
    sc.ops.append(f"mute {h} 1")
    del sc.handshakes[h]
    pkt = wirelib.connect("idH", user=m, will=("w/h", b"h", 0, 0))
    sc.emit(f"raw {h} {pkt.hex()}", {h: ["CLOSED"], w: [pubstr("w/h", "68", 1, 0, 0)]}, "will-of-half-open-session")
    sc.ops.append(f"ackall {w}")
    sc.gossip()
    sc.check_state()
    return sc


def corpus_clean_end_overtakes_creation_then_node_fails(rng):
    """a session with a will connects and DISCONNECTs on node 1; node 0 hears of the end before the beginning; then node 1
    fails: the will of the cleanly ended session is not published"""
    sc = Scenario(rng, 2, 1)
    w = sc.connect(node=0)
    sc.sub(w, [("#", rng.choice([0, 1]))])
    sc.ops.append("connect c9 1 idA mp 60 w/t:6279:0:0")
    sc.ops.append("disconnect c9")
    # pending 1->0: [S-create, S-delete]
    sc.ops.append("bcone 1 0 1")
    sc.ops.append("bc 1 0")
    sc.ops.append("state 0")
    sc.exp[len(sc.ops) - 1] = (f"[S,S{w},{sc.clients[w]['cid']},mp,1,-] [U,S{w},mp/#,1,{sc.clients[w]['subs']['#']}] [] [S{w}]", "ended-session-still-listed")
    sc.emit("nodefail 1", {}, "will-after-clean-disconnect")
    sc.ops.append("idle 3200")
    sc.ops.append("state 0")
    sc.exp[len(sc.ops) - 1] = (f"[S,S{w},{sc.clients[w]['cid']},mp,1,-] [U,S{w},mp/#,1,{sc.clients[w]['subs']['#']}] [] [S{w}]", "traces-of-failed-node")
    return sc


def corpus_unsubscribe_overtakes_subscribe(rng):
    """node 0 hears of an UNSUBSCRIBE on node 1 before it hears of the SUBSCRIBE: the subscription must not come to life
    there — a matching publish on node 0 is not routed to node 1"""
    sc = Scenario(rng, 2, 1)
    p = sc.connect(node=0)
    sc.ops.append("connect c9 1 idA mp 60 -")
    sc.ops.append("bc 1 0")
    sc.ops.append("sub c9 5 a/#:1")
    sc.ops.append("unsub c9 6 a/#")
    # pending 1->0: [U-create a/#, U-delete a/#]
    sc.ops.append("bcone 1 0 1")
    sc.ops.append("bc 1 0")
    sc.ops.append("state 0")
    sc.exp[len(sc.ops) - 1] = ("[" + " ".join(sorted([f"S,Sc9,idA,mp,2,-", f"S,S{p},{sc.clients[p]['cid']},mp,1,-"])) + f"] [] [] [S{p}]", "removed-subscription-listed")
    sc.mid += 1
    sc.emit(f"pub {p} a/b 01 1 0 0 {sc.mid}", {p: [f"puback({sc.mid})"]}, "delivery")
    sc.ops.append("log 1")
    sc.exp[len(sc.ops) - 1] = ("[]", "message-routed-to-node-without-subscriber")
    sc.ops.append("log 0")
    sc.exp[len(sc.ops) - 1] = ("[]", "message-routed-to-node-without-subscriber")
    return sc


def corpus_returning_client_will(rng):
    """a client identifier that was used before (its earlier sessions ended, by DISCONNECT and by loss) connects again with
    a will and is then lost: the will is published — the removed records of its predecessors are nobody's sessions"""
    sc = Scenario(rng, rng.choice([1, 2]), 1)
    w = sc.connect(node=0)
    sc.sub(w, [("w/#", 0)])
    a = sc.connect(node=sc.nn - 1, cid="idR")
    sc.end(a, "disconnect")
    b = sc.connect(node=0, cid="idR", will=("w/b", "62", 0, 0))
    sc.end(b, "drop")
    c_ = sc.connect(node=sc.nn - 1, cid="idR", will=("w/c", "63", 0, 0))
    sc.emit(f"ping {c_}", {c_: ["pingresp"]}, "healthy-session-ended")
    sc.end(c_, "drop")
    sc.check_state()
    return sc


def corpus_qos2_handshakes_with_large_ids(rng):
    """two inbound QoS 2 handshakes open at once under client-chosen identifiers from the whole 16-bit range (the
    extremes 1 and 65535, and pairs from 55296..57343 — code points a string conversion would merge): each PUBREL
    releases its own message, once"""
    sc = Scenario(rng, 1, 1)
    p = sc.connect(node=0)
    s_ = sc.connect(node=0)
    sc.sub(s_, [("t/#", 0)])
    for a, b in ((55300, 55296), (57343, 56000), (65535, 1), (32768, 32767)):
        sc.emit(f"pub {p} t/a {a % 251:02x} 2 0 0 {a}", {p: [f"pubrec({a})"]}, "qos2-forwarded-early")
        sc.emit(f"pub {p} t/b {b % 251:02x} 2 0 0 {b}", {p: [f"pubrec({b})"]}, "qos2-forwarded-early")
        sc.emit(f"rawack {p} pubrel {a}", {p: [f"pubcomp({a})"], s_: [pubstr("t/a", f"{a % 251:02x}", 0, 0, 0)]}, "delivery")
        sc.emit(f"rawack {p} pubrel {a}", {}, "qos2-forwarded-twice")
        sc.emit(f"rawack {p} pubrel {b}", {p: [f"pubcomp({b})"], s_: [pubstr("t/b", f"{b % 251:02x}", 0, 0, 0)]}, "delivery")
    sc.emit("expire 0", {}, "unexpected-packets")
    sc.ops.append("pool 0")
    return sc


def corpus_publish_workers_survive_failures(rng):
    """more failed distributions than there are publish workers (20), then the failure goes away: publishes are served
    again, and so is the will of a session that is lost"""
    sc = Scenario(rng, 1, 1)
    w = sc.connect(node=0)
    sc.sub(w, [("#", 0)])
    p = sc.connect(node=0)
    v = sc.connect(node=0, will=("w/v", "76", 0, 0))
    sc.ops.append("logfail 0 all")
    for k in range(24):
        sc.mid += 1
        sc.emit(f"pub {p} t {k:02x} 1 0 0 {sc.mid}", {}, "ack-despite-failed-write")
    sc.ops.append("logfail 0 none")
    sc.pub(p, "t", "aa", 1)
    sc.end(v, "drop")
    sc.pub(p, "t", "bb", 0)
    sc.check_state()
    return sc


def corpus_same_client_id_other_tenant_will(rng):
    """two tenants use the same client identifier, both connected; one of them is lost: its will is published (the other
    tenant's session is nobody's reconnection), inside its own tenant only"""
    sc = Scenario(rng, rng.choice([1, 2]), 2)
    m1, m2 = sc.mounts
    w1 = sc.connect(node=0, mount=m1)
    sc.sub(w1, [("#", 0)])
    w2 = sc.connect(node=0, mount=m2)
    sc.sub(w2, [("#", 0)])
    a = sc.connect(node=sc.nn - 1, mount=m1, cid="shared", will=("w/a", "61", 0, 0))
    b = sc.connect(node=0, mount=m2, cid="shared", will=("w/b", "62", 0, 0))
    sc.end(a, "drop")
    sc.emit(f"ping {b}", {b: ["pingresp"]}, "other-tenant-disturbed")
    sc.end(b, "drop")
    sc.check_state()
    return sc


def corpus_local_log_fails_remote_accepts(rng):
    """subscribers on both nodes; the publisher's own node cannot store the message while the other node can (and the
    other way round): no acknowledgement, whichever destination is tried first — six publishes each way"""
    sc = Scenario(rng, 2, 1)
    p = sc.connect(node=0)
    s0 = sc.connect(node=0)
    s1 = sc.connect(node=1)
    sc.sub(s0, [("t", 0)])
    sc.sub(s1, [("t", 0)])
    for bad, good, reader in ((0, 1, s1), (1, 0, s0)):
        sc.ops.append(f"logfail {bad} all")
        sc.ops.append(f"logfail {good} none")
        for k in range(6):
            sc.mid += 1
            pl = "%02x" % sc.mid
            sc.emit(f"pub {p} t {pl} 1 0 0 {sc.mid}", {reader: [pubstr("t", pl, 0, 0, 0)]}, "ack-despite-failed-write")
    sc.ops.append("logfail 0 none")
    sc.ops.append("logfail 1 none")
    sc.pub(p, "t", "aa", 1)
    return sc


def corpus_same_topic_resolved_before_and_after_remote_subscribe(rng):
    """the destinations of a publish are resolved afresh every time: a topic is published (nobody elsewhere listens), a
    subscription for it is made on ANOTHER node and arrives by gossip, and the very next thing the publisher's node
    resolves is the same topic again — with the other node's log healthy (the subscriber must get it) and failing (no
    acknowledgement); then the remote subscription goes away again and the same topic is published once more"""
    sc = Scenario(rng, 2, 1)
    p = sc.connect(node=0)
    local = sc.connect(node=0)
    sc.sub(local, [("t/x", 0)])
    for q in (1, 2, 1):
        sc.pub(p, "t/x", "%02x" % (sc.mid + 1), q)
    remote = sc.connect(node=1)
    sc.sub(remote, [("t/+", 1)])
    sc.pub(p, "t/x", "a1", 1)
    sc.pub(p, "t/x", "a2", 2)
    sc.ops.append("logfail 1 all")
    sc.mid += 1
    sc.emit(f"pub {p} t/x a3 1 0 0 {sc.mid}", {local: [pubstr("t/x", "a3", 0, 0, 0)]}, "ack-despite-failed-write")
    sc.ops.append("logfail 1 none")
    sc.unsub(remote, ["t/+"])
    sc.pub(p, "t/x", "a4", 1)
    sc.sub(remote, [("t/x", 0)])
    sc.pub(p, "t/x", "a5", 1)
    return sc


def corpus(rng, names):
    table = {"same-topic-before-and-after-remote-subscribe": corpus_same_topic_resolved_before_and_after_remote_subscribe,
             "displacer-gone-before-ping": corpus_displacer_gone_before_ping,
             "returning-client-will": corpus_returning_client_will,
             "qos2-large-ids": corpus_qos2_handshakes_with_large_ids,
             "local-log-fails-remote-accepts": corpus_local_log_fails_remote_accepts,
             "publish-workers-survive-failures": corpus_publish_workers_survive_failures,
             "same-client-id-other-tenant-will": corpus_same_client_id_other_tenant_will,
             "alternating-hosts": corpus_alternating_hosts, "retransmit-then-next": corpus_retransmit_then_next,
             "fanout-unacked-retransmit": corpus_fanout_unacked_retransmit,
             "topic-starts-with-mount-name": corpus_topic_starts_with_mount_name,
             "concatenation-collision": corpus_concatenation_collision,
             "empty-client-id-takeover": corpus_empty_client_id_takeover,
             "suback-unwritable": corpus_suback_unwritable, "connack-unwritable": corpus_connack_unwritable,
             "clean-end-overtakes-creation-then-node-fails": corpus_clean_end_overtakes_creation_then_node_fails,
             "unsubscribe-overtakes-subscribe": corpus_unsubscribe_overtakes_subscribe,
             "broken-recipient": corpus_broken_recipient_does_not_stop_fanout,
             "late-pubrel-after-timeout": corpus_late_pubrel_after_timeout,
             "takeover-with-unacked-delivery": corpus_takeover_with_unacked_delivery,
             "takeover-then-stale-snapshot": corpus_takeover_then_stale_snapshot,
             "split-length-field-among-many": corpus_split_length_field_among_many,
             "setup-workers-survive-panics": corpus_setup_workers_survive_panics,
             "same-client-id-overlapping-qos2": corpus_same_client_id_overlapping_qos2,
             "clear-before-publish-arrives": corpus_clear_before_publish_arrives,
             "ids-return-after-recipient-vanished": corpus_ids_return_after_recipient_vanished,
             "slow-qos2": corpus_slow_qos2_then_next, "first-message": corpus_first_message,
             "inbound-outbound-id": corpus_inbound_outbound_same_id, "wrong-type-ack": corpus_wrong_type_ack,
             "removal-overtakes-creation": corpus_removal_overtakes_creation, "takeover-out-of-order": corpus_takeover_seen_out_of_order,
             "same-client-id-two-tenants": corpus_same_client_id_two_tenants}
    return [table[n](rng) for n in names]

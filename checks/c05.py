from checks.brokerchecks import c05 as main

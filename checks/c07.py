"""C07 — retained: the last non-empty publish per topic is replayed to new subscribers.
Theorems: lean/Wasp/Properties/C07.lean (Match characterisation by MQTT matching, once; independence of topics; Get;
set-then-get / clear-then-get) + the inbound model's replay theorem (Properties/C05 file, SUBSCRIBE branch).
Tie: (1) `rettree`: topic sets with shared prefixes (all topics <=3 levels over {a,b,c,empty}) stored/replaced/cleared in random
histories, matched with EVERY filter of <=3 levels over {a,b,c,+,#,empty}; (2) `dist`: retained publish / clear histories on
real TopicsState, Get(filter), also on a second node after gossip / snapshot; (3) `broker`: PUBLISH packets with the retain bit
read right after SUBACK (checks/brokerlib.py).
Monitor: a python dict (topic -> last non-empty payload) filtered with the MQTT matching relation."""
from checklib import Suite, Check
from checks.trielib import all_level_lists, mqtt_match, wf_filter, enc, parse_list

FALPHA = ["a", "b", "c", "+", "#", ""]
TALPHA = ["a", "b", "c", ""]


def main(tier=None):
    c = Check("C07", ["Wasp.Properties.C07", "Wasp.Properties.E2E", "Wasp.Properties.E2ERetainWill"], tier)
    c.build()
    rng = c.rng
    samples = []
    filters = [f for f in all_level_lists(FALPHA, 3)]
    topics = list(all_level_lists(TALPHA, 3))
    ops, expect, cases = [], {}, 0
    for _ in range(40 if c.tier == "quick" else 800):
        ops.append("new")
        store = {}
        base = rng.choice(topics)
        cand = [t for t in topics if t[:1] == base[:1]] + rng.sample(topics, 4)
        for _ in range(rng.choice([3, 8, 20])):
            t = enc(rng.choice(cand))
            r = rng.random()
            if r < 0.65:
                v = rng.choice(["01", "02", "0304"])
                ops.append(f"ins {t} {v}")
                store[t] = v
            elif r < 0.9:
                ops.append(f"rm {t}")
                store.pop(t, None)
            else:
                ops.append("dumpload")
        fl = filters if rng.random() < 0.25 else rng.sample(filters, 30)
        for f in fl:
            ops.append(f"match {enc(f)}")
            if wf_filter(f):
                expect[len(ops) - 1] = sorted(v for t, v in store.items() if mqtt_match(f, t.replace("~", "").split("/")))
            cases += 1
        ops.append("count")
        expect[len(ops) - 1] = str(len(store))

    def mon(ops_, impl):
        out = []
        for i, exp in expect.items():
            if isinstance(exp, str):
                if impl[i] != exp:
                    out.append((i, "count", f"Count = {impl[i]}, topics holding a message: {exp}"))
                continue
            if not impl[i].startswith("["):
                out.append((i, "panic", f"`{ops_[i]}` -> {impl[i]}"))
            elif sorted(parse_list(impl[i])) != exp:
                out.append((i, "wrong-retained-set", f"`{ops_[i]}` = {impl[i]}, retained messages on matching topics: {exp}"))
        return out
    c.run_suite(Suite("retained-trie-all-filters", "rettree", ops, mon, {"cases": cases, "nontrivial": cases, "filters": len(filters), "topics": len(topics)}))
    samples.append({"suite": "retained-trie-all-filters", "ops": ops[:10]})
    # 2. TopicsState histories, one node and a replica
    ops, expect, cases = [], {}, 0
    tops = ["mp/a", "mp/a/b", "mp/a/b/c", "mp/a/c", "mp/b", "mp/", "mp/a//b", "mq/a"]
    pats = ["mp/#", "mp/a/#", "mp/+", "mp/a/+", "mp/+/b", "mp/a", "mp/a/b", "#", "+/a", "mq/#", "mp/a//b", "mp/+/+/c", "mp//"]
    for _ in range(120 if c.tier == "quick" else 2500):
        ops.append("reset")
        store = {}
        for _ in range(rng.choice([2, 5, 10])):
            t = rng.choice(tops)
            if rng.random() < 0.7:
                v, q = rng.choice(["01", "02", "0304"]), rng.choice([0, 1])
                ops.append(f"tset 0 {t} {v} {q} 1")
                store[t] = f"R,{t},{v},{q},1"
            else:
                ops.append(f"tdel 0 {t}")
                store.pop(t, None)
        replica = rng.choice([None, "gossip", "sync", "partial+sync", "partial+sync"])
        if replica == "gossip":
            ops.append("deliverall 0 1")
        elif replica == "sync":
            ops.append("sync 0 1")
        elif replica == "partial+sync":
            # the replica missed part of the gossip, then gets a full-state exchange
            for k in range(12):
                if rng.random() < 0.5:
                    ops.append(f"deliver 0 {k} 1")
            ops.append("sync 0 1")
        for p in pats:
            for node in ((0, 1) if replica else (0,)):
                ops.append(f"tget {node} {p}")
                expect[len(ops) - 1] = sorted(v for t, v in store.items() if mqtt_match(p.split("/"), t.split("/")))
                cases += 1
    c.run_suite(Suite("topicsstate-histories", "dist", ops, mon, {"cases": cases, "nontrivial": cases}, resets=("reset",)))
    samples.append({"suite": "topicsstate-histories", "ops": ops[:10]})
    from checks import brokerlib
    brokerlib.add_c07_suites(c, samples)
    return c.finish(samples=samples,
                    rule="case = one (history of retained publishes/clears, filter) query; topic sets share prefixes; filters are all "
                         "level lists of <=3 levels over {a,b,c,+,#,empty} (oracle judges the well-formed ones)")

from checks.brokerchecks import c11 as main
